(* Proofs/CommitDirs2Write.v -- which node a build_file function leaves at its target:
   the one its last Write produced.

   [run_N]      along a run, a regular-file node that is new at some path x appears only
                at the current target, or at a path that was not claimed when the run
                started (a nested build_file target);
   [lastw]      a ghost function following [run]: the (bytes, mtime) of the last Write the
                program executes on its own target (Writes of nested functions go to their
                own targets);
   [run_lastw]  if the target p is claimed, then after the run the regular file at p, if
                any, has the bytes and the mtime recorded by [lastw];
   [rebuilt_node_is_last_write]  for a build_file call that rebuilds and succeeds: the file
                at p has the bytes (and mtime) of the last Write of its function, and the
                record of the call carries [cmp_of] of that node.  With
                CommitDirs2FileMain.built_files_recorded (the invariant XW is kept by every
                later step) this is the node still there after the commit.
   Any previous cache.  New file of round 3; edits nothing. *)
From Coq Require Import List String Ascii NArith ZArith Bool Arith Lia.
From FB.Base Require Import PyVal Fs.
From FB.Gen Require Import JsonUtilGen.
From FB.Spec Require Import Prog.
From FB.Model Require Import Types Monad CreatedFiles BuildDirs SimpleOps Builder Persist Build Run Frame Core.
From FB.Proofs Require Import CmpLaws HashMemoInv HashMemoRun.
From FB.Proofs Require Import FsLemmas ReplayLaws FrameLaws CleanLaws BuildFileLaws RollbackDirsLaws
     RollbackDirsView RollbackDirsBase RollbackDirsInv RollbackDirsMake RollbackDirsRun
     CommitDirsInv CommitDirsRun CommitDirs2File.
Import ListNotations.
Local Open Scope list_scope.

(* the end of build_file never creates a regular file *)
Lemma bf_fail_fb : forall p c f sa skw subs e w w' r, bf_fail p c f sa skw subs e w = (w', r) -> fback w w'.
Proof.
  intros p c f sa skw subs e w w' r H. unfold bf_fail in H. cbv zeta in H.
  match type of H with (match ?Z with _ => _ end) = _ => destruct Z as [w1 x] eqn:E end.
  assert (W : w1 = w') by (destruct x; inversion H; reflexivity). subst w1. clear H.
  apply bind_inv in E. destruct E as [(wa & u & E1 & E2) | (e1 & E1 & ->)].
  2:{ exact (fstep_fback _ _ (try_to_remove_file_fs p _ _ _ E1)). }
  apply (fback_trans w wa w'); [exact (fstep_fback _ _ (try_to_remove_file_fs p _ _ _ E1))|].
  apply bind_inv in E2. destruct E2 as [(wb & u' & E2 & E3) | (e1 & E2 & ->)].
  - apply (fback_trans wa wb w'); [exact (svb_fback _ _ (m_bd_error_svb p _ _ _ E2))|].
    unfold new_finish_building_file, modify in E3. inversion E3; subst. apply fback_same. reflexivity.
  - exact (svb_fback _ _ (m_bd_error_svb p _ _ _ E2)).
Qed.

Lemma bf_finish_fb : forall p c f sa skw res subs w w' r, bf_finish p c f sa skw res subs w = (w', r) -> fback w w'.
Proof.
  intros p c f sa skw res subs w w' r H. unfold bf_finish in H.
  destruct res as [v|e]; [|eapply bf_fail_fb; eassumption].
  destruct (sanitize v) as [sv|]; [|eapply bf_fail_fb; eassumption].
  destruct (noneable_cmp p c w) as [w4 rc] eqn:Ec.
  pose proof (svb_fback _ _ (noneable_cmp_svb p c _ _ _ Ec)) as F4.
  apply (fback_trans w w4 w'); [exact F4|].
  destruct rc as [cmp|e]; [|eapply bf_fail_fb; eassumption].
  destruct cmp; try (eapply bf_fail_fb; eassumption);
    (destruct (new_finish_building_file p _ w4) as [w5 u] eqn:E5; inversion H; subst;
     unfold new_finish_building_file, modify in E5; inversion E5; subst; apply fback_same; reflexivity).
Qed.

Section WriteN.

Variable fs0 : fsT.
Variable old : cache.
Variable cf : path.
Variable P : path -> Prop.
Variable X : list path.
Hypothesis HypA : forall a t, Tgt old cf P t -> below a t = true -> ~ P a.
Hypothesis HS : forall a t, Tgt old cf P t -> below a t = true -> notorig fs0 a.

Notation FI := (FInv fs0 old cf P X).
Notation EI := (EInv fs0 old cf P).
Notation GP := (GPO fs0 old cf P X).

(* new regular-file nodes: at the target, or at a path that was not claimed *)
Definition nnew (target : option path) (w w' : world) : Prop :=
  forall x g, lookup (w_fs w') x = Some (NFile g) ->
    lookup (w_fs w) x = Some (NFile g) \/ target = Some x \/ cache_has_file (w_new w) x = false.

Lemma has_stable : forall w w' x, stable w w' -> cache_has_file (w_new w') x = false -> cache_has_file (w_new w) x = false.
Proof.
  intros w w' x S H. destruct (cache_has_file (w_new w) x) eqn:E; [|reflexivity].
  pose proof (S x E) as K. unfold cache_has_file in *. rewrite K in H. congruence.
Qed.

Lemma nnew_trans : forall t a b c, stable a b -> nnew t a b -> nnew t b c -> nnew t a c.
Proof.
  intros t a b c S H1 H2 x g Hx. destruct (H2 x g Hx) as [Y|[Y|Y]].
  - exact (H1 x g Y).
  - right; left; exact Y.
  - right; right. exact (has_stable _ _ _ S Y).
Qed.

Lemma nnew_fback : forall t w w', fback w w' -> nnew t w w'.
Proof. intros t w w' F x g Hx. left. exact (F _ _ Hx). Qed.

Lemma m_build_file_N : forall t t' p c f a kw (fn : path -> pyval -> pyval -> body) w w' res, P p ->
  (forall sa skw, pres (GP (Some p)) (fn p sa skw)) ->
  (forall sa skw w2 w3 r0, FI w2 -> EI w2 -> tcond (Some p) w2 -> gcond (Some p) w2 ->
     fn p sa skw w2 = (w3, r0) -> nnew (Some p) w2 w3) ->
  FI w -> EI w -> tcond t w -> gcond t w ->
  m_build_file p c f a kw fn w = (w', res) -> nnew t' w w'.
Proof.
  intros t t' p c f a kw fn w w' res HPp HfnG HfnN Fw Ew Tw Gw H.
  rewrite BuildFileLaws.m_build_file_unfold in H.
  destruct (sanitize a) as [sa|]; [|inversion H; subst; apply nnew_fback, fback_refl].
  destruct (sanitize kw) as [skw|]; [|inversion H; subst; apply nnew_fback, fback_refl].
  destruct (BuildFileLaws.bf_setup p c f sa skw w) as [w1 r1] eqn:Es.
  pose proof (bf_setup_fb p c f sa skw _ _ _ Es) as Fb1.
  destruct r1 as [[[o|[e o]]|]|e]; try (inversion H; subst; apply nnew_fback; exact Fb1).
  destruct (bf_setup_G fs0 old cf P X HypA HS t p c f sa skw HPp _ _ _ Es Fw Ew Tw Gw) as (F1 & _ & Ew1 & S1).
  pose proof (RollbackDirsLaws.bf_setup_none _ _ _ _ _ _ _ Es) as Hb1.
  pose proof (bf_setup_none_pending _ _ _ _ _ _ _ Es) as Hp1.
  pose proof (bf_setup_fresh _ _ _ _ _ _ _ _ Es) as Hfree.
  unfold bf_rebuild in H.
  destruct (fn p sa skw (bf_invoke_world p f sa skw w1)) as [w3 [res3 subs3]] eqn:Ef.
  assert (Ti : tcond (Some p) (bf_invoke_world p f sa skw w1)) by (intros q Y; inversion Y; subst; exact Hb1).
  assert (Gi : gcond (Some p) (bf_invoke_world p f sa skw w1)) by (intros q Y; inversion Y; subst; exact Hp1).
  destruct (GRel_set_log fs0 old cf P X (Some p) (LInvoke f (Some p) sa skw :: w_log w1) w1 F1 Ew1 Ti Gi)
    as (Fi & _ & Ewi & _).
  change (set_log (LInvoke f (Some p) sa skw :: w_log w1) w1) with (bf_invoke_world p f sa skw w1) in Fi, Ewi.
  pose proof (HfnN sa skw _ _ _ Fi Ewi Ti Gi Ef) as N3.
  pose proof (bf_finish_fb _ _ _ _ _ _ _ _ _ _ H) as Fb3.
  intros x g Hx. pose proof (Fb3 _ _ Hx) as Hx3.
  destruct (N3 x g Hx3) as [Y|[Y|Y]].
  - left. exact (Fb1 _ _ Y).
  - inversion Y; subst x. right; right. exact Hfree.
  - right; right. cbn [w_new bf_invoke_world set_log] in Y. exact (has_stable _ _ _ S1 Y).
Qed.

Lemma m_subbuild_N : forall t t' f a kw (fn : pyval -> pyval -> body) w w' res,
  (forall sa skw w2 w3 r0, FI w2 -> EI w2 -> tcond t w2 -> gcond t w2 -> fn sa skw w2 = (w3, r0) -> nnew None w2 w3) ->
  FI w -> EI w -> tcond t w -> gcond t w ->
  m_subbuild f a kw fn w = (w', res) -> nnew t' w w'.
Proof.
  intros t t' f a kw fn w w' res HfnN Fw Ew Tw Gw H.
  rewrite BuildFileLaws.m_subbuild_unfold in H.
  destruct (sanitize a) as [sa|]; [|inversion H; subst; apply nnew_fback, fback_refl].
  destruct (sanitize kw) as [skw|]; [|inversion H; subst; apply nnew_fback, fback_refl].
  destruct (sb_setup f sa skw w) as [w1 r1] eqn:Es.
  pose proof (sb_setup_fb f sa skw _ _ _ Es) as Fb1.
  destruct r1 as [[[o|[e o]]|]|e]; try (inversion H; subst; apply nnew_fback; exact Fb1).
  destruct (sb_setup_G fs0 old cf P X HypA HS t f sa skw _ _ _ Es Fw Ew Tw Gw) as (F1 & L1 & Ew1 & S1).
  assert (T1 : tcond t w1) by (intros q Hq; apply L1, Tw, Hq).
  assert (G1 : gcond t w1) by (eapply gcond_stable; eauto).
  unfold sb_rebuild in H.
  destruct (fn sa skw (sb_invoke_world f sa skw w1)) as [w3 [res3 subs3]] eqn:Ef.
  destruct (GRel_set_log fs0 old cf P X t (LInvoke f None sa skw :: w_log w1) w1 F1 Ew1 T1 G1) as (Fi & Li & Ewi & Si).
  change (set_log (LInvoke f None sa skw :: w_log w1) w1) with (sb_invoke_world f sa skw w1) in Fi, Ewi, Li, Si.
  assert (Ti : tcond t (sb_invoke_world f sa skw w1)) by (intros q Hq; apply Li, T1, Hq).
  assert (Gi : gcond t (sb_invoke_world f sa skw w1)) by (eapply gcond_stable; eauto).
  pose proof (HfnN sa skw _ _ _ Fi Ewi Ti Gi Ef) as N3.
  assert (Fb3 : fback w3 w').
  { unfold sb_finish in H. cbv zeta in H.
    assert (Hfin : forall o w4 u, new_finish_subbuild (subbuild_key f sa skw) o w3 = (w4, u) -> fback w3 w4).
    { intros o w4 u E. unfold new_finish_subbuild, modify in E. inversion E; subst. apply fback_same. reflexivity. }
    destruct res3 as [v|e].
    - destruct (sanitize v);
        match type of H with (match ?Z with _ => _ end) = _ => destruct Z as [w4 u] eqn:E4 end;
        inversion H; subst; eapply Hfin; exact E4.
    - match type of H with (match ?Z with _ => _ end) = _ => destruct Z as [w4 u] eqn:E4 end.
      inversion H; subst. eapply Hfin; exact E4. }
  intros x g Hx. pose proof (Fb3 _ _ Hx) as Hx3.
  destruct (N3 x g Hx3) as [Y|[Y|Y]].
  - left. exact (Fb1 _ _ Y).
  - discriminate Y.
  - right; right. cbn [w_new sb_invoke_world set_log] in Y. exact (has_stable _ _ _ S1 Y).
Qed.

Theorem run_N : forall pr, AllTargets P pr ->
  forall target subs w w' res,
    FI w -> EI w -> tcond target w -> gcond target w ->
    run pr target subs w = (w', res) -> nnew target w w'.
Proof.
  intros pr Hat.
  induction Hat as [v | e | s q k Hk IHk | c k Hk IHk | s p c f a kw fn k Hp Hfn IHfn Hk IHk
                    | s f a kw fn k Hfn IHfn Hk IHk];
    intros target subs w w' res Fw Ew Tw Gw H; cbn [run] in H.
  - inversion H; subst. apply nnew_fback, fback_refl.
  - inversion H; subst. apply nnew_fback, fback_refl.
  - destruct s; [eapply IHk; eauto|].
    destruct (m_query q w) as [w1 [r1 o]] eqn:E.
    pose proof (m_query_svb q _ _ _ E) as (Fq & _ & _ & _ & Nq & _).
    destruct (m_query_G fs0 old cf P X target q _ _ _ E Fw Ew Tw Gw) as (F1 & L1 & Ew1 & S1).
    assert (T1 : tcond target w1) by (intros x Hx; apply L1, Tw, Hx).
    assert (G1 : gcond target w1) by (eapply gcond_stable; eauto).
    set (r' := user_answer q r1 w1) in *.
    destruct (GRel_log_answer fs0 old cf P X target q r' w1 F1 Ew1 T1 G1) as (F2 & L2 & Ew2 & S2).
    assert (N2 : nnew target (log_answer q r' w1) w').
    { eapply IHk; [exact F2 | exact Ew2 | | | exact H]; [intros x Hx; apply L2, T1, Hx | eapply gcond_stable; eauto]. }
    assert (Ef : w_fs (log_answer q r' w1) = w_fs w) by (unfold log_answer; destruct r' as [?|[]]; exact Fq).
    assert (En : w_new (log_answer q r' w1) = w_new w) by (unfold log_answer; destruct r' as [?|[]]; exact Nq).
    intros x g Hx. destruct (N2 x g Hx) as [Y|[Y|Y]]; [left; rewrite <- Ef; exact Y | right; left; exact Y|].
    right; right. rewrite <- En. exact Y.
  - destruct target as [t|]; [|eapply IHk; eauto].
    destruct (write_file (w_fs w) t c None (N.succ (w_clock w)) (w_nextid w)) as [fs'|e] eqn:E.
    2:{ inversion H; subst. apply nnew_fback, fback_refl. }
    set (w1 := set_clock (N.succ (w_clock w)) (N.succ (w_nextid w)) (set_fs fs' w)) in *.
    assert (Erun : run (Write c (Ret PNone)) (Some t) [] w = (w1, (inl PNone, []))).
    { cbn [run]. rewrite E. reflexivity. }
    destruct (run_G fs0 old cf P X HypA HS _ (AT_Write P c _ (AT_Ret P PNone)) (Some t) [] _ _ _ Erun Fw Ew Tw Gw)
      as (F1 & L1 & Ew1 & S1).
    assert (N2 : nnew (Some t) w1 w').
    { eapply IHk; [exact F1 | exact Ew1 | | | exact H]; [intros x Hx; apply L1, Tw, Hx | eapply gcond_stable; eauto]. }
    intros x g Hx. destruct (N2 x g Hx) as [Y|[Y|Y]]; [|right; left; exact Y | right; right; exact Y].
    destruct (path_eq_dec x t) as [->|Nx]; [right; left; reflexivity|].
    left. cbn [w_fs w1 set_clock set_fs] in Y. rewrite (proj2 (write_file_frame _ _ _ _ _ _ _ E) x Nx) in Y. exact Y.
  - destruct s; [eapply IHk; eauto|].
    match type of H with (let '(_, _) := ?Z in _) = _ => destruct Z as [w1 [r1 o]] eqn:E end.
    pose proof (fun sa skw => run_G fs0 old cf P X HypA HS _ (Hfn p sa skw) (Some p) []) as HfnG.
    destruct (m_build_file_G fs0 old cf P X HypA HS p c f a kw _ Hp HfnG target _ _ _ E Fw Ew Tw Gw) as (F1 & L1 & Ew1 & S1).
    assert (N1 : nnew target w w1).
    { apply (m_build_file_N target target p c f a kw (fun p' sa skw w0 => run (fn p' sa skw) (Some p') [] w0) w w1 (r1, o) Hp HfnG);
        [|exact Fw|exact Ew|exact Tw|exact Gw|exact E].
      intros sa skw w2 w3 r0 F2 E2 T2 G2 R2. exact (IHfn p sa skw (Some p) [] w2 w3 r0 F2 E2 T2 G2 R2). }
    apply (nnew_trans target w w1 w' S1 N1).
    eapply IHk; [exact F1 | exact Ew1 | | | exact H]; [intros x Hx; apply L1, Tw, Hx | eapply gcond_stable; eauto].
  - destruct s; [eapply IHk; eauto|].
    match type of H with (let '(_, _) := ?Z in _) = _ => destruct Z as [w1 [r1 o]] eqn:E end.
    assert (HfnG : forall sa skw, pres (GP target) (fun w0 => run (fn sa skw) None [] w0)).
    { intros sa skw. apply pres_None_G. exact (run_G fs0 old cf P X HypA HS _ (Hfn sa skw) None []). }
    destruct (m_subbuild_G fs0 old cf P X HypA HS f a kw _ target HfnG _ _ _ E Fw Ew Tw Gw) as (F1 & L1 & Ew1 & S1).
    assert (N1 : nnew target w w1).
    { apply (m_subbuild_N target target f a kw (fun sa skw w0 => run (fn sa skw) None [] w0) w w1 (r1, o));
        [|exact Fw|exact Ew|exact Tw|exact Gw|exact E].
      intros sa skw w2 w3 r0 F2 E2 _ _ R2.
      eapply (IHfn sa skw None [] w2 w3 r0 F2 E2); [| |exact R2]; intros x Hx; discriminate Hx. }
    apply (nnew_trans target w w1 w' S1 N1).
    eapply IHk; [exact F1 | exact Ew1 | | | exact H]; [intros x Hx; apply L1, Tw, Hx | eapply gcond_stable; eauto].
Qed.

End WriteN.

(* ================================================================== *)
(* The last Write                                                      *)
(* ================================================================== *)

(* ghost: follows [run]; the bytes and the mtime of the last Write on the own target *)
Fixpoint lastw (pr : prog) (target : option path) (subs : list op) (w : world)
               (acc : option (string * N)) {struct pr} : option (string * N) :=
  match pr with
  | Ret _ => acc
  | Raise _ => acc
  | Ask stale q k =>
      if stale then lastw (k (inr (XRuntime RFinished))) target subs w acc else
      let '(w1, (r, o)) := m_query q w in
      let r' := user_answer q r w1 in
      lastw (k r') target (app_op subs o) (log_answer q r' w1) acc
  | Write c k =>
      match target with
      | None => lastw k target subs w acc
      | Some p =>
          let clock := N.succ (w_clock w) in
          match write_file (w_fs w) p c None clock (w_nextid w) with
          | inl fs' => lastw k target subs (set_clock clock (N.succ (w_nextid w)) (set_fs fs' w)) (Some (c, clock))
          | inr _ => acc
          end
      end
  | BuildFile stale p c fname a kw fn k =>
      if stale then lastw (k (inr (XRuntime RFinished))) target subs w acc else
      let '(w1, (r, o)) :=
        m_build_file p c fname a kw (fun p' sa skw w' => run (fn p' sa skw) (Some p') [] w') w in
      lastw (k r) target (app_op subs o) w1 acc
  | Subbuild stale fname a kw fn k =>
      if stale then lastw (k (inr (XRuntime RFinished))) target subs w acc else
      let '(w1, (r, o)) :=
        m_subbuild fname a kw (fun sa skw w' => run (fn sa skw) None [] w') w in
      lastw (k r) target (app_op subs o) w1 acc
  end.

(* [acc] describes the regular file at p, if there is one *)
Definition node_is (p : path) (acc : option (string * N)) (w : world) : Prop :=
  forall g, lookup (w_fs w) p = Some (NFile g) -> acc = Some (f_bytes g, f_mtime g).

Section LastW.

Variable fs0 : fsT.
Variable old : cache.
Variable cf : path.
Variable P : path -> Prop.
Variable X : list path.
Hypothesis HypA : forall a t, Tgt old cf P t -> below a t = true -> ~ P a.
Hypothesis HS : forall a t, Tgt old cf P t -> below a t = true -> notorig fs0 a.

Notation FI := (FInv fs0 old cf P X).
Notation EI := (EInv fs0 old cf P).
Notation GP := (GPO fs0 old cf P X).

Lemma node_is_nnew : forall t p acc w w', nnew t w w' -> t <> Some p ->
  cache_has_file (w_new w) p = true -> node_is p acc w -> node_is p acc w'.
Proof.
  intros t p acc w w' N Ht Hh HN g Hg. destruct (N p g Hg) as [Y|[Y|Y]]; [exact (HN g Y) | contradiction | congruence].
Qed.

Theorem run_lastw : forall pr, AllTargets P pr ->
  forall p subs w w' res acc,
    FI w -> EI w -> tcond (Some p) w -> gcond (Some p) w -> node_is p acc w ->
    run pr (Some p) subs w = (w', res) -> node_is p (lastw pr (Some p) subs w acc) w'.
Proof.
  intros pr Hat.
  induction Hat as [v | e | s q k Hk IHk | c k Hk IHk | s p0 c f a kw fn k Hp Hfn IHfn Hk IHk
                    | s f a kw fn k Hfn IHfn Hk IHk];
    intros p subs w w' res acc Fw Ew Tw Gw HN H; cbn [run] in H; cbn [lastw].
  - inversion H; subst. exact HN.
  - inversion H; subst. exact HN.
  - destruct s; [eapply IHk; eauto|].
    destruct (m_query q w) as [w1 [r1 o]] eqn:E.
    pose proof (m_query_svb q _ _ _ E) as (Fq & _).
    destruct (m_query_G fs0 old cf P X (Some p) q _ _ _ E Fw Ew Tw Gw) as (F1 & L1 & Ew1 & S1).
    assert (T1 : tcond (Some p) w1) by (intros x Hx; apply L1, Tw, Hx).
    assert (G1 : gcond (Some p) w1) by (eapply gcond_stable; eauto).
    set (r' := user_answer q r1 w1) in *.
    destruct (GRel_log_answer fs0 old cf P X (Some p) q r' w1 F1 Ew1 T1 G1) as (F2 & L2 & Ew2 & S2).
    eapply IHk; [exact F2 | exact Ew2 | | | | exact H].
    + intros x Hx. apply L2, T1, Hx.
    + eapply gcond_stable; eauto.
    + assert (Ef : w_fs (log_answer q r' w1) = w_fs w) by (unfold log_answer; destruct r' as [?|[]]; exact Fq).
      intros g Hg. rewrite Ef in Hg. exact (HN g Hg).
  - destruct (write_file (w_fs w) p c None (N.succ (w_clock w)) (w_nextid w)) as [fs'|e] eqn:E.
    2:{ inversion H; subst. exact HN. }
    set (w1 := set_clock (N.succ (w_clock w)) (N.succ (w_nextid w)) (set_fs fs' w)) in *.
    assert (Erun : run (Write c (Ret PNone)) (Some p) [] w = (w1, (inl PNone, []))).
    { cbn [run]. rewrite E. reflexivity. }
    destruct (run_G fs0 old cf P X HypA HS _ (AT_Write P c _ (AT_Ret P PNone)) (Some p) [] _ _ _ Erun Fw Ew Tw Gw)
      as (F1 & L1 & Ew1 & S1).
    eapply IHk; [exact F1 | exact Ew1 | | | | exact H].
    + intros x Hx. apply L1, Tw, Hx.
    + eapply gcond_stable; eauto.
    + intros g Hg. cbn [w_fs w1 set_clock set_fs] in Hg.
      destruct (proj1 (write_file_frame _ _ _ _ _ _ _ E)) as (g0 & G1 & G2 & G3 & _).
      assert (g = g0) by congruence. subst g0. rewrite G2, G3. reflexivity.
  - destruct s; [eapply IHk; eauto|].
    match type of H with (let '(_, _) := ?Z in _) = _ => destruct Z as [w1 [r1 o]] eqn:E end.
    pose proof (fun sa skw => run_G fs0 old cf P X HypA HS _ (Hfn p0 sa skw) (Some p0) []) as HfnG.
    destruct (m_build_file_G fs0 old cf P X HypA HS p0 c f a kw _ Hp HfnG (Some p) _ _ _ E Fw Ew Tw Gw) as (F1 & L1 & Ew1 & S1).
    assert (N1 : nnew None w w1).
    { apply (m_build_file_N fs0 old cf P X HypA HS (Some p) None p0 c f a kw
               (fun p' sa skw w0 => run (fn p' sa skw) (Some p') [] w0) w w1 (r1, o) Hp HfnG);
        [|exact Fw|exact Ew|exact Tw|exact Gw|exact E].
      intros sa skw w2 w3 r0 F2 E2 T2 G2 R2.
      exact (run_N fs0 old cf P X HypA HS _ (Hfn p0 sa skw) (Some p0) [] w2 w3 r0 F2 E2 T2 G2 R2). }
    eapply IHk; [exact F1 | exact Ew1 | | | | exact H].
    + intros x Hx. apply L1, Tw, Hx.
    + eapply gcond_stable; eauto.
    + apply (node_is_nnew None p acc w w1 N1); [discriminate | | exact HN].
      apply CommitDirsInv.pending_has_file. exact (Gw p eq_refl).
  - destruct s; [eapply IHk; eauto|].
    match type of H with (let '(_, _) := ?Z in _) = _ => destruct Z as [w1 [r1 o]] eqn:E end.
    assert (HfnG : forall sa skw, pres (GP (Some p)) (fun w0 => run (fn sa skw) None [] w0)).
    { intros sa skw. apply pres_None_G. exact (run_G fs0 old cf P X HypA HS _ (Hfn sa skw) None []). }
    destruct (m_subbuild_G fs0 old cf P X HypA HS f a kw _ (Some p) HfnG _ _ _ E Fw Ew Tw Gw) as (F1 & L1 & Ew1 & S1).
    assert (N1 : nnew None w w1).
    { apply (m_subbuild_N fs0 old cf P X HypA HS (Some p) None f a kw (fun sa skw w0 => run (fn sa skw) None [] w0) w w1 (r1, o));
        [|exact Fw|exact Ew|exact Tw|exact Gw|exact E].
      intros sa skw w2 w3 r0 F2 E2 _ _ R2.
      eapply (run_N fs0 old cf P X HypA HS _ (Hfn sa skw) None [] w2 w3 r0 F2 E2); [| |exact R2];
        intros x Hx; discriminate Hx. }
    eapply IHk; [exact F1 | exact Ew1 | | | | exact H].
    + intros x Hx. apply L1, Tw, Hx.
    + eapply gcond_stable; eauto.
    + apply (node_is_nnew None p acc w w1 N1); [discriminate | | exact HN].
      apply CommitDirsInv.pending_has_file. exact (Gw p eq_refl).
Qed.

(* a build_file call that rebuilds its target and succeeds *)
Theorem rebuilt_node_is_last_write : forall t p c f sa skw (fn : path -> pyval -> pyval -> prog) w w1 w' v o,
  P p -> (forall p' a' k', AllTargets P (fn p' a' k')) ->
  FI w -> EI w -> tcond t w -> gcond t w -> HInv w -> old_keys_ok (w_old w) ->
  bf_setup p c f sa skw w = (w1, inl None) ->
  bf_rebuild p c f sa skw (fun p' a k w0 => run (fn p' a k) (Some p') [] w0) w1 = (w', (inl v, Some o)) ->
  exists g subs,
    lookup (w_fs w') p = Some (NFile g) /\
    lastw (fn p sa skw) (Some p) [] (bf_invoke_world p f sa skw w1) None = Some (f_bytes g, f_mtime g) /\
    o = OBuildFile p c f sa skw subs v (cmp_of c g) false false.
Proof.
  intros t p c f sa skw fn w w1 w' v o HPp Hfn Fw Ew Tw Gw Hi Hk Hs H.
  destruct (bf_setup_None _ _ _ _ _ _ _ Hs Hi) as (A & B & C & D).
  pose proof (bf_setup_O _ _ _ _ _ _ _ _ Hs) as O1. unfold osame in O1.
  destruct (bf_setup_G fs0 old cf P X HypA HS t p c f sa skw HPp _ _ _ Hs Fw Ew Tw Gw) as (F1 & _ & Ew1 & _).
  pose proof (RollbackDirsLaws.bf_setup_none _ _ _ _ _ _ _ Hs) as Hb1.
  unfold bf_rebuild in H. cbv beta in H.
  destruct (run (fn p sa skw) (Some p) [] (bf_invoke_world p f sa skw w1)) as [w3 [res subs]] eqn:Er.
  assert (Ti : tcond (Some p) (bf_invoke_world p f sa skw w1)) by (intros q Y; inversion Y; subst; exact Hb1).
  assert (Gi : gcond (Some p) (bf_invoke_world p f sa skw w1)) by (intros q Y; inversion Y; subst; exact B).
  destruct (GRel_set_log fs0 old cf P X (Some p) (LInvoke f (Some p) sa skw :: w_log w1) w1 F1 Ew1 Ti Gi)
    as (Fi & _ & Ewi & _).
  change (set_log (LInvoke f (Some p) sa skw :: w_log w1) w1) with (bf_invoke_world p f sa skw w1) in Fi, Ewi.
  assert (HN0 : node_is p None (bf_invoke_world p f sa skw w1)).
  { intros g Hg. cbn [w_fs bf_invoke_world set_log] in Hg. unfold isfile in C. rewrite Hg in C. discriminate C. }
  pose proof (run_lastw _ (Hfn p sa skw) p [] _ _ _ None Fi Ewi Ti Gi HN0 Er) as HN3.
  assert (H3 : HInv w3).
  { refine (run_HInv _ (Some p) [] _ w3 _ _ _ _ Er); unfold bf_invoke_world.
    - apply HInv_set_log. exact A.
    - cbn [w_old set_log]. rewrite O1. exact Hk.
    - intros t0 Et. inversion Et; subst t0. split; [exact B | exact D]. }
  apply bf_finish_success in H. destruct H as (v0 & cmp & w4 & -> & Hsv & Hc & Hne & -> & ->).
  pose proof (noneable_cmp_svb p c _ _ _ Hc) as (A1 & _).
  pose proof (noneable_cmp_value _ _ _ _ _ Hc Hne) as Hv.
  assert (Hval : exists g, lookup (w_fs w3) p = Some (NFile g) /\ cmp = cmp_of c g).
  { destruct c; cbn [file_comparison_result] in Hv.
    - destruct (file_metadata_spec _ _ _ _ Hv) as [_ S].
      destruct (lookup (w_fs w3) p) as [[g|]|] eqn:El; try discriminate S.
      inversion S; subst cmp. exists g. split; reflexivity.
    - destruct (file_hash_spec p w3 w4 _ (proj1 H3) Hv) as (_ & _ & _ & S).
      destruct (lookup (w_fs w3) p) as [[g|]|] eqn:El.
      + inversion S; subst cmp. exists g. split; reflexivity.
      + discriminate S.
      + destruct S as [e0 S]. discriminate S. }
  destruct Hval as (g & Hg & ->). exists g, subs. split; [|split].
  - cbn [w_fs set_new]. rewrite A1. exact Hg.
  - exact (HN3 g Hg).
  - reflexivity.
Qed.

End LastW.

Print Assumptions run_N.
Print Assumptions run_lastw.
Print Assumptions rebuilt_node_is_last_write.
