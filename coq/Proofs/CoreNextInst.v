(* Proofs/CoreNextInst.v — the hypotheses of the n-build theorem are satisfiable: two consecutive builds of the
   instance of CoreLaws7.v (a build_file whose function reads a file), starting from the empty cache; the second
   build is served from the cache and the theorem says it agrees with the reference build. *)
From Coq Require Import List String Ascii NArith ZArith Bool Arith Lia.
From FB.Base Require Import PyVal Fs.
From FB.Gen Require Import JsonUtilGen.
From FB.Spec Require Import JsonSpec Prog Ref Oracle Faithful.
From FB.Model Require Import Types SimpleOps Builder Persist Dsl Core CoreOracle CoreCache.
From FB.Proofs Require Import FsLemmas JsonLaws CleanLaws CoreLawsJson CoreLaws1 CoreLaws5 CoreLaws6 CoreLaws7
     CoreNextDefs CoreNextThm.
Import ListNotations.
Local Open Scope list_scope.
Local Open Scope string_scope.

(* ---- checks by computation, and their soundness ---- *)
Definition files_oldb (fs : fsT) (clock : N) : bool :=
  forallb (fun e => match lookup fs (fst e) with Some (NFile f) => N.leb (f_mtime f) clock | _ => true end) fs.

Lemma lookup_in : forall fs p x, lookup fs p = Some x -> p = [] \/ exists e, In e fs /\ fst e = p.
Proof. intros fs p x H. destruct p as [|n d]; [left; reflexivity|right]. eapply raw_lookup_in. exact H. Qed.

Lemma files_oldb_sound : forall fs clock, files_oldb fs clock = true -> files_old fs clock.
Proof.
  intros fs clock H p f Hp. destruct (lookup_in _ _ _ Hp) as [->|[e [He <-]]]; [discriminate|].
  unfold files_oldb in H. rewrite forallb_forall in H. specialize (H e He). rewrite Hp in H. apply N.leb_le. exact H.
Qed.

Definition fs_wfb (fs : fsT) : bool :=
  forallb (fun e => match lookup fs (fst e) with Some _ => isdir fs (dirname (fst e)) | None => true end) fs.

Lemma fs_wfb_sound : forall fs, fs_wfb fs = true -> fs_wf fs.
Proof.
  intros fs H p n Hp. destruct (lookup_in _ _ _ Hp) as [->|[e [He <-]]]; [reflexivity|].
  unfold fs_wfb in H. rewrite forallb_forall in H. specialize (H e He). rewrite Hp in H. apply isdir_lookup. exact H.
Qed.

Definition served_tame (c : cache) (vs : pyval) (o : op) : bool :=
  op_raised o || negb (replayable c vs o) || tame [] o.
Definition cache_tameb (c : cache) (vs : pyval) : bool :=
  forallb (fun e => match snd e with Some o => served_tame c vs o | None => true end) (c_files c) &&
  forallb (fun e => match snd e with Some o => served_tame c vs o | None => true end) (c_subs c).

Lemma files_get_in : forall l p o, files_get l p = Some o -> In (p, o) l.
Proof.
  induction l as [|[q x] l IH]; intros p o H; cbn [files_get] in H; [discriminate|].
  destruct (path_eqb q p) eqn:E; [apply path_eqb_eq in E; inversion H; subst; left; reflexivity|right; auto].
Qed.
Lemma subs_get_in : forall l k o, subs_get l k = Some o -> exists k', In (k', o) l.
Proof.
  induction l as [|[q x] l IH]; intros k o H; cbn [subs_get] in H; [discriminate|].
  destruct (py_eq q k); [inversion H; subst; exists q; left; reflexivity|]. destruct (IH _ _ H) as [k' Hk]. exists k'. right. exact Hk.
Qed.

Lemma cache_tameb_sound : forall c vs, cache_tameb c vs = true -> cache_tame c vs.
Proof.
  intros c vs H. apply andb_true_iff in H. destruct H as [H1 H2]. rewrite forallb_forall in H1, H2. split.
  - intros p o Hg Hr Hp. specialize (H1 _ (files_get_in _ _ _ Hg)). cbn [snd] in H1. unfold served_tame in H1.
    rewrite Hr, Hp in H1. exact H1.
  - intros key o Hg Hr Hp. destruct (subs_get_in _ _ _ Hg) as [k' Hin]. specialize (H2 _ Hin). cbn [snd] in H2.
    unfold served_tame in H2. rewrite Hr, Hp in H2. exact H2.
Qed.

Lemma coherent_refl : forall c vs F, coherent c vs F F.
Proof. intros c vs F f _. split; reflexivity. Qed.

(* ---- the instance ---- *)
Definition i_fs : fsT := [(["src"], Some (NFile g_src))].
Definition i_step (clock : N) : bstep := {| b_root := g_root; b_vers := g_vers; b_F := G; b_clock := clock; b_nextid := clock |}.
Definition i_b1 := core_build i_fs g_cf (empty_cache "b" g_vers) g_vers 20 20 g_root.
Definition i_s1 : kstate := match cr_state i_b1 with Some s => s | None =>
  {| k_fs := []; k_stale := []; k_staledirs := []; k_claimedF := []; k_claimedS := []; k_need := []; k_made := [];
     k_clock := 0; k_nextid := 0; k_log := []; k_cachefile := []; k_old := empty_cache "" PNone; k_vers := PNone;
     k_newF := []; k_newS := [] |} end.
Definition i_old2 : cache := cache_of_state "b" i_s1.
Definition i_fs2 : fsT := next_fs g_cf i_s1.
Definition i_b2 := core_build i_fs2 g_cf i_old2 g_vers 40 40 g_root.

Lemma i_state1 : cr_state i_b1 = Some i_s1.
Proof. vm_compute. reflexivity. Qed.

Lemma g_copy_wf : forall p a k, WfArgs (g_copy p a k).
Proof. intros p a k. constructor. intros [v|e]; [destruct v|]; repeat constructor. Qed.

Lemma g_wfargs : WfArgs g_root.
Proof. constructor; [reflexivity|reflexivity|intros; apply g_copy_wf|]. intro o. constructor. Qed.

Lemma g_respectsS : RespectsS G.
Proof. intros f a a' k k' _ _. reflexivity. Qed.

(* all obligations of the two-build chain hold *)
Lemma chain_ok_cons : forall cf nm Fprev clockprev fs old b rest,
  Obeys (b_F b) (b_root b) -> WfArgs (b_root b) -> Respects (b_F b) -> RespectsS (b_F b) ->
  coherent old (b_vers b) Fprev (b_F b) -> cache_tame old (b_vers b) ->
  (clockprev <= b_clock b)%N -> files_old fs (b_clock b) -> fs_wf fs ->
  forall s1, cr_state (core_build fs cf old (b_vers b) (b_clock b) (b_nextid b) (b_root b)) = Some s1 ->
  chain_ok cf nm (b_F b) (b_clock b) (next_fs cf s1) (cache_of_state nm s1) rest ->
  chain_ok cf nm Fprev clockprev fs old (b :: rest).
Proof.
  intros until s1. intros Hs Hrest. cbn [chain_ok]. repeat (split; [assumption|]). rewrite Hs. exact Hrest.
Qed.

Definition i_s2 : kstate := match cr_state i_b2 with Some s => s | None => i_s1 end.

Lemma i_chain_ok : chain_ok g_cf "b" G 0 i_fs (empty_cache "b" g_vers) [i_step 20; i_step 40].
Proof.
  apply (chain_ok_cons g_cf "b" G 0%N i_fs (empty_cache "b" g_vers) (i_step 20) [i_step 40]
           g_obeys g_wfargs g_respects g_respectsS (coherent_refl _ _ _)) with (s1 := i_s1).
  - apply cache_tameb_sound. vm_compute. reflexivity.
  - cbn. lia.
  - apply files_oldb_sound. vm_compute. reflexivity.
  - apply fs_wfb_sound. vm_compute. reflexivity.
  - vm_compute. reflexivity.
  - apply (chain_ok_cons g_cf "b" G 20%N (next_fs g_cf i_s1) (cache_of_state "b" i_s1) (i_step 40) []
             g_obeys g_wfargs g_respects g_respectsS (coherent_refl _ _ _)) with (s1 := i_s2).
    + apply cache_tameb_sound. vm_compute. reflexivity.
    + cbn. lia.
    + apply files_oldb_sound. vm_compute. reflexivity.
    + apply fs_wfb_sound. vm_compute. reflexivity.
    + vm_compute. reflexivity.
    + exact I.
Qed.

(* so both builds are transparent: in particular the second one, which is served from the cache the first one left *)
Theorem i_transparent : chain_transparent g_cf "b" i_fs (empty_cache "b" g_vers) [i_step 20; i_step 40].
Proof.
  apply (chain_from_empty g_cf "b" g_vers i_fs _ G); [|exact i_chain_ok].
  intros g H. vm_compute in H. discriminate.
Qed.

Example i_second_is_hit : flat_map show_log1 (cr_log i_b2) = ["invoke <root> - N N"]%list.
Proof. vm_compute. reflexivity. Qed.

Print Assumptions i_transparent.
