(* Proofs/ViewK1.v — C04, link to the Core model (Model/Core.v).  Expected: at
   corresponding program points the view tree of the mechanism world is, entry by entry,
   the tree k_fs of the Core state (the tree of the reference semantics), with the claims
   and the clock corresponding.  Here: the simulation relation, that it holds when the
   root function starts (cache directory visible), and that it is preserved by a query,
   which then records and logs the same answer on both sides. *)
From Coq Require Import List String Ascii NArith ZArith Bool Arith Lia.
From FB.Base Require Import PyVal Fs.
From FB.Gen Require Import JsonUtilGen.
From FB.Spec Require Import Prog Ref Oracle.
From FB.Model Require Import Types Monad CreatedFiles BuildDirs SimpleOps Builder Persist Build Run Core CoreOracle.
From FB.Spec Require Import Faithful.
From FB.Proofs Require Import FsLemmas CleanLaws JsonLaws CoreLawsChildren CoreLawsJson ReplayLaws
     ViewDefs ViewLemmas ViewScan ViewQueries ViewAnswers ViewInit ViewClean ViewPres
     ViewXDefs ViewXQuery ViewXMake1 ViewXFail ViewXExt.
Import ListNotations.
Open Scope list_scope.

(* ------------------------------------------------------------------ answers only depend on the entries *)
Section AnsExt.
  Variables (a b : fsT).
  Hypothesis Hext : forall y, lookup a y = lookup b y.

  Lemma ax_children : forall x, children a x = children b x.
  Proof. intro x. apply children_ext. intro n. unfold lexists. rewrite Hext. reflexivity. Qed.
  Lemma ax_isdir : forall x, isdir a x = isdir b x.
  Proof. intro x. unfold isdir. rewrite Hext. reflexivity. Qed.
  Lemma ax_isfile : forall x, isfile a x = isfile b x.
  Proof. intro x. unfold isfile. rewrite Hext. reflexivity. Qed.

  Lemma ax_walk : forall f d td, ref_walk f a d td = ref_walk f b d td.
  Proof.
    induction f as [|f IH]; intros d td; [reflexivity|]. cbn [ref_walk]. rewrite ax_children.
    rewrite (filter_ext (fun n => isdir a (n :: d)) (fun n => isdir b (n :: d))) by (intro; apply ax_isdir).
    rewrite (filter_ext (fun n => isfile a (n :: d)) (fun n => isfile b (n :: d))) by (intro; apply ax_isfile).
    rewrite (flat_map_ext (fun n => ref_walk f a (n :: d) td) (fun n => ref_walk f b (n :: d) td)) by (intro; apply IH).
    reflexivity.
  Qed.

  Lemma ax_absent : forall p, absent_err a p = absent_err b p.
  Proof. induction p as [|n d IH]; [reflexivity|]. cbn [absent_err]. rewrite Hext, IH. reflexivity. Qed.

  Lemma ax_raw : forall q, spec_answer_raw a q = spec_answer_raw b q.
  Proof.
    intro q. destruct q; cbn [spec_answer_raw]; unfold lexists; rewrite ?Hext, ?ax_isfile, ?ax_isdir, ?ax_children, ?ax_walk; reflexivity.
  Qed.

  Lemma ax_spec : forall q, spec_answer a q = spec_answer b q.
  Proof. intro q. unfold spec_answer. rewrite ax_raw. reflexivity. Qed.

  Lemma ax_record : forall q, record_answer a q = record_answer b q.
  Proof.
    intro q. destruct q; cbn [record_answer]; try apply ax_raw.
    unfold stat_err. rewrite Hext, ax_absent. reflexivity.
  Qed.
End AnsExt.

(* ------------------------------------------------------------------ the simulation relation *)
Record Sim (w : world) (s : kstate) : Prop := {
  sm_tree : forall p, lookup (view_fs w) p = lookup (k_fs s) p;
  sm_cf : k_cachefile s = w_cachefile w;
  sm_old : k_old s = w_old w;
  sm_claims : forall p, mem_path p (k_claimedF s) = cache_has_file (w_new w) p;
  sm_clock : k_clock s = w_clock w;
  sm_nextid : k_nextid s = w_nextid w;
  sm_log : k_log s = w_log w
}.

(* ---- when the root function starts ---- *)
Theorem sim_start : forall w cachefile old nm vers svers,
  fs_wf (w_fs w) -> old_ok old cachefile -> w_faults w = [] -> path_ok (dirname cachefile) = true ->
  vdir (start_world w cachefile old nm svers) (dirname cachefile) = true ->
  exists w1 s0,
    make_dirs (dirname cachefile) (start_world w cachefile old nm svers) = (w1, inl []) /\
    missing_dirs (ref_clean (w_fs w) cachefile (prev_of_cache old)) cachefile (dirname cachefile) = inl [] /\
    k_fs s0 = ref_clean (w_fs w) cachefile (prev_of_cache old) /\
    k_claimedF s0 = [] /\ k_cachefile s0 = cachefile /\ k_old s0 = old /\
    k_log s0 = [LInvoke "<root>" None PNone PNone] /\
    Sim (set_log (LInvoke "<root>" None PNone PNone :: w_log w1) w1)
        {| k_fs := k_fs s0; k_stale := k_stale s0; k_staledirs := k_staledirs s0; k_claimedF := []; k_claimedS := [];
           k_need := []; k_made := []; k_clock := w_clock w; k_nextid := w_nextid w;
           k_log := LInvoke "<root>" None PNone PNone :: w_log w1; k_cachefile := cachefile; k_old := old;
           k_vers := vers; k_newF := []; k_newS := [] |}.
Proof.
  intros w cachefile old nm vers svers Hwf Hok HF Hp Hd.
  destruct (BInv_root_entry w cachefile old nm svers Hwf Hok Hp Hd) as (w1 & E & G & _).
  set (t0 := ref_clean (w_fs w) cachefile (prev_of_cache old)).
  assert (Ht0: forall p, lookup (view_fs (start_world w cachefile old nm svers)) p = lookup t0 p).
  { intro p. apply (view_start_is_ref_clean w cachefile old nm svers Hwf Hok p). }
  assert (Hdir: lookup t0 (dirname cachefile) = Some NDir).
  { rewrite <- Ht0. pose proof (BInv_start_world w cachefile old nm svers Hwf Hok) as HB.
    rewrite <- (isdir_view' _ _ HB) in Hd. apply isdir_lookup in Hd. exact Hd. }
  exists w1, {| k_fs := t0; k_stale := []; k_staledirs := []; k_claimedF := []; k_claimedS := []; k_need := []; k_made := [];
                k_clock := w_clock w; k_nextid := w_nextid w; k_log := [LInvoke "<root>" None PNone PNone];
                k_cachefile := cachefile; k_old := old; k_vers := vers; k_newF := []; k_newS := [] |}.
  split; [exact E|]. split.
  { destruct (dirname cachefile) as [|n d] eqn:Edn; cbn [missing_dirs]; rewrite Hdir; reflexivity. }
  cbn [k_fs k_claimedF k_cachefile k_old k_log k_stale k_staledirs].
  split; [reflexivity|]. split; [reflexivity|]. split; [reflexivity|]. split; [reflexivity|]. split; [reflexivity|].
  constructor; cbn [k_fs k_cachefile k_old k_claimedF k_clock k_nextid k_log w_cachefile w_old w_new w_clock w_nextid w_log set_log].
  - intro p. transitivity (lookup (view_fs w1) p); [reflexivity|].
    rewrite (same_view_view_fs _ _ (good_sv _ _ G)). apply Ht0.
  - rewrite (sv_cf _ _ (good_sv _ _ G)). reflexivity.
  - rewrite (sv_old _ _ (good_sv _ _ G)). reflexivity.
  - intro p. rewrite (sv_new _ _ (good_sv _ _ G)). reflexivity.
  - unfold make_dirs in E. apply bind_inv in E. destruct E as [[wa [ds [Eds E]]]|[e [_ E]]]; [|discriminate].
    apply bind_inv in E. destruct E as [[wb [u [El E]]]|[e [_ E]]]; [|discriminate]. inversion E; subst wb ds.
    cbn in El. inversion El; subst wa. pose proof (dirs_to_make_svb _ _ _ _ _ Eds) as (_ & A2 & _). cbn in A2. congruence.
  - unfold make_dirs in E. apply bind_inv in E. destruct E as [[wa [ds [Eds E]]]|[e [_ E]]]; [|discriminate].
    apply bind_inv in E. destruct E as [[wb [u [El E]]]|[e [_ E]]]; [|discriminate]. inversion E; subst wb ds.
    cbn in El. inversion El; subst wa. pose proof (dirs_to_make_svb _ _ _ _ _ Eds) as (_ & _ & A3 & _). cbn in A3. congruence.
  - reflexivity.
Qed.

(* ---- a query: same record, same answer, same log; the relation is kept ---- *)
Theorem sim_query : forall T w s q w1 r o,
  Sim w s -> RInv T w -> path_ok (spec_query_path q) = true ->
  (forall p td, q = QWalk p td -> vdir w p = true -> maxlen (w_fs w) < walk_fuel + List.length p) ->
  (forall p c, q = QRead p c -> c = METADATA \/ hash_ok w) ->
  m_query q w = (w1, (r, o)) ->
  o = Some (record_of q (record_answer (k_fs s) q)) /\
  (forall v, spec_answer (k_fs s) q = inl v -> (forall p c, q <> QRead p c) -> r = inl v) /\
  (forall c, spec_answer (k_fs s) q = inr c -> r = inr (XOS c)) /\
  (forall p, lookup (view_fs w1) p = lookup (k_fs s) p) /\ RInv T w1 /\
  w_new w1 = w_new w /\ w_clock w1 = w_clock w /\ w_nextid w1 = w_nextid w /\ w_log w1 = w_log w.
Proof.
  intros T w s q w1 r o HS HR Hp Hwalk Hread H. pose proof (RInv_X _ _ HR) as HX. pose proof (x_binv _ _ HX) as HB.
  destruct (exec_query_view w q HB Hp Hwalk Hread) as [w' [E G]].
  pose proof (ax_record _ _ (sm_tree _ _ HS) q) as Erec. pose proof (ax_spec _ _ (sm_tree _ _ HS) q) as Espec.
  unfold m_query in H. rewrite E in H.
  pose proof (query_footprint _ _ _ _ _ E) as (A1 & A2 & A3 & A4 & A5 & A6 & A7 & A8 & A9 & A10 & A11).
  assert (HR1: RInv T w') by (apply (qrel_RInv T _ _ (exec_query_q _ _ _ _ _ E) HR)).
  assert (Hrel: forall v, record_answer (view_fs w) q = inl v -> (forall p c, q <> QRead p c) -> spec_answer (view_fs w) q = inl v).
  { intros v Hv Hnr. unfold spec_answer. destruct q; cbn [record_answer] in Hv; try (rewrite Hv; reflexivity).
    exfalso. eapply Hnr. reflexivity. }
  destruct (record_answer (view_fs w) q) as [v|c] eqn:Ea; cbn [to_res] in H.
  - inversion H; subst w1 r o. rewrite <- Erec. cbn [record_of]. split; [reflexivity|]. split.
    + intros v0 Hv0 Hnr. rewrite <- Espec in Hv0. rewrite (Hrel v eq_refl Hnr) in Hv0. inversion Hv0. reflexivity.
    + split.
      * intros c Hc. rewrite <- Espec in Hc. unfold spec_answer in Hc.
        destruct q; cbn [record_answer] in Ea; try (rewrite Ea in Hc; discriminate).
        cbn [spec_answer_raw] in Hc. destruct (lookup (view_fs w) p) as [[g|]|]; try discriminate.
      * split; [intro p; rewrite (same_view_view_fs _ _ (good_sv _ _ G)); apply (sm_tree _ _ HS)|]. auto.
  - inversion H; subst w1 r o. rewrite <- Erec. cbn [record_of]. split; [reflexivity|]. split.
    + intros v0 Hv0 Hnr. rewrite <- Espec in Hv0. unfold spec_answer in Hv0.
      destruct q; cbn [record_answer] in Ea; try (rewrite Ea in Hv0; rewrite Hp in Hv0; discriminate).
      exfalso. eapply Hnr. reflexivity.
    + split.
      * intros c0 Hc. rewrite <- Espec in Hc. pose proof (answer_err _ _ _ Ea) as K. rewrite K in Hc.
        unfold user_class in Hc. rewrite Hp in Hc. inversion Hc. reflexivity.
      * split; [intro p; rewrite (same_view_view_fs _ _ (good_sv _ _ G)); apply (sm_tree _ _ HS)|]. auto.
Qed.

(* ---- not proved: a build_file that misses the cache, and the rest ---- *)
Definition sim_run_statement : Prop :=
  forall T w s pr subs w' r l s' r' pend' l',
    Sim w s -> RInv T w ->
    run pr None subs w = (w', (r, l)) -> core_run pr None None subs s = (s', (r', pend', l')) ->
    Sim w' s' /\ r = r' /\ l = l'.

Print Assumptions sim_start.
Print Assumptions sim_query.
