(* Proofs/SimB3.v — mechanism model vs Core, the hit/miss decision, part 3: the overlay in
   declarative form.  Under the counting law of CreatedFiles (CCInv T, ViewH1), the overlay
   directories are exactly the proper ancestors of the targets T that were started and did not
   fail; so the overlay tree is a function of T, the finished targets and the view:
       a proper ancestor of a target of T  -> a directory
       a finished target                   -> the regular file on disk
       anything else                       -> as in the view.
   With it: the effect of started / finished / error_building_file on the overlay tree, and the
   well-formedness of the overlay tree.                                                    *)
From Coq Require Import List String Ascii NArith ZArith Bool Arith Lia.
From FB.Base Require Import PyVal Fs.
From FB.Gen Require Import JsonUtilGen.
From FB.Spec Require Import Prog Ref Oracle Faithful.
From FB.Model Require Import Types Monad CreatedFiles BuildDirs SimpleOps Builder Persist Core.
From FB.Proofs Require Import FsLemmas CleanLaws JsonLaws CoreLawsChildren ReplayLaws CoreLaws1
     ViewDefs ViewLemmas ViewScan ViewQueries ViewAnswers ViewPres ViewFrame ViewXDefs ViewXCount ViewXErr1 ViewXError
     ViewOverlay ViewOverlay2 ViewH1 SimB2.
Import ListNotations.
Open Scope list_scope.

(* ------------------------------------------------------------------ counted = proper ancestor of a target *)
Lemma filter_nonempty_ex : forall (f : path -> bool) l, 0 < List.length (filter f l) -> exists x, In x l /\ f x = true.
Proof.
  intros f l H. destruct (filter f l) as [|x r] eqn:E; [simpl in H; lia|].
  assert (Hin: In x (filter f l)) by (rewrite E; left; reflexivity). apply filter_In in Hin. eauto.
Qed.

Lemma claw_counted_pos : forall T b x, claw T b -> in_counts b x = true -> 0 < cval b x.
Proof.
  intros T b x [_ P _] H. unfold in_counts in H. unfold cval. destruct (cnt_get (bd_counts b) x) as [k|] eqn:E; [|discriminate].
  destruct k; [exfalso; apply (P x); exact E|lia].
Qed.

Lemma claw_pos_counted : forall b x, 0 < cval b x -> in_counts b x = true.
Proof. intros b x H. unfold cval in H. unfold in_counts. destruct (cnt_get (bd_counts b) x); [reflexivity|lia]. Qed.

Lemma claw_up : forall T b n d, claw T b -> in_counts b (n :: d) = true -> in_counts b d = true.
Proof.
  intros T b n d C H. apply claw_pos_counted. rewrite (cl_count _ _ C d).
  assert (0 < nk b d); [|lia]. unfold nk. apply (filter_length_pos _ _ (n :: d)).
  - apply in_counts_keys. exact H.
  - apply is_child_cons.
Qed.

Lemma claw_target_parent : forall T b n d, claw T b -> In (n :: d) T -> in_counts b d = true.
Proof.
  intros T b n d C H. apply claw_pos_counted. rewrite (cl_count _ _ C d).
  assert (0 < nt T d); [|lia]. unfold nt. apply (filter_length_pos _ _ (n :: d)); [exact H|apply is_child_cons].
Qed.

Lemma claw_anc_counted : forall T b t x, claw T b -> In t T -> is_ancestor x t = true -> in_counts b x = true.
Proof.
  intros T b t x C Ht Ha. destruct t as [|n d]; [discriminate|].
  pose proof (claw_target_parent T b n d C Ht) as Hd.
  rewrite is_ancestor_cons in Ha. apply orb_true_iff in Ha. destruct Ha as [Ha|Ha]; [apply path_eqb_eq in Ha; subst x; exact Hd|].
  clear Ht. revert Hd Ha. induction d as [|m q IH]; intros Hd Ha; [discriminate|].
  pose proof (claw_up T b m q C Hd) as Hq.
  rewrite is_ancestor_cons in Ha. apply orb_true_iff in Ha. destruct Ha as [Ha|Ha]; [apply path_eqb_eq in Ha; subst x; exact Hq|].
  apply IH; assumption.
Qed.

Lemma claw_counted_anc : forall T b, claw T b -> forall k x, in_counts b x = true ->
  (forall y, In y (ckeys b) -> List.length y < List.length x + k) ->
  exists t, In t T /\ is_ancestor x t = true.
Proof.
  intros T b C. induction k as [|k IH]; intros x Hx Hb.
  - exfalso. apply in_counts_keys in Hx. specialize (Hb x Hx). lia.
  - pose proof (claw_counted_pos T b x C Hx) as Hpos. rewrite (cl_count _ _ C x) in Hpos.
    destruct (Nat.eq_dec (nt T x) 0) as [Hz|Hnz].
    + assert (Hk: 0 < nk b x) by lia. unfold nk in Hk. apply filter_nonempty_ex in Hk. destruct Hk as [y [Hy Hc]].
      apply is_child_inv in Hc. destruct Hc as [n ->].
      destruct (IH (n :: x)) as [t [Ht Ha]].
      * apply in_counts_keys. exact Hy.
      * intros z Hz'. specialize (Hb z Hz'). simpl. lia.
      * exists t. split; [exact Ht|]. eapply is_ancestor_trans; [apply is_ancestor_dirname|exact Ha].
    + assert (Hk: 0 < nt T x) by lia. unfold nt in Hk. apply filter_nonempty_ex in Hk. destruct Hk as [y [Hy Hc]].
      apply is_child_inv in Hc. destruct Hc as [n ->]. exists (n :: x). split; [exact Hy|apply is_ancestor_dirname].
Qed.

Lemma length_le_list_max : forall (l : list path) y, In y l -> List.length y <= list_max (map (@List.length name) l).
Proof.
  intros l y H. pose proof (list_max_le (map (@List.length name) l) (list_max (map (@List.length name) l))) as [K _].
  specialize (K (le_n _)). rewrite Forall_forall in K. apply K. apply in_map. exact H.
Qed.

Theorem counted_iff_anc : forall T b x, claw T b ->
  in_counts b x = existsb (is_ancestor x) T.
Proof.
  intros T b x C. destruct (existsb (is_ancestor x) T) eqn:E.
  - apply existsb_exists in E. destruct E as [t [Ht Ha]]. apply (claw_anc_counted T b t x C Ht Ha).
  - destruct (in_counts b x) eqn:Hc; [|reflexivity]. exfalso.
    destruct (claw_counted_anc T b C (S (list_max (map (@List.length name) (ckeys b)))) x Hc) as [t [Ht Ha]].
    + intros y Hy. pose proof (length_le_list_max _ _ Hy). lia.
    + assert (existsb (is_ancestor x) T = true) by (apply existsb_exists; eauto). congruence.
Qed.

Corollary cf_dirs_anc : forall T w c x, CCInv T w c -> mem_path x (cf_dirs c) = existsb (is_ancestor x) T.
Proof. intros T w c x H. rewrite (cc_dirs _ _ _ H x). apply counted_iff_anc. apply (cc_claw _ _ _ H). Qed.

(* ------------------------------------------------------------------ the overlay tree, declaratively *)
Definition ov (w : world) (T F : list path) (x : path) : option node :=
  if existsb (is_ancestor x) T then Some NDir
  else if mem_path x F then lookup (w_fs w) x
  else lookup (view_fs w) x.

Lemma lookup_overlay_ov : forall T w c x, CCInv T w c -> lookup (overlay_fs w c) x = ov w T (cf_files c) x.
Proof.
  intros T w c x H. unfold ov. destruct x as [|n d].
  - cbn [lookup]. destruct (existsb (is_ancestor []) T); [reflexivity|].
    rewrite (ci_root _ _ (cc_cinv _ _ _ H)). reflexivity.
  - rewrite lookup_overlay by discriminate. rewrite (cf_dirs_anc T w c _ H). reflexivity.
Qed.

(* ancestors and suffixes *)
Lemma is_ancestor_suffix : forall x n d, is_ancestor x (n :: d) = true <-> suffix x d.
Proof.
  intros x n d. revert n. induction d as [|m q IH]; intro n.
  - cbn. split.
    + intro H. rewrite orb_false_r in H. destruct x; [apply suffix_refl|discriminate].
    + intro H. apply suffix_nil in H. subst x. reflexivity.
  - rewrite is_ancestor_cons. split.
    + intro H. apply orb_true_iff in H. destruct H as [H|H].
      * apply path_eqb_eq in H. subst x. apply suffix_refl.
      * apply suffix_cons. apply (IH m). exact H.
    + intro H. apply suffix_inv in H. destruct H as [->|H]; [rewrite path_eqb_refl; reflexivity|].
      apply orb_true_iff. right. apply (IH m). exact H.
Qed.

Lemma is_ancestor_psuffix : forall x t, is_ancestor x t = true <-> psuffix x t.
Proof.
  intros x t. destruct t as [|n d].
  - split; [discriminate|]. intros [m [l E]]. destruct l; discriminate.
  - rewrite is_ancestor_suffix. symmetry. apply psuffix_cons.
Qed.

(* ------------------------------------------------------------------ well-formedness of the overlay tree *)
Theorem overlay_wf : forall T w c, BInv w -> CCInv T w c ->
  (forall x, mem_path x (cf_files c) = true -> In x T) ->
  fs_wf (overlay_fs w c).
Proof.
  intros T w c HB HC HF x n Hx. destruct x as [|m q]; [reflexivity|]. cbn [dirname tl].
  rewrite (lookup_overlay_ov T w c _ HC) in Hx. rewrite (lookup_overlay_ov T w c _ HC). unfold ov in *.
  destruct (existsb (is_ancestor (m :: q)) T) eqn:Ea.
  - (* an ancestor of a target: its parent too *)
    apply existsb_exists in Ea. destruct Ea as [t [Ht Ha]].
    assert (Hq: existsb (is_ancestor q) T = true).
    { apply existsb_exists. exists t. split; [exact Ht|]. eapply is_ancestor_trans; [apply is_ancestor_dirname|exact Ha]. }
    rewrite Hq. reflexivity.
  - destruct (mem_path (m :: q) (cf_files c)) eqn:Ef.
    + (* a finished target: its parent is an ancestor of a target *)
      assert (Hq: existsb (is_ancestor q) T = true).
      { apply existsb_exists. exists (m :: q). split; [apply HF; exact Ef|apply is_ancestor_dirname]. }
      rewrite Hq. reflexivity.
    + destruct (existsb (is_ancestor q) T); [reflexivity|].
      pose proof (view_tree_wf w HB _ _ Hx) as Hp. cbn [dirname tl] in Hp.
      destruct (mem_path q (cf_files c)) eqn:Efq; [|exact Hp].
      (* the parent cannot be a finished target: it is a regular file on disk with something visible below *)
      exfalso. pose proof (ci_file _ _ (cc_cinv _ _ _ HC) _ Efq) as Hfile.
      assert (Hvis: visible w (m :: q) = true).
      { rewrite lookup_view in Hx by discriminate. destruct (visible w (m :: q)); [reflexivity|discriminate]. }
      pose proof (visible_lexists _ _ Hvis) as Hex.
      pose proof (wf_parent_dir _ _ _ (bi_wf _ HB) Hex) as Hd. apply isfile_lookup in Hfile. destruct Hfile as [g Hg]. congruence.
Qed.

(* ------------------------------------------------------------------ the three operations on the overlay tree *)
Lemma cf_started_files : forall c p, cf_files (cf_started c p) = cf_files c.
Proof.
  intros c p. destruct p as [|n d]; [reflexivity|]. unfold cf_started. revert c.
  induction d as [|m q IH]; intro c; cbn [cf_started_from].
  - destruct (Nat.ltb 0 _); reflexivity.
  - destruct (Nat.ltb 0 _); [reflexivity|]. rewrite IH. rewrite (proj1 (add_sub_fields _ _)). reflexivity.
Qed.

Lemma cf_finished_files : forall c p x, mem_path x (cf_files (cf_finished c p)) = path_eqb p x || mem_path x (cf_files c).
Proof.
  intros c p x. unfold cf_finished. rewrite (proj1 (add_sub_fields _ _)). cbn [cf_files cf_with]. apply mem_add_path.
Qed.

(* after started_building_file(n :: d): the ancestors of the target are directories *)
Lemma ov_started : forall w T F n d x,
  ov w ((n :: d) :: T) F x = if is_ancestor x (n :: d) then Some NDir else ov w T F x.
Proof. intros. unfold ov. cbn [existsb]. destruct (is_ancestor x (n :: d)); reflexivity. Qed.

(* OvOk is kept *)
Lemma path_ok_suffix : forall x p, suffix x p -> path_ok p = true -> path_ok x = true.
Proof.
  intros x p [l E] H. subst p. unfold path_ok in *. rewrite forallb_app in H. apply andb_true_iff in H. apply H.
Qed.

Lemma OvOk_started : forall T w c c' n d, CCInv T w c -> CCInv ((n :: d) :: T) w c' -> cf_files c' = cf_files c ->
  OvOk c -> path_ok (n :: d) = true -> List.length (n :: d) < walk_fuel -> OvOk c'.
Proof.
  intros T w c c' n d HC HC' EF HO Hp Hl x Hx. rewrite EF in Hx.
  destruct Hx as [Hx|Hx]; [|apply HO; right; exact Hx].
  rewrite (cf_dirs_anc _ _ _ x HC') in Hx. cbn [existsb] in Hx. apply orb_true_iff in Hx. destruct Hx as [Hx|Hx].
  - pose proof (is_ancestor_length _ _ Hx) as Hlen. apply is_ancestor_suffix in Hx.
    split; [|lia]. apply (path_ok_suffix x (n :: d)); [apply suffix_cons; exact Hx|exact Hp].
  - apply HO. left. rewrite (cf_dirs_anc _ _ _ x HC). exact Hx.
Qed.

Lemma OvOk_finished : forall c p, OvOk c -> path_ok p = true -> List.length p < walk_fuel -> OvOk (cf_finished c p).
Proof.
  intros c p HO Hp Hl x Hx. destruct Hx as [Hx|Hx].
  { unfold cf_finished in Hx. rewrite (proj2 (add_sub_fields _ _)) in Hx. cbn [cf_dirs cf_with] in Hx. apply HO; left; exact Hx. }
  rewrite cf_finished_files in Hx.
  apply orb_true_iff in Hx. destruct Hx as [Hx|Hx]; [apply path_eqb_eq in Hx; subst x; auto|apply HO; right; exact Hx].
Qed.

Lemma OvOk_sub : forall c c', OvOk c -> (forall x, mem_path x (cf_dirs c') = true -> mem_path x (cf_dirs c) = true) ->
  cf_files c' = cf_files c -> OvOk c'.
Proof. intros c c' HO Hd Hf x [Hx|Hx]; apply HO; [left; apply Hd; exact Hx|right; rewrite <- Hf; exact Hx]. Qed.

Print Assumptions counted_iff_anc.
Print Assumptions overlay_wf.
