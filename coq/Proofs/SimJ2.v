(* Proofs/SimJ2.v — HASH records in the PREVIOUS cache, part 2: the lookups (SimB8) with
   "hk = true -> HInv w" in place of "hk = true -> hash_ok w".  The side conditions subs_ok /
   file_rec_ok / sub_rec_ok are those of SimB8 (with hk = true they allow HASH).          *)
From Coq Require Import List String Ascii NArith ZArith Bool Arith Lia.
From FB.Base Require Import PyVal Fs.
From FB.Gen Require Import JsonUtilGen.
From FB.Spec Require Import Prog Ref Oracle Faithful.
From FB.Model Require Import Types Monad CreatedFiles BuildDirs SimpleOps Builder Persist Core.
From FB.Proofs Require Import FsLemmas CleanLaws JsonLaws CoreLawsChildren ReplayLaws BuildFileLaws CmpLaws HashMemoInv CoreLaws1 CoreLaws3 CoreLaws4
     ViewDefs ViewLemmas ViewScan ViewQueries ViewAnswers ViewPres ViewFrame ViewXDefs
     ViewOverlay ViewOverlay2 ViewH1 ViewH2 ViewH4 ViewH5 ViewH6 ViewR2 ViewR5 ViewK3 ViewK4
     SimB1 SimB2 SimB3 SimB4 SimB5 SimB6 SimB7 SimB8 SimG4 SimG7 SimJ1.
Import ListNotations.
Open Scope list_scope.
Open Scope m_scope.

Lemma bind_yields_inv' : forall A B (m : M A) (f : A -> M B) w w' res a,
  yields m w (inl a) -> bind m f w = (w', res) -> exists w1, m w = (w1, inl a) /\ good w w1 /\ f a w1 = (w', res).
Proof. intros A B m f w w' res a [w1 [E G]] H. unfold bind in H. rewrite E in H. eauto. Qed.

Section LookupH.
  Variables (hk : bool) (W : list path) (w : world) (s : kstate).
  Hypothesis HS : Sim3 W w s.
  Hypothesis HB : BInv w.
  Hypothesis HWcl : forall p, mem_path p W = true -> cache_has_file (w_new w) p = true.
  Hypothesis Hml : maxlen (w_fs w) < walk_fuel.
  Hypothesis Hhk : hk = true -> HInv w.
  Hypothesis HSD1 : forall p, isdir (w_fs w) p = true -> visible w p = false -> mem_path p (k_staledirs s) = true.
  Hypothesis HSD2 : forall p, mem_path p (k_staledirs s) = true -> lexists (w_fs w) p = true.

  Notation subs_ok := (SimB8.subs_ok hk W w s).
  Notation subs_post := (SimB8.subs_post W w s).
  Notation file_rec_ok := (SimB8.file_rec_ok hk W w s).
  Notation sub_rec_ok := (SimB8.sub_rec_ok hk W w s).

  Lemma subs_agree_H : forall p0 subs w1 wl res, KInv s p0 -> subs_ok p0 subs -> good w w1 -> (hk = true -> HInv w1) ->
    are_subs_cached subs cf_empty w1 = (wl, res) -> subs_post subs wl res.
  Proof.
    intros p0 subs w1 wl res HK (H1 & H2 & H3 & H4) G HH H.
    pose proof (RRel_start_state W w s HS p0 HK) as HR.
    assert (Hnew: newt p0 [] (flat_map regp subs)) by (intros t Ht; split; [intros []|apply H4; exact Ht]).
    destruct (replay_list_corr_H hk W w s p0 HS HB HWcl Hml HK HSD1 HSD2 subs [] [] cf_empty _ [] w1 wl res H1 H2 H3 Hnew G HH HR H)
      as (G1 & b & cf & -> & P).
    split; [exact G1|]. exists b, cf. split; [reflexivity|]. destruct b; [|exact P].
    destruct P as (r & Tl & M & K & R & _ & T & _ & A). exists r, Tl, M. split; [exact K|]. split; [exact R|].
    split; [|exact A]. intros t Ht. destruct (T t Ht) as [[]|K']. exact K'.
  Qed.

  (* ---------------------------------------------------------------- build_file *)
  Theorem file_lookup_agree_H : forall p f sa skw wl res,
    KInv s (Some p) -> p <> [] -> path_ok p = true ->
    cache_has_file (w_new w) p = false -> path_eqb p (w_cachefile w) = false ->
    (forall rec, cache_get_file (w_old w) p = Some rec -> file_rec_ok p rec) ->
    build_file_cache_lookup p f sa skw w = (wl, res) ->
    good w wl /\
    match core_file_hit s p f sa skw with
    | None => res = inl None
    | Some (g, subs', ret', r) =>
        exists rec cf Tl M, res = inl (Some rec) /\ cache_get_file (w_old w) p = Some rec /\
          op_subs rec = subs' /\ op_ret rec = ret' /\ lookup (w_fs w) p = Some (NFile g) /\
          RRel W w s [] Tl cf r M /\ (forall t, In t Tl -> In t (flat_map regp subs')) /\
          (forall t, In t (flat_map adp subs') -> In t Tl)
    end.
  Proof.
    intros p f sa skw wl res HK Hne Hpok Hunc Hncf Hrec H.
    unfold build_file_cache_lookup in H. apply bind_inv in H. unfold get in H.
    destruct H as [[w1 [wx [E H]]]|[e [E _]]]; [|discriminate]. inversion E; subst w1 wx. clear E.
    unfold core_file_hit. rewrite (s3_old _ _ _ HS).
    destruct (cache_get_file (w_old w) p) as [[q0 r0 e0|p' c' f' a' k' subs' rt' cr' ra' sf'|f0 a0 k0 sb0 r0 ra0 sf0]|] eqn:Eg;
      try (inversion H; subst; split; [apply good_refl; exact HB|reflexivity]).
    destruct (Hrec _ eq_refl) as (-> & Hcr & Hsubs).
    destruct ra'; [inversion H; subst; split; [apply good_refl; exact HB|reflexivity]|].
    destruct (Hcr eq_refl) as [Hpn Hcm].
    destruct (negb (String.eqb f' f)); [inversion H; subst; split; [apply good_refl; exact HB|reflexivity]|].
    apply bind_inv in H. rewrite version_equal_run in H. destruct H as [[w1 [ve [Ev H]]]|[e [Ev _]]]; [|discriminate].
    inversion Ev; subst w1 ve. clear Ev. rewrite (kversion_sim W w s f HS).
    destruct (negb (is_equal (func_version (w_old w) f) (func_version (w_new w) f)));
      [inversion H; subst; split; [apply good_refl; exact HB|reflexivity]|].
    destruct (is_equal a' sa); cbn [negb orb] in H |- *; [|inversion H; subst; split; [apply good_refl; exact HB|reflexivity]].
    destruct (is_equal k' skw); cbn [negb orb] in H |- *; [|inversion H; subst; split; [apply good_refl; exact HB|reflexivity]].
    (* the output on disk *)
    assert (Y: yields (is_build_file_cached p c' cr') w (inl (is_equal cr' (disk_cmp w p c')))).
    { destruct c'.
      - apply is_build_file_cached_spec; [exact HB|exact Hpok|left; reflexivity].
      - apply is_build_file_cached_spec_H; [exact HB|exact Hpok|apply (proj1 (Hhk Hcm))]. }
    assert (HH2: forall w2 rr, is_build_file_cached p c' cr' w = (w2, rr) -> hk = true -> HInv w2)
      by (intros w2 rr E2 E; apply (hx_HInv false w w2 (is_build_file_cached_hxf p c' cr' w w2 _ E2) (Hhk E))).
    destruct (bind_yields_inv' _ _ _ _ _ _ _ _ Y H) as (w2 & E2 & G2 & H2). clear H. specialize (HH2 _ _ E2).
    rewrite (phys_unclaimed W w s HS HWcl p Hne Hunc Hncf). unfold disk_cmp in H2.
    destruct (lookup (w_fs w) p) as [[g|]|] eqn:El.
    2:{ rewrite (is_equal_pnone_false _ Hpn) in H2. inversion H2; subst. split; [exact G2|reflexivity]. }
    2:{ rewrite (is_equal_pnone_false _ Hpn) in H2. inversion H2; subst. split; [exact G2|reflexivity]. }
    destruct (is_equal cr' (cmp_of c' g)); cbn [negb] in H2 |- *; [|inversion H2; subst; split; [exact G2|reflexivity]].
    (* the suboperations *)
    apply bind_inv in H2. destruct H2 as [[w3 [rr [Es H2]]]|[e [Es Er]]].
    2:{ exfalso. destruct (subs_agree_H (Some p) subs' w2 wl (inr e) HK Hsubs G2 HH2 Es) as (_ & b & cf & K & _). discriminate. }
    destruct (subs_agree_H (Some p) subs' w2 w3 (inl rr) HK Hsubs G2 HH2 Es) as (G3 & b & cf & Err & P).
    inversion Err; subst rr. clear Err. cbn [fst] in H2. destruct b.
    - destruct P as (r & Tl & M & K & R & T & A). rewrite K. inversion H2; subst. split; [exact G3|].
      eexists _, cf, Tl, M. split; [reflexivity|]. split; [reflexivity|]. cbn [op_subs op_ret].
      split; [reflexivity|]. split; [reflexivity|]. split; [reflexivity|]. split; [exact R|]. split; [exact T|exact A].
    - rewrite P. inversion H2; subst. split; [exact G3|reflexivity].
  Qed.

  (* the statement of ViewK8.v *)
  Corollary file_lookup_decision_H : forall p f sa skw wl cached,
    KInv s (Some p) -> p <> [] -> path_ok p = true ->
    cache_has_file (w_new w) p = false -> path_eqb p (w_cachefile w) = false ->
    (forall rec, cache_get_file (w_old w) p = Some rec -> file_rec_ok p rec) ->
    build_file_cache_lookup p f sa skw w = (wl, inl cached) ->
    (cached = None <->
     match cache_get_file (k_old s) p with
     | Some (OBuildFile p' c' fname' a' k' subs' ret' cmpres' raised' sf') =>
         raised' = true \/ String.eqb fname' f = false \/ kversion_equal s f = false \/
         is_equal a' sa = false \/ is_equal k' skw = false \/
         match phys (k_fs s) (k_stale s) p with
         | Some g => is_equal cmpres' (cmp_of c' g) = false \/ kreplay_list s subs' (start_replay s) = None
         | None => True
         end
     | _ => True
     end).
  Proof.
    intros p f sa skw wl cached HK Hne Hpok Hunc Hncf Hrec H.
    rewrite <- core_run_file_miss_cond.
    destruct (file_lookup_agree_H p f sa skw wl (inl cached) HK Hne Hpok Hunc Hncf Hrec H) as [_ P].
    destruct (core_file_hit s p f sa skw) as [[[[g subs'] ret'] r]|].
    - destruct P as (rec & cf & Tl & M & E & _). inversion E; subst. split; discriminate.
    - inversion P; subst. split; reflexivity.
  Qed.

  (* ---------------------------------------------------------------- subbuild *)
  Theorem sub_lookup_agree_H : forall key f wl res,
    KInv s None ->
    (forall rec, subs_get (c_subs (w_old w)) key = Some (Some rec) -> sub_rec_ok rec) ->
    subbuild_cache_lookup key f w = (wl, res) ->
    good w wl /\
    match core_sub_hit s key f with
    | None => res = inl None
    | Some (subs', ret', r) =>
        exists rec cf Tl M, res = inl (Some rec) /\ subs_get (c_subs (w_old w)) key = Some (Some rec) /\
          op_subs rec = subs' /\ op_ret rec = ret' /\
          RRel W w s [] Tl cf r M /\ (forall t, In t Tl -> In t (flat_map regp subs')) /\
          (forall t, In t (flat_map adp subs') -> In t Tl)
    end.
  Proof.
    intros key f wl res HK Hrec H.
    unfold subbuild_cache_lookup in H. apply bind_inv in H. unfold get in H.
    destruct H as [[w1 [wx [E H]]]|[e [E _]]]; [|discriminate]. inversion E; subst w1 wx. clear E.
    unfold core_sub_hit. rewrite (s3_old _ _ _ HS).
    destruct (subs_get (c_subs (w_old w)) key) as [[[q0 r0 e0|p' c' f' a' k' sb' rt' cr' ra' sf'|f0 a0 k0 subs' rt0 ra0 sf0]|]|] eqn:Eg;
      try (inversion H; subst; split; [apply good_refl; exact HB|reflexivity]).
    pose proof (Hrec _ eq_refl) as Hsubs. cbn [sub_rec_ok] in Hsubs.
    destruct ra0; [inversion H; subst; split; [apply good_refl; exact HB|reflexivity]|].
    apply bind_inv in H. rewrite version_equal_run in H. destruct H as [[w1 [ve [Ev H]]]|[e [Ev _]]]; [|discriminate].
    inversion Ev; subst w1 ve. clear Ev. rewrite (kversion_sim W w s f HS).
    destruct (negb (is_equal (func_version (w_old w) f) (func_version (w_new w) f)));
      [inversion H; subst; split; [apply good_refl; exact HB|reflexivity]|].
    apply bind_inv in H. destruct H as [[w3 [rr [Es H]]]|[e [Es Er]]].
    2:{ exfalso. destruct (subs_agree_H None subs' w wl (inr e) HK Hsubs (good_refl _ HB) Hhk Es) as (_ & b & cf & K & _). discriminate. }
    destruct (subs_agree_H None subs' w w3 (inl rr) HK Hsubs (good_refl _ HB) Hhk Es) as (G3 & b & cf & Err & P).
    inversion Err; subst rr. clear Err. cbn [fst] in H. destruct b.
    - destruct P as (r & Tl & M & K & R & T & A). rewrite K. inversion H; subst. split; [exact G3|].
      eexists _, cf, Tl, M. split; [reflexivity|]. split; [reflexivity|]. cbn [op_subs op_ret].
      split; [reflexivity|]. split; [reflexivity|]. split; [exact R|]. split; [exact T|exact A].
    - rewrite P. inversion H; subst. split; [exact G3|reflexivity].
  Qed.

  Corollary sub_lookup_decision_H : forall key f wl cached,
    KInv s None ->
    (forall rec, subs_get (c_subs (w_old w)) key = Some (Some rec) -> sub_rec_ok rec) ->
    subbuild_cache_lookup key f w = (wl, inl cached) ->
    (cached = None <-> core_sub_hit s key f = None).
  Proof.
    intros key f wl cached HK Hrec H.
    destruct (sub_lookup_agree_H key f wl (inl cached) HK Hrec H) as [_ P].
    destruct (core_sub_hit s key f) as [[[subs' ret'] r]|].
    - destruct P as (rec & cf & Tl & M & E & _). inversion E; subst. split; discriminate.
    - inversion P; subst. split; reflexivity.
  Qed.
End LookupH.

Print Assumptions file_lookup_agree_H.
Print Assumptions file_lookup_decision_H.
Print Assumptions sub_lookup_agree_H.
Print Assumptions sub_lookup_decision_H.
