(* Proofs/SimH16.v — SimH4 for a build that reuses records: the tables of the new cache along a
   run, in claim order.  Context [Ctx w]: the keys of the new tables are pairwise different
   (SimH5), the old cache answers lookups as the tables of a good forest do (SimH15.OldF/OldS)
   and its records are well formed.  A hit registers the tree of the reused record in claim
   order (SimH13: the check of use_cached_operation passes; SimH14: register_op appends). *)
From Coq Require Import List String Ascii NArith ZArith Bool Arith Lia Permutation.
From FB.Base Require Import PyVal Fs.
From FB.Gen Require Import JsonUtilGen.
From FB.Spec Require Import JsonSpec Prog.
From FB.Model Require Import Types Monad CreatedFiles BuildDirs SimpleOps Builder PathNorm Persist PersistSpec Build Run.
From FB.Proofs Require Import FsLemmas JsonLaws PersistLaws ReplayLaws BuildFileLaws ViewXOld
  CacheRTDefs CacheRTForest SimH2 SimH4 SimH5 SimH6 SimH10 SimH13 SimH14 SimH15.
Import ListNotations.
Local Open Scope list_scope.
Local Open Scope m_scope.

Definition Ctx (w : world) : Prop :=
  KI (w_new w) /\ OldF (w_old w) /\ OldS (w_old w) /\ RW (w_old w).

Lemma Ctx_same : forall w w', Ctx w -> KI (w_new w') -> w_old w' = w_old w -> Ctx w'.
Proof. intros w w' (A & B & C & D) K E. unfold Ctx. rewrite E. auto. Qed.

(* ------------------------------------------------------------------ the reuse tail *)
Lemma tail_T : forall co o o' w w1 r,
  (apply_cached_subs_of co ;;;
   r <- attempt (new_use_cached_operation o) ;;
   match r with
   | inl _ => ret (Some (inl o))
   | inr e => ret (Some (@inr op (exn * op) (e, o')))
   end) w = (w1, r) ->
  w_old w1 = w_old w /\
  (((forall x, r <> inl (Some (inl x))) /\ w_new w1 = w_new w) \/
   (r = inl (Some (inl o)) /\ assert_no_repeats (w_new w) o = true /\ w_new w1 = register_op (w_new w) o)).
Proof.
  intros co o o' w w1 r H.
  apply bind_inv in H. destruct H as [(wa & ua & Ea & H) | (e & Ea & ->)].
  2:{ destruct (newPO_eq _ _ _ _ _ (apply_cached_subs_of_new co) Ea) as [A B]. split; [exact B|]. left. split; [intros x Y; discriminate Y | exact A]. }
  destruct (newPO_eq _ _ _ _ _ (apply_cached_subs_of_new co) Ea) as [Na Oa].
  apply bind_inv in H. destruct H as [(wb & rb & Eb & H) | (e & Eb & ->)].
  2:{ apply attempt_inv in Eb. destruct Eb as (x & _ & Y). discriminate Y. }
  apply attempt_inv in Eb. destruct Eb as (x & Eb & Y). inversion Y; subst rb; clear Y.
  unfold new_use_cached_operation, bind, get in Eb.
  destruct (assert_no_repeats (w_new wa) o) eqn:A.
  - unfold put in Eb. inversion Eb; subst. inversion H; subst. cbn [w_old w_new set_new]. split; [exact Oa|]. right.
    rewrite <- Na. auto.
  - inversion Eb; subst. inversion H; subst. split; [exact Oa|]. left. split; [intros y Y; discriminate Y | exact Na].
Qed.

Lemma bf_reuse_T : forall p c f sa skw cached w w1 r, bf_reuse p c f sa skw cached w = (w1, r) ->
  w_old w1 = w_old w /\
  (((forall x, r <> inl (Some (inl x))) /\ w_new w1 = w_new w) \/
   (exists co cmp, cached = Some co /\
      let o := OBuildFile p c f sa skw (op_subs co) (op_ret co) cmp false false in
      r = inl (Some (inl o)) /\ assert_no_repeats (w_new w) o = true /\ w_new w1 = register_op (w_new w) o)).
Proof.
  intros p c f sa skw cached w w1 r H. unfold bf_reuse in H.
  destruct cached as [co|]; [|inversion H; subst; split; [reflexivity|]; left; split; [intros x Y; discriminate Y | reflexivity]].
  apply bind_inv in H. destruct H as [(wa & cmp & Ea & H) | (e & Ea & ->)].
  2:{ destruct (svb_eq _ _ _ _ _ (noneable_cmp_svb p c) Ea) as [A B]. split; [exact B|]. left. split; [intros x Y; discriminate Y | exact A]. }
  destruct (svb_eq _ _ _ _ _ (noneable_cmp_svb p c) Ea) as [Na Oa].
  assert (T : forall cmp0,
    (apply_cached_subs_of co ;;;
     r <- attempt (new_use_cached_operation (OBuildFile p c f sa skw (op_subs co) (op_ret co) cmp0 false false)) ;;
     match r with
     | inl _ => ret (Some (inl (OBuildFile p c f sa skw (op_subs co) (op_ret co) cmp0 false false)))
     | inr e => ret (Some (@inr op (exn * op) (e, OBuildFile p c f sa skw (op_subs co) (op_ret co) cmp0 true true)))
     end) wa = (w1, r) ->
    w_old w1 = w_old w /\
    (((forall x, r <> inl (Some (inl x))) /\ w_new w1 = w_new w) \/
     (exists co0 cmp1, Some co = Some co0 /\
        let o := OBuildFile p c f sa skw (op_subs co0) (op_ret co0) cmp1 false false in
        r = inl (Some (inl o)) /\ assert_no_repeats (w_new w) o = true /\ w_new w1 = register_op (w_new w) o))).
  { intros cmp0 E. destruct (tail_T _ _ _ _ _ _ E) as (O1 & [[X1 X2] | (X1 & X2 & X3)]).
    - split; [congruence|]. left. split; [exact X1 | congruence].
    - split; [congruence|]. right. exists co, cmp0. split; [reflexivity|]. cbv zeta. rewrite <- Na. auto. }
  destruct cmp; try (exact (T _ H)).
  inversion H; subst. split; [exact Oa|]. left. split; [intros x Y; discriminate Y | exact Na].
Qed.

(* ------------------------------------------------------------------ a hit appends the tree *)
Lemma pre_members_wf : forall subs, forallb op_wf subs = true -> forall o, In o (flat_map pre subs) -> op_wf o = true.
Proof.
  intros subs H o Ho. pose proof (flat_kl_wf subs H) as K. rewrite forallb_forall in K. apply K.
  eapply Permutation_in; [apply flat_pre_kl | exact Ho].
Qed.

Lemma hit_good : forall c o, KI c -> assert_no_repeats c o = true ->
  pw path_eqb (map fst (fents (pre o))) = true -> pw py_eq (map fst (sents (pre o))) = true ->
  c_files (register_op c o) = c_files c ++ fents (pre o) /\ c_subs (register_op c o) = c_subs c ++ sents (pre o).
Proof.
  intros c o [K1 K2] HA P1 P2. destruct (no_repeats_fresh o c HA) as [F1 F2].
  apply register_op_tabs. split; rewrite pw_app.
  - rewrite K1, P1. cbn [andb]. apply forallb_forall. intros x Hx. apply forallb_forall. intros y Hy.
    pose proof (files_get_none_keys _ _ (F1 y Hy)) as G. rewrite forallb_forall in G. exact (G x Hx).
  - rewrite K2, P2. cbn [andb]. apply forallb_forall. intros x Hx. apply forallb_forall. intros y Hy.
    pose proof (subs_get_none_keys _ _ (F2 y Hy)) as G. rewrite forallb_forall in G. exact (G x Hx).
Qed.

Lemma Good_of_tabs : forall w w1 o, w_new w1 = register_op (w_new w) o ->
  c_files (register_op (w_new w) o) = c_files (w_new w) ++ fents (pre o) ->
  c_subs (register_op (w_new w) o) = c_subs (w_new w) ++ sents (pre o) -> Good w w1 [o].
Proof. intros w w1 o E A B. unfold Good. cbn [flat_map]. rewrite app_nil_r, E. split; assumption. Qed.

(* ------------------------------------------------------------------ build_file setup *)
Lemma bf_setup_prefix : forall p c f sa skw w w1 r, bf_setup p c f sa skw w = (w1, r) ->
  ((exists e, r = inr e) /\ w_new w1 = w_new w /\ w_old w1 = w_old w) \/
  (exists we, w_new we = w_new w /\ w_old we = w_old w /\ cache_has_file (w_new w) p = false /\
     catch
       (cached <- build_file_cache_lookup p f sa skw ;;
        reused <- bf_reuse p c f sa skw cached ;;
        match reused with
        | Some (inl o) => ret (Some (inl o))
        | Some (inr eo) => m_bd_error p ;;; ret (Some (inr eo))
        | None => bf_claim p
        end)
       (fun e => m_bd_error p ;;; raise e) we = (w1, r)).
Proof.
  intros p c f sa skw w w1 r H. unfold bf_setup in H.
  apply bind_inv in H. destruct H as [(wa & ua & Ea & H) | (e & Ea & ->)].
  2:{ destruct (svb_eq _ _ _ _ _ (new_assert_no_file_svb p) Ea). left. eauto. }
  destruct (svb_eq _ _ _ _ _ (new_assert_no_file_svb p) Ea) as [Na Oa].
  pose proof (assert_no_file_ok _ _ _ _ Ea) as Hf.
  apply bind_inv in H. destruct H as [(wb & icf & Eb & H) | (e & Eb & ->)].
  2:{ destruct (svb_eq _ _ _ _ _ (is_cache_file_svb p) Eb). left. split; [eauto|]. split; congruence. }
  destruct (svb_eq _ _ _ _ _ (is_cache_file_svb p) Eb) as [Nb Ob].
  apply bind_inv in H. destruct H as [(wc & uc & Ec & H) | (e & Ec & ->)].
  2:{ left. split; [eauto|]. destruct icf; inversion Ec; subst; split; congruence. }
  assert (wc = wb) by (destruct icf; inversion Ec; reflexivity). subst wc.
  apply bind_inv in H. destruct H as [(wd & created & Ed & H) | (e & Ed & ->)].
  2:{ destruct (newPO_eq _ _ _ _ _ (prepare_file_creation_new p) Ed). left. split; [eauto|]. split; congruence. }
  destruct (newPO_eq _ _ _ _ _ (prepare_file_creation_new p) Ed) as [Nd Od].
  apply bind_inv in H. destruct H as [(we & locked & Ee & H) | (e & Ee & ->)].
  2:{ destruct (svb_eq _ _ _ _ _ (m_bd_started_svb p created) Ee). left. split; [eauto|]. split; congruence. }
  destruct (svb_eq _ _ _ _ _ (m_bd_started_svb p created) Ee) as [Ne Oe].
  right. exists we. split; [congruence|]. split; [congruence|]. split; [exact Hf | exact H].
Qed.

Definition same_tabs (w w1 : world) : Prop :=
  c_files (w_new w1) = c_files (w_new w) /\ c_subs (w_new w1) = c_subs (w_new w) /\ w_old w1 = w_old w.

Lemma bf_setup_T2 : forall p c f sa skw w w1 r, Ctx w -> sanitized sa = true -> sanitized skw = true ->
  bf_setup p c f sa skw w = (w1, r) ->
  w_old w1 = w_old w /\
  ((r = inl None /\ files_get (c_files (w_new w)) p = None /\
    c_files (w_new w1) = c_files (w_new w) ++ [(p, None)] /\ c_subs (w_new w1) = c_subs (w_new w)) \/
   ((exists e, r = inr e) /\ c_files (w_new w1) = c_files (w_new w) /\ c_subs (w_new w1) = c_subs (w_new w)) \/
   (exists o, r = inl (Some (inl o)) /\ shape o = true /\ Good w w1 [o])).
Proof.
  intros p c f sa skw w w1 r (KIw & OF & OS & OR) Sa Sk H0.
  destruct (bf_setup_prefix _ _ _ _ _ _ _ _ H0) as [([e ->] & A & B) | (we & Nw & Ow & Hf & H)].
  { split; [exact B|]. right; left. rewrite A. eauto. }
  (* the part under the handler, as a result and a world *)
  assert (Main : forall wx rx,
    (cached <- build_file_cache_lookup p f sa skw ;;
     reused <- bf_reuse p c f sa skw cached ;;
     match reused with
     | Some (inl o) => ret (Some (inl o))
     | Some (inr eo) => m_bd_error p ;;; ret (Some (inr eo))
     | None => bf_claim p
     end) we = (wx, rx) ->
    w_old wx = w_old w /\
    ((rx = inl None /\ c_files (w_new wx) = c_files (w_new w) ++ [(p, None)] /\ c_subs (w_new wx) = c_subs (w_new w)) \/
     ((forall o, rx <> inl (Some (inl o))) /\ rx <> inl None /\ c_files (w_new wx) = c_files (w_new w) /\ c_subs (w_new wx) = c_subs (w_new w)) \/
     (exists o, rx = inl (Some (inl o)) /\ shape o = true /\ Good w wx [o]))).
  { intros wx rx E.
    apply bind_inv in E. destruct E as [(wg & cached & Eg & E) | (e' & Eg & ->)].
    2:{ destruct (svb_eq _ _ _ _ _ (build_file_cache_lookup_svb p f sa skw) Eg) as [A B].
        split; [congruence|]. right; left. rewrite A, Nw. repeat split; intros; discriminate. }
    destruct (svb_eq _ _ _ _ _ (build_file_cache_lookup_svb p f sa skw) Eg) as [Ng Og].
    apply bind_inv in E. destruct E as [(wh & reused & Eh & E) | (e' & Eh & ->)].
    2:{ destruct (bf_reuse_T _ _ _ _ _ _ _ _ _ Eh) as (Oh & [[X1 X2] | (co & cmp & _ & X)]).
        - split; [congruence|]. right; left. rewrite X2, Ng, Nw. repeat split; intros; discriminate.
        - cbv zeta in X. destruct X as (Y & _). discriminate Y. }
    destruct (bf_reuse_T _ _ _ _ _ _ _ _ _ Eh) as (Oh & [[X1 X2] | (co & cmp & -> & X)]).
    - destruct reused as [[o1|eo]|].
      + exfalso. exact (X1 o1 eq_refl).
      + apply bind_inv in E. destruct E as [(wi & ui & Ei & E) | (e' & Ei & ->)].
        * inversion E; subst. destruct (svb_eq _ _ _ _ _ (m_bd_error_svb p) Ei) as [A B].
          split; [congruence|]. right; left. rewrite A, X2, Ng, Nw. repeat split; intros; discriminate.
        * destruct (svb_eq _ _ _ _ _ (m_bd_error_svb p) Ei) as [A B].
          split; [congruence|]. right; left. rewrite A, X2, Ng, Nw. repeat split; intros; discriminate.
      + assert (Hfh : cache_has_file (w_new wh) p = false) by (rewrite X2, Ng, Nw; exact Hf).
        destruct (bf_claim_T _ _ _ _ E Hfh) as (Of & Sf & [[[a ->] Ff] | [[e' ->] Ff]]).
        * split; [congruence|]. left. rewrite (bf_claim_none _ _ _ _ E). rewrite Ff, Sf, X2, Ng, Nw. auto.
        * split; [congruence|]. right; left. rewrite Ff, Sf, X2, Ng, Nw. repeat split; intros; discriminate.
    - cbv zeta in X. destruct X as (Y & HA & NR). inversion Y; subst reused; clear Y. inversion E; subst wx rx; clear E.
      split; [congruence|]. right; right. eexists. split; [reflexivity|].
      destruct (lookup_never_raised _ _ _ _ _ _ _ Eg) as (Hget & _ & Hnsf).
      rewrite Ow in Hget. unfold cache_get_file in Hget.
      destruct (files_get (c_files (w_old w)) p) as [[co'|]|] eqn:Eo; try discriminate Hget. inversion Hget; subst co'.
      destruct (OF p co Eo) as (c' & f' & a' & k' & subs' & r' & cr' & ra' & -> & P1 & P2).
      cbn [op_subs op_ret] in *.
      split.
      + cbn [shape andb]. apply forallb_forall. intros s Hs. apply no_sf_shape.
        rewrite forallb_forall in Hnsf. apply negb_true_iff. exact (Hnsf s Hs).
      + rewrite Ng, Nw in HA, NR.
        apply (Good_of_tabs w wh _ NR); apply hit_good; try assumption.
        all: cbn [pre app]; unfold fents, sents; cbn [flat_map fentry_of sentry_of app map fst]; assumption. }
  apply catch_inv in H. destruct H as [(x & H & ->) | (wf & e & H & H2)].
  - destruct (Main _ _ H) as (O1 & [(Y & F1 & S1) | [(Y1 & Y2 & F1 & S1) | (o & Y & Hs & G)]]).
    + inversion Y; subst x. split; [exact O1|]. left. split; [reflexivity|]. split; [apply has_file_false_get; exact Hf|]. auto.
    + exfalso. destruct x as [[o1|eo]|].
      * exact (Y1 o1 eq_refl).
      * exact (bf_setup_reuse_total _ _ _ _ _ _ _ _ _ (eq_trans H0 (f_equal (fun z => (w1, inl (Some (inr z)))) (surjective_pairing eo)))).
      * exact (Y2 eq_refl).
    + inversion Y; subst x. split; [exact O1|]. right; right. exists o. auto.
  - destruct (Main _ _ H) as (O1 & [(Y & _) | [(_ & _ & F1 & S1) | (o & Y & _)]]); try discriminate Y.
    assert (K : w_new w1 = w_new wf /\ w_old w1 = w_old wf /\ exists e', r = inr e').
    { apply bind_inv in H2. destruct H2 as [(wg & ug & Eg & H2) | (e' & Eg & ->)].
      - inversion H2; subst. destruct (svb_eq _ _ _ _ _ (m_bd_error_svb p) Eg). eauto.
      - destruct (svb_eq _ _ _ _ _ (m_bd_error_svb p) Eg). eauto. }
    destruct K as (K1 & K2 & e' & ->). split; [congruence|]. right; left. rewrite K1. eauto.
Qed.

(* ------------------------------------------------------------------ subbuild setup *)
Lemma sb_setup_T2 : forall f sa skw w w1 r, Ctx w -> sanitized sa = true -> sanitized skw = true ->
  sb_setup f sa skw w = (w1, r) ->
  w_old w1 = w_old w /\
  ((r = inl None /\ subs_get (c_subs (w_new w)) (subbuild_key f sa skw) = None /\
    c_subs (w_new w1) = c_subs (w_new w) ++ [(subbuild_key f sa skw, None)] /\ c_files (w_new w1) = c_files (w_new w)) \/
   ((exists e, r = inr e) /\ c_files (w_new w1) = c_files (w_new w) /\ c_subs (w_new w1) = c_subs (w_new w)) \/
   (exists o, r = inl (Some (inl o)) /\ shape o = true /\ Good w w1 [o])).
Proof.
  intros f sa skw w w1 r (KIw & OF & OS & OR) Sa Sk H0. pose proof H0 as H. unfold sb_setup in H. cbv zeta in H.
  apply bind_inv in H. destruct H as [(wa & ua & Ea & H) | (e & Ea & ->)].
  2:{ destruct (svb_eq _ _ _ _ _ (new_assert_no_subbuild_svb _) Ea) as [A B]. split; [exact B|]. right; left. rewrite A. eauto. }
  destruct (svb_eq _ _ _ _ _ (new_assert_no_subbuild_svb _) Ea) as [Na Oa].
  pose proof (assert_no_subbuild_ok _ _ _ _ Ea) as Hf.
  apply bind_inv in H. destruct H as [(wb & cached & Eb & H) | (e & Eb & ->)].
  2:{ destruct (svb_eq _ _ _ _ _ (subbuild_cache_lookup_svb _ f) Eb) as [A B]. split; [congruence|]. right; left. rewrite A, Na. eauto. }
  destruct (svb_eq _ _ _ _ _ (subbuild_cache_lookup_svb _ f) Eb) as [Nb Ob].
  destruct cached as [co|].
  - destruct (tail_T _ _ _ _ _ _ H) as (O1 & [[X1 X2] | (-> & HA & NR)]).
    + split; [congruence|]. destruct r as [[[o1|[e1 o1]]|]|e1].
      * exfalso. exact (X1 o1 eq_refl).
      * exfalso. exact (sb_setup_reuse_total _ _ _ _ _ _ _ H0).
      * exfalso. apply bind_inv in H. destruct H as [(wj & uj & _ & H) | (e0 & _ & Y)]; [|discriminate Y].
        apply bind_inv in H. destruct H as [(wk & rk & _ & H) | (e0 & _ & Y)]; [|discriminate Y]. destruct rk; inversion H.
      * right; left. rewrite X2, Nb, Na. eauto.
    + split; [congruence|]. right; right. eexists. split; [reflexivity|].
      destruct (sublookup_never_raised _ _ _ _ _ Eb) as (Hget & _ & Hnsf). rewrite Oa in Hget.
      destruct (OS _ co Hget) as (f' & a' & k' & subs' & r' & ra' & -> & P1 & P2 & P3).
      cbn [op_subs op_ret] in *.
      split.
      * cbn [shape andb]. apply forallb_forall. intros s Hs. apply no_sf_shape.
        rewrite forallb_forall in Hnsf. apply negb_true_iff. exact (Hnsf s Hs).
      * rewrite Nb, Na in HA, NR.
        assert (PF : pw path_eqb (map fst (fents (pre (OSubbuild f sa skw subs' r' false false)))) = true).
        { cbn [pre app]. unfold fents. cbn [flat_map fentry_of app]. exact P1. }
        assert (PS : pw py_eq (map fst (sents (pre (OSubbuild f sa skw subs' r' false false)))) = true).
        { cbn [pre app]. unfold sents. cbn [flat_map sentry_of app map fst pw]. fold (sents (flat_map pre subs')).
          rewrite P2, andb_true_r.
          destruct (subs_get_in _ _ _ Hget) as [q Hq]. destruct OR as [_ ORs]. pose proof (ORs _ _ Hq) as Wco.
          rewrite op_wf_sub_eq in Wco. split_andb Wco.
          apply forallb_forall. intros y Hy. rewrite forallb_forall in P3. specialize (P3 y Hy).
          destruct (sents_key_In _ _ Hy) as (f2 & a2 & k2 & s2 & r2 & ra2 & sf2 & I2 & ->).
          pose proof (pre_members_wf subs' Wco0 _ I2) as W2. rewrite op_wf_sub_eq in W2.
          apply andb_true_iff in W2; destruct W2 as [W2 _]. apply andb_true_iff in W2; destruct W2 as [W2 _].
          apply andb_true_iff in W2; destruct W2 as [Wa2 Wk2].
          rewrite (py_eq_key_sym f sa skw f2 a2 k2 Sa Sk Wa2 Wk2). exact P3. }
        destruct (hit_good _ _ KIw HA PF PS) as [G1 G2]. exact (Good_of_tabs w w1 _ NR G1 G2).
  - apply bind_inv in H. destruct H as [(wc & uc & Ec & H) | (e & Ec & ->)].
    + inversion H; subst w1 r; clear H. unfold new_start_subbuild in Ec.
      apply bind_inv in Ec. destruct Ec as [(wd & ud & Ed & Ec) | (e & _ & Y)]; [|discriminate Y].
      destruct (svb_eq _ _ _ _ _ (new_assert_no_subbuild_svb _) Ed) as [Nd Od].
      unfold modify in Ec. inversion Ec; subst wc.
      cbn [w_new w_old set_new cache_with c_files c_subs]. rewrite Nd, Od, Nb, Ob, Na, Oa.
      split; [reflexivity|]. left. split; [reflexivity|].
      pose proof (has_subbuild_false_get _ _ Hf) as G. split; [exact G|]. split; [|reflexivity].
      apply subs_set_fresh. apply subs_get_none_keys. exact G.
    + unfold new_start_subbuild in Ec. apply bind_inv in Ec. destruct Ec as [(wd & ud & Ed & Ec) | (e0 & Ed & _)].
      * unfold modify in Ec. inversion Ec.
      * destruct (svb_eq _ _ _ _ _ (new_assert_no_subbuild_svb _) Ed) as [Nd Od]. split; [congruence|].
        right; left. rewrite Nd, Nb, Na. eauto.
Qed.

(* ------------------------------------------------------------------ nodes *)
Definition body_T2 (b : body) : Prop :=
  forall w0 w3 res bs, Ctx w0 -> b w0 = (w3, (res, bs)) ->
    w_old w3 = w_old w0 /\ KI (w_new w3) /\ forallb shape bs = true /\ (Good w0 w3 bs \/ Bad w0 w3).

Lemma m_build_file_T2 : forall p c f a kw (fn : path -> pyval -> pyval -> body) w w1 r1 o, Ctx w ->
  (forall sa skw, body_T2 (fn p sa skw)) ->
  m_build_file p c f a kw fn w = (w1, (r1, o)) ->
  w_old w1 = w_old w /\ KI (w_new w1) /\ forallb shape (olist o) = true /\ (Good w w1 (olist o) \/ Bad w w1).
Proof.
  intros p c f a kw fn w w1 r1 o HC Hfn E. pose proof HC as (KIw & _). rewrite m_build_file_unfold in E.
  destruct (sanitize a) as [sa|] eqn:Ea;
    [|inversion E; subst; split; [reflexivity|]; split; [exact KIw|]; split; [reflexivity|]; left; apply Good_refl; reflexivity].
  destruct (sanitize kw) as [skw|] eqn:Ek;
    [|inversion E; subst; split; [reflexivity|]; split; [exact KIw|]; split; [reflexivity|]; left; apply Good_refl; reflexivity].
  pose proof (sanitize_sanitized _ _ Ea) as Sa. pose proof (sanitize_sanitized _ _ Ek) as Sk.
  destruct (bf_setup p c f sa skw w) as [w2 rs] eqn:Es.
  pose proof (bf_setup_cr kr kr_refl kr_trans kr_fset kr_fdel kr_sset p c f sa skw w w2 rs Es KIw) as KI2.
  destruct (bf_setup_T2 _ _ _ _ _ _ _ _ HC Sa Sk Es) as (O2 & [(-> & Gp & F2 & S2) | [([e ->] & F2 & S2) | (o0 & -> & Hsh & G)]]).
  - unfold bf_rebuild in E.
    destruct (fn p sa skw (bf_invoke_world p f sa skw w2)) as [w3 [res bs]] eqn:Ef.
    assert (Ci : Ctx (bf_invoke_world p f sa skw w2)) by (apply (Ctx_same w); [exact HC | exact KI2 | exact O2]).
    destruct (Hfn sa skw _ _ _ _ Ci Ef) as (Oi & K3 & Hbs & Hstep). cbn [bf_invoke_world w_old set_log] in Oi.
    pose proof (bf_finish_cr kr kr_refl kr_trans kr_fset p c f sa skw res bs w3 w1 _ E K3) as K1.
    destruct (bf_finish_T _ _ _ _ _ _ _ _ _ _ _ E) as (rv & cr & ra & K). cbv zeta in K.
    destruct K as (-> & O4 & S4 & F4).
    assert (Ni : w_new (bf_invoke_world p f sa skw w2) = w_new w2) by reflexivity.
    split; [congruence|]. split; [exact K1|]. split; [cbn [olist forallb shape]; rewrite Hbs; reflexivity|].
    pose proof (files_get_none_keys _ _ Gp) as Hk.
    destruct Hstep as [[Gf Gs] | B].
    + rewrite Ni, F2 in Gf. rewrite Ni, S2 in Gs.
      destruct F4 as [F4|F4].
      * left. unfold Good. cbn [olist flat_map pre]. rewrite app_nil_r, fents_app, sents_app.
        split.
        -- rewrite F4, Gf, <- app_assoc. cbn [app]. rewrite (files_set_mid _ _ _ _ _ Hk). reflexivity.
        -- rewrite S4, Gs. reflexivity.
      * right. unfold Bad. rewrite F4, Gf, nnf_app, nnf_snoc_none. lia.
    + unfold Bad in B. rewrite Ni, F2, nnf_snoc_none in B. right. unfold Bad.
      destruct F4 as [F4|F4]; rewrite F4; [|lia].
      pose proof (nnf_files_set_ge (c_files (w_new w3)) p (OBuildFile p c f sa skw bs rv cr ra false)). lia.
  - inversion E; subst. split; [exact O2|]. split; [exact KI2|]. split; [reflexivity|]. left. unfold Good.
    cbn [olist flat_map pre app fents sents]. rewrite !app_nil_r. split; assumption.
  - inversion E; subst. split; [exact O2|]. split; [exact KI2|]. split; [cbn [olist forallb]; rewrite Hsh; reflexivity|].
    left. exact G.
Qed.

Lemma m_subbuild_T2 : forall f a kw (fn : pyval -> pyval -> body) w w1 r1 o, Ctx w ->
  (forall sa skw, body_T2 (fn sa skw)) ->
  m_subbuild f a kw fn w = (w1, (r1, o)) ->
  w_old w1 = w_old w /\ KI (w_new w1) /\ forallb shape (olist o) = true /\ (Good w w1 (olist o) \/ Bad w w1).
Proof.
  intros f a kw fn w w1 r1 o HC Hfn E. pose proof HC as (KIw & _). rewrite m_subbuild_unfold in E.
  destruct (sanitize a) as [sa|] eqn:Ea;
    [|inversion E; subst; split; [reflexivity|]; split; [exact KIw|]; split; [reflexivity|]; left; apply Good_refl; reflexivity].
  destruct (sanitize kw) as [skw|] eqn:Ek;
    [|inversion E; subst; split; [reflexivity|]; split; [exact KIw|]; split; [reflexivity|]; left; apply Good_refl; reflexivity].
  pose proof (sanitize_sanitized _ _ Ea) as Sa. pose proof (sanitize_sanitized _ _ Ek) as Sk.
  pose proof (subbuild_key_refl f sa skw Sa Sk) as Hkk.
  destruct (sb_setup f sa skw w) as [w2 rs] eqn:Es.
  pose proof (sb_setup_cr kr kr_refl kr_trans kr_fset kr_sset f sa skw w w2 rs Es KIw) as KI2.
  destruct (sb_setup_T2 _ _ _ _ _ _ HC Sa Sk Es) as (O2 & [(-> & Gp & S2 & F2) | [([e ->] & F2 & S2) | (o0 & -> & Hsh & G)]]).
  - unfold sb_rebuild in E.
    destruct (fn sa skw (sb_invoke_world f sa skw w2)) as [w3 [res bs]] eqn:Ef.
    assert (Ci : Ctx (sb_invoke_world f sa skw w2)) by (apply (Ctx_same w); [exact HC | exact KI2 | exact O2]).
    destruct (Hfn sa skw _ _ _ _ Ci Ef) as (Oi & K3 & Hbs & Hstep). cbn [sb_invoke_world w_old set_log] in Oi.
    pose proof (sb_finish_cr kr kr_refl kr_trans kr_sset f sa skw res bs w3 w1 _ E K3) as K1.
    destruct (sb_finish_T _ _ _ _ _ _ _ _ _ E) as (rv & ra & K). cbv zeta in K.
    destruct K as (-> & O4 & F4 & S4).
    assert (Ni : w_new (sb_invoke_world f sa skw w2) = w_new w2) by reflexivity.
    split; [congruence|]. split; [exact K1|]. split; [cbn [olist forallb shape]; rewrite Hbs; reflexivity|].
    pose proof (subs_get_none_keys _ _ Gp) as Hk.
    destruct Hstep as [[Gf Gs] | B].
    + rewrite Ni, F2 in Gf. rewrite Ni, S2 in Gs.
      left. unfold Good. cbn [olist flat_map pre]. rewrite app_nil_r, fents_app, sents_app. split.
      * rewrite F4, Gf. reflexivity.
      * rewrite S4, Gs, <- app_assoc. cbn [app]. rewrite (subs_set_mid _ _ _ _ _ Hkk Hk). reflexivity.
    + right. unfold Bad in *. rewrite Ni, F2 in B. rewrite F4. exact B.
  - inversion E; subst. split; [exact O2|]. split; [exact KI2|]. split; [reflexivity|]. left. unfold Good.
    cbn [olist flat_map pre app fents sents]. rewrite !app_nil_r. split; assumption.
  - inversion E; subst. split; [exact O2|]. split; [exact KI2|]. split; [cbn [olist forallb]; rewrite Hsh; reflexivity|].
    left. exact G.
Qed.

(* ------------------------------------------------------------------ every program *)
Theorem run_T2 : forall pr target subs w w' r subs', Ctx w -> run pr target subs w = (w', (r, subs')) ->
  exists new, subs' = subs ++ new /\ forallb shape new = true /\ (Good w w' new \/ Bad w w').
Proof.
  induction pr as [v | e | stale q k IH | c k IH | stale p c f a kw fn IHfn k IHk | stale f a kw fn IHfn k IHk];
    intros target subs w w' r subs' HC H; cbn [run] in H.
  - inversion H; subst. exists []. rewrite app_nil_r. split; [reflexivity|]. split; [reflexivity|]. left. apply Good_refl. reflexivity.
  - inversion H; subst. exists []. rewrite app_nil_r. split; [reflexivity|]. split; [reflexivity|]. left. apply Good_refl. reflexivity.
  - destruct stale; [eapply IH; eauto|].
    destruct (m_query q w) as [w1 [r1 o]] eqn:E.
    destruct (svb_eq _ _ _ _ _ (m_query_svb q) E) as [N1 O1].
    assert (Hsh : forallb shape (olist o) = true).
    { unfold m_query in E. destruct (exec_query q None w) as [w2 [v|[]]]; inversion E; subst; reflexivity. }
    assert (Hpre : flat_map pre (olist o) = []).
    { unfold m_query in E. destruct (exec_query q None w) as [w2 [v|[]]]; inversion E; subst; reflexivity. }
    assert (Nl : w_new (log_answer q (user_answer q r1 w1) w1) = w_new w).
    { rewrite <- N1. unfold log_answer. repeat match goal with |- context [match ?y with _ => _ end] => destruct y end; reflexivity. }
    assert (Ol : w_old (log_answer q (user_answer q r1 w1) w1) = w_old w).
    { rewrite <- O1. unfold log_answer. repeat match goal with |- context [match ?y with _ => _ end] => destruct y end; reflexivity. }
    assert (C1 : Ctx (log_answer q (user_answer q r1 w1) w1)).
    { apply (Ctx_same w); [exact HC | rewrite Nl; exact (proj1 HC) | exact Ol]. }
    destruct (IH _ _ _ _ _ _ _ C1 H) as (new & -> & Hn & Hs).
    exists (olist o ++ new). rewrite app_op_olist, app_assoc. split; [reflexivity|].
    split; [rewrite forallb_app, Hsh, Hn; reflexivity|].
    destruct Hs as [G|B].
    + left. unfold Good in *. rewrite flat_map_app, Hpre. cbn [app]. rewrite Nl in G. exact G.
    + right. unfold Bad in *. rewrite Nl in B. exact B.
  - destruct target as [t|]; [|eapply IH; eauto].
    destruct (write_file (w_fs w) t c None (N.succ (w_clock w)) (w_nextid w)) as [fs'|e] eqn:E.
    + assert (C1 : Ctx (set_clock (N.succ (w_clock w)) (N.succ (w_nextid w)) (set_fs fs' w))) by exact HC.
      destruct (IH _ _ _ _ _ _ C1 H) as (new & -> & Hn & Hs). exists new. split; [reflexivity|]. split; [exact Hn|]. exact Hs.
    + inversion H; subst. exists []. rewrite app_nil_r. split; [reflexivity|]. split; [reflexivity|]. left. apply Good_refl. reflexivity.
  - destruct stale; [eapply IHk; eauto|].
    match type of H with (let '(_, _) := ?X in _) = _ => destruct X as [w1 [r1 o]] eqn:E end.
    assert (Hb : forall sa skw, body_T2 (fun w0 => run (fn p sa skw) (Some p) [] w0)).
    { intros sa skw w0 w3 res bs C0 E0. destruct (IHfn _ _ _ _ _ _ _ _ _ C0 E0) as (new & -> & Hn & Hs).
      split; [exact (proj1 (run_old _ _ _ _ _ _ E0))|]. split; [exact (run_K _ _ _ _ _ _ E0 (proj1 C0))|]. cbn [app]. auto. }
    destruct (m_build_file_T2 p c f a kw (fun p' sa skw w0 => run (fn p' sa skw) (Some p') [] w0) w w1 r1 o HC Hb E) as (O1 & K1 & Hsh & Hs1).
    assert (C1 : Ctx w1) by (apply (Ctx_same w); assumption).
    destruct (IHk _ _ _ _ _ _ _ C1 H) as (new & -> & Hn & Hs).
    exists (olist o ++ new). rewrite app_op_olist, app_assoc. split; [reflexivity|].
    split; [rewrite forallb_app, Hsh, Hn; reflexivity|]. eapply step_trans; eauto.
  - destruct stale; [eapply IHk; eauto|].
    match type of H with (let '(_, _) := ?X in _) = _ => destruct X as [w1 [r1 o]] eqn:E end.
    assert (Hb : forall sa skw, body_T2 (fun w0 => run (fn sa skw) None [] w0)).
    { intros sa skw w0 w3 res bs C0 E0. destruct (IHfn _ _ _ _ _ _ _ _ C0 E0) as (new & -> & Hn & Hs).
      split; [exact (proj1 (run_old _ _ _ _ _ _ E0))|]. split; [exact (run_K _ _ _ _ _ _ E0 (proj1 C0))|]. cbn [app]. auto. }
    destruct (m_subbuild_T2 f a kw (fun sa skw w0 => run (fn sa skw) None [] w0) w w1 r1 o HC Hb E) as (O1 & K1 & Hsh & Hs1).
    assert (C1 : Ctx w1) by (apply (Ctx_same w); assumption).
    destruct (IHk _ _ _ _ _ _ _ C1 H) as (new & -> & Hn & Hs).
    exists (olist o ++ new). rewrite app_op_olist, app_assoc. split; [reflexivity|].
    split; [rewrite forallb_app, Hsh, Hn; reflexivity|]. eapply step_trans; eauto.
Qed.

Print Assumptions run_T2.
