(* Proofs/CommitDirs2Run.v -- the invariant YInv (CommitDirs2Y.v) along every run of a
   program.
   GENERAL FORM ([run_Y_for], section RunY): for a class [ok] of previous caches, RELATIVE TO
     - ViewXSetup.hit_statement_for ok, ViewXRun.sbhit_statement_for ok  (what the lock-count
       invariant XInv itself needs at a cache lookup: NOT proved for arbitrary caches), and
     - their analogues for YInv, [ytry_statement] / [ysb_statement] below (YInv across the
       lookup/reuse/claim block of build_file and across the setup of subbuild).
   UNCONDITIONAL INSTANCE ([run_Y], section NorecY): previous caches without records
   ([norec]: hit_norec / sbhit_norec of ViewXRun.v, [ytry_norec] / [ysb_norec] here).
   At every state the proof has at hand
     - ViewXFail.RInv T w      (XInv T w, PInv T w, no faults)          from ViewXRun.run_RInv,
     - FInv / EInv              (RollbackDirs.. / CommitDirs..)           from CommitDirsRun.run_G,
   and carries YInv itself.  New file of round 3; edits nothing. *)
From Coq Require Import List String Ascii NArith ZArith Bool Arith Lia.
From FB.Base Require Import PyVal Fs.
From FB.Gen Require Import JsonUtilGen.
From FB.Spec Require Import Prog.
From FB.Model Require Import Types Monad CreatedFiles BuildDirs SimpleOps Builder Persist Build Run Frame.
From FB.Proofs Require Import CoreLawsChildren ViewDefs ViewLemmas ViewXDefs ViewXQuery ViewXError ViewXSteps
     ViewXMake1 ViewXMake2 ViewXFail ViewXRoom2 ViewXSetup ViewPrepare ViewXMkfail ViewXRun BuildFileLaws.
From FB.Proofs Require Import FsLemmas ReplayLaws FrameLaws CleanLaws RollbackDirsLaws
     RollbackDirsView RollbackDirsBase RollbackDirsInv RollbackDirsMake RollbackDirsRun
     CommitDirsInv CommitDirsRun CommitDirs2Y CommitDirs2Bd CommitDirs2Step.
Import ListNotations.
Local Open Scope list_scope.

Section RunY.

Variable fs0 : fsT.
Variable old : cache.
Variable cf : path.
Variable P : path -> Prop.
Variable X : list path.
Hypothesis HypA : forall a t, Tgt old cf P t -> below a t = true -> ~ P a.
Hypothesis HS : forall a t, Tgt old cf P t -> below a t = true -> notorig fs0 a.
Hypothesis Hwf0 : fs_wf fs0.

Notation RX := ViewXFail.RInv.
Notation RI := (RollbackDirsLaws.RInv fs0 old cf P).
Notation FI := (FInv fs0 old cf P X).
Notation EI := (EInv fs0 old cf P).
Notation YI := (YInv fs0 cf).
Notation GR := (GRel fs0 old cf P X).
Notation GP := (GPO fs0 old cf P X).

Lemma YI_ext : forall w w', w_fs w' = w_fs w -> w_bd w' = w_bd w -> YI w -> YI w'.
Proof. intros w w' E1 E2 H. unfold YInv, Nn in *. rewrite E1, E2. exact H. Qed.

Lemma FI_old : forall w, FI w -> w_old w = old.
Proof. intros w ((_ & H & _) & _). exact H. Qed.


Lemma FI_C1 : forall w, FI w -> forall a, in_counts (w_bd w) a = true -> lookup (w_fs w) a = Some NDir.
Proof. intros w (_ & (_ & _ & _ & _ & C1)) a Ha. exact (proj1 (C1 a Ha)). Qed.

Lemma EI_Z : forall w, EI w -> bdZ (w_bd w).
Proof. intros w (_ & HZ & _). exact HZ. Qed.

Lemma tcond_some : forall p w, In p (c_built (w_new w)) -> tcond (Some p) w.
Proof. intros p w H q Y. inversion Y; subst. exact H. Qed.
Lemma gcond_some : forall p w, pending (w_new w) p -> gcond (Some p) w.
Proof. intros p w H q Y. inversion Y; subst. exact H. Qed.

(* a step that only touches the entry of a live target *)
Lemma Y_target_step : forall T w w' p, XInv T w -> In p T -> YI w ->
  w_bd w' = w_bd w -> dirs_same (w_fs w) (w_fs w') ->
  (forall q, q <> p -> lookup (w_fs w') q = lookup (w_fs w) q) -> YI w'.
Proof.
  intros T w w' p HX Hin HY Eb Hd Hq.
  apply (Y_fs_step fs0 cf w w' HY Eb).
  - intros q H. apply Hd. exact H.
  - intros m x y Hy. destruct (path_eq_dec (m :: x) p) as [E|E].
    + right. pose proof (X_target_parent _ _ _ HX Hin) as K. rewrite <- E in K. exact K.
    + left. rewrite <- (Hq _ E). exact Hy.
Qed.

(* ------------------------------------------------------------------ the failure path *)
Lemma bf_fail_Y : forall T n d c f sa skw subs e w w' r oo,
  RX T w -> In (n :: d) T -> FI w -> EI w ->
  In (n :: d) (c_built (w_new w)) -> pending (w_new w) (n :: d) -> YI w ->
  bf_fail (n :: d) c f sa skw subs e w = (w', (r, oo)) -> YI w'.
Proof.
  intros T n d c f sa skw subs e w w' r oo HR Hin Fw Ew Hb Hp HY H.
  unfold bf_fail in H. cbv zeta in H.
  match type of H with (match ?Z with _ => _ end) = _ => destruct Z as [w1 x] eqn:E end.
  assert (W : w1 = w') by (destruct x; inversion H; reflexivity). subst w1. clear H.
  pose proof HR as (HX & HP & HF).
  apply bind_inv in E. destruct E as [(wa & u & E1 & E2) | (e1 & E1 & _)].
  2:{ destruct (try_to_remove_file_full _ _ _ _ E1 HF) as (Y & _). discriminate Y. }
  destruct (try_to_remove_target _ _ _ _ _ HR Hin E1) as [(HXa & HPa & HFa) Hnf].
  destruct (try_to_remove_file_full _ _ _ _ E1 HF) as (_ & F1 & _ & F3 & _ & G2).
  destruct (try_to_remove_file_dkeep _ _ _ _ E1) as (_ & Dk & _).
  assert (HYa : YI wa) by (exact (Y_target_step T w wa (n :: d) HX Hin HY F3 Dk G2)).
  destruct (try_to_remove_file_F fs0 old cf P X (n :: d) _ _ _ E1 Fw (tcond_some _ _ Hb)) as [Fwa _].
  destruct (remove_target_E fs0 old cf P _ _ _ _ E1 HF Ew Hp Hb) as (_ & Ewa & _).
  destruct (m_bd_error_XInv T wa n d HXa Hin Hnf) as (b' & Eb & HXb).
  apply bind_inv in E2. rewrite Eb in E2. destruct E2 as [(wb & u' & E2 & E3) | (e1 & E2 & _)]; [|discriminate E2].
  inversion E2; subst wb u'; clear E2.
  assert (Ebd : bd_error (w_bd wa) (n :: d) = Some b').
  { unfold m_bd_error in Eb. destruct (bd_error (w_bd wa) (n :: d)) as [b|]; [|discriminate Eb].
    inversion Eb as [K]. congruence. }
  pose proof (Y_bd_error fs0 old cf P Hwf0 T wa n d b' HXa HPa Hin Hnf (proj1 Fwa) (EI_Z _ Ewa) HYa Ebd HXb) as HYb.
  unfold new_finish_building_file, modify in E3. inversion E3; subst w'.
  apply (YI_ext (set_bd b' wa)); [reflexivity | reflexivity | exact HYb].
Qed.

(* ------------------------------------------------------------------ after the function returned *)
Lemma bf_finish_Y : forall T n d c f sa skw res subs w w' r oo,
  RX T w -> In (n :: d) T -> FI w -> EI w ->
  In (n :: d) (c_built (w_new w)) -> pending (w_new w) (n :: d) -> YI w ->
  bf_finish (n :: d) c f sa skw res subs w = (w', (r, oo)) -> YI w'.
Proof.
  intros T n d c f sa skw res subs w w' r oo HR Hin Fw Ew Hb Hp HY H. unfold bf_finish in H.
  destruct res as [v|e]; [|eapply bf_fail_Y; eassumption].
  destruct (sanitize v) as [sv|]; [|eapply bf_fail_Y; eassumption].
  destruct (noneable_cmp (n :: d) c w) as [w4 rc] eqn:Ec.
  pose proof (noneable_cmp_q _ _ _ _ _ Ec) as Q.
  pose proof (qrel_RInv T _ _ Q HR) as HR4.
  pose proof (Y_query fs0 cf Hwf0 T _ _ (proj1 HR) Q HY) as HY4.
  pose proof (G_view fs0 old cf P X (Some (n :: d)) _ _ (noneable_cmp_view (n :: d) c) _ _ _ Ec) as R34.
  destruct (R34 Fw Ew (tcond_some _ _ Hb) (gcond_some _ _ Hp)) as (Fw4 & L4 & Ew4 & S4).
  assert (Hb4 : In (n :: d) (c_built (w_new w4))) by (apply L4; exact Hb).
  assert (Hp4 : pending (w_new w4) (n :: d)) by (exact (gcond_stable _ _ _ (gcond_some _ _ Hp) S4 _ eq_refl)).
  destruct rc as [cmp|e]; [|eapply bf_fail_Y; eassumption].
  destruct cmp; try (eapply bf_fail_Y; eassumption);
    (destruct (new_finish_building_file (n :: d) _ w4) as [w5 u] eqn:E5; inversion H; subst;
     unfold new_finish_building_file, modify in E5; inversion E5; subst;
     apply (YI_ext w4); [reflexivity | reflexivity | exact HY4]).
Qed.

(* ------------------------------------------------------------------ the claim *)
Definition tframe (p : path) (w w' : world) : Prop :=
  w_bd w' = w_bd w /\ dirs_same (w_fs w) (w_fs w') /\ (forall q, q <> p -> lookup (w_fs w') q = lookup (w_fs w) q).

Lemma tframe_same : forall p w w', w_fs w' = w_fs w -> w_bd w' = w_bd w -> tframe p w w'.
Proof. intros p w w' E1 E2. split; [exact E2|]. rewrite E1. split; [apply dirs_same_refl | reflexivity]. Qed.

Lemma tframe_trans : forall p a b c, tframe p a b -> tframe p b c -> tframe p a c.
Proof.
  intros p a b c (A1 & A2 & A3) (B1 & B2 & B3). split; [congruence|]. split; [eapply dirs_same_trans; eauto|].
  intros q Hq. rewrite (B3 q Hq). apply A3. exact Hq.
Qed.

Lemma bf_claim_frame : forall p w w' r, bf_claim p w = (w', r) -> w_faults w = [] ->
  isdir (w_fs w) p = false -> tframe p w w'.
Proof.
  intros p w w' r H HF Hd. unfold bf_claim in H.
  assert (St : forall wa x, new_start_building_file p w = (wa, x) ->
            w_fs wa = w_fs w /\ w_bd wa = w_bd w /\ w_faults wa = w_faults w).
  { intros wa x E. unfold new_start_building_file, new_assert_no_file, bind, get, modify in E.
    destruct (cache_has_file (w_new w) p); inversion E; subst; auto. }
  apply bind_inv in H. destruct H as [(wa & u & E1 & H) | (e & E1 & _)].
  2:{ destruct (St _ _ E1) as (A1 & A2 & _). apply tframe_same; assumption. }
  destruct (St _ _ E1) as (A1 & A2 & A3).
  assert (K : forall wb x,
            catch (w0 <- get ;; (if isfile (w_fs w0) p then b <- back_up_and_remove p ;; ret tt else ret tt))
                  (fun e => new_abort_building_file p ;;; raise e) wa = (wb, x) -> tframe p wa wb).
  { intros wb x E. unfold catch in E. unfold bind at 1, get in E.
    destruct (isfile (w_fs wa) p) eqn:Ef.
    - unfold bind at 1 in E. destruct (back_up_and_remove p wa) as [wc rb] eqn:Eb.
      assert (Hda : isdir (w_fs wa) p = false) by (rewrite A1; exact Hd).
      assert (Tc : tframe p wa wc).
      { destruct (back_up_dkeep _ _ _ _ Eb Hda) as (D1 & D2 & _).
        destruct (back_up_spec _ _ _ _ Eb (eq_trans A3 HF) Hda) as (_ & _ & _ & _ & [(g & _ & _ & _ & Fr & _) | (Fs & _)]).
        - split; [exact D1|]. split; [exact D2 | exact Fr].
        - split; [exact D1|]. split; [exact D2|]. intros q _. rewrite Fs. reflexivity. }
      destruct rb as [bb|e].
      + cbn in E. inversion E; subst. exact Tc.
      + unfold new_abort_building_file, bind, modify, raise in E. inversion E; subst.
        eapply tframe_trans; [exact Tc | apply tframe_same; reflexivity].
    - cbn in E. inversion E; subst. apply tframe_same; reflexivity. }
  apply bind_inv in H. destruct H as [(wb & u2 & E2 & H) | (e & E2 & _)].
  - inversion H; subst. eapply tframe_trans; [apply tframe_same; eassumption | exact (K _ _ E2)].
  - eapply tframe_trans; [apply tframe_same; eassumption | exact (K _ _ E2)].
Qed.

(* ------------------------------------------------------------------ room for the target *)
Lemma pfc_room_Y : forall T n d w w' r, RX T w -> YI w -> pfc_room (n :: d) w = (w', r) ->
  YI w' /\ RX T w' /\ w_new w' = w_new w /\ (r = inl tt -> isdir (w_fs w') (n :: d) = false).
Proof.
  intros T n d w w' r HR HY H. pose proof HR as (HX & HP & HF).
  unfold pfc_room in H. unfold bind at 1, get in H.
  destruct (isdir (w_fs w) (n :: d)) eqn:Ei.
  2:{ inversion H; subst. split; [exact HY|]. split; [exact HR|]. split; [reflexivity | intros _; exact Ei]. }
  apply bind_inv in H. destruct H as [[wa [vd [Ed E1]]]|[e [Ed Er]]].
  2:{ subst r. pose proof (m_is_dir_q _ _ _ _ _ Ed) as Q. destruct (qrel_facts _ _ _ HX Q) as (_ & Sa & _ & _).
      split; [exact (Y_query fs0 cf Hwf0 T _ _ HX Q HY)|]. split; [exact (qrel_RInv T _ _ Q HR)|].
      split; [apply (sv_new _ _ Sa) | discriminate]. }
  pose proof (m_is_dir_q _ _ _ _ _ Ed) as Q. pose proof (qrel_RInv T _ _ Q HR) as HRa.
  pose proof (Y_query fs0 cf Hwf0 T _ _ HX Q HY) as HYa.
  destruct (qrel_facts _ _ _ HX Q) as (HXa & Sa & _ & _).
  destruct (m_is_dir_inl _ _ _ _ _ HX Ed) as [Evd _].
  destruct vd.
  { inversion E1; subst. split; [exact HYa|]. split; [exact HRa|]. split; [apply (sv_new _ _ Sa) | discriminate]. }
  assert (Hdead: dead w (n :: d) = true).
  { unfold vdir in Evd. rewrite Ei in Evd. cbn [andb] in Evd. symmetry in Evd. apply negb_false_iff in Evd. exact Evd. }
  assert (HRI: ViewXRoom2.RI T (n :: d) wa).
  { split; [exact HXa|]. split; [rewrite (sv_fs _ _ Sa); exact Ei|]. split; [rewrite (sv_dead _ _ Sa); exact Hdead|apply HRa]. }
  destruct (make_room_ok T _ _ _ _ _ HRI E1) as (HXb & Rb & Hgone).
  pose proof (RInv_rrel _ _ _ _ HRa HXb Rb) as HRb.
  split; [exact (Y_make_room fs0 cf Hwf0 T _ _ _ _ _ HRI HYa E1)|]. split; [exact HRb|]. split.
  - rewrite (rr_new _ _ _ Rb). apply (sv_new _ _ Sa).
  - intro Hr. unfold isdir. rewrite (Hgone Hr). reflexivity.
Qed.

(* ------------------------------------------------------------------ what is assumed of cache lookups *)
(* YInv across the lookup / reuse / claim block of build_file, started in the world in which
   the target has just been reserved; when the block raises, the file invariant and the
   BuildDirs bookkeeping invariant still hold (they are needed to release the reservation) *)
Definition ytry_statement : Prop :=
  forall t T n d c f sa skw w wc rt, P (n :: d) -> n :: d <> cf ->
    RX ((n :: d) :: T) w -> FI w -> EI w -> tcond t w -> gcond t w -> YI w ->
    cache_has_file (w_new w) (n :: d) = false -> isdir (w_fs w) (n :: d) = false ->
    bf_try (n :: d) c f sa skw w = (wc, rt) ->
    YI wc /\ (forall e, rt = inr e -> RI wc /\ bdZ (w_bd wc)).

(* YInv across the setup of subbuild *)
Definition ysb_statement : Prop :=
  forall t T f sa skw w w1 r, RX T w -> FI w -> EI w -> tcond t w -> gcond t w -> YI w ->
    sb_setup f sa skw w = (w1, r) -> YI w1.

Variable ok : cache -> Prop.
Hypothesis Hok : ok old.
Hypothesis HH : hit_statement_for ok.
Hypothesis HSb : sbhit_statement_for ok.
Hypothesis HYtry : ytry_statement.
Hypothesis HYsb : ysb_statement.

Lemma FI_ok : forall w, FI w -> ok (w_old w).
Proof. intros w H. rewrite (FI_old _ H). exact Hok. Qed.

(* the setup of subbuild keeps FInv / EInv (as inside CommitDirsRun.m_subbuild_G) *)
Lemma sb_setup_GR : forall t f sa skw, pres (GP t) (sb_setup f sa skw).
Proof.
  intros t f sa skw. unfold sb_setup. cbv zeta.
  apply pres_bind; [apply G_view; apply new_assert_no_subbuild_view|]. intros _.
  apply (pres_bind_valG fs0 old cf P X t _ _ _ _
         (fun cached => match cached with Some co => forall x, In x (op_targets co) -> Tgt old cf P x | None => True end)).
  - apply G_view. apply subbuild_cache_lookup_view.
  - intros w0 w1 x ((_ & B & _) & _) E. destruct x as [co|]; [|exact I].
    apply sublookup_never_raised in E. destruct E as (E & _). rewrite B in E.
    intros y Hy. right. right. eapply subs_get_targets; eauto.
  - intros cached Hc. destruct cached as [co|].
    + apply pres_bind; [apply (apply_cached_subs_of_G fs0 old cf P X HypA HS co Hc t)|]. intros _.
      apply pres_bind.
      * intros w w' r H. unfold attempt in H.
        destruct (new_use_cached_operation (OSubbuild f sa skw (op_subs co) (op_ret co) false false) w) as [w2 r2] eqn:E.
        inversion H; subst w' r. refine (new_use_cached_operation_G fs0 old cf P X HypA t _ _ _ _ _ E).
        intros q Hq. cbn [op_targets] in Hq. apply Hc. apply subs_targets_incl. exact Hq.
      * intro r. destruct r; apply pres_ret.
    + apply pres_bind; [apply new_start_subbuild_G | intros _; apply pres_ret].
Qed.

(* ------------------------------------------------------------------ everything before the function *)
Lemma bf_setup_Y : forall t T p c f sa skw w w1 r, P p ->
  RX T w -> FI w -> EI w -> tcond t w -> gcond t w -> YI w ->
  bf_setup p c f sa skw w = (w1, r) -> YI w1.
Proof.
  intros t T p c f sa skw w w1 r HPp HR Fw Ew Tw Gw HY H. pose proof HR as (HX & HP & HF).
  rewrite bf_setup_eq in H.
  apply bind_inv in H. destruct H as [[wa [u [E H]]]|[e [E Er]]].
  2:{ unfold new_assert_no_file in E. apply bind_inv in E. unfold get in E.
      destruct E as [[wb [w0 [E0 E]]]|[e' [E0 _]]]; [|discriminate E0]. inversion E0; subst wb w0.
      destruct (cache_has_file (w_new w) p); inversion E; subst. exact HY. }
  assert (Hunclaimed: wa = w /\ cache_has_file (w_new w) p = false).
  { unfold new_assert_no_file in E. apply bind_inv in E. unfold get in E.
    destruct E as [[wb [w0 [E0 E]]]|[e' [E0 _]]]; [|discriminate E0]. inversion E0; subst wb w0.
    destruct (cache_has_file (w_new w) p); inversion E; subst. auto. }
  destruct Hunclaimed as [-> Hunc].
  apply bind_inv in H. destruct H as [[wa [icf [E1 H]]]|[e [E1 _]]]; [|discriminate E1].
  unfold is_cache_file in E1. unfold bind, get, ret in E1.
  assert (Hicf : wa = w /\ icf = path_eqb p (w_cachefile w)) by (inversion E1; auto).
  destruct Hicf as [-> Hicf].
  apply bind_inv in H. destruct H as [[wa [u1 [E2 H]]]|[e [E2 Er]]].
  2:{ subst r. destruct icf; inversion E2; subst. exact HY. }
  destruct icf; [discriminate E2|]. inversion E2; subst wa u1.
  assert (Ncf : p <> cf).
  { pose proof (proj1 Fw) as (_ & _ & Ecf & _). rewrite Ecf in Hicf. intro K. subst p. rewrite path_eqb_refl in Hicf. discriminate Hicf. }
  destruct p as [|n d].
  { (* the root: every outcome is the state after the is_dir query *)
    apply bind_inv in H. destruct H as [[wa [created [E3 H]]]|[e [E3 Er]]].
    - exfalso. unfold prepare_file_creation in E3. apply bind_inv in E3. unfold get in E3.
      destruct E3 as [[wb [w0 [E0 E3]]]|[e' [E0 _]]]; [|discriminate E0]. inversion E0; subst wb w0.
      cbn [isdir lookup] in E3. apply bind_inv in E3. destruct E3 as [[wb [u2 [E4 _]]]|[e' [_ E4]]]; [|discriminate E4].
      apply bind_inv in E4. destruct E4 as [[wc [vd [Ed E4]]]|[e' [_ E4]]]; [|discriminate E4].
      destruct (m_is_dir_inl _ _ _ _ _ HX Ed) as [Evd _]. rewrite (vdir_root _ (x_binv _ _ HX)) in Evd. subst vd. discriminate E4.
    - subst r. unfold prepare_file_creation in E3. apply bind_inv in E3. unfold get in E3.
      destruct E3 as [[wb [w0 [E0 E3]]]|[e' [E0 _]]]; [|discriminate E0]. inversion E0; subst wb w0.
      cbn [isdir lookup] in E3. apply bind_inv in E3. destruct E3 as [[wb [u2 [E4 E5]]]|[e' [E4 _]]].
      + exfalso. apply bind_inv in E4. destruct E4 as [[wc [vd [Ed E4]]]|[e' [_ E4]]]; [|discriminate E4].
        destruct (m_is_dir_inl _ _ _ _ _ HX Ed) as [Evd _]. rewrite (vdir_root _ (x_binv _ _ HX)) in Evd. subst vd. discriminate E4.
      + apply bind_inv in E4. destruct E4 as [[wc [vd [Ed E4]]]|[e'' [Ed _]]].
        * pose proof (Y_query fs0 cf Hwf0 T _ _ HX (m_is_dir_q _ _ _ _ _ Ed) HY) as HYc.
          destruct (m_is_dir_inl _ _ _ _ _ HX Ed) as [Evd _]. rewrite (vdir_root _ (x_binv _ _ HX)) in Evd. subst vd.
          inversion E4; subst. exact HYc.
        * exact (Y_query fs0 cf Hwf0 T _ _ HX (m_is_dir_q _ _ _ _ _ Ed) HY). }
  rewrite prep_assoc in H.
  apply bind_inv in H. destruct H as [[wpre [u0 [Ep H]]]|[e [Ep Er]]].
  2:{ exact (proj1 (pfc_room_Y T n d _ _ _ HR HY Ep)). }
  destruct (pfc_room_Y T n d _ _ _ HR HY Ep) as (HYp & HRp & Hnew & Hnd). destruct u0.
  specialize (Hnd eq_refl).
  destruct (pfc_room_G fs0 old cf P X HypA t (n :: d) HPp _ _ _ Ep Fw Ew Tw Gw) as (Fp & Lp & Ewp & Sp).
  assert (Tp : tcond t wpre) by (intros q Hq; apply Lp, Tw, Hq).
  assert (Gp : gcond t wpre) by (eapply gcond_stable; eauto).
  cbn [dirname tl] in H.
  apply bind_inv in H. destruct H as [[w2 [created [Hmk H]]]|[e [Hmk Er]]].
  2:{ exact (Y_mkfail fs0 cf Hwf0 T _ _ _ _ HRp HYp Hmk). }
  apply bind_inv in H. destruct H as [[w3 [locked [E4 H]]]|[e [E4 _]]].
  2:{ unfold m_bd_started in E4. destruct (bd_started (w_bd w2) (n :: d) created); discriminate E4. }
  destruct HRp as (HXp & HPq & HFp).
  destruct (make_dirs_started_XInv T wpre n d w2 created w3 locked HXp HPq Hnd Hmk E4) as (HXb & HPb & Nb & Ob & Cb & Fsb).
  pose proof (Y_make_started fs0 cf Hwf0 T wpre n d w2 created w3 locked HXp (FI_C1 _ Fp) (EI_Z _ Ewp) HYp Hmk E4 HXb) as HY3.
  assert (Eml : make_lock (n :: d) wpre = (w3, inl locked)).
  { unfold make_lock, bind. cbn [dirname tl]. rewrite Hmk, E4. reflexivity. }
  destruct (make_lock_G fs0 old cf P X HypA HS t (n :: d) (or_introl HPp) _ _ _ Eml Fp Ewp Tp Gp) as (F3 & L3 & Ew3 & S3).
  assert (T3 : tcond t w3) by (intros q Hq; apply L3, Tp, Hq).
  assert (G3 : gcond t w3) by (eapply gcond_stable; eauto).
  assert (HFb : w_faults w3 = []) by (exact (proj1 (proj1 F3))).
  assert (HRb : RX ((n :: d) :: T) w3) by (split; [exact HXb|split; [exact HPb|exact HFb]]).
  assert (Hunc_b : cache_has_file (w_new w3) (n :: d) = false) by (rewrite Nb, Hnew; exact Hunc).
  assert (Hnd_b : isdir (w_fs w3) (n :: d) = false).
  { unfold isdir. rewrite Fsb; [exact Hnd|]. intro Hs. apply suffix_length in Hs. simpl in Hs. lia. }
  unfold catch in H. destruct (bf_try (n :: d) c f sa skw w3) as [wc rt] eqn:Et.
  pose proof (HH T n d c f sa skw w3 wc rt (FI_ok _ F3) HRb Hunc_b Hnd_b Et) as Post.
  destruct (HYtry t T n d c f sa skw w3 wc rt HPp Ncf HRb F3 Ew3 T3 G3 HY3 Hunc_b Hnd_b Et) as [HYc Herr].
  destruct rt as [x|e].
  - inversion H; subst. exact HYc.
  - destruct Post as (HRc & Hnf & Hnp). destruct HRc as (HXc & HPc & HFc).
    destruct (Herr e eq_refl) as [Rc Zc].
    destruct (m_bd_error_XInv ((n :: d) :: T) wc n d HXc (or_introl eq_refl) Hnf) as (b' & Eb & HXe).
    apply bind_inv in H. rewrite Eb in H. destruct H as [[wd [u2 [E5 H]]]|[e' [E5 _]]]; [|discriminate E5].
    inversion E5; subst wd u2. inversion H; subst w1 r.
    assert (Ebd : bd_error (w_bd wc) (n :: d) = Some b').
    { unfold m_bd_error in Eb. destruct (bd_error (w_bd wc) (n :: d)) as [b|]; [|discriminate Eb].
      inversion Eb as [K]. congruence. }
    exact (Y_bd_error fs0 old cf P Hwf0 ((n :: d) :: T) wc n d b' HXc HPc (or_introl eq_refl) Hnf Rc Zc HYc Ebd HXe).
Qed.

(* ------------------------------------------------------------------ build_file *)
Lemma m_build_file_Y : forall t T p c f a kw (fn : path -> pyval -> pyval -> body) w w' res, P p ->
  (forall sa skw T0 w0 w1 r, ok (w_old w0) -> RX T0 w0 -> In p T0 -> fn p sa skw w0 = (w1, r) ->
     exists T1, RX T1 w1 /\ msub T0 T1) ->
  (forall sa skw, pres (GP (Some p)) (fn p sa skw)) ->
  (forall sa skw T0 w0 w1 r, RX T0 w0 -> In p T0 -> FI w0 -> EI w0 -> tcond (Some p) w0 -> gcond (Some p) w0 ->
     YI w0 -> fn p sa skw w0 = (w1, r) -> YI w1) ->
  RX T w -> FI w -> EI w -> tcond t w -> gcond t w -> YI w ->
  m_build_file p c f a kw fn w = (w', res) -> YI w'.
Proof.
  intros t T p c f a kw fn w w' res HPp HfnR HfnG HfnY HR Fw Ew Tw Gw HY H.
  rewrite BuildFileLaws.m_build_file_unfold in H.
  destruct (sanitize a) as [sa|]; [|inversion H; subst; exact HY].
  destruct (sanitize kw) as [skw|]; [|inversion H; subst; exact HY].
  destruct (BuildFileLaws.bf_setup p c f sa skw w) as [w1 r1] eqn:Es.
  pose proof (bf_setup_Y t T p c f sa skw w w1 r1 HPp HR Fw Ew Tw Gw HY Es) as HY1.
  pose proof (bf_setup_RInv ok mkfail_holds HH T p c f sa skw w w1 r1 (FI_ok _ Fw) HR Es) as Post.
  unfold setup_post in Post.
  destruct r1 as [[[o|[e o]]|]|e]; try (inversion H; subst; exact HY1).
  destruct Post as (HR1 & Hprog & Hne & Hold).
  destruct (bf_setup_G fs0 old cf P X HypA HS t p c f sa skw HPp _ _ _ Es Fw Ew Tw Gw) as (F1 & _ & Ew1 & _).
  pose proof (RollbackDirsLaws.bf_setup_none _ _ _ _ _ _ _ Es) as Hb1.
  unfold bf_rebuild in H.
  destruct (fn p sa skw (bf_invoke_world p f sa skw w1)) as [w3 [res3 subs3]] eqn:Ef.
  assert (HRi : RX (p :: T) (bf_invoke_world p f sa skw w1)) by (eapply RInv_fields; [exact HR1|..]; reflexivity).
  assert (Ti : tcond (Some p) (bf_invoke_world p f sa skw w1)) by (apply tcond_some; exact Hb1).
  assert (Gi : gcond (Some p) (bf_invoke_world p f sa skw w1)) by (apply gcond_some; exact Hprog).
  destruct (GRel_set_log fs0 old cf P X (Some p) (LInvoke f (Some p) sa skw :: w_log w1) w1 F1 Ew1
              (tcond_some _ _ Hb1) (gcond_some _ _ Hprog)) as (Fi & _ & Ewi & _).
  change (set_log (LInvoke f (Some p) sa skw :: w_log w1) w1) with (bf_invoke_world p f sa skw w1) in Fi, Ewi.
  assert (HYi : YI (bf_invoke_world p f sa skw w1)) by (apply (YI_ext w1); [reflexivity | reflexivity | exact HY1]).
  pose proof (HfnY sa skw (p :: T) _ _ _ HRi (or_introl eq_refl) Fi Ewi Ti Gi HYi Ef) as HY3.
  destruct (HfnR sa skw (p :: T) _ _ _ (FI_ok _ Fi) HRi (or_introl eq_refl) Ef) as (T1 & HR3 & M1).
  destruct (HfnG sa skw _ _ _ Ef Fi Ewi Ti Gi) as (F3 & L3 & Ew3 & S3).
  destruct p as [|n d]; [contradiction|].
  assert (Hin : In (n :: d) T1) by (apply (msub_in _ _ _ M1); left; reflexivity).
  destruct res as [ro oo].
  apply (bf_finish_Y T1 n d c f sa skw res3 subs3 w3 w' ro oo HR3 Hin F3 Ew3); [| |exact HY3|exact H].
  - apply L3. exact Hb1.
  - exact (gcond_stable _ _ _ Gi S3 _ eq_refl).
Qed.

(* ------------------------------------------------------------------ subbuild *)
Lemma m_subbuild_Y : forall t T f a kw (fn : pyval -> pyval -> body) w w' res,
  (forall sa skw T0 w0 w1 r, RX T0 w0 -> FI w0 -> EI w0 -> tcond t w0 -> gcond t w0 -> YI w0 ->
     fn sa skw w0 = (w1, r) -> YI w1) ->
  RX T w -> FI w -> EI w -> tcond t w -> gcond t w -> YI w ->
  m_subbuild f a kw fn w = (w', res) -> YI w'.
Proof.
  intros t T f a kw fn w w' res HfnY HR Fw Ew Tw Gw HY H.
  rewrite BuildFileLaws.m_subbuild_unfold in H.
  destruct (sanitize a) as [sa|]; [|inversion H; subst; exact HY].
  destruct (sanitize kw) as [skw|]; [|inversion H; subst; exact HY].
  destruct (sb_setup f sa skw w) as [w1 r1] eqn:Es.
  destruct (HSb T f sa skw w w1 r1 (FI_ok _ Fw) HR Es) as (T1 & HR1 & M1 & Hold).
  pose proof (HYsb t T f sa skw w w1 r1 HR Fw Ew Tw Gw HY Es) as HY1.
  destruct (sb_setup_GR t f sa skw _ _ _ Es Fw Ew Tw Gw) as (F1 & L1 & Ew1 & S1).
  assert (T1c : tcond t w1) by (intros q Hq; apply L1, Tw, Hq).
  assert (G1c : gcond t w1) by (eapply gcond_stable; eauto).
  destruct r1 as [[[o|[e o]]|]|e]; try (inversion H; subst; exact HY1).
  unfold sb_rebuild in H.
  destruct (fn sa skw (sb_invoke_world f sa skw w1)) as [w3 [res3 subs3]] eqn:Ef.
  assert (HRi : RX T1 (sb_invoke_world f sa skw w1)) by (eapply RInv_fields; [exact HR1|..]; reflexivity).
  destruct (GRel_set_log fs0 old cf P X t (LInvoke f None sa skw :: w_log w1) w1 F1 Ew1 T1c G1c) as (Fi & Li & Ewi & Si).
  change (set_log (LInvoke f None sa skw :: w_log w1) w1) with (sb_invoke_world f sa skw w1) in Fi, Ewi, Li, Si.
  assert (HYi : YI (sb_invoke_world f sa skw w1)) by (apply (YI_ext w1); [reflexivity | reflexivity | exact HY1]).
  assert (Ti : tcond t (sb_invoke_world f sa skw w1)) by (intros q Hq; apply Li, T1c, Hq).
  assert (Gi : gcond t (sb_invoke_world f sa skw w1)) by (eapply gcond_stable; eauto).
  pose proof (HfnY sa skw T1 _ _ _ HRi Fi Ewi Ti Gi HYi Ef) as HY3.
  unfold sb_finish in H. cbv zeta in H.
  assert (Hfin : forall o w4 u, new_finish_subbuild (subbuild_key f sa skw) o w3 = (w4, u) -> YI w4).
  { intros o w4 u E. unfold new_finish_subbuild, modify in E. inversion E; subst.
    apply (YI_ext w3); [reflexivity | reflexivity | exact HY3]. }
  destruct res3 as [v|e].
  - destruct (sanitize v);
      match type of H with (match ?Z with _ => _ end) = _ => destruct Z as [w4 u] eqn:E4 end;
      inversion H; subst; eapply Hfin; exact E4.
  - match type of H with (match ?Z with _ => _ end) = _ => destruct Z as [w4 u] eqn:E4 end.
    inversion H; subst. eapply Hfin; exact E4.
Qed.

(* ------------------------------------------------------------------ every program *)
Theorem run_Y_for : forall pr, AllTargets P pr ->
  forall target subs T w w' res,
    RX T w -> FI w -> EI w -> tcond target w -> gcond target w ->
    (forall p, target = Some p -> In p T) -> YI w ->
    run pr target subs w = (w', res) -> YI w'.
Proof.
  intros pr Hat.
  induction Hat as [v | e | s q k Hk IHk | c k Hk IHk | s p c f a kw fn k Hp Hfn IHfn Hk IHk
                    | s f a kw fn k Hfn IHfn Hk IHk];
    intros target subs T w w' res HR Fw Ew Tw Gw Htg HY H; cbn [run] in H.
  - inversion H; subst. exact HY.
  - inversion H; subst. exact HY.
  - destruct s; [eapply IHk; eauto|].
    destruct (m_query q w) as [w1 [r1 o]] eqn:E.
    pose proof (m_query_RInv _ _ _ _ _ _ HR E) as HR1.
    destruct (m_query_G fs0 old cf P X target q _ _ _ E Fw Ew Tw Gw) as (F1 & L1 & Ew1 & S1).
    assert (T1c : tcond target w1) by (intros x Hx; apply L1, Tw, Hx).
    assert (G1c : gcond target w1) by (eapply gcond_stable; eauto).
    assert (HY1 : YI w1).
    { unfold m_query in E. destruct (exec_query q None w) as [w2 x] eqn:Eq.
      pose proof (Y_query fs0 cf Hwf0 T _ _ (proj1 HR) (exec_query_q _ _ _ _ _ Eq) HY) as K.
      destruct x as [v|[]]; inversion E; subst; exact K. }
    set (r' := user_answer q r1 w1) in *.
    destruct (GRel_log_answer fs0 old cf P X target q r' w1 F1 Ew1 T1c G1c) as (F2 & L2 & Ew2 & S2).
    eapply (IHk r' target _ T); [apply log_answer_RInv; exact HR1 | exact F2 | exact Ew2 | | | exact Htg | | exact H].
    + intros x Hx. apply L2, T1c, Hx.
    + eapply gcond_stable; eauto.
    + apply (YI_ext w1); [| |exact HY1]; unfold log_answer; destruct r' as [?|[]]; reflexivity.
  - destruct target as [p|]; [|eapply IHk; eauto].
    destruct (write_file (w_fs w) p c None (N.succ (w_clock w)) (w_nextid w)) as [fs'|e] eqn:Ew0.
    2:{ inversion H; subst. exact HY. }
    set (w1 := set_clock (N.succ (w_clock w)) (N.succ (w_nextid w)) (set_fs fs' w)) in *.
    pose proof HR as (HX & HP & HF).
    assert (Hin : In p T) by (apply Htg; reflexivity).
    assert (HR1 : RX T w1).
    { pose proof (write_target_XInv T w p _ _ _ _ _ HX Hin Ew0) as HX'.
      split; [eapply XInv_fields; [exact HX'|..]; reflexivity|]. split; [exact HP|exact HF]. }
    assert (Erun : run (Write c (Ret PNone)) (Some p) [] w = (w1, (inl PNone, []))).
    { cbn [run]. rewrite Ew0. reflexivity. }
    destruct (run_G fs0 old cf P X HypA HS _ (AT_Write P c _ (AT_Ret P PNone)) (Some p) [] _ _ _ Erun Fw Ew Tw Gw)
      as (F1 & L1 & Ew1 & S1).
    eapply (IHk (Some p) _ T w1); [exact HR1 | exact F1 | exact Ew1 | | | exact Htg | | exact H].
    + intros x Hx. apply L1, Tw, Hx.
    + eapply gcond_stable; eauto.
    + apply (Y_target_step T w w1 p HX Hin HY); [reflexivity | |].
      * exact (write_file_dirs_same _ _ _ _ _ _ _ Ew0).
      * intros x Hx. exact (proj2 (write_file_frame _ _ _ _ _ _ _ Ew0) x Hx).
  - destruct s; [eapply IHk; eauto|].
    match type of H with (let '(_, _) := ?Z in _) = _ => destruct Z as [w1 [r1 o]] eqn:E end.
    pose proof (fun sa skw => run_G fs0 old cf P X HypA HS _ (Hfn p sa skw) (Some p) []) as HfnG.
    assert (HfnR : forall sa skw T0 w0 w2 r, ok (w_old w0) -> RX T0 w0 -> In p T0 ->
              run (fn p sa skw) (Some p) [] w0 = (w2, r) -> exists T1, RX T1 w2 /\ msub T0 T1).
    { intros sa skw T0 w0 w2 r Hok0 HR0 Hin Hf.
      eapply (run_RInv ok mkfail_holds HH HSb); [exact Hok0 | exact HR0 | | exact Hf].
      intros p0 Hp0. inversion Hp0; subst. exact Hin. }
    assert (HY1 : YI w1).
    { apply (m_build_file_Y target T p c f a kw (fun p' sa skw w0 => run (fn p' sa skw) (Some p') [] w0) w w1 (r1, o) Hp
               HfnR HfnG); [|exact HR|exact Fw|exact Ew|exact Tw|exact Gw|exact HY|exact E].
      intros sa skw T0 w0 w2 r HR0 Hin F0 E0 T0c G0c HY0 Hf.
      eapply (IHfn p sa skw (Some p) [] T0); [exact HR0|exact F0|exact E0|exact T0c|exact G0c| |exact HY0|exact Hf].
      intros p0 Hp0. inversion Hp0; subst. exact Hin. }
    destruct (m_build_file_RInv ok mkfail_holds HH T p c f a kw
                (fun p' sa skw w0 => run (fn p' sa skw) (Some p') [] w0) w w1 (r1, o)) as (T1 & HR1 & M1);
      [|exact (FI_ok _ Fw)|exact HR|exact E|].
    { intros sa skw T0 w0 w2 r Hok0 HR0 Hin Hf. exact (HfnR sa skw T0 w0 w2 r Hok0 HR0 Hin Hf). }
    destruct (m_build_file_G fs0 old cf P X HypA HS p c f a kw _ Hp HfnG target _ _ _ E Fw Ew Tw Gw) as (F1 & L1 & Ew1 & S1).
    eapply (IHk r1 target _ T1 w1); [exact HR1 | exact F1 | exact Ew1 | | | | exact HY1 | exact H].
    + intros x Hx. apply L1, Tw, Hx.
    + eapply gcond_stable; eauto.
    + intros p0 Hp0. apply (msub_in _ _ _ M1). apply Htg. exact Hp0.
  - destruct s; [eapply IHk; eauto|].
    match type of H with (let '(_, _) := ?Z in _) = _ => destruct Z as [w1 [r1 o]] eqn:E end.
    assert (HfnG : forall sa skw, pres (GP target) (fun w0 => run (fn sa skw) None [] w0)).
    { intros sa skw. apply pres_None_G. exact (run_G fs0 old cf P X HypA HS _ (Hfn sa skw) None []). }
    assert (HY1 : YI w1).
    { apply (m_subbuild_Y target T f a kw (fun sa skw w0 => run (fn sa skw) None [] w0) w w1 (r1, o));
        [|exact HR|exact Fw|exact Ew|exact Tw|exact Gw|exact HY|exact E].
      intros sa skw T0 w0 w2 r HR0 F0 E0 _ _ HY0 Hf.
      eapply (IHfn sa skw None [] T0); [exact HR0|exact F0|exact E0| | | |exact HY0|exact Hf];
        intros p0 Hp0; discriminate Hp0. }
    destruct (m_subbuild_RInv ok HSb T f a kw (fun sa skw w0 => run (fn sa skw) None [] w0) w w1 (r1, o))
      as (T1 & HR1 & M1); [|exact (FI_ok _ Fw)|exact HR|exact E|].
    { intros sa skw T0 w0 w2 r Hok0 HR0 Hf.
      eapply (run_RInv ok mkfail_holds HH HSb); [exact Hok0 | exact HR0 | | exact Hf].
      intros p0 Hp0. discriminate Hp0. }
    destruct (m_subbuild_G fs0 old cf P X HypA HS f a kw _ target HfnG _ _ _ E Fw Ew Tw Gw) as (F1 & L1 & Ew1 & S1).
    eapply (IHk r1 target _ T1 w1); [exact HR1 | exact F1 | exact Ew1 | | | | exact HY1 | exact H].
    + intros x Hx. apply L1, Tw, Hx.
    + eapply gcond_stable; eauto.
    + intros p0 Hp0. apply (msub_in _ _ _ M1). apply Htg. exact Hp0.
Qed.

End RunY.

(* ================================================================== *)
(* Previous caches without records: everything is unconditional        *)
(* ================================================================== *)
Section NorecY.

Variable fs0 : fsT.
Variable old : cache.
Variable cf : path.
Variable P : path -> Prop.
Variable X : list path.
Hypothesis HypA : forall a t, Tgt old cf P t -> below a t = true -> ~ P a.
Hypothesis HS : forall a t, Tgt old cf P t -> below a t = true -> notorig fs0 a.
Hypothesis Hwf0 : fs_wf fs0.
Hypothesis Hnorec : norec old.

Notation RX := ViewXFail.RInv.
Notation FI := (FInv fs0 old cf P X).
Notation EI := (EInv fs0 old cf P).
Notation YI := (YInv fs0 cf).

Lemma FI_norec : forall w, FI w -> norec (w_old w).
Proof. intros w H. rewrite (FI_old fs0 old cf P X _ H). exact Hnorec. Qed.

Lemma sb_setup_norec_cases : forall f sa skw w w1 r, norec (w_old w) -> sb_setup f sa skw w = (w1, r) ->
  (w1 = w \/ exists x, new_start_subbuild (subbuild_key f sa skw) w = (w1, x)) /\
  (r = inl None \/ exists e, r = inr e).
Proof.
  intros f sa skw w w1 r Hok H. unfold sb_setup in H. cbv zeta in H.
  apply bind_inv in H. destruct H as [[wa [u [E H]]]|[e [E Er]]].
  2:{ unfold new_assert_no_subbuild, bind, get in E. destruct (cache_has_subbuild (w_new w) _); inversion E; subst.
      split; [left; reflexivity | right; eauto]. }
  assert (wa = w).
  { unfold new_assert_no_subbuild, bind, get in E. destruct (cache_has_subbuild (w_new w) _); inversion E; reflexivity. }
  subst wa. apply bind_inv in H. rewrite (sublookup_norec _ _ _ Hok) in H.
  destruct H as [[wa [cached [E1 H]]]|[e [E1 _]]]; [|discriminate E1]. inversion E1; subst wa cached.
  apply bind_inv in H. destruct H as [[wb [u' [E2 H]]]|[e [E2 Er]]].
  - inversion H; subst. split; [right; eauto | left; reflexivity].
  - subst r. split; [right; eauto | right; eauto].
Qed.

Lemma new_start_subbuild_fsbd : forall k w w1 x, new_start_subbuild k w = (w1, x) ->
  w_fs w1 = w_fs w /\ w_bd w1 = w_bd w.
Proof.
  intros k w w1 x H. unfold new_start_subbuild, new_assert_no_subbuild, bind, get, modify in H.
  destruct (cache_has_subbuild (w_new w) k); cbn in H; inversion H; subst; auto.
Qed.

Theorem ytry_norec : ytry_statement fs0 old cf P X.
Proof.
  intros t T n d c f sa skw w wc rt HPp Ncf HRb F3 Ew3 T3 G3 HY3 Hunc Hnd Et.
  pose proof HRb as (HXb & _ & HFb).
  (* without records the attempt is the claim *)
  assert (Ecl : bf_claim (n :: d) w = (wc, rt)).
  { unfold bf_try in Et. apply bind_inv in Et. rewrite (lookup_norec _ _ _ _ _ (FI_norec _ F3)) in Et.
    destruct Et as [[wa [cached [E9 Et]]]|[e [E9 _]]]; [|discriminate E9]. inversion E9; subst wa cached.
    cbn [bf_reuse] in Et. apply bind_inv in Et. destruct Et as [[wa [reused [E5 Et]]]|[e [E5 _]]]; [|discriminate E5].
    inversion E5; subst wa reused. exact Et. }
  destruct (bf_claim_frame _ _ _ _ Ecl HFb Hnd) as (Tc1 & Tc2 & Tc3).
  split.
  - exact (Y_target_step fs0 cf ((n :: d) :: T) w wc (n :: d) HXb (or_introl eq_refl) HY3 Tc1 Tc2 Tc3).
  - intros e _. destruct (bf_claim_G fs0 old cf P X t (n :: d) HPp Ncf _ _ _ Ecl F3 Ew3 T3 G3) as (Fc & _ & Ewc & _).
    split; [exact (proj1 Fc) | exact (EI_Z fs0 old cf P _ Ewc)].
Qed.

Theorem ysb_norec : ysb_statement fs0 old cf P X.
Proof.
  intros t T f sa skw w w1 r HR Fw Ew Tw Gw HY Es.
  destruct (sb_setup_norec_cases _ _ _ _ _ _ (FI_norec _ Fw) Es) as [[->|[x Ex]] _]; [exact HY|].
  destruct (new_start_subbuild_fsbd _ _ _ _ Ex) as [A1 A2].
  apply (YI_ext fs0 cf w); assumption.
Qed.

(* every program *)
Theorem run_Y : forall pr, AllTargets P pr ->
  forall target subs T w w' res,
    RX T w -> FI w -> EI w -> tcond target w -> gcond target w ->
    (forall p, target = Some p -> In p T) -> YI w ->
    run pr target subs w = (w', res) -> YI w'.
Proof.
  exact (run_Y_for fs0 old cf P X HypA HS Hwf0 norec Hnorec hit_norec sbhit_norec ytry_norec ysb_norec).
Qed.

End NorecY.

Print Assumptions run_Y_for.
Print Assumptions run_Y.
