(* Proofs/ViewH1.v — C04, the overlay: CreatedFiles keeps its own counting law (the same as
   BuildDirs: the count of x is the number of counted directories directly in x plus the
   number of started targets directly in x; the counted paths are exactly cf_dirs), so that
   error_building_file never raises KeyError and keeps the invariant.
   CCInv T w c = CInv w c (ViewOverlay.v) + that law, T the multiset of targets that were
   started in the overlay and did not fail. *)
From Coq Require Import List String Ascii NArith ZArith Bool Arith Lia.
From FB.Base Require Import PyVal Fs.
From FB.Model Require Import Types Monad CreatedFiles BuildDirs SimpleOps Builder.
From FB.Proofs Require Import FsLemmas CleanLaws JsonLaws CoreLawsChildren
     ViewDefs ViewLemmas ViewScan ViewQueries ViewFrame ViewXDefs ViewXCount ViewXErr1 ViewXError ViewOverlay ViewOverlay2.
Import ListNotations.
Open Scope list_scope.

(* the counts of an overlay, seen as a BuildDirs record, to reuse ViewXCount.v *)
Definition bofc (c : cfiles) : bdirs :=
  {| bd_counts := cf_counts c; bd_created := []; bd_err_created := []; bd_removed := [];
     bd_exists := []; bd_maybe := []; bd_removed_files := [] |}.

Record CCInv (T : list path) (w : world) (c : cfiles) : Prop := {
  cc_cinv : CInv w c;
  cc_claw : claw T (bofc c);
  cc_dirs : forall x, mem_path x (cf_dirs c) = in_counts (bofc c) x
}.

Lemma CCInv_empty : forall w, CCInv [] w cf_empty.
Proof.
  intro w. constructor.
  - apply CInv_empty.
  - constructor; [constructor|intros x H; discriminate|intro x; reflexivity].
  - intro x. reflexivity.
Qed.

(* ------------------------------------------------------------------ started_building_file *)
Lemma cf_started_from_counts : forall parent c,
  cf_counts (cf_started_from c parent) = bd_counts (fst (bd_started_from (bofc c) [] parent [])).
Proof.
  induction parent as [|n d IH]; intro c; rewrite bd_started_from_eq; cbn [cf_started_from].
  - change (match cnt_get (cf_counts c) [] with Some k => k | None => 0 end) with (st_count (bofc c) []).
    destruct (Nat.ltb 0 (st_count (bofc c) [])); reflexivity.
  - change (match cnt_get (cf_counts c) (n :: d) with Some k => k | None => 0 end) with (st_count (bofc c) (n :: d)).
    destruct (Nat.ltb 0 (st_count (bofc c) (n :: d))); [reflexivity|].
    rewrite IH. reflexivity.
Qed.

Definition icl (l : list (path * nat)) (x : path) : bool := match cnt_get l x with Some _ => true | None => false end.

Lemma icl_set : forall l p k x, icl (cnt_set l p k) x = path_eqb p x || icl l x.
Proof. intros l p k x. unfold icl. rewrite cnt_get_set. destruct (path_eqb p x); reflexivity. Qed.

Lemma in_counts_bofc : forall c x, in_counts (bofc c) x = icl (cf_counts c) x.
Proof. reflexivity. Qed.

Lemma cf_started_from_dirs : forall parent c,
  (forall x, cnt_get (cf_counts c) x <> Some 0) ->
  (forall x, mem_path x (cf_dirs c) = icl (cf_counts c) x) ->
  forall x, mem_path x (cf_dirs (cf_started_from c parent)) = icl (cf_counts (cf_started_from c parent)) x.
Proof.
  induction parent as [|n d IH]; intros c Hpos Hd x; cbn [cf_started_from].
  - set (cnt := match cnt_get (cf_counts c) [] with Some k => k | None => 0 end).
    destruct (Nat.ltb 0 cnt) eqn:E; cbn [cf_dirs cf_counts cf_with cf_add_to_subfiles].
    + rewrite icl_set, (Hd x). destruct (path_eqb [] x) eqn:Ex; [|reflexivity]. apply path_eqb_eq in Ex. subst x.
      unfold icl. unfold cnt in E. destruct (cnt_get (cf_counts c) []); [reflexivity|discriminate].
    + rewrite icl_set, mem_add_path, (Hd x). reflexivity.
  - set (cnt := match cnt_get (cf_counts c) (n :: d) with Some k => k | None => 0 end).
    destruct (Nat.ltb 0 cnt) eqn:E.
    + cbn [cf_dirs cf_counts cf_with]. rewrite icl_set, (Hd x).
      destruct (path_eqb (n :: d) x) eqn:Ex; [|reflexivity]. apply path_eqb_eq in Ex. subst x.
      unfold icl. unfold cnt in E. destruct (cnt_get (cf_counts c) (n :: d)); [reflexivity|discriminate].
    + apply IH.
      * intro y. destruct (add_sub_fields (cf_with (cf_with c (cf_files c) (cf_dirs c) (cf_sub c) (cnt_set (cf_counts c) (n :: d) (S cnt)))
                                    (cf_files c) (add_path (n :: d) (cf_dirs c)) (cf_sub c) (cnt_set (cf_counts c) (n :: d) (S cnt))) (n :: d)) as [_ _].
        cbn [cf_add_to_subfiles cf_counts cf_with]. rewrite cnt_get_set. destruct (path_eqb (n :: d) y); [discriminate|apply Hpos].
      * intro y. cbn [cf_add_to_subfiles cf_dirs cf_counts cf_with]. rewrite icl_set, mem_add_path, (Hd y). reflexivity.
Qed.

Theorem cf_started_CCInv : forall T w c n d, CCInv T w c ->
  (forall x, suffix x d -> mem_path x (cf_files c) = false) ->
  CCInv ((n :: d) :: T) w (cf_started c (n :: d)).
Proof.
  intros T w c n d [HC [K P C] HD] Hnf. unfold cf_started. constructor.
  - apply cf_started_from_CInv; assumption.
  - assert (Hp: claw_plus ((n :: d) :: T) (bofc c) d).
    { constructor; [exact K|exact P|]. intro x. rewrite nt_cons, is_child_eqb, (C x). lia. }
    pose proof (started_from_claw d ((n :: d) :: T) (bofc c) [] [] Hp) as [K' P' C'].
    assert (E: bd_counts (bofc (cf_started_from c d)) = bd_counts (fst (bd_started_from (bofc c) [] d [])))
      by (apply cf_started_from_counts).
    constructor.
    + unfold ckeys. rewrite E. exact K'.
    + intro x. rewrite E. apply P'.
    + intro x. unfold cval, nk, ckeys. rewrite E. apply C'.
  - intro x. rewrite in_counts_bofc. apply cf_started_from_dirs; [exact P|]. intro y. rewrite <- in_counts_bofc. apply HD.
Qed.

Theorem cf_finished_CCInv : forall T w c n d, CCInv T w c ->
  isfile (w_fs w) (n :: d) = true -> mem_path (n :: d) (cf_dirs c) = false ->
  CCInv T w (cf_finished c (n :: d)).
Proof.
  intros T w c n d [HC HK HD] H1 H2. constructor.
  - apply cf_finished_CInv; assumption.
  - exact HK.
  - exact HD.
Qed.

Print Assumptions cf_started_CCInv.

(* ------------------------------------------------------------------ error_building_file *)
Lemma In_del_str : forall m k l, In k (del_str m l) <-> In k l /\ k <> m.
Proof.
  intros m k l. induction l as [|x l IH]; cbn [del_str In]; [tauto|].
  destruct (String.eqb m x) eqn:E.
  - apply String.eqb_eq in E. subst x. rewrite IH. split; [tauto|]. intros [[H|H] Hn]; [congruence|auto].
  - apply String.eqb_neq in E. cbn [In]. rewrite IH. split.
    + intros [H|H]; [subst; split; auto|tauto].
    + tauto.
Qed.

Lemma NoDup_del_str : forall m l, NoDup l -> NoDup (del_str m l).
Proof.
  intros m l H. induction H as [|x l Hx Hl IH]; cbn [del_str]; [constructor|].
  destruct (String.eqb m x); [exact IH|]. constructor; [|exact IH]. rewrite In_del_str. tauto.
Qed.

Lemma sub_get_del : forall l d d', sub_get (sub_del l d) d' = if path_eqb d d' then None else sub_get l d'.
Proof.
  intros l d d'. induction l as [|[q m] l IH]; cbn [sub_del sub_get]; [destruct (path_eqb d d'); reflexivity|].
  destruct (path_eqb q d) eqn:E.
  - rewrite IH. apply path_eqb_eq in E. subst q. destruct (path_eqb d d'); reflexivity.
  - cbn [sub_get]. rewrite IH. destruct (path_eqb q d') eqn:E2; [|reflexivity].
    apply path_eqb_eq in E2. subst q. rewrite path_eqb_sym, E. reflexivity.
Qed.

(* _remove_from_subfiles(m :: q) when m is listed *)
Lemma remove_sub_ok : forall c m q, In m (cf_list_dir c q) ->
  exists c2, cf_remove_from_subfiles c (m :: q) = Some c2 /\
    cf_files c2 = cf_files c /\ cf_dirs c2 = cf_dirs c /\ cf_counts c2 = cf_counts c /\
    forall d', cf_list_dir c2 d' = if path_eqb q d' then del_str m (cf_list_dir c q) else cf_list_dir c d'.
Proof.
  intros c m q H. unfold cf_remove_from_subfiles. unfold cf_list_dir in H.
  destruct (sub_get (cf_sub c) q) as [ns|] eqn:E; [|destruct H].
  assert (Hm: mem_str m ns = true) by (apply mem_str_In; exact H). rewrite Hm. cbn [negb].
  eexists. split; [reflexivity|]. cbn [cf_files cf_dirs cf_counts cf_with]. repeat split.
  intro d'. unfold cf_list_dir. cbn [cf_sub cf_with]. rewrite E.
  destruct (del_str m ns) as [|k r] eqn:Ed.
  - rewrite sub_get_del. destruct (path_eqb q d'); reflexivity.
  - rewrite sub_get_set. destruct (path_eqb q d'); reflexivity.
Qed.

Lemma claw_minus_ext : forall T b b' y, bd_counts b' = bd_counts b -> claw_minus T b y -> claw_minus T b' y.
Proof.
  intros T b b' y E [H1 H2 H3]. constructor.
  - unfold ckeys. rewrite E. exact H1.
  - intro x. rewrite E. apply H2.
  - intro x. unfold cval, nk, ckeys. rewrite E. apply H3.
Qed.

Lemma icl_del : forall l p x, icl (cnt_del l p) x = negb (path_eqb p x) && icl l x.
Proof. intros l p x. unfold icl. rewrite cnt_get_del. destruct (path_eqb p x); reflexivity. Qed.

Theorem cf_error_from_spec : forall parent T w c,
  CInv w c -> claw_minus T (bofc c) parent -> (forall x, mem_path x (cf_dirs c) = icl (cf_counts c) x) ->
  exists c', cf_error_from c parent = Some c' /\ CInv w c' /\ claw T (bofc c') /\
             (forall x, mem_path x (cf_dirs c') = icl (cf_counts c') x) /\ cf_files c' = cf_files c.
Proof.
  induction parent as [|m q IH]; intros T w c HC HM HD;
    destruct (claw_minus_step T (bofc c) _ HM) as (n & En & Hn & S1 & S2); cbn [bofc bd_counts] in En;
    cbn [cf_error_from]; rewrite En; destruct (Nat.ltb 0 (n - 1)) eqn:E.
  - (* the root keeps a reservation *)
    eexists. split; [reflexivity|]. split; [destruct HC; constructor; assumption|]. split; [|split; [|reflexivity]].
    + eapply claw_ext; [|apply S1; reflexivity]. reflexivity.
    + intro x. cbn [cf_dirs cf_counts cf_with]. rewrite icl_set, (HD x).
      destruct (path_eqb [] x) eqn:Ex; [|reflexivity]. apply path_eqb_eq in Ex. subst x. unfold icl. rewrite En. reflexivity.
  - (* the root is released *)
    assert (Hin: mem_path [] (cf_dirs c) = true) by (rewrite HD; unfold icl; rewrite En; reflexivity).
    rewrite Hin. cbn [negb cf_remove_from_subfiles].
    eexists. split; [reflexivity|]. split; [|split; [|split; [|reflexivity]]].
    + destruct HC as [A B C D E0 F]. constructor; cbn [cf_files cf_dirs cf_with]; auto.
      * intros p H. rewrite mem_del_path. rewrite (A p H). apply andb_false_r.
      * intros d' k H. destruct (C d' k H) as [K|K]; [left; exact K|right]. rewrite mem_del_path, K. cbn. reflexivity.
      * intros d' k [H|H]; apply D; [left; exact H|right]. rewrite mem_del_path in H. apply andb_true_iff in H. tauto.
    + eapply claw_ext; [|apply S2; reflexivity]. rewrite er_counts_b2. reflexivity.
    + intro x. cbn [cf_dirs cf_counts cf_with]. rewrite icl_del, mem_del_path, (HD x). reflexivity.
  - eexists. split; [reflexivity|]. split; [destruct HC; constructor; assumption|]. split; [|split; [|reflexivity]].
    + eapply claw_ext; [|apply S1; reflexivity]. reflexivity.
    + intro x. cbn [cf_dirs cf_counts cf_with]. rewrite icl_set, (HD x).
      destruct (path_eqb (m :: q) x) eqn:Ex; [|reflexivity]. apply path_eqb_eq in Ex. subst x. unfold icl. rewrite En. reflexivity.
  - (* m :: q is released: no more an overlay directory, no more listed in q *)
    assert (Hin: mem_path (m :: q) (cf_dirs c) = true) by (rewrite HD; unfold icl; rewrite En; reflexivity).
    rewrite Hin. cbn [negb].
    set (c1 := cf_with c (cf_files c) (del_path (m :: q) (cf_dirs c)) (cf_sub c) (cnt_del (cf_counts c) (m :: q))).
    assert (Hlisted: In m (cf_list_dir c1 q)) by (apply (ci_sub_all _ _ HC); right; exact Hin).
    destruct (remove_sub_ok c1 m q Hlisted) as (c2 & E2 & F2 & D2 & N2 & L2). rewrite E2.
    assert (HC2: CInv w c2).
    { destruct HC as [A B C D E0 F]. constructor; rewrite ?F2, ?D2; cbn [cf_files cf_dirs cf_with c1].
      - intros p H. rewrite mem_del_path. rewrite (A p H). apply andb_false_r.
      - exact B.
      - intros d' k H. rewrite L2 in H. change (cf_list_dir c1) with (cf_list_dir c) in H.
        assert (Hk: In k (cf_list_dir c d') /\ (d' = q -> k <> m)).
        { destruct (path_eqb q d') eqn:Eq.
          - apply path_eqb_eq in Eq. subst d'. apply In_del_str in H. tauto.
          - split; [exact H|]. intro; subst d'. rewrite path_eqb_refl in Eq. discriminate. }
        destruct Hk as [Hk1 Hk2]. destruct (C d' k Hk1) as [K|K]; [left; exact K|right].
        rewrite mem_del_path, K, andb_true_r. apply negb_true_iff. apply path_eqb_neq. intro Eq. inversion Eq; subst. apply (Hk2 eq_refl). reflexivity.
      - intros d' k H. rewrite L2. change (cf_list_dir c1) with (cf_list_dir c).
        assert (Hold: mem_path (k :: d') (cf_files c) = true \/ mem_path (k :: d') (cf_dirs c) = true).
        { destruct H as [H|H]; [left; exact H|right]. rewrite mem_del_path in H. apply andb_true_iff in H. tauto. }
        pose proof (D d' k Hold) as Hk. destruct (path_eqb q d') eqn:Eq; [|exact Hk].
        apply path_eqb_eq in Eq. subst d'. apply In_del_str. split; [exact Hk|]. intro; subst k.
        destruct H as [H|H]; [rewrite (A _ H) in Hin; discriminate|].
        rewrite mem_del_path, path_eqb_refl in H. discriminate.
      - intro d'. rewrite L2. change (cf_list_dir c1) with (cf_list_dir c).
        destruct (path_eqb q d'); [apply NoDup_del_str|]; apply E0.
      - exact F. }
    assert (HM2: claw_minus T (bofc c2) q).
    { eapply claw_minus_ext; [|apply S2; reflexivity]. rewrite er_counts_b2. cbn [bofc bd_counts]. rewrite N2. reflexivity. }
    assert (HD2: forall x, mem_path x (cf_dirs c2) = icl (cf_counts c2) x).
    { intro x. rewrite D2, N2. cbn [cf_dirs cf_counts cf_with c1]. rewrite icl_del, mem_del_path, (HD x). reflexivity. }
    destruct (IH T w c2 HC2 HM2 HD2) as (c' & E' & A' & B' & C' & F').
    exists c'. split; [exact E'|]. split; [exact A'|]. split; [exact B'|]. split; [exact C'|]. rewrite F', F2. reflexivity.
Qed.

Theorem cf_error_CCInv : forall T w c n d, CCInv T w c -> In (n :: d) T ->
  exists c', cf_error c (n :: d) = Some c' /\ CCInv (rm1 (n :: d) T) w c' /\ cf_files c' = cf_files c.
Proof.
  intros T w c n d [HC [K P C] HD] Hin. unfold cf_error.
  assert (HM: claw_minus (rm1 (n :: d) T) (bofc c) d).
  { constructor; [exact K|exact P|]. intro x. rewrite (C x), (nt_rm1 (n :: d) T x Hin), is_child_eqb. lia. }
  destruct (cf_error_from_spec d (rm1 (n :: d) T) w c HC HM) as (c' & E & A & B & D & F).
  { intro x. rewrite <- in_counts_bofc. apply HD. }
  exists c'. split; [exact E|]. split; [|exact F]. constructor; [exact A|exact B|]. intro x. rewrite in_counts_bofc. apply D.
Qed.

(* cf_error_statement of ViewOverlay2.v, in the form that is true: under the counting law,
   for a target that was started *)
Print Assumptions cf_error_CCInv.
