(* Proofs/SimA3Cf.v — C04, the link to Core, run level: the path of the cache file is the same in
   every world of a run (no routine of the package and no step of Model/Run.v changes w_cachefile).
   Same pattern as SimA1Vlog.v, with the relation "w_cachefile unchanged". *)
From Coq Require Import List String Ascii NArith ZArith Bool Arith Lia.
From FB.Base Require Import PyVal Fs.
From FB.Gen Require Import JsonUtilGen.
From FB.Spec Require Import JsonSpec Prog.
From FB.Model Require Import Types Monad CreatedFiles BuildDirs SimpleOps Builder Build Run.
From FB.Proofs Require Import FsLemmas JsonLaws CmpLaws ReplayLaws BuildFileLaws.
Import ListNotations.
Local Open Scope list_scope.
Local Open Scope m_scope.

Definition cfq (w w' : world) : Prop := w_cachefile w' = w_cachefile w.

Lemma cfq_refl : forall w, cfq w w.
Proof. intro w. reflexivity. Qed.
Lemma cfq_trans : forall a b c, cfq a b -> cfq b c -> cfq a c.
Proof. unfold cfq. intros a b c A B. congruence. Qed.

Definition cfPO : PO := {| rel := cfq; po_refl := cfq_refl; po_trans := cfq_trans |}.

Lemma svb_cfq : forall w w', svbPO w w' -> cfPO w w'.
Proof.
  cbn. unfold same_but_view, cfq. intros w w' H.
  destruct H as (A1 & A2 & A3 & A4 & A5 & A6 & A7 & A8 & A9 & A10 & A11). exact A8.
Qed.

#[local] Hint Extern 8 (pres cfPO _) => apply (pres_weaken svbPO cfPO _ _ svb_cfq) : pres.
#[local] Hint Resolve m_handle_dir_exists_svb m_is_removed_svb is_file_no_read_svb is_cache_file_svb
  file_metadata_svb file_hash_svb list_dir_superset_svb file_comparison_result_svb
  m_is_file_svb m_is_dir_svb m_exists_svb noneable_cmp_svb version_equal_svb
  is_build_file_cached_svb dirs_to_make_svb build_file_cache_lookup_svb subbuild_cache_lookup_svb
  m_bd_started_svb m_bd_error_svb new_assert_no_file_svb new_assert_no_subbuild_svb : pres.

Ltac cfq_solve :=
  lazymatch goal with |- rel cfPO ?a ?b => change (cfq a b) | _ => idtac end;
  first [ apply cfq_refl
        | unfold cfq; cbn; reflexivity ].

Ltac raw_cfq f :=
  intros w w' r H; unfold f in H; cbv zeta in H; repeat dm H; inversion H; subst; cfq_solve.

Lemma effect_cfq : forall what p f, pres cfPO (effect what p f).
Proof. intros what p f. raw_cfq effect. Qed.

Lemma effect_p_cfq : forall what p f, pres cfPO (effect_p what p f).
Proof. intros what p f. raw_cfq effect_p. Qed.
#[local] Hint Resolve effect_cfq effect_p_cfq : pres.

Lemma back_up_and_remove_cfq : forall p, pres cfPO (back_up_and_remove p).
Proof.
  intro p. unfold back_up_and_remove. apply pres_bind; [auto with pres|]. intros _.
  intros w w' r H. cbv zeta in H. repeat dm H; inversion H; subst; cfq_solve.
Qed.
#[local] Hint Resolve back_up_and_remove_cfq : pres.

Lemma try_to_remove_file_cfq : forall p, pres cfPO (try_to_remove_file p).
Proof. intro p. unfold try_to_remove_file. pres_auto. Qed.

Lemma remove_empty_dirs_cfq : forall ds, pres cfPO (remove_empty_dirs ds).
Proof. intro ds. unfold remove_empty_dirs. pres_auto. Qed.

Lemma make_one_dir_cfq : forall d, pres cfPO (make_one_dir d).
Proof. intro d. unfold make_one_dir. pres_auto. Qed.
#[local] Hint Resolve try_to_remove_file_cfq remove_empty_dirs_cfq make_one_dir_cfq : pres.

Lemma make_dirs_loop_cfq : forall ds made, pres cfPO (make_dirs_loop ds made).
Proof.
  induction ds as [|d ds IH]; intro made; cbn [make_dirs_loop]; pres_auto.
Qed.
#[local] Hint Resolve make_dirs_loop_cfq : pres.

Lemma make_dirs_cfq : forall d, pres cfPO (make_dirs d).
Proof. intro d. unfold make_dirs. pres_auto. Qed.
#[local] Hint Resolve make_dirs_cfq : pres.

Lemma make_room_cfq : forall fuel d, pres cfPO (make_room fuel d).
Proof.
  induction fuel as [|fuel IH]; intro d; cbn [make_room]; pres_auto.
Qed.
#[local] Hint Resolve make_room_cfq : pres.

Lemma prepare_file_creation_cfq : forall p, pres cfPO (prepare_file_creation p).
Proof. intro p. unfold prepare_file_creation. pres_auto. Qed.
#[local] Hint Resolve prepare_file_creation_cfq : pres.

Lemma apply_cached_subs_of_cfq : forall o, pres cfPO (apply_cached_subs_of o).
Proof.
  induction o as [q r e | p c f a k subs r cr ra sf IH | f a k subs r ra sf IH] using op_ind';
    cbn [apply_cached_subs_of].
  - apply pres_ret.
  - induction IH as [|s rest Hs HF IHl]; cbn beta iota fix; [apply pres_ret|].
    apply pres_bind; [|intros _; exact IHl]. pres_auto.
  - induction IH as [|s rest Hs HF IHl]; cbn beta iota fix; [apply pres_ret|].
    apply pres_bind; [|intros _; exact IHl]. pres_auto.
Qed.
#[local] Hint Resolve apply_cached_subs_of_cfq : pres.

(* updates of the new cache *)
Lemma modify_new_cfq : forall f : world -> cache, pres cfPO (modify (fun w => set_new (f w) w)).
Proof. intro f. apply pres_modify. intro w. cfq_solve. Qed.

Lemma new_start_building_file_cfq : forall p, pres cfPO (new_start_building_file p).
Proof. intro p. unfold new_start_building_file. pres_auto. apply modify_new_cfq. Qed.

Lemma new_abort_building_file_cfq : forall p, pres cfPO (new_abort_building_file p).
Proof. intro p. unfold new_abort_building_file. apply modify_new_cfq. Qed.

Lemma new_finish_building_file_cfq : forall p o, pres cfPO (new_finish_building_file p o).
Proof. intros p o. unfold new_finish_building_file. apply modify_new_cfq. Qed.

Lemma new_start_subbuild_cfq : forall k, pres cfPO (new_start_subbuild k).
Proof. intro k. unfold new_start_subbuild. pres_auto. apply modify_new_cfq. Qed.

Lemma new_finish_subbuild_cfq : forall k o, pres cfPO (new_finish_subbuild k o).
Proof. intros k o. unfold new_finish_subbuild. apply modify_new_cfq. Qed.

Lemma new_use_cached_operation_cfq : forall o, pres cfPO (new_use_cached_operation o).
Proof.
  intros o w w' r H. unfold new_use_cached_operation in H. minv H.
  - unfold put in H. inversion H; subst. cfq_solve.
  - cfq_solve.
Qed.
#[local] Hint Resolve new_start_building_file_cfq new_abort_building_file_cfq
  new_finish_building_file_cfq new_start_subbuild_cfq new_finish_subbuild_cfq
  new_use_cached_operation_cfq : pres.

Lemma bf_reuse_cfq : forall p c f sa skw cached, pres cfPO (bf_reuse p c f sa skw cached).
Proof. intros p c f sa skw cached. unfold bf_reuse. pres_auto. Qed.

Lemma bf_claim_cfq : forall p, pres cfPO (bf_claim p).
Proof. intro p. unfold bf_claim. pres_auto. Qed.
#[local] Hint Resolve bf_reuse_cfq bf_claim_cfq : pres.

Lemma bf_setup_cfq : forall p c f sa skw, pres cfPO (bf_setup p c f sa skw).
Proof. intros p c f sa skw. unfold bf_setup. pres_auto. Qed.

Lemma sb_setup_cfq : forall f sa skw, pres cfPO (sb_setup f sa skw).
Proof. intros f sa skw. unfold sb_setup. cbv zeta. pres_auto. Qed.

Lemma bf_fail_cfq : forall p c f sa skw subs e w w' r,
  bf_fail p c f sa skw subs e w = (w', r) -> cfq w w'.
Proof.
  intros p c f sa skw subs e w w' r H. unfold bf_fail in H. cbv zeta in H.
  match type of H with (match ?X with _ => _ end) = _ => destruct X as [w1 [u|e1]] eqn:E end;
    inversion H; subst.
  all: refine ((_ : pres cfPO _) _ _ _ E); pres_auto.
Qed.

Lemma bf_finish_cfq : forall p c f sa skw res subs, pres cfPO (bf_finish p c f sa skw res subs).
Proof.
  intros p c f sa skw res subs w w' r H. unfold bf_finish in H.
  assert (F : forall e w0, bf_fail p c f sa skw subs e w0 = (w', r) -> cfq w0 w').
  { intros e w0 H0. eapply bf_fail_cfq; eassumption. }
  destruct res as [v|e]; [|eapply F; eassumption].
  destruct (sanitize v) as [sv|]; [|eapply F; eassumption].
  destruct (noneable_cmp p c w) as [w4 [cmp|e]] eqn:E.
  - assert (Q : cfq w w4) by (apply svb_cfq; exact (noneable_cmp_svb p c w w4 _ E)).
    eapply cfq_trans; [exact Q|].
    destruct cmp; try (eapply F; eassumption).
    all: cbv zeta in H; unfold new_finish_building_file, modify in H; inversion H; subst; cfq_solve.
  - assert (Q : cfq w w4) by (apply svb_cfq; exact (noneable_cmp_svb p c w w4 _ E)).
    eapply cfq_trans; [exact Q|]. eapply F; eassumption.
Qed.

Lemma sb_finish_cfq : forall f sa skw res subs, pres cfPO (sb_finish f sa skw res subs).
Proof.
  intros f sa skw res subs w w' r H. unfold sb_finish in H. cbv zeta in H.
  unfold new_finish_subbuild, modify in H.
  destruct res as [v|e]; [destruct (sanitize v)|]; inversion H; subst; cfq_solve.
Qed.


(* ------------------------------------------------------------------ nodes and programs *)
Lemma m_build_file_cfq : forall p c f a kw (fn : path -> pyval -> pyval -> body),
  (forall sa skw, pres cfPO (fn p sa skw)) -> pres cfPO (m_build_file p c f a kw fn).
Proof.
  intros p c f a kw fn Hfn w w' r H. rewrite m_build_file_unfold in H.
  destruct (sanitize a) as [sa|]; [|inversion H; subst; apply cfq_refl].
  destruct (sanitize kw) as [skw|]; [|inversion H; subst; apply cfq_refl].
  destruct (bf_setup p c f sa skw w) as [w1 [[[o|[e o]]|]|e]] eqn:Es;
    pose proof (bf_setup_cfq p c f sa skw w w1 _ Es) as Q1; try (inversion H; subst; exact Q1).
  unfold bf_rebuild in H. destruct (fn p sa skw (bf_invoke_world p f sa skw w1)) as [w3 [res subs]] eqn:Ef.
  pose proof (Hfn sa skw _ _ _ Ef) as Q2. pose proof (bf_finish_cfq p c f sa skw res subs w3 w' r H) as Q3.
  unfold cfq in *. cbn [rel cfPO] in Q2. unfold cfq in Q2. cbn [bf_invoke_world w_cachefile set_log] in Q2. congruence.
Qed.

Lemma m_subbuild_cfq : forall f a kw (fn : pyval -> pyval -> body),
  (forall sa skw, pres cfPO (fn sa skw)) -> pres cfPO (m_subbuild f a kw fn).
Proof.
  intros f a kw fn Hfn w w' r H. rewrite m_subbuild_unfold in H.
  destruct (sanitize a) as [sa|]; [|inversion H; subst; apply cfq_refl].
  destruct (sanitize kw) as [skw|]; [|inversion H; subst; apply cfq_refl].
  destruct (sb_setup f sa skw w) as [w1 [[[o|[e o]]|]|e]] eqn:Es;
    pose proof (sb_setup_cfq f sa skw w w1 _ Es) as Q1; try (inversion H; subst; exact Q1).
  unfold sb_rebuild in H. destruct (fn sa skw (sb_invoke_world f sa skw w1)) as [w3 [res subs]] eqn:Ef.
  pose proof (Hfn sa skw _ _ _ Ef) as Q2. pose proof (sb_finish_cfq f sa skw res subs w3 w' r H) as Q3.
  unfold cfq in *. cbn [rel cfPO] in Q2. unfold cfq in Q2. cbn [sb_invoke_world w_cachefile set_log] in Q2. congruence.
Qed.

Theorem run_cf : forall pr target subs w w' r, run pr target subs w = (w', r) -> w_cachefile w' = w_cachefile w.
Proof.
  induction pr as [v | e | stale q k IH | c k IH | stale p c f a kw fn IHfn k IHk | stale f a kw fn IHfn k IHk];
    intros target subs w w' r H; cbn [run] in H.
  - inversion H; reflexivity.
  - inversion H; reflexivity.
  - destruct stale; [eapply IH; exact H|].
    destruct (m_query q w) as [w1 [r1 o]] eqn:E.
    pose proof (m_query_svb _ _ _ _ E) as (_ & _ & _ & _ & _ & _ & _ & A8 & _).
    apply IH in H. rewrite H. unfold log_answer. destruct (user_answer q r1 w1) as [x|[]]; exact A8.
  - destruct target as [t|]; [|eapply IH; exact H].
    destruct (write_file (w_fs w) t c None (N.succ (w_clock w)) (w_nextid w)) as [fs'|e]; [|inversion H; reflexivity].
    apply IH in H. exact H.
  - destruct stale; [eapply IHk; exact H|].
    match type of H with (let '(_, _) := ?X in _) = _ => destruct X as [w1 [r1 o]] eqn:E end.
    apply IHk in H. rewrite H.
    refine (m_build_file_cfq p c f a kw _ _ w w1 _ E). intros sa skw u u' x Hx. cbv beta in Hx. exact (IHfn _ _ _ _ _ _ _ _ Hx).
  - destruct stale; [eapply IHk; exact H|].
    match type of H with (let '(_, _) := ?X in _) = _ => destruct X as [w1 [r1 o]] eqn:E end.
    apply IHk in H. rewrite H.
    refine (m_subbuild_cfq f a kw _ _ w w1 _ E). intros sa skw u u' x Hx. cbv beta in Hx. exact (IHfn _ _ _ _ _ _ _ Hx).
Qed.

Print Assumptions run_cf.
