(* Proofs/ViewH8.v — C04, cache hits: index of ViewH*.v / ViewK1.v, the analysis of the
   candidate defect "an exception between started_building_file and the claim", and what
   remains to make reachable_answers_view unconditional for arbitrary previous caches.

   WHEN CAN THE LOOKUP RAISE (model).  build_file_cache_lookup and bf_reuse raise only
   (a) XOS XOSError from the comparison of a path with an over-long component
       (noneable_cmp re-raises every OSError other than FileNotFound / IsADirectory /
       NotADirectory; in the model that is ENAMETOOLONG only).  For the target itself the
       file is then absent (noneable_cmp_raise_nofile): harmless.  For a recorded
       sub-target it needs a successful record of a path that cannot be created.
   (b) XCrash "walk fuel": a replayed walk on a tree deeper than the fuel of the model
       (an artifact of the model; Python has no bound),
   (c) XCrash "KeyError in CreatedFiles.error_building_file": impossible when the overlay
       keeps its counting law (ViewH1.cf_error_CCInv); carrying CCInv through is_op_cached
       is not done here,
   (d) XCrash "scan fuel": impossible under BInv (ViewScan.is_removed_sound).
   Every OSError of a replayed query is caught by is_simple_operation_cached.
   In PYTHON the same place can raise for reasons the model does not have: any OSError that
   _noneable_file_comparison_result does not catch, e.g. PermissionError when the previous
   output is unreadable (HASH comparison) — see the script below.

   IS THE INCONSISTENCY OBSERVABLE?  No, as far as answers go.  The world
   ViewXC04.Counter.w_err applied started_building_file directly.  In a real call
   _prepare_file_creation runs first and its is_dir scans put every dead ancestor of the
   target into _removed_dirs; after the error these cached answers are still there, so
   is_dir keeps answering False ([error_after_prepare_consistent] below, and the Python
   run).  What breaks is only the bookkeeping invariant BInv.bi_hid_rf (a hidden previous
   output that is not in _removed_files although its directory is not reserved), which no
   query looks at as long as that directory stays in _removed_dirs or is no candidate.
   So this is not a defect of file_builder's answers; it is a side condition of the
   invariant used here.

   Python script (run against /repo, as root the unreadable file is simulated):
     import os, sys, tempfile, builtins; sys.path.insert(0, "/repo")
     from file_builder import FileBuilder
     from file_builder.file_comparison import FileComparison
     root = tempfile.mkdtemp(); cache = os.path.join(root, "cache")
     D = os.path.join(root, "D"); O = os.path.join(D, "o")
     def fo(b, p): open(p, "w").write("x")
     def main1(b): b.build_file_with_comparison(O, FileComparison.HASH, "fo", fo)
     def main2(b):
         try: b.build_file_with_comparison(O, FileComparison.HASH, "fo", fo); return "no error"
         except PermissionError: pass
         return (b.is_dir(D), b.is_file(O), b.exists(O))
     FileBuilder.build(cache, "n", main1)
     real_open = builtins.open
     def fake_open(f, mode="r", *a, **k):
         if os.path.abspath(str(f)) == O and "r" in mode and "+" not in mode: raise PermissionError(13, "denied", f)
         return real_open(f, mode, *a, **k)
     builtins.open = fake_open
     print(FileBuilder.build(cache, "n", main2))      # (False, False, False): consistent
   After the failed call BuildDirs holds _removed_files = {cache}, _maybe_removed_dirs = {D},
   _removed_dirs = {D}; the build then removes D/o and D at commit. *)
From Coq Require Import List String Ascii NArith ZArith Bool Arith Lia.
From FB.Base Require Import PyVal Fs.
From FB.Model Require Import Types Monad CreatedFiles BuildDirs SimpleOps Builder.
From FB.Proofs Require Import ViewDefs ViewXFail ViewXSetup ViewXRun ViewOverlay ViewOverlay2
     ViewH1 ViewH2 ViewH4 ViewH5 ViewH6 ViewH7 ViewK1.
Import ListNotations.
Open Scope list_scope.

Module AfterPrepare.
  Import ViewExamples.
  Open Scope string_scope.
  (* the real sequence on the world w1 of ViewDefs: _prepare_file_creation, started_building_file,
     then error_building_file while the previous output a/b/o is still on disk *)
  Definition w_err2 : world :=
    match prepare_file_creation ["o"; "b"; "a"] w1 with
    | (wa, inl created) =>
        match m_bd_started ["o"; "b"; "a"] created wa with
        | (wb, _) => match m_bd_error ["o"; "b"; "a"] wb with (wc, _) => wc end
        end
    | (wa, _) => wa
    end.
  Example error_after_prepare_consistent :
    answers w_err2 [QIsDir ["b"; "a"]; QIsFile ["o"; "b"; "a"]; QListDir ["a"]; QIsDir ["a"]]
    = [inl (PBool false); inl (PBool false); inl (PList [PStr "f"]); inl (PBool true)] /\
    (mem_path ["b"; "a"] (bd_removed (w_bd w_err2)), mem_path ["o"; "b"; "a"] (bd_removed_files (w_bd w_err2))) = (true, false).
  Proof. vm_compute. auto. Qed.
End AfterPrepare.

(* ------------------------------------------------------------------ what remains for arbitrary previous caches *)
(* hit_core / sbhit_core (ViewH7.v) give hit_post from three facts that are not part of
   RInv; carrying them along [run] is what is left:
   1. the cache file path is not a directory (kept by every step: directories are only made
      at paths that dirs_to_make returned, never the cache file, and targets are not the
      cache file);
   2. every record that can be looked up is [goodrec]; and the same for the NEW cache at
      commit, so that it holds again in the next build (bf_finish records a comparison
      result that is not None for every successful record; adopted records are old ones);
   3. the lookup does not raise (cases (a)-(c) above). *)
Definition nc_statement : Prop :=
  forall pr tg subs w w' res, isdir (w_fs w) (w_cachefile w) = false ->
    (forall p, tg = Some p -> p <> w_cachefile w) ->
    Run.run pr tg subs w = (w', res) -> isdir (w_fs w') (w_cachefile w') = false.

Definition goodold (old : cache) : Prop :=
  (forall p rec, cache_get_file old p = Some rec -> goodrec rec = true) /\
  (forall k rec, subs_get (c_subs old) k = Some (Some rec) -> goodrec rec = true).

Definition goodnew_statement : Prop :=
  forall pr tg subs w w' res, goodold (w_old w) -> goodold (w_new w) ->
    Run.run pr tg subs w = (w', res) -> goodold (w_new w').

Definition replay_keeps_CCInv_statement : Prop :=
  forall o T w c w' b c', BInv w -> CCInv T w c -> is_op_cached o c w = (w', inl (b, c')) -> exists T', CCInv T' w' c'.

Check hit_core.
Check sbhit_core.
Check apply_cached_ok.
Check use_cached_ok.
Check is_op_cached_facts.
Check cf_error_CCInv.
Check m_get_size_overlay.
Check m_read_overlay.
Check m_walk_overlay.
Check sim_start.
Check sim_query.

Print Assumptions hit_core.
Print Assumptions sbhit_core.
Print Assumptions cf_error_CCInv.
Print Assumptions cf_started_CCInv.
Print Assumptions m_get_size_overlay.
Print Assumptions m_read_overlay.
Print Assumptions m_walk_overlay.
Print Assumptions sim_start.
Print Assumptions sim_query.
