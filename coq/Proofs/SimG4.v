(* Proofs/SimG4.v — read in HASH mode along the run simulation.  ViewAnswers.exec_query_view /
   ViewK4.sim3_query ask for the flag-free memo invariant ViewDefs.hash_ok when a read compares
   by HASH; that invariant is not preserved by writes.  The flag-aware CmpLaws.HashOk is (it is
   half of HashMemoInv.HInv, which SimA0.Sim4 carries), and it is all the proof needs: the memo
   is consulted only when the entry's "built" flag equals the current claim state.
     fcr_view_H, m_read_view_H, exec_query_view_H   ViewAnswers with HashOk
     sim3_query_H                                    ViewK4.sim3_query with HashOk
     sim4_query_H, sim5_query_H                      SimARun.sim4_query / SimC10.sim5_query
                                                     WITHOUT the hypothesis "reads compare METADATA" *)
From Coq Require Import List String Ascii NArith ZArith Bool Arith Lia.
From FB.Base Require Import PyVal Fs.
From FB.Gen Require Import JsonUtilGen.
From FB.Spec Require Import JsonSpec Prog Ref Oracle Faithful.
From FB.Model Require Import Types Monad CreatedFiles BuildDirs SimpleOps Builder Persist Build Run Frame Core CoreOracle.
From FB.Proofs Require Import FsLemmas CleanLaws JsonLaws CoreLawsChildren CoreLawsJson ReplayLaws FrameLaws CmpLaws BuildFileLaws HashMemoInv HashMemoRun CoreLaws1 CoreLaws2 CoreLaws3
     ViewDefs ViewLemmas ViewScan ViewQueries ViewAnswers ViewInit ViewClean ViewPres
     ViewXDefs ViewXQuery ViewXMake1 ViewXFail ViewXRun ViewK1 ViewK2 ViewK3 ViewK4 ViewK8 ViewR1 ViewR2 ViewR3
     SimA0 SimARun SimC0 SimC10.
Import ListNotations.
Open Scope list_scope.
Open Scope m_scope.

Local Notation RInv2' := (RInv2 (fun _ => True)).

(* ------------------------------------------------------------------ file_comparison_result *)
Definition fcr_postH (w : world) (p : path) (c : cmpmode) (r : pyval + exn) : Prop :=
  match lookup (w_fs w) p with
  | Some (NFile f) => r = inl (cmp_of c f)
  | Some NDir => r = inr (XOS XIsADirectory)
  | None => r = inr (XOS XFileNotFound) \/ r = inr (XOS XNotADirectory) \/
            (r = inr (XOS XOSError) /\ path_ok p = false)
  end /\
  (forall f, lookup (w_fs w) p = Some (NFile f) -> exists v, r = inl v).

Lemma fcr_view_H : forall w p c, BInv w -> HashOk w ->
  exists w' r, file_comparison_result p c w = (w', r) /\ good w w' /\ fcr_postH w p c r.
Proof.
  intros w p c HB HOk. destruct c.
  - destruct (fcr_view w p METADATA HB) as (w' & r & E & G & P1 & P2). exists w', r. split; [exact E|]. split; [exact G|].
    unfold fcr_postH. unfold fcr_post in P1. split; [|exact P2].
    destruct (lookup (w_fs w) p) as [[f|]|]; [apply P1; left; reflexivity|exact P1|exact P1].
  - cbn [file_comparison_result].
    unfold file_hash, fcr_postH, isfile, isdir.
    destruct (lookup (w_fs w) p) as [[f|]|] eqn:El.
    + assert (Hfresh: exists w' r,
               (set_hash ((p, (hash_of (f_bytes f), cache_has_file (w_new w) p)) :: w_hash w) w,
                @inl pyval exn (hash_of (f_bytes f))) = (w', r) /\ good w w' /\
               ((r = inl (cmp_of HASH f)) /\
                (forall g, Some (NFile f) = Some (NFile g) -> exists v, r = inl v))).
      { eexists _, _. split; [reflexivity|]. split.
        - apply good_set_hash; [exact HB|]. intro Hh. apply hash_ok_set_hash; assumption.
        - split; [reflexivity|]. intros g _. eexists. reflexivity. }
      destruct (hash_get (w_hash w) p) as [[h bb]|] eqn:Eh; [|exact Hfresh].
      destruct (Bool.eqb bb (cache_has_file (w_new w) p)) eqn:Eb; [|exact Hfresh].
      eexists w, _. split; [reflexivity|]. split; [apply good_refl; exact HB|].
      split; [|intros g _; eexists; reflexivity].
      rewrite (HOk p h bb f Eh (Bool.eqb_prop _ _ Eb) El). reflexivity.
    + assert (Hfresh: exists w' r, (w, @inr pyval exn (XOS XIsADirectory)) = (w', r) /\ good w w' /\
               (r = inr (XOS XIsADirectory) /\ (forall g, Some NDir = Some (NFile g) -> exists v, r = inl v))).
      { eexists w, _. split; [reflexivity|]. split; [apply good_refl; exact HB|]. split; [reflexivity|].
        intros g Hg. discriminate. }
      destruct (hash_get (w_hash w) p) as [[h bb]|] eqn:Eh; [|exact Hfresh].
      destruct (Bool.eqb bb (cache_has_file (w_new w) p)); exact Hfresh.
    + assert (Hfresh: exists w' r, (w, @inr pyval exn (XOS (err_of (stat_err (w_fs w) p)))) = (w', r) /\ good w w' /\
               ((r = inr (XOS XFileNotFound) \/ r = inr (XOS XNotADirectory) \/
                 (r = inr (XOS XOSError) /\ path_ok p = false)) /\
                (forall g, @None node = Some (NFile g) -> exists v, r = inl v))).
      { eexists w, _. split; [reflexivity|]. split; [apply good_refl; exact HB|].
        split; [|intros g Hg; discriminate].
        destruct (stat_err_classes (w_fs w) p) as [H|[H|[H H']]]; rewrite H; auto. }
      destruct (hash_get (w_hash w) p) as [[h bb]|] eqn:Eh; [|exact Hfresh].
      destruct (Bool.eqb bb (cache_has_file (w_new w) p)); [|exact Hfresh].
      eexists w, _. split; [reflexivity|]. split; [apply good_refl; exact HB|].
      split; [left; reflexivity|intros g Hg; discriminate].
Qed.

Theorem m_read_view_H : forall w p c, BInv w -> path_ok p = true -> HashOk w ->
  yields (m_read p c None) w (read_answer w p c).
Proof.
  intros w p c HB Hp Hc. unfold m_read.
  assert (Hpok: pok w p) by (left; exact Hp).
  (* the final is_dir test after an IsADirectory from the real file system, or for a hidden path *)
  assert (Hdirtest: forall w1, good w w1 ->
            yields (d <- m_is_dir p None ;; if d then raise (XOS XIsADirectory) else @raise unit (XOS XFileNotFound)) w1
                   (if vdir w p then inr (XOS XIsADirectory) else inr (XOS XFileNotFound))).
  { intros w1 G1. eapply yields_bind.
    - apply m_is_dir_view; [apply (good_BInv _ _ G1)|eapply pok_good; eassumption].
    - intros w2 G2. rewrite (same_view_vdir _ _ _ (good_sv _ _ G1)).
      destruct (vdir w p); apply yields_raise; apply (good_BInv _ _ G2). }
  assert (Hdirtest': forall w1, good w w1 ->
            yields (d <- m_is_dir p None ;; if d then raise (XOS XIsADirectory) else @raise pyval (XOS XFileNotFound)) w1
                   (if vdir w p then inr (XOS XIsADirectory) else inr (XOS XFileNotFound))).
  { intros w1 G1. eapply yields_bind.
    - apply m_is_dir_view; [apply (good_BInv _ _ G1)|eapply pok_good; eassumption].
    - intros w2 G2. rewrite (same_view_vdir _ _ _ (good_sv _ _ G1)).
      destruct (vdir w p); apply yields_raise; apply (good_BInv _ _ G2). }
  eapply yields_pure; [apply is_file_no_read_None|].
  destruct (hid w p) eqn:Eh.
  - (* hidden path: only a visible directory answers differently from FileNotFound *)
    assert (E: read_answer w p c = if vdir w p then inr (XOS XIsADirectory) else inr (XOS XFileNotFound)).
    { unfold read_answer, vdir, isdir. rewrite Eh. destruct (lookup (w_fs w) p) as [[f|]|]; try reflexivity.
      destruct (dead w p); reflexivity. }
    rewrite E. specialize (Hdirtest w (good_refl _ HB)).
    destruct (vdir w p); apply yields_bind_err; exact Hdirtest.
  - eapply yields_pure; [reflexivity|].
    destruct (fcr_view_H w p c HB Hc) as [w1 [r [E1 [G1 [P1 P2]]]]].
    unfold read_answer. rewrite Eh.
    destruct (lookup (w_fs w) p) as [[f|]|] eqn:El.
    + (* a visible regular file *)
      subst r.
      eapply yields_bind; [exists w1; split; [unfold catch; rewrite E1; reflexivity|exact G1]|].
      intros w2 G2. cbn [cf_has_file].
      eapply yields_bind; [|intros w3 G3; apply yields_ret; apply (good_BInv _ _ G3)].
      apply m_hde_yields; [apply (good_BInv _ _ G2)|].
      destruct p as [|n d]; [discriminate|]. cbn [dirname tl].
      apply (hde_ok_parent w2 n d (bi_wf _ (good_BInv _ _ G2))).
      rewrite (same_view_visible _ _ _ (good_sv _ _ G2)). unfold visible. rewrite El, Eh. reflexivity.
    + (* a directory on disk *)
      subst r.
      assert (E: (if dead w p then @inr pyval exn (XOS XFileNotFound) else inr (XOS XIsADirectory))
                 = if vdir w p then inr (XOS XIsADirectory) else inr (XOS XFileNotFound)).
      { unfold vdir, isdir. rewrite El. destruct (dead w p); reflexivity. }
      rewrite E. destruct (Hdirtest' w1 G1) as [w2 [E2 G2]].
      assert (Hy: yields (catch (file_comparison_result p c)
                  (fun e : exn =>
                     if is_os_class XFileNotFound e || is_os_class XNotADirectory e then raise (XOS XFileNotFound)
                     else if is_os_class XIsADirectory e
                          then d <- m_is_dir p None ;; (if d then raise (XOS XIsADirectory) else raise (XOS XFileNotFound))
                          else raise e)) w
                  (if vdir w p then inr (XOS XIsADirectory) else inr (XOS XFileNotFound))).
      { exists w2. split; [|eapply good_trans; eassumption].
        unfold catch. rewrite E1. cbn. exact E2. }
      destruct (vdir w p); apply yields_bind_err; exact Hy.
    + (* absent *)
      apply yields_bind_err. exists w1. split; [|exact G1]. unfold catch. rewrite E1.
      destruct P1 as [->|[->|[-> H]]]; [reflexivity|reflexivity|congruence].
Qed.

Theorem exec_query_view_H : forall w q, BInv w -> HashOk w ->
  path_ok (spec_query_path q) = true ->
  (forall p td, q = QWalk p td -> vdir w p = true -> maxlen (w_fs w) < walk_fuel + List.length p) ->
  yields (exec_query q None) w (to_res (record_answer (view_fs w) q)).
Proof.
  intros w q HB HOk Hp Hwalk.
  assert (Hother: (forall p c, q <> QRead p c) -> yields (exec_query q None) w (to_res (record_answer (view_fs w) q))).
  { intro Hn. apply exec_query_view; [exact HB|exact Hp|exact Hwalk|]. intros p c E. exfalso. exact (Hn p c E). }
  destruct q as [p|p|p|p|p td|p|p c]; try (apply Hother; intros; discriminate).
  cbn [spec_query_path] in Hp. cbn [exec_query record_answer spec_answer_raw to_res].
  pose proof (m_read_view_H w p c HB Hp HOk) as H.
  rewrite (lookup_view_kind _ _ HB). unfold read_answer in H.
  unfold vfile, vdir, isfile, isdir.
  destruct (lookup (w_fs w) p) as [[f|]|] eqn:El; cbn [andb].
  + destruct (hid w p); cbn [negb]; [rewrite (stat_err_view_ok _ _ Hp)|]; exact H.
  + destruct (dead w p); cbn [negb]; [rewrite (stat_err_view_ok _ _ Hp)|]; exact H.
  + rewrite (stat_err_view_ok _ _ Hp). exact H.
Qed.

(* ------------------------------------------------------------------ a query: Sim3 *)
Theorem sim3_query_H : forall T W w s q w1 r o,
  Sim3 W w s -> RInv T w -> path_ok (spec_query_path q) = true ->
  (forall p td, q = QWalk p td -> vdir w p = true -> maxlen (w_fs w) < walk_fuel + List.length p) ->
  HashOk w ->
  m_query q w = (w1, (r, o)) ->
  let a := spec_answer (k_fs s) q in
  let ua := match a with inl v => inl v | inr c => inr (XOS c) end in
  (exists o', o = Some o' /\ rec_rel o' (record_of q (record_answer (k_fs s) q))) /\
  user_answer q r w1 = ua /\
  Sim3 W (log_answer q ua w1) (klog (LAnswer q a) s) /\
  RInv T (log_answer q ua w1) /\ w_fs (log_answer q ua w1) = w_fs w /\ w_new (log_answer q ua w1) = w_new w.
Proof.
  intros T W w s q w1 r o HS HR Hp Hwalk Hread H a ua.
  pose proof (RInv_X _ _ HR) as HX. pose proof (x_binv _ _ HX) as HB.
  destruct (exec_query_view_H w q HB Hread Hp Hwalk) as [w' [E G]].
  pose proof (Sim3_trel _ _ _ HS) as HT. pose proof (trel_te _ _ _ HT) as TE.
  pose proof (record_answer_trel W _ _ q HT) as Hrec.
  pose proof (spec_answer_te _ _ q TE) as Hspec. fold a in Hspec.
  unfold m_query in H. rewrite E in H.
  pose proof (query_footprint _ _ _ _ _ E) as (A1 & A2 & A3 & A4 & A5 & A6 & A7 & A8 & A9 & A10 & A11).
  assert (HR1: RInv T w') by (apply (qrel_RInv T _ _ (exec_query_q _ _ _ _ _ E) HR)).
  assert (Hview: forall p, lookup (view_fs w') p = lookup (view_fs w) p) by (intro p; rewrite (same_view_view_fs _ _ (good_sv _ _ G)); reflexivity).
  (* Sim3 after logging *)
  assert (Hsim: forall lg, Sim3 W (set_log (lg :: w_log w') w') (klog lg s)).
  { intro lg. destruct HS as [S1 S2 S3 S4 S5 S6 S7 S8 S9 S10].
    constructor; cbn [klog ks_with k_fs k_cachefile k_old k_vers k_claimedF k_claimedS k_log k_newF k_newS k_stale
                           w_cachefile w_old w_new w_log w_fs set_log].
    - intro p. specialize (S1 p). change (view_fs (set_log (lg :: w_log w') w')) with (view_fs w'). rewrite (Hview p). exact S1.
    - congruence.
    - congruence.
    - intro f. rewrite A5. apply S4.
    - intro p. rewrite A5. apply S5.
    - intro k. rewrite A5. apply S6.
    - destruct lg; cbn [vis_log filter]; rewrite A9; fold (vis_log (w_log w)); fold (vis_log (k_log s)); rewrite S7; reflexivity.
    - intro p. rewrite A5. apply S8.
    - intro k. rewrite A5. apply S9.
    - intro p. rewrite A1, A4, A5. apply S10. }
  assert (HRl: forall lg, RInv T (set_log (lg :: w_log w') w')).
  { intro lg. eapply RInv_fields; [exact HR1|..]; reflexivity. }
  (* the raw result on the view *)
  destruct (record_answer (view_fs w) q) as [v|c] eqn:Ea; cbn [to_res] in H.
  - inversion H; subst w1 r o.
    destruct (record_answer (k_fs s) q) as [v'|c'] eqn:Eb; cbn [ans_rel] in Hrec; [|contradiction].
    split; [eexists; split; [reflexivity|]; cbn [record_of rec_rel]; auto|].
    (* the answer to the user *)
    assert (Hua: user_answer q (inl v) w' = ua /\ exists u, ua = inl u).
    { unfold ua. destruct q as [p|p|p|p|p td|p|p c];
        try (match goal with |- user_answer ?q0 _ _ = _ /\ _ =>
               assert (K: spec_answer (view_fs w) q0 = inl v) by (unfold spec_answer; cbn [record_answer] in Ea; rewrite Ea; reflexivity) end;
             rewrite Hspec in K; rewrite K; split; [reflexivity|eauto]).
      (* read: the content of the visible file *)
      cbn [record_answer] in Ea. destruct (lookup (view_fs w) p) as [[f|]|] eqn:El; try discriminate.
      assert (Hfs: lookup (w_fs w') p = Some (NFile f)).
      { rewrite A1. destruct p as [|n d]; [cbn in El; discriminate|]. rewrite lookup_view in El by discriminate.
        destruct (visible w (n :: d)); [exact El|discriminate]. }
      unfold user_answer, canon_err. cbv beta iota zeta. rewrite Hfs.
      destruct (te_file _ _ _ _ TE El) as (g & Eg & Ebytes).
      unfold a, spec_answer. cbn [spec_answer_raw]. rewrite Eg. rewrite Ebytes. split; [reflexivity|eauto]. }
    destruct Hua as [Hua [u Eu]]. split; [exact Hua|]. rewrite Eu. cbn [log_answer].
    assert (Ea': a = inl u) by (unfold ua in Eu; destruct a; inversion Eu; reflexivity).
    rewrite Ea'. split; [apply Hsim|]. split; [apply HRl|]. split; [exact A1|exact A5].
  - inversion H; subst w1 r o.
    destruct (record_answer (k_fs s) q) as [v'|c'] eqn:Eb; cbn [ans_rel] in Hrec; [contradiction|]. subst c'.
    split; [eexists; split; [reflexivity|]; cbn [record_of rec_rel]; split; [reflexivity|split; [apply vr_eq|reflexivity]]|].
    assert (K: spec_answer (view_fs w) q = inr c).
    { pose proof (answer_err _ _ _ Ea) as K. rewrite K. unfold user_class. rewrite Hp. reflexivity. }
    rewrite Hspec in K. unfold ua. rewrite K.
    assert (Hua: user_answer q (inr (XOS c)) w' = inr (XOS c)).
    { unfold user_answer. cbn [canon_err]. rewrite spec_query_path_eq, Hp. destruct q; reflexivity. }
    split; [exact Hua|]. cbn [log_answer]. split; [apply Hsim|]. split; [apply HRl|]. split; [exact A1|exact A5].
Qed.

(* ------------------------------------------------------------------ a query: Sim4, Sim5 *)
Lemma sim4_query_H : forall st tg pend T W w s q w1 r o,
  Sim4 T W w s -> Ctx4 st tg pend w -> path_ok (spec_query_path q) = true ->
  m_query q w = (w1, (r, o)) ->
  let a := spec_answer (k_fs s) q in
  let ua := match a with inl v => inl v | inr c => inr (XOS c) end in
  let w2 := log_answer q ua w1 in
  (exists o', o = Some o' /\ rec_rel o' (record_of q (record_answer (k_fs s) q))) /\
  user_answer q r w1 = ua /\
  Sim4 T W w2 (klog (LAnswer q a) s) /\ Ctx4 st tg pend w2 /\ w_fs w2 = w_fs w /\ w_old w2 = w_old w.
Proof.
  intros st tg pend T W w s q w1 r o [[HP HL] [HI [HK HWb]]] HC Hp H a ua w2.
  pose proof (s4_rinv _ _ _ _ HP) as HR2. pose proof (RInv2_R' _ _ HR2) as HR. pose proof (RInv_X _ _ HR) as HX.
  destruct (sim3_query_H T W w s q w1 r o (s4_sim _ _ _ _ HP) HR Hp) as (Ho & Hua & HS2 & HR2' & Hfs & Hnew); [| |exact H|].
  { intros p td _ _. pose proof (RInv2_maxlen _ _ HR2). lia. }
  { exact (proj1 HI). }
  fold a in Hua, HS2, HR2', Hfs, Hnew. fold ua in Hua, HS2, HR2', Hfs, Hnew. fold w2 in HS2, HR2', Hfs, Hnew.
  pose proof (m_query_strict q w w1 _ H) as Hx. pose proof Hx as (Ho1 & Hf1 & Hn1 & _).
  assert (Hq: qrel w w1).
  { unfold m_query in H. destruct (exec_query q None w) as [wq x] eqn:E.
    assert (wq = w1) by (destruct x as [v|[]]; inversion H; reflexivity). subst wq. apply (exec_query_q _ _ _ _ _ E). }
  destruct (qrel_facts _ _ _ HX Hq) as (_ & Sa & _ & _).
  assert (Hold: w_old w2 = w_old w) by (unfold w2; rewrite w_old_log_answer; exact Ho1).
  assert (Hbd: bd_created (w_bd w2) = bd_created (w_bd w)) by (unfold w2; rewrite w_bd_log_answer; apply (sv_created _ _ Sa)).
  assert (Hcf: w_cachefile w2 = w_cachefile w) by (unfold w2; rewrite w_cf_log_answer; apply (sv_cf _ _ Sa)).
  split; [exact Ho|]. split; [exact Hua|]. split; [|split; [|split; [exact Hfs|exact Hold]]].
  - split; [split|split; [|split]].
    + destruct HP as [P1 P2 P5 P6 P7 P8 P9 P10 P11 P12 P13 P14].
      constructor; cbn [klog ks_with k_need k_made k_fs k_newS]; try assumption.
      * apply log_answer_RInv2. eapply m_query_RInv2; eassumption.
      * intro x. rewrite Hbd. apply P7.
      * intros x Hx0. rewrite Hcf in Hx0. apply P10. exact Hx0.
      * intros x Hx0. rewrite Hcf. apply P11. exact Hx0.
      * intros k v Hin. rewrite Hnew in Hin. eapply P12. exact Hin.
      * rewrite Hnew. exact P13.
    + intros x Hx0. rewrite Hnew. apply HL. exact Hx0.
    + apply HInv_log_answer. apply (hx_HInv true w w1 Hx HI).
    + rewrite Hold. exact HK.
    + rewrite Hnew. exact HWb.
  - destruct HC as [C1 C2 C3 C4 C5]. constructor.
    + intro y. unfold inprog. rewrite Hnew. apply C1.
    + exact C2.
    + unfold pend_rel in *. destruct tg as [p|]; [|exact I]. rewrite Hnew, Hfs. exact C3.
    + intros y Hy. rewrite Hfs. apply C4. exact Hy.
    + unfold w2. apply TSA_log_answer. apply (TSA_query tg w w1 Hx C5).
Qed.

Lemma sim5_query_H : forall c0 st tg pend T W w s q w1 r o,
  Sim5 c0 T W w s -> Ctx4 st tg pend w -> path_ok (spec_query_path q) = true ->
  m_query q w = (w1, (r, o)) ->
  let a := spec_answer (k_fs s) q in
  let ua := match a with inl v => inl v | inr c => inr (XOS c) end in
  let w2 := log_answer q ua w1 in
  (exists o', o = Some o' /\ rec_rel o' (record_of q (record_answer (k_fs s) q))) /\
  user_answer q r w1 = ua /\
  Sim5 c0 T W w2 (klog (LAnswer q a) s) /\ Ctx4 st tg pend w2 /\ w_fs w2 = w_fs w /\ w_old w2 = w_old w.
Proof.
  intros c0 st tg pend T W w s q w1 r o [HS HE] HC Hp H a ua w2.
  destruct (sim4_query_H st tg pend T W w s q w1 r o HS HC Hp H) as (A1 & A2 & A3 & A4 & A5 & A6).
  fold a in A2, A3, A4, A5, A6. fold ua in A2, A3, A4, A5, A6. fold w2 in A3, A4, A5, A6.
  split; [exact A1|]. split; [exact A2|]. split; [|split; [exact A4|split; [exact A5|exact A6]]].
  split; [exact A3|].
  pose proof (m_query_svb _ _ _ _ H) as (B1 & B2 & _ & _ & B5 & _).
  assert (Enew: w_new w2 = w_new w) by (unfold w2; rewrite w_new_log_answer; exact B5).
  assert (Eclock: w_clock w2 = w_clock w).
  { unfold w2, log_answer. destruct ua as [v|[]]; cbn; exact B2. }
  destruct HE as [E1 E2 E3 E4 E5]. constructor.
  - intros p Hp0. rewrite Enew. apply E1. exact Hp0.
  - rewrite Eclock. exact E2.
  - exact E3.
  - intros p f Hp0 Hf. rewrite A5 in Hf. apply (E4 p f Hp0 Hf).
  - exact E5.
Qed.

Print Assumptions exec_query_view_H.
Print Assumptions sim3_query_H.
Print Assumptions sim4_query_H.
Print Assumptions sim5_query_H.
