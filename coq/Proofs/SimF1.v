(* Proofs/SimF1.v — RestStatic (SimD7) cut into three groups of conditions, and the class for the
   next build from the three groups.
     RS_regs  new     : registered targets of a recorded tree pairwise different, different from
                        the record's own target
     RS_keys  new     : subbuild keys of a recorded tree pairwise different (Python ==); for an
                        entry of the table of subbuilds the key conditions
     RS_nodes c1 new  : node_static for every node of the tree (recorded METADATA times <= c1,
                        nested outputs created in [new], recorded subbuild arguments sanitized and
                        well formed); the arguments of an entry of the table of subbuilds      *)
From Coq Require Import List String Ascii NArith ZArith Bool Arith Lia.
From FB.Base Require Import PyVal Fs.
From FB.Gen Require Import JsonUtilGen.
From FB.Spec Require Import JsonSpec Prog Ref Oracle Faithful.
From FB.Model Require Import Types Monad CreatedFiles BuildDirs SimpleOps Builder Persist Build Run Frame Core CoreOracle.
From FB.Proofs Require Import FsLemmas JsonLaws ReplayLaws BuildFileLaws CoreLaws1 CoreLaws2 CoreLaws3 CoreLaws4
     CoreNextRegs CoreNextState
     HashMemoInv ViewDefs ViewLemmas ViewInit ViewXDefs ViewH4 ViewH6 ViewR2 ViewR3 ViewK3 ViewK4 ViewK8
     SimA0 SimA2Base SimAMain SimB2 SimB7 SimB9 SimC0 SimC5 SimC12 SimC14 SimC15 SimD5 SimD7.
Import ListNotations.
Open Scope list_scope.

Definition RS_regs (new : cache) : Prop :=
  (forall p p' c' f' a' k' subs r' cr' sf', cache_get_file new p = Some (OBuildFile p' c' f' a' k' subs r' cr' false sf') ->
     nodupb (flat_map regp subs) = true /\
     forallb (fun t => negb (opath_eqb t (Some p))) (flat_map regp subs) = true) /\
  (forall k f a kk subs r sf, subs_get (c_subs new) k = Some (Some (OSubbuild f a kk subs r false sf)) ->
     nodupb (flat_map regp subs) = true).

Definition RS_keys (new : cache) : Prop :=
  (forall p p' c' f' a' k' subs r' cr' sf', cache_get_file new p = Some (OBuildFile p' c' f' a' k' subs r' cr' false sf') ->
     kfreshb (snd (cll subs)) = true) /\
  (forall k f a kk subs r sf, subs_get (c_subs new) k = Some (Some (OSubbuild f a kk subs r false sf)) ->
     kfreshb (snd (cll subs)) = true /\
     exists q, py_eq q k = true /\ py_eq (subbuild_key f a kk) q = true /\
               forallb (fun y => negb (py_eq (subbuild_key f a kk) y)) (snd (cll subs)) = true).

Definition RS_nodes (c1 : N) (new : cache) : Prop :=
  (forall p p' c' f' a' k' subs r' cr' sf', cache_get_file new p = Some (OBuildFile p' c' f' a' k' subs r' cr' false sf') ->
     forallb (node_static new c1) (flat_map nodes subs) = true) /\
  (forall k f a kk subs r sf, subs_get (c_subs new) k = Some (Some (OSubbuild f a kk subs r false sf)) ->
     forallb (node_static new c1) (flat_map nodes subs) = true /\
     sanitized a = true /\ sanitized kk = true /\ pv_wf a = true /\ pv_wf kk = true).

(* RS_nodes again in two: the recorded times, and the rest *)
Definition node_time (c1 : N) (x : op) : bool :=
  match x with OSimple (QRead _ METADATA) rt _ => older c1 rt | _ => true end.

Definition node_rest (new : cache) (x : op) : bool :=
  match x with
  | OSimple _ _ _ => true
  | OBuildFile p _ _ _ _ _ _ _ ra _ => ra || cache_created_file new p
  | OSubbuild _ a k _ _ _ _ => (sanitized a && sanitized k && pv_wf a && pv_wf k)%bool
  end.

Lemma node_static_split : forall new c1 x, node_static new c1 x = node_time c1 x && node_rest new x.
Proof.
  intros new c1 [q r e|p c f a k subs r cr ra sf|f a k subs r ra sf]; cbn [node_static node_time node_rest]; try reflexivity.
  destruct q as [x|x|x|x|x tf|x|x cm]; try reflexivity. destruct cm; try reflexivity. rewrite andb_true_r. reflexivity.
Qed.

Definition RS_times (c1 : N) (new : cache) : Prop :=
  (forall p p' c' f' a' k' subs r' cr' sf', cache_get_file new p = Some (OBuildFile p' c' f' a' k' subs r' cr' false sf') ->
     forallb (node_time c1) (flat_map nodes subs) = true) /\
  (forall k f a kk subs r sf, subs_get (c_subs new) k = Some (Some (OSubbuild f a kk subs r false sf)) ->
     forallb (node_time c1) (flat_map nodes subs) = true).

Definition RS_rest (new : cache) : Prop :=
  (forall p p' c' f' a' k' subs r' cr' sf', cache_get_file new p = Some (OBuildFile p' c' f' a' k' subs r' cr' false sf') ->
     forallb (node_rest new) (flat_map nodes subs) = true) /\
  (forall k f a kk subs r sf, subs_get (c_subs new) k = Some (Some (OSubbuild f a kk subs r false sf)) ->
     forallb (node_rest new) (flat_map nodes subs) = true /\
     sanitized a = true /\ sanitized kk = true /\ pv_wf a = true /\ pv_wf kk = true).

Lemma forallb_and : forall {A} (f g h : A -> bool) l, (forall x, f x = g x && h x) ->
  forallb g l = true -> forallb h l = true -> forallb f l = true.
Proof.
  intros A f g h l E. induction l as [|x l IH]; intros H1 H2; [reflexivity|]. cbn [forallb] in *.
  apply andb_true_iff in H1. destruct H1 as [H1 H1']. apply andb_true_iff in H2. destruct H2 as [H2 H2'].
  rewrite E, H1, H2. exact (IH H1' H2').
Qed.

Lemma rs_nodes_of_parts : forall c1 new, RS_times c1 new -> RS_rest new -> RS_nodes c1 new.
Proof.
  intros c1 new [T1 T2] [R1 R2]. split.
  - intros p p' c' f' a' k' subs r' cr' sf' Hg.
    apply (forallb_and _ _ _ _ (node_static_split new c1)); [exact (T1 _ _ _ _ _ _ _ _ _ _ Hg)|exact (R1 _ _ _ _ _ _ _ _ _ _ Hg)].
  - intros k f a kk subs r sf Hg. destruct (R2 _ _ _ _ _ _ _ Hg) as (Z1 & Z).
    split; [|exact Z]. apply (forallb_and _ _ _ _ (node_static_split new c1)); [exact (T2 _ _ _ _ _ _ _ Hg)|exact Z1].
Qed.

Lemma forallb_notnone : forall l : list path, forallb (fun t => negb (opath_eqb t None)) l = true.
Proof. induction l as [|x l IH]; [reflexivity|exact IH]. Qed.

Lemma rest_static_of_parts : forall c1 new, RS_regs new -> RS_keys new -> RS_nodes c1 new -> RestStatic c1 new.
Proof.
  intros c1 new [A1 A2] [B1 B2] [C1 C2]. split.
  - intros p p' c' f' a' k' subs r' cr' sf' Hg.
    destruct (A1 _ _ _ _ _ _ _ _ _ _ Hg) as [X1 X2].
    repeat split; [exact (C1 _ _ _ _ _ _ _ _ _ _ Hg)|exact X1|exact X2|exact (B1 _ _ _ _ _ _ _ _ _ _ Hg)].
  - intros k f a kk subs r sf Hg.
    destruct (B2 _ _ _ _ _ _ _ Hg) as [Y1 Y2]. destruct (C2 _ _ _ _ _ _ _ Hg) as (Z1 & Z2 & Z3 & Z4 & Z5).
    split; [repeat split; [exact Z1|exact (A2 _ _ _ _ _ _ _ Hg)|apply forallb_notnone|exact Y1]|].
    repeat split; try assumption.
Qed.
