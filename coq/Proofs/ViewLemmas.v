(* Proofs/ViewLemmas.v — basic facts about the view of ViewDefs.v: list helpers, the
   unfolding equation of [dead], induction on the depth of the tree, extensionality of
   [dead] in the candidate set, "whatever is visible keeps its ancestors alive", and the
   lookup / listing of the view tree. *)
From Coq Require Import List String Ascii NArith ZArith Bool Arith Lia.
From FB.Base Require Import PyVal Fs.
From FB.Model Require Import Types Monad CreatedFiles BuildDirs SimpleOps.
From FB.Proofs Require Import FsLemmas CleanLaws JsonLaws CoreLawsChildren ViewDefs.
Import ListNotations.
Open Scope list_scope.

(* ------------------------------------------------------------------ path lists *)
Lemma mem_path_In : forall p l, mem_path p l = true <-> In p l.
Proof.
  intros p l. induction l as [|q r IH]; simpl; [split; [discriminate|tauto]|].
  rewrite orb_true_iff, IH, path_eqb_eq. split; intros [H|H]; auto.
Qed.

Lemma mem_add_path : forall p q l, mem_path q (add_path p l) = path_eqb p q || mem_path q l.
Proof.
  intros p q l. unfold add_path. destruct (mem_path p l) eqn:E.
  - destruct (path_eqb p q) eqn:E2; [|reflexivity]. apply path_eqb_eq in E2. subst. rewrite E. reflexivity.
  - induction l as [|x r IH]; simpl.
    + rewrite orb_false_r. reflexivity.
    + simpl in E. apply orb_false_iff in E. destruct E as [E1 E2]. rewrite (IH E2).
      destruct (path_eqb x q), (path_eqb p q); reflexivity.
Qed.

Lemma mem_del_path : forall p q l, mem_path q (del_path p l) = negb (path_eqb p q) && mem_path q l.
Proof.
  intros p q l. induction l as [|x r IH]; simpl; [rewrite andb_false_r; reflexivity|].
  destruct (path_eqb x p) eqn:E.
  - rewrite IH. apply path_eqb_eq in E. subst x.
    destruct (path_eqb p q); reflexivity.
  - simpl. rewrite IH. destruct (path_eqb x q) eqn:E2; [|reflexivity]. simpl.
    apply path_eqb_eq in E2. subst x. rewrite path_eqb_sym, E. reflexivity.
Qed.

Lemma length_del_path_le : forall p l, List.length (del_path p l) <= List.length l.
Proof. intros p l. induction l as [|x r IH]; simpl; [lia|]. destruct (path_eqb x p); simpl; lia. Qed.

Lemma length_del_path_lt : forall p l, mem_path p l = true -> List.length (del_path p l) < List.length l.
Proof.
  intros p l. induction l as [|x r IH]; simpl; [discriminate|].
  destruct (path_eqb x p) eqn:E; simpl; intro H.
  - pose proof (length_del_path_le p r). lia.
  - apply IH in H. lia.
Qed.

(* ------------------------------------------------------------------ suffixes *)
Lemma suffix_refl : forall p, suffix p p.
Proof. intro p. exists []. reflexivity. Qed.

Lemma suffix_cons : forall x n p, suffix x p -> suffix x (n :: p).
Proof. intros x n p [l H]. exists (n :: l). subst. reflexivity. Qed.

Lemma suffix_trans : forall x y z, suffix x y -> suffix y z -> suffix x z.
Proof. intros x y z [l1 H1] [l2 H2]. exists (l2 ++ l1). subst. rewrite app_assoc. reflexivity. Qed.

Lemma suffix_inv : forall x n p, suffix x (n :: p) -> x = n :: p \/ suffix x p.
Proof.
  intros x n p [l H]. destruct l as [|m l]; [left; symmetry; exact H|].
  right. inversion H; subst. exists l. reflexivity.
Qed.

Lemma suffix_nil : forall x, suffix x [] -> x = [].
Proof. intros x [l H]. symmetry in H. apply app_eq_nil in H. tauto. Qed.

Lemma suffix_nil_l : forall p, suffix [] p.
Proof. intro p. exists p. rewrite app_nil_r. reflexivity. Qed.

Lemma psuffix_cons : forall x n p, psuffix x (n :: p) <-> suffix x p.
Proof.
  intros x n p. split.
  - intros [m [l H]]. inversion H; subst. exists l. reflexivity.
  - intros [l H]. exists n, l. subst. reflexivity.
Qed.

Lemma psuffix_suffix : forall x p, psuffix x p -> suffix x p.
Proof. intros x p [n [l H]]. exists (n :: l). exact H. Qed.

Lemma psuffix_neq : forall x p, psuffix x p -> x <> p.
Proof.
  intros x p [n [l H]] E. subst x. apply (f_equal (@List.length _)) in H.
  rewrite app_length in H. simpl in H. lia.
Qed.

Lemma suffix_length : forall x p, suffix x p -> List.length x <= List.length p.
Proof. intros x p [l H]. subst. rewrite app_length. lia. Qed.

(* ------------------------------------------------------------------ depth of the tree *)
Lemma maxlen_In : forall fs e, In e fs -> List.length (fst e) <= maxlen fs.
Proof.
  induction fs as [|a fs IH]; intros e H; [destruct H|]. simpl. destruct H as [->|H]; [lia|].
  apply IH in H. lia.
Qed.

Lemma lookup_maxlen : forall fs p x, lookup fs p = Some x -> List.length p <= maxlen fs.
Proof.
  intros fs p x H. destruct p as [|n d]; [simpl; lia|]. cbn [lookup] in H.
  destruct (raw_lookup_in _ _ _ H) as [e [He Hk]]. pose proof (maxlen_In _ _ He) as Hm. rewrite <- Hk. exact Hm.
Qed.

Lemma child_maxlen : forall fs d n, In n (children fs d) -> S (List.length d) <= maxlen fs.
Proof.
  intros fs d n H. destruct (children_names _ _ _ H) as [x Hx]. apply lookup_maxlen in Hx. exact Hx.
Qed.

(* induction from the leaves of the stored tree upwards *)
Lemma depth_ind : forall fs (P : path -> Prop),
  (forall d, (forall n, In n (children fs d) -> P (n :: d)) -> P d) -> forall d, P d.
Proof.
  intros fs P H.
  assert (G: forall k d, S (maxlen fs) - List.length d <= k -> P d).
  { induction k as [|k IH]; intros d Hk.
    - apply H. intros n Hn. apply child_maxlen in Hn. lia.
    - apply H. intros n Hn. apply IH. apply child_maxlen in Hn. simpl. lia. }
  intro d. eapply G. apply Nat.le_refl.
Qed.

(* ------------------------------------------------------------------ dead: unfolding *)
Definition invis_gen (fs : fsT) (tr hd : path -> bool) (a : path) : bool :=
  match lookup fs a with
  | Some (NFile _) => hd a
  | Some NDir => dead_gen fs tr hd a
  | None => true
  end.

Lemma dead_gen_unfold : forall fs tr hd d,
  dead_gen fs tr hd d =
  tr d && match lookup fs d with
          | Some NDir => forallb (fun n => invis_gen fs tr hd (n :: d)) (children fs d)
          | _ => false
          end.
Proof.
  intros fs tr hd d. unfold dead_gen at 1. cbn [deadF]. f_equal.
  destruct (lookup fs d) as [[f|]|]; try reflexivity.
  apply forallb_ext_in. intros n Hn. unfold invis_gen, dead_gen.
  destruct (lookup fs (n :: d)) as [[f|]|]; try reflexivity.
  apply child_maxlen in Hn. simpl List.length.
  replace (maxlen fs - List.length d) with (S (maxlen fs - S (List.length d))) by lia. reflexivity.
Qed.

Lemma forallb_ext_in' : forall A (f g : A -> bool) l, (forall x, In x l -> f x = g x) -> forallb f l = forallb g l.
Proof. intros. apply forallb_ext_in. assumption. Qed.

(* the candidate set may shrink by directories that are not dead *)
Lemma dead_gen_ext : forall fs tr tr' hd,
  (forall x, tr' x = true -> tr x = true) ->
  (forall x, tr x = true -> tr' x = false -> dead_gen fs tr hd x = false) ->
  forall x, dead_gen fs tr' hd x = dead_gen fs tr hd x.
Proof.
  intros fs tr tr' hd H1 H2. apply (depth_ind fs). intros d IH.
  assert (E: match lookup fs d with
             | Some NDir => forallb (fun n => invis_gen fs tr' hd (n :: d)) (children fs d)
             | _ => false
             end =
             match lookup fs d with
             | Some NDir => forallb (fun n => invis_gen fs tr hd (n :: d)) (children fs d)
             | _ => false
             end).
  { destruct (lookup fs d) as [[f|]|]; try reflexivity.
    apply forallb_ext_in. intros n Hn. unfold invis_gen. rewrite (IH n Hn). reflexivity. }
  rewrite (dead_gen_unfold fs tr' hd d), E.
  destruct (tr' d) eqn:T'.
  - rewrite (dead_gen_unfold fs tr hd d), (H1 d T'). reflexivity.
  - cbn [andb]. destruct (tr d) eqn:T.
    + symmetry. apply H2; assumption.
    + rewrite (dead_gen_unfold fs tr hd d), T. reflexivity.
Qed.

(* ------------------------------------------------------------------ dead / visible on worlds *)
Definition invis (w : world) (a : path) : bool := invis_gen (w_fs w) (trk (w_bd w)) (hid w) a.

Lemma dead_unfold : forall w d,
  dead w d =
  trk (w_bd w) d && match lookup (w_fs w) d with
                    | Some NDir => forallb (fun n => invis w (n :: d)) (children (w_fs w) d)
                    | _ => false
                    end.
Proof. intros w d. unfold dead, invis. apply dead_gen_unfold. Qed.

Lemma invis_visible : forall w a, lexists (w_fs w) a = true -> invis w a = negb (visible w a).
Proof.
  intros w a H. unfold invis, invis_gen, visible, lexists in *. fold (dead w a).
  destruct (lookup (w_fs w) a) as [[f|]|]; try discriminate; rewrite negb_involutive; reflexivity.
Qed.

Lemma dead_untracked : forall w d, trk (w_bd w) d = false -> dead w d = false.
Proof. intros w d H. rewrite dead_unfold, H. reflexivity. Qed.

Lemma dead_counts : forall w d, in_counts (w_bd w) d = true -> dead w d = false.
Proof. intros w d H. apply dead_untracked. unfold trk. rewrite H, andb_false_r. reflexivity. Qed.

Lemma dead_file : forall w d, isfile (w_fs w) d = true -> dead w d = false.
Proof.
  intros w d H. rewrite dead_unfold. unfold isfile in H.
  destruct (lookup (w_fs w) d) as [[f|]|]; try discriminate. apply andb_false_r.
Qed.

Lemma dead_notdir : forall w d, isdir (w_fs w) d = false -> dead w d = false.
Proof.
  intros w d H. rewrite dead_unfold. unfold isdir in H.
  destruct (lookup (w_fs w) d) as [[f|]|]; try discriminate; apply andb_false_r.
Qed.

Lemma dead_true_inv : forall w d, dead w d = true ->
  trk (w_bd w) d = true /\ isdir (w_fs w) d = true.
Proof.
  intros w d H. split.
  - destruct (trk (w_bd w) d) eqn:E; [reflexivity|]. rewrite dead_untracked in H; [discriminate|exact E].
  - destruct (isdir (w_fs w) d) eqn:E; [reflexivity|]. rewrite dead_notdir in H; [discriminate|exact E].
Qed.

Lemma visible_lexists : forall w p, visible w p = true -> lexists (w_fs w) p = true.
Proof. intros w p H. unfold visible, lexists in *. destruct (lookup (w_fs w) p); [reflexivity|discriminate]. Qed.

Lemma visible_split : forall w p, visible w p = vfile w p || vdir w p.
Proof.
  intros w p. unfold visible, vfile, vdir, isfile, isdir.
  destruct (lookup (w_fs w) p) as [[f|]|]; cbn; try reflexivity. rewrite orb_false_r. reflexivity.
Qed.

Lemma vfile_visible : forall w p, vfile w p = true -> visible w p = true.
Proof. intros w p H. rewrite visible_split, H. reflexivity. Qed.
Lemma vdir_visible : forall w p, vdir w p = true -> visible w p = true.
Proof. intros w p H. rewrite visible_split, H. apply orb_true_r. Qed.

(* anything visible keeps its parent, hence all its ancestors, alive *)
Lemma visible_parent_alive : forall w n d, fs_wf (w_fs w) -> visible w (n :: d) = true -> dead w d = false.
Proof.
  intros w n d Hwf Hv. pose proof (visible_lexists _ _ Hv) as Hex.
  rewrite dead_unfold. destruct (trk (w_bd w) d); [cbn [andb]|reflexivity].
  assert (Hd: lookup (w_fs w) d = Some NDir).
  { unfold lexists in Hex. destruct (lookup (w_fs w) (n :: d)) as [x|] eqn:E; [|discriminate].
    apply (Hwf _ _ E). }
  rewrite Hd. apply not_true_is_false. intro Hall. rewrite forallb_forall in Hall.
  specialize (Hall n (proj2 (children_In _ _ _) Hex)).
  rewrite invis_visible, Hv in Hall by exact Hex. discriminate.
Qed.

Lemma visible_self_alive : forall w p, visible w p = true -> dead w p = false.
Proof.
  intros w p H. unfold visible in H. destruct (lookup (w_fs w) p) as [[f|]|] eqn:E; try discriminate.
  - apply dead_file. unfold isfile. rewrite E. reflexivity.
  - destruct (dead w p); [discriminate|reflexivity].
Qed.

Lemma wf_parent_dir : forall fs n d, fs_wf fs -> lexists fs (n :: d) = true -> lookup fs d = Some NDir.
Proof.
  intros fs n d Hwf H. unfold lexists in H. destruct (lookup fs (n :: d)) as [x|] eqn:E; [|discriminate].
  apply (Hwf _ _ E).
Qed.

Lemma wf_suffix_dir : forall fs p x, fs_wf fs -> lookup fs p = Some NDir -> suffix x p -> lookup fs x = Some NDir.
Proof.
  intros fs p. induction p as [|n d IH]; intros x Hwf Hp Hs.
  - apply suffix_nil in Hs. subst. reflexivity.
  - apply suffix_inv in Hs. destruct Hs as [->|Hs]; [exact Hp|].
    apply IH; [exact Hwf| |exact Hs]. apply (Hwf _ _ Hp).
Qed.

Lemma visible_alive_up : forall w p x, fs_wf (w_fs w) -> visible w p = true -> suffix x p -> dead w x = false.
Proof.
  intros w p. induction p as [|n d IH]; intros x Hwf Hv Hs.
  - apply suffix_nil in Hs. subst. apply visible_self_alive. exact Hv.
  - apply suffix_inv in Hs. destruct Hs as [->|Hs]; [apply visible_self_alive; exact Hv|].
    pose proof (visible_parent_alive _ _ _ Hwf Hv) as Hd.
    apply IH; [exact Hwf| |exact Hs].
    unfold visible. rewrite (wf_parent_dir _ _ _ Hwf (visible_lexists _ _ Hv)), Hd. reflexivity.
Qed.

(* ------------------------------------------------------------------ counts *)
Lemma counts_up_suffix : forall w p x, BInv w -> in_counts (w_bd w) p = true -> suffix x p -> in_counts (w_bd w) x = true.
Proof.
  intros w p. induction p as [|n d IH]; intros x HB Hp Hs.
  - apply suffix_nil in Hs. subst. exact Hp.
  - apply suffix_inv in Hs. destruct Hs as [->|Hs]; [exact Hp|].
    apply IH; [exact HB| |exact Hs]. eapply bi_counts_up; eassumption.
Qed.

(* ------------------------------------------------------------------ same_view *)
Lemma same_view_refl : forall w, same_view w w.
Proof. intro w. constructor; reflexivity. Qed.

Lemma same_view_trans : forall a b c, same_view a b -> same_view b c -> same_view a c.
Proof.
  intros a b c [A1 A2 A3 A4 A5 A6 A7 A8] [B1 B2 B3 B4 B5 B6 B7 B8].
  constructor; [congruence..|intro x; rewrite B8; apply A8].
Qed.

Lemma good_refl : forall w, BInv w -> good w w.
Proof. intros w H. split; [exact H|]. split; [apply same_view_refl|auto]. Qed.

Lemma good_trans : forall a b c, good a b -> good b c -> good a c.
Proof.
  intros a b c (_ & H1 & H1') (H2 & H3 & H3'). split; [exact H2|].
  split; [eapply same_view_trans; eassumption|auto].
Qed.

Lemma good_BInv : forall a b, good a b -> BInv b.
Proof. intros a b H. apply H. Qed.
Lemma good_sv : forall a b, good a b -> same_view a b.
Proof. intros a b H. apply H. Qed.

Lemma dead_root : forall w, BInv w -> dead w [] = false.
Proof. intros w H. apply dead_untracked. apply (bi_root _ H). Qed.

Lemma vdir_root : forall w, BInv w -> vdir w [] = true.
Proof. intros w H. unfold vdir. rewrite (dead_root _ H). reflexivity. Qed.

Lemma same_view_hid : forall w w' p, same_view w w' -> hid w' p = hid w p.
Proof. intros w w' p H. unfold hid. rewrite (sv_cf _ _ H), (sv_new _ _ H), (sv_old _ _ H). reflexivity. Qed.

Lemma same_view_vfile : forall w w' p, same_view w w' -> vfile w' p = vfile w p.
Proof. intros w w' p H. unfold vfile. rewrite (sv_fs _ _ H), (same_view_hid _ _ _ H). reflexivity. Qed.

Lemma same_view_vdir : forall w w' p, same_view w w' -> vdir w' p = vdir w p.
Proof. intros w w' p H. unfold vdir. rewrite (sv_fs _ _ H), (sv_dead _ _ H). reflexivity. Qed.

Lemma same_view_visible : forall w w' p, same_view w w' -> visible w' p = visible w p.
Proof. intros w w' p H. rewrite !visible_split, (same_view_vfile _ _ _ H), (same_view_vdir _ _ _ H). reflexivity. Qed.

Lemma same_view_view_fs : forall w w', same_view w w' -> view_fs w' = view_fs w.
Proof.
  intros w w' H. unfold view_fs. rewrite (sv_fs _ _ H). apply map_ext. intro e.
  rewrite (same_view_visible _ _ _ H). reflexivity.
Qed.

(* ------------------------------------------------------------------ the view tree *)
Lemma raw_lookup_map : forall (g : path -> bool) fs p,
  raw_lookup (map (fun e => (fst e, if g (fst e) then snd e else None)) fs) p =
  if g p then raw_lookup fs p else None.
Proof.
  intros g fs p. induction fs as [|[q n] fs IH]; cbn [map raw_lookup fst snd].
  - destruct (g p); reflexivity.
  - destruct (path_eqb q p) eqn:E; [|exact IH]. apply path_eqb_eq in E. subst q. reflexivity.
Qed.

Lemma lookup_view : forall w p, p <> [] ->
  lookup (view_fs w) p = if visible w p then lookup (w_fs w) p else None.
Proof.
  intros w p Hp. destruct p as [|n d]; [contradiction|]. unfold view_fs. cbn [lookup].
  apply raw_lookup_map.
Qed.

Lemma lookup_view_vis : forall w p, lookup (view_fs w) p =
  match p with [] => Some NDir | _ => if visible w p then lookup (w_fs w) p else None end.
Proof. intros w p. destruct p as [|n d]; [reflexivity|]. apply lookup_view. discriminate. Qed.

Lemma isfile_view : forall w p, isfile (view_fs w) p = vfile w p.
Proof.
  intros w p. unfold isfile, vfile, isfile. destruct p as [|n d]; [reflexivity|].
  rewrite lookup_view by discriminate. unfold visible.
  destruct (lookup (w_fs w) (n :: d)) as [[f|]|];
    [destruct (hid w (n :: d))|destruct (dead w (n :: d))|]; reflexivity.
Qed.

Lemma isdir_view : forall w p, p <> [] -> isdir (view_fs w) p = vdir w p.
Proof.
  intros w p Hp. unfold isdir, vdir, isdir. rewrite lookup_view by exact Hp. unfold visible.
  destruct (lookup (w_fs w) p) as [[f|]|];
    [destruct (hid w p)|destruct (dead w p)|]; reflexivity.
Qed.

Lemma lexists_view : forall w p, p <> [] -> lexists (view_fs w) p = visible w p.
Proof.
  intros w p Hp. unfold lexists. rewrite lookup_view by exact Hp.
  destruct (visible w p) eqn:E; [|reflexivity]. apply visible_lexists in E. exact E.
Qed.

(* ---- strictly sorted lists: filter, sort ---- *)
Lemma strict_sorted_filter : forall (g : string -> bool) l, strict_sorted l -> strict_sorted (filter g l).
Proof.
  intros g l. induction l as [|x r IH]; intro H; [exact I|]. destruct H as [Hx Hr]. cbn [filter].
  destruct (g x); [|apply IH; exact Hr]. split; [|apply IH; exact Hr].
  intros y Hy. apply filter_In in Hy. apply Hx. tauto.
Qed.

Lemma strict_sorted_NoDup : forall l, strict_sorted l -> NoDup l.
Proof.
  induction l as [|x r IH]; intro H; [constructor|]. destruct H as [Hx Hr]. constructor; [|apply IH; exact Hr].
  intro Hin. apply Hx in Hin. rewrite str_ltb_irrefl in Hin. discriminate.
Qed.

Lemma sort_strs_sorted_id : forall l, strict_sorted l -> sort_strs l = l.
Proof.
  intros l H. apply strict_sorted_ext; [apply sort_strs_strict_sorted, strict_sorted_NoDup, H|exact H|].
  intro x. unfold sort_strs. apply In_sort_by.
Qed.

Lemma children_view : forall w d,
  children (view_fs w) d = filter (fun n => visible w (n :: d)) (children (w_fs w) d).
Proof.
  intros w d. apply strict_sorted_ext.
  - apply children_strict_sorted.
  - apply strict_sorted_filter, children_strict_sorted.
  - intro n. rewrite filter_In, !children_In, lexists_view by discriminate. split.
    + intro H. split; [apply visible_lexists; exact H|exact H].
    + tauto.
Qed.

(* the view is a well-formed tree *)
Lemma view_wf : forall w, fs_wf (w_fs w) -> fs_wf (view_fs w).
Proof.
  intros w Hwf p x H. destruct p as [|n d]; [reflexivity|]. rewrite lookup_view in H by discriminate.
  destruct (visible w (n :: d)) eqn:V; [|discriminate]. cbn [dirname tl].
  rewrite lookup_view_vis. destruct d as [|m d']; [reflexivity|].
  pose proof (visible_parent_alive _ _ _ Hwf V) as Hd.
  pose proof (wf_parent_dir _ _ _ Hwf (visible_lexists _ _ V)) as Hl.
  unfold visible. rewrite Hl, Hd. reflexivity.
Qed.

(* ------------------------------------------------------------------ error classes *)
Lemma absent_err_path_ok : forall fs p, path_ok p = true -> absent_err fs p <> EOTHER.
Proof.
  intros fs p. induction p as [|n d IH]; intro H; [discriminate|]. cbn [path_ok forallb] in H.
  apply andb_true_iff in H. destruct H as [H1 H2]. cbn [absent_err].
  destruct (lookup fs d) as [[f|]|]; [discriminate| |apply IH; exact H2].
  rewrite H1. discriminate.
Qed.

Lemma absent_err_cases : forall fs p, absent_err fs p = ENOENT \/ absent_err fs p = ENOTDIR \/ absent_err fs p = EOTHER.
Proof.
  intros fs p. induction p as [|n d IH]; [left; reflexivity|]. cbn [absent_err].
  destruct (lookup fs d) as [[f|]|]; [right; left; reflexivity| |exact IH].
  destruct (name_ok n); [left|right; right]; reflexivity.
Qed.
