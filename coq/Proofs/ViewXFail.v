(* Proofs/ViewXFail.v — C04, reachability: the invariant package RInv T w (XInv, targets in
   progress are live, no injected fault) along the stages of build_file other than the
   setup of directories: claiming the target (bf_claim), the failure path (bf_fail:
   try_to_remove_file, error_building_file, finish) and the successful end. *)
From Coq Require Import List String Ascii NArith ZArith Bool Arith Lia.
From FB.Base Require Import PyVal Fs.
From FB.Gen Require Import JsonUtilGen.
From FB.Model Require Import Types Monad CreatedFiles BuildDirs SimpleOps Builder.
From FB.Proofs Require Import FsLemmas CleanLaws JsonLaws CoreLawsChildren ReplayLaws BuildFileLaws
     ViewDefs ViewLemmas ViewScan ViewQueries ViewAnswers ViewPres ViewFrame ViewPrepare
     ViewXDefs ViewXFrame ViewXQuery ViewXError ViewXSteps ViewXMake1 ViewXMake2.
Import ListNotations.
Open Scope list_scope.
Open Scope m_scope.

Definition RInv (T : list path) (w : world) : Prop := XInv T w /\ PInv T w /\ w_faults w = [].

Lemma RInv_X : forall T w, RInv T w -> XInv T w.
Proof. intros T w H. apply H. Qed.

Lemma XInv_fs_fields : forall T w fs' w1, XInv T (set_fs fs' w) ->
  w_fs w1 = fs' -> w_bd w1 = w_bd w -> w_old w1 = w_old w -> w_new w1 = w_new w -> w_cachefile w1 = w_cachefile w ->
  XInv T w1.
Proof. intros T w fs' w1 H E1 E2 E3 E4 E5. eapply XInv_fields; [exact H|..]; cbn; assumption. Qed.

(* read-only steps keep the package *)
Lemma qrel_RInv : forall T w w', qrel w w' -> RInv T w -> RInv T w'.
Proof.
  intros T w w' Q (HX & HP & HF). destruct (qrel_facts _ _ _ HX Q) as (HX' & S & SV & _).
  split; [exact HX'|]. split.
  - intros x Hx. apply HP. rewrite <- (sv_new _ _ S). exact Hx.
  - destruct SV as (_ & _ & _ & _ & _ & _ & _ & _ & _ & V & _). congruence.
Qed.

Lemma noneable_cmp_q : forall p c w w' r, noneable_cmp p c w = (w', r) -> qrel w w'.
Proof. intros p c. apply qrel_of; [apply noneable_cmp_v|apply noneable_cmp_f|apply noneable_cmp_svb]. Qed.

(* ------------------------------------------------------------------ removing the file of a live target *)
Lemma effect_nofault_inv : forall what p f w w1 r, w_faults w = [] -> effect what p f w = (w1, r) ->
  w_faults w1 = [] /\ same_core w w1 /\
  ((exists fs', f (w_fs w) = inl fs' /\ w_fs w1 = fs' /\ r = inl tt) \/
   (exists e, f (w_fs w) = inr e /\ w_fs w1 = w_fs w /\ r = inr (XOS (err_of e)))).
Proof.
  intros what p f w w1 r Hf H. unfold effect in H. rewrite Hf in H. cbn [existsb] in H.
  cbn [w_fs set_effects] in H. destruct (f (w_fs w)) as [fs'|e] eqn:E; inversion H; subst.
  - split; [exact Hf|]. split; [repeat split|]. left. eauto.
  - split; [exact Hf|]. split; [repeat split|]. right. eauto.
Qed.

Lemma try_to_remove_target : forall T w p w1 r, RInv T w -> In p T ->
  try_to_remove_file p w = (w1, r) -> RInv T w1 /\ isfile (w_fs w1) p = false.
Proof.
  intros T w p w1 r (HX & HP & HF) Hin H.
  split; [|eapply try_to_remove_file_absent; eassumption].
  unfold try_to_remove_file in H. apply bind_inv in H. unfold get in H.
  destruct H as [[wa [w0 [E H]]]|[e [E _]]]; [|discriminate]. inversion E; subst wa w0.
  destruct (isfile (w_fs w) p) eqn:Ei; [|inversion H; subst; split; [exact HX|split; [exact HP|exact HF]]].
  unfold catch in H. destruct (effect "remove" p (fun fs => remove fs p) w) as [wb rb] eqn:Ee.
  destruct (effect_nofault_inv _ _ _ _ _ _ HF Ee) as (F1 & (C1 & C2 & C3 & C4) & [[fs' (R1 & R2 & R3)]|[e (R1 & R2 & R3)]]).
  - subst rb. inversion H; subst w1. apply remove_frame in R1. destruct R1 as (_ & Rn & Ro).
    split; [|split; [|exact F1]].
    + apply (XInv_fs_fields T w fs' wb); auto. apply (remove_target_XInv T w p fs' HX Hin Ei Rn Ro).
    + intros x Hx. apply HP. rewrite <- C3. exact Hx.
  - exfalso. unfold remove in R1. apply isfile_lookup in Ei. destruct Ei as [g Eg]. rewrite Eg in R1.
    destruct p; [cbn in Eg; discriminate|discriminate].
Qed.

(* ------------------------------------------------------------------ bf_fail *)
Lemma files_get_set_same : forall l p v, files_get (files_set l p v) p = Some v.
Proof.
  intros l p v. induction l as [|[q o] l IH]; cbn [files_set files_get].
  - rewrite path_eqb_refl. reflexivity.
  - destruct (path_eqb q p) eqn:E; cbn [files_get]; rewrite E; [reflexivity|exact IH].
Qed.

Theorem bf_fail_RInv : forall T n d c f sa skw subs e w w' r oo,
  RInv T w -> In (n :: d) T ->
  bf_fail (n :: d) c f sa skw subs e w = (w', (r, oo)) -> RInv (rm1 (n :: d) T) w'.
Proof.
  intros T n d c f sa skw subs e w w' r oo HR Hin H. unfold bf_fail in H. cbv zeta in H.
  match type of H with (match ?X with _ => _ end) = _ => destruct X as [w1 x] eqn:E end.
  assert (W : w1 = w') by (destruct x; inversion H; reflexivity). subst w1. clear H.
  apply bind_inv in E. destruct E as [(wa & u & E1 & E2) | (e1 & E1 & _)].
  2:{ (* try_to_remove_file never raises an OSError it does not swallow; other errors cannot occur *)
      exfalso. unfold try_to_remove_file in E1. apply bind_inv in E1. unfold get in E1.
      destruct E1 as [[wb [w0 [E0 E1]]]|[e2 [E0 _]]]; [|discriminate]. inversion E0; subst wb w0.
      destruct (isfile (w_fs w) (n :: d)); [|discriminate].
      unfold catch in E1. destruct (effect "remove" (n :: d) (fun fs => remove fs (n :: d)) w) as [wb [u|e2]] eqn:Ee; [discriminate|].
      destruct HR as (_ & _ & HF). destruct (effect_nofault_inv _ _ _ _ _ _ HF Ee) as (_ & _ & [[fs' (_ & _ & R3)]|[e3 (_ & _ & R3)]]); [discriminate|].
      inversion R3; subst e2. cbn in E1. discriminate. }
  destruct (try_to_remove_target _ _ _ _ _ HR Hin E1) as [(HXa & HPa & HFa) Hnf].
  destruct (m_bd_error_XInv T wa n d HXa Hin Hnf) as (b' & Eb & HXb).
  apply bind_inv in E2. rewrite Eb in E2. destruct E2 as [(wb & u' & E2 & E3) | (e1 & E2 & _)]; [|discriminate].
  inversion E2; subst wb u'.
  split; [|split].
  - eapply new_finish_building_file_XInv; [exact HXb| |exact E3]. right. exact Hnf.
  - unfold new_finish_building_file, modify in E3. inversion E3; subst w'. intros y Hy.
    cbn [w_new set_new set_bd c_files cache_with] in Hy.
    destruct (path_eqb y (n :: d)) eqn:Ey.
    + apply path_eqb_eq in Ey. subst y. rewrite files_get_set_same in Hy. discriminate.
    + apply path_eqb_neq in Ey. rewrite files_get_set_other in Hy by exact Ey.
      apply rm1_other; [apply HPa; exact Hy|exact Ey].
  - unfold new_finish_building_file, modify in E3. inversion E3; subst w'. exact HFa.
Qed.

(* ------------------------------------------------------------------ the successful end *)
Lemma finish_ok_RInv : forall T p o w w' r, RInv T w -> In p T ->
  new_finish_building_file p o w = (w', r) -> RInv T w'.
Proof.
  intros T p o w w' r (HX & HP & HF) Hin H. split; [|split].
  - eapply new_finish_building_file_XInv; [exact HX|left; exact Hin|exact H].
  - unfold new_finish_building_file, modify in H. inversion H; subst w'. intros x Hx.
    cbn [w_new set_new c_files cache_with] in Hx.
    destruct (path_eqb x p) eqn:Ex; [apply path_eqb_eq in Ex; subst; exact Hin|].
    apply path_eqb_neq in Ex. rewrite files_get_set_other in Hx by exact Ex. apply HP. exact Hx.
  - unfold new_finish_building_file, modify in H. inversion H; subst w'. exact HF.
Qed.

Theorem bf_finish_RInv : forall T n d c f sa skw res subs w w' r oo,
  RInv T w -> In (n :: d) T ->
  bf_finish (n :: d) c f sa skw res subs w = (w', (r, oo)) ->
  RInv T w' \/ RInv (rm1 (n :: d) T) w'.
Proof.
  intros T n d c f sa skw res subs w w' r oo HR Hin H. unfold bf_finish in H.
  destruct res as [v|e]; [|right; eapply bf_fail_RInv; eassumption].
  destruct (sanitize v) as [sv|]; [|right; eapply bf_fail_RInv; eassumption].
  destruct (noneable_cmp (n :: d) c w) as [w4 [cmp|e]] eqn:Ec.
  - pose proof (qrel_RInv T _ _ (noneable_cmp_q _ _ _ _ _ Ec) HR) as HR4.
    destruct cmp; try (right; eapply bf_fail_RInv; eassumption);
      (destruct (new_finish_building_file (n :: d) _ w4) as [w5 u] eqn:E5; inversion H; subst;
       left; eapply finish_ok_RInv; eassumption).
  - pose proof (qrel_RInv T _ _ (noneable_cmp_q _ _ _ _ _ Ec) HR) as HR4.
    right. eapply bf_fail_RInv; eassumption.
Qed.

(* ------------------------------------------------------------------ bf_claim *)
Lemma back_up_target : forall T w p w1 r, RInv T w -> In p T -> isfile (w_fs w) p = true ->
  back_up_and_remove p w = (w1, r) -> RInv T w1 /\ exists bb, r = inl bb.
Proof.
  intros T w p w1 r (HX & HP & HF) Hin Hf H. unfold back_up_and_remove in H. apply bind_inv in H.
  destruct H as [[wa [u [E H]]]|[e [E _]]].
  2:{ exfalso. destruct (effect_nofault_inv _ _ _ _ _ _ HF E) as (_ & _ & [[fs' (_ & _ & R3)]|[e3 (R1 & _ & _)]]); discriminate. }
  destruct (effect_nofault_inv _ _ _ _ _ _ HF E) as (Fa & (C1 & C2 & C3 & C4) & [[fs' (R1 & R2 & _)]|[e3 (R1 & _ & _)]]); [|discriminate].
  assert (Efa: w_fs wa = w_fs w) by (inversion R1; congruence).
  rewrite Fa in H. cbn [existsb] in H. cbn [w_fs set_effects] in H.
  assert (Hfa: isfile (w_fs wa) p = true) by (rewrite Efa; exact Hf).
  apply isfile_lookup in Hfa. destruct Hfa as [g Hg].
  unfold rename_out in H. rewrite Hg in H. destruct p as [|n d]; [cbn in Hg; discriminate|].
  inversion H; subst w1 r. split; [|eauto].
  assert (HXa: XInv T wa) by (eapply XInv_fields; [exact HX|..]; assumption).
  split; [|split].
  - apply (XInv_fs_fields T wa (upd (n :: d) None (w_fs wa))); try reflexivity.
    apply (remove_target_XInv T wa (n :: d)); auto.
    + unfold isfile. rewrite Hg. reflexivity.
    + apply lookup_upd_eq. discriminate.
    + intros q Hq. apply lookup_upd_neq. exact Hq.
  - intros x Hx. apply HP. rewrite <- C3. exact Hx.
  - exact Fa.
Qed.

Theorem bf_claim_RInv : forall T p w w' r, RInv T w -> In p T -> bf_claim p w = (w', r) ->
  RInv T w' /\ r = inl None /\ files_get (c_files (w_new w')) p = Some None \/
  RInv T w' /\ (exists e, r = inr e) /\ cache_has_file (w_new w) p = true.
Proof.
  intros T p w w' r (HX & HP & HF) Hin H. unfold bf_claim in H.
  apply bind_inv in H. destruct H as [[wa [u [E1 H]]]|[e [E1 Er]]].
  2:{ right. unfold new_start_building_file, new_assert_no_file in E1. apply bind_inv in E1. unfold get in E1.
      destruct E1 as [[wb [u [E0 E1]]]|[e2 [E0 _]]].
      - apply bind_inv in E0. destruct E0 as [[wc [w0 [E0 E2]]]|[e3 [E0 _]]]; [|discriminate].
        inversion E0; subst wc w0. destruct (cache_has_file (w_new w) p); [discriminate|].
        inversion E2; subst. unfold modify in E1. discriminate.
      - apply bind_inv in E0. destruct E0 as [[wc [w0 [E0 E2]]]|[e3 [E0 _]]]; [|discriminate].
        inversion E0; subst wc w0. destruct (cache_has_file (w_new w) p) eqn:Ec; [|discriminate].
        inversion E2; subst. split; [split; [exact HX|split; [exact HP|exact HF]]|]. split; [eauto|reflexivity]. }
  (* claimed *)
  assert (HRa: RInv T wa /\ files_get (c_files (w_new wa)) p = Some None).
  { pose proof (new_start_building_file_XInv T w p wa _ HX (or_introl Hin) E1) as HXa.
    unfold new_start_building_file, new_assert_no_file in E1. apply bind_inv in E1.
    destruct E1 as [[wb [u0 [E0 E1]]]|[e2 [_ E0]]]; [|discriminate].
    apply bind_inv in E0. unfold get in E0. destruct E0 as [[wc [w0 [E0 E2]]]|[e3 [E0 _]]]; [|discriminate].
    inversion E0; subst wc w0. destruct (cache_has_file (w_new w) p); [discriminate|]. inversion E2; subst wb u0.
    unfold modify in E1. inversion E1; subst wa. cbn [w_new set_new c_files cache_with w_faults].
    split; [|apply files_get_set_same]. split; [exact HXa|]. split; [|exact HF].
    intros x Hx. cbn [w_new set_new c_files cache_with] in Hx.
    destruct (path_eqb x p) eqn:Ex; [apply path_eqb_eq in Ex; subst; exact Hin|].
    apply path_eqb_neq in Ex. rewrite files_get_set_other in Hx by exact Ex. apply HP. exact Hx. }
  destruct HRa as [HRa Hprog].
  apply bind_inv in H. destruct H as [[wb [u' [E2 H]]]|[e [E2 Er]]].
  - inversion H; subst w' r. left.
    unfold catch in E2. destruct ((w0 <- get ;; (if isfile (w_fs w0) p then b <- back_up_and_remove p ;; ret tt else ret tt)) wa)
      as [wc [u2|e2]] eqn:E3.
    + inversion E2; subst wc u'. apply bind_inv in E3. unfold get in E3.
      destruct E3 as [[wd [w0 [E0 E3]]]|[e3 [E0 _]]]; [|discriminate]. inversion E0; subst wd w0.
      destruct (isfile (w_fs wa) p) eqn:Ei.
      * apply bind_inv in E3. destruct E3 as [[wd [bb [E4 E5]]]|[e3 [_ E5]]]; [|discriminate].
        inversion E5; subst wd. destruct (back_up_target _ _ _ _ _ HRa Hin Ei E4) as [HRb _].
        split; [exact HRb|]. split; [reflexivity|].
        assert (w_new wb = w_new wa).
        { pose proof (back_up_and_remove_quiet p). clear -E4. unfold back_up_and_remove in E4.
          apply bind_inv in E4. destruct E4 as [[we [u [E E4]]]|[e [_ E4]]]; [|discriminate].
          apply effect_ok in E. destruct E as [_ (_ & _ & C3 & _)].
          destruct (existsb (Nat.eqb (w_effects we)) (w_faults we)); [discriminate|].
          destruct (rename_out (w_fs (set_effects (S (w_effects we)) we)) p) as [[fs' [g|]]|er]; [| |destruct er]; inversion E4; subst; cbn; congruence. }
        congruence.
      * inversion E3; subst wb. split; [exact HRa|]. split; [reflexivity|exact Hprog].
    + (* the handler re-raises *)
      apply bind_inv in E2. destruct E2 as [[wd [u3 [_ E2]]]|[e3 [_ E2]]]; discriminate.
  - (* the backup failed: impossible without faults *)
    exfalso. unfold catch in E2.
    destruct ((w0 <- get ;; (if isfile (w_fs w0) p then b <- back_up_and_remove p ;; ret tt else ret tt)) wa)
      as [wc [u2|e2]] eqn:E3; [discriminate|].
    apply bind_inv in E3. unfold get in E3.
    destruct E3 as [[wd [w0 [E0 E3]]]|[e3 [E0 _]]]; [|discriminate]. inversion E0; subst wd w0.
    destruct (isfile (w_fs wa) p) eqn:Ei; [|discriminate].
    apply bind_inv in E3. destruct E3 as [[wd [bb [E4 E5]]]|[e3 [E4 _]]]; [discriminate|].
    destruct (back_up_target _ _ _ _ _ HRa Hin Ei E4) as [_ [bb Hbb]]. discriminate.
Qed.

Print Assumptions bf_fail_RInv.
Print Assumptions bf_finish_RInv.
Print Assumptions bf_claim_RInv.
