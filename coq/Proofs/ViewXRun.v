(* Proofs/ViewXRun.v — C04, reachability: the invariant package RInv along build_file,
   subbuild and every program run by Model/Run.v, relative to the statements
   mkfail_statement, hit_statement (ViewXSetup.v) and sbhit_statement (below); these are
   proved here for previous caches that hold no operation records. *)
From Coq Require Import List String Ascii NArith ZArith Bool Arith Lia.
From FB.Base Require Import PyVal Fs.
From FB.Gen Require Import JsonUtilGen.
From FB.Spec Require Import Prog.
From FB.Model Require Import Types Monad CreatedFiles BuildDirs SimpleOps Builder Build Run.
From FB.Proofs Require Import FsLemmas CleanLaws JsonLaws CoreLawsChildren ReplayLaws BuildFileLaws
     ViewDefs ViewLemmas ViewScan ViewQueries ViewAnswers ViewPres ViewFrame ViewPrepare
     ViewXDefs ViewXFrame ViewXQuery ViewXError ViewXSteps ViewXMake1 ViewXMake2 ViewXFail ViewXSetup ViewXOld.
Import ListNotations.
Open Scope list_scope.
Open Scope m_scope.

Lemma RInv_fields : forall T w w', RInv T w ->
  w_fs w' = w_fs w -> w_bd w' = w_bd w -> w_old w' = w_old w -> w_new w' = w_new w ->
  w_cachefile w' = w_cachefile w -> w_faults w' = w_faults w -> RInv T w'.
Proof.
  intros T w w' (HX & HP & HF) E1 E2 E3 E4 E5 E6. split; [eapply XInv_fields; eassumption|]. split.
  - intros x Hx. apply HP. rewrite <- E4. exact Hx.
  - congruence.
Qed.

(* ------------------------------------------------------------------ build_file *)
Theorem m_build_file_RInv : forall ok, mkfail_statement -> hit_statement_for ok ->
  forall T p c f a kw (fn : path -> pyval -> pyval -> body) w w' res,
    (forall sa skw T0 w0 w1 r, ok (w_old w0) -> RInv T0 w0 -> In p T0 -> fn p sa skw w0 = (w1, r) ->
                               exists T1, RInv T1 w1 /\ msub T0 T1) ->
    ok (w_old w) -> RInv T w -> m_build_file p c f a kw fn w = (w', res) ->
    exists T', RInv T' w' /\ msub T T'.
Proof.
  intros ok HM HH T p c f a kw fn w w' res Hfn Hok HR H. rewrite m_build_file_unfold in H.
  destruct (sanitize a) as [sa|]; [|inversion H; subst; exists T; split; [exact HR|apply msub_refl]].
  destruct (sanitize kw) as [skw|]; [|inversion H; subst; exists T; split; [exact HR|apply msub_refl]].
  destruct (bf_setup p c f sa skw w) as [w1 r1] eqn:Es.
  pose proof (bf_setup_RInv ok HM HH T p c f sa skw w w1 r1 Hok HR Es) as P. unfold setup_post in P.
  destruct r1 as [[[o|[e o]]|]|e].
  - inversion H; subst. exact P.
  - destruct P.
  - (* the function runs *)
    destruct P as (HR1 & Hprog & Hne & Hold).
    unfold bf_rebuild in H.
    destruct (fn p sa skw (bf_invoke_world p f sa skw w1)) as [w3 [res3 subs3]] eqn:Ef.
    assert (HRi: RInv (p :: T) (bf_invoke_world p f sa skw w1)) by (eapply RInv_fields; [exact HR1|..]; reflexivity).
    assert (Hoki: ok (w_old (bf_invoke_world p f sa skw w1))) by (cbn; rewrite Hold; exact Hok).
    destruct (Hfn sa skw (p :: T) _ _ _ Hoki HRi (or_introl eq_refl) Ef) as (T1 & HR3 & M1).
    destruct p as [|n d]; [contradiction|].
    assert (Hin: In (n :: d) T1) by (apply (msub_in _ _ _ M1); left; reflexivity).
    destruct res as [ro oo].
    destruct (bf_finish_RInv T1 n d c f sa skw res3 subs3 w3 w' ro oo HR3 Hin H) as [K|K].
    + exists T1. split; [exact K|]. eapply msub_trans; [apply msub_cons|exact M1].
    + exists (rm1 (n :: d) T1). split; [exact K|]. apply msub_rm1. exact M1.
  - inversion H; subst. exists T. split; [exact P|apply msub_refl].
Qed.

(* ------------------------------------------------------------------ subbuild *)
Definition sbhit_statement_for (ok : cache -> Prop) : Prop :=
  forall T f sa skw w w1 r, ok (w_old w) -> RInv T w -> sb_setup f sa skw w = (w1, r) ->
    exists T', RInv T' w1 /\ msub T T' /\ w_old w1 = w_old w.
Definition sbhit_statement : Prop := sbhit_statement_for (fun _ => True).

Lemma subs_change_RInv : forall T w c', RInv T w -> c_files c' = c_files (w_new w) -> RInv T (set_new c' w).
Proof.
  intros T w c' (HX & HP & HF) E. split; [|split; [|exact HF]].
  - apply (claim_change_XInv T w [] c' HX); [right; reflexivity|]. intros a _. rewrite E. reflexivity.
  - intros x Hx. apply HP. cbn [w_new set_new] in Hx. rewrite E in Hx. exact Hx.
Qed.

Theorem m_subbuild_RInv : forall ok, sbhit_statement_for ok ->
  forall T f a kw (fn : pyval -> pyval -> body) w w' res,
    (forall sa skw T0 w0 w1 r, ok (w_old w0) -> RInv T0 w0 -> fn sa skw w0 = (w1, r) -> exists T1, RInv T1 w1 /\ msub T0 T1) ->
    ok (w_old w) -> RInv T w -> m_subbuild f a kw fn w = (w', res) ->
    exists T', RInv T' w' /\ msub T T'.
Proof.
  intros ok HS T f a kw fn w w' res Hfn Hok HR H. rewrite m_subbuild_unfold in H.
  destruct (sanitize a) as [sa|]; [|inversion H; subst; exists T; split; [exact HR|apply msub_refl]].
  destruct (sanitize kw) as [skw|]; [|inversion H; subst; exists T; split; [exact HR|apply msub_refl]].
  destruct (sb_setup f sa skw w) as [w1 r1] eqn:Es.
  destruct (HS T f sa skw w w1 r1 Hok HR Es) as (T1 & HR1 & M1 & Hold).
  destruct r1 as [[[o|[e o]]|]|e]; try (inversion H; subst; exists T1; split; assumption).
  unfold sb_rebuild in H.
  destruct (fn sa skw (sb_invoke_world f sa skw w1)) as [w3 [res3 subs3]] eqn:Ef.
  assert (HRi: RInv T1 (sb_invoke_world f sa skw w1)) by (eapply RInv_fields; [exact HR1|..]; reflexivity).
  assert (Hoki: ok (w_old (sb_invoke_world f sa skw w1))) by (cbn; rewrite Hold; exact Hok).
  destruct (Hfn sa skw T1 _ _ _ Hoki HRi Ef) as (T2 & HR3 & M2).
  exists T2. split; [|eapply msub_trans; eassumption].
  unfold sb_finish in H. cbv zeta in H.
  assert (Hfin: forall o w4 u, new_finish_subbuild (subbuild_key f sa skw) o w3 = (w4, u) -> RInv T2 w4).
  { intros o w4 u E. unfold new_finish_subbuild, modify in E. inversion E; subst. apply subs_change_RInv; [exact HR3|reflexivity]. }
  destruct res3 as [v|e].
  - destruct (sanitize v);
      match type of H with (match ?X with _ => _ end) = _ => destruct X as [w4 u] eqn:E4 end;
      inversion H; subst; eapply Hfin; exact E4.
  - match type of H with (match ?X with _ => _ end) = _ => destruct X as [w4 u] eqn:E4 end.
    inversion H; subst. eapply Hfin; exact E4.
Qed.

(* ------------------------------------------------------------------ every program *)
Section Run.
  Variable ok : cache -> Prop.
  Hypothesis HM : mkfail_statement.
  Hypothesis HH : hit_statement_for ok.
  Hypothesis HS : sbhit_statement_for ok.

  Lemma m_query_RInv : forall T q w w1 r o, RInv T w -> m_query q w = (w1, (r, o)) -> RInv T w1.
  Proof.
    intros T q w w1 r o HR H. unfold m_query in H. destruct (exec_query q None w) as [w2 x] eqn:E.
    pose proof (qrel_RInv T _ _ (exec_query_q _ _ _ _ _ E) HR) as HR2.
    destruct x as [v|[]]; inversion H; subst; exact HR2.
  Qed.

  Lemma log_answer_RInv : forall T q r w, RInv T w -> RInv T (log_answer q r w).
  Proof.
    intros T q r w HR. unfold log_answer. destruct r as [v|[]]; try exact HR; (eapply RInv_fields; [exact HR|..]; reflexivity).
  Qed.

  Theorem run_RInv : forall pr target subs T w w' res,
    ok (w_old w) -> RInv T w -> (forall p, target = Some p -> In p T) ->
    run pr target subs w = (w', res) ->
    exists T', RInv T' w' /\ msub T T'.
  Proof.
    induction pr as [v | e | stale q k IH | c k IH | stale p c f a kw fn IHfn k IHk | stale f a kw fn IHfn k IHk];
      intros target subs T w w' res Hok HR Htg H; cbn [run] in H.
    - inversion H; subst. exists T. split; [exact HR|apply msub_refl].
    - inversion H; subst. exists T. split; [exact HR|apply msub_refl].
    - destruct stale; [eapply IH; eauto|].
      destruct (m_query q w) as [w1 [r1 o]] eqn:E.
      pose proof (m_query_RInv _ _ _ _ _ _ HR E) as HR1. destruct (query_old _ _ _ _ E) as [O1 _].
      eapply IH; [|apply log_answer_RInv; exact HR1|exact Htg|exact H].
      assert (w_old (log_answer q (user_answer q r1 w1) w1) = w_old w1) by (unfold log_answer; destruct (user_answer q r1 w1) as [?|[]]; reflexivity).
      congruence.
    - destruct target as [p|]; [|eapply IH; eauto].
      destruct (write_file (w_fs w) p c None (N.succ (w_clock w)) (w_nextid w)) as [fs'|e] eqn:Ew.
      + eapply IH; [| |exact Htg|exact H]; [exact Hok|]. destruct HR as (HX & HP & HF).
        pose proof (write_target_XInv T w p _ _ _ _ _ HX (Htg p eq_refl) Ew) as HX'.
        split; [eapply XInv_fields; [exact HX'|..]; reflexivity|]. split; [exact HP|exact HF].
      + inversion H; subst. exists T. split; [exact HR|apply msub_refl].
    - destruct stale; [eapply IHk; eauto|].
      match type of H with (let '(_, _) := ?X in _) = _ => destruct X as [w1 [r1 o]] eqn:E end.
      destruct (build_file_old _ _ _ _ _ _ _ _ _ E) as [O1 _].
      destruct (m_build_file_RInv ok HM HH T p c f a kw (fun p' sa skw w' => run (fn p' sa skw) (Some p') [] w') w w1 (r1, o)) as (T1 & HR1 & M1); [|exact Hok|exact HR|exact E|].
      { intros sa skw T0 w0 w2 r Hok0 HR0 Hin Hf. eapply IHfn; [exact Hok0|exact HR0| |exact Hf]. intros p0 Hp0. inversion Hp0; subst. exact Hin. }
      destruct (IHk r1 target (app_op subs o) T1 w1 w' res) as (T2 & HR2 & M2); [congruence|exact HR1| |exact H|].
      { intros p0 Hp0. apply (msub_in _ _ _ M1). apply Htg. exact Hp0. }
      exists T2. split; [exact HR2|eapply msub_trans; eassumption].
    - destruct stale; [eapply IHk; eauto|].
      match type of H with (let '(_, _) := ?X in _) = _ => destruct X as [w1 [r1 o]] eqn:E end.
      destruct (subbuild_old _ _ _ _ _ _ _ E) as [O1 _].
      destruct (m_subbuild_RInv ok HS T f a kw (fun sa skw w' => run (fn sa skw) None [] w') w w1 (r1, o)) as (T1 & HR1 & M1); [|exact Hok|exact HR|exact E|].
      { intros sa skw T0 w0 w2 r Hok0 HR0 Hf. eapply IHfn; [exact Hok0|exact HR0| |exact Hf]. intros p0 Hp0. discriminate. }
      destruct (IHk r1 target (app_op subs o) T1 w1 w' res) as (T2 & HR2 & M2); [congruence|exact HR1| |exact H|].
      { intros p0 Hp0. apply (msub_in _ _ _ M1). apply Htg. exact Hp0. }
      exists T2. split; [exact HR2|eapply msub_trans; eassumption].
  Qed.
End Run.

Print Assumptions m_build_file_RInv.
Print Assumptions run_RInv.

(* ------------------------------------------------------------------ previous caches without records *)
(* no record of a file or of a subbuild can be looked up (first build, or a cache that holds
   only created directories) *)
Definition norec (old : cache) : Prop :=
  (forall p, cache_get_file old p = None) /\
  (forall k, match subs_get (c_subs old) k with Some (Some _) => False | _ => True end).

Lemma lookup_norec : forall p f sa skw w, norec (w_old w) -> build_file_cache_lookup p f sa skw w = (w, inl None).
Proof.
  intros p f sa skw w [H _]. unfold build_file_cache_lookup, bind, get. rewrite (H p). reflexivity.
Qed.

Lemma sublookup_norec : forall k f w, norec (w_old w) -> subbuild_cache_lookup k f w = (w, inl None).
Proof.
  intros k f w [_ H]. unfold subbuild_cache_lookup, bind, get. specialize (H k).
  destruct (subs_get (c_subs (w_old w)) k) as [[o|]|]; [destruct H|reflexivity|reflexivity].
Qed.

(* bf_claim leaves the previous cache alone *)
Lemma bf_claim_old : forall p w w' r, bf_claim p w = (w', r) -> w_old w' = w_old w.
Proof.
  intros p w w' r H.
  assert (Hbk: forall a u u' x, back_up_and_remove a u = (u', x) -> w_old u' = w_old u).
  { intros a u u' x Hb. unfold back_up_and_remove in Hb. apply bind_inv in Hb.
    destruct Hb as [[ua [t [E Hb]]]|[e [E _]]].
    - apply FrameLaws.effect_fields in E. destruct E as (O1 & _).
      destruct (existsb (Nat.eqb (w_effects ua)) (w_faults ua)); [inversion Hb; subst; exact O1|].
      destruct (rename_out (w_fs (set_effects (S (w_effects ua)) ua)) a) as [[fs' [g|]]|er]; [| |destruct er];
        inversion Hb; subst; cbn; exact O1.
    - apply FrameLaws.effect_fields in E. apply E. }
  assert (Hst: forall u u' x, new_start_building_file p u = (u', x) -> w_old u' = w_old u).
  { intros u u' x Hs. unfold new_start_building_file, new_assert_no_file, bind, get, modify in Hs.
    destruct (cache_has_file (w_new u) p); cbn in Hs; inversion Hs; subst; reflexivity. }
  assert (Hab: forall u u' x, new_abort_building_file p u = (u', x) -> w_old u' = w_old u).
  { intros u u' x Hs. unfold new_abort_building_file, modify in Hs. inversion Hs; subst; reflexivity. }
  unfold bf_claim in H. apply bind_inv in H. destruct H as [[wa [u [E1 H]]]|[e [E1 _]]]; [|eapply Hst; exact E1].
  pose proof (Hst _ _ _ E1) as O1.
  apply bind_inv in H.
  assert (Hc: forall wb x, catch (w0 <- get ;; (if isfile (w_fs w0) p then b <- back_up_and_remove p ;; ret tt else ret tt))
                                 (fun e => new_abort_building_file p ;;; raise e) wa = (wb, x) -> w_old wb = w_old wa).
  { intros wb x Hc. unfold catch in Hc.
    destruct ((w0 <- get ;; (if isfile (w_fs w0) p then b <- back_up_and_remove p ;; ret tt else ret tt)) wa) as [wc [t|e]] eqn:E3.
    - inversion Hc; subst. apply bind_inv in E3. unfold get in E3.
      destruct E3 as [[wd [w0 [E0 E3]]]|[e3 [E0 _]]]; [|discriminate]. inversion E0; subst wd w0.
      destruct (isfile (w_fs wa) p); [|inversion E3; reflexivity].
      apply bind_inv in E3. destruct E3 as [[wd [bb [E4 E5]]]|[e3 [_ E5]]]; [|discriminate].
      inversion E5; subst. eapply Hbk; exact E4.
    - assert (O3: w_old wc = w_old wa).
      { apply bind_inv in E3. unfold get in E3.
        destruct E3 as [[wd [w0 [E0 E3]]]|[e3 [E0 _]]]; [|discriminate]. inversion E0; subst wd w0.
        destruct (isfile (w_fs wa) p); [|discriminate].
        apply bind_inv in E3. destruct E3 as [[wd [bb [E4 E5]]]|[e3 [E4 _]]]; [discriminate|]. eapply Hbk; exact E4. }
      apply bind_inv in Hc. destruct Hc as [[wd [t [E4 E5]]]|[e3 [E4 _]]].
      + inversion E5; subst. rewrite (Hab _ _ _ E4). exact O3.
      + rewrite (Hab _ _ _ E4). exact O3. }
  destruct H as [[wb [u' [E2 H]]]|[e [E2 _]]].
  - inversion H; subst. rewrite (Hc _ _ E2). exact O1.
  - rewrite (Hc _ _ E2). exact O1.
Qed.

Theorem hit_norec : hit_statement_for norec.
Proof.
  intros T n d c f sa skw w w1 r Hok HR Hunc Hnd H. unfold bf_try in H.
  apply bind_inv in H. rewrite (lookup_norec _ _ _ _ _ Hok) in H.
  destruct H as [[wa [cached [E H]]]|[e [E _]]]; [|discriminate]. inversion E; subst wa cached.
  cbn [bf_reuse] in H. apply bind_inv in H. destruct H as [[wa [reused [E1 H]]]|[e [E1 _]]]; [|discriminate].
  inversion E1; subst wa reused.
  pose proof (bf_claim_old _ _ _ _ H) as Hold.
  destruct (bf_claim_RInv ((n :: d) :: T) (n :: d) w w1 r HR (or_introl eq_refl) H) as [(A & B & C)|(A & B & C)].
  - subst r. cbn [hit_post]. auto.
  - congruence.
Qed.

Theorem sbhit_norec : sbhit_statement_for norec.
Proof.
  intros T f sa skw w w1 r Hok HR H. unfold sb_setup in H. cbv zeta in H.
  apply bind_inv in H. destruct H as [[wa [u [E H]]]|[e [E _]]].
  2:{ unfold new_assert_no_subbuild, bind, get in E. destruct (cache_has_subbuild (w_new w) _); inversion E; subst.
      exists T. split; [exact HR|]. split; [apply msub_refl|reflexivity]. }
  assert (wa = w).
  { unfold new_assert_no_subbuild, bind, get in E. destruct (cache_has_subbuild (w_new w) _); inversion E; reflexivity. }
  subst wa. apply bind_inv in H. rewrite (sublookup_norec _ _ _ Hok) in H.
  destruct H as [[wa [cached [E1 H]]]|[e [E1 _]]]; [|discriminate]. inversion E1; subst wa cached.
  apply bind_inv in H.
  assert (Hst: forall wb x, new_start_subbuild (subbuild_key f sa skw) w = (wb, x) -> RInv T wb /\ w_old wb = w_old w).
  { intros wb x Hs. unfold new_start_subbuild, new_assert_no_subbuild, bind, get, modify in Hs.
    destruct (cache_has_subbuild (w_new w) _); cbn in Hs; inversion Hs; subst; [auto|].
    split; [apply subs_change_RInv; [exact HR|reflexivity]|reflexivity]. }
  destruct H as [[wb [u' [E2 H]]]|[e [E2 _]]].
  - inversion H; subst. destruct (Hst _ _ E2) as [A B]. exists T. split; [exact A|]. split; [apply msub_refl|exact B].
  - destruct (Hst _ _ E2) as [A B]. exists T. split; [exact A|]. split; [apply msub_refl|exact B].
Qed.

Print Assumptions hit_norec.
Print Assumptions sbhit_norec.
