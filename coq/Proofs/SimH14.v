(* Proofs/SimH14.v — building blocks for the claim-order equation of a build that REUSES records
   (steps (2) and part of (3) of what SimH12 lists as open):
   [register_op_tabs]   Cache.use_cached_operation appends the registered records of the tree in
                        claim order (SimH4.pre) when the keys are new and pairwise different
                        (mirror of CacheRTForest.register_parsed_tabs);
   [no_repeats_fresh]   Builder.assert_no_repeats says that no key of the tree is in the cache;
   [no_sf_shape]        a tree without setup-failed node has the shape SimH4.shape. *)
From Coq Require Import List String Ascii NArith ZArith Bool Arith Lia Permutation.
From FB.Base Require Import PyVal Fs.
From FB.Gen Require Import JsonUtilGen.
From FB.Spec Require Import JsonSpec.
From FB.Model Require Import Types Monad SimpleOps Builder PathNorm Persist PersistSpec.
From FB.Proofs Require Import FsLemmas JsonLaws PersistLaws ReplayLaws CacheRTDefs CacheRTForest SimH4 SimH6.
Import ListNotations.
Local Open Scope list_scope.

Lemma pw_app_head : forall {A} (E : A -> A -> bool) a x b, pw E (a ++ x :: b) = true ->
  forallb (fun q => negb (E q x)) a = true.
Proof.
  intros A E a x b H. rewrite pw_app in H. apply andb_true_iff in H. destruct H as [_ H].
  apply forallb_forall. intros q Hq. rewrite forallb_forall in H. specialize (H q Hq). cbn [forallb] in H.
  apply andb_true_iff in H. tauto.
Qed.

Lemma fold_register_op_tabs : forall subs,
  Forall (fun o => forall c, keys_ok c (pre o) -> tabs c (pre o) (register_op c o)) subs ->
  forall c, keys_ok c (flat_map pre subs) -> tabs c (flat_map pre subs) (fold_left register_op subs c).
Proof.
  intros subs HF. induction HF as [|s rest Hs HF IH]; intros c Hk; cbn [fold_left flat_map].
  - split; cbn; rewrite app_nil_r; reflexivity.
  - cbn [flat_map] in Hk.
    assert (K0 : keys_ok c (pre s)).
    { destruct Hk as [H1 H2]. rewrite fents_app, map_app, app_assoc in H1. rewrite sents_app, map_app, app_assoc in H2.
      rewrite pw_app in H1. rewrite pw_app in H2. split_andb H1. split_andb H2. split; assumption. }
    pose proof (Hs c K0) as T0.
    destruct (keys_ok_app c (pre s) (flat_map pre rest) _ Hk T0) as [_ K1].
    destruct (IH _ K1) as [A B]. destruct T0 as [T1 T2].
    split; [rewrite A, T1, fents_app, app_assoc; reflexivity | rewrite B, T2, sents_app, app_assoc; reflexivity].
Qed.

Theorem register_op_tabs : forall o c, keys_ok c (pre o) -> tabs c (pre o) (register_op c o).
Proof.
  induction o as [q r e | p c0 f a k subs r cr ra sf IH | f a k subs r ra sf IH] using op_ind';
    intros c Hk.
  - split; cbn; rewrite app_nil_r; reflexivity.
  - cbn [pre] in *. cbn [register_op].
    set (o := OBuildFile p c0 f a k subs r cr ra sf) in *.
    destruct sf.
    + cbn [app] in *. exact (fold_register_op_tabs subs IH c Hk).
    + cbn [app] in Hk.
      set (c1 := cache_with c (files_set (c_files c) p (Some o)) (c_subs c) (c_dirs c) (c_built c)).
      assert (T1 : tabs c [o] c1).
      { unfold tabs, c1. cbn [cache_with c_files c_subs]. change (fents [o]) with [(p, Some o)].
        change (sents [o]) with (@nil (pyval * option op)). rewrite app_nil_r. split; [|reflexivity].
        apply files_set_fresh. destruct Hk as [H1 _]. unfold fents in H1. cbn [flat_map fentry_of app map fst] in H1.
        exact (pw_app_head _ _ _ _ H1). }
      change (o :: flat_map pre subs) with ([o] ++ flat_map pre subs) in Hk.
      destruct (keys_ok_app c [o] (flat_map pre subs) c1 Hk T1) as [_ K1].
      destruct (fold_register_op_tabs subs IH c1 K1) as [A B]. destruct T1 as [T1a T1b].
      change (o :: flat_map pre subs) with ([o] ++ flat_map pre subs).
      split; [rewrite A, T1a, fents_app, app_assoc; reflexivity | rewrite B, T1b, sents_app, app_assoc; reflexivity].
  - cbn [pre] in *. cbn [register_op].
    set (o := OSubbuild f a k subs r ra sf) in *.
    destruct sf.
    + cbn [app] in *. exact (fold_register_op_tabs subs IH c Hk).
    + cbn [app] in Hk.
      set (c1 := cache_with c (c_files c) (subs_set (c_subs c) (subbuild_key f a k) (Some o)) (c_dirs c) (c_built c)).
      assert (T1 : tabs c [o] c1).
      { unfold tabs, c1. cbn [cache_with c_files c_subs]. change (sents [o]) with [(subbuild_key f a k, Some o)].
        change (fents [o]) with (@nil (path * option op)). rewrite app_nil_r. split; [reflexivity|].
        apply subs_set_fresh. destruct Hk as [_ H2]. unfold sents in H2. cbn [flat_map sentry_of app map fst] in H2.
        exact (pw_app_head _ _ _ _ H2). }
      change (o :: flat_map pre subs) with ([o] ++ flat_map pre subs) in Hk.
      destruct (keys_ok_app c [o] (flat_map pre subs) c1 Hk T1) as [_ K1].
      destruct (fold_register_op_tabs subs IH c1 K1) as [A B]. destruct T1 as [T1a T1b].
      change (o :: flat_map pre subs) with ([o] ++ flat_map pre subs).
      split; [rewrite A, T1a, fents_app, app_assoc; reflexivity | rewrite B, T1b, sents_app, app_assoc; reflexivity].
Qed.

Print Assumptions register_op_tabs.

(* ------------------------------------------------------------------ assert_no_repeats = fresh keys *)
Lemma fents_pre_flat : forall subs, fents (flat_map pre subs) = flat_map (fun s => fents (pre s)) subs.
Proof. induction subs as [|s subs IH]; [reflexivity|]. cbn [flat_map]. rewrite fents_app, IH. reflexivity. Qed.
Lemma sents_pre_flat : forall subs, sents (flat_map pre subs) = flat_map (fun s => sents (pre s)) subs.
Proof. induction subs as [|s subs IH]; [reflexivity|]. cbn [flat_map]. rewrite sents_app, IH. reflexivity. Qed.

Definition fresh_in (c : cache) (L : list op) : Prop :=
  (forall q, In q (map fst (fents L)) -> files_get (c_files c) q = None) /\
  (forall k, In k (map fst (sents L)) -> subs_get (c_subs c) k = None).

Lemma fresh_flat : forall c subs, Forall (fun s => assert_no_repeats c s = true -> fresh_in c (pre s)) subs ->
  forallb (assert_no_repeats c) subs = true -> fresh_in c (flat_map pre subs).
Proof.
  intros c subs HF. induction HF as [|s rest Hs HF IH]; intro H.
  - split; intros ? [].
  - cbn [forallb] in H. apply andb_true_iff in H. destruct H as [H1 H2].
    destruct (Hs H1) as [A1 A2]. destruct (IH H2) as [B1 B2]. cbn [flat_map].
    split; intros q Hq; [rewrite fents_app, map_app in Hq | rewrite sents_app, map_app in Hq];
      apply in_app_or in Hq; destruct Hq; auto.
Qed.

Theorem no_repeats_fresh : forall o c, assert_no_repeats c o = true -> fresh_in c (pre o).
Proof.
  induction o as [q r e | p c0 f a k subs r cr ra sf IH | f a k subs r ra sf IH] using op_ind'; intros c H.
  - split; intros ? [].
  - cbn [assert_no_repeats] in H. apply andb_true_iff in H. destruct H as [H1 H2].
    assert (IH' : Forall (fun s => assert_no_repeats c s = true -> fresh_in c (pre s)) subs).
    { apply Forall_forall. intros s Hs. rewrite Forall_forall in IH. exact (IH s Hs c). }
    destruct (fresh_flat c subs IH' H2) as [B1 B2]. cbn [pre].
    destruct sf; cbn [app]; [split; assumption|]. cbn [orb] in H1. apply negb_true_iff in H1.
    split.
    + intros q Hq. unfold fents in Hq. cbn [flat_map fentry_of app map fst] in Hq. destruct Hq as [<-|Hq]; [|exact (B1 q Hq)].
      unfold cache_has_file in H1. destruct (files_get (c_files c) p); [discriminate H1 | reflexivity].
    + intros q Hq. unfold sents in Hq. cbn [flat_map sentry_of app] in Hq. exact (B2 q Hq).
  - cbn [assert_no_repeats] in H. apply andb_true_iff in H. destruct H as [H1 H2].
    assert (IH' : Forall (fun s => assert_no_repeats c s = true -> fresh_in c (pre s)) subs).
    { apply Forall_forall. intros s Hs. rewrite Forall_forall in IH. exact (IH s Hs c). }
    destruct (fresh_flat c subs IH' H2) as [B1 B2]. cbn [pre].
    destruct sf; cbn [app]; [split; assumption|]. cbn [orb] in H1. apply negb_true_iff in H1.
    split.
    + intros q Hq. unfold fents in Hq. cbn [flat_map fentry_of app] in Hq. exact (B1 q Hq).
    + intros q Hq. unfold sents in Hq. cbn [flat_map sentry_of app map fst] in Hq. destruct Hq as [<-|Hq]; [|exact (B2 q Hq)].
      unfold cache_has_subbuild in H1. destruct (subs_get (c_subs c) (subbuild_key f a k)); [discriminate H1 | reflexivity].
Qed.

(* ------------------------------------------------------------------ no setup-failed node: shape *)
Theorem no_sf_shape : forall o, has_sf o = false -> shape o = true.
Proof.
  induction o as [q r e | p c0 f a k subs r cr ra sf IH | f a k subs r ra sf IH] using op_ind'; intro H; [reflexivity| |].
  - cbn [has_sf] in H. apply orb_false_iff in H. destruct H as [-> H]. cbn [shape andb].
    apply forallb_forall. intros s Hs. rewrite Forall_forall in IH. apply IH; [exact Hs|].
    destruct (has_sf s) eqn:E; [|reflexivity]. assert (existsb has_sf subs = true) by (apply existsb_exists; eauto). congruence.
  - cbn [has_sf] in H. apply orb_false_iff in H. destruct H as [-> H]. cbn [shape andb].
    apply forallb_forall. intros s Hs. rewrite Forall_forall in IH. apply IH; [exact Hs|].
    destruct (has_sf s) eqn:E; [|reflexivity]. assert (existsb has_sf subs = true) by (apply existsb_exists; eauto). congruence.
Qed.

Print Assumptions no_repeats_fresh.
Print Assumptions no_sf_shape.
