(* Proofs/SimC9.v — glue SimA/SimB, part 9: clocks and modification times on the mechanism model.
   No routine of the package changes the logical clock or creates / rewrites a regular file: only
   a write of user code does (Model/Run.v), with a modification time past the clock.  Relation
   [tq w w']: the clock did not run backwards, and every regular file of w' is a file of w (the
   same node) or is newer than the clock of w.  Same pattern as SimA3Cf.v / SimA1Vlog.v.     *)
From Coq Require Import List String Ascii NArith ZArith Bool Arith Lia.
From FB.Base Require Import PyVal Fs.
From FB.Gen Require Import JsonUtilGen.
From FB.Spec Require Import JsonSpec Prog.
From FB.Model Require Import Types Monad CreatedFiles BuildDirs SimpleOps Builder Build Run.
From FB.Proofs Require Import FsLemmas JsonLaws CmpLaws ReplayLaws BuildFileLaws HashMemoInv.
Import ListNotations.
Local Open Scope list_scope.
Local Open Scope m_scope.

Definition tq (w w' : world) : Prop :=
  (w_clock w <= w_clock w')%N /\
  forall x f, lookup (w_fs w') x = Some (NFile f) -> lookup (w_fs w) x = Some (NFile f) \/ (w_clock w < f_mtime f)%N.

Lemma tq_refl : forall w, tq w w.
Proof. intro w. split; [apply N.le_refl|]. intros x f H. left. exact H. Qed.
Lemma tq_trans : forall a b c, tq a b -> tq b c -> tq a c.
Proof.
  intros a b c [A1 A2] [B1 B2]. split; [eapply N.le_trans; eassumption|].
  intros x f H. destruct (B2 x f H) as [K|K]; [apply A2; exact K|right; eapply N.le_lt_trans; eassumption].
Qed.

Definition tqPO : PO := {| rel := tq; po_refl := tq_refl; po_trans := tq_trans |}.

Lemma tq_of_fsub : forall w w', w_clock w' = w_clock w -> fsub (w_fs w) (w_fs w') -> tq w w'.
Proof. intros w w' E H. split; [rewrite E; apply N.le_refl|]. intros x f K. left. apply H. exact K. Qed.

Lemma svb_tq : forall w w', svbPO w w' -> tqPO w w'.
Proof.
  cbn. unfold same_but_view. intros w w' H.
  destruct H as (A1 & A2 & A3 & A4 & A5 & A6 & A7 & A8 & A9 & A10 & A11).
  apply tq_of_fsub; [exact A2|]. rewrite A1. intros x f K. exact K.
Qed.

#[local] Hint Extern 8 (pres tqPO _) => apply (pres_weaken svbPO tqPO _ _ svb_tq) : pres.
#[local] Hint Resolve m_handle_dir_exists_svb m_is_removed_svb is_file_no_read_svb is_cache_file_svb
  file_metadata_svb file_hash_svb list_dir_superset_svb file_comparison_result_svb
  m_is_file_svb m_is_dir_svb m_exists_svb noneable_cmp_svb version_equal_svb
  is_build_file_cached_svb dirs_to_make_svb build_file_cache_lookup_svb subbuild_cache_lookup_svb
  m_bd_started_svb m_bd_error_svb new_assert_no_file_svb new_assert_no_subbuild_svb : pres.

Ltac tq_solve :=
  lazymatch goal with |- rel tqPO ?a ?b => change (tq a b) | _ => idtac end;
  first [ apply tq_refl
        | apply tq_of_fsub; [reflexivity|intros ?x ?f ?X; exact X] ].

Lemma effect_tq : forall what p f,
  (forall fs fs', f fs = inl fs' -> fsub fs fs') -> pres tqPO (effect what p f).
Proof.
  intros what p f Hf w w' r H. unfold effect in H. cbv zeta in H.
  destruct (existsb (Nat.eqb (w_effects w)) (w_faults w)).
  - inversion H; subst. tq_solve.
  - cbn [w_fs set_effects] in H. destruct (f (w_fs w)) as [fs'|e] eqn:E; inversion H; subst.
    + apply tq_of_fsub; [reflexivity|]. cbn [w_fs set_log set_fs]. eapply Hf; eauto.
    + tq_solve.
Qed.

Lemma effect_mkdir_tq : forall what p, pres tqPO (effect what p (fun fs => mkdir fs p)).
Proof. intros. apply effect_tq. intros fs fs' H. eapply mkdir_fsub; eauto. Qed.
Lemma effect_rmdir_tq : forall what p, pres tqPO (effect what p (fun fs => rmdir fs p)).
Proof. intros. apply effect_tq. intros fs fs' H. eapply rmdir_fsub; eauto. Qed.
Lemma effect_remove_tq : forall what p, pres tqPO (effect what p (fun fs => remove fs p)).
Proof. intros. apply effect_tq. intros fs fs' H. eapply remove_fsub; eauto. Qed.
Lemma effect_id_tq : forall what p, pres tqPO (effect what p (fun fs => inl fs)).
Proof. intros. apply effect_tq. intros fs fs' H. inversion H; subst. intros x f X; exact X. Qed.
#[local] Hint Resolve effect_mkdir_tq effect_rmdir_tq effect_remove_tq effect_id_tq : pres.

Lemma back_up_and_remove_tq : forall p, pres tqPO (back_up_and_remove p).
Proof.
  intro p. unfold back_up_and_remove. apply pres_bind; [auto with pres|]. intros _.
  intros w w' r H. cbv zeta in H.
  destruct (existsb (Nat.eqb (w_effects w)) (w_faults w)); [inversion H; subst; tq_solve|].
  cbn [w_fs set_effects] in H.
  destruct (rename_out (w_fs w) p) as [[fs' n]|e] eqn:E.
  - apply rename_out_fsub in E.
    destruct n; inversion H; subst; (apply tq_of_fsub; [reflexivity|exact E]).
  - destruct e; inversion H; subst; tq_solve.
Qed.
#[local] Hint Resolve back_up_and_remove_tq : pres.

Lemma try_to_remove_file_tq : forall p, pres tqPO (try_to_remove_file p).
Proof. intro p. unfold try_to_remove_file. pres_auto. Qed.

Lemma remove_empty_dirs_tq : forall ds, pres tqPO (remove_empty_dirs ds).
Proof. intro ds. unfold remove_empty_dirs. pres_auto. Qed.

Lemma make_one_dir_tq : forall d, pres tqPO (make_one_dir d).
Proof. intro d. unfold make_one_dir. pres_auto. Qed.
#[local] Hint Resolve try_to_remove_file_tq remove_empty_dirs_tq make_one_dir_tq : pres.

Lemma make_dirs_loop_tq : forall ds made, pres tqPO (make_dirs_loop ds made).
Proof.
  induction ds as [|d ds IH]; intro made; cbn [make_dirs_loop]; pres_auto.
Qed.
#[local] Hint Resolve make_dirs_loop_tq : pres.

Lemma make_dirs_tq : forall d, pres tqPO (make_dirs d).
Proof. intro d. unfold make_dirs. pres_auto. Qed.
#[local] Hint Resolve make_dirs_tq : pres.

Lemma make_room_tq : forall fuel d, pres tqPO (make_room fuel d).
Proof.
  induction fuel as [|fuel IH]; intro d; cbn [make_room]; pres_auto.
Qed.
#[local] Hint Resolve make_room_tq : pres.

Lemma prepare_file_creation_tq : forall p, pres tqPO (prepare_file_creation p).
Proof. intro p. unfold prepare_file_creation. pres_auto. Qed.
#[local] Hint Resolve prepare_file_creation_tq : pres.

Lemma apply_cached_subs_of_tq : forall o, pres tqPO (apply_cached_subs_of o).
Proof.
  induction o as [q r e | p c f a k subs r cr ra sf IH | f a k subs r ra sf IH] using op_ind';
    cbn [apply_cached_subs_of].
  - apply pres_ret.
  - induction IH as [|s rest Hs HF IHl]; cbn beta iota fix; [apply pres_ret|].
    apply pres_bind; [|intros _; exact IHl]. pres_auto.
  - induction IH as [|s rest Hs HF IHl]; cbn beta iota fix; [apply pres_ret|].
    apply pres_bind; [|intros _; exact IHl]. pres_auto.
Qed.
#[local] Hint Resolve apply_cached_subs_of_tq : pres.

(* updates of the new cache *)
Lemma modify_new_tq : forall f : world -> cache, pres tqPO (modify (fun w => set_new (f w) w)).
Proof. intro f. apply pres_modify. intro w. tq_solve. Qed.

Lemma new_start_building_file_tq : forall p, pres tqPO (new_start_building_file p).
Proof. intro p. unfold new_start_building_file. pres_auto. apply modify_new_tq. Qed.

Lemma new_abort_building_file_tq : forall p, pres tqPO (new_abort_building_file p).
Proof. intro p. unfold new_abort_building_file. apply modify_new_tq. Qed.

Lemma new_finish_building_file_tq : forall p o, pres tqPO (new_finish_building_file p o).
Proof. intros p o. unfold new_finish_building_file. apply modify_new_tq. Qed.

Lemma new_start_subbuild_tq : forall k, pres tqPO (new_start_subbuild k).
Proof. intro k. unfold new_start_subbuild. pres_auto. apply modify_new_tq. Qed.

Lemma new_finish_subbuild_tq : forall k o, pres tqPO (new_finish_subbuild k o).
Proof. intros k o. unfold new_finish_subbuild. apply modify_new_tq. Qed.

Lemma new_use_cached_operation_tq : forall o, pres tqPO (new_use_cached_operation o).
Proof.
  intros o w w' r H. unfold new_use_cached_operation in H. minv H.
  - unfold put in H. inversion H; subst. tq_solve.
  - tq_solve.
Qed.
#[local] Hint Resolve new_start_building_file_tq new_abort_building_file_tq
  new_finish_building_file_tq new_start_subbuild_tq new_finish_subbuild_tq
  new_use_cached_operation_tq : pres.

Lemma bf_reuse_tq : forall p c f sa skw cached, pres tqPO (bf_reuse p c f sa skw cached).
Proof. intros p c f sa skw cached. unfold bf_reuse. pres_auto. Qed.

Lemma bf_claim_tq : forall p, pres tqPO (bf_claim p).
Proof. intro p. unfold bf_claim. pres_auto. Qed.
#[local] Hint Resolve bf_reuse_tq bf_claim_tq : pres.

Lemma bf_setup_tq : forall p c f sa skw, pres tqPO (bf_setup p c f sa skw).
Proof. intros p c f sa skw. unfold bf_setup. pres_auto. Qed.

Lemma sb_setup_tq : forall f sa skw, pres tqPO (sb_setup f sa skw).
Proof. intros f sa skw. unfold sb_setup. cbv zeta. pres_auto. Qed.

Lemma bf_fail_tq : forall p c f sa skw subs e w w' r,
  bf_fail p c f sa skw subs e w = (w', r) -> tq w w'.
Proof.
  intros p c f sa skw subs e w w' r H. unfold bf_fail in H. cbv zeta in H.
  match type of H with (match ?X with _ => _ end) = _ => destruct X as [w1 [u|e1]] eqn:E end;
    inversion H; subst.
  all: refine ((_ : pres tqPO _) _ _ _ E); pres_auto.
Qed.

Lemma bf_finish_tq : forall p c f sa skw res subs, pres tqPO (bf_finish p c f sa skw res subs).
Proof.
  intros p c f sa skw res subs w w' r H. unfold bf_finish in H.
  assert (F : forall e w0, bf_fail p c f sa skw subs e w0 = (w', r) -> tq w0 w').
  { intros e w0 H0. eapply bf_fail_tq; eassumption. }
  destruct res as [v|e]; [|eapply F; eassumption].
  destruct (sanitize v) as [sv|]; [|eapply F; eassumption].
  destruct (noneable_cmp p c w) as [w4 [cmp|e]] eqn:E.
  - assert (Q : tq w w4) by (apply svb_tq; exact (noneable_cmp_svb p c w w4 _ E)).
    eapply tq_trans; [exact Q|].
    destruct cmp; try (eapply F; eassumption).
    all: cbv zeta in H; unfold new_finish_building_file, modify in H; inversion H; subst; tq_solve.
  - assert (Q : tq w w4) by (apply svb_tq; exact (noneable_cmp_svb p c w w4 _ E)).
    eapply tq_trans; [exact Q|]. eapply F; eassumption.
Qed.

Lemma sb_finish_tq : forall f sa skw res subs, pres tqPO (sb_finish f sa skw res subs).
Proof.
  intros f sa skw res subs w w' r H. unfold sb_finish in H. cbv zeta in H.
  unfold new_finish_subbuild, modify in H.
  destruct res as [v|e]; [destruct (sanitize v)|]; inversion H; subst; tq_solve.
Qed.


(* ------------------------------------------------------------------ nodes and programs *)
Lemma tq_set_log : forall l w, tq w (set_log l w).
Proof. intros l w. apply tq_of_fsub; [reflexivity|intros x f X; exact X]. Qed.

Lemma m_build_file_tq : forall p c f a kw (fn : path -> pyval -> pyval -> body),
  (forall sa skw, pres tqPO (fn p sa skw)) -> pres tqPO (m_build_file p c f a kw fn).
Proof.
  intros p c f a kw fn Hfn w w' r H. rewrite m_build_file_unfold in H.
  destruct (sanitize a) as [sa|]; [|inversion H; subst; apply tq_refl].
  destruct (sanitize kw) as [skw|]; [|inversion H; subst; apply tq_refl].
  destruct (bf_setup p c f sa skw w) as [w1 [[[o|[e o]]|]|e]] eqn:Es;
    pose proof (bf_setup_tq p c f sa skw w w1 _ Es) as Q1; try (inversion H; subst; exact Q1).
  unfold bf_rebuild in H. destruct (fn p sa skw (bf_invoke_world p f sa skw w1)) as [w3 [res subs]] eqn:Ef.
  pose proof (Hfn sa skw _ _ _ Ef) as Q2. pose proof (bf_finish_tq p c f sa skw res subs w3 w' r H) as Q3.
  eapply tq_trans; [exact Q1|]. eapply tq_trans; [apply (tq_set_log (LInvoke f (Some p) sa skw :: w_log w1) w1)|].
  eapply tq_trans; [exact Q2|exact Q3].
Qed.

Lemma m_subbuild_tq : forall f a kw (fn : pyval -> pyval -> body),
  (forall sa skw, pres tqPO (fn sa skw)) -> pres tqPO (m_subbuild f a kw fn).
Proof.
  intros f a kw fn Hfn w w' r H. rewrite m_subbuild_unfold in H.
  destruct (sanitize a) as [sa|]; [|inversion H; subst; apply tq_refl].
  destruct (sanitize kw) as [skw|]; [|inversion H; subst; apply tq_refl].
  destruct (sb_setup f sa skw w) as [w1 [[[o|[e o]]|]|e]] eqn:Es;
    pose proof (sb_setup_tq f sa skw w w1 _ Es) as Q1; try (inversion H; subst; exact Q1).
  unfold sb_rebuild in H. destruct (fn sa skw (sb_invoke_world f sa skw w1)) as [w3 [res subs]] eqn:Ef.
  pose proof (Hfn sa skw _ _ _ Ef) as Q2. pose proof (sb_finish_tq f sa skw res subs w3 w' r H) as Q3.
  eapply tq_trans; [exact Q1|]. eapply tq_trans; [apply (tq_set_log (LInvoke f None sa skw :: w_log w1) w1)|].
  eapply tq_trans; [exact Q2|exact Q3].
Qed.

Lemma tq_log_answer : forall q r w, tq w (log_answer q r w).
Proof.
  intros q r w. unfold log_answer.
  repeat match goal with |- context [match ?y with _ => _ end] => destruct y end;
    first [apply tq_refl | apply tq_set_log].
Qed.

Theorem run_tq : forall pr target subs, pres tqPO (run pr target subs).
Proof.
  induction pr as [v | e | stale q k IH | c k IH | stale p c f a kw fn IHfn k IHk | stale f a kw fn IHfn k IHk];
    intros target subs w w' r H; cbn [run] in H; change (tq w w').
  - inversion H; subst. apply tq_refl.
  - inversion H; subst. apply tq_refl.
  - destruct stale; [eapply IH; exact H|].
    destruct (m_query q w) as [w1 [r1 o]] eqn:E.
    pose proof (svb_tq _ _ (m_query_svb _ _ _ _ E)) as Q1. apply IH in H.
    eapply tq_trans; [exact Q1|]. eapply tq_trans; [apply tq_log_answer|exact H].
  - destruct target as [t|]; [|eapply IH; exact H].
    destruct (write_file (w_fs w) t c None (N.succ (w_clock w)) (w_nextid w)) as [fs'|e] eqn:E; [|inversion H; subst; apply tq_refl].
    apply IH in H. eapply tq_trans; [|exact H].
    split; [cbn [w_clock set_clock]; lia|]. intros x f Hx. cbn [w_fs set_clock set_fs w_clock] in *.
    destruct (write_file_frame _ _ _ _ _ _ _ E) as [[g [Hg [_ [Hm _]]]] Hoth].
    destruct (list_eq_dec string_dec x t) as [->|Hne].
    + right. rewrite Hg in Hx. inversion Hx; subst f. rewrite Hm. lia.
    + left. rewrite (Hoth x Hne) in Hx. exact Hx.
  - destruct stale; [eapply IHk; exact H|].
    match type of H with (let '(_, _) := ?X in _) = _ => destruct X as [w1 [r1 o]] eqn:E end.
    apply IHk in H. eapply tq_trans; [|exact H].
    refine (m_build_file_tq p c f a kw _ _ w w1 _ E). intros sa skw. apply IHfn.
  - destruct stale; [eapply IHk; exact H|].
    match type of H with (let '(_, _) := ?X in _) = _ => destruct X as [w1 [r1 o]] eqn:E end.
    apply IHk in H. eapply tq_trans; [|exact H].
    refine (m_subbuild_tq f a kw _ _ w w1 _ E). intros sa skw. apply IHfn.
Qed.

(* the pieces of the setup that the node lemmas look at separately *)
Lemma bf_pre_like_tq : forall p, pres tqPO (new_assert_no_file p ;;; icf <- is_cache_file p ;;
  (if icf then raise (XRuntime RCacheFileTarget) else ret tt) ;;; created <- prepare_file_creation p ;;
  locked <- m_bd_started p created ;; ret tt).
Proof. intro p. pres_auto. Qed.

Print Assumptions run_tq.
