(* Proofs/CoreRebuild5.v — replay completeness and exactness.
   (1) [transfer]: a successful replay of clean records against one base state succeeds against
       any other base that finds the same nodes on disk at the recorded outputs, from any scratch
       state with the same tree, and ends in the same tree.
   (2) [replay_complete]: the records a run of Core appends (all clean) replay successfully against
       a base that finds on disk the nodes the run left at the targets it claimed, from a scratch
       state that has the tree the run started in; the replay ends in the tree the run ended in. *)
From Coq Require Import List String Ascii NArith ZArith Bool Arith Lia Btauto.
From FB.Base Require Import PyVal Fs.
From FB.Gen Require Import JsonUtilGen.
From FB.Spec Require Import JsonSpec Prog Ref Oracle Faithful.
From FB.Model Require Import Types SimpleOps Builder Persist Core CoreOracle CoreCache.
From FB.Proofs Require Import FsLemmas JsonLaws PersistLaws CleanLaws CoreLawsChildren CoreLawsJson CoreLaws1 CoreLaws2 CoreLaws3 CoreLaws4 CoreLaws5
     CoreRebuildDefs CoreRebuild1 CoreRebuild2 CoreRebuild3 CoreRebuild4.
Import ListNotations.
Local Open Scope list_scope.

(* a scratch state of the rebuild against a (scratch) state of the first build *)
Record RR (r2 r1 : rstate') : Prop := mkRR {
  rr_fs : leq (rp_fs r2) (rp_fs r1);
  rr_need : rp_need r2 = rp_need r1;
  rr_made : rp_made r2 = rp_made r1;
  rr_cF : forall q, mem_path q (rp_claimedF r2) = true -> mem_path q (rp_claimedF r1) = true;
  rr_cS : forall k, existsb (py_eq k) (rp_claimedS r2) = true -> existsb (py_eq k) (rp_claimedS r1) = true
}.

Lemma setup_fs_inv : forall fs cf p fs1 dirs, setup_fs fs cf p = inl (fs1, dirs) ->
  isdir fs p = false /\ missing_dirs fs cf (dirname p) = inl dirs /\ mkdir_all fs dirs = inl fs1.
Proof.
  intros fs cf p fs1 dirs H. unfold setup_fs in H. destruct (isdir fs p); [discriminate|].
  destruct (missing_dirs fs cf (dirname p)) as [l|c]; [|discriminate].
  destruct (mkdir_all fs l) as [f1|e] eqn:Ek; [|discriminate]. inversion H; subst. auto.
Qed.

Lemma setup_fs_leq_inv : forall a b cf p fs1 dirs, leq a b -> setup_fs b cf p = inl (fs1, dirs) ->
  exists fs1', missing_dirs a cf (dirname p) = inl dirs /\ mkdir_all a dirs = inl fs1' /\ leq fs1' fs1.
Proof.
  intros a b cf p fs1 dirs L H. pose proof (leq_setup_fs a b cf p L) as R. rewrite H in R.
  destruct (setup_fs a cf p) as [[fs1' dirs']|e] eqn:E; simpl in R; [|contradiction]. destruct R as [L1 ->].
  destruct (setup_fs_inv _ _ _ _ _ E) as [_ [E1 E2]]. eauto.
Qed.

(* ------------------------------------------------------------------ *)
(* (1) from one base to another                                       *)
(* ------------------------------------------------------------------ *)
Section Transfer.
  Variables B1 B2 : kstate.
  Hypothesis Hcf : k_cachefile B2 = k_cachefile B1.
  Hypothesis Hv : forall f, kversion_equal B2 f = true.

  Theorem transfer : forall l r1 r1', RepL B1 l r1 r1' ->
    forall r2, RR r2 r1 ->
    (forall q, In q (flat_map tree_outputs l) -> phys (k_fs B2) (k_stale B2) q = phys (k_fs B1) (k_stale B1) q) ->
    exists r2', RepL B2 l r2 r2' /\ RR r2' r1'.
  Proof.
    intros l r1 r1' H. induction H; intros rb R PH.
    - exists rb. split; [constructor|exact R].
    - destruct (IHRepL rb R) as [r2' [H2 R2]]; [intros; apply PH; exact H1|].
      exists r2'. split; [|exact R2]. apply RL_simple; [|exact H2].
      unfold simple_ok in *. rewrite (leq_record_answer _ _ q (rr_fs _ _ R)). exact H.
    - destruct R as [Rf Rn Rm RcF RcS].
      assert (Hp2 : phys (k_fs B2) (k_stale B2) p = Some f).
      { rewrite PH; [exact H0|]. cbn [flat_map]. rewrite tree_outputs_BF. left. reflexivity. }
      assert (Hcl2 : mem_path p (rp_claimedF rb) = false).
      { destruct (mem_path p (rp_claimedF rb)) eqn:E; [|reflexivity]. rewrite (RcF p E) in H2. discriminate. }
      assert (Hmd : missing_dirs (rp_fs rb) (k_cachefile B2) (dirname p) = inl dirs).
      { rewrite Hcf, (leq_missing_dirs _ _ _ _ Rf). exact H4. }
      pose proof (leq_mkdir_all dirs _ _ Rf) as Rk. rewrite H5 in Rk.
      destruct (mkdir_all (rp_fs rb) dirs) as [fs1'|e] eqn:Ek; simpl in Rk; [|contradiction].
      destruct (IHRepL1 (rp_start rb p fs1' dirs)) as [r2s [Hs Rs]].
      { constructor; cbn; [apply leq_try_remove; exact Rk|congruence|congruence|exact RcF|exact RcS]. }
      { intros q Hq. apply PH. cbn [flat_map]. rewrite tree_outputs_BF. right. apply in_or_app. left. exact Hq. }
      destruct (IHRepL2 (rp_put r2s p f)) as [r2' [Hr Rr]].
      { destruct Rs as [Sf Sn Sm ScF ScS]. constructor; cbn; [apply leq_upd; exact Sf|exact Sn|exact Sm|exact ScF|exact ScS]. }
      { intros q Hq. apply PH. cbn [flat_map]. rewrite tree_outputs_BF. right. apply in_or_app. right. exact Hq. }
      exists r2'. split; [|exact Rr].
      eapply RL_bf; try eassumption; [apply Hv|rewrite Hcf; exact H3].
    - destruct (IHRepL1 rb R) as [r2s [Hs Rs]].
      { intros q Hq. apply PH. cbn [flat_map tree_outputs]. apply in_or_app. left. exact Hq. }
      destruct (IHRepL2 r2s Rs) as [r2' [Hr Rr]].
      { intros q Hq. apply PH. cbn [flat_map tree_outputs]. apply in_or_app. right. exact Hq. }
      exists r2'. split; [|exact Rr]. eapply RL_sb; try eassumption; [apply Hv|].
      destruct (existsb (py_eq (subbuild_key fname a k)) (rp_claimedS rb)) eqn:E; [|reflexivity].
      rewrite (rr_cS _ _ R _ E) in H0. discriminate.
  Qed.
End Transfer.

(* ------------------------------------------------------------------ *)
(* what is recorded for a query is JSON-equal to itself               *)
(* ------------------------------------------------------------------ *)
Lemma names_val_san : forall l, sanitized_t (names_val l) = true.
Proof.
  intro l. unfold names_val, sanitized_t. rewrite sanitized_gen_list. induction l as [|x l IH]; simpl; auto.
Qed.

Lemma walk_shape_san : forall e, walk_shape e -> sanitized_t e = true.
Proof.
  intros e [d [a [b ->]]]. pose proof (names_val_san a) as Ha. pose proof (names_val_san b) as Hb.
  unfold sanitized_t in *. rewrite sanitized_gen_tuple. cbn [forallb andb]. rewrite Ha, Hb. reflexivity.
Qed.

Lemma record_answer_san : forall fs q v, record_answer fs q = inl v -> sanitized_t v = true.
Proof.
  intros fs q v H. destruct q as [p|p|p|p|p td|p|p c]; cbn [record_answer spec_answer_raw] in H.
  - inversion H; reflexivity.
  - inversion H; reflexivity.
  - inversion H; reflexivity.
  - destruct (lookup fs p) as [[f|]|]; inversion H. apply names_val_san.
  - pose proof (ref_walk_shape 32 fs p td) as HF. remember (ref_walk 32 fs p td) as w eqn:Ew. clear Ew.
    assert (E : v = PList (if isdir fs p then w else [])) by congruence. subst v.
    unfold sanitized_t. rewrite sanitized_gen_list.
    destruct (isdir fs p); [|reflexivity]. apply forallb_forall. intros x Hx.
    rewrite Forall_forall in HF. apply walk_shape_san. apply HF. exact Hx.
  - destruct (lookup fs p) as [[f|]|]; inversion H; reflexivity.
  - destruct (lookup fs p) as [[f|]|]; inversion H. destruct c; reflexivity.
Qed.

Lemma record_simple_ok : forall r q, simple_ok r q
    (match record_answer (rp_fs r) q with inl v => v | inr _ => PNone end)
    (match record_answer (rp_fs r) q with inl _ => None | inr c => Some c end) = true.
Proof.
  intros r q. unfold simple_ok. destruct (record_answer (rp_fs r) q) as [v|c] eqn:E.
  - apply is_equal_refl. eapply record_answer_san; eauto.
  - destruct c; reflexivity.
Qed.

Lemma record_of_shape : forall q a, record_of q a =
  OSimple q (match a with inl v => v | inr _ => PNone end) (match a with inl _ => None | inr c => Some c end).
Proof. intros q [v|c]; reflexivity. Qed.

(* ------------------------------------------------------------------ *)
(* (2) the records of a run replay                                    *)
(* ------------------------------------------------------------------ *)
Section Complete.
  Variable t0 : fsT.
  Variable B : kstate.
  Hypothesis HvB : forall f, kversion_equal B f = true.

  (* the base finds on disk the nodes the run left at the targets it claimed *)
  Definition BOK (s s' : kstate) : Prop :=
    forall q g, mem_path q (k_claimedF s') = true -> mem_path q (k_claimedF s) = false ->
                file_at (k_fs s') q g -> phys (k_fs B) (k_stale B) q = Some g.

  Lemma cb_nofile : forall s p, CB t0 s -> mem_path p (k_claimedF s) = false -> isfile t0 p = false -> isfile (k_fs s) p = false.
  Proof.
    intros s p C Hc Ht. destruct (isfile (k_fs s) p) eqn:Ei; [|reflexivity]. unfold isfile in Ei, Ht.
    destruct (C p) as [H0|[_ [[H2 _]|[g' [_ H3]]]]].
    - rewrite H0 in Ei. rewrite Ei in Ht. discriminate.
    - rewrite H2 in Ei. discriminate.
    - congruence.
  Qed.

  Lemma BOK_sub : forall s s' a b,
    (forall q, mem_path q (k_claimedF s) = true -> mem_path q (k_claimedF a) = true) ->
    (forall q g, mem_path q (k_claimedF b) = true -> mem_path q (k_claimedF a) = false -> file_at (k_fs b) q g ->
                 mem_path q (k_claimedF s') = true /\ file_at (k_fs s') q g) ->
    BOK s s' -> BOK a b.
  Proof.
    intros s s' a b Hin Hst HB q g Hb Ha Hf. destruct (Hst q g Hb Ha Hf) as [H1 H2]. apply (HB q g H1); [|exact H2].
    destruct (mem_path q (k_claimedF s)) eqn:E; [|reflexivity]. rewrite (Hin q E) in Ha. discriminate.
  Qed.

  Lemma Stab_claims : forall a b, Stab a b -> forall q, mem_path q (k_claimedF a) = true -> mem_path q (k_claimedF b) = true.
  Proof. intros a b S q H. apply (S q H). Qed.

  Theorem replay_complete : forall pr tgt pend s s' out pend' new,
    Run pr tgt pend s s' out pend' new ->
    forallb op_clean new = true -> GoodEnd t0 s' -> CB t0 s -> k_cachefile B = k_cachefile s -> BOK s s' ->
    forall r2, RR r2 (start_replay s) -> exists r2', RepL B new r2 r2' /\ RR r2' (start_replay s').
  Proof.
    intros pr tgt pend s s' out pend' new H.
    induction H; intros Hcl HG HC Hcf HB r2 R.
    - exists r2. split; [constructor|exact R].
    - exists r2. split; [constructor|exact R].
    - apply IHRun; assumption.
    - (* Ask *)
      simpl in Hcl. apply andb_true_iff in Hcl. destruct Hcl as [_ Hcl].
      destruct (IHRun Hcl HG HC Hcf HB r2 R) as [r2' [H2 R2]]. exists r2'. split; [|exact R2].
      rewrite record_of_shape. apply RL_simple; [|exact H2].
      pose proof (leq_record_answer _ _ q (rr_fs _ _ R)) as Ea. cbn [start_replay rp_fs] in Ea. rewrite <- Ea. apply record_simple_ok.
    - apply IHRun; assumption.
    - apply IHRun; assumption.
    - exists r2. split; [constructor|exact R].
    - apply IHRun; assumption.
    - simpl in Hcl. discriminate.
    - (* served from the cache in the first build *)
      cbn [forallb] in Hcl. apply andb_true_iff in Hcl. destruct Hcl as [Hco Hcl].
      set (o := OBuildFile p c fname sa skw subs1 ret1 (cmp_of c f) false false) in *.
      set (s0 := core_s0 s p fs1 dirs) in *. set (sA := core_put (adopt s0 r o) p f) in *.
      destruct (bf_setup_ok _ _ _ _ H1) as [Hpc [Hpcf Hsf]]. destruct (setup_fs_frame _ _ _ _ _ Hsf) as [Hnd [Hne _]].
      destruct (core_hit_ok _ _ _ _ _ _ _ _ _ _ H2) as [Hk Hph].
      pose proof (run_kconst _ _ _ _ _ _ _ _ H3) as KA.
      pose proof (good_mono t0 _ _ KA HG) as GA.
      pose proof (P_hit_T t0 s p c fname sa skw fs1 dirs f subs1 ret1 r H1 H2 GA) as [SA [DA CA]]. fold o s0 sA in SA, DA, CA.
      pose proof (run_tree t0 _ _ _ _ _ _ _ _ H3 HG) as [SE [DE CE]].
      assert (Hcs : forallb op_clean subs1 = true) by (apply op_clean_BF in Hco; tauto).
      pose proof (kreplay_RepL _ _ Hcs _ _ Hk) as HR.
      assert (HregA : In (p, o) (k_newF sA)).
      { cbn [sA core_put adopt ks_with k_newF]. apply in_or_app. right. unfold o. rewrite tree_regs_BF. left. reflexivity. }
      assert (Hpt0 : isfile t0 p = false) by (destruct GA as [G1 _]; apply (G1 _ HregA)).
      destruct (setup_TRel t0 _ _ _ _ H1) as [S0 [D0 C0]]. fold s0 in S0, D0, C0.
      assert (Hnf0 : isfile (k_fs s0) p = false) by (apply cb_nofile; auto).
      (* the nodes of the outputs *)
      assert (HpA : mem_path p (k_claimedF sA) = true).
      { cbn [sA core_put adopt ks_with k_claimedF]. unfold o. rewrite tree_claims_BF. cbn. rewrite path_eqb_refl. reflexivity. }
      assert (HfA : file_at (k_fs sA) p f) by (unfold file_at; cbn [sA core_put ks_with k_fs]; apply lookup_upd_eq; exact Hne).
      assert (HphB : phys (k_fs B) (k_stale B) p = Some f).
      { apply (HB p f); [apply (SE p HpA)|exact Hpc|apply (SE p HpA); exact HfA]. }
      assert (PH : forall q, In q (flat_map tree_outputs subs1) ->
                   phys (k_fs B) (k_stale B) q = phys (k_fs s0) (k_stale s0) q).
      { intros q Hq. destruct (proj2 (RepL_placed _ _ _ _ HR) q Hq) as [g [Hg1 Hg2]]. rewrite Hg1.
        assert (HqA : mem_path q (k_claimedF sA) = true).
        { cbn [sA core_put adopt ks_with k_claimedF]. rewrite mem_path_app. apply orb_true_iff. left. apply mem_path_In.
          apply outputs_claims; [exact Hco|]. unfold o. rewrite tree_outputs_BF. right. exact Hq. }
        apply (HB q g); [apply (SE q HqA)| |apply (SE q HqA)].
        - exact (RepL_unclaimed _ _ _ _ HR q Hq).
        - unfold file_at. cbn [sA core_put ks_with k_fs]. destruct (path_eqb q p) eqn:E.
          + apply path_eqb_eq in E. subst q. rewrite lookup_upd_eq by exact Hne. congruence.
          + apply path_eqb_neq in E. rewrite lookup_upd_neq by exact E. exact Hg2. }
      destruct (setup_fs_leq_inv _ _ _ _ _ _ (rr_fs _ _ R) Hsf) as [fs1' [Emd [Emk L1]]].
      assert (Hnf1 : isfile fs1' p = false) by (rewrite (leq_isfile _ _ p L1); exact Hnf0).
      destruct (transfer s0 B Hcf HvB subs1 _ _ HR (rp_start r2 p fs1' dirs)) as [r2s [Hs Rs]].
      { destruct R as [Rf Rn Rm RcF RcS]. constructor.
        - change (leq (try_remove fs1' p) fs1). rewrite (try_remove_noop _ _ Hnf1). exact L1.
        - change (p :: rp_need r2 = p :: k_need s). f_equal. exact Rn.
        - change (rp_made r2 ++ dirs = k_made s ++ dirs). f_equal. exact Rm.
        - exact RcF.
        - exact RcS. }
      { exact PH. }
      destruct (RepL_claims _ _ _ _ Hs) as [Ec1 Ec2]. cbn in Ec1, Ec2.
      destruct (IHRun Hcl HG (CA HC)) with (r2 := rp_put r2s p f) as [r2' [Hr Rr]].
      { exact Hcf. }
      { eapply BOK_sub; [| |exact HB]; [apply (Stab_claims _ _ SA)|]. intros q g Hb _ Hf. split; [exact Hb|exact Hf]. }
      { destruct Rs as [Sf Sn Sm ScF ScS]. destruct R as [Rf Rn Rm RcF RcS]. constructor.
        - intro q. change (lookup (upd p (Some (NFile f)) (rp_fs r2s)) q = lookup (upd p (Some (NFile f)) (rp_fs r)) q).
          apply leq_upd. exact Sf.
        - exact Sn.
        - exact Sm.
        - intros q Hq. change (mem_path q (rp_claimedF r2s) = true) in Hq. rewrite Ec1 in Hq.
          apply (Stab_claims _ _ SA). exact (RcF q Hq).
        - intros k0 Hk0. change (existsb (py_eq k0) (rp_claimedS r2s) = true) in Hk0. rewrite Ec2 in Hk0.
          change (existsb (py_eq k0) (snd (tree_claims o) ++ k_claimedS s) = true). rewrite existsb_app.
          pose proof (RcS k0 Hk0) as Hx. change (existsb (py_eq k0) (k_claimedS s) = true) in Hx. rewrite Hx. apply orb_true_r. }
      exists r2'. split; [|exact Rr].
      eapply RL_bf; try eassumption.
      + apply HvB.
      + apply cmp_of_refl.
      + destruct (mem_path p (rp_claimedF r2)) eqn:E; [|reflexivity]. pose proof (rr_cF _ _ R p E) as Hx. change (mem_path p (k_claimedF s) = true) in Hx. congruence.
      + rewrite Hcf. exact Hpcf.
      + rewrite Hcf. exact Emd.
    - (* the function ran in the first build *)
      cbn [forallb] in Hcl. apply andb_true_iff in Hcl. destruct Hcl as [Hco Hcl].
      set (s0 := core_s0 s p fs1 dirs) in *.
      destruct (bf_setup_ok _ _ _ _ H1) as [Hpc [Hpcf Hsf]]. destruct (setup_fs_frame _ _ _ _ _ Hsf) as [Hnd [Hne _]].
      destruct (finish_kconst _ _ _ _ _ _ _ _ _ _ _ _ H4) as [K23 [EF [CF CS]]].
      pose proof (run_kconst _ _ _ _ _ _ _ _ H5) as K3. pose proof (run_kconst _ _ _ _ _ _ _ _ H3) as Kb.
      pose proof (good_mono t0 _ _ K3 HG) as G3. pose proof (good_mono t0 _ _ K23 G3) as G2.
      pose proof (run_tree t0 _ _ _ _ _ _ _ _ H3 G2) as Tb.
      pose proof (P_run_T t0 s p c fname sa skw fs1 dirs s2 res pend2 bsubs s3 out3 o H1 Tb Kb H4 G3) as [S3 [D3 C3]].
      pose proof (run_tree t0 _ _ _ _ _ _ _ _ H5 HG) as [SE [DE CE]].
      destruct Tb as [Sb [Db Cb]].
      destruct (core_finish_cases _ _ _ _ _ _ _ _ _ _ _ _ H4) as [(sv & bytes & fs3 & g & Ep & Hw & Hg & Eo & Es3 & Eout)|(e & Eo & _)];
        [|subst o; discriminate].
      destruct (write_file_ok _ _ _ _ _ _ _ Hw) as [_ [Hndw [_ Hoth]]].
      assert (Hcs : forallb op_clean bsubs = true) by (subst o; apply op_clean_BF in Hco; tauto).
      assert (Hreg3 : In (p, o) (k_newF s3)) by (rewrite EF; apply in_or_app; right; left; reflexivity).
      assert (Hpt0 : isfile t0 p = false) by (destruct G3 as [G1 _]; apply (G1 _ Hreg3)).
      destruct (setup_TRel t0 _ _ _ _ H1) as [S0 [D0 C0]]. fold s0 in S0, D0, C0.
      assert (Hnf0 : isfile (k_fs s0) p = false) by (apply cb_nofile; auto).
      assert (Cs : CB t0 (core_start s0 p fname sa skw)).
      { pose proof (C0 HC) as C0'. intro q. cbn [core_start klog ks_with k_fs k_made k_claimedF]. rewrite (try_remove_noop _ _ Hnf0).
        destruct (C0' q) as [H0'|[H1' [[H2' H3']|[g' [H2' H3']]]]]; [left; exact H0'|right; auto|right].
        split; [exact H1'|]. right. exists g'. split; [exact H2'|]. cbn. cbn in H3'. rewrite H3'. apply orb_true_r. }
      assert (Hp2 : mem_path p (k_claimedF s2) = true) by (apply (Sb p); cbn; rewrite path_eqb_refl; reflexivity).
      assert (Hp3 : mem_path p (k_claimedF s3) = true) by (rewrite CF; exact Hp2).
      assert (Hf3 : file_at (k_fs s3) p g) by (subst s3; exact Hg).
      assert (HphB : phys (k_fs B) (k_stale B) p = Some g).
      { apply (HB p g); [apply (SE p Hp3)|exact Hpc|apply (SE p Hp3); exact Hf3]. }
      destruct (setup_fs_leq_inv _ _ _ _ _ _ (rr_fs _ _ R) Hsf) as [fs1' [Emd [Emk L1]]].
      destruct (IHRun1 Hcs G2 Cs) with (r2 := rp_start r2 p fs1' dirs) as [r2s [Hs Rs]].
      { exact Hcf. }
      { eapply BOK_sub; [| |exact HB].
        - intros q Hq. cbn. rewrite Hq. apply orb_true_r.
        - intros q g' Hb Ha Hf. cbn in Ha. apply orb_false_iff in Ha. destruct Ha as [Ha1 Ha2].
          assert (Hqp : q <> p) by (intro; subst; rewrite path_eqb_refl in Ha1; discriminate).
          assert (Hq3 : mem_path q (k_claimedF s3) = true) by (rewrite CF; exact Hb).
          split; [apply (SE q Hq3)|]. apply (SE q Hq3). subst s3. unfold file_at. cbn [core_done ks_with k_fs].
          rewrite (Hoth q Hqp). exact Hf. }
      { destruct R as [Rf Rn Rm RcF RcS]. constructor.
        - change (leq (try_remove fs1' p) (try_remove fs1 p)). apply leq_try_remove. exact L1.
        - change (p :: rp_need r2 = p :: k_need s). f_equal. exact Rn.
        - change (rp_made r2 ++ dirs = k_made s ++ dirs). f_equal. exact Rm.
        - intros q Hq. change (mem_path q (p :: k_claimedF s) = true). cbn [mem_path].
          pose proof (RcF q Hq) as Hx. change (mem_path q (k_claimedF s) = true) in Hx. rewrite Hx. apply orb_true_r.
        - exact RcS. }
      destruct (RepL_claims _ _ _ _ Hs) as [Ec1 Ec2]. cbn in Ec1, Ec2.
      destruct (IHRun2 Hcl HG (C3 HC)) with (r2 := rp_put r2s p g) as [r2' [Hr Rr]].
      { destruct K23 as [K231 _]. destruct Kb as [Kb1 _]. rewrite K231, Kb1. exact Hcf. }
      { eapply BOK_sub; [| |exact HB]; [apply (Stab_claims _ _ S3)|]. intros q g' Hb _ Hf. split; [exact Hb|exact Hf]. }
      { destruct Rs as [Sf Sn Sm ScF ScS]. destruct R as [Rf Rn Rm RcF RcS]. subst s3. constructor.
        - intro q. change (lookup (upd p (Some (NFile g)) (rp_fs r2s)) q = lookup fs3 q). destruct (path_eqb q p) eqn:E.
          + apply path_eqb_eq in E. subst q. rewrite lookup_upd_eq by exact Hne. symmetry. exact Hg.
          + apply path_eqb_neq in E. rewrite lookup_upd_neq by exact E. rewrite (Hoth q E). apply Sf.
        - exact Sn.
        - exact Sm.
        - intros q Hq. change (mem_path q (rp_claimedF r2s) = true) in Hq. rewrite Ec1 in Hq.
          change (mem_path q (k_claimedF s2) = true). apply (Sb q). change (mem_path q (p :: k_claimedF s) = true). cbn [mem_path].
          pose proof (RcF q Hq) as Hx. change (mem_path q (k_claimedF s) = true) in Hx. rewrite Hx. apply orb_true_r.
        - intros k0 Hk0. change (existsb (py_eq k0) (rp_claimedS r2s) = true) in Hk0. rewrite Ec2 in Hk0.
          change (existsb (py_eq k0) (k_claimedS s2) = true).
          destruct (run_claims _ _ _ _ _ _ _ _ H3) as [_ Bk]. rewrite (Bk k0), existsb_app.
          change (k_claimedS (core_start s0 p fname sa skw)) with (k_claimedS s).
          pose proof (RcS k0 Hk0) as Hx. change (existsb (py_eq k0) (k_claimedS s) = true) in Hx. rewrite Hx. apply orb_true_r. }
      exists r2'. split; [|exact Rr]. subst o.
      eapply RL_bf; try eassumption.
      + apply HvB.
      + apply cmp_of_refl.
      + destruct (mem_path p (rp_claimedF r2)) eqn:E; [|reflexivity]. pose proof (rr_cF _ _ R p E) as Hx. change (mem_path p (k_claimedF s) = true) in Hx. congruence.
      + rewrite Hcf. exact Hpcf.
      + rewrite Hcf. exact Emd.
    - apply IHRun; assumption.
    - simpl in Hcl. discriminate.
    - (* subbuild served from the cache in the first build *)
      cbn [forallb] in Hcl. apply andb_true_iff in Hcl. destruct Hcl as [Hco Hcl].
      set (o := OSubbuild fname sa skw subs1 ret1 false false) in *. set (sA := adopt s r o) in *.
      pose proof (core_subhit_ok _ _ _ _ _ _ H2) as Hk.
      pose proof (run_kconst _ _ _ _ _ _ _ _ H3) as KA.
      pose proof (good_mono t0 _ _ KA HG) as GA.
      pose proof (P_subhit_T t0 s fname sa skw subs1 ret1 r H1 H2 GA) as [SA [DA CA]]. fold o sA in SA, DA, CA.
      pose proof (run_tree t0 _ _ _ _ _ _ _ _ H3 HG) as [SE [DE CE]].
      assert (Hcs : forallb op_clean subs1 = true) by (apply op_clean_SB in Hco; tauto).
      pose proof (kreplay_RepL _ _ Hcs _ _ Hk) as HR.
      assert (PH : forall q, In q (flat_map tree_outputs subs1) ->
                   phys (k_fs B) (k_stale B) q = phys (k_fs s) (k_stale s) q).
      { intros q Hq. destruct (proj2 (RepL_placed _ _ _ _ HR) q Hq) as [g [Hg1 Hg2]]. rewrite Hg1.
        assert (HqA : mem_path q (k_claimedF sA) = true).
        { cbn [sA adopt ks_with k_claimedF]. rewrite mem_path_app. apply orb_true_iff. left. apply mem_path_In.
          apply outputs_claims; [exact Hco|]. exact Hq. }
        apply (HB q g); [apply (SE q HqA)| |apply (SE q HqA)].
        - exact (RepL_unclaimed _ _ _ _ HR q Hq).
        - exact Hg2. }
      destruct (transfer s B Hcf HvB subs1 _ _ HR r2 R PH) as [r2s [Hs Rs]].
      destruct (RepL_claims _ _ _ _ Hs) as [Ec1 Ec2].
      destruct (IHRun Hcl HG (CA HC)) with (r2 := r2s) as [r2' [Hr Rr]].
      { exact Hcf. }
      { eapply BOK_sub; [| |exact HB]; [apply (Stab_claims _ _ SA)|]. intros q g Hb _ Hf. split; [exact Hb|exact Hf]. }
      { destruct Rs as [Sf Sn Sm ScF ScS]. destruct R as [Rf Rn Rm RcF RcS]. constructor.
        - exact Sf.
        - exact Sn.
        - exact Sm.
        - intros q Hq. rewrite Ec1 in Hq. apply (Stab_claims _ _ SA). exact (RcF q Hq).
        - intros k0 Hk0. rewrite Ec2 in Hk0.
          change (existsb (py_eq k0) (snd (tree_claims o) ++ k_claimedS s) = true). rewrite existsb_app.
          pose proof (RcS k0 Hk0) as Hx. change (existsb (py_eq k0) (k_claimedS s) = true) in Hx. rewrite Hx. apply orb_true_r. }
      exists r2'. split; [|exact Rr].
      eapply RL_sb; try eassumption; [apply HvB|].
      destruct (existsb (py_eq (subbuild_key fname sa skw)) (rp_claimedS r2)) eqn:E; [|reflexivity].
      pose proof (rr_cS _ _ R _ E) as Hx. change (existsb (py_eq (subbuild_key fname sa skw)) (k_claimedS s) = true) in Hx. congruence.
    - (* the subbuild function ran in the first build *)
      cbn [forallb] in Hcl. apply andb_true_iff in Hcl. destruct Hcl as [Hco Hcl].
      pose proof (run_kconst _ _ _ _ _ _ _ _ H4) as K3. pose proof (run_kconst _ _ _ _ _ _ _ _ H3) as Kb.
      pose proof (good_mono t0 _ _ K3 HG) as G3.
      assert (G2 : GoodEnd t0 s2).
      { eapply good_mono; [|exact G3]. apply (kconst_intro _ _ [] [(subbuild_key fname sa skw, sub_rec fname sa skw bsubs res)] []); try reflexivity.
        cbn. rewrite app_nil_r. reflexivity. }
      pose proof (run_tree t0 _ _ _ _ _ _ _ _ H3 G2) as [Sb [Db Cb]].
      pose proof (run_tree t0 _ _ _ _ _ _ _ _ H4 HG) as [SE [DE CE]].
      assert (Eo : exists sv, sub_rec fname sa skw bsubs res = OSubbuild fname sa skw bsubs sv false false /\ forallb op_clean bsubs = true).
      { unfold sub_rec in *. destruct res as [v|e]; [destruct (sanitize v) as [sv|]|]; try discriminate.
        exists sv. split; [reflexivity|]. apply op_clean_SB in Hco. tauto. }
      destruct Eo as [sv [Eo Hcs]].
      destruct (IHRun1 Hcs G2) with (r2 := r2) as [r2s [Hs Rs]].
      { exact HC. }
      { exact Hcf. }
      { eapply BOK_sub; [| |exact HB].
        - intros q Hq. exact Hq.
        - intros q g' Hb Ha Hf. split; [apply (SE q Hb)|apply (SE q Hb); exact Hf]. }
      { destruct R as [Rf Rn Rm RcF RcS]. constructor; [exact Rf|exact Rn|exact Rm|exact RcF|].
        intros k0 Hk0. change (existsb (py_eq k0) (subbuild_key fname sa skw :: k_claimedS s) = true). cbn [existsb].
        pose proof (RcS k0 Hk0) as Hx. change (existsb (py_eq k0) (k_claimedS s) = true) in Hx. rewrite Hx. apply orb_true_r. }
      destruct (IHRun2 Hcl HG) with (r2 := r2s) as [r2' [Hr Rr]].
      { apply (Cb HC). }
      { destruct Kb as [Kb1 _]. change (k_cachefile B = k_cachefile s2). rewrite Kb1. exact Hcf. }
      { eapply BOK_sub; [| |exact HB]; [intros q Hq; apply (Sb q); exact Hq|]. intros q g Hb _ Hf. split; [exact Hb|exact Hf]. }
      { exact Rs. }
      exists r2'. split; [|exact Rr]. rewrite Eo.
      eapply RL_sb; try eassumption; [apply HvB|].
      destruct (existsb (py_eq (subbuild_key fname sa skw)) (rp_claimedS r2)) eqn:E; [|reflexivity].
      pose proof (rr_cS _ _ R _ E) as Hx. change (existsb (py_eq (subbuild_key fname sa skw)) (k_claimedS s) = true) in Hx. congruence.
  Qed.
End Complete.
