(* Proofs/SimA1Vlog.v — (D4) of SimA1.v: the routines of the package itself add only LEffect
   entries to the log, so the visible log (ViewK3.vis_log) is unchanged by them.
   The analogue of the [quiet] footprint of BuildFileLaws.v with the relation [vq]. *)
From Coq Require Import List String Ascii NArith ZArith Bool Arith Lia.
From FB.Base Require Import PyVal Fs.
From FB.Gen Require Import JsonUtilGen.
From FB.Spec Require Import JsonSpec Prog.
From FB.Model Require Import Types Monad CreatedFiles BuildDirs SimpleOps Builder.
From FB.Proofs Require Import FsLemmas JsonLaws CmpLaws ReplayLaws BuildFileLaws ViewK3 SimA0 SimA1.
Import ListNotations.
Local Open Scope list_scope.
Local Open Scope m_scope.

Lemma vq_refl : forall w, vq w w.
Proof. intro w. reflexivity. Qed.
Lemma vq_trans : forall a b c, vq a b -> vq b c -> vq a c.
Proof. unfold vq. intros a b c A B. congruence. Qed.

Definition vqPO : PO := {| rel := vq; po_refl := vq_refl; po_trans := vq_trans |}.

Lemma svb_vq : forall w w', svbPO w w' -> vqPO w w'.
Proof.
  cbn. unfold same_but_view, vq. intros w w' H.
  destruct H as (A1 & A2 & A3 & A4 & A5 & A6 & A7 & A8 & A9 & A10 & A11). rewrite A9. reflexivity.
Qed.

#[local] Hint Extern 8 (pres vqPO _) => apply (pres_weaken svbPO vqPO _ _ svb_vq) : pres.
#[local] Hint Resolve m_handle_dir_exists_svb m_is_removed_svb is_file_no_read_svb is_cache_file_svb
  file_metadata_svb file_hash_svb list_dir_superset_svb file_comparison_result_svb
  m_is_file_svb m_is_dir_svb m_exists_svb noneable_cmp_svb version_equal_svb
  is_build_file_cached_svb dirs_to_make_svb build_file_cache_lookup_svb subbuild_cache_lookup_svb
  m_bd_started_svb m_bd_error_svb new_assert_no_file_svb new_assert_no_subbuild_svb : pres.

Ltac vq_solve :=
  lazymatch goal with |- rel vqPO ?a ?b => change (vq a b) | _ => idtac end;
  first [ apply vq_refl
        | unfold vq; cbn; reflexivity ].

Ltac raw_vq f :=
  intros w w' r H; unfold f in H; cbv zeta in H; repeat dm H; inversion H; subst; vq_solve.

Lemma effect_vq : forall what p f, pres vqPO (effect what p f).
Proof. intros what p f. raw_vq effect. Qed.

Lemma effect_p_vq : forall what p f, pres vqPO (effect_p what p f).
Proof. intros what p f. raw_vq effect_p. Qed.
#[local] Hint Resolve effect_vq effect_p_vq : pres.

Lemma back_up_and_remove_vq : forall p, pres vqPO (back_up_and_remove p).
Proof.
  intro p. unfold back_up_and_remove. apply pres_bind; [auto with pres|]. intros _.
  intros w w' r H. cbv zeta in H. repeat dm H; inversion H; subst; vq_solve.
Qed.
#[local] Hint Resolve back_up_and_remove_vq : pres.

Lemma try_to_remove_file_vq : forall p, pres vqPO (try_to_remove_file p).
Proof. intro p. unfold try_to_remove_file. pres_auto. Qed.

Lemma remove_empty_dirs_vq : forall ds, pres vqPO (remove_empty_dirs ds).
Proof. intro ds. unfold remove_empty_dirs. pres_auto. Qed.

Lemma make_one_dir_vq : forall d, pres vqPO (make_one_dir d).
Proof. intro d. unfold make_one_dir. pres_auto. Qed.
#[local] Hint Resolve try_to_remove_file_vq remove_empty_dirs_vq make_one_dir_vq : pres.

Lemma make_dirs_loop_vq : forall ds made, pres vqPO (make_dirs_loop ds made).
Proof.
  induction ds as [|d ds IH]; intro made; cbn [make_dirs_loop]; pres_auto.
Qed.
#[local] Hint Resolve make_dirs_loop_vq : pres.

Lemma make_dirs_vq : forall d, pres vqPO (make_dirs d).
Proof. intro d. unfold make_dirs. pres_auto. Qed.
#[local] Hint Resolve make_dirs_vq : pres.

Lemma make_room_vq : forall fuel d, pres vqPO (make_room fuel d).
Proof.
  induction fuel as [|fuel IH]; intro d; cbn [make_room]; pres_auto.
Qed.
#[local] Hint Resolve make_room_vq : pres.

Lemma prepare_file_creation_vq : forall p, pres vqPO (prepare_file_creation p).
Proof. intro p. unfold prepare_file_creation. pres_auto. Qed.
#[local] Hint Resolve prepare_file_creation_vq : pres.

Lemma apply_cached_subs_of_vq : forall o, pres vqPO (apply_cached_subs_of o).
Proof.
  induction o as [q r e | p c f a k subs r cr ra sf IH | f a k subs r ra sf IH] using op_ind';
    cbn [apply_cached_subs_of].
  - apply pres_ret.
  - induction IH as [|s rest Hs HF IHl]; cbn beta iota fix; [apply pres_ret|].
    apply pres_bind; [|intros _; exact IHl]. pres_auto.
  - induction IH as [|s rest Hs HF IHl]; cbn beta iota fix; [apply pres_ret|].
    apply pres_bind; [|intros _; exact IHl]. pres_auto.
Qed.
#[local] Hint Resolve apply_cached_subs_of_vq : pres.

(* updates of the new cache *)
Lemma modify_new_vq : forall f : world -> cache, pres vqPO (modify (fun w => set_new (f w) w)).
Proof. intro f. apply pres_modify. intro w. vq_solve. Qed.

Lemma new_start_building_file_vq : forall p, pres vqPO (new_start_building_file p).
Proof. intro p. unfold new_start_building_file. pres_auto. apply modify_new_vq. Qed.

Lemma new_abort_building_file_vq : forall p, pres vqPO (new_abort_building_file p).
Proof. intro p. unfold new_abort_building_file. apply modify_new_vq. Qed.

Lemma new_finish_building_file_vq : forall p o, pres vqPO (new_finish_building_file p o).
Proof. intros p o. unfold new_finish_building_file. apply modify_new_vq. Qed.

Lemma new_start_subbuild_vq : forall k, pres vqPO (new_start_subbuild k).
Proof. intro k. unfold new_start_subbuild. pres_auto. apply modify_new_vq. Qed.

Lemma new_finish_subbuild_vq : forall k o, pres vqPO (new_finish_subbuild k o).
Proof. intros k o. unfold new_finish_subbuild. apply modify_new_vq. Qed.

Lemma new_use_cached_operation_vq : forall o, pres vqPO (new_use_cached_operation o).
Proof.
  intros o w w' r H. unfold new_use_cached_operation in H. minv H.
  - unfold put in H. inversion H; subst. vq_solve.
  - vq_solve.
Qed.
#[local] Hint Resolve new_start_building_file_vq new_abort_building_file_vq
  new_finish_building_file_vq new_start_subbuild_vq new_finish_subbuild_vq
  new_use_cached_operation_vq : pres.

Lemma bf_reuse_vq : forall p c f sa skw cached, pres vqPO (bf_reuse p c f sa skw cached).
Proof. intros p c f sa skw cached. unfold bf_reuse. pres_auto. Qed.

Lemma bf_claim_vq : forall p, pres vqPO (bf_claim p).
Proof. intro p. unfold bf_claim. pres_auto. Qed.
#[local] Hint Resolve bf_reuse_vq bf_claim_vq : pres.

Lemma bf_setup_vq : forall p c f sa skw, pres vqPO (bf_setup p c f sa skw).
Proof. intros p c f sa skw. unfold bf_setup. pres_auto. Qed.

Lemma sb_setup_vq : forall f sa skw, pres vqPO (sb_setup f sa skw).
Proof. intros f sa skw. unfold sb_setup. cbv zeta. pres_auto. Qed.

Lemma bf_fail_vq : forall p c f sa skw subs e w w' r,
  bf_fail p c f sa skw subs e w = (w', r) -> vq w w'.
Proof.
  intros p c f sa skw subs e w w' r H. unfold bf_fail in H. cbv zeta in H.
  match type of H with (match ?X with _ => _ end) = _ => destruct X as [w1 [u|e1]] eqn:E end;
    inversion H; subst.
  all: refine ((_ : pres vqPO _) _ _ _ E); pres_auto.
Qed.

Lemma bf_finish_vq : forall p c f sa skw res subs, pres vqPO (bf_finish p c f sa skw res subs).
Proof.
  intros p c f sa skw res subs w w' r H. unfold bf_finish in H.
  assert (F : forall e w0, bf_fail p c f sa skw subs e w0 = (w', r) -> vq w0 w').
  { intros e w0 H0. eapply bf_fail_vq; eassumption. }
  destruct res as [v|e]; [|eapply F; eassumption].
  destruct (sanitize v) as [sv|]; [|eapply F; eassumption].
  destruct (noneable_cmp p c w) as [w4 [cmp|e]] eqn:E.
  - assert (Q : vq w w4) by (apply svb_vq; exact (noneable_cmp_svb p c w w4 _ E)).
    eapply vq_trans; [exact Q|].
    destruct cmp; try (eapply F; eassumption).
    all: cbv zeta in H; unfold new_finish_building_file, modify in H; inversion H; subst; vq_solve.
  - assert (Q : vq w w4) by (apply svb_vq; exact (noneable_cmp_svb p c w w4 _ E)).
    eapply vq_trans; [exact Q|]. eapply F; eassumption.
Qed.

Lemma sb_finish_vq : forall f sa skw res subs, pres vqPO (sb_finish f sa skw res subs).
Proof.
  intros f sa skw res subs w w' r H. unfold sb_finish in H. cbv zeta in H.
  unfold new_finish_subbuild, modify in H.
  destruct res as [v|e]; [destruct (sanitize v)|]; inversion H; subst; vq_solve.
Qed.

Theorem vlog : vlog_statement.
Proof.
  unfold vlog_statement. repeat split; intros.
  - eapply (prepare_file_creation_vq p); eassumption.
  - eapply (bf_claim_vq p); eassumption.
  - eapply (try_to_remove_file_vq p); eassumption.
  - eapply (bf_setup_vq p c f sa skw); eassumption.
  - eapply (bf_finish_vq p c f sa skw res subs); eassumption.
  - eapply (sb_setup_vq f sa skw); eassumption.
  - eapply (sb_finish_vq f sa skw res subs); eassumption.
Qed.

Print Assumptions vlog.
