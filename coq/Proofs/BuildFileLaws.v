(* Proofs/BuildFileLaws.v — the contract of build_file (C10) and "a cache hit does
   not call the function" (C05), about the model routines [m_build_file] and
   [m_subbuild] of Model/Builder.v. *)
From Coq Require Import List String Ascii NArith ZArith Bool Arith Lia.
From FB.Base Require Import PyVal Fs.
From FB.Gen Require Import JsonUtilGen.
From FB.Spec Require Import JsonSpec Prog.
From FB.Model Require Import Types Monad CreatedFiles BuildDirs SimpleOps Builder.
From FB.Proofs Require Import FsLemmas JsonLaws CmpLaws ReplayLaws.
Import ListNotations.
Local Open Scope list_scope.
Local Open Scope m_scope.

(* ================================================================== *)
(* Definitions                                                        *)
(* ================================================================== *)

(* number of user-function invocations recorded in the log *)
Fixpoint invocations (l : list logentry) : nat :=
  match l with
  | [] => 0
  | LInvoke _ _ _ _ :: r => S (invocations r)
  | _ :: r => invocations r
  end.

(* a body that behaves like user code: it may log and change the tree, but never
   removes log entries *)
Definition body_log_mono (b : body) : Prop :=
  forall w w' r, b w = (w', r) -> invocations (w_log w) <= invocations (w_log w').

(* ================================================================== *)
(* The stages of m_build_file, named                                  *)
(* ================================================================== *)

(* the part of the setup that tries to reuse the record found by the lookup *)
Definition bf_reuse (p : path) (c : cmpmode) (fname : string) (sargs skw : pyval) (cached : option op)
  : M (option (op + exn * op)) :=
  match cached with
  | None => ret None
  | Some co =>
      cmp <- noneable_cmp p c ;;
      match cmp with
      | PNone => ret None
      | _ =>
          apply_cached_subs_of co ;;;
          let o := OBuildFile p c fname sargs skw (op_subs co) (op_ret co) cmp false false in
          r <- attempt (new_use_cached_operation o) ;;
          match r with
          | inl _ => ret (Some (inl o))
          | inr e => ret (Some (inr (e, OBuildFile p c fname sargs skw (op_subs co) (op_ret co) cmp true true)))
          end
      end
  end.

(* claim the target, then move whatever is there out of the way *)
Definition bf_claim (p : path) : M (option (op + exn * op)) :=
  new_start_building_file p ;;;
  catch (w <- get ;;
         if isfile (w_fs w) p then b <- back_up_and_remove p ;; ret tt else ret tt)
        (fun e => new_abort_building_file p ;;; raise e) ;;;
  ret None.

(* everything before the user function is called *)
Definition bf_setup (p : path) (c : cmpmode) (fname : string) (sargs skw : pyval)
  : M (option (op + exn * op)) :=
  new_assert_no_file p ;;;
  icf <- is_cache_file p ;;
  (if icf then raise (XRuntime RCacheFileTarget) else ret tt) ;;;
  created <- prepare_file_creation p ;;
  locked <- m_bd_started p created ;;
  catch
    (cached <- build_file_cache_lookup p fname sargs skw ;;
     reused <- bf_reuse p c fname sargs skw cached ;;
     match reused with
     | Some (inl o) => ret (Some (inl o))
     | Some (inr eo) => m_bd_error p ;;; ret (Some (inr eo))
     | None => bf_claim p
     end)
    (fun e => m_bd_error p ;;; raise e).

(* _handle_error_building_file *)
Definition bf_fail (p : path) (c : cmpmode) (fname : string) (sargs skw : pyval) (subs : list op)
           (e : exn) (w : world) : world * (outcome * option op) :=
  let o := OBuildFile p c fname sargs skw subs PNone PNone true false in
  match (try_to_remove_file p ;;; m_bd_error p ;;; new_finish_building_file p o) w with
  | (w', inl _) => (w', (inr e, Some o))
  | (w', inr e') => (w', (inr e', Some (OBuildFile p c fname sargs skw subs PNone PNone true false)))
  end.

(* what happens after the user function returned [res] and recorded [subs] *)
Definition bf_finish (p : path) (c : cmpmode) (fname : string) (sargs skw : pyval)
           (res : outcome) (subs : list op) (w3 : world) : world * (outcome * option op) :=
  match res with
  | inr e => bf_fail p c fname sargs skw subs e w3
  | inl v =>
      match sanitize v with
      | None => bf_fail p c fname sargs skw subs XType w3
      | Some sv =>
          match noneable_cmp p c w3 with
          | (w4, inr e) => bf_fail p c fname sargs skw subs e w4
          | (w4, inl PNone) => bf_fail p c fname sargs skw subs (XRuntime RNotCreated) w4
          | (w4, inl cmp) =>
              let o := OBuildFile p c fname sargs skw subs sv cmp false false in
              match new_finish_building_file p o w4 with
              | (w5, _) => (w5, (inl sv, Some o))
              end
          end
      end
  end.

(* the world in which the user function is started *)
Definition bf_invoke_world (p : path) (fname : string) (sargs skw : pyval) (w1 : world) : world :=
  set_log (LInvoke fname (Some p) sargs skw :: w_log w1) w1.

(* _rebuild_file *)
Definition bf_rebuild (p : path) (c : cmpmode) (fname : string) (sargs skw : pyval)
           (fn : path -> pyval -> pyval -> body) (w1 : world) : world * (outcome * option op) :=
  let '(w3, (res, subs)) := fn p sargs skw (bf_invoke_world p fname sargs skw w1) in
  bf_finish p c fname sargs skw res subs w3.

Lemma m_build_file_unfold : forall p c f a kw fn w,
  m_build_file p c f a kw fn w =
  match sanitize a, sanitize kw with
  | Some sa, Some skw =>
      match bf_setup p c f sa skw w with
      | (w1, inr e) => (w1, (inr e, Some (OBuildFile p c f sa skw [] PNone PNone true true)))
      | (w1, inl (Some (inl o))) => (w1, (inl (op_ret o), Some o))
      | (w1, inl (Some (inr (e, o)))) => (w1, (inr e, Some o))
      | (w1, inl None) => bf_rebuild p c f sa skw fn w1
      end
  | _, _ => (w, (inr XType, None))
  end.
Proof. reflexivity. Qed.

(* ---- the stages of m_subbuild ---- *)

Definition sb_setup (fname : string) (sargs skw : pyval) : M (option (op + exn * op)) :=
  let key := subbuild_key fname sargs skw in
  new_assert_no_subbuild key ;;;
  cached <- subbuild_cache_lookup key fname ;;
  match cached with
  | Some co =>
      apply_cached_subs_of co ;;;
      let o := OSubbuild fname sargs skw (op_subs co) (op_ret co) false false in
      r <- attempt (new_use_cached_operation o) ;;
      match r with
      | inl _ => ret (Some (inl o))
      | inr e => ret (Some (inr (e, OSubbuild fname sargs skw (op_subs co) (op_ret co) true true)))
      end
  | None => new_start_subbuild key ;;; ret None
  end.

Definition sb_finish (fname : string) (sargs skw : pyval) (res : outcome) (subs : list op) (w3 : world)
  : world * (outcome * option op) :=
  let key := subbuild_key fname sargs skw in
  let finish (r : outcome) (o : op) :=
    match new_finish_subbuild key o w3 with (w4, _) => (w4, (r, Some o)) end in
  match res with
  | inr e => finish (inr e) (OSubbuild fname sargs skw subs PNone true false)
  | inl v =>
      match sanitize v with
      | None => finish (inr XType) (OSubbuild fname sargs skw subs PNone true false)
      | Some sv => finish (inl sv) (OSubbuild fname sargs skw subs sv false false)
      end
  end.

Definition sb_invoke_world (fname : string) (sargs skw : pyval) (w1 : world) : world :=
  set_log (LInvoke fname None sargs skw :: w_log w1) w1.

Definition sb_rebuild (fname : string) (sargs skw : pyval) (fn : pyval -> pyval -> body) (w1 : world)
  : world * (outcome * option op) :=
  let '(w3, (res, subs)) := fn sargs skw (sb_invoke_world fname sargs skw w1) in
  sb_finish fname sargs skw res subs w3.

Lemma m_subbuild_unfold : forall f a kw fn w,
  m_subbuild f a kw fn w =
  match sanitize a, sanitize kw with
  | Some sa, Some skw =>
      match sb_setup f sa skw w with
      | (w1, inr e) => (w1, (inr e, Some (OSubbuild f sa skw [] PNone true true)))
      | (w1, inl (Some (inl o))) => (w1, (inl (op_ret o), Some o))
      | (w1, inl (Some (inr (e, o)))) => (w1, (inr e, Some o))
      | (w1, inl None) => sb_rebuild f sa skw fn w1
      end
  | _, _ => (w, (inr XType, None))
  end.
Proof. reflexivity. Qed.

(* ================================================================== *)
(* 1. Arguments are validated first; the function receives the copies  *)
(* ================================================================== *)

Theorem bf_type_error : forall p c f a kw fn w,
  sanitize a = None \/ sanitize kw = None ->
  m_build_file p c f a kw fn w = (w, (inr XType, None)).
Proof.
  intros p c f a kw fn w H. rewrite m_build_file_unfold.
  destruct H as [H|H]; rewrite H; [reflexivity|]. destruct (sanitize a); reflexivity.
Qed.

Theorem sb_type_error : forall f a kw fn w,
  sanitize a = None \/ sanitize kw = None ->
  m_subbuild f a kw fn w = (w, (inr XType, None)).
Proof.
  intros f a kw fn w H. rewrite m_subbuild_unfold.
  destruct H as [H|H]; rewrite H; [reflexivity|]. destruct (sanitize a); reflexivity.
Qed.

Theorem bf_fn_sees_sanitized_args : forall p c f a kw fn fn' w sa skw,
  sanitize a = Some sa -> sanitize kw = Some skw ->
  (forall u, fn p sa skw u = fn' p sa skw u) ->
  m_build_file p c f a kw fn w = m_build_file p c f a kw fn' w.
Proof.
  intros p c f a kw fn fn' w sa skw Ha Hk Hfn. rewrite !m_build_file_unfold, Ha, Hk.
  destruct (bf_setup p c f sa skw w) as [w1 [[[o|[e o]]|]|e]]; try reflexivity.
  unfold bf_rebuild. rewrite Hfn. reflexivity.
Qed.

Theorem sb_fn_sees_sanitized_args : forall f a kw fn fn' w sa skw,
  sanitize a = Some sa -> sanitize kw = Some skw ->
  (forall u, fn sa skw u = fn' sa skw u) ->
  m_subbuild f a kw fn w = m_subbuild f a kw fn' w.
Proof.
  intros f a kw fn fn' w sa skw Ha Hk Hfn. rewrite !m_subbuild_unfold, Ha, Hk.
  destruct (sb_setup f sa skw w) as [w1 [[[o|[e o]]|]|e]]; try reflexivity.
  unfold sb_rebuild. rewrite Hfn. reflexivity.
Qed.

(* ================================================================== *)
(* 5. The cache file is rejected as a target before anything happens   *)
(* ================================================================== *)

Lemma bind_ok_eq : forall A B (m : M A) (f : A -> M B) w w1 a,
  m w = (w1, inl a) -> bind m f w = f a w1.
Proof. intros A B m f w w1 a H. unfold bind. rewrite H. reflexivity. Qed.

Theorem bf_cache_file_target_rejected : forall p c f a kw fn w sa skw,
  sanitize a = Some sa -> sanitize kw = Some skw -> cache_has_file (w_new w) p = false ->
  p = w_cachefile w ->
  m_build_file p c f a kw fn w =
  (w, (inr (XRuntime RCacheFileTarget), Some (OBuildFile p c f sa skw [] PNone PNone true true))).
Proof.
  intros p c f a kw fn w sa skw Ha Hk Hc Hp. rewrite m_build_file_unfold, Ha, Hk.
  assert (E : bf_setup p c f sa skw w = (w, inr (XRuntime RCacheFileTarget))).
  { unfold bf_setup.
    rewrite (bind_ok_eq _ _ (new_assert_no_file p) _ w w tt)
      by (unfold new_assert_no_file, bind, get; rewrite Hc; reflexivity).
    rewrite (bind_ok_eq _ _ (is_cache_file p) _ w w true)
      by (unfold is_cache_file; rewrite <- Hp, path_eqb_refl; reflexivity).
    reflexivity. }
  rewrite E. reflexivity.
Qed.

(* ================================================================== *)
(* Footprint: the package itself never logs an invocation and never    *)
(* touches the fault list                                              *)
(* ================================================================== *)

Definition quiet (w w' : world) : Prop :=
  invocations (w_log w') = invocations (w_log w) /\ w_faults w' = w_faults w.

Lemma quiet_refl : forall w, quiet w w.
Proof. intro w. split; reflexivity. Qed.
Lemma quiet_trans : forall a b c, quiet a b -> quiet b c -> quiet a c.
Proof. unfold quiet. intros a b c [A1 A2] [B1 B2]. split; congruence. Qed.

Definition quietPO : PO := {| rel := quiet; po_refl := quiet_refl; po_trans := quiet_trans |}.

Lemma svb_quiet : forall w w', svbPO w w' -> quietPO w w'.
Proof.
  cbn. unfold same_but_view, quiet. intros w w' H.
  destruct H as (A1 & A2 & A3 & A4 & A5 & A6 & A7 & A8 & A9 & A10 & A11). rewrite A9. auto.
Qed.

#[local] Hint Extern 8 (pres quietPO _) => apply (pres_weaken svbPO quietPO _ _ svb_quiet) : pres.
#[local] Hint Resolve m_handle_dir_exists_svb m_is_removed_svb is_file_no_read_svb is_cache_file_svb
  file_metadata_svb file_hash_svb list_dir_superset_svb file_comparison_result_svb
  m_is_file_svb m_is_dir_svb m_exists_svb noneable_cmp_svb version_equal_svb
  is_build_file_cached_svb dirs_to_make_svb build_file_cache_lookup_svb subbuild_cache_lookup_svb
  m_bd_started_svb m_bd_error_svb new_assert_no_file_svb new_assert_no_subbuild_svb : pres.

Ltac quiet_solve :=
  lazymatch goal with |- rel quietPO ?a ?b => change (quiet a b) | _ => idtac end;
  first [ apply quiet_refl
        | unfold quiet; cbn; split; reflexivity ].

Ltac raw_quiet f :=
  intros w w' r H; unfold f in H; cbv zeta in H; repeat dm H; inversion H; subst; quiet_solve.

Lemma effect_quiet : forall what p f, pres quietPO (effect what p f).
Proof. intros what p f. raw_quiet effect. Qed.

Lemma effect_p_quiet : forall what p f, pres quietPO (effect_p what p f).
Proof. intros what p f. raw_quiet effect_p. Qed.
#[local] Hint Resolve effect_quiet effect_p_quiet : pres.

Lemma back_up_and_remove_quiet : forall p, pres quietPO (back_up_and_remove p).
Proof.
  intro p. unfold back_up_and_remove. apply pres_bind; [auto with pres|]. intros _.
  intros w w' r H. cbv zeta in H. repeat dm H; inversion H; subst; quiet_solve.
Qed.
#[local] Hint Resolve back_up_and_remove_quiet : pres.

Lemma try_to_remove_file_quiet : forall p, pres quietPO (try_to_remove_file p).
Proof. intro p. unfold try_to_remove_file. pres_auto. Qed.

Lemma remove_empty_dirs_quiet : forall ds, pres quietPO (remove_empty_dirs ds).
Proof. intro ds. unfold remove_empty_dirs. pres_auto. Qed.

Lemma make_one_dir_quiet : forall d, pres quietPO (make_one_dir d).
Proof. intro d. unfold make_one_dir. pres_auto. Qed.
#[local] Hint Resolve try_to_remove_file_quiet remove_empty_dirs_quiet make_one_dir_quiet : pres.

Lemma make_dirs_loop_quiet : forall ds made, pres quietPO (make_dirs_loop ds made).
Proof.
  induction ds as [|d ds IH]; intro made; cbn [make_dirs_loop]; pres_auto.
Qed.
#[local] Hint Resolve make_dirs_loop_quiet : pres.

Lemma make_dirs_quiet : forall d, pres quietPO (make_dirs d).
Proof. intro d. unfold make_dirs. pres_auto. Qed.
#[local] Hint Resolve make_dirs_quiet : pres.

Lemma make_room_quiet : forall fuel d, pres quietPO (make_room fuel d).
Proof.
  induction fuel as [|fuel IH]; intro d; cbn [make_room]; pres_auto.
Qed.
#[local] Hint Resolve make_room_quiet : pres.

Lemma prepare_file_creation_quiet : forall p, pres quietPO (prepare_file_creation p).
Proof. intro p. unfold prepare_file_creation. pres_auto. Qed.
#[local] Hint Resolve prepare_file_creation_quiet : pres.

Lemma apply_cached_subs_of_quiet : forall o, pres quietPO (apply_cached_subs_of o).
Proof.
  induction o as [q r e | p c f a k subs r cr ra sf IH | f a k subs r ra sf IH] using op_ind';
    cbn [apply_cached_subs_of].
  - apply pres_ret.
  - induction IH as [|s rest Hs HF IHl]; cbn beta iota fix; [apply pres_ret|].
    apply pres_bind; [|intros _; exact IHl]. pres_auto.
  - induction IH as [|s rest Hs HF IHl]; cbn beta iota fix; [apply pres_ret|].
    apply pres_bind; [|intros _; exact IHl]. pres_auto.
Qed.
#[local] Hint Resolve apply_cached_subs_of_quiet : pres.

(* updates of the new cache *)
Lemma modify_new_quiet : forall f : world -> cache, pres quietPO (modify (fun w => set_new (f w) w)).
Proof. intro f. apply pres_modify. intro w. quiet_solve. Qed.

Lemma new_start_building_file_quiet : forall p, pres quietPO (new_start_building_file p).
Proof. intro p. unfold new_start_building_file. pres_auto. apply modify_new_quiet. Qed.

Lemma new_abort_building_file_quiet : forall p, pres quietPO (new_abort_building_file p).
Proof. intro p. unfold new_abort_building_file. apply modify_new_quiet. Qed.

Lemma new_finish_building_file_quiet : forall p o, pres quietPO (new_finish_building_file p o).
Proof. intros p o. unfold new_finish_building_file. apply modify_new_quiet. Qed.

Lemma new_start_subbuild_quiet : forall k, pres quietPO (new_start_subbuild k).
Proof. intro k. unfold new_start_subbuild. pres_auto. apply modify_new_quiet. Qed.

Lemma new_finish_subbuild_quiet : forall k o, pres quietPO (new_finish_subbuild k o).
Proof. intros k o. unfold new_finish_subbuild. apply modify_new_quiet. Qed.

Lemma new_use_cached_operation_quiet : forall o, pres quietPO (new_use_cached_operation o).
Proof.
  intros o w w' r H. unfold new_use_cached_operation in H. minv H.
  - unfold put in H. inversion H; subst. quiet_solve.
  - quiet_solve.
Qed.
#[local] Hint Resolve new_start_building_file_quiet new_abort_building_file_quiet
  new_finish_building_file_quiet new_start_subbuild_quiet new_finish_subbuild_quiet
  new_use_cached_operation_quiet : pres.

Lemma bf_reuse_quiet : forall p c f sa skw cached, pres quietPO (bf_reuse p c f sa skw cached).
Proof. intros p c f sa skw cached. unfold bf_reuse. pres_auto. Qed.

Lemma bf_claim_quiet : forall p, pres quietPO (bf_claim p).
Proof. intro p. unfold bf_claim. pres_auto. Qed.
#[local] Hint Resolve bf_reuse_quiet bf_claim_quiet : pres.

Lemma bf_setup_quiet : forall p c f sa skw, pres quietPO (bf_setup p c f sa skw).
Proof. intros p c f sa skw. unfold bf_setup. pres_auto. Qed.

Lemma sb_setup_quiet : forall f sa skw, pres quietPO (sb_setup f sa skw).
Proof. intros f sa skw. unfold sb_setup. cbv zeta. pres_auto. Qed.

(* ================================================================== *)
(* Shapes of the results of the stages                                 *)
(* ================================================================== *)

Lemma bf_reuse_shape : forall p c f sa skw cached w w' o,
  bf_reuse p c f sa skw cached w = (w', inl (Some (inl o))) ->
  exists subs r cmp, o = OBuildFile p c f sa skw subs r cmp false false.
Proof.
  intros p c f sa skw cached w w' o H. unfold bf_reuse in H. minv H; eauto.
Qed.

Lemma bf_setup_shape : forall p c f sa skw w w' o,
  bf_setup p c f sa skw w = (w', inl (Some (inl o))) ->
  exists subs r cmp, o = OBuildFile p c f sa skw subs r cmp false false.
Proof.
  intros p c f sa skw w w' o H. unfold bf_setup in H. minvc H.
  - eapply bf_reuse_shape; eassumption.
  - match goal with E : bf_claim _ _ = _ |- _ => unfold bf_claim in E; minvc E end.
Qed.

Lemma sb_setup_shape : forall f sa skw w w' o,
  sb_setup f sa skw w = (w', inl (Some (inl o))) ->
  exists subs r, o = OSubbuild f sa skw subs r false false.
Proof.
  intros f sa skw w w' o H. unfold sb_setup in H. cbv zeta in H. minv H; eauto.
Qed.

(* the error path: the record, the outcome, the footprint *)
Lemma bf_fail_spec : forall p c f sa skw subs e w w' r oo,
  bf_fail p c f sa skw subs e w = (w', (r, oo)) ->
  oo = Some (OBuildFile p c f sa skw subs PNone PNone true false) /\
  (exists e', r = inr e') /\ quiet w w'.
Proof.
  intros p c f sa skw subs e w w' r oo H. unfold bf_fail in H. cbv zeta in H.
  match type of H with (match ?X with _ => _ end) = _ => destruct X as [w1 [u|e1]] eqn:E end;
    inversion H; subst; (split; [reflexivity|]); (split; [eauto|]).
  all: refine ((_ : pres quietPO _) _ _ _ E); pres_auto.
Qed.

Lemma bf_finish_quiet : forall p c f sa skw res subs, pres quietPO (bf_finish p c f sa skw res subs).
Proof.
  intros p c f sa skw res subs w w' r H. unfold bf_finish in H.
  assert (F : forall e w0, bf_fail p c f sa skw subs e w0 = (w', r) -> quiet w0 w').
  { intros e w0 H0. destruct r as [r oo]. apply bf_fail_spec in H0. tauto. }
  destruct res as [v|e]; [|eapply F; eassumption].
  destruct (sanitize v) as [sv|]; [|eapply F; eassumption].
  destruct (noneable_cmp p c w) as [w4 [cmp|e]] eqn:E.
  - assert (Q : quiet w w4) by (apply svb_quiet; exact (noneable_cmp_svb p c w w4 _ E)).
    eapply quiet_trans; [exact Q|].
    destruct cmp; try (eapply F; eassumption).
    all: cbv zeta in H; unfold new_finish_building_file, modify in H; inversion H; subst; quiet_solve.
  - assert (Q : quiet w w4) by (apply svb_quiet; exact (noneable_cmp_svb p c w w4 _ E)).
    eapply quiet_trans; [exact Q|]. eapply F; eassumption.
Qed.

(* whenever the fresh branch is taken, an invocation is logged and stays logged *)
Lemma bf_rebuild_invokes : forall p c f sa skw fn w1 w' res,
  body_log_mono (fn p sa skw) ->
  bf_rebuild p c f sa skw fn w1 = (w', res) ->
  invocations (w_log w1) < invocations (w_log w').
Proof.
  intros p c f sa skw fn w1 w' res Hfn H. unfold bf_rebuild in H.
  destruct (fn p sa skw (bf_invoke_world p f sa skw w1)) as [w3 [r subs]] eqn:E.
  apply Hfn in E. apply bf_finish_quiet in H. destruct H as [H _]. cbn in H.
  unfold bf_invoke_world in E. cbn in E. rewrite H. lia.
Qed.

Lemma sb_finish_quiet : forall f sa skw res subs, pres quietPO (sb_finish f sa skw res subs).
Proof.
  intros f sa skw res subs w w' r H. unfold sb_finish in H. cbv zeta in H.
  unfold new_finish_subbuild, modify in H.
  destruct res as [v|e]; [destruct (sanitize v)|]; inversion H; subst; quiet_solve.
Qed.

Lemma sb_rebuild_invokes : forall f sa skw fn w1 w' res,
  body_log_mono (fn sa skw) ->
  sb_rebuild f sa skw fn w1 = (w', res) ->
  invocations (w_log w1) < invocations (w_log w').
Proof.
  intros f sa skw fn w1 w' res Hfn H. unfold sb_rebuild in H.
  destruct (fn sa skw (sb_invoke_world f sa skw w1)) as [w3 [r subs]] eqn:E.
  apply Hfn in E. apply sb_finish_quiet in H. destruct H as [H _]. cbn in H.
  unfold sb_invoke_world in E. cbn in E. rewrite H. lia.
Qed.

(* ================================================================== *)
(* 2b. A success returns the value stored in the record                *)
(* ================================================================== *)

Lemma bf_finish_success : forall p c f sa skw res subs w3 w' v o,
  bf_finish p c f sa skw res subs w3 = (w', (inl v, Some o)) ->
  exists v0 cmp w4,
    res = inl v0 /\ sanitize v0 = Some v /\
    noneable_cmp p c w3 = (w4, inl cmp) /\ cmp <> PNone /\
    o = OBuildFile p c f sa skw subs v cmp false false /\
    w' = set_new (cache_with (w_new w4) (files_set (c_files (w_new w4)) p (Some o))
                             (c_subs (w_new w4)) (c_dirs (w_new w4)) (c_built (w_new w4))) w4.
Proof.
  intros p c f sa skw res subs w3 w' v o H. unfold bf_finish in H.
  assert (F : forall e w0, bf_fail p c f sa skw subs e w0 = (w', (inl v, Some o)) -> False).
  { intros e w0 H0. apply bf_fail_spec in H0. destruct H0 as (_ & [e' X] & _). discriminate X. }
  destruct res as [v0|e]; [|exfalso; eapply F; eassumption].
  destruct (sanitize v0) as [sv|] eqn:Es; [|exfalso; eapply F; eassumption].
  destruct (noneable_cmp p c w3) as [w4 [cmp|e]] eqn:E; [|exfalso; eapply F; eassumption].
  destruct cmp; try (exfalso; eapply F; eassumption).
  all: cbv zeta in H; unfold new_finish_building_file, modify in H; inversion H; subst.
  all: do 3 eexists; repeat split; try reflexivity; try eassumption; discriminate.
Qed.

Theorem bf_result_is_record_value : forall p c f a kw fn w w' v o,
  m_build_file p c f a kw fn w = (w', (inl v, Some o)) ->
  op_ret o = v /\ op_raised o = false /\ op_setup_failed o = false.
Proof.
  intros p c f a kw fn w w' v o H. rewrite m_build_file_unfold in H.
  destruct (sanitize a) as [sa|]; [|discriminate H].
  destruct (sanitize kw) as [skw|]; [|discriminate H].
  destruct (bf_setup p c f sa skw w) as [w1 [[[o1|[e o1]]|]|e]] eqn:Hs; try discriminate H.
  - inversion H; subst. apply bf_setup_shape in Hs. destruct Hs as (subs & r & cmp & ->).
    repeat split; reflexivity.
  - unfold bf_rebuild in H.
    destruct (fn p sa skw (bf_invoke_world p f sa skw w1)) as [w3 [res subs]].
    apply bf_finish_success in H. destruct H as (v0 & cmp & w4 & _ & _ & _ & _ & -> & _).
    repeat split; reflexivity.
Qed.

Theorem sb_result_is_record_value : forall f a kw fn w w' v o,
  m_subbuild f a kw fn w = (w', (inl v, Some o)) ->
  op_ret o = v /\ op_raised o = false /\ op_setup_failed o = false.
Proof.
  intros f a kw fn w w' v o H. rewrite m_subbuild_unfold in H.
  destruct (sanitize a) as [sa|]; [|discriminate H].
  destruct (sanitize kw) as [skw|]; [|discriminate H].
  destruct (sb_setup f sa skw w) as [w1 [[[o1|[e o1]]|]|e]] eqn:Hs; try discriminate H.
  - inversion H; subst. apply sb_setup_shape in Hs. destruct Hs as (subs & r & ->).
    repeat split; reflexivity.
  - unfold sb_rebuild in H.
    destruct (fn sa skw (sb_invoke_world f sa skw w1)) as [w3 [res subs]].
    unfold sb_finish in H. cbv zeta in H. unfold new_finish_subbuild, modify in H.
    destruct res as [v0|e]; [destruct (sanitize v0)|]; inversion H; subst; repeat split; reflexivity.
Qed.

(* ================================================================== *)
(* 4. A cache hit does not call the function (C05)                     *)
(* ================================================================== *)

Theorem bf_hit_independent_of_fn : forall p c f a kw fn fn' w w' res,
  m_build_file p c f a kw fn w = (w', res) ->
  invocations (w_log w') = invocations (w_log w) ->
  (forall p' a' k' u u' r, fn p' a' k' u = (u', r) -> invocations (w_log u) <= invocations (w_log u')) ->
  m_build_file p c f a kw fn' w = (w', res).
Proof.
  intros p c f a kw fn fn' w w' res H Hinv Hfn. rewrite m_build_file_unfold in *.
  destruct (sanitize a) as [sa|]; [|exact H].
  destruct (sanitize kw) as [skw|]; [|exact H].
  destruct (bf_setup p c f sa skw w) as [w1 [[[o1|[e o1]]|]|e]] eqn:Hs; try exact H.
  exfalso. apply bf_setup_quiet in Hs. destruct Hs as [Hs _].
  apply bf_rebuild_invokes in H; [lia|].
  intros u u' r E. eapply Hfn; exact E.
Qed.

Theorem sb_hit_independent_of_fn : forall f a kw fn fn' w w' res,
  m_subbuild f a kw fn w = (w', res) ->
  invocations (w_log w') = invocations (w_log w) ->
  (forall a' k' u u' r, fn a' k' u = (u', r) -> invocations (w_log u) <= invocations (w_log u')) ->
  m_subbuild f a kw fn' w = (w', res).
Proof.
  intros f a kw fn fn' w w' res H Hinv Hfn. rewrite m_subbuild_unfold in *.
  destruct (sanitize a) as [sa|]; [|exact H].
  destruct (sanitize kw) as [skw|]; [|exact H].
  destruct (sb_setup f sa skw w) as [w1 [[[o1|[e o1]]|]|e]] eqn:Hs; try exact H.
  exfalso. apply sb_setup_quiet in Hs. destruct Hs as [Hs _].
  apply sb_rebuild_invokes in H; [lia|].
  intros u u' r E. eapply Hfn; exact E.
Qed.

(* ================================================================== *)
(* 2a. Success after running the function: the target is a regular     *)
(*     file and the value is JSON-normalised                           *)
(* ================================================================== *)

Lemma file_comparison_result_file : forall p c w w' v,
  file_comparison_result p c w = (w', inl v) -> isfile (w_fs w') p = true.
Proof.
  intros p c w w' v H. destruct c; cbn [file_comparison_result] in H.
  - unfold file_metadata in H. destruct (lookup (w_fs w) p) as [[g|]|] eqn:E; inversion H; subst.
    apply isfile_lookup. eauto.
  - unfold file_hash in H. cbv zeta in H.
    repeat dm H; inversion H; subst; cbn [w_fs set_hash];
      first [ assumption | apply isfile_lookup; eauto ].
Qed.

Lemma noneable_cmp_file : forall p c w w' v,
  noneable_cmp p c w = (w', inl v) -> v <> PNone -> isfile (w_fs w') p = true.
Proof.
  intros p c w w' v H Hv. unfold noneable_cmp in H. apply catch_inv in H.
  destruct H as [(a & E & R) | (w1 & e & E & Hh)].
  - eapply file_comparison_result_file; exact E.
  - destruct (is_os_class XFileNotFound e || is_os_class XIsADirectory e || is_os_class XNotADirectory e);
      inversion Hh; subst. contradiction.
Qed.

(* the statement in terms of the stages: the lookup missed (setup returned None) *)
Theorem bf_fresh_success_file : forall p c f sa skw fn w1 w' v o,
  bf_rebuild p c f sa skw fn w1 = (w', (inl v, Some o)) ->
  isfile (w_fs w') p = true /\ sanitized v = true /\
  op_ret o = v /\ op_raised o = false /\ op_setup_failed o = false.
Proof.
  intros p c f sa skw fn w1 w' v o H. unfold bf_rebuild in H.
  destruct (fn p sa skw (bf_invoke_world p f sa skw w1)) as [w3 [res subs]].
  apply bf_finish_success in H.
  destruct H as (v0 & cmp & w4 & _ & Hsan & Hcmp & Hne & Ho & Hw).
  split.
  - rewrite Hw. cbn [w_fs set_new]. eapply noneable_cmp_file; eassumption.
  - split; [eapply sanitize_sanitized; exact Hsan|]. rewrite Ho. repeat split; reflexivity.
Qed.

Theorem bf_invoked_success_file : forall p c f a kw fn w w' v o,
  m_build_file p c f a kw fn w = (w', (inl v, Some o)) ->
  invocations (w_log w) < invocations (w_log w') ->      (* the function was run *)
  body_log_mono (fun u => fn p (match sanitize a with Some s => s | None => PNone end)
                               (match sanitize kw with Some s => s | None => PNone end) u) ->
  isfile (w_fs w') p = true /\ sanitized v = true /\
  op_ret o = v /\ op_raised o = false /\ op_setup_failed o = false.
Proof.
  intros p c f a kw fn w w' v o H Hlt _. rewrite m_build_file_unfold in H.
  destruct (sanitize a) as [sa|]; [|discriminate H].
  destruct (sanitize kw) as [skw|]; [|discriminate H].
  destruct (bf_setup p c f sa skw w) as [w1 [[[o1|[e o1]]|]|e]] eqn:Hs; try discriminate H.
  - inversion H; subst. apply bf_setup_quiet in Hs. destruct Hs as [Hs _]. lia.
  - eapply bf_fresh_success_file; exact H.
Qed.

(* ================================================================== *)
(* 3. Failure of the function: the exception is the outcome, the       *)
(*    target is absent, the record is marked raised                    *)
(* ================================================================== *)

Definition bd_key_error : exn := XCrash "KeyError in BuildDirs.error_building_file".

Lemma try_to_remove_file_ok : forall p w w' r,
  try_to_remove_file p w = (w', r) -> r = inl tt /\ w_bd w' = w_bd w.
Proof.
  intros p w w' r H. unfold try_to_remove_file, bind, get in H.
  destruct (isfile (w_fs w) p); [|inversion H; subst; split; reflexivity].
  unfold catch in H.
  match type of H with (match ?X with _ => _ end) = _ => destruct X as [w1 [u|e]] eqn:E end.
  - inversion H; subst. destruct u. split; [reflexivity|].
    unfold effect in E. cbv zeta in E. repeat dm E; inversion E; subst; reflexivity.
  - unfold effect in E. cbv zeta in E.
    repeat dm E; inversion E; subst; cbn [is_os] in H; inversion H; subst; split; reflexivity.
Qed.

Lemma try_to_remove_file_absent : forall p w w' r,
  w_faults w = [] -> try_to_remove_file p w = (w', r) -> isfile (w_fs w') p = false.
Proof.
  intros p w w' r Hf H. unfold try_to_remove_file, bind, get in H.
  destruct (isfile (w_fs w) p) eqn:Ei; [|inversion H; subst; exact Ei].
  unfold catch, effect in H. cbv zeta in H. rewrite Hf in H. cbn [existsb] in H.
  cbn [w_fs set_effects] in H.
  apply isfile_lookup in Ei. destruct Ei as [g Eg].
  destruct p as [|n d]; [cbn in Eg; discriminate Eg|].
  unfold remove in H. rewrite Eg in H. inversion H; subst. cbn [w_fs set_log set_fs].
  unfold isfile. rewrite lookup_upd_eq by discriminate. reflexivity.
Qed.

(* the release part of the error path leaves the tree alone *)
Lemma bf_release_fs : forall p o w w' r,
  (m_bd_error p ;;; new_finish_building_file p o) w = (w', r) -> w_fs w' = w_fs w.
Proof.
  intros p o w w' r H. apply bind_inv in H.
  destruct H as [(w1 & u & E1 & H) | (e & E1 & _)].
  - apply m_bd_error_svb in E1. destruct E1 as (F & _).
    unfold new_finish_building_file, modify in H. inversion H; subst. cbn [w_fs set_new]. exact F.
  - apply m_bd_error_svb in E1. destruct E1 as (F & _). exact F.
Qed.

Lemma bf_fail_absent : forall p c f sa skw subs e w w' r oo,
  w_faults w = [] -> bf_fail p c f sa skw subs e w = (w', (r, oo)) -> isfile (w_fs w') p = false.
Proof.
  intros p c f sa skw subs e w w' r oo Hf H. unfold bf_fail in H. cbv zeta in H.
  match type of H with (match ?X with _ => _ end) = _ => destruct X as [w1 x] eqn:E end.
  assert (W : w1 = w') by (destruct x; inversion H; reflexivity). subst w1. clear H.
  apply bind_inv in E. destruct E as [(wa & u & E1 & E2) | (e1 & E1 & _)].
  - apply bf_release_fs in E2. rewrite E2. eapply try_to_remove_file_absent; eassumption.
  - eapply try_to_remove_file_absent; eassumption.
Qed.

(* which exception comes out of the error path: the given one, unless releasing the
   reservation of the parent directories crashes *)
Lemma bf_fail_outcome : forall p c f sa skw subs e w w' r oo,
  bf_fail p c f sa skw subs e w = (w', (r, oo)) ->
  r = inr e \/ (bd_error (w_bd w) p = None /\ r = inr bd_key_error).
Proof.
  intros p c f sa skw subs e w w' r oo H. unfold bf_fail in H. cbv zeta in H.
  match type of H with (match ?X with _ => _ end) = _ => destruct X as [w1 [u|e1]] eqn:E end.
  - inversion H; subst. left. reflexivity.
  - inversion H; subst. right. apply bind_inv in E.
    destruct E as [(wa & u & E1 & E2) | (e2 & E1 & _)].
    + apply try_to_remove_file_ok in E1. destruct E1 as [_ Hbd].
      apply bind_inv in E2. destruct E2 as [(wb & u2 & _ & E3) | (e3 & E2 & R)].
      * unfold new_finish_building_file, modify in E3. discriminate E3.
      * inversion R; subst e3. unfold m_bd_error in E2. rewrite Hbd in E2.
        destruct (bd_error (w_bd w) p); inversion E2; subst. split; reflexivity.
    + apply try_to_remove_file_ok in E1. destruct E1 as [E1 _]. discriminate E1.
Qed.

Lemma bf_finish_failure : forall p c f sa skw res subs w3 w' e oo,
  w_faults w3 = [] ->
  bf_finish p c f sa skw res subs w3 = (w', (inr e, oo)) ->
  isfile (w_fs w') p = false /\ oo = Some (OBuildFile p c f sa skw subs PNone PNone true false).
Proof.
  intros p c f sa skw res subs w3 w' e oo Hf H. unfold bf_finish in H.
  assert (F : forall e0 w0, w_faults w0 = [] -> bf_fail p c f sa skw subs e0 w0 = (w', (inr e, oo)) ->
              isfile (w_fs w') p = false /\ oo = Some (OBuildFile p c f sa skw subs PNone PNone true false)).
  { intros e0 w0 Hf0 H0. split; [eapply bf_fail_absent; eassumption|].
    apply bf_fail_spec in H0. tauto. }
  destruct res as [v|e0]; [|eapply F; eassumption].
  destruct (sanitize v) as [sv|]; [|eapply F; eassumption].
  destruct (noneable_cmp p c w3) as [w4 [cmp|e1]] eqn:E.
  - assert (Hf4 : w_faults w4 = [])
      by (pose proof (noneable_cmp_svb p c w3 w4 _ E) as SV; apply svb_quiet in SV;
          destruct SV as [_ SV]; rewrite SV; exact Hf).
    destruct cmp; try (eapply F; eassumption).
    all: cbv zeta in H; unfold new_finish_building_file, modify in H; discriminate H.
  - assert (Hf4 : w_faults w4 = [])
      by (pose proof (noneable_cmp_svb p c w3 w4 _ E) as SV; apply svb_quiet in SV;
          destruct SV as [_ SV]; rewrite SV; exact Hf).
    eapply F; eassumption.
Qed.

Theorem bf_failure_target_absent : forall p c f a kw fn w w' e o,
  w_faults w = [] ->
  (forall p' a' k' u u' r, fn p' a' k' u = (u', r) ->
     w_faults u' = w_faults u /\ invocations (w_log u) <= invocations (w_log u')) ->
  m_build_file p c f a kw fn w = (w', (inr e, Some o)) ->
  invocations (w_log w) < invocations (w_log w') ->
  isfile (w_fs w') p = false /\ op_raised o = true /\ op_setup_failed o = false.
Proof.
  intros p c f a kw fn w w' e o Hf Hfn H Hlt. rewrite m_build_file_unfold in H.
  destruct (sanitize a) as [sa|]; [|discriminate H].
  destruct (sanitize kw) as [skw|]; [|discriminate H].
  destruct (bf_setup p c f sa skw w) as [w1 [[[o1|[e1 o1]]|]|e1]] eqn:Hs; try discriminate H.
  - inversion H; subst. apply bf_setup_quiet in Hs. destruct Hs as [Hs _]. lia.
  - apply bf_setup_quiet in Hs. destruct Hs as [_ Hs].
    unfold bf_rebuild in H.
    destruct (fn p sa skw (bf_invoke_world p f sa skw w1)) as [w3 [res subs]] eqn:E.
    apply Hfn in E. destruct E as [E _]. unfold bf_invoke_world in E. cbn [w_faults set_log] in E.
    apply bf_finish_failure in H; [|congruence].
    destruct H as [Hfile Ho]. inversion Ho; subst o. split; [exact Hfile | split; reflexivity].
  - inversion H; subst. apply bf_setup_quiet in Hs. destruct Hs as [Hs _]. lia.
Qed.

(* the exception raised by the function is the outcome of build_file, unless releasing
   the reservation crashes (KeyError in BuildDirs.error_building_file, i.e. [bd_error]
   does not know the target) *)
Theorem bf_user_exception_propagates : forall p c f a kw fn w sa skw w1 u' e0 subs,
  sanitize a = Some sa -> sanitize kw = Some skw ->
  bf_setup p c f sa skw w = (w1, inl None) ->                     (* the lookup missed *)
  fn p sa skw (bf_invoke_world p f sa skw w1) = (u', (inr e0, subs)) ->   (* the body raised e0 *)
  exists w' e,
    m_build_file p c f a kw fn w =
      (w', (inr e, Some (OBuildFile p c f sa skw subs PNone PNone true false))) /\
    (e = e0 \/ (bd_error (w_bd u') p = None /\ e = bd_key_error)).
Proof.
  intros p c f a kw fn w sa skw w1 u' e0 subs Ha Hk Hs Hb.
  rewrite m_build_file_unfold, Ha, Hk, Hs. unfold bf_rebuild. rewrite Hb.
  cbn [bf_finish].
  destruct (bf_fail p c f sa skw subs e0 u') as [w' [r oo]] eqn:E.
  pose proof (bf_fail_spec _ _ _ _ _ _ _ _ _ _ _ E) as (Ho & [e' He] & _).
  pose proof (bf_fail_outcome _ _ _ _ _ _ _ _ _ _ _ E) as Hout.
  subst r oo. exists w', e'. split; [reflexivity|].
  destruct Hout as [X | [B X]]; inversion X; subst; [left | right]; auto.
Qed.

(* the other two ways of failing: a value that is not JSON, a target that was not created *)
Theorem bf_bad_value_type_error : forall p c f a kw fn w sa skw w1 u' v subs,
  sanitize a = Some sa -> sanitize kw = Some skw ->
  bf_setup p c f sa skw w = (w1, inl None) ->
  fn p sa skw (bf_invoke_world p f sa skw w1) = (u', (inl v, subs)) ->
  sanitize v = None ->
  exists w' e,
    m_build_file p c f a kw fn w =
      (w', (inr e, Some (OBuildFile p c f sa skw subs PNone PNone true false))) /\
    (e = XType \/ (bd_error (w_bd u') p = None /\ e = bd_key_error)).
Proof.
  intros p c f a kw fn w sa skw w1 u' v subs Ha Hk Hs Hb Hv.
  rewrite m_build_file_unfold, Ha, Hk, Hs. unfold bf_rebuild. rewrite Hb.
  cbn [bf_finish]. rewrite Hv.
  destruct (bf_fail p c f sa skw subs XType u') as [w' [r oo]] eqn:E.
  pose proof (bf_fail_spec _ _ _ _ _ _ _ _ _ _ _ E) as (Ho & [e' He] & _).
  pose proof (bf_fail_outcome _ _ _ _ _ _ _ _ _ _ _ E) as Hout.
  subst r oo. exists w', e'. split; [reflexivity|].
  destruct Hout as [X | [B X]]; inversion X; subst; [left | right]; auto.
Qed.

Theorem bf_not_created_fails : forall p c f a kw fn w sa skw w1 u' v subs,
  sanitize a = Some sa -> sanitize kw = Some skw ->
  bf_setup p c f sa skw w = (w1, inl None) ->
  fn p sa skw (bf_invoke_world p f sa skw w1) = (u', (inl v, subs)) ->
  isfile (w_fs u') p = false ->
  exists w' e,
    m_build_file p c f a kw fn w =
      (w', (inr e, Some (OBuildFile p c f sa skw subs PNone PNone true false))).
Proof.
  intros p c f a kw fn w sa skw w1 u' v subs Ha Hk Hs Hb Hnf.
  rewrite m_build_file_unfold, Ha, Hk, Hs. unfold bf_rebuild. rewrite Hb.
  destruct (bf_finish p c f sa skw (inl v) subs u') as [w' [[v'|e] oo]] eqn:E.
  - exfalso.
    assert (Ho : exists o, oo = Some o).
    { unfold bf_finish in E.
      assert (F : forall e0 w0, bf_fail p c f sa skw subs e0 w0 = (w', (inl v', oo)) -> exists o, oo = Some o).
      { intros e0 w0 H0. apply bf_fail_spec in H0. destruct H0 as (-> & _). eauto. }
      destruct (sanitize v); [|eapply F; eassumption].
      destruct (noneable_cmp p c u') as [w4 [cmp|e1]]; [|eapply F; eassumption].
      destruct cmp; try (eapply F; eassumption).
      all: cbv zeta in E; unfold new_finish_building_file, modify in E; inversion E; eauto. }
    destruct Ho as [o ->]. apply bf_finish_success in E.
    destruct E as (v0 & cmp & w4 & _ & _ & Hcmp & Hne & _ & _).
    pose proof (noneable_cmp_file _ _ _ _ _ Hcmp Hne) as Hfile.
    pose proof (noneable_cmp_svb p c u' w4 _ Hcmp) as (Hfs & _).
    rewrite Hfs in Hfile. congruence.
  - assert (Ho : oo = Some (OBuildFile p c f sa skw subs PNone PNone true false)).
    { unfold bf_finish in E.
      assert (F : forall e0 w0, bf_fail p c f sa skw subs e0 w0 = (w', (inr e, oo)) ->
                  oo = Some (OBuildFile p c f sa skw subs PNone PNone true false)).
      { intros e0 w0 H0. apply bf_fail_spec in H0. tauto. }
      destruct (sanitize v); [|eapply F; eassumption].
      destruct (noneable_cmp p c u') as [w4 [cmp|e1]]; [|eapply F; eassumption].
      destruct cmp; try (eapply F; eassumption).
      all: cbv zeta in E; unfold new_finish_building_file, modify in E; discriminate E. }
    subst oo. eauto.
Qed.
