(* Proofs/CoreRebuildOpen.v — the two generalisations of the rebuild theorem as they are usually worded
   are FALSE for the Core model; the statements and their refutations (by the scenarios computed in
   Proofs/CoreRebuildEx.v).
   (i)  "without the cleanliness hypothesis, only calls whose record is raised or contains a raised /
        setup-failed record are re-run": refuted — a successful call whose record contains a setup
        failure is re-run by every build and rewrites its output; a clean call that read that output with
        METADATA comparison is re-run as well.
   (ii) "a tree that differs from the committed one only at paths no recorded operation observed gives the
        same run": refuted — a foreign file below a directory the previous build made keeps that directory
        from being pruned, which a recorded "exists" query on the directory notices. *)
From Coq Require Import List String NArith ZArith Bool Arith.
From FB.Base Require Import PyVal Fs.
From FB.Gen Require Import JsonUtilGen.
From FB.Spec Require Import JsonSpec Prog Ref Oracle Faithful.
From FB.Model Require Import Types SimpleOps Builder Persist Dsl Core CoreOracle CoreCache.
From FB.Proofs Require Import FsLemmas CoreLaws2 CoreLaws3 CoreLawsEx CoreRebuildDefs CoreRebuild1 CoreRebuildEx CoreRebuildMain CoreRebuildInst.
Import ListNotations.
Open Scope list_scope.
Open Scope string_scope.

(* ---------------------------------------------------------------- (i) *)
Definition rerun_only_unclean_statement : Prop :=
  forall fs cf old vers clock nextid root nm v s1 clock' nextid',
    let cr1 := core_build fs cf old vers clock nextid root in
    cr_outcome cr1 = inl v -> cr_state cr1 = Some s1 ->
    fs_wf fs -> isdir fs cf = false -> sanitized vers = true ->
    records_distinct s1 = true -> no_foreign_targets fs cf old s1 ->
    let cr2 := core_build (next_fs cf s1) cf (CoreCache.cache_of_state nm s1) vers clock' nextid' root in
    forall f p a k, In (LInvoke f (Some p) a k) (cr_log cr2) ->
      exists o, In (p, o) (k_newF s1) /\ op_clean o = false.

Definition s_u1 : kstate := st_of (u1 METADATA).

Lemma In_forallb_path : forall (l : list (path * op)) p o,
  forallb (fun e => negb (path_eqb (fst e) p) || op_clean (snd e)) l = true -> In (p, o) l -> op_clean o = true.
Proof.
  intros l p o H Hin. rewrite forallb_forall in H. specialize (H _ Hin). cbn [fst snd] in H.
  rewrite FsLemmas.path_eqb_refl in H. exact H.
Qed.

Theorem rerun_only_unclean_false : ~ rerun_only_unclean_statement.
Proof.
  intro S.
  assert (H1 : cr_outcome (core_build fs0 cfc (empty_cache "b" versu) versu 10 10 (root_u METADATA)) = inl (PInt 6))
    by (vm_compute; reflexivity).
  assert (H2 : cr_state (core_build fs0 cfc (empty_cache "b" versu) versu 10 10 (root_u METADATA)) = Some s_u1)
    by (vm_compute; reflexivity).
  assert (H3 : isdir fs0 cfc = false) by (vm_compute; reflexivity).
  assert (H4 : sanitized versu = true) by (vm_compute; reflexivity).
  assert (H5 : records_distinct s_u1 = true) by (vm_compute; reflexivity).
  assert (H6 : no_foreign_targets fs0 cfc (empty_cache "b" versu) s_u1) by (apply nft_of_bool; vm_compute; reflexivity).
  assert (H7 : In (LInvoke "rd" (Some ["r"]) PNone (PDict []))
                  (cr_log (core_build (next_fs cfc s_u1) cfc (CoreCache.cache_of_state "b" s_u1) versu 50 50 (root_u METADATA)))).
  { vm_compute. right. right. left. reflexivity. }
  destruct (S fs0 cfc (empty_cache "b" versu) versu 10%N 10%N (root_u METADATA) "b" (PInt 6) s_u1 50%N 50%N
              H1 H2 fs0_wf H3 H4 H5 H6 "rd" ["r"] PNone (PDict []) H7) as [o [Hin Hc]].
  assert (Hall : forallb (fun e => negb (path_eqb (fst e) ["r"]) || op_clean (snd e)) (k_newF s_u1) = true)
    by (vm_compute; reflexivity).
  rewrite (In_forallb_path _ _ _ Hall Hin) in Hc. discriminate Hc.
Qed.

(* ---------------------------------------------------------------- (ii) *)
Definition frame_naive_statement : Prop :=
  forall fs cf old vers clock nextid root nm v s1 clock' nextid' fs1',
    let cr1 := core_build fs cf old vers clock nextid root in
    cr_outcome cr1 = inl v -> cr_state cr1 = Some s1 ->
    fs_wf fs -> isdir fs cf = false -> sanitized vers = true ->
    records_clean s1 = true -> records_distinct s1 = true -> no_foreign_targets fs cf old s1 ->
    fs_wf fs1' ->
    (forall q, observed_by s1 q = true -> lookup fs1' q = lookup (next_fs cf s1) q) ->
    cr_log (core_build fs1' cf (CoreCache.cache_of_state nm s1) vers clock' nextid' root) =
    cr_log (core_build (next_fs cf s1) cf (CoreCache.cache_of_state nm s1) vers clock' nextid' root).

Definition s_h1 : kstate := st_of h1.
Definition fshx' : fsT :=
  upd ["x"; "d"] (Some (NFile {| f_bytes := "foreign"; f_mtime := 30; f_id := 77; f_json := None |})) (next_fs cfc s_h1).

Theorem frame_naive_false : ~ frame_naive_statement.
Proof.
  intro S.
  assert (H1 : cr_outcome (core_build fs0 cfc (empty_cache "b" verso) verso 10 10 root_o) = inl (PBool false))
    by (vm_compute; reflexivity).
  assert (H2 : cr_state (core_build fs0 cfc (empty_cache "b" verso) verso 10 10 root_o) = Some s_h1)
    by (vm_compute; reflexivity).
  assert (H3 : isdir fs0 cfc = false) by (vm_compute; reflexivity).
  assert (H4 : sanitized verso = true) by (vm_compute; reflexivity).
  assert (H5 : records_clean s_h1 = true) by (vm_compute; reflexivity).
  assert (H5' : records_distinct s_h1 = true) by (vm_compute; reflexivity).
  assert (H6 : no_foreign_targets fs0 cfc (empty_cache "b" verso) s_h1) by (apply nft_of_bool; vm_compute; reflexivity).
  assert (H7 : fs_wf fshx') by (apply wf_b_sound; vm_compute; reflexivity).
  assert (H8 : forall q, observed_by s_h1 q = true -> lookup fshx' q = lookup (next_fs cfc s_h1) q).
  { intros q Hq. unfold fshx'. destruct (path_eqb ["x"; "d"] q) eqn:E.
    - apply FsLemmas.path_eqb_eq in E. subst q. vm_compute in Hq. discriminate Hq.
    - apply FsLemmas.path_eqb_neq in E. rewrite FsLemmas.lookup_upd_neq; [reflexivity|]. intro; subst q; apply E; reflexivity. }
  pose proof (S fs0 cfc (empty_cache "b" verso) verso 10%N 10%N root_o "b" (PBool false) s_h1 50%N 50%N fshx'
                H1 H2 fs0_wf H3 H4 H5 H5' H6 H7 H8) as E.
  apply (f_equal (@List.length logentry)) in E. vm_compute in E. discriminate E.
Qed.

Print Assumptions rerun_only_unclean_false.
Print Assumptions frame_naive_false.
