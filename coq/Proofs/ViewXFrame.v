(* Proofs/ViewXFrame.v — C04, reachability: a syntactic frame for the routines of
   BuildDirs that queries call (handle_dir_exists, check_maybe, is_removed): what they may
   change in the record, and that they keep SInv. *)
From Coq Require Import List String Ascii NArith ZArith Bool Arith Lia.
From FB.Base Require Import PyVal Fs.
From FB.Model Require Import Types Monad CreatedFiles BuildDirs SimpleOps Builder.
From FB.Proofs Require Import FsLemmas CleanLaws JsonLaws CoreLawsChildren
     ViewDefs ViewLemmas ViewScan ViewQueries ViewXDefs.
Import ListNotations.
Open Scope list_scope.

Definition tracked_in (b : bdirs) (t : path) : Prop :=
  mem_path t (bd_maybe b) = true \/ mem_path t (bd_removed b) = true.

Record sfr (fs : fsT) (b b' : bdirs) : Prop := {
  q_counts : bd_counts b' = bd_counts b;
  q_created : bd_created b' = bd_created b;
  q_err : bd_err_created b' = bd_err_created b;
  q_ex : forall x, mem_path x (bd_exists b) = true -> mem_path x (bd_exists b') = true;
  q_mb : forall x, mem_path x (bd_maybe b') = true -> mem_path x (bd_maybe b) = true;
  q_rm : forall x, mem_path x (bd_removed b') = true -> tracked_in b x;
  q_rf : forall x, mem_path x (bd_removed_files b') = true -> mem_path x (bd_removed_files b) = true;
  q_del : forall a, mem_path a (bd_removed_files b) = true -> mem_path a (bd_removed_files b') = false ->
          isfile fs a = false \/ exists t, tracked_in b t /\ suffix a t
}.

Lemma sfr_refl : forall fs b, sfr fs b b.
Proof.
  intros fs b. constructor; auto.
  - intros x H. right. exact H.
  - intros a H1 H2. congruence.
Qed.

Lemma sfr_tracked : forall fs b b' t, sfr fs b b' -> tracked_in b' t -> tracked_in b t.
Proof. intros fs b b' t F [H|H]; [left; apply (q_mb _ _ _ F); exact H|apply (q_rm _ _ _ F); exact H]. Qed.

Lemma sfr_trans : forall fs a b c, sfr fs a b -> sfr fs b c -> sfr fs a c.
Proof.
  intros fs a b c F G. constructor.
  - rewrite (q_counts _ _ _ G). apply (q_counts _ _ _ F).
  - rewrite (q_created _ _ _ G). apply (q_created _ _ _ F).
  - rewrite (q_err _ _ _ G). apply (q_err _ _ _ F).
  - intros x H. apply (q_ex _ _ _ G), (q_ex _ _ _ F), H.
  - intros x H. apply (q_mb _ _ _ F), (q_mb _ _ _ G), H.
  - intros x H. eapply sfr_tracked; [exact F|]. apply (q_rm _ _ _ G). exact H.
  - intros x H. apply (q_rf _ _ _ F), (q_rf _ _ _ G), H.
  - intros x H1 H2. destruct (mem_path x (bd_removed_files b)) eqn:E.
    + destruct (q_del _ _ _ G x E H2) as [H|[t [Ht Hs]]]; [left; exact H|right].
      exists t. split; [eapply sfr_tracked; eassumption|exact Hs].
    + apply (q_del _ _ _ F x H1 E).
Qed.

(* ------------------------------------------------------------------ handle_dir_exists *)
(* bd_exists closed upwards, as far as the ancestors of p go *)
Definition ex_closed_on (b : bdirs) (p : path) : Prop :=
  forall q, suffix q p -> mem_path q (bd_exists b) = true -> forall x, suffix x q -> mem_path x (bd_exists b) = true.

Lemma in_counts_with : forall b cr er rm ex mb rf x,
  in_counts (bd_with b (bd_counts b) cr er rm ex mb rf) x = in_counts b x.
Proof. reflexivity. Qed.

Lemma hde2_mono : forall p b x, mem_path x (bd_exists b) = true -> mem_path x (bd_exists (hde2 b p)) = true.
Proof.
  induction p as [|n d IH]; intros b x H; cbn [hde2].
  - destruct (mem_path [] (bd_exists b)); [exact H|]. cbn. rewrite mem_add_path, H. apply orb_true_r.
  - destruct (mem_path (n :: d) (bd_exists b)); [exact H|]. apply IH. cbn. rewrite mem_add_path, H. apply orb_true_r.
Qed.

Lemma hde2_all : forall p b, ex_closed_on b p -> forall x, suffix x p -> mem_path x (bd_exists (hde2 b p)) = true.
Proof.
  induction p as [|n d IH]; intros b Hcl x Hx; cbn [hde2].
  - apply suffix_nil in Hx. subst x. destruct (mem_path [] (bd_exists b)) eqn:E; [exact E|].
    cbn. rewrite mem_add_path. reflexivity.
  - destruct (mem_path (n :: d) (bd_exists b)) eqn:E.
    + apply (Hcl (n :: d) (suffix_refl _) E x Hx).
    + apply suffix_inv in Hx. destruct Hx as [->|Hx].
      * apply hde2_mono. cbn. rewrite mem_add_path, path_eqb_refl. reflexivity.
      * apply IH; [|exact Hx]. intros q Hq Hm y Hy. cbn in Hm |- *. rewrite mem_add_path in Hm |- *.
        destruct (path_eqb (n :: d) q) eqn:Eq.
        { apply path_eqb_eq in Eq. subst q. apply suffix_length in Hq. simpl in Hq. lia. }
        cbn [orb] in Hm. rewrite (Hcl q (suffix_cons _ _ _ Hq) Hm y Hy). apply orb_true_r.
Qed.

Lemma hde_mono : forall p b x, mem_path x (bd_exists b) = true -> mem_path x (bd_exists (handle_dir_exists b p)) = true.
Proof.
  induction p as [|n d IH]; intros b x H; cbn [handle_dir_exists].
  - destruct (mem_path [] (bd_exists b) || in_counts b []); [apply hde2_mono; exact H|].
    cbn. rewrite mem_add_path, H. apply orb_true_r.
  - destruct (mem_path (n :: d) (bd_exists b) || in_counts b (n :: d)); [apply hde2_mono; exact H|].
    apply IH. cbn. rewrite mem_add_path, H. apply orb_true_r.
Qed.

Lemma hde_all : forall p b, ex_closed_on b p -> forall x, suffix x p -> mem_path x (bd_exists (handle_dir_exists b p)) = true.
Proof.
  induction p as [|n d IH]; intros b Hcl x Hx; cbn [handle_dir_exists].
  - destruct (mem_path [] (bd_exists b) || in_counts b []); [apply hde2_all; assumption|].
    apply suffix_nil in Hx. subst x. cbn. rewrite mem_add_path. reflexivity.
  - destruct (mem_path (n :: d) (bd_exists b) || in_counts b (n :: d)); [apply hde2_all; assumption|].
    apply suffix_inv in Hx. destruct Hx as [->|Hx].
    + apply hde_mono. cbn. rewrite mem_add_path, path_eqb_refl. reflexivity.
    + apply IH; [|exact Hx]. intros q Hq Hm y Hy. cbn in Hm |- *. rewrite mem_add_path in Hm |- *.
      destruct (path_eqb (n :: d) q) eqn:Eq.
      { apply path_eqb_eq in Eq. subst q. apply suffix_length in Hq. simpl in Hq. lia. }
      cbn [orb] in Hm. rewrite (Hcl q (suffix_cons _ _ _ Hq) Hm y Hy). apply orb_true_r.
Qed.

(* the new members of bd_exists: reserved, or discarded from the three sets *)
Definition settled_new (b b' : bdirs) (x : path) : Prop :=
  in_counts b x = true \/
  (mem_path x (bd_maybe b') = false /\ mem_path x (bd_removed b') = false /\ mem_path x (bd_removed_files b') = false).

Lemma hde2_new : forall p b, (forall n d, in_counts b (n :: d) = true -> in_counts b d = true) ->
  mem_path p (bd_exists b) = true \/ in_counts b p = true ->
  forall x, mem_path x (bd_exists (hde2 b p)) = true -> mem_path x (bd_exists b) = true \/ in_counts b x = true.
Proof.
  induction p as [|n d IH]; intros b Hup Hp x Hx; cbn [hde2] in Hx.
  - destruct (mem_path [] (bd_exists b)) eqn:E; [left; exact Hx|]. destruct Hp as [Hp|Hp]; [congruence|].
    cbn in Hx. rewrite mem_add_path in Hx. apply orb_true_iff in Hx. destruct Hx as [Hx|Hx]; [|left; exact Hx].
    apply path_eqb_eq in Hx. subst. right. exact Hp.
  - destruct (mem_path (n :: d) (bd_exists b)) eqn:E; [left; exact Hx|]. destruct Hp as [Hp|Hp]; [congruence|].
    apply IH in Hx; [| exact Hup | right; apply (Hup n d Hp)].
    destruct Hx as [Hx|Hx]; [|right; exact Hx]. cbn in Hx. rewrite mem_add_path in Hx.
    apply orb_true_iff in Hx. destruct Hx as [Hx|Hx]; [|left; exact Hx].
    apply path_eqb_eq in Hx. subst. right. exact Hp.
Qed.

Lemma hde_new : forall p b, (forall n d, in_counts b (n :: d) = true -> in_counts b d = true) ->
  forall x, mem_path x (bd_exists (handle_dir_exists b p)) = true ->
  mem_path x (bd_exists b) = true \/ settled_new b (handle_dir_exists b p) x.
Proof.
  induction p as [|n d IH]; intros b Hup x Hx; cbn [handle_dir_exists] in Hx |- *.
  - destruct (mem_path [] (bd_exists b) || in_counts b []) eqn:E.
    + apply orb_true_iff in E. destruct (hde2_new [] b Hup E x Hx) as [H|H]; [left; exact H|right; left; exact H].
    + cbn in Hx. rewrite mem_add_path in Hx. apply orb_true_iff in Hx. destruct Hx as [Hx|Hx]; [|left; exact Hx].
      apply path_eqb_eq in Hx. subst x. right. right. cbn. rewrite !mem_del_path, path_eqb_refl. auto.
  - destruct (mem_path (n :: d) (bd_exists b) || in_counts b (n :: d)) eqn:E.
    + apply orb_true_iff in E. destruct (hde2_new (n :: d) b Hup E x Hx) as [H|H]; [left; exact H|right; left; exact H].
    + set (b1 := bd_with b (bd_counts b) (bd_created b) (bd_err_created b) (del_path (n :: d) (bd_removed b))
                         (add_path (n :: d) (bd_exists b)) (del_path (n :: d) (bd_maybe b))
                         (del_path (n :: d) (bd_removed_files b))) in *.
      destruct (IH b1 Hup x Hx) as [H|H].
      * cbn in H. rewrite mem_add_path in H. apply orb_true_iff in H. destruct H as [H|H]; [|left; exact H].
        apply path_eqb_eq in H. subst x. right. right.
        pose proof (hde_frame_ok d b1) as F.
        assert (G: forall l', mem_path (n :: d) (del_path (n :: d) l') = false)
          by (intro l'; rewrite mem_del_path, path_eqb_refl; reflexivity).
        repeat split.
        -- destruct (mem_path (n :: d) (bd_maybe (handle_dir_exists b1 d))) eqn:E1; [|reflexivity].
           apply (hf_maybe_sub _ _ _ F) in E1. cbn in E1. rewrite G in E1. discriminate.
        -- destruct (mem_path (n :: d) (bd_removed (handle_dir_exists b1 d))) eqn:E1; [|reflexivity].
           apply (hf_removed_sub _ _ _ F) in E1. cbn in E1. rewrite G in E1. discriminate.
        -- destruct (mem_path (n :: d) (bd_removed_files (handle_dir_exists b1 d))) eqn:E1; [|reflexivity].
           apply (hf_rf_sub _ _ _ F) in E1. cbn in E1. rewrite G in E1. discriminate.
      * right. exact H.
Qed.

(* the frame of handle_dir_exists when every ancestor of p that is a previous output is not a file *)
Lemma hde_sfr : forall fs b p,
  (forall a, suffix a p -> mem_path a (bd_removed_files b) = true ->
             isfile fs a = false \/ exists t, tracked_in b t /\ suffix a t) ->
  sfr fs b (handle_dir_exists b p).
Proof.
  intros fs b p Hok. pose proof (hde_frame_ok p b) as F. constructor.
  - apply (hf_counts _ _ _ F).
  - apply (hf_created _ _ _ F).
  - apply (hf_err _ _ _ F).
  - intros x H. apply hde_mono. exact H.
  - apply (hf_maybe_sub _ _ _ F).
  - intros x H. right. apply (hf_removed_sub _ _ _ F). exact H.
  - apply (hf_rf_sub _ _ _ F).
  - intros a H1 H2. apply Hok; [|exact H1]. apply (hf_rf_del _ _ _ F a H1 H2).
Qed.

Lemma SInv_up : forall b, SInv b -> (forall n d, in_counts b (n :: d) = true -> in_counts b d = true) ->
  forall p, ex_closed_on b p.
Proof. intros b HS _ p q _ Hm x Hx. eapply S_exists_up; eassumption. Qed.

Lemma hde_SInv : forall b p, SInv b -> (forall n d, in_counts b (n :: d) = true -> in_counts b d = true) ->
  SInv (handle_dir_exists b p).
Proof.
  intros b p HS Hup. pose proof (hde_frame_ok p b) as F.
  assert (Hc: forall x, in_counts (handle_dir_exists b p) x = in_counts b x).
  { intro x. unfold in_counts. rewrite (hf_counts _ _ _ F). reflexivity. }
  assert (Hunt: forall x, untracked b x -> untracked (handle_dir_exists b p) x).
  { intros x [H1 H2]. split.
    - destruct (mem_path x (bd_maybe (handle_dir_exists b p))) eqn:E; [|reflexivity]. apply (hf_maybe_sub _ _ _ F) in E. congruence.
    - destruct (mem_path x (bd_removed (handle_dir_exists b p))) eqn:E; [|reflexivity]. apply (hf_removed_sub _ _ _ F) in E. congruence. }
  assert (Hrf: forall x, mem_path x (bd_removed_files b) = false -> mem_path x (bd_removed_files (handle_dir_exists b p)) = false).
  { intros x H. destruct (mem_path x (bd_removed_files (handle_dir_exists b p))) eqn:E; [|reflexivity]. apply (hf_rf_sub _ _ _ F) in E. congruence. }
  constructor.
  - intros x H. rewrite (hf_created _ _ _ F) in H. rewrite Hc. apply (s_created _ HS x H).
  - intros x H. rewrite Hc in H. rewrite (hf_created _ _ _ F). destruct (s_nc _ HS x H) as [H1|H1]; [left; exact H1|right; apply Hunt; exact H1].
  - intros q Hq. destruct (mem_path q (bd_exists b)) eqn:E.
    + destruct (s_ex _ HS q E) as (A & B & C). split; [|split].
      * rewrite Hc. destruct A as [A|A]; [left; exact A|right; apply Hunt; exact A].
      * apply Hrf. exact B.
      * apply hde_mono. exact C.
    + assert (Hs: suffix q p).
      { destruct (hf_exists _ _ _ F q Hq) as [H0|H0]; [congruence|exact H0]. }
      assert (Hpar: mem_path (dirname q) (bd_exists (handle_dir_exists b p)) = true).
      { apply hde_all; [apply SInv_up; assumption|].
        destruct q as [|m q']; [exact Hs|]. cbn [dirname tl]. eapply suffix_trans; [|exact Hs]. apply suffix_cons, suffix_refl. }
      destruct (hde_new p b Hup q Hq) as [H|[H|(H1 & H2 & H3)]]; [congruence| |].
      * split; [left; rewrite Hc; exact H|]. split; [apply Hrf; apply (s_c_rf _ HS q H)|exact Hpar].
      * split; [right; split; assumption|]. split; [exact H3|exact Hpar].
  - intros x H. rewrite Hc in H. apply Hrf. apply (s_c_rf _ HS x H).
Qed.

Lemma hde_sfr_from : forall fs bI b p, sfr fs bI b ->
  (forall a, suffix a p -> mem_path a (bd_removed_files b) = true ->
             isfile fs a = false \/ exists t, tracked_in bI t /\ suffix a t) ->
  sfr fs bI (handle_dir_exists b p).
Proof.
  intros fs bI b p G Hok. pose proof (hde_frame_ok p b) as F. constructor.
  - rewrite (hf_counts _ _ _ F). apply (q_counts _ _ _ G).
  - rewrite (hf_created _ _ _ F). apply (q_created _ _ _ G).
  - rewrite (hf_err _ _ _ F). apply (q_err _ _ _ G).
  - intros x H. apply hde_mono. apply (q_ex _ _ _ G). exact H.
  - intros x H. apply (q_mb _ _ _ G). apply (hf_maybe_sub _ _ _ F). exact H.
  - intros x H. apply (q_rm _ _ _ G). apply (hf_removed_sub _ _ _ F). exact H.
  - intros x H. apply (q_rf _ _ _ G). apply (hf_rf_sub _ _ _ F). exact H.
  - intros a H1 H2. destruct (mem_path a (bd_removed_files b)) eqn:E.
    + apply Hok; [|exact E]. apply (hf_rf_del _ _ _ F a E H2).
    + apply (q_del _ _ _ G a H1 E).
Qed.

(* ------------------------------------------------------------------ the scan *)
Lemma SInv_drop_maybe : forall b d, SInv b -> SInv (drop_maybe b d).
Proof.
  intros b d HS.
  assert (Hunt: forall x, untracked b x -> untracked (drop_maybe b d) x).
  { intros x [H1 H2]. split; [|exact H2]. cbn. rewrite mem_del_path, H1. apply andb_false_r. }
  constructor; cbn [drop_maybe bd_with bd_created bd_exists bd_removed_files].
  - apply (s_created _ HS).
  - intros x H. destruct (s_nc _ HS x H) as [H1|H1]; [left; exact H1|right; apply Hunt; exact H1].
  - intros q Hq. destruct (s_ex _ HS q Hq) as (A & B & C). split; [|split; assumption].
    destruct A as [A|A]; [left; exact A|right; apply Hunt; exact A].
  - apply (s_c_rf _ HS).
Qed.

Lemma SInv_add_removed : forall b d, SInv b -> in_counts b d = false -> mem_path d (bd_exists b) = false ->
  SInv (add_removed b d).
Proof.
  intros b d HS Hc He.
  assert (Hunt: forall x, x <> d -> untracked b x -> untracked (add_removed b d) x).
  { intros x Hx [H1 H2]. split; [exact H1|]. cbn. rewrite mem_add_path, H2.
    destruct (path_eqb d x) eqn:E; [apply path_eqb_eq in E; congruence|reflexivity]. }
  constructor; cbn [add_removed bd_with bd_created bd_exists bd_removed_files].
  - apply (s_created _ HS).
  - intros x H. change (in_counts b x = true) in H. destruct (s_nc _ HS x H) as [H1|H1]; [left; exact H1|right].
    apply Hunt; [intro; subst; congruence|exact H1].
  - intros q Hq. destruct (s_ex _ HS q Hq) as (A & B & C). split; [|split; assumption].
    destruct A as [A|A]; [left; exact A|right; apply Hunt; [intro; subst; congruence|exact A]].
  - apply (s_c_rf _ HS).
Qed.

Lemma sfr_drop_from : forall fs bI b d, sfr fs bI b -> sfr fs bI (drop_maybe b d).
Proof.
  intros fs bI b d G. destruct G. constructor; cbn [drop_maybe bd_with bd_counts bd_created bd_err_created bd_exists bd_maybe bd_removed bd_removed_files]; auto.
  intros x H. apply q_mb0. eapply del_mem_sub. exact H.
Qed.

Lemma sfr_add_from : forall fs bI b d, sfr fs bI b -> mem_path d (bd_maybe bI) = true -> sfr fs bI (add_removed b d).
Proof.
  intros fs bI b d G Hd. destruct G. constructor; cbn [add_removed bd_with bd_counts bd_created bd_err_created bd_exists bd_maybe bd_removed bd_removed_files]; auto.
  intros x H. rewrite mem_add_path in H. apply orb_true_iff in H. destruct H as [H|H]; [|apply q_rm0; exact H].
  apply path_eqb_eq in H. subst x. left. exact Hd.
Qed.

Definition cm_post (fs : fsT) (bI : bdirs) (res : scanres) : Prop :=
  match res with
  | ScanOk b' r => sfr fs bI b' /\ SInv b' /\ (r = true -> bd_exists b' = bd_exists bI)
  | ScanErr b' e => sfr fs bI b' /\ SInv b'
  | ScanFuel => True
  end.

Lemma cm_post_trans : forall fs a b res, sfr fs a b -> bd_exists b = bd_exists a -> cm_post fs b res -> cm_post fs a res.
Proof.
  intros fs a b res G E H. destruct res as [b' r|b' e|]; cbn [cm_post] in *; [| |exact I].
  - destruct H as (H1 & H2 & H3). split; [eapply sfr_trans; eassumption|]. split; [exact H2|]. intro Hr. rewrite (H3 Hr). exact E.
  - destruct H as (H1 & H2). split; [eapply sfr_trans; eassumption|exact H2].
Qed.

Section ScanFrame.
  Variable fs : fsT.
  Hypothesis Hwf : fs_wf fs.

  Lemma dir_chain_notfile : forall p a, lookup fs p = Some NDir -> suffix a p -> isfile fs a = false.
  Proof. intros p a Hp Ha. unfold isfile. rewrite (wf_suffix_dir _ _ _ Hwf Hp Ha). reflexivity. Qed.

  Definition cup (b : bdirs) : Prop := forall n d, in_counts b (n :: d) = true -> in_counts b d = true.

  Lemma cup_sfr : forall a b, sfr fs a b -> cup a -> cup b.
  Proof. intros a b G H n d. unfold in_counts. rewrite (q_counts _ _ _ G). apply H. Qed.

  (* a final handle_dir_exists on a directory of the disk *)
  Lemma hde_dir_post : forall bI b p, sfr fs bI b -> SInv b -> cup bI -> lookup fs p = Some NDir ->
    cm_post fs bI (ScanOk (handle_dir_exists b p) false).
  Proof.
    intros bI b p G HS Hup Hp. cbn [cm_post]. split; [|split; [|discriminate]].
    - apply hde_sfr_from; [exact G|]. intros a Ha _. left. eapply dir_chain_notfile; eassumption.
    - apply hde_SInv; [exact HS|eapply cup_sfr; eassumption].
  Qed.

  Lemma scan_loop_frame : forall f,
    (forall b a, SInv b -> cup b -> mem_path a (bd_maybe b) = true -> in_counts b a = false ->
                 cm_post fs b (check_maybe f fs b a)) ->
    forall bI d, cup bI -> mem_path d (bd_maybe bI) = true -> in_counts bI d = false ->
    mem_path d (bd_exists bI) = false -> lookup fs d = Some NDir ->
    forall ns b1, sfr fs bI b1 -> SInv b1 -> bd_exists b1 = bd_exists bI ->
      cm_post fs bI (scan_loop (check_maybe f fs) fs d ns b1).
  Proof.
    intros f IH bI d Hup Hd Hc He Hl. induction ns as [|n rest IHns]; intros b1 G HS Hex.
    - cbn [scan_loop]. fold (add_removed b1 d). cbn [cm_post]. split; [apply sfr_add_from; assumption|].
      split; [|intros _; cbn; exact Hex].
      apply SInv_add_removed; [exact HS| |rewrite Hex; exact He].
      unfold in_counts. rewrite (q_counts _ _ _ G). exact Hc.
    - cbn [scan_loop]. cbv zeta.
      assert (Hup1: cup b1) by (eapply cup_sfr; eassumption).
      destruct (mem_path (n :: d) (bd_removed b1)).
      { destruct (isfile fs (n :: d)); [apply hde_dir_post; assumption|apply IHns; assumption]. }
      destruct (mem_path (n :: d) (bd_removed_files b1)).
      { destruct (isdir fs (n :: d)) eqn:Ei; [|apply IHns; assumption].
        apply hde_dir_post; try assumption. apply isdir_lookup. exact Ei. }
      destruct (mem_path (n :: d) (bd_maybe b1)) eqn:E3.
      { assert (Hca: in_counts b1 (n :: d) = false).
        { destruct (in_counts b1 (n :: d)) eqn:E; [|reflexivity]. apply Hup1 in E.
          unfold in_counts in E, Hc. rewrite (q_counts _ _ _ G) in E. congruence. }
        pose proof (IH b1 (n :: d) HS Hup1 E3 Hca) as P.
        destruct (check_maybe f fs b1 (n :: d)) as [b2 r|b2 e|] eqn:Er.
        - destruct r.
          + cbn [cm_post] in P. destruct P as (P1 & P2 & P3).
            apply IHns; [eapply sfr_trans; eassumption|exact P2|rewrite (P3 eq_refl); exact Hex].
          + eapply cm_post_trans; eassumption.
        - eapply cm_post_trans; eassumption.
        - exact I. }
      destruct (isdir fs (n :: d)) eqn:Ei.
      + apply hde_dir_post; try assumption. apply isdir_lookup. exact Ei.
      + apply hde_dir_post; assumption.
  Qed.

  Lemma check_maybe_frame : forall f b d, SInv b -> cup b -> mem_path d (bd_maybe b) = true -> in_counts b d = false ->
    cm_post fs b (check_maybe f fs b d).
  Proof.
    induction f as [|f IH]; intros b d HS Hup Hd Hc; [exact I|].
    rewrite check_maybe_eq.
    assert (He: mem_path d (bd_exists b) = false).
    { destruct (mem_path d (bd_exists b)) eqn:E; [|reflexivity]. destruct (s_ex _ HS d E) as ([A|[A _]] & _); congruence. }
    pose proof (sfr_drop_from fs b b d (sfr_refl fs b)) as G0.
    pose proof (SInv_drop_maybe b d HS) as HS0.
    assert (Hnotdir: cm_post fs b (ScanOk (handle_dir_exists (drop_maybe b d) (dirname d)) false)).
    { cbn [cm_post]. split; [|split; [|discriminate]].
      - apply hde_sfr_from; [exact G0|]. intros a Ha _. right. exists d. split; [left; exact Hd|].
        destruct d as [|m d']; [exact Ha|apply suffix_cons; exact Ha].
      - apply hde_SInv; [exact HS0|eapply cup_sfr; eassumption]. }
    unfold listdir. destruct (lookup fs d) as [[g|]|] eqn:El.
    - exact Hnotdir.
    - apply scan_loop_frame; auto.
    - unfold stat_err. destruct (absent_err fs d).
      + cbn [cm_post]. split; [apply sfr_add_from; assumption|]. split; [|intros _; reflexivity].
        apply SInv_add_removed; [exact HS0|exact Hc|exact He].
      + exact Hnotdir.
      + cbn [cm_post]. split; assumption.
      + cbn [cm_post]. split; assumption.
      + cbn [cm_post]. split; assumption.
      + cbn [cm_post]. split; assumption.
  Qed.

  Theorem is_removed_frame : forall b d, SInv b -> cup b ->
    match is_removed fs b d with
    | ScanOk b' _ | ScanErr b' _ => sfr fs b b' /\ SInv b'
    | ScanFuel => True
    end.
  Proof.
    intros b d HS Hup. unfold is_removed.
    destruct (in_counts b d) eqn:Ec; [split; [apply sfr_refl|exact HS]|].
    destruct (mem_path d (bd_removed b)); [split; [apply sfr_refl|exact HS]|].
    destruct (mem_path d (bd_maybe b)) eqn:Em; cbn [negb]; [|split; [apply sfr_refl|exact HS]].
    pose proof (check_maybe_frame (S (List.length (bd_maybe b))) b d HS Hup Em Ec) as P.
    destruct (check_maybe (S (List.length (bd_maybe b))) fs b d) as [b' r|b' e|]; cbn [cm_post] in P; [| |exact I].
    - destruct P as (P1 & P2 & _). split; assumption.
    - exact P.
  Qed.
End ScanFrame.

Print Assumptions is_removed_frame.
