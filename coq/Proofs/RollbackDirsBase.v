(* Proofs/RollbackDirsBase.v — pure facts used by the directory half of the rollback
   law: the sorts of _remove_empty_dirs / _create_dirs really sort (a child path is
   strictly longer than its parent), well-formedness of the tree is kept by every
   system call of the model, and what BuildDirs.started_building_file /
   error_building_file do to the lock counts and the lists of created directories. *)
From Coq Require Import List String Ascii NArith ZArith Bool Arith Lia Sorted.
From FB.Base Require Import PyVal Fs.
From FB.Gen Require Import JsonUtilGen.
From FB.Spec Require Import Prog.
From FB.Model Require Import Types Monad CreatedFiles BuildDirs SimpleOps Builder Persist Build Run Frame.
From FB.Proofs Require Import FsLemmas ReplayLaws FrameLaws CleanLaws RollbackDirsLaws.
Import ListNotations.
Local Open Scope list_scope.

(* ================================================================== *)
(* 1. Insertion sort sorts                                             *)
(* ================================================================== *)

Section Sort.
Variable A : Type.
Variable leb : A -> A -> bool.
Hypothesis leb_total : forall a b, leb a b = false -> leb b a = true.
Hypothesis leb_trans : forall a b c, leb a b = true -> leb b c = true -> leb a c = true.

Let R (a b : A) : Prop := leb a b = true.

Lemma insert_by_sorted : forall x l, StronglySorted R l -> StronglySorted R (insert_by leb x l).
Proof.
  intros x l H. induction H as [|y ys Hs IH Hy]; cbn [insert_by].
  - constructor; constructor.
  - destruct (leb x y) eqn:E.
    + constructor; [constructor; assumption|]. constructor; [exact E|].
      rewrite Forall_forall in Hy |- *. intros z Hz. eapply leb_trans; [exact E | apply Hy; exact Hz].
    + constructor; [exact IH|]. rewrite Forall_forall in Hy |- *. intros z Hz.
      apply In_insert_by' in Hz. destruct Hz as [<-|Hz]; [apply leb_total; exact E | apply Hy; exact Hz].
Qed.

Lemma sort_by_sorted : forall l, StronglySorted R (sort_by leb l).
Proof.
  induction l as [|a l IH]; cbn; [constructor|]. fold (sort_by leb l). apply insert_by_sorted. exact IH.
Qed.
End Sort.

Lemma string_length_append : forall a b, String.length (a ++ b) = String.length a + String.length b.
Proof. induction a as [|c a IH]; intro b; cbn; [reflexivity | rewrite IH; reflexivity]. Qed.

Lemma plen_cons : forall n d, plen (n :: d) = plen d + 1 + String.length n.
Proof.
  intros n d.
  assert (E : path_str (n :: d) = (path_str d ++ "/" ++ n)%string).
  { unfold path_str. cbn [rev]. rewrite fold_left_app. reflexivity. }
  unfold plen. rewrite E. generalize (path_str d). intro s.
  rewrite !string_length_append. cbn [String.length append]. lia.
Qed.

Lemma plen_cons_lt : forall n d, plen d < plen (n :: d).
Proof. intros. rewrite plen_cons. lia. Qed.

Definition longer_first (a b : path) : Prop := plen b <= plen a.
Definition shorter_first (a b : path) : Prop := plen a <= plen b.

Lemma StronglySorted_impl : forall A (R R' : A -> A -> Prop) l,
  (forall a b, R a b -> R' a b) -> StronglySorted R l -> StronglySorted R' l.
Proof.
  intros A R R' l HR H. induction H as [|a l Hs IH Hf]; constructor; [exact IH|].
  rewrite Forall_forall in Hf |- *. intros x Hx. apply HR. apply Hf. exact Hx.
Qed.

Lemma sort_longest_sorted : forall l, StronglySorted longer_first (sort_longest_first l).
Proof.
  intro l. unfold sort_longest_first.
  apply (StronglySorted_impl _ (fun a b => Nat.leb (plen b) (plen a) = true)).
  - intros a b E. apply Nat.leb_le in E. exact E.
  - apply sort_by_sorted.
    + intros a b E. apply Nat.leb_gt in E. apply Nat.leb_le. lia.
    + intros a b c E1 E2. apply Nat.leb_le in E1, E2. apply Nat.leb_le. lia.
Qed.

Lemma sort_shortest_sorted : forall l, StronglySorted shorter_first (sort_shortest_first l).
Proof.
  intro l. unfold sort_shortest_first.
  apply (StronglySorted_impl _ (fun a b => Nat.leb (plen a) (plen b) = true)).
  - intros a b E. apply Nat.leb_le in E. exact E.
  - apply sort_by_sorted.
    + intros a b E. apply Nat.leb_gt in E. apply Nat.leb_le. lia.
    + intros a b c E1 E2. apply Nat.leb_le in E1, E2. apply Nat.leb_le. lia.
Qed.

(* ================================================================== *)
(* 2. Lists of paths                                                   *)
(* ================================================================== *)

Lemma In_del_path_neq : forall p q l, In q l -> q <> p -> In q (del_path p l).
Proof.
  intros p q l. induction l as [|x l IH]; intros H Hn; [destruct H|]. cbn [del_path].
  destruct (path_eqb x p) eqn:E.
  - destruct H as [H|H]; [|apply IH; assumption]. subst x. apply path_eqb_eq in E. contradiction.
  - destruct H as [H|H]; [left; exact H | right; apply IH; assumption].
Qed.

Lemma In_add_path' : forall x p l, In x (add_path p l) <-> x = p \/ In x l.
Proof.
  intros x p l. unfold add_path. destruct (mem_path p l) eqn:E.
  - split; [auto|]. intros [->|H]; [apply mem_path_In; exact E | exact H].
  - rewrite in_app_iff. cbn [In]. split.
    + intros [H|[H|[]]]; [right; exact H | left; symmetry; exact H].
    + intros [H|H]; [right; left; symmetry; exact H | left; exact H].
Qed.

Lemma In_fold_add_path : forall b a x, In x (fold_left (fun acc p => add_path p acc) b a) <-> In x a \/ In x b.
Proof.
  induction b as [|y b IH]; intros a x; cbn [fold_left].
  - cbn. tauto.
  - rewrite IH, In_add_path'. cbn [In]. split; intros H; intuition (subst; auto).
Qed.

Lemma In_union_paths : forall a b x, In x (union_paths a b) <-> In x a \/ In x b.
Proof. intros a b x. unfold union_paths. apply In_fold_add_path. Qed.

Lemma path_eq_dec : forall a b : path, {a = b} + {a <> b}.
Proof.
  intros a b. destruct (path_eqb a b) eqn:E; [left; apply path_eqb_eq; exact E | right; apply path_eqb_neq; exact E].
Qed.

Lemma cons_neq_self : forall (n : name) (d : path), n :: d <> d.
Proof. intros n d H. apply (f_equal (@List.length _)) in H. cbn in H. lia. Qed.

Lemma below_not_eq : forall a b, below a b = true -> a <> b.
Proof. intros a b H E. subst. rewrite below_irrefl in H. discriminate H. Qed.

(* a is d or lies above d, and d is above-or-equal ... : the chain between two paths *)
Lemma below_cons_inv : forall a n d, below a (n :: d) = true -> a = d \/ below a d = true.
Proof.
  intros a n d H. cbn [below] in H. apply orb_true_iff in H. destruct H as [H|H]; [|right; exact H].
  left. apply path_eqb_eq in H. symmetry. exact H.
Qed.

(* every element of a list of paths is no longer than the longest *)
Lemma length_le_max : forall (L : list path) d, In d L -> List.length d <= list_max (map (@List.length name) L).
Proof.
  intros L d H. pose proof (proj1 (list_max_le (map (@List.length name) L) _) (le_n _)) as F.
  rewrite Forall_forall in F. apply F. apply in_map. exact H.
Qed.

(* ================================================================== *)
(* 3. Well-formedness is kept by every call                            *)
(* ================================================================== *)

Lemma wf_del : forall fs fs' p, fs_wf fs ->
  lookup fs' p = None -> (forall q, q <> p -> lookup fs' q = lookup fs q) ->
  (forall n, lookup fs (n :: p) = None) -> fs_wf fs'.
Proof.
  intros fs fs' p Hwf Hp Hfr Hch q x Hq.
  destruct (path_eq_dec q p) as [->|Nq]; [rewrite Hp in Hq; discriminate Hq|].
  rewrite (Hfr q Nq) in Hq. pose proof (Hwf _ _ Hq) as Hd.
  destruct (path_eq_dec (dirname q) p) as [E|N].
  - destruct q as [|n q']; cbn [dirname tl] in *.
    + subst p. contradiction.
    + subst q'. rewrite Hch in Hq. discriminate Hq.
  - rewrite (Hfr _ N). exact Hd.
Qed.

Lemma wf_put : forall fs fs' p x, fs_wf fs -> p <> [] ->
  lookup fs' p = Some x -> (forall q, q <> p -> lookup fs' q = lookup fs q) ->
  lookup fs (dirname p) = Some NDir -> (lookup fs p = Some NDir -> x = NDir) -> fs_wf fs'.
Proof.
  intros fs fs' p x Hwf Hne Hp Hfr Hpar Hkeep q y Hq.
  assert (Hdp : dirname p <> p).
  { destruct p as [|n d]; [contradiction|]. cbn [dirname tl]. intro E. symmetry in E. exact (cons_neq_self _ _ E). }
  destruct (path_eq_dec q p) as [->|Nq].
  - rewrite (Hfr _ Hdp). exact Hpar.
  - rewrite (Hfr q Nq) in Hq. pose proof (Hwf _ _ Hq) as Hd.
    destruct (path_eq_dec (dirname q) p) as [E|N].
    + rewrite E in Hd |- *. rewrite Hp. rewrite (Hkeep Hd). reflexivity.
    + rewrite (Hfr _ N). exact Hd.
Qed.

Lemma wf_no_child_of_file : forall fs p f, fs_wf fs -> lookup fs p = Some (NFile f) -> forall n, lookup fs (n :: p) = None.
Proof.
  intros fs p f Hwf Hp n. destruct (lookup fs (n :: p)) as [x|] eqn:E; [|reflexivity].
  apply Hwf in E. cbn [dirname tl] in E. congruence.
Qed.

Lemma wf_no_child_of_absent : forall fs p, fs_wf fs -> lookup fs p = None -> forall n, lookup fs (n :: p) = None.
Proof.
  intros fs p Hwf Hp n. destruct (lookup fs (n :: p)) as [x|] eqn:E; [|reflexivity].
  apply Hwf in E. cbn [dirname tl] in E. congruence.
Qed.

Lemma mkdir_wf : forall fs d fs', mkdir fs d = inl fs' -> fs_wf fs -> fs_wf fs'.
Proof.
  intros fs d fs' H Hwf. pose proof H as H0. apply mkdir_frame in H. destruct H as (H1 & H2 & H3).
  unfold mkdir in H0. destruct d as [|n d]; [discriminate H0|]. rewrite H2 in H0.
  destruct (lookup fs d) as [[g|]|] eqn:E; try discriminate H0.
  eapply (wf_put fs fs' (n :: d) NDir); eauto; try discriminate; try (intro X; congruence).
Qed.

Lemma rmdir_wf : forall fs d fs', rmdir fs d = inl fs' -> fs_wf fs -> fs_wf fs'.
Proof.
  intros fs d fs' H Hwf. apply rmdir_frame in H. destruct H as (H1 & H2 & H3 & H4 & H5).
  eapply (wf_del fs fs' d); eauto. apply children_nil_lookup. exact H2.
Qed.

Lemma remove_wf : forall fs p fs', remove fs p = inl fs' -> fs_wf fs -> fs_wf fs'.
Proof.
  intros fs p fs' H Hwf. apply remove_frame in H. destruct H as ((f & H1) & H2 & H3).
  eapply (wf_del fs fs' p); eauto. eapply wf_no_child_of_file; eauto.
Qed.

Lemma write_file_wf : forall fs p b j m i fs', write_file fs p b j m i = inl fs' -> fs_wf fs -> fs_wf fs'.
Proof.
  intros fs p b j m i fs' H Hwf. pose proof H as H0. apply write_file_frame in H. destruct H as ((g & G1 & _) & G2).
  unfold write_file in H0. destruct p as [|n d]; [discriminate H0|].
  destruct (lookup fs (n :: d)) as [[f|]|] eqn:E1; try discriminate H0.
  - eapply (wf_put fs fs' (n :: d)); eauto; try discriminate; try (intro X; congruence);
      try exact (Hwf _ _ E1).
  - destruct (lookup fs d) as [[f|]|] eqn:E2; try discriminate H0.
    eapply (wf_put fs fs' (n :: d)); eauto; try discriminate; try (intro X; congruence).
Qed.

Lemma replace_in_wf : forall fs p f fs', replace_in fs p f = inl fs' -> fs_wf fs -> fs_wf fs'.
Proof.
  intros fs p f fs' H Hwf. pose proof H as H0. apply replace_in_frame in H. destruct H as (G1 & G2).
  unfold replace_in in H0. destruct p as [|n d]; [discriminate H0|].
  assert (Hd : lookup fs d = Some NDir /\ lookup fs (n :: d) <> Some NDir).
  { destruct (lookup fs (n :: d)) as [[g|]|]; try discriminate H0;
      (destruct (lookup fs d) as [[g'|]|]; try discriminate H0; split; [reflexivity | discriminate]). }
  destruct Hd as [Hd Hn].
  eapply (wf_put fs fs' (n :: d)); eauto; try discriminate; try (intro X; contradiction).
Qed.

Lemma makedirs_p_wf : forall p fs fs' e, makedirs_p fs p = (fs', e) -> fs_wf fs -> fs_wf fs'.
Proof.
  induction p as [|n d IH]; intros fs fs' e H Hwf; cbn [makedirs_p] in H.
  - cbn in H. inversion H; subst. exact Hwf.
  - destruct (lookup fs (n :: d)) as [[g|]|]; try (inversion H; subst; exact Hwf).
    destruct (makedirs_p fs d) as [fs1 [e1|]] eqn:E1.
    + inversion H; subst. eapply IH; eauto.
    + pose proof (IH _ _ _ E1 Hwf) as Hwf1.
      destruct (mkdir fs1 (n :: d)) as [fs2|e2] eqn:E2; inversion H; subst; [eapply mkdir_wf; eauto | exact Hwf1].
Qed.

(* ================================================================== *)
(* 4. Directory lookups under the calls that only touch regular files   *)
(* ================================================================== *)

Definition dirs_same (fs fs' : fsT) : Prop := forall d, lookup fs' d = Some NDir <-> lookup fs d = Some NDir.

Lemma dirs_same_refl : forall fs, dirs_same fs fs.
Proof. intros fs d. tauto. Qed.

Lemma dirs_same_trans : forall a b c, dirs_same a b -> dirs_same b c -> dirs_same a c.
Proof. intros a b c H1 H2 d. rewrite (H2 d). apply H1. Qed.

Lemma dirs_same_one : forall fs fs' p, (forall q, q <> p -> lookup fs' q = lookup fs q) ->
  lookup fs p <> Some NDir -> lookup fs' p <> Some NDir -> dirs_same fs fs'.
Proof.
  intros fs fs' p Hfr H1 H2 d. destruct (path_eq_dec d p) as [->|N].
  - split; intro X; contradiction.
  - rewrite (Hfr d N). tauto.
Qed.

Lemma remove_dirs_same : forall fs p fs', remove fs p = inl fs' -> dirs_same fs fs'.
Proof.
  intros fs p fs' H. apply remove_frame in H. destruct H as ((f & H1) & H2 & H3).
  apply (dirs_same_one fs fs' p H3); congruence.
Qed.

Lemma write_file_dirs_same : forall fs p b j m i fs', write_file fs p b j m i = inl fs' -> dirs_same fs fs'.
Proof.
  intros fs p b j m i fs' H. pose proof H as H0. apply write_file_frame in H. destruct H as ((g & G1 & _) & G2).
  apply (dirs_same_one fs fs' p G2); [|congruence].
  unfold write_file in H0. destruct p as [|n d]; [discriminate H0|].
  destruct (lookup fs (n :: d)) as [[f|]|]; try discriminate H0; discriminate.
Qed.

Lemma rename_out_file_dirs_same : forall fs p fs' f, rename_out fs p = inl (fs', NFile f) -> dirs_same fs fs'.
Proof.
  intros fs p fs' f H. apply rename_out_file_frame in H. destruct H as (H1 & H2 & H3).
  apply (dirs_same_one fs fs' p H3); congruence.
Qed.

Lemma rename_out_file_wf : forall fs p fs' f, rename_out fs p = inl (fs', NFile f) -> fs_wf fs -> fs_wf fs'.
Proof.
  intros fs p fs' f H Hwf. apply rename_out_file_frame in H. destruct H as (H1 & H2 & H3).
  eapply (wf_del fs fs' p); eauto. eapply wf_no_child_of_file; eauto.
Qed.

(* ================================================================== *)
(* 5. Lock counts                                                      *)
(* ================================================================== *)

Lemma cnt_get_set : forall l p n q, cnt_get (cnt_set l p n) q = if path_eqb p q then Some n else cnt_get l q.
Proof.
  induction l as [|[k v] l IH]; intros p n q; cbn [cnt_set cnt_get].
  - reflexivity.
  - destruct (path_eqb k p) eqn:E1.
    + apply path_eqb_eq in E1. subst k. cbn [cnt_get]. destruct (path_eqb p q); reflexivity.
    + cbn [cnt_get]. rewrite IH. destruct (path_eqb k q) eqn:E2; [|reflexivity].
      apply path_eqb_eq in E2. subst k. apply path_eqb_neq in E1.
      destruct (path_eqb p q) eqn:E3; [|reflexivity]. apply path_eqb_eq in E3. subst. contradiction.
Qed.

Lemma cnt_get_del : forall l p q, cnt_get (cnt_del l p) q = if path_eqb p q then None else cnt_get l q.
Proof.
  induction l as [|[k v] l IH]; intros p q; cbn [cnt_del cnt_get].
  - destruct (path_eqb p q); reflexivity.
  - destruct (path_eqb k p) eqn:E1.
    + apply path_eqb_eq in E1. subst k. rewrite IH. destruct (path_eqb p q); reflexivity.
    + cbn [cnt_get]. rewrite IH. destruct (path_eqb k q) eqn:E2; [|reflexivity].
      apply path_eqb_eq in E2. subst k. rewrite path_eqb_sym, E1. reflexivity.
Qed.

Definition tracked (b : bdirs) (d : path) : Prop := In d (bd_created b) \/ In d (bd_err_created b).

(* started_building_file: the walk from [parent] towards the root *)
Lemma bd_started_from_spec : forall parent b cds acc b' acc',
  bd_started_from b cds parent acc = (b', acc') ->
  bd_removed b' = bd_removed b /\ bd_maybe b' = bd_maybe b /\
  (forall d, In d (bd_created b) -> In d (bd_created b')) /\
  (forall d, tracked b d -> tracked b' d) /\
  (forall d, tracked b' d -> tracked b d \/ In d cds) /\
  (forall a, in_counts b' a = true -> in_counts b a = true \/ a = parent \/ below a parent = true) /\
  (forall d, (d = parent \/ below d parent = true) -> In d cds ->
     (forall a, (a = parent \/ below a parent = true) -> (a = d \/ below d a = true) -> in_counts b a = false) ->
     In d (bd_created b')).
Proof.
  induction parent as [|n dd IH]; intros b cds acc b' acc' H; cbn [bd_started_from] in H; cbv zeta in H.
  - (* the root *)
    destruct (cnt_get (bd_counts b) []) as [c|] eqn:Ec.
    + destruct (Nat.ltb 0 c) eqn:El.
      * inversion H; subst; clear H. cbn [bd_removed bd_maybe bd_created bd_err_created bd_with].
        split; [reflexivity|]. split; [reflexivity|]. split; [auto|]. split; [auto|]. split; [auto|]. split.
        -- intros a Ha. unfold in_counts in Ha |- *. cbn [bd_counts bd_with] in Ha. rewrite cnt_get_set in Ha.
           destruct (path_eqb [] a) eqn:E; [right; left; symmetry; apply path_eqb_eq; exact E | left; exact Ha].
        -- intros d Hd _ Hc. exfalso.
           assert (X : in_counts b [] = false).
           { apply Hc; [left; reflexivity|]. destruct Hd as [->|Hd]; [left; reflexivity | cbn in Hd; discriminate Hd]. }
           unfold in_counts in X. rewrite Ec in X. discriminate X.
      * destruct (mem_path [] cds) eqn:Em; inversion H; subst; clear H;
          cbn [bd_removed bd_maybe bd_created bd_err_created bd_with].
        -- split; [reflexivity|]. split; [reflexivity|]. split; [intros d Hd; apply In_add_path'; auto|].
           split; [|split; [|split]].
           ++ intros d [Hd|Hd]; [left; apply In_add_path'; auto|].
              destruct (path_eq_dec d []) as [->|N]; [left; apply In_add_path'; auto | right; apply In_del_path_neq; assumption].
           ++ intros d [Hd|Hd].
              ** apply In_add_path' in Hd. destruct Hd as [->|Hd]; [right; apply mem_path_In; exact Em | left; left; exact Hd].
              ** apply In_del_path in Hd. left; right; exact Hd.
           ++ intros a Ha. unfold in_counts in Ha |- *. cbn [bd_counts bd_with] in Ha. rewrite cnt_get_set in Ha.
              destruct (path_eqb [] a) eqn:E; [right; left; symmetry; apply path_eqb_eq; exact E | left; exact Ha].
           ++ intros d Hd _ _. destruct Hd as [->|Hd]; [apply In_add_path'; auto | cbn in Hd; discriminate Hd].
        -- split; [reflexivity|]. split; [reflexivity|]. split; [auto|]. split; [auto|]. split; [auto|]. split.
           ++ intros a Ha. unfold in_counts in Ha |- *. cbn [bd_counts bd_with] in Ha. rewrite cnt_get_set in Ha.
              destruct (path_eqb [] a) eqn:E; [right; left; symmetry; apply path_eqb_eq; exact E | left; exact Ha].
           ++ intros d Hd Hin _. destruct Hd as [->|Hd]; [|cbn in Hd; discriminate Hd].
              apply mem_path_In in Hin. congruence.
    + cbn [Nat.ltb Nat.leb] in H.
      destruct (mem_path [] cds) eqn:Em; inversion H; subst; clear H;
        cbn [bd_removed bd_maybe bd_created bd_err_created bd_with].
      * split; [reflexivity|]. split; [reflexivity|]. split; [intros d Hd; apply In_add_path'; auto|].
        split; [|split; [|split]].
        -- intros d [Hd|Hd]; [left; apply In_add_path'; auto|].
           destruct (path_eq_dec d []) as [->|N]; [left; apply In_add_path'; auto | right; apply In_del_path_neq; assumption].
        -- intros d [Hd|Hd].
           ++ apply In_add_path' in Hd. destruct Hd as [->|Hd]; [right; apply mem_path_In; exact Em | left; left; exact Hd].
           ++ apply In_del_path in Hd. left; right; exact Hd.
        -- intros a Ha. unfold in_counts in Ha |- *. cbn [bd_counts bd_with] in Ha. rewrite cnt_get_set in Ha.
           destruct (path_eqb [] a) eqn:E; [right; left; symmetry; apply path_eqb_eq; exact E | left; exact Ha].
        -- intros d Hd _ _. destruct Hd as [->|Hd]; [apply In_add_path'; auto | cbn in Hd; discriminate Hd].
      * split; [reflexivity|]. split; [reflexivity|]. split; [auto|]. split; [auto|]. split; [auto|]. split.
        -- intros a Ha. unfold in_counts in Ha |- *. cbn [bd_counts bd_with] in Ha. rewrite cnt_get_set in Ha.
           destruct (path_eqb [] a) eqn:E; [right; left; symmetry; apply path_eqb_eq; exact E | left; exact Ha].
        -- intros d Hd Hin _. destruct Hd as [->|Hd]; [|cbn in Hd; discriminate Hd].
           apply mem_path_In in Hin. congruence.
  - (* a proper path *)
    set (count := match cnt_get (bd_counts b) (n :: dd) with Some c => c | None => 0 end) in *.
    set (b1 := bd_with b (cnt_set (bd_counts b) (n :: dd) (S count)) (bd_created b) (bd_err_created b)
                       (bd_removed b) (bd_exists b) (bd_maybe b) (bd_removed_files b)) in *.
    assert (C1 : forall a, in_counts b1 a = true -> in_counts b a = true \/ a = n :: dd).
    { intros a Ha. unfold in_counts in Ha |- *. subst b1. cbn [bd_counts bd_with] in Ha. rewrite cnt_get_set in Ha.
      destruct (path_eqb (n :: dd) a) eqn:E; [right; symmetry; apply path_eqb_eq; exact E | left; exact Ha]. }
    assert (C0 : forall a, a <> n :: dd -> in_counts b1 a = in_counts b a).
    { intros a Ha. unfold in_counts. subst b1. cbn [bd_counts bd_with]. rewrite cnt_get_set.
      destruct (path_eqb (n :: dd) a) eqn:E; [|reflexivity]. apply path_eqb_eq in E. subst a. contradiction. }
    destruct (Nat.ltb 0 count) eqn:El.
    + inversion H; subst b' acc'; clear H. subst b1. cbn [bd_removed bd_maybe bd_created bd_err_created bd_with].
      split; [reflexivity|]. split; [reflexivity|]. split; [auto|]. split; [auto|]. split; [auto|]. split.
      * intros a Ha. destruct (C1 a Ha) as [X|X]; auto.
      * intros d Hd _ Hc. exfalso.
        assert (X : in_counts b (n :: dd) = false).
        { apply Hc; [left; reflexivity|]. destruct Hd as [->|Hd]; [left; reflexivity | right; exact Hd]. }
        unfold in_counts in X. subst count. destruct (cnt_get (bd_counts b) (n :: dd)); [discriminate X|].
        cbn in El. discriminate El.
    + match type of H with (let '(_, _) := ?X in _) = _ => destruct X as [b2 acc2] eqn:E2 end.
      apply IH in H. destruct H as (R1 & R2 & R3 & R4 & R5 & R6 & R7).
      assert (B2 : bd_removed b2 = bd_removed b /\ bd_maybe b2 = bd_maybe b /\
                   (forall d, In d (bd_created b) -> In d (bd_created b2)) /\
                   (forall d, tracked b d -> tracked b2 d) /\
                   (forall d, tracked b2 d -> tracked b d \/ In d cds) /\
                   (forall a, in_counts b2 a = in_counts b1 a) /\
                   (In (n :: dd) cds -> In (n :: dd) (bd_created b2))).
      { destruct (mem_path (n :: dd) cds) eqn:Em; inversion E2; subst b2 acc2; clear E2.
        - subst b1. cbn [bd_removed bd_maybe bd_created bd_err_created bd_with bd_counts].
          split; [reflexivity|]. split; [reflexivity|]. split; [intros d Hd; apply In_add_path'; auto|].
          split; [|split; [|split]].
          + intros d [Hd|Hd]; [left; apply In_add_path'; auto|].
            destruct (path_eq_dec d (n :: dd)) as [->|N]; [left; apply In_add_path'; auto | right; apply In_del_path_neq; assumption].
          + intros d [Hd|Hd].
            * apply In_add_path' in Hd. destruct Hd as [->|Hd]; [right; apply mem_path_In; exact Em | left; left; exact Hd].
            * apply In_del_path in Hd. left; right; exact Hd.
          + intro a. reflexivity.
          + intros _. apply In_add_path'. auto.
        - split; [reflexivity|]. split; [reflexivity|]. split; [auto|]. split; [auto|]. split; [auto|]. split; [auto|].
          intro X. apply mem_path_In in X. congruence. }
      destruct B2 as (S1 & S2 & S3 & S4 & S5 & S6 & S7).
      split; [congruence|]. split; [congruence|]. split; [auto|]. split; [auto|]. split; [|split].
      * intros d Hd. destruct (R5 d Hd) as [X|X]; [apply S5; exact X | right; exact X].
      * intros a Ha. destruct (R6 a Ha) as [X|[X|X]].
        -- rewrite S6 in X. destruct (C1 a X) as [Y|Y]; auto.
        -- right; right. subst a. apply below_self_cons.
        -- right; right. apply below_cons. exact X.
      * intros d Hd Hin Hc. destruct Hd as [->|Hd].
        -- apply R3. apply S7. exact Hin.
        -- apply below_cons_inv in Hd. apply R7; [destruct Hd; auto | exact Hin|].
           intros a Ha1 Ha2. rewrite S6, C0.
           ++ apply Hc; [|exact Ha2]. right. destruct Ha1 as [->|Ha1]; [apply below_self_cons | apply below_cons; exact Ha1].
           ++ intro E. subst a. destruct Ha1 as [Ha1|Ha1].
              ** exact (cons_neq_self _ _ Ha1).
              ** apply below_length in Ha1. cbn in Ha1. lia.
Qed.

Lemma bd_started_spec : forall b p cds b' l, bd_started b p cds = (b', l) ->
  bd_removed b' = bd_removed b /\ bd_maybe b' = bd_maybe b /\
  (forall d, tracked b d -> tracked b' d) /\
  (forall d, tracked b' d -> tracked b d \/ In d cds) /\
  (forall a, in_counts b' a = true -> in_counts b a = true \/ (p <> [] /\ (a = dirname p \/ below a (dirname p) = true))) /\
  (forall d, p <> [] -> (d = dirname p \/ below d (dirname p) = true) -> In d cds ->
     (forall a, (a = d \/ below d a = true) -> in_counts b a = false) -> In d (bd_created b')).
Proof.
  intros b p cds b' l H. unfold bd_started in H. destruct p as [|n dd].
  - inversion H; subst. unfold tracked, in_counts. cbn [bd_removed bd_maybe bd_created bd_err_created bd_counts bd_with].
    split; [reflexivity|]. split; [reflexivity|]. split; [auto|]. split; [auto|]. split; [auto|].
    intros d X. contradiction.
  - apply bd_started_from_spec in H. cbn [bd_removed bd_maybe bd_created bd_err_created bd_with] in H.
    destruct H as (R1 & R2 & R3 & R4 & R5 & R6 & R7). cbn [dirname tl].
    split; [exact R1|]. split; [exact R2|]. split; [exact R4|]. split; [exact R5|]. split.
    + intros a Ha. destruct (R6 a Ha) as [X|X]; [left; exact X | right; split; [discriminate | exact X]].
    + intros d _ Hd Hin Hc. apply R7; auto. intros a _ Ha. exact (Hc a Ha).
Qed.

(* error_building_file *)
Lemma bd_error_from_spec : forall parent b b', bd_error_from b parent = Some b' ->
  bd_removed b' = bd_removed b /\
  (forall d, tracked b' d <-> tracked b d) /\
  (forall d, In d (bd_maybe b') -> In d (bd_maybe b) \/ In d (bd_created b)) /\
  (forall a, in_counts b' a = true -> in_counts b a = true).
Proof.
  induction parent as [|n dd IH]; intros b b' H; cbn [bd_error_from] in H.
  - destruct (cnt_get (bd_counts b) []) as [c|] eqn:Ec; [|discriminate H].
    destruct (Nat.ltb 0 (c - 1)).
    + inversion H; subst; clear H. cbn [bd_removed bd_maybe bd_created bd_err_created bd_with]. unfold tracked. cbn.
      repeat split; auto; try tauto.
      intros a Ha. unfold in_counts in Ha |- *. cbn [bd_counts bd_with] in Ha. rewrite cnt_get_set in Ha.
      destruct (path_eqb [] a) eqn:E; [apply path_eqb_eq in E; subst a; rewrite Ec; reflexivity | exact Ha].
    + assert (Hc : forall a, (match cnt_get (cnt_del (bd_counts b) []) a with Some _ => true | None => false end) = true ->
                 in_counts b a = true).
      { intros a Ha. rewrite cnt_get_del in Ha. unfold in_counts. destruct (path_eqb [] a); [discriminate Ha | exact Ha]. }
      cbn [bd_created bd_with] in H. destruct (mem_path [] (bd_created b)) eqn:Em; inversion H; subst; clear H;
        unfold tracked; cbn [bd_removed bd_maybe bd_created bd_err_created bd_with].
      * split; [reflexivity|]. split; [|split].
        -- intro d. rewrite In_add_path'. split.
           ++ intros [X|[->|X]]; [left; eapply In_del_path; eauto | left; apply mem_path_In; exact Em | right; exact X].
           ++ intros [X|X]; [|auto]. destruct (path_eq_dec d []) as [->|N]; [auto | left; apply In_del_path_neq; assumption].
        -- intros d X. apply In_add_path' in X. destruct X as [->|X]; [right; apply mem_path_In; exact Em | left; exact X].
        -- intros a Ha. unfold in_counts in Ha. cbn [bd_counts bd_with] in Ha. apply (Hc a). exact Ha.
      * split; [reflexivity|]. split; [tauto|]. split; [auto|].
        intros a Ha. unfold in_counts in Ha. cbn [bd_counts bd_with] in Ha. apply (Hc a). exact Ha.
  - destruct (cnt_get (bd_counts b) (n :: dd)) as [c|] eqn:Ec; [|discriminate H].
    destruct (Nat.ltb 0 (c - 1)).
    + inversion H; subst; clear H. cbn [bd_removed bd_maybe bd_created bd_err_created bd_with]. unfold tracked. cbn.
      repeat split; auto; try tauto.
      intros a Ha. unfold in_counts in Ha |- *. cbn [bd_counts bd_with] in Ha. rewrite cnt_get_set in Ha.
      destruct (path_eqb (n :: dd) a) eqn:E; [apply path_eqb_eq in E; subst a; rewrite Ec; reflexivity | exact Ha].
    + apply IH in H. destruct H as (R1 & R2 & R3 & R4).
      cbn [bd_created bd_with] in *.
      assert (Hc : forall a, (match cnt_get (cnt_del (bd_counts b) (n :: dd)) a with Some _ => true | None => false end) = true ->
                 in_counts b a = true).
      { intros a Ha. rewrite cnt_get_del in Ha. unfold in_counts. destruct (path_eqb (n :: dd) a); [discriminate Ha | exact Ha]. }
      destruct (mem_path (n :: dd) (bd_created b)) eqn:Em;
        unfold tracked in *; cbn [bd_removed bd_maybe bd_created bd_err_created bd_with bd_counts] in *.
      * split; [exact R1|]. split; [|split].
        -- intro d. rewrite R2, In_add_path'. split.
           ++ intros [X|[->|X]]; [left; eapply In_del_path; eauto | left; apply mem_path_In; exact Em | right; exact X].
           ++ intros [X|X]; [|auto]. destruct (path_eq_dec d (n :: dd)) as [->|N]; [auto | left; apply In_del_path_neq; assumption].
        -- intros d X. apply R3 in X. destruct X as [X|X].
           ++ apply In_add_path' in X. destruct X as [->|X]; [right; apply mem_path_In; exact Em | left; exact X].
           ++ right. eapply In_del_path; eauto.
        -- intros a Ha. apply Hc. apply R4 in Ha. exact Ha.
      * split; [exact R1|]. split; [exact R2|]. split; [exact R3|].
        intros a Ha. apply Hc. apply R4 in Ha. exact Ha.
Qed.

Lemma bd_error_spec : forall b p b', bd_error b p = Some b' ->
  bd_removed b' = bd_removed b /\
  (forall d, tracked b' d <-> tracked b d) /\
  (forall d, In d (bd_maybe b') -> In d (bd_maybe b) \/ In d (bd_created b)) /\
  (forall a, in_counts b' a = true -> in_counts b a = true).
Proof.
  intros b p b' H. unfold bd_error in H. destruct p as [|n dd].
  - inversion H; subst. repeat split; auto; tauto.
  - eapply bd_error_from_spec; eauto.
Qed.
