(* Proofs/SimS2.v — SimR2.adopted_apart_statement proved; the chain of builds with nothing assumed
   about adopted outputs.
     [adopted_are_files]   in a committed fault-free build (SideH, WfCache of the cache read) every
                           path that the committed cache records as created is a target of this
                           build or a regular file of the tree the build started in (SimS1.run_adopted
                           through _make_dirs of the cache file's directory, which is an fstep);
     [adopted_apart]       SimR2.adopted_apart_statement (with condition A, sh_below);
     [next_old_ok]         SimN3.next_old_ok_statement;
     [out_dirs]            SimN3.OutDirs of every such build;
     [mech_chain_hash_ok2] SimR2.mech_chain_hash_ok with the clause AdoptedApart removed from the
                           chain ([chainS]).
   New file; edits nothing. *)
From Coq Require Import List String Ascii NArith ZArith Bool Arith Lia Permutation.
From FB.Base Require Import PyVal Fs.
From FB.Gen Require Import JsonUtilGen.
From FB.Spec Require Import JsonSpec Prog Ref Oracle Faithful.
From FB.Model Require Import Types Monad CreatedFiles BuildDirs SimpleOps Builder PathNorm Persist PersistSpec Build Run Frame Core CoreOracle.
From FB.Proofs Require Import FsLemmas JsonLaws PersistLaws ReplayLaws BuildFileLaws HashMemoInv
     ViewDefs ViewLemmas ViewInit ViewR2 ViewR3 SimA0 SimC0
     RollbackDirsLaws RollbackDirsBase RollbackDirsInv CommitDirsInv CommitDirsMain
     CacheRTDefs CacheRTLaws CacheRTTables CacheRTForest CacheRTOpen CacheRTMain
     SimD1 SimD4 SimF8 SimJ4 SimM5 SimM6 SimN1 SimN2 SimN3 SimP1 SimR1 SimR2 SimS1.
Import ListNotations.
Open Scope list_scope.

(* ------------------------------------------------------------------ WfCache gives SimS1.NNc *)
Lemma wfrec_nn : forall o, ViewR2.wfrec o = true -> SimS1.nn o = true.
Proof.
  induction o as [q r e | p c f a k subs r cr ra sf IH | f a k subs r ra sf IH] using op_ind'; intro H.
  - reflexivity.
  - cbn [ViewR2.wfrec SimS1.nn] in *.
    apply andb_true_iff in H. destruct H as [H1 H3]. apply andb_true_iff in H1. destruct H1 as [H1 H2].
    apply andb_true_iff. split; [exact H1|].
    rewrite forallb_forall in *. rewrite Forall_forall in IH. intros y Hy. apply IH; [exact Hy | apply H3; exact Hy].
  - cbn [ViewR2.wfrec SimS1.nn] in *.
    rewrite forallb_forall in *. rewrite Forall_forall in IH. intros y Hy. apply IH; [exact Hy | apply H; exact Hy].
Qed.

Lemma WfCache_NNc : forall c, WfCache c -> NNc c.
Proof.
  intros c [A B]. split; [intros p rec H; exact (wfrec_nn _ (A p rec H)) | intros k rec H; exact (wfrec_nn _ (B k rec H))].
Qed.

(* ------------------------------------------------------------------ adopted outputs are files of the starting tree *)
Theorem adopted_are_files : forall cf nm b, SideH cf nm b -> WfCache (b_old cf nm b) ->
  forall a, cache_created_file (w_new (b_w' b)) a = true ->
    b_P b a \/ exists g, lookup (w_fs (b_w b)) a = Some (NFile g).
Proof.
  intros cf nm b S HW a Ha.
  destruct (sideH_committed cf nm b S HW) as (wfin & w1 & w2 & x & Ew & HC).
  assert (En : w_new (b_w' b) = w_new wfin) by (rewrite Ew; reflexivity).
  rewrite En in Ha.
  destruct (cm_new _ _ _ _ _ _ _ _ _ _ _ _ _ HC) as [Ef _].
  unfold cache_created_file, cache_get_file in Ha. rewrite Ef in Ha.
  pose proof (make_dirs_new _ _ _ _ (cm_mk _ _ _ _ _ _ _ _ _ _ _ _ _ HC)) as (N1 & O1 & _).
  pose proof (make_dirs_fs _ _ _ _ (cm_mk _ _ _ _ _ _ _ _ _ _ _ _ _ HC)) as (_ & _ & _ & F1).
  assert (R : b_P b a \/ FileAt (w_fs (set_log (LInvoke "<root>" None PNone PNone :: w_log w1) w1)) a).
  { refine (run_adopted (b_old cf nm b) (b_P b) (b_root b) None [] _ w2 _ (WfCache_NNc _ HW) (sh_atP _ _ _ S) _
              (cm_run _ _ _ _ _ _ _ _ _ _ _ _ _ HC) _ _ a Ha).
    - intros t Et. discriminate Et.
    - cbn [w_old set_log]. rewrite O1. reflexivity.
    - intro p. cbn [w_new set_log]. rewrite N1. reflexivity. }
  destruct R as [X|[g Hg]]; [left; exact X|right].
  cbn [w_fs set_log] in Hg. exists g. apply F1 in Hg. exact Hg.
Qed.

(* SimR2.adopted_apart_statement *)
Theorem adopted_apart : adopted_apart_statement.
Proof.
  intros cf nm b S (_ & HW & _) a t Ha _ _ HnP Ht Hb.
  destruct (sh_below _ _ _ S a t Ht Hb) as [Hnf _].
  destruct (adopted_are_files cf nm b S HW a Ha) as [X|[g Hg]]; [exact (HnP X) | exact (Hnf g Hg)].
Qed.

(* SimN3.next_old_ok_statement *)
Theorem next_old_ok : next_old_ok_statement.
Proof. exact (next_old_ok_from_adopted adopted_apart). Qed.

Theorem out_dirs : forall cf nm b, SideH cf nm b -> CacheOkH cf nm b -> OutDirs b.
Proof.
  intros cf nm b S HC. pose proof (adopted_apart cf nm b S HC) as HA.
  destruct HC as (_ & HW & _). exact (out_dirs_partial cf nm b S HW HA).
Qed.

(* ------------------------------------------------------------------ the chain *)
Fixpoint chainS (cf : path) (nm : string) (b : bstep) (l : list bstep) : Prop :=
  match l with
  | [] => True
  | b' :: r =>
      lookup (w_fs (b_w b')) cf = lookup (w_fs (b_w' b)) cf /\
      (w_clock (b_w' b) <= w_clock (b_w b'))%N /\
      (old_ok (b_old cf nm b') cf -> SideH cf nm b') /\ prog_paths_wf (b_root b') /\
      chainS cf nm b' r
  end.

Theorem mech_chain_fromS : forall cf nm l b, path_wf cf = true ->
  SideH cf nm b -> prog_paths_wf (b_root b) -> CacheOkH cf nm b -> Written cf nm (w_fs (b_w b)) ->
  chainS cf nm b l -> Forall (good cf nm) (b :: l).
Proof.
  intros cf nm l. induction l as [|b' r IH]; intros b Hcf S Hroot HC HWr Hch.
  - constructor; [exact (side_goodH cf nm b S HC)|constructor].
  - destruct Hch as (Hsame & Hclk & S' & Hroot' & Hr). constructor; [exact (side_goodH cf nm b S HC)|].
    destruct (mech_stepN cf nm b b' S HC Hcf Hroot HWr Hsame Hclk) as [HC' HWr'].
    exact (IH b' Hcf (S' (next_old_ok_partial2 cf nm b b' S HC Hcf Hroot HWr Hsame (adopted_apart cf nm b S HC)))
              Hroot' HC' HWr' Hr).
Qed.

(* the first build finds no cache file; old_ok is assumed of no cache, nothing about adopted outputs *)
Theorem mech_chain_hash_ok2 : forall cf nm l b, path_wf cf = true ->
  lookup (w_fs (b_w b)) cf = None ->
  (old_ok (b_old cf nm b) cf -> SideH cf nm b) -> prog_paths_wf (b_root b) ->
  chainS cf nm b l -> Forall (good cf nm) (b :: l).
Proof.
  intros cf nm l b Hcf Hnone S Hroot Hch.
  exact (mech_chain_fromS cf nm l b Hcf (S (old_ok_first cf nm b Hnone)) Hroot (CacheOkH_first cf nm b Hnone)
           (or_introl Hnone) Hch).
Qed.

(* chainS is chainR without its clause about adopted outputs *)
Lemma chainR_chainS : forall cf nm l b, chainR cf nm b l -> chainS cf nm b l.
Proof.
  intros cf nm l. induction l as [|b' r IH]; intros b H; [exact I|].
  destruct H as (A & B & C & D & _ & E). cbn [chainS]. split; [exact A|]. split; [exact B|]. split; [exact C|]. split; [exact D|]. exact (IH b' E).
Qed.

Print Assumptions adopted_are_files.
Print Assumptions adopted_apart.
Print Assumptions next_old_ok.
Print Assumptions out_dirs.
Print Assumptions mech_chain_hash_ok2.
