(* Proofs/SimJ9.v — HASH records in the PREVIOUS cache, part 9: the run simulation and the
   build-level theorem for previous caches of the class SimJ4.okcH, with NO condition on the
   comparison modes (neither SimC12.CmpMeta nor SimG1.CmpOk; reads: SimG5.QueriesOkP):
     sim5_run_hash, build_agree_hash, build_run_hash   (SimG5.sim5_run_h / build_agree_h / build_run_h) *)
From Coq Require Import List String Ascii NArith ZArith Bool Arith Lia.
From FB.Base Require Import PyVal Fs.
From FB.Gen Require Import JsonUtilGen.
From FB.Spec Require Import JsonSpec Prog Ref Oracle Faithful.
From FB.Model Require Import Types Monad CreatedFiles BuildDirs SimpleOps Builder Persist Build Run Frame Core CoreOracle.
From FB.Proofs Require Import FsLemmas JsonLaws ReplayLaws CleanLaws BuildFileLaws HashMemoInv HashMemoRun CoreLaws1 CoreLaws2 CoreLaws3 CoreLaws4 CoreLaws6
     ViewDefs ViewLemmas ViewFrame ViewInit ViewPres ViewXDefs ViewXFrame ViewXError ViewXQuery ViewXSteps ViewXMake1 ViewXMake2 ViewXFail ViewXSetup ViewXRun
     ViewH7 ViewR1 ViewR2 ViewR3 ViewR9 ViewK1 ViewK2 ViewK3 ViewK4 ViewK5 ViewK7 ViewK8
     SimA0 SimARun SimA1 SimA1Keys SimA1Vlog SimA2Base SimA2 SimA3 SimA3Built SimA3Log SimA3Cf SimA2Claim SimA2Pre SimA2Finish SimA2Sub SimA2Node SimAStart SimAMain
     SimC0 SimC6 SimC7 SimC8 SimC9 SimC10 SimC11 SimC12 SimG1 SimG4 SimG5 SimJ4 SimJ8.
Import ListNotations.
Open Scope list_scope.
Open Scope m_scope.

Section Run5hash.
  Variable c0 : N.

  Theorem sim5_run_hash : forall pr old, okcH c0 old ->
    AllTargets tgtP pr -> QueriesOkP pr -> WfArgs pr -> TargetsClear old pr -> TargetsApart old pr ->
    forall st, NoNest st pr ->
    forall tg pend subs subs' T W w s w' r l s' r' pend' l',
      w_old w = old -> Sim5 c0 T W w s -> Ctx4 st tg pend w -> PendClock c0 pend s -> recs_rel subs subs' ->
      run pr tg subs w = (w', (r, l)) -> core_run pr tg pend subs' s = (s', (r', pend', l')) ->
      run_post5 c0 st tg W w w' r l s s' r' pend' l'.
  Proof.
    intros pr old Hok.
    induction pr as [v | e | stale q k IH | c k IH | stale p c f a kw fn IHfn k IHk | stale f a kw fn IHfn k IHk];
      intros Hat Hqk Hwa Hcl Hap st Hnn tg pend subs subs' T W w s w' r l s' r' pend' l' Hold HS HC HPc Hsubs H1 H2; subst old.
    - cbn [run core_run] in H1, H2. inversion H1; inversion H2; subst.
      exists T, W. split; [exact HS|]. split; [exact HC|]. split; [apply frame4_refl|].
      split; [reflexivity|]. split; [exact Hsubs|]. split; [apply Wincl_refl|]. split; [reflexivity|]. split; [apply N.le_refl|exact HPc].
    - cbn [run core_run] in H1, H2. inversion H1; inversion H2; subst.
      exists T, W. split; [exact HS|]. split; [exact HC|]. split; [apply frame4_refl|].
      split; [reflexivity|]. split; [exact Hsubs|]. split; [apply Wincl_refl|]. split; [reflexivity|]. split; [apply N.le_refl|exact HPc].
    - (* Ask *)
      inversion Hat as [| |s0 q0 k0 Hat'| | |]; subst. inversion Hqk as [| |s0 q0 k0 Hp Hqk'| | |]; subst.
      inversion Hwa as [| |s0 q0 k0 Hwa'| | |]; subst.
      unfold TargetsClear, TargetsApart in Hcl, Hap.
      inversion Hcl as [| |s0 q0 k0 Hcl'| | |]; subst. inversion Hap as [| |s0 q0 k0 Hap'| | |]; subst.
      inversion Hnn as [| |st0 s0 q0 k0 Hnn'| | |]; subst.
      rewrite core_run_Ask in H2. cbn [run] in H1.
      destruct stale.
      { apply (IH (inr (XRuntime RFinished)) (Hat' _) (Hqk' _) (Hwa' _) (Hcl' _) (Hap' _) st (Hnn' _) tg pend subs subs' T W w s w' r l s' r' pend' l' eq_refl HS HC HPc Hsubs H1 H2). }
      destruct (m_query q w) as [w1 [r1 o]] eqn:E.
      destruct (sim5_query_H c0 st tg pend T W w s q w1 r1 o HS HC Hp E) as (Ho & Hua & HS2 & HC2 & Hfs & Hold2).
      destruct Ho as [o' [-> Hrec]]. rewrite Hua in H1. cbv zeta in H2.
      assert (Hsubs2: recs_rel (Run.app_op subs (Some o')) (subs' ++ [record_of q (record_answer (k_fs s) q)])).
      { cbn [Run.app_op]. apply recs_rel_app1; assumption. }
      assert (Hstep: forall ua,
                (match spec_answer (k_fs s) q with inl v => inl v | inr c1 => inr (XOS c1) end) = ua ->
                core_run (k ua) tg pend (subs' ++ [record_of q (record_answer (k_fs s) q)]) (klog (LAnswer q (spec_answer (k_fs s) q)) s) = (s', (r', pend', l')) ->
                run_post5 c0 st tg W w w' r l s s' r' pend' l').
      { intros ua Eua X2. rewrite Eua in H1, HS2, HC2, Hfs, Hold2.
        destruct (IH ua (Hat' ua) (Hqk' ua) (Hwa' ua) (Hcl' ua) (Hap' ua) st (Hnn' ua) tg pend _ _ T W _ _ w' r l s' r' pend' l'
                     Hold2 HS2 HC2 HPc Hsubs2 H1 X2) as (T' & W' & A1 & A2 & A3 & A4 & A5 & A6 & A7 & A8 & A9).
        exists T', W'. split; [exact A1|]. split; [exact A2|]. split.
        - intros y Hy Hn. rewrite (A3 y Hy Hn). rewrite Hfs. reflexivity.
        - split; [exact A4|]. split; [exact A5|]. split; [exact A6|]. split; [congruence|]. split; [exact A8|exact A9]. }
      destruct (spec_answer (k_fs s) q) as [v|c1] eqn:Esp.
      + apply (Hstep (inl v) eq_refl H2).
      + apply (Hstep (inr (XOS c1)) eq_refl H2).
    - (* Write *)
      inversion Hat as [| | |c1 k0 Hat'| |]; subst. inversion Hqk as [| | |c1 k0 Hqk'| |]; subst.
      inversion Hwa as [| | |c1 k0 Hwa'| |]; subst.
      unfold TargetsClear, TargetsApart in Hcl, Hap.
      inversion Hcl as [| | |c1 k0 Hcl'| |]; subst. inversion Hap as [| | |c1 k0 Hap'| |]; subst.
      inversion Hnn as [| | |st0 c1 k0 Hnn'| |]; subst.
      rewrite core_run_Write in H2. cbn [run] in H1.
      destruct tg as [p|]; [|apply (IH Hat' Hqk' Hwa' Hcl' Hap' st Hnn' None pend subs subs' T W w s w' r l s' r' pend' l' eq_refl HS HC HPc Hsubs H1 H2)].
      destruct (c4_tg _ _ _ _ HC p eq_refl) as [Hin Htg].
      assert (Hpok: path_ok p = true) by (unfold tgtP, tgt_ok in Htg; apply andb_true_iff in Htg; apply Htg).
      rewrite Hpok in H2.
      destruct (write_succeeds st pend T W w s p c (proj1 HS) HC) as [fs' Ew]. rewrite Ew in H1.
      destruct (sim5_write c0 st pend T W w s p c fs' HS HC Ew) as (HS2 & HC2 & Hfr & HPc2).
      destruct (IH Hat' Hqk' Hwa' Hcl' Hap' st Hnn' (Some p) (Some c) subs subs' T W
                   (set_clock (N.succ (w_clock w)) (N.succ (w_nextid w)) (set_fs fs' w)) (ktick s) w' r l s' r' pend' l'
                   eq_refl HS2 HC2 HPc2 Hsubs H1 H2) as (T' & W' & A1 & A2 & A3 & A4 & A5 & A6 & A7 & A8 & A9).
      exists T', W'. split; [exact A1|]. split; [exact A2|]. split; [eapply frame4_trans; eassumption|].
      split; [exact A4|]. split; [exact A5|]. split; [exact A6|]. split; [exact A7|]. split; [|exact A9].
      cbn [ktick ks_with k_clock] in A8. lia.
    - (* BuildFile *)
      inversion Hat as [| | | |s0 p0 c1 f0 a0 kw0 fn0 k0 Hp Hatf Hatk|]; subst.
      inversion Hqk as [| | | |s0 p0 c1 f0 a0 kw0 fn0 k0 Hqf Hqkk|]; subst.
      inversion Hwa as [| | | |s0 p0 c1 f0 a0 kw0 fn0 k0 Hwf Hwk|]; subst.
     
      unfold TargetsClear, TargetsApart in Hcl, Hap.
      inversion Hcl as [| | | |s0 p0 c1 f0 a0 kw0 fn0 k0 Hclp Hclf Hclk|]; subst.
      inversion Hap as [| | | |s0 p0 c1 f0 a0 kw0 fn0 k0 Happ Hapf Hapk|]; subst.
      inversion Hnn as [| | | |st0 s0 p0 c1 f0 a0 kw0 fn0 k0 Hnp Hnf Hnk|]; subst.
      destruct stale.
      { cbn [run core_run] in H1, H2.
        apply (IHk (inr (XRuntime RFinished)) (Hatk _) (Hqkk _) (Hwk _) (Hclk _) (Hapk _) st (Hnk _) tg pend subs subs' T W w s w' r l s' r' pend' l' eq_refl HS HC HPc Hsubs H1 H2). }
      cbn [run] in H1. rewrite core_run_BF_node in H2.
      match type of H1 with (let '(_, _) := ?X in _) = _ => destruct X as [w1 [r1 o]] eqn:E1 end.
      destruct (core_bf_node p c f a kw (fun sa skw => core_run (fn p sa skw) (Some p) None []) s) as [s1 [r1' o']] eqn:E2.
      assert (Hbody: bf_body_ok5 c0 st (w_old w) p (fn p)).
      { intros sa skw T0 W0 w0 s0 w3 res l3 s3 res' pend3 l3' Ho0 HS0 HC0 X1 X2.
        apply (IHfn p sa skw (Hatf p sa skw) (Hqf p sa skw) (Hwf p sa skw) (Hclf p sa skw) (Hapf p sa skw) (p :: st) (Hnf p sa skw)
                    (Some p) None [] [] T0 W0 w0 s0 w3 res l3 s3 res' pend3 l3'); auto; [intro K; contradiction|exact I]. }
      assert (Hconds: tgt_conds st (w_old w) p) by (repeat split; assumption).
      destruct (bf_node5H c0 st p c f a kw fn T W w s tg pend w1 r1 o Hok Hconds Hbody HS HC E1 s1 r1' o' E2)
        as (T1 & W1 & B1 & B2 & B3 & B4 & B5 & B6 & B7 & B8).
      subst r1'.
      destruct (IHk r1 (Hatk r1) (Hqkk r1) (Hwk r1) (Hclk r1) (Hapk r1) st (Hnk r1) tg pend _ _ T1 W1 w1 s1 w' r l s' r' pend' l'
                    B7 B1 B2 (PendClock_mono _ _ _ _ HPc B8) (recs_rel_app_op _ _ _ _ Hsubs B5) H1 H2) as (T' & W' & A1 & A2 & A3 & A4 & A5 & A6 & A7 & A8 & A9).
      exists T', W'. split; [exact A1|]. split; [exact A2|]. split.
      + intros y Hy Hn. rewrite (A3 y Hy Hn). apply B3. exact Hy.
      + split; [exact A4|]. split; [exact A5|]. split; [eapply Wincl_trans; eassumption|]. split; [congruence|]. split; [lia|exact A9].
    - (* Subbuild *)
      inversion Hat as [| | | | |s0 f0 a0 kw0 fn0 k0 Hatf Hatk]; subst.
      inversion Hqk as [| | | | |s0 f0 a0 kw0 fn0 k0 Hqf Hqkk]; subst.
      inversion Hwa as [| | | | |s0 f0 a0 kw0 fn0 k0 Hwa1 Hwa2 Hwf Hwk]; subst.
     
      unfold TargetsClear, TargetsApart in Hcl, Hap.
      inversion Hcl as [| | | | |s0 f0 a0 kw0 fn0 k0 Hclf Hclk]; subst.
      inversion Hap as [| | | | |s0 f0 a0 kw0 fn0 k0 Hapf Hapk]; subst.
      inversion Hnn as [| | | | |st0 s0 f0 a0 kw0 fn0 k0 Hnf Hnk]; subst.
      destruct stale.
      { cbn [run core_run] in H1, H2.
        apply (IHk (inr (XRuntime RFinished)) (Hatk _) (Hqkk _) (Hwk _) (Hclk _) (Hapk _) st (Hnk _) tg pend subs subs' T W w s w' r l s' r' pend' l' eq_refl HS HC HPc Hsubs H1 H2). }
      cbn [run] in H1. rewrite core_run_SB_node in H2.
      match type of H1 with (let '(_, _) := ?X in _) = _ => destruct X as [w1 [r1 o]] eqn:E1 end.
      destruct (core_sb_node f a kw (fun sa skw => core_run (fn sa skw) None None []) s) as [s1 [r1' o']] eqn:E2.
      assert (Hbody: sb_body_ok5 c0 st (w_old w) fn).
      { intros sa skw T0 W0 w0 s0 w3 res l3 s3 res' pend3 l3' Ho0 HS0 HC0 X1 X2.
        apply (IHfn sa skw (Hatf sa skw) (Hqf sa skw) (Hwf sa skw) (Hclf sa skw) (Hapf sa skw) st (Hnf sa skw)
                    None None [] [] T0 W0 w0 s0 w3 res l3 s3 res' pend3 l3'); auto; [intro K; contradiction|exact I]. }
      destruct (sb_node5H c0 st f a kw fn T W w s tg pend w1 r1 o Hok Hwa1 Hwa2 Hbody HS HC E1 s1 r1' o' E2)
        as (T1 & W1 & B1 & B2 & B3 & B4 & B5 & B6 & B7 & B8).
      subst r1'.
      destruct (IHk r1 (Hatk r1) (Hqkk r1) (Hwk r1) (Hclk r1) (Hapk r1) st (Hnk r1) tg pend _ _ T1 W1 w1 s1 w' r l s' r' pend' l'
                    B7 B1 B2 (PendClock_mono _ _ _ _ HPc B8) (recs_rel_app_op _ _ _ _ Hsubs B5) H1 H2) as (T' & W' & A1 & A2 & A3 & A4 & A5 & A6 & A7 & A8 & A9).
      exists T', W'. split; [exact A1|]. split; [exact A2|]. split.
      + intros y Hy Hn. rewrite (A3 y Hy Hn). apply B3. exact Hy.
      + split; [exact A4|]. split; [exact A5|]. split; [eapply Wincl_trans; eassumption|]. split; [congruence|]. split; [lia|exact A9].
  Qed.
End Run5hash.

(* ------------------------------------------------------------------ one build *)
Theorem build_agree_hash : forall w cachefile old nm svers root w1 w2 r l,
  okcH (w_clock w) old -> fs_wf (w_fs w) -> old_ok old cachefile -> WfCache old -> old_keys_ok old -> w_faults w = [] ->
  path_ok (dirname cachefile) = true -> isdir (w_fs w) cachefile = false -> maxlen (w_fs w) < walk_fuel ->
  vdir (Build.start_world w cachefile old nm svers) (dirname cachefile) = true ->
  AllTargets tgtP root -> NoNest [] root -> QueriesOkP root -> WfArgs root ->
  TargetsClear old root -> TargetsApart old root ->
  make_dirs (dirname cachefile) (Build.start_world w cachefile old nm svers) = (w1, inl []) ->
  run root None [] (set_log (LInvoke "<root>"%string None PNone PNone :: w_log w1) w1) = (w2, (r, l)) ->
  let cr := core_build (w_fs w) cachefile old svers (w_clock w) (w_nextid w) root in
  cr_outcome cr = r /\
  (exists L0, vis_log (w_log w2) = rev (cr_log cr) ++ L0) /\
  trel (c_built (w_new w2)) (view_fs w2) (cr_tree cr).
Proof.
  intros w cachefile old nm svers root w1 w2 r l HokcH Hwf Hok HW HKo HF Hp Hnc Hml Hd Hat Hnn Hqk Hwa Hcl Hap Emk Erun cr.
  destruct (sim4_start w cachefile old nm svers Hwf Hok HW HKo HF Hp Hnc Hml Hd) as (w1b & Eb & HS0 & HC0 & Hold0).
  assert (w1b = w1) by congruence. subst w1b. clear Eb. cbv zeta in HS0, HC0, Hold0.
  destruct (sim3_start w cachefile old nm svers Hwf Hok HF Hp Hd) as (w1c & Ec & Hmiss & _).
  set (lg := LInvoke "<root>"%string None PNone PNone :: w_log w1) in *.
  set (s0 := ViewK4.core_start (w_fs w) cachefile old svers (w_clock w) (w_nextid w) lg) in *.
  assert (Ecr: cr = let '(s1, (res, _, _)) := core_run root None None [] (with_log [LInvoke "<root>"%string None PNone PNone] s0) in
                    {| cr_outcome := res; cr_tree := k_fs s1; cr_log := rev (k_log s1); cr_state := Some s1 |}).
  { unfold cr, core_build. rewrite Hmiss. cbn [mkdir_all fold_left]. reflexivity. }
  destruct (core_run root None None [] (with_log [LInvoke "<root>"%string None PNone PNone] s0)) as [s1 [[res pd] sb]] eqn:Ecore.
  destruct (core_log root None None [] s0 [LInvoke "<root>"%string None PNone PNone] s1 (res, pd, sb) Ecore lg) as (ex & Elog & Erun2).
  assert (Es0: with_log lg s0 = s0) by (apply (with_log_self s0)).
  rewrite Es0 in Erun2.
  destruct (core_log_noeffect root None None [] _ _ _ Ecore) as (ex' & Elog' & Hne).
  assert (ex' = ex).
  { change (k_log (with_log [LInvoke "<root>"%string None PNone PNone] s0)) with [LInvoke "<root>"%string None PNone PNone] in Elog'.
    rewrite Elog in Elog'. apply app_inv_tail in Elog'. symmetry. exact Elog'. }
  subst ex'.
  (* the extra invariant when the root function starts *)
  assert (HE0: Extra (w_clock w) [] (set_log lg w1) s0).
  { constructor.
    - intros p Hp0. discriminate.
    - cbn [w_clock set_log]. apply (make_dirs_tq _ _ _ _ Emk).
    - apply N.le_refl.
    - intros p f Hp0. discriminate.
    - intros p f Hp0. discriminate. }
  assert (HP0: PendClock (w_clock w) None s0) by (intro K; contradiction).
  destruct (sim5_run_hash (w_clock w) root old HokcH Hat Hqk Hwa Hcl Hap [] Hnn None None [] [] [] []
              (set_log lg w1) s0 w2 r l (with_log (ex ++ lg) s1) res pd sb Hold0 (conj HS0 HE0) HC0 HP0 I Erun Erun2)
    as (T' & W' & [A1 AE] & A2 & A3 & A4 & A5 & A6 & A7 & _).
  rewrite Ecr. cbn [cr_outcome cr_log cr_tree].
  split; [symmetry; exact A4|]. split.
  - exists (vis_log (w_log w1)). rewrite rev_involutive, Elog.
    rewrite (s3_log _ _ _ (Sim4_sim3 _ _ _ _ A1)).
    change (k_log (with_log (ex ++ lg) s1)) with (ex ++ lg). rewrite vis_log_app, (vis_log_noeffect _ Hne).
    unfold lg. cbn [vis_log filter]. rewrite <- app_assoc. reflexivity.
  - pose proof (Sim4_trel _ _ _ _ A1) as Ht. destruct A1 as (_ & _ & _ & HWb).
    apply (trel_mono W' _ _ _ HWb Ht).
Qed.

(* the two runs of a build, with the relation at the end (SimC15.build_run_okc) *)
Lemma build_run_hash : forall w cachefile old nm svers root w1 w2 r l,
  okcH (w_clock w) old -> fs_wf (w_fs w) -> old_ok old cachefile -> WfCache old -> old_keys_ok old -> w_faults w = [] ->
  path_ok (dirname cachefile) = true -> isdir (w_fs w) cachefile = false -> maxlen (w_fs w) < walk_fuel ->
  vdir (Build.start_world w cachefile old nm svers) (dirname cachefile) = true ->
  AllTargets tgtP root -> NoNest [] root -> QueriesOkP root -> WfArgs root ->
  TargetsClear old root -> TargetsApart old root ->
  make_dirs (dirname cachefile) (Build.start_world w cachefile old nm svers) = (w1, inl []) ->
  run root None [] (set_log (LInvoke "<root>"%string None PNone PNone :: w_log w1) w1) = (w2, (r, l)) ->
  let lg := LInvoke "<root>"%string None PNone PNone :: w_log w1 in
  let s0 := ViewK4.core_start (w_fs w) cachefile old svers (w_clock w) (w_nextid w) lg in
  exists s1 pd sb T' W',
    core_run root None None [] s0 = (s1, (r, pd, sb)) /\ Sim5 (w_clock w) T' W' w2 s1.
Proof.
  intros w cachefile old nm svers root w1 w2 r l HokcH Hwf Hok HW HKo HF Hp Hnc Hml Hd Hat Hnn Hqk Hwa Hcl Hap Emk Erun lg s0.
  destruct (sim4_start w cachefile old nm svers Hwf Hok HW HKo HF Hp Hnc Hml Hd) as (w1b & Eb & HS0 & HC0 & Hold0).
  assert (w1b = w1) by congruence. subst w1b. clear Eb. cbv zeta in HS0, HC0, Hold0. fold lg in HS0, HC0, Hold0. fold s0 in HS0.
  destruct (core_run root None None [] s0) as [s1 [[res pd] sb]] eqn:Ecore.
  assert (HE0: Extra (w_clock w) [] (set_log lg w1) s0).
  { constructor.
    - intros p Hp0. discriminate.
    - cbn [w_clock set_log]. apply (make_dirs_tq _ _ _ _ Emk).
    - apply N.le_refl.
    - intros p f Hp0. discriminate.
    - intros p f Hp0. discriminate. }
  assert (HP0: PendClock (w_clock w) None s0) by (intro K; contradiction).
  destruct (sim5_run_hash (w_clock w) root old HokcH Hat Hqk Hwa Hcl Hap [] Hnn None None [] [] [] []
              (set_log lg w1) s0 w2 r l s1 res pd sb Hold0 (conj HS0 HE0) HC0 HP0 I Erun Ecore)
    as (T' & W' & A1 & A2 & A3 & A4 & _).
  exists s1, pd, sb, T', W'. split; [rewrite A4; reflexivity|exact A1].
Qed.

Print Assumptions sim5_run_hash.
Print Assumptions build_agree_hash.
Print Assumptions build_run_hash.
