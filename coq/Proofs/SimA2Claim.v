(* Proofs/SimA2Claim.v — C04, the link to Core, run level: the claim of the target of build_file
   when the cache lookup has missed (SimA2.claim_statement): bf_claim on the mechanism model
   against CoreLaws3.core_start on Core. *)
From Coq Require Import List String Ascii NArith ZArith Bool Arith Lia.
From FB.Base Require Import PyVal Fs.
From FB.Gen Require Import JsonUtilGen.
From FB.Spec Require Import JsonSpec Prog Ref Oracle Faithful.
From FB.Model Require Import Types Monad CreatedFiles BuildDirs SimpleOps Builder Persist Build Run Frame Core CoreOracle.
From FB.Proofs Require Import FsLemmas JsonLaws ReplayLaws CleanLaws BuildFileLaws HashMemoInv HashMemoRun CoreLaws1 CoreLaws2 CoreLaws3
     ViewDefs ViewLemmas ViewFrame ViewInit ViewPres ViewXDefs ViewXFrame ViewXError ViewXQuery ViewXSteps ViewXMake1 ViewXMake2 ViewXFail ViewXSetup ViewXRun
     ViewR1 ViewR2 ViewR3 ViewK1 ViewK2 ViewK3 ViewK4 ViewK5 ViewK7 ViewK8 SimA0 SimARun SimA1 SimA1Vlog SimA2Base SimA2.
Import ListNotations.
Open Scope list_scope.
Open Scope m_scope.

Local Notation RInv2' := (RInv2 (fun _ => True)).

(* the new cache after new_start_building_file *)
Definition claim_cache (c : cache) (p : path) : cache :=
  cache_with c (files_set (c_files c) p None) (c_subs c) (c_dirs c) (c_built c ++ [p]).

Definition claim_world (p : path) (w : world) : world := set_new (claim_cache (w_new w) p) w.

(* ------------------------------------------------------------------ the steps of bf_claim *)
Lemma start_unclaimed : forall p w, cache_has_file (w_new w) p = false ->
  new_start_building_file p w = (claim_world p w, inl tt).
Proof.
  intros p w H. unfold new_start_building_file, new_assert_no_file, bind, get, modify. rewrite H. reflexivity.
Qed.

Lemma claim_steps : forall T p w w1 r,
  RInv T w -> In p T -> cache_has_file (w_new w) p = false ->
  bf_claim p w = (w1, r) ->
  r = inl None /\ RInv T (claim_world p w) /\
  ((isfile (w_fs w) p = false /\ w1 = claim_world p w) \/
   (isfile (w_fs w) p = true /\ exists bb, back_up_and_remove p (claim_world p w) = (w1, inl bb))).
Proof.
  intros T p w w1 r HR Hin Hc H.
  destruct (bf_claim_RInv T p w w1 r HR Hin H) as [(_ & Hr & _)|(_ & _ & K)]; [|congruence].
  split; [exact Hr|]. subst r.
  assert (HRa: RInv T (claim_world p w)).
  { destruct HR as (HX & HP & HF).
    pose proof (new_start_building_file_XInv T w p _ _ HX (or_introl Hin) (start_unclaimed p w Hc)) as HXa.
    split; [exact HXa|]. split; [|exact HF].
    intros x Hx. unfold claim_world, claim_cache in Hx. cbn [w_new set_new c_files cache_with] in Hx.
    destruct (path_eqb x p) eqn:Ex; [apply path_eqb_eq in Ex; subst; exact Hin|].
    apply path_eqb_neq in Ex. rewrite files_get_set_other in Hx by exact Ex. apply HP. exact Hx. }
  split; [exact HRa|].
  unfold bf_claim in H. apply bind_inv in H. rewrite (start_unclaimed p w Hc) in H.
  destruct H as [[wa [u [E1 H]]]|[e [E1 _]]]; [|discriminate]. inversion E1; subst wa u. clear E1.
  apply bind_inv in H. destruct H as [[wb [u' [E2 H]]]|[e [_ Er]]]; [|discriminate].
  inversion H; subst wb. clear H.
  unfold catch in E2.
  destruct ((w0 <- get ;; (if isfile (w_fs w0) p then b <- back_up_and_remove p ;; ret tt else ret tt)) (claim_world p w))
    as [wc [u2|e2]] eqn:E3.
  - inversion E2; subst wc u'. apply bind_inv in E3. unfold get in E3.
    destruct E3 as [[wd [w0 [E0 E3]]]|[e3 [E0 _]]]; [|discriminate]. inversion E0; subst wd w0.
    change (w_fs (claim_world p w)) with (w_fs w) in E3.
    destruct (isfile (w_fs w) p) eqn:Ei.
    + right. split; [reflexivity|].
      apply bind_inv in E3. destruct E3 as [[wd [bb [E4 E5]]]|[e3 [_ E5]]]; [|discriminate].
      inversion E5; subst wd. exists bb. exact E4.
    + left. inversion E3. split; reflexivity.
  - apply bind_inv in E2. destruct E2 as [[wd [u3 [_ E2]]]|[e3 [_ E2]]]; discriminate.
Qed.

(* what the claim does to the world *)
Lemma claim_facts : forall T p w w1 r,
  RInv T w -> In p T -> cache_has_file (w_new w) p = false -> isdir (w_fs w) p = false ->
  bf_claim p w = (w1, r) ->
  r = inl None /\
  (forall a, lookup (view_fs w1) a = lookup (try_remove (view_fs w) p) a) /\
  lookup (w_fs w1) p = None /\ (forall q, q <> p -> lookup (w_fs w1) q = lookup (w_fs w) q) /\
  w_new w1 = claim_cache (w_new w) p /\ w_old w1 = w_old w /\ w_cachefile w1 = w_cachefile w /\
  w_bd w1 = w_bd w.
Proof.
  intros T p w w1 r HR Hin Hc Hnd H.
  destruct (claim_steps T p w w1 r HR Hin Hc H) as (Hr & HRa & Hcase).
  split; [exact Hr|].
  pose proof (RInv_X _ _ HR) as HX.
  destruct (x_tgt _ _ HX p Hin) as (Hne & _ & _).
  pose proof (view_claim_start T w p HX Hin Hne Hnd) as Hv. cbv zeta in Hv.
  change (forall a, lookup (view_fs (claim_world p w)) a = lookup (try_remove (view_fs w) p) a) in Hv.
  destruct Hcase as [[Hf ->]|[Hf [bb Hb]]].
  - split; [exact Hv|]. split; [|split; [intros; reflexivity|repeat split]].
    cbn [claim_world w_fs set_new]. unfold isfile in Hf. unfold isdir in Hnd.
    destruct (lookup (w_fs w) p) as [[g|]|]; try discriminate; reflexivity.
  - assert (Hh: hid (claim_world p w) p = true).
    { unfold hid, cache_has_file, cache_get_file, claim_world, claim_cache. cbn [w_new set_new c_files cache_with].
      rewrite files_get_set_same. apply orb_true_r. }
    destruct (view_back_up_target T (claim_world p w) p w1 bb HRa Hin Hf Hh Hb) as (B1 & B2 & B3 & B4 & B5 & B6 & B7 & _).
    split; [intro a; rewrite B1; apply Hv|]. split; [exact B2|]. split; [exact B3|].
    split; [exact B4|]. split; [exact B5|]. split; [exact B6|exact B7].
Qed.

(* ------------------------------------------------------------------ try_remove *)
Lemma try_remove_at : forall fs p, isdir fs p = false -> lookup (try_remove fs p) p = None.
Proof.
  intros fs p Hnd. destruct (try_remove_char fs p p) as [E|(_ & E & _)]; [|exact E].
  rewrite E. unfold try_remove in E. unfold isdir in Hnd. unfold isfile in E.
  destruct (lookup fs p) as [[g|]|] eqn:El; [|discriminate|reflexivity].
  exfalso. destruct (remove fs p) as [fs'|e] eqn:Er.
  - apply remove_frame in Er. destruct Er as (_ & Hn & _). congruence.
  - unfold remove in Er. rewrite El in Er. destruct p; [cbn in El; discriminate|discriminate].
Qed.

Lemma try_remove_dir : forall fs p x, lookup fs x = Some NDir -> lookup (try_remove fs p) x = Some NDir.
Proof.
  intros fs p x H. destruct (try_remove_char fs p x) as [E|(_ & _ & [g E])]; congruence.
Qed.

Lemma claim_trel : forall W a b p, trel W a b -> isdir a p = false ->
  trel (p :: W) (try_remove a p) (try_remove b p).
Proof.
  intros W a b p H Hnd x. cbn [mem_path]. destruct (path_eqb p x) eqn:E.
  - apply path_eqb_eq in E. subst x. cbn [orb].
    rewrite (try_remove_at a p Hnd). rewrite (try_remove_at b p); [exact I|].
    rewrite <- (trel_isdir W a b p H). exact Hnd.
  - apply path_eqb_neq in E. cbn [orb].
    rewrite (try_remove_frame a p x), (try_remove_frame b p x) by congruence. apply H.
Qed.

Lemma view_not_dir : forall w p, isdir (w_fs w) p = false -> isdir (view_fs w) p = false.
Proof.
  intros w p H. unfold isdir. destruct (lookup (view_fs w) p) as [[g|]|] eqn:E; try reflexivity.
  apply view_dir_disk in E. unfold isdir in H. rewrite E in H. discriminate.
Qed.

Lemma vis_log_invoke : forall f t a k l, vis_log (LInvoke f t a k :: l) = LInvoke f t a k :: vis_log l.
Proof. reflexivity. Qed.

Lemma unclaimed_get : forall c p, cache_has_file c p = false -> cache_get_file c p = None.
Proof. intros c p H. unfold cache_has_file in H. unfold cache_get_file. destruct (files_get (c_files c) p); [discriminate|reflexivity]. Qed.

(* ------------------------------------------------------------------ Sim3 *)
Lemma claim_sim3 : forall W w s0 p f sa skw w1,
  Sim3 W w s0 -> cache_has_file (w_new w) p = false -> isdir (w_fs w) p = false ->
  (forall a, lookup (view_fs w1) a = lookup (try_remove (view_fs w) p) a) ->
  lookup (w_fs w1) p = None -> (forall q, q <> p -> lookup (w_fs w1) q = lookup (w_fs w) q) ->
  w_new w1 = claim_cache (w_new w) p -> w_old w1 = w_old w -> w_cachefile w1 = w_cachefile w ->
  vis_log (w_log w1) = vis_log (w_log w) ->
  Sim3 (p :: W) (bf_invoke_world p f sa skw w1) (CoreLaws3.core_start s0 p f sa skw).
Proof.
  intros W w s0 p f sa skw w1 [S1 S2 S3 S4 S5 S6 S7 S8 S9 S10] Hc Hnd Hv Hp Hoth Hnew Hold Hcf Hlog.
  constructor; unfold bf_invoke_world, CoreLaws3.core_start, klog;
    cbn [ks_with k_fs k_stale k_claimedF k_claimedS k_log k_cachefile k_old k_vers k_newF k_newS
         set_log w_fs w_new w_old w_cachefile w_log].
  - change (trel (p :: W) (view_fs (set_log (LInvoke f (Some p) sa skw :: w_log w1) w1)) (try_remove (k_fs s0) p)).
    apply (trel_ext_l (p :: W) (try_remove (view_fs w) p)).
    + intro a. rewrite <- Hv. f_equal.
    + apply claim_trel; [exact S1|apply view_not_dir; exact Hnd].
  - rewrite Hcf. exact S2.
  - rewrite Hold. exact S3.
  - intro g. rewrite Hnew. unfold func_version, claim_cache. cbn [c_fvers cache_with]. apply S4.
  - intro x. cbn [mem_path]. rewrite Hnew. unfold claim_cache.
    rewrite (cache_has_file_set _ _ p None x _ _ _ eq_refl). rewrite S5. f_equal. apply path_eqb_sym.
  - intro k. rewrite Hnew. unfold cache_has_subbuild, claim_cache. cbn [c_subs cache_with]. apply S6.
  - rewrite !vis_log_invoke. f_equal. rewrite Hlog. exact S7.
  - intro x. rewrite Hnew. unfold claim_cache. rewrite (cache_get_file_set _ _ p None x _ _ _ eq_refl).
    destruct (path_eqb x p) eqn:E.
    + apply path_eqb_eq in E. subst x. specialize (S8 p). rewrite (unclaimed_get _ _ Hc) in S8.
      destruct (kf_get (k_newF s0) p); [contradiction|exact I].
    + apply S8.
  - intro k. rewrite Hnew. unfold claim_cache. cbn [c_subs cache_with]. apply S9.
  - intro x. rewrite stale_get_del. destruct (path_eqb p x) eqn:E.
    + apply path_eqb_eq in E. subst x. rewrite Hp. reflexivity.
    + rewrite Hoth by (intro K; subst x; rewrite path_eqb_refl in E; discriminate).
      rewrite Hold, Hnew. unfold claim_cache. rewrite (cache_has_file_set _ _ p None x _ _ _ eq_refl).
      rewrite (path_eqb_sym x p), E. cbn [orb]. apply S10.
Qed.

(* ------------------------------------------------------------------ Sim4c *)
Lemma claim_sim4 : forall T W w s0 p f sa skw w1,
  SimSetup T W p w s0 -> RInv2' (p :: T) w1 ->
  (forall a, lookup (view_fs w1) a = lookup (try_remove (view_fs w) p) a) ->
  lookup (w_fs w1) p = None -> (forall q, q <> p -> lookup (w_fs w1) q = lookup (w_fs w) q) ->
  w_new w1 = claim_cache (w_new w) p -> w_old w1 = w_old w -> w_cachefile w1 = w_cachefile w ->
  w_bd w1 = w_bd w -> vis_log (w_log w1) = vis_log (w_log w) ->
  Sim4c (p :: T) (p :: W) (bf_invoke_world p f sa skw w1) (CoreLaws3.core_start s0 p f sa skw).
Proof.
  intros T W w s0 p f sa skw w1 (HP & HL & Hc & Hnd) HR2 Hv Hp Hoth Hnew Hold Hcf Hbd Hlog.
  destruct HP as [P1 P2 P3 P4 P5 P6 P7 P8 P9 P10 P11 P12].
  split.
  - constructor.
    + apply (claim_sim3 W w s0 p f sa skw w1); assumption.
    + apply (RInv2_fields (fun _ => True) (p :: T) w1); [exact HR2|..]; reflexivity.
    + exact P3.
    + exact P4.
    + intro x. unfold bf_invoke_world. cbn [w_bd set_log]. rewrite Hbd. apply P5.
    + apply wf_try_remove. exact P6.
    + intros t Ht. apply try_remove_dir. apply P7. exact Ht.
    + intros x Hx. apply try_remove_dir. apply P8. unfold bf_invoke_world in Hx. cbn [w_cachefile set_log] in Hx.
      rewrite Hcf in Hx. exact Hx.
    + intros x Hx. unfold bf_invoke_world. cbn [w_cachefile set_log]. rewrite Hcf. apply P9. exact Hx.
    + intros q v Hq. unfold bf_invoke_world in Hq. cbn [w_new set_log] in Hq. rewrite Hnew in Hq. apply (P10 q v Hq).
    + unfold bf_invoke_world. cbn [w_new set_log]. rewrite Hnew. exact P11.
    + exact P12.
  - intros x Hx. unfold bf_invoke_world. cbn [w_new set_log]. rewrite Hnew. unfold claim_cache.
    rewrite (cache_has_file_set _ _ p None x _ _ _ eq_refl).
    destruct Hx as [->|Hx]; [rewrite path_eqb_refl; reflexivity|].
    rewrite (HL x Hx). apply orb_true_r.
Qed.

(* ------------------------------------------------------------------ the statement *)
Theorem claim_ok : claim_statement.
Proof.
  intros T W w s0 p f sa skw w1 r HS Htg H.
  pose proof HS as (HP & HL & Hc & Hnd).
  pose proof (s4_rinv _ _ _ _ HP) as HR2. pose proof (RInv2_R' _ _ HR2) as HR.
  destruct (claim_facts (p :: T) p w w1 r HR (or_introl eq_refl) Hc Hnd H)
    as (Hr & Hv & Hp & Hoth & Hnew & Hold & Hcf & Hbd).
  assert (HR1: RInv (p :: T) w1).
  { destruct (bf_claim_RInv (p :: T) p w w1 r HR (or_introl eq_refl) H) as [(A & _)|(A & _)]; exact A. }
  assert (HR21: RInv2' (p :: T) w1).
  { apply (RInv2_step (p :: T) (p :: T) w w1 HR2); [|exact HR1].
    apply (bf_claim_gl walk_fuel _ _ _ _ H). }
  assert (Hlog: vis_log (w_log w1) = vis_log (w_log w)).
  { destruct vlog as (_ & V & _). apply (V p w w1 r H). }
  split; [exact Hr|]. split.
  - apply (claim_sim4 T W w s0 p f sa skw w1); assumption.
  - split; [|split; [exact Hoth|split; [exact Hp|exact Hold]]].
    intro y. unfold inprog. rewrite Hnew. unfold claim_cache. cbn [c_files cache_with].
    destruct (list_eq_dec string_dec y p) as [->|Hne].
    + rewrite files_get_set_same. split; [intros _; right; reflexivity|reflexivity].
    + rewrite files_get_set_other by exact Hne. split; [intro K; left; exact K|intros [K|K]; [exact K|contradiction]].
Qed.

Print Assumptions claim_ok.
