(* Proofs/SimA2Claim.v — C04, the link to Core, run level: the claim of the target of build_file
   when the cache lookup has missed (SimA2.claim_statement): bf_claim on the mechanism model
   against CoreLaws3.core_start on Core. *)
From Coq Require Import List String Ascii NArith ZArith Bool Arith Lia.
From FB.Base Require Import PyVal Fs.
From FB.Gen Require Import JsonUtilGen.
From FB.Spec Require Import JsonSpec Prog Ref Oracle Faithful.
From FB.Model Require Import Types Monad CreatedFiles BuildDirs SimpleOps Builder Persist Build Run Frame Core CoreOracle.
From FB.Proofs Require Import FsLemmas JsonLaws ReplayLaws CleanLaws BuildFileLaws HashMemoInv HashMemoRun CoreLaws1 CoreLaws2 CoreLaws3
     ViewDefs ViewLemmas ViewFrame ViewInit ViewPres ViewXDefs ViewXFrame ViewXError ViewXQuery ViewXSteps ViewXMake1 ViewXMake2 ViewXFail ViewXSetup ViewXRun
     ViewR1 ViewR2 ViewR3 ViewK1 ViewK2 ViewK3 ViewK4 ViewK5 ViewK7 ViewK8 SimA0 SimARun SimA1 SimA1Vlog SimA2Base SimA2.
Import ListNotations.
Open Scope list_scope.
Open Scope m_scope.

Local Notation RInv2' := (RInv2 (fun _ => True)).

(* the new cache after new_start_building_file *)
Definition claim_cache (c : cache) (p : path) : cache :=
  cache_with c (files_set (c_files c) p None) (c_subs c) (c_dirs c) (c_built c ++ [p]).

Definition claim_world (p : path) (w : world) : world := set_new (claim_cache (w_new w) p) w.

(* ------------------------------------------------------------------ the steps of bf_claim *)
Lemma start_unclaimed : forall p w, cache_has_file (w_new w) p = false ->
  new_start_building_file p w = (claim_world p w, inl tt).
Proof.
  intros p w H. unfold new_start_building_file, new_assert_no_file, bind, get, modify. rewrite H. reflexivity.
Qed.

Lemma claim_steps : forall T p w w1 r,
  RInv T w -> In p T -> cache_has_file (w_new w) p = false ->
  bf_claim p w = (w1, r) ->
  r = inl None /\ RInv T (claim_world p w) /\
  ((isfile (w_fs w) p = false /\ w1 = claim_world p w) \/
   (isfile (w_fs w) p = true /\ exists bb, back_up_and_remove p (claim_world p w) = (w1, inl bb))).
Proof.
  intros T p w w1 r HR Hin Hc H.
  destruct (bf_claim_RInv T p w w1 r HR Hin H) as [(_ & Hr & _)|(_ & _ & K)]; [|congruence].
  split; [exact Hr|]. subst r.
  assert (HRa: RInv T (claim_world p w)).
  { destruct HR as (HX & HP & HF).
    pose proof (new_start_building_file_XInv T w p _ _ HX (or_introl Hin) (start_unclaimed p w Hc)) as HXa.
    split; [exact HXa|]. split; [|exact HF].
    intros x Hx. unfold claim_world, claim_cache in Hx. cbn [w_new set_new c_files cache_with] in Hx.
    destruct (path_eqb x p) eqn:Ex; [apply path_eqb_eq in Ex; subst; exact Hin|].
    apply path_eqb_neq in Ex. rewrite files_get_set_other in Hx by exact Ex. apply HP. exact Hx. }
  split; [exact HRa|].
  unfold bf_claim in H. apply bind_inv in H. rewrite (start_unclaimed p w Hc) in H.
  destruct H as [[wa [u [E1 H]]]|[e [E1 _]]]; [|discriminate]. inversion E1; subst wa u. clear E1.
  apply bind_inv in H. destruct H as [[wb [u' [E2 H]]]|[e [_ Er]]]; [|discriminate].
  inversion H; subst wb. clear H.
  unfold catch in E2.
  destruct ((w0 <- get ;; (if isfile (w_fs w0) p then b <- back_up_and_remove p ;; ret tt else ret tt)) (claim_world p w))
    as [wc [u2|e2]] eqn:E3.
  - inversion E2; subst wc u'. apply bind_inv in E3. unfold get in E3.
    destruct E3 as [[wd [w0 [E0 E3]]]|[e3 [E0 _]]]; [|discriminate]. inversion E0; subst wd w0.
    change (w_fs (claim_world p w)) with (w_fs w) in E3.
    destruct (isfile (w_fs w) p) eqn:Ei.
    + right. split; [reflexivity|].
      apply bind_inv in E3. destruct E3 as [[wd [bb [E4 E5]]]|[e3 [_ E5]]]; [|discriminate].
      inversion E5; subst wd. exists bb. exact E4.
    + left. inversion E3. split; reflexivity.
  - apply bind_inv in E2. destruct E2 as [[wd [u3 [_ E2]]]|[e3 [_ E2]]]; discriminate.
Qed.
