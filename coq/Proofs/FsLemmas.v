(* Proofs/FsLemmas.v — frame lemmas of the file-system model. *)
From Coq Require Import List String Ascii NArith Bool Arith Lia.
From FB.Base Require Import PyVal Fs.
Import ListNotations.
Open Scope list_scope.

Lemma path_eqb_refl : forall p, path_eqb p p = true.
Proof. induction p as [|x p IH]; simpl; [reflexivity|]. rewrite String.eqb_refl, IH. reflexivity. Qed.

Lemma path_eqb_eq : forall p q, path_eqb p q = true <-> p = q.
Proof.
  induction p as [|x p IH]; destruct q as [|y q]; simpl; split; intro H; try congruence; try reflexivity.
  - apply andb_true_iff in H. destruct H as [H1 H2]. apply String.eqb_eq in H1. apply IH in H2. congruence.
  - inversion H; subst. rewrite String.eqb_refl. simpl. apply IH. reflexivity.
Qed.

Lemma path_eqb_neq : forall p q, path_eqb p q = false <-> p <> q.
Proof.
  intros p q. split; intro H.
  - intro E. apply path_eqb_eq in E. congruence.
  - destruct (path_eqb p q) eqn:E; [|reflexivity]. apply path_eqb_eq in E. contradiction.
Qed.

Lemma path_eqb_sym : forall p q, path_eqb p q = path_eqb q p.
Proof.
  intros p q. destruct (path_eqb p q) eqn:E.
  - apply path_eqb_eq in E. subst. symmetry. apply path_eqb_refl.
  - symmetry. apply path_eqb_neq. apply path_eqb_neq in E. congruence.
Qed.

Lemma lookup_upd_eq : forall fs p n, p <> [] -> lookup (upd p n fs) p = n.
Proof.
  intros fs p n Hp. destruct p as [|x p]; [contradiction|]. unfold lookup, upd. simpl.
  rewrite String.eqb_refl, path_eqb_refl. reflexivity.
Qed.

Lemma lookup_upd_neq : forall fs p q n, q <> p -> lookup (upd p n fs) q = lookup fs q.
Proof.
  intros fs p q n H. destruct q as [|y q]; [reflexivity|]. unfold lookup, upd. cbn [raw_lookup].
  destruct (path_eqb p (y :: q)) eqn:E; [|reflexivity]. apply path_eqb_eq in E. congruence.
Qed.

Lemma lookup_root : forall fs, lookup fs [] = Some NDir.
Proof. reflexivity. Qed.

(* each mutating call changes exactly one path *)
Lemma mkdir_frame : forall fs p fs', mkdir fs p = inl fs' ->
  lookup fs' p = Some NDir /\ lookup fs p = None /\ (forall q, q <> p -> lookup fs' q = lookup fs q).
Proof.
  intros fs p fs' H. unfold mkdir in H. destruct p as [|n d]; [discriminate|].
  destruct (lookup fs (n :: d)) eqn:E1; [discriminate|].
  destruct (lookup fs d) as [[f|]|] eqn:E2; try discriminate.
  destruct (name_ok n); [|discriminate]. inversion H; subst.
  split; [apply lookup_upd_eq; discriminate|]. split; [reflexivity|].
  intros q Hq. apply lookup_upd_neq; assumption.
Qed.

Lemma rmdir_frame : forall fs p fs', rmdir fs p = inl fs' ->
  lookup fs p = Some NDir /\ children fs p = [] /\ p <> [] /\ lookup fs' p = None /\
  (forall q, q <> p -> lookup fs' q = lookup fs q).
Proof.
  intros fs p fs' H. unfold rmdir in H. destruct p as [|n d]; [discriminate|].
  destruct (lookup fs (n :: d)) as [[f|]|] eqn:E1; try discriminate.
  destruct (children fs (n :: d)) eqn:E2; [|discriminate]. inversion H; subst.
  repeat split; try reflexivity; try discriminate.
  - apply lookup_upd_eq; discriminate.
  - intros q Hq. apply lookup_upd_neq; assumption.
Qed.

Lemma remove_frame : forall fs p fs', remove fs p = inl fs' ->
  (exists f, lookup fs p = Some (NFile f)) /\ lookup fs' p = None /\
  (forall q, q <> p -> lookup fs' q = lookup fs q).
Proof.
  intros fs p fs' H. unfold remove in H.
  destruct (lookup fs p) as [[f|]|] eqn:E1; destruct p as [|n d]; try discriminate.
  inversion H; subst. split; [eauto|]. split; [apply lookup_upd_eq; discriminate|].
  intros q Hq. apply lookup_upd_neq; assumption.
Qed.

Lemma write_file_frame : forall fs p b j m i fs', write_file fs p b j m i = inl fs' ->
  (exists f, lookup fs' p = Some (NFile f) /\ f_bytes f = b /\ f_mtime f = m /\ f_json f = j) /\
  (forall q, q <> p -> lookup fs' q = lookup fs q).
Proof.
  intros fs p b j m i fs' H. unfold write_file in H. destruct p as [|n d]; [discriminate|].
  destruct (lookup fs (n :: d)) as [[f|]|] eqn:E1; try discriminate.
  - inversion H; subst. split.
    + eexists. split; [apply lookup_upd_eq; discriminate|]. simpl. auto.
    + intros q Hq. apply lookup_upd_neq; assumption.
  - destruct (lookup fs d) as [[f|]|] eqn:E2; try discriminate.
    destruct (name_ok n); [|discriminate]. inversion H; subst. split.
    + eexists. split; [apply lookup_upd_eq; discriminate|]. simpl. auto.
    + intros q Hq. apply lookup_upd_neq; assumption.
Qed.

Lemma replace_in_frame : forall fs p f fs', replace_in fs p f = inl fs' ->
  lookup fs' p = Some (NFile f) /\ (forall q, q <> p -> lookup fs' q = lookup fs q).
Proof.
  intros fs p f fs' H. unfold replace_in in H. destruct p as [|n d]; [discriminate|].
  assert (G: forall fs', (match lookup fs d with
             | Some NDir => if name_ok n then inl (upd (n :: d) (Some (NFile f)) fs) else inr EOTHER
             | Some (NFile _) => inr ENOTDIR
             | None => inr (stat_err fs (n :: d)) end) = inl fs' ->
             lookup fs' (n :: d) = Some (NFile f) /\ (forall q, q <> n :: d -> lookup fs' q = lookup fs q)).
  { intros fs0 H0. destruct (lookup fs d) as [[g|]|]; try discriminate.
    destruct (name_ok n); [|discriminate]. inversion H0; subst.
    split; [apply lookup_upd_eq; discriminate|]. intros q Hq. apply lookup_upd_neq; assumption. }
  destruct (lookup fs (n :: d)) as [[g|]|]; try discriminate; apply G; exact H.
Qed.

Lemma rename_out_file_frame : forall fs p fs' f, rename_out fs p = inl (fs', NFile f) ->
  lookup fs p = Some (NFile f) /\ lookup fs' p = None /\ (forall q, q <> p -> lookup fs' q = lookup fs q).
Proof.
  intros fs p fs' f H. unfold rename_out in H.
  destruct (lookup fs p) as [[g|]|] eqn:E1; destruct p as [|n d]; try discriminate.
  inversion H; subst. split; [reflexivity|]. split; [apply lookup_upd_eq; discriminate|].
  intros q Hq. apply lookup_upd_neq; assumption.
Qed.

Lemma isfile_lookup : forall fs p, isfile fs p = true <-> exists f, lookup fs p = Some (NFile f).
Proof.
  intros fs p. unfold isfile. destruct (lookup fs p) as [[f|]|]; split; intro H; try discriminate; eauto;
  destruct H as [g Hg]; discriminate.
Qed.

Lemma isdir_lookup : forall fs p, isdir fs p = true <-> lookup fs p = Some NDir.
Proof.
  intros fs p. unfold isdir. destruct (lookup fs p) as [[f|]|]; split; intro H; try discriminate; auto.
Qed.
