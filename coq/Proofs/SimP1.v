(* Proofs/SimP1.v — a build (and clean) keeps the tree well formed, for ANY program and under
   ANY injected fault set.
   Method: every mutating call of Base/Fs.v keeps [fs_wf] (RollbackDirsBase for mkdir, rmdir,
   remove, write_file, replace_in, makedirs_p and rename_out of a regular file; here: rename_out
   of a whole directory, [rename_out_wf]); every routine of the model changes [w_fs] only through
   [effect] / [effect_p] / the rename inside back_up_and_remove / the write of user code.  The
   implication-style preorder [wfr w w' := fs_wf (w_fs w) -> fs_wf (w_fs w')] is threaded through
   the model bottom-up with the footprint toolkit of ReplayLaws (same scheme as FrameLaws, but no
   side condition is needed anywhere, so no hypothesis on the program or on the fault list).
   Results:
     [run_wf]                               any program, any target
     [m_build_wf], [run_build_wf]           every outcome, any faults
     [run_build_keeps_tree_well_formed]     the statement left open in SimL2
     [committed_directory_with_foreign_content_survives]   the C03 clause of SimL2, outright
     [m_clean_wf]                           clean, every outcome, any faults
   New file; edits nothing. *)
From Coq Require Import List String Ascii NArith ZArith Bool Arith Lia.
From FB.Base Require Import PyVal Fs.
From FB.Gen Require Import JsonUtilGen.
From FB.Spec Require Import Prog.
From FB.Model Require Import Types Monad CreatedFiles BuildDirs SimpleOps Builder Persist Build Run Frame.
From FB.Proofs Require Import FsLemmas ReplayLaws RollbackDirsBase FrameLaws SimL1 SimL2.
Import ListNotations.
Local Open Scope list_scope.

#[local] Hint Resolve m_handle_dir_exists_svb m_is_removed_svb is_file_no_read_svb is_cache_file_svb
  file_metadata_svb file_hash_svb list_dir_superset_svb file_comparison_result_svb
  m_is_file_svb m_is_dir_svb m_exists_svb exec_query_svb noneable_cmp_svb version_equal_svb
  is_build_file_cached_svb dirs_to_make_svb is_op_cached_svb are_subs_cached_svb
  build_file_cache_lookup_svb subbuild_cache_lookup_svb m_bd_started_svb m_bd_error_svb
  new_assert_no_file_svb new_assert_no_subbuild_svb m_query_svb : pres.

(* ================================================================== *)
(* 1. rename_out of a directory                                        *)
(* ================================================================== *)

Definition dbf (p : path) (base : fsT) (l : fsT) : fsT :=
  fold_right (fun (e : path * option node) acc => if below p (fst e) then upd (fst e) None acc else acc) base l.

Lemma dbf_keep : forall p l base x, below p x = false -> raw_lookup (dbf p base l) x = raw_lookup base x.
Proof.
  intros p l base x Hx. induction l as [|e l IH]; cbn [dbf fold_right]; [reflexivity|].
  fold (dbf p base l). destruct (below p (fst e)) eqn:E; [|exact IH].
  unfold upd. cbn [raw_lookup]. destruct (path_eqb (fst e) x) eqn:G; [|exact IH].
  apply path_eqb_eq in G. congruence.
Qed.

Lemma dbf_drop : forall p l base x v, below p x = true -> In (x, v) l -> raw_lookup (dbf p base l) x = None.
Proof.
  intros p l base x v Hx. induction l as [|e l IH]; intro Hin; [destruct Hin|].
  cbn [dbf fold_right]. fold (dbf p base l). destruct Hin as [->|Hin].
  - cbn [fst]. rewrite Hx. unfold upd. cbn [raw_lookup]. rewrite path_eqb_refl. reflexivity.
  - destruct (below p (fst e)); [|exact (IH Hin)].
    unfold upd. cbn [raw_lookup]. destruct (path_eqb (fst e) x); [reflexivity | exact (IH Hin)].
Qed.

Lemma dbf_some : forall p l base x n, raw_lookup (dbf p base l) x = Some n -> raw_lookup base x = Some n.
Proof.
  intros p l base x n. induction l as [|e l IH]; cbn [dbf fold_right]; intro H; [exact H|].
  fold (dbf p base l) in H. destruct (below p (fst e)); [|apply IH, H].
  unfold upd in H. cbn [raw_lookup] in H. destruct (path_eqb (fst e) x); [discriminate H | apply IH, H].
Qed.

Lemma raw_lookup_In : forall fs x n, raw_lookup fs x = Some n -> exists v, In (x, v) fs.
Proof.
  induction fs as [|[q o] fs IH]; intros x n H; cbn [raw_lookup] in H; [discriminate H|].
  destruct (path_eqb q x) eqn:E.
  - apply path_eqb_eq in E. subst q. exists o. left. reflexivity.
  - destruct (IH _ _ H) as [v Hv]. exists v. right. exact Hv.
Qed.

Lemma drop_below_below : forall fs p x, below p x = true -> raw_lookup (drop_below fs p) x = None.
Proof.
  intros fs p x Hx. destruct (raw_lookup (drop_below fs p) x) as [n|] eqn:E; [|reflexivity].
  pose proof E as E0. change (drop_below fs p) with (dbf p fs fs) in E0. apply dbf_some in E0.
  destruct (raw_lookup_In _ _ _ E0) as [v Hv].
  change (drop_below fs p) with (dbf p fs fs) in E. rewrite (dbf_drop p fs fs x v Hx Hv) in E. discriminate E.
Qed.

Lemma drop_below_other : forall fs p x, below p x = false -> raw_lookup (drop_below fs p) x = raw_lookup fs x.
Proof. intros fs p x Hx. exact (dbf_keep p fs fs x Hx). Qed.

Lemma rename_out_dir_wf : forall fs p fs', rename_out fs p = inl (fs', NDir) -> fs_wf fs -> fs_wf fs'.
Proof.
  intros fs p fs' H Hwf. unfold rename_out in H.
  destruct (lookup fs p) as [[g|]|] eqn:E1; destruct p as [|a d]; try discriminate H; inversion H; subst; clear H.
  intros q n Hq. destruct q as [|y q]; [reflexivity|]. cbn [dirname tl].
  unfold lookup, upd in Hq. cbn [raw_lookup] in Hq.
  destruct (path_eqb (a :: d) (y :: q)) eqn:G; [discriminate Hq|].
  destruct (below (a :: d) (y :: q)) eqn:B.
  { rewrite (drop_below_below fs (a :: d) (y :: q) B) in Hq. discriminate Hq. }
  rewrite (drop_below_other fs (a :: d) (y :: q) B) in Hq.
  pose proof (Hwf (y :: q) n Hq) as Hd. cbn [dirname tl] in Hd.
  cbn [below] in B. apply orb_false_iff in B. destruct B as [B1 B2].
  destruct q as [|z q]; [reflexivity|].
  unfold lookup, upd. cbn [raw_lookup]. rewrite path_eqb_sym in B1. rewrite B1.
  rewrite (drop_below_other fs (a :: d) (z :: q) B2). exact Hd.
Qed.

Theorem rename_out_wf : forall fs p fs' n, rename_out fs p = inl (fs', n) -> fs_wf fs -> fs_wf fs'.
Proof.
  intros fs p fs' [f|] H Hwf; [eapply rename_out_file_wf; eauto | eapply rename_out_dir_wf; eauto].
Qed.

(* ================================================================== *)
(* 2. The preorder                                                     *)
(* ================================================================== *)

Definition wfr (w w' : world) : Prop := fs_wf (w_fs w) -> fs_wf (w_fs w').
Lemma wfr_refl : forall w, wfr w w.
Proof. intros w H. exact H. Qed.
Lemma wfr_trans : forall a b c, wfr a b -> wfr b c -> wfr a c.
Proof. intros a b c A B H. apply B, A, H. Qed.
Definition wfPO : PO := {| rel := wfr; po_refl := wfr_refl; po_trans := wfr_trans |}.

Lemma wfr_same : forall w w', w_fs w' = w_fs w -> wfr w w'.
Proof. intros w w' E H. rewrite E. exact H. Qed.

Lemma svb_wfr : forall w w', svbPO w w' -> wfPO w w'.
Proof. cbn. unfold same_but_view. intros w w' (A & _). apply wfr_same. exact A. Qed.

#[local] Hint Extern 8 (pres wfPO _) => apply (pres_weaken svbPO wfPO _ _ svb_wfr) : pres.

Lemma pres_svb_wf : forall X (m : world -> world * X), pres svbPO m -> pres wfPO m.
Proof. intros X m. apply pres_weaken. exact svb_wfr. Qed.

Lemma wfr_set_log : forall l w, wfr w (set_log l w).
Proof. intros l w. apply wfr_same. reflexivity. Qed.

(* ================================================================== *)
(* 3. Primitives                                                       *)
(* ================================================================== *)

Lemma effect_wf : forall what p f,
  (forall fs fs', f fs = inl fs' -> fs_wf fs -> fs_wf fs') -> pres wfPO (effect what p f).
Proof.
  intros what p f Hf w w' r H Hwf. unfold effect in H. cbv zeta in H.
  destruct (existsb (Nat.eqb (w_effects w)) (w_faults w)).
  - inversion H; subst. exact Hwf.
  - cbn [w_fs set_effects] in H. destruct (f (w_fs w)) as [fs'|e] eqn:E; inversion H; subst.
    + cbn [w_fs set_log set_fs]. eapply Hf; eauto.
    + exact Hwf.
Qed.

Lemma effect_p_wf : forall what p f,
  (forall fs fs' e, f fs = (fs', e) -> fs_wf fs -> fs_wf fs') -> pres wfPO (effect_p what p f).
Proof.
  intros what p f Hf w w' r H Hwf. unfold effect_p in H. cbv zeta in H.
  destruct (existsb (Nat.eqb (w_effects w)) (w_faults w)).
  - inversion H; subst. exact Hwf.
  - cbn [w_fs set_effects] in H. destruct (f (w_fs w)) as [fs' [e|]] eqn:E; inversion H; subst;
      cbn [w_fs set_log set_fs]; eapply Hf; eauto.
Qed.

Lemma effect_mkdir_wf : forall what p d, pres wfPO (effect what p (fun fs => mkdir fs d)).
Proof. intros. apply effect_wf. intros fs fs' H. eapply mkdir_wf; eauto. Qed.
Lemma effect_rmdir_wf : forall what p d, pres wfPO (effect what p (fun fs => rmdir fs d)).
Proof. intros. apply effect_wf. intros fs fs' H. eapply rmdir_wf; eauto. Qed.
Lemma effect_remove_wf : forall what p d, pres wfPO (effect what p (fun fs => remove fs d)).
Proof. intros. apply effect_wf. intros fs fs' H. eapply remove_wf; eauto. Qed.
Lemma effect_replace_wf : forall what p d f, pres wfPO (effect what p (fun fs => replace_in fs d f)).
Proof. intros. apply effect_wf. intros fs fs' H. eapply replace_in_wf; eauto. Qed.
Lemma effect_write_wf : forall what p d b j m i, pres wfPO (effect what p (fun fs => write_file fs d b j m i)).
Proof. intros. apply effect_wf. intros fs fs' H. eapply write_file_wf; eauto. Qed.
Lemma effect_id_wf : forall what p, pres wfPO (effect what p (fun fs => inl fs)).
Proof. intros. apply effect_wf. intros fs fs' H X. inversion H; subst. exact X. Qed.
Lemma effect_makedirs_wf : forall what p d, pres wfPO (effect_p what p (fun fs => makedirs_p fs d)).
Proof. intros. apply effect_p_wf. intros fs fs' e H. eapply makedirs_p_wf; eauto. Qed.

#[local] Hint Resolve effect_mkdir_wf effect_rmdir_wf effect_remove_wf effect_replace_wf effect_write_wf
  effect_id_wf effect_makedirs_wf : pres.

(* whatever is at p: a regular file, a directory (moved away with all its content), nothing *)
Lemma back_up_and_remove_wf : forall p, pres wfPO (back_up_and_remove p).
Proof.
  intro p. unfold back_up_and_remove. apply pres_bind; [apply effect_id_wf|]. intros _.
  intros w w' r H Hwf. cbv zeta in H.
  destruct (existsb (Nat.eqb (w_effects w)) (w_faults w)); [inversion H; subst; exact Hwf|].
  cbn [w_fs set_effects] in H.
  destruct (rename_out (w_fs w) p) as [[fs' [f|]]|e] eqn:E.
  - inversion H; subst. cbn [w_fs set_log set_backups set_fs set_effects]. eapply rename_out_wf; eauto.
  - inversion H; subst. cbn [w_fs set_log set_lost set_fs set_effects]. eapply rename_out_wf; eauto.
  - assert (G : w_fs w' = w_fs w) by (destruct e; inversion H; reflexivity).
    rewrite G. exact Hwf.
Qed.
#[local] Hint Resolve back_up_and_remove_wf : pres.

Lemma try_to_remove_file_wf : forall p, pres wfPO (try_to_remove_file p).
Proof. intro p. unfold try_to_remove_file. pres_auto. Qed.

Lemma restore_one_wf : forall x, pres wfPO (restore_one x).
Proof. intros [p f]. unfold restore_one. pres_auto. Qed.

Lemma restore_all_wf : pres wfPO restore_all.
Proof.
  intros w w' r H Hwf. unfold restore_all in H. unfold bind at 1, get in H.
  apply bind_inv in H. destruct H as [(w1 & u & E1 & H) | (e & E1 & _)]; [|discriminate E1].
  unfold put in E1. inversion E1; subst w1; clear E1.
  refine (pres_mapM_ wfPO _ restore_one (w_backups w) restore_one_wf _ _ _ H _). exact Hwf.
Qed.

Lemma remove_empty_dirs_wf : forall ds, pres wfPO (remove_empty_dirs ds).
Proof. intro ds. unfold remove_empty_dirs. pres_auto. Qed.

Lemma create_dirs_wf : forall ds, pres wfPO (create_dirs ds).
Proof. intro ds. unfold create_dirs. pres_auto. Qed.

#[local] Hint Resolve try_to_remove_file_wf restore_one_wf restore_all_wf remove_empty_dirs_wf create_dirs_wf : pres.

(* ================================================================== *)
(* 4. Directory preparation                                            *)
(* ================================================================== *)

Lemma make_one_dir_wf : forall d, pres wfPO (make_one_dir d).
Proof. intro d. unfold make_one_dir. pres_auto. Qed.
#[local] Hint Resolve make_one_dir_wf : pres.

Lemma make_dirs_loop_wf : forall ds made, pres wfPO (make_dirs_loop ds made).
Proof. induction ds as [|d ds IH]; intro made; cbn [make_dirs_loop]; pres_auto. Qed.
#[local] Hint Resolve make_dirs_loop_wf : pres.

Lemma make_dirs_wf : forall d, pres wfPO (make_dirs d).
Proof. intro d. unfold make_dirs. pres_auto. Qed.
#[local] Hint Resolve make_dirs_wf : pres.

Lemma make_room_wf : forall fuel d, pres wfPO (make_room fuel d).
Proof. induction fuel as [|fuel IH]; intro d; cbn [make_room]; pres_auto. Qed.
#[local] Hint Resolve make_room_wf : pres.

Lemma prepare_file_creation_wf : forall p, pres wfPO (prepare_file_creation p).
Proof. intro p. unfold prepare_file_creation. pres_auto. Qed.
#[local] Hint Resolve prepare_file_creation_wf : pres.

Lemma apply_cached_subs_of_wf : forall o, pres wfPO (apply_cached_subs_of o).
Proof.
  induction o as [q r e | p c f a k subs r cr ra sf IH | f a k subs r ra sf IH] using op_ind';
    cbn [apply_cached_subs_of].
  - apply pres_ret.
  - induction IH as [|s rest Hs HF IHl]; cbn beta iota fix; [apply pres_ret|].
    apply pres_bind; [|intros _; exact IHl]. pres_auto.
  - induction IH as [|s rest Hs HF IHl]; cbn beta iota fix; [apply pres_ret|].
    apply pres_bind; [|intros _; exact IHl]. pres_auto.
Qed.
#[local] Hint Resolve apply_cached_subs_of_wf : pres.

(* ================================================================== *)
(* 5. The new cache: the tree is not touched                           *)
(* ================================================================== *)

Lemma modify_wf : forall f : world -> world, (forall w, w_fs (f w) = w_fs w) -> pres wfPO (modify f).
Proof. intros f Hf. apply pres_modify. intro w. apply wfr_same. apply Hf. Qed.

Lemma new_start_building_file_wf : forall p, pres wfPO (new_start_building_file p).
Proof. intro p. unfold new_start_building_file. pres_auto. apply modify_wf. reflexivity. Qed.
Lemma new_abort_building_file_wf : forall p, pres wfPO (new_abort_building_file p).
Proof. intro p. unfold new_abort_building_file. apply modify_wf. reflexivity. Qed.
Lemma new_finish_building_file_wf : forall p o, pres wfPO (new_finish_building_file p o).
Proof. intros p o. unfold new_finish_building_file. apply modify_wf. reflexivity. Qed.
Lemma new_start_subbuild_wf : forall k, pres wfPO (new_start_subbuild k).
Proof. intro k. unfold new_start_subbuild. pres_auto. apply modify_wf. reflexivity. Qed.
Lemma new_finish_subbuild_wf : forall k o, pres wfPO (new_finish_subbuild k o).
Proof. intros k o. unfold new_finish_subbuild. apply modify_wf. reflexivity. Qed.

Lemma new_use_cached_operation_wf : forall o, pres wfPO (new_use_cached_operation o).
Proof.
  intros o w w' r H. unfold new_use_cached_operation in H. unfold bind at 1, get in H.
  destruct (assert_no_repeats (w_new w) o).
  - unfold put in H. inversion H; subst. apply wfr_same. reflexivity.
  - inversion H; subst. apply wfr_refl.
Qed.

Lemma set_created_dirs_wf : forall ccd, pres wfPO (set_created_dirs ccd).
Proof.
  intros ccd w w' r H. unfold set_created_dirs in H. unfold bind at 1, get in H. cbv zeta in H.
  apply bind_inv in H. destruct H as [(w1 & u & E1 & H) | (e & E1 & _)]; [|discriminate E1].
  unfold put in E1. inversion E1; subst w1; clear E1. inversion H; subst; clear H.
  apply wfr_same. reflexivity.
Qed.

#[local] Hint Resolve new_start_building_file_wf new_abort_building_file_wf new_finish_building_file_wf
  new_start_subbuild_wf new_finish_subbuild_wf new_use_cached_operation_wf set_created_dirs_wf : pres.

(* ================================================================== *)
(* 6. Commit, roll back, the cache file                                *)
(* ================================================================== *)

Lemma commit_wf : forall err, pres wfPO (commit err).
Proof.
  intro err. unfold commit. apply pres_bind; [apply pres_get|]. intro w0.
  apply pres_bind; [|intros _; apply pres_bind; [|intro; auto with pres]].
  - pres_auto.
  - generalize (c_dirs (w_old w0)). intro ds. induction ds as [|d ds IH]; pres_auto.
Qed.

Lemma roll_back_wf : forall ccd, pres wfPO (roll_back ccd).
Proof. intro ccd. unfold roll_back. apply pres_bind; [apply pres_get|]. intro w0. cbv zeta. pres_auto. Qed.

Lemma write_cache_wf : pres wfPO write_cache.
Proof.
  unfold write_cache. apply pres_bind; [apply pres_get|]. intro w0.
  destruct (cache_to_json (w_new w0)) as [j|]; [|apply pres_raise]. cbv zeta.
  apply pres_bind; [apply effect_write_wf|]. intros _.
  apply pres_bind; [|intros _; apply effect_write_wf].
  apply modify_wf. reflexivity.
Qed.
#[local] Hint Resolve commit_wf roll_back_wf write_cache_wf : pres.

(* ================================================================== *)
(* 7. build_file, subbuild, queries, user code                         *)
(* ================================================================== *)

Ltac wf_facts :=
  repeat match goal with
  | E : ?m ?w = (?w1, _) |- _ =>
      lazymatch goal with
      | _ : wfr w w1 |- _ => fail
      | _ => let X := fresh "RL" in
             assert (X : wfr w w1) by (refine ((_ : pres wfPO m) w w1 _ E); solve [pres_auto])
      end
  end.
Ltac wf_chain :=
  repeat first [ eassumption
               | apply wfr_refl
               | apply wfr_set_log
               | eapply wfr_trans; [eassumption|]
               | eapply wfr_trans; [apply wfr_set_log|];
                 first [ eassumption | eapply wfr_trans; [eassumption|] ] ].

Lemma m_build_file_wf : forall p c f a kw fn,
  (forall sa skw, pres wfPO (fn p sa skw)) -> pres wfPO (m_build_file p c f a kw fn).
Proof.
  intros p c f a kw fn Hfn w w' r H. unfold m_build_file in H.
  destruct (sanitize a) as [sa|]; [|inversion H; subst; apply wfr_refl].
  destruct (sanitize kw) as [skw|]; [|inversion H; subst; apply wfr_refl].
  cbv zeta in H.
  match type of H with (match ?X with _ => _ end) = _ => destruct X as [w1 res] eqn:Hs end.
  change (wfr w w').
  repeat dm H; inversion H; subst; wf_facts; wf_chain.
Qed.

Lemma m_subbuild_wf : forall f a kw fn,
  (forall sa skw, pres wfPO (fn sa skw)) -> pres wfPO (m_subbuild f a kw fn).
Proof.
  intros f a kw fn Hfn w w' r H. unfold m_subbuild in H.
  destruct (sanitize a) as [sa|]; [|inversion H; subst; apply wfr_refl].
  destruct (sanitize kw) as [skw|]; [|inversion H; subst; apply wfr_refl].
  cbv zeta in H.
  match type of H with (match ?X with _ => _ end) = _ => destruct X as [w1 res] eqn:Hs end.
  change (wfr w w').
  repeat dm H; inversion H; subst; wf_facts; wf_chain.
Qed.

Lemma m_query_wf : forall q, pres wfPO (m_query q).
Proof. intro q. apply pres_svb_wf, m_query_svb. Qed.

Lemma wfr_log_answer : forall q r w, wfr w (log_answer q r w).
Proof.
  intros q r w. unfold log_answer.
  repeat match goal with |- context [match ?x with _ => _ end] => destruct x end;
    first [apply wfr_refl | apply wfr_set_log].
Qed.

(* user code: any program, any target, any recorded suboperations *)
Theorem run_wf : forall pr target subs, pres wfPO (run pr target subs).
Proof.
  induction pr as [v | e | stale q k IH | c k IH | stale p c f a kw fn IHfn k IHk | stale f a kw fn IHfn k IHk];
    intros target subs w w' r H; cbn [run] in H; change (wfr w w').
  - inversion H; subst. apply wfr_refl.
  - inversion H; subst. apply wfr_refl.
  - destruct stale; [eapply IH; exact H|].
    destruct (m_query q w) as [w1 [r1 o]] eqn:E.
    apply m_query_wf in E. apply IH in H.
    eapply wfr_trans; [exact E|]. eapply wfr_trans; [apply wfr_log_answer | exact H].
  - destruct target as [t|]; [|eapply IH; exact H].
    destruct (write_file (w_fs w) t c None (N.succ (w_clock w)) (w_nextid w)) as [fs'|e] eqn:E;
      [|inversion H; subst; apply wfr_refl].
    apply IH in H. eapply wfr_trans; [|exact H].
    intro Hwf. cbn [w_fs set_clock set_fs]. eapply write_file_wf; eauto.
  - destruct stale; [eapply IHk; exact H|].
    match type of H with (let '(_, _) := ?X in _) = _ => destruct X as [w1 [r1 o]] eqn:E end.
    apply IHk in H. eapply wfr_trans; [|exact H].
    refine (m_build_file_wf p c f a kw _ _ w w1 _ E). intros sa skw. apply IHfn.
  - destruct stale; [eapply IHk; exact H|].
    match type of H with (let '(_, _) := ?X in _) = _ => destruct X as [w1 [r1 o]] eqn:E end.
    apply IHk in H. eapply wfr_trans; [|exact H].
    refine (m_subbuild_wf f a kw _ _ w w1 _ E). intros sa skw. apply IHfn.
Qed.

(* ================================================================== *)
(* 8. The whole build, clean                                           *)
(* ================================================================== *)

Theorem m_build_wf : forall cf nm vers (root : body) w w' r,
  pres wfPO root -> m_build cf nm vers root w = (w', r) -> fs_wf (w_fs w) -> fs_wf (w_fs w').
Proof.
  intros cf nm vers root w w' r Hroot H. unfold m_build in H.
  destruct (sanitize vers) as [svers|]; [|inversion H; subst; exact (fun X => X)].
  cbv beta iota zeta in H.
  assert (HA : forall old w2, wfr (start_world w cf old nm svers) w2 -> wfr w w2).
  { intros old w2 X Hwf. apply X. exact Hwf. }
  change (wfr w w').
  destruct (lookup (w_fs w) cf) as [[f|]|].
  - destruct (cache_of_json (f_json f)) as [old0| |].
    + destruct (String.eqb (c_name old0) nm); [| inversion H; subst; apply wfr_refl].
      apply (HA old0). clear HA.
      repeat dm H; inversion H; subst; wf_facts; wf_chain.
    + inversion H; subst; apply wfr_refl.
    + inversion H; subst; apply wfr_refl.
  - inversion H; subst; apply wfr_refl.
  - apply (HA (empty_cache nm svers)). clear HA.
    repeat dm H; inversion H; subst; wf_facts; wf_chain.
Qed.

(* every outcome; no hypothesis on the program, none on the fault list *)
Theorem run_build_wf : forall cf nm vers root w w' r,
  fs_wf (w_fs w) -> run_build cf nm vers root w = (w', r) -> fs_wf (w_fs w').
Proof.
  intros cf nm vers root w w' r Hwf H. unfold run_build in H.
  destruct (m_build cf nm vers (fun w0 => run root None [] w0) w) as [w1 r1] eqn:E.
  inversion H; subst. cbn [end_build w_fs set_lost set_backups].
  refine (m_build_wf cf nm vers _ w w1 _ _ E Hwf). exact (run_wf root None []).
Qed.

Theorem run_build_keeps_tree_well_formed : run_build_keeps_tree_well_formed_statement.
Proof. intros cf nm vers root w w' r _ Hwf H. exact (run_build_wf cf nm vers root w w' r Hwf H). Qed.

(* C03, directory half, "and it is empty": a directory below which the build finds a foreign
   regular file or a directory the previous cache does not record survives a committed build *)
Theorem committed_directory_with_foreign_content_survives :
  forall cf nm vers svers root w w' v (P : path -> Prop),
  w_faults w = [] -> sanitize vers = Some svers -> AllTargets P root ->
  fs_wf (w_fs w) ->
  CondA P cf (old_cache_of (w_fs w) cf nm svers) (w_fs w) ->
  dirs_ok (old_cache_of (w_fs w) cf nm svers) ->
  run_build cf nm vers root w = (w', Done (inl v)) ->
  forall d q, below d q = true ->
    ((exists f, lookup (w_fs w) q = Some (NFile f) /\ ~ Managed P (old_cache_of (w_fs w) cf nm svers) cf q) \/
     (lookup (w_fs w) q = Some NDir /\ ~ In q (c_dirs (old_cache_of (w_fs w) cf nm svers)))) ->
    lookup (w_fs w') d = Some NDir.
Proof. exact (committed_directory_with_foreign_content_survives_if run_build_keeps_tree_well_formed). Qed.

Theorem m_clean_wf : forall cf nm w w' r,
  fs_wf (w_fs w) -> m_clean cf nm w = (w', r) -> fs_wf (w_fs w').
Proof.
  intros cf nm w w' r Hwf H. revert Hwf. change (wfr w w'). unfold m_clean in H.
  repeat dm H; inversion H; subst; wf_facts; wf_chain.
Qed.

Print Assumptions rename_out_wf.
Print Assumptions run_wf.
Print Assumptions m_build_wf.
Print Assumptions run_build_wf.
Print Assumptions run_build_keeps_tree_well_formed.
Print Assumptions committed_directory_with_foreign_content_survives.
Print Assumptions m_clean_wf.
