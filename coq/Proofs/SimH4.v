(* Proofs/SimH4.v — the two tables of the new cache along a run of a first build (old cache
   empty: nothing is reused).  [pre o]: the registered records of a record tree in CLAIM order
   (a node before its suboperations; Cache.read_immutable registers in the other order, kl).
   [run_T]: the records a run hands back are appended to the tables in claim order
   (Good), unless the run left a claim that is never finished (Bad: the number of entries in
   progress of the file table grew; such a build cannot commit).  Records handed back have the
   first-build shape [shape]: a record whose setup failed has no suboperation. *)
From Coq Require Import List String Ascii NArith ZArith Bool Arith Lia.
From FB.Base Require Import PyVal Fs.
From FB.Gen Require Import JsonUtilGen.
From FB.Spec Require Import JsonSpec Prog.
From FB.Model Require Import Types Monad CreatedFiles BuildDirs SimpleOps Builder PathNorm Persist PersistSpec Build Run.
From FB.Proofs Require Import FsLemmas JsonLaws PersistLaws ReplayLaws BuildFileLaws ViewXOld
  CacheRTDefs CacheRTForest SimH2.
Import ListNotations.
Local Open Scope list_scope.
Local Open Scope m_scope.

Fixpoint pre (o : op) : list op :=
  match o with
  | OSimple _ _ _ => []
  | OBuildFile _ _ _ _ _ subs _ _ _ sf => (if sf then [] else [o]) ++ flat_map pre subs
  | OSubbuild _ _ _ subs _ _ sf => (if sf then [] else [o]) ++ flat_map pre subs
  end.

Fixpoint shape (o : op) : bool :=
  match o with
  | OSimple _ _ _ => true
  | OBuildFile _ _ _ _ _ subs _ _ _ sf =>
      (if sf then match subs with [] => true | _ => false end else true) && forallb shape subs
  | OSubbuild _ _ _ subs _ _ sf =>
      (if sf then match subs with [] => true | _ => false end else true) && forallb shape subs
  end.

Definition is_none {A} (o : option A) : bool := match o with None => true | Some _ => false end.
Definition nnf (l : list (path * option op)) : nat := List.length (filter (fun e => is_none (snd e)) l).

Definition Good (w w' : world) (new : list op) : Prop :=
  c_files (w_new w') = c_files (w_new w) ++ fents (flat_map pre new) /\
  c_subs (w_new w') = c_subs (w_new w) ++ sents (flat_map pre new).
Definition Bad (w w' : world) : Prop := nnf (c_files (w_new w)) < nnf (c_files (w_new w')).

(* ------------------------------------------------------------------ lists *)
Lemma files_get_none_keys : forall l p, files_get l p = None ->
  forallb (fun q => negb (path_eqb q p)) (map fst l) = true.
Proof.
  induction l as [|[q o] l IH]; intros p H; [reflexivity|]. cbn [files_get] in H. cbn [map fst forallb].
  destruct (path_eqb q p); [discriminate H|]. cbn [negb andb]. apply IH. exact H.
Qed.
Lemma subs_get_none_keys : forall l p, subs_get l p = None ->
  forallb (fun q => negb (py_eq q p)) (map fst l) = true.
Proof.
  induction l as [|[q o] l IH]; intros p H; [reflexivity|]. cbn [subs_get] in H. cbn [map fst forallb].
  destruct (py_eq q p); [discriminate H|]. cbn [negb andb]. apply IH. exact H.
Qed.

Lemma files_set_mid : forall T p x G v, forallb (fun q => negb (path_eqb q p)) (map fst T) = true ->
  files_set (T ++ (p, x) :: G) p v = T ++ (p, v) :: G.
Proof.
  induction T as [|[q o] T IH]; intros p x G v H; cbn [app files_set].
  - rewrite path_eqb_refl. reflexivity.
  - cbn [map fst forallb] in H. apply andb_true_iff in H. destruct H as [H1 H2]. apply negb_true_iff in H1.
    rewrite H1, IH by exact H2. reflexivity.
Qed.
Lemma subs_set_mid : forall T p x G v, py_eq p p = true -> forallb (fun q => negb (py_eq q p)) (map fst T) = true ->
  subs_set (T ++ (p, x) :: G) p v = T ++ (p, v) :: G.
Proof.
  induction T as [|[q o] T IH]; intros p x G v Hp H; cbn [app subs_set].
  - rewrite Hp. reflexivity.
  - cbn [map fst forallb] in H. apply andb_true_iff in H. destruct H as [H1 H2]. apply negb_true_iff in H1.
    rewrite H1, IH by assumption. reflexivity.
Qed.
Lemma files_del_fresh : forall T p x, forallb (fun q => negb (path_eqb q p)) (map fst T) = true ->
  files_del (T ++ [(p, x)]) p = T.
Proof.
  induction T as [|[q o] T IH]; intros p x H; cbn [app files_del].
  - rewrite path_eqb_refl. reflexivity.
  - cbn [map fst forallb] in H. apply andb_true_iff in H. destruct H as [H1 H2]. apply negb_true_iff in H1.
    rewrite H1, IH by exact H2. reflexivity.
Qed.

Lemma nnf_app : forall a b, nnf (a ++ b) = nnf a + nnf b.
Proof. intros a b. unfold nnf. rewrite filter_app, app_length. reflexivity. Qed.
Lemma nnf_fents : forall K, nnf (fents K) = 0.
Proof.
  induction K as [|o K IH]; [reflexivity|]. unfold fents in *. cbn [flat_map]. rewrite nnf_app, IH.
  destruct o; reflexivity.
Qed.
Lemma nnf_files_set_ge : forall l p o, nnf l <= S (nnf (files_set l p (Some o))).
Proof.
  induction l as [|[q x] l IH]; intros p o; cbn [files_set]; [unfold nnf; simpl; lia|].
  destruct (path_eqb q p).
  - unfold nnf. destruct x; simpl; lia.
  - specialize (IH p o). unfold nnf in *. simpl. destruct (is_none x); simpl; lia.
Qed.

Lemma Good_nnf : forall w w' new, Good w w' new -> nnf (c_files (w_new w')) = nnf (c_files (w_new w)).
Proof. intros w w' new [H _]. rewrite H, nnf_app, nnf_fents. lia. Qed.

Lemma Good_refl : forall w w', w_new w' = w_new w -> Good w w' [].
Proof. intros w w' E. unfold Good. rewrite E. cbn. rewrite !app_nil_r. auto. Qed.

Lemma Good_trans : forall a b c n1 n2, Good a b n1 -> Good b c n2 -> Good a c (n1 ++ n2).
Proof.
  intros a b c n1 n2 [A1 A2] [B1 B2]. unfold Good.
  rewrite B1, A1, B2, A2, flat_map_app, fents_app, sents_app, !app_assoc. auto.
Qed.

Lemma step_trans : forall a b c n1 n2, (Good a b n1 \/ Bad a b) -> (Good b c n2 \/ Bad b c) ->
  Good a c (n1 ++ n2) \/ Bad a c.
Proof.
  intros a b c n1 n2 [G1|B1] [G2|B2].
  - left. eapply Good_trans; eauto.
  - right. unfold Bad in *. rewrite <- (Good_nnf _ _ _ G1). exact B2.
  - right. unfold Bad in *. rewrite (Good_nnf _ _ _ G2). exact B1.
  - right. unfold Bad in *. lia.
Qed.

Lemma Good_same_new : forall a a' b b' n, w_new a' = w_new a -> w_new b' = w_new b -> Good a b n -> Good a' b' n.
Proof. intros a a' b b' n E1 E2 H. unfold Good in *. rewrite E1, E2. exact H. Qed.
Lemma Bad_same_new : forall a a' b b', w_new a' = w_new a -> w_new b' = w_new b -> Bad a b -> Bad a' b'.
Proof. intros a a' b b' E1 E2 H. unfold Bad in *. rewrite E1, E2. exact H. Qed.

(* ------------------------------------------------------------------ the pieces of build_file *)
Lemma newPO_eq : forall X (m : world -> world * X) w w' r, pres newPO m -> m w = (w', r) ->
  w_new w' = w_new w /\ w_old w' = w_old w.
Proof. intros X m w w' r P E. destruct (P _ _ _ E) as (A & B & _). auto. Qed.
Lemma svb_eq : forall X (m : world -> world * X) w w' r, pres svbPO m -> m w = (w', r) ->
  w_new w' = w_new w /\ w_old w' = w_old w.
Proof. intros X m w w' r P E. apply (newPO_eq X m w w' r); [|exact E]. eapply pres_weaken; [exact svb_new | exact P]. Qed.

Lemma assert_no_file_ok : forall p w w' u, new_assert_no_file p w = (w', inl u) -> cache_has_file (w_new w) p = false.
Proof.
  intros p w w' u H. unfold new_assert_no_file, bind, get in H.
  destruct (cache_has_file (w_new w) p); [discriminate H | reflexivity].
Qed.
Lemma assert_no_subbuild_ok : forall k w w' u, new_assert_no_subbuild k w = (w', inl u) -> cache_has_subbuild (w_new w) k = false.
Proof.
  intros k w w' u H. unfold new_assert_no_subbuild, bind, get in H.
  destruct (cache_has_subbuild (w_new w) k); [discriminate H | reflexivity].
Qed.

Lemma has_file_false_get : forall c p, cache_has_file c p = false -> files_get (c_files c) p = None.
Proof. intros c p H. unfold cache_has_file in H. destruct (files_get (c_files c) p); [discriminate H | reflexivity]. Qed.
Lemma has_subbuild_false_get : forall c k, cache_has_subbuild c k = false -> subs_get (c_subs c) k = None.
Proof. intros c k H. unfold cache_has_subbuild in H. destruct (subs_get (c_subs c) k); [discriminate H | reflexivity]. Qed.

Lemma bf_claim_T : forall p w w' r, bf_claim p w = (w', r) -> cache_has_file (w_new w) p = false ->
  w_old w' = w_old w /\ c_subs (w_new w') = c_subs (w_new w) /\
  (((exists a, r = inl a) /\ c_files (w_new w') = c_files (w_new w) ++ [(p, None)]) \/
   ((exists e, r = inr e) /\ c_files (w_new w') = c_files (w_new w))).
Proof.
  intros p w w' r H Hf. pose proof (files_get_none_keys _ _ (has_file_false_get _ _ Hf)) as Hk.
  unfold bf_claim in H.
  apply bind_inv in H. destruct H as [(w1 & u1 & E1 & H) | (e & E1 & ->)].
  2:{ unfold new_start_building_file in E1. apply bind_inv in E1. destruct E1 as [(w0 & u0 & E0 & E1) | (e0 & E0 & _)].
      - inversion E1.
      - destruct (svb_eq _ _ _ _ _ (new_assert_no_file_svb p) E0) as [A B]. rewrite A, B.
        split; [reflexivity|]. split; [reflexivity|]. right. split; [eauto | reflexivity]. }
  unfold new_start_building_file in E1. apply bind_inv in E1. destruct E1 as [(w0 & u0 & E0 & E1) | (e0 & _ & Y)]; [|discriminate Y].
  destruct (svb_eq _ _ _ _ _ (new_assert_no_file_svb p) E0) as [A0 B0].
  unfold modify in E1. inversion E1; subst w1; clear E1.
  apply bind_inv in H. destruct H as [(w2 & u2 & E2 & H) | (e & E2 & ->)].
  - inversion H; subst w' r; clear H.
    apply catch_inv in E2. destruct E2 as [(a & E2 & _) | (w3 & e & E2 & E3)].
    + assert (N : w_new w2 = w_new (set_new (cache_with (w_new w0) (files_set (c_files (w_new w0)) p None) (c_subs (w_new w0)) (c_dirs (w_new w0)) (c_built (w_new w0) ++ [p])) w0)
                  /\ w_old w2 = w_old w0).
      { unfold bind at 1, get in E2. cbn [w_fs set_new] in E2. destruct (isfile (w_fs w0) p).
        - apply bind_inv in E2. destruct E2 as [(w4 & b & E4 & E2) | (e & _ & Y)]; [|discriminate Y].
          inversion E2; subst w4. destruct (newPO_eq _ _ _ _ _ (back_up_and_remove_new p) E4) as [X1 X2].
          split; [exact X1 | exact X2].
        - inversion E2; subst. split; reflexivity. }
      destruct N as [N1 N2]. rewrite N1, N2. cbn [w_new w_old set_new cache_with c_files c_subs]. rewrite A0, B0.
      split; [reflexivity|]. split; [reflexivity|]. left. split; [eauto|]. apply files_set_fresh. exact Hk.
    + apply bind_inv in E3. destruct E3 as [(w4 & u4 & _ & E3) | (e' & _ & Y)]; [inversion E3 | discriminate Y].
  - apply catch_inv in E2. destruct E2 as [(a & _ & Y) | (w3 & e0 & E2 & E3)]; [discriminate Y|].
    assert (N : w_new w3 = w_new (set_new (cache_with (w_new w0) (files_set (c_files (w_new w0)) p None) (c_subs (w_new w0)) (c_dirs (w_new w0)) (c_built (w_new w0) ++ [p])) w0)
                /\ w_old w3 = w_old w0).
    { unfold bind at 1, get in E2. cbn [w_fs set_new] in E2. destruct (isfile (w_fs w0) p).
      - apply bind_inv in E2. destruct E2 as [(w4 & b & E4 & E2) | (e1 & E4 & _)].
        + inversion E2.
        + destruct (newPO_eq _ _ _ _ _ (back_up_and_remove_new p) E4) as [X1 X2]. split; [exact X1 | exact X2].
      - inversion E2. }
    destruct N as [N1 N2].
    apply bind_inv in E3. destruct E3 as [(w4 & u4 & E4 & E3) | (e' & E4 & _)].
    + inversion E3; subst w4. unfold new_abort_building_file, modify in E4. inversion E4; subst w'.
      cbn [w_new w_old set_new cache_with c_files c_subs]. rewrite N1, N2.
      cbn [w_new w_old set_new cache_with c_files c_subs]. rewrite A0, B0.
      split; [reflexivity|]. split; [reflexivity|]. right. split; [eauto|].
      rewrite (files_set_fresh _ _ _ Hk). apply files_del_fresh. exact Hk.
    + unfold new_abort_building_file, modify in E4. inversion E4.
Qed.

Lemma bf_setup_T : forall p c f sa skw w w1 r, Cold w -> bf_setup p c f sa skw w = (w1, r) ->
  w_old w1 = w_old w /\ c_subs (w_new w1) = c_subs (w_new w) /\
  ((r = inl None /\ files_get (c_files (w_new w)) p = None /\ c_files (w_new w1) = c_files (w_new w) ++ [(p, None)]) \/
   ((exists e, r = inr e) /\ c_files (w_new w1) = c_files (w_new w))).
Proof.
  intros p c f sa skw w w1 r HC H. unfold bf_setup in H.
  assert (Fail : forall wx e, w_new wx = w_new w -> w_old wx = w_old w ->
     w_old wx = w_old w /\ c_subs (w_new wx) = c_subs (w_new w) /\
     ((@inr (option (op + exn * op)) exn e = inl None /\ files_get (c_files (w_new w)) p = None /\ c_files (w_new wx) = c_files (w_new w) ++ [(p, None)]) \/
      ((exists e0, @inr (option (op + exn * op)) exn e = inr e0) /\ c_files (w_new wx) = c_files (w_new w)))).
  { intros wx e A B. rewrite A. split; [exact B|]. split; [reflexivity|]. right. split; [eauto | reflexivity]. }
  apply bind_inv in H. destruct H as [(wa & ua & Ea & H) | (e & Ea & ->)].
  2:{ destruct (svb_eq _ _ _ _ _ (new_assert_no_file_svb p) Ea). apply Fail; assumption. }
  destruct (svb_eq _ _ _ _ _ (new_assert_no_file_svb p) Ea) as [Na Oa].
  pose proof (assert_no_file_ok _ _ _ _ Ea) as Hf.
  apply bind_inv in H. destruct H as [(wb & icf & Eb & H) | (e & Eb & ->)].
  2:{ destruct (svb_eq _ _ _ _ _ (is_cache_file_svb p) Eb). apply Fail; congruence. }
  destruct (svb_eq _ _ _ _ _ (is_cache_file_svb p) Eb) as [Nb Ob].
  apply bind_inv in H. destruct H as [(wc & uc & Ec & H) | (e & Ec & ->)].
  2:{ destruct icf; inversion Ec; subst. apply Fail; congruence. }
  assert (wc = wb) by (destruct icf; inversion Ec; reflexivity). subst wc.
  apply bind_inv in H. destruct H as [(wd & created & Ed & H) | (e & Ed & ->)].
  2:{ destruct (newPO_eq _ _ _ _ _ (prepare_file_creation_new p) Ed). apply Fail; congruence. }
  destruct (newPO_eq _ _ _ _ _ (prepare_file_creation_new p) Ed) as [Nd Od].
  apply bind_inv in H. destruct H as [(we & locked & Ee & H) | (e & Ee & ->)].
  2:{ destruct (svb_eq _ _ _ _ _ (m_bd_started_svb p created) Ee). apply Fail; congruence. }
  destruct (svb_eq _ _ _ _ _ (m_bd_started_svb p created) Ee) as [Ne Oe].
  assert (Ce : Cold we) by (unfold Cold in *; rewrite Oe, Od, Ob, Oa; exact HC).
  assert (Nw : w_new we = w_new w) by congruence.
  assert (Ow : w_old we = w_old w) by congruence.
  unfold catch in H. rewrite (bf_inner_cold p c f sa skw we Ce) in H.
  destruct (bf_claim p we) as [wf rf] eqn:Ef.
  assert (Hfe : cache_has_file (w_new we) p = false) by (rewrite Nw; exact Hf).
  destruct (bf_claim_T _ _ _ _ Ef Hfe) as (Of & Sf & [[[a ->] Ff] | [[e ->] Ff]]).
  - inversion H; subst w1 r. rewrite Of, Sf, Ff, Nw, Ow. split; [reflexivity|]. split; [reflexivity|]. left.
    split; [rewrite (bf_claim_none _ _ _ _ Ef); reflexivity|]. split; [|reflexivity].
    apply has_file_false_get. exact Hf.
  - assert (K : w_new w1 = w_new wf /\ w_old w1 = w_old wf /\ exists e', r = inr e').
    { apply bind_inv in H. destruct H as [(wg & ug & Eg & H) | (e' & Eg & ->)].
      - inversion H; subst. destruct (svb_eq _ _ _ _ _ (m_bd_error_svb p) Eg). eauto.
      - destruct (svb_eq _ _ _ _ _ (m_bd_error_svb p) Eg). eauto. }
    destruct K as (K1 & K2 & e' & ->). rewrite K1, K2, Of, Sf, Ff, Nw, Ow.
    split; [reflexivity|]. split; [reflexivity|]. right. split; [eauto | reflexivity].
Qed.

Lemma bf_fail_T : forall p c f sa skw subs e w w' r oo, bf_fail p c f sa skw subs e w = (w', (r, oo)) ->
  let o := OBuildFile p c f sa skw subs PNone PNone true false in
  oo = Some o /\ w_old w' = w_old w /\ c_subs (w_new w') = c_subs (w_new w) /\
  (c_files (w_new w') = files_set (c_files (w_new w)) p (Some o) \/ c_files (w_new w') = c_files (w_new w)).
Proof.
  intros p c f sa skw subs e w w' r oo H o. unfold bf_fail in H. cbv zeta in H. fold o in H.
  match type of H with (match ?X with _ => _ end) = _ => destruct X as [w1 [u|e1]] eqn:E end;
    inversion H; subst w1 oo; (split; [reflexivity|]).
  - apply bind_inv in E. destruct E as [(wa & ua & Ea & E) | (e0 & _ & Y)]; [|discriminate Y].
    apply bind_inv in E. destruct E as [(wb & ub & Eb & E) | (e0 & _ & Y)]; [|discriminate Y].
    destruct (newPO_eq _ _ _ _ _ (try_to_remove_file_new p) Ea) as [Na Oa].
    destruct (svb_eq _ _ _ _ _ (m_bd_error_svb p) Eb) as [Nb Ob].
    unfold new_finish_building_file, modify in E. inversion E; subst w'.
    cbn [w_new w_old set_new cache_with c_files c_subs]. rewrite Nb, Na, Ob, Oa. auto.
  - apply bind_inv in E. destruct E as [(wa & ua & Ea & E) | (e0 & Ea & _)].
    + destruct (newPO_eq _ _ _ _ _ (try_to_remove_file_new p) Ea) as [Na Oa].
      apply bind_inv in E. destruct E as [(wb & ub & Eb & E) | (e0 & Eb & _)].
      * unfold new_finish_building_file, modify in E. inversion E.
      * destruct (svb_eq _ _ _ _ _ (m_bd_error_svb p) Eb) as [Nb Ob]. rewrite Nb, Na, Ob, Oa. auto.
    + destruct (newPO_eq _ _ _ _ _ (try_to_remove_file_new p) Ea) as [Na Oa]. rewrite Na, Oa. auto.
Qed.

Lemma bf_finish_T : forall p c f sa skw res subs w w' r oo, bf_finish p c f sa skw res subs w = (w', (r, oo)) ->
  exists rv cr ra, let o := OBuildFile p c f sa skw subs rv cr ra false in
  oo = Some o /\ w_old w' = w_old w /\ c_subs (w_new w') = c_subs (w_new w) /\
  (c_files (w_new w') = files_set (c_files (w_new w)) p (Some o) \/ c_files (w_new w') = c_files (w_new w)).
Proof.
  intros p c f sa skw res subs w w' r oo H. unfold bf_finish in H.
  assert (F : forall e w0, w_new w0 = w_new w -> w_old w0 = w_old w -> bf_fail p c f sa skw subs e w0 = (w', (r, oo)) ->
     exists rv cr ra, let o := OBuildFile p c f sa skw subs rv cr ra false in
       oo = Some o /\ w_old w' = w_old w /\ c_subs (w_new w') = c_subs (w_new w) /\
       (c_files (w_new w') = files_set (c_files (w_new w)) p (Some o) \/ c_files (w_new w') = c_files (w_new w))).
  { intros e w0 A B E. exists PNone, PNone, true. cbv zeta. rewrite <- A, <- B. exact (bf_fail_T _ _ _ _ _ _ _ _ _ _ _ E). }
  destruct res as [v|e]; [|eapply F; eauto].
  destruct (sanitize v) as [sv|]; [|eapply F; eauto].
  destruct (noneable_cmp p c w) as [w4 [cmp|e]] eqn:E; destruct (svb_eq _ _ _ _ _ (noneable_cmp_svb p c) E) as [N4 O4].
  - destruct cmp; try (eapply F; eauto; fail).
    all: cbv zeta in H; unfold new_finish_building_file, modify in H; inversion H; subst;
      eexists _, _, false; cbv zeta; cbn [w_new w_old set_new cache_with c_files c_subs]; rewrite N4, O4; auto.
  - eapply F; eauto.
Qed.

(* ------------------------------------------------------------------ the pieces of subbuild *)
Lemma sb_setup_T : forall f sa skw w w1 r, Cold w -> sb_setup f sa skw w = (w1, r) ->
  w_old w1 = w_old w /\ c_files (w_new w1) = c_files (w_new w) /\
  ((r = inl None /\ subs_get (c_subs (w_new w)) (subbuild_key f sa skw) = None /\
    c_subs (w_new w1) = c_subs (w_new w) ++ [(subbuild_key f sa skw, None)]) \/
   ((exists e, r = inr e) /\ c_subs (w_new w1) = c_subs (w_new w))).
Proof.
  intros f sa skw w w1 r HC H. unfold sb_setup in H. cbv zeta in H.
  apply bind_inv in H. destruct H as [(wa & ua & Ea & H) | (e & Ea & ->)].
  2:{ destruct (svb_eq _ _ _ _ _ (new_assert_no_subbuild_svb _) Ea) as [A B]. rewrite A, B.
      split; [reflexivity|]. split; [reflexivity|]. right. split; [eauto | reflexivity]. }
  destruct (svb_eq _ _ _ _ _ (new_assert_no_subbuild_svb _) Ea) as [Na Oa].
  pose proof (assert_no_subbuild_ok _ _ _ _ Ea) as Hf.
  assert (Ca : Cold wa) by (unfold Cold in *; rewrite Oa; exact HC).
  unfold bind at 1 in H. rewrite (sbcl_cold _ _ _ Ca) in H.
  unfold new_start_subbuild in H.
  apply bind_inv in H. destruct H as [(wb & ub & Eb & H) | (e & Eb & ->)].
  - inversion H; subst w1 r; clear H.
    apply bind_inv in Eb. destruct Eb as [(wc & uc & Ec & Eb) | (e & _ & Y)]; [|discriminate Y].
    destruct (svb_eq _ _ _ _ _ (new_assert_no_subbuild_svb _) Ec) as [Nc Oc].
    unfold modify in Eb. inversion Eb; subst wb.
    cbn [w_new w_old set_new cache_with c_files c_subs]. rewrite Nc, Oc, Na, Oa.
    split; [reflexivity|]. split; [reflexivity|]. left. split; [reflexivity|].
    pose proof (has_subbuild_false_get _ _ Hf) as G. split; [exact G|].
    apply subs_set_fresh. apply subs_get_none_keys. exact G.
  - apply bind_inv in Eb. destruct Eb as [(wc & uc & Ec & Eb) | (e0 & Ec & _)].
    + unfold modify in Eb. inversion Eb.
    + destruct (svb_eq _ _ _ _ _ (new_assert_no_subbuild_svb _) Ec) as [Nc Oc]. rewrite Nc, Oc, Na, Oa.
      split; [reflexivity|]. split; [reflexivity|]. right. split; [eauto | reflexivity].
Qed.

Lemma sb_finish_T : forall f sa skw res subs w w' r oo, sb_finish f sa skw res subs w = (w', (r, oo)) ->
  exists rv ra, let o := OSubbuild f sa skw subs rv ra false in
  oo = Some o /\ w_old w' = w_old w /\ c_files (w_new w') = c_files (w_new w) /\
  c_subs (w_new w') = subs_set (c_subs (w_new w)) (subbuild_key f sa skw) (Some o).
Proof.
  intros f sa skw res subs w w' r oo H. unfold sb_finish in H. cbv zeta in H.
  unfold new_finish_subbuild, modify in H.
  destruct res as [v|e]; [destruct (sanitize v)|]; inversion H; subst; eexists _, _; cbv zeta;
    cbn [w_new w_old set_new cache_with c_files c_subs]; auto.
Qed.

(* ------------------------------------------------------------------ nodes *)
Definition olist (o : option op) : list op := match o with Some x => [x] | None => [] end.
Lemma app_op_olist : forall subs o, app_op subs o = subs ++ olist o.
Proof. intros subs [x|]; cbn [app_op olist]; [reflexivity | rewrite app_nil_r; reflexivity]. Qed.

Definition body_T (b : body) : Prop :=
  forall w0 w3 res bs, Cold w0 -> b w0 = (w3, (res, bs)) ->
    w_old w3 = w_old w0 /\ forallb shape bs = true /\ (Good w0 w3 bs \/ Bad w0 w3).

Lemma nnf_snoc_none : forall T p, nnf (T ++ [(p, None)]) = S (nnf T).
Proof. intros T p. rewrite nnf_app. unfold nnf at 2. simpl. lia. Qed.

Lemma m_build_file_T : forall p c f a kw (fn : path -> pyval -> pyval -> body) w w1 r1 o, Cold w ->
  (forall sa skw, body_T (fn p sa skw)) ->
  m_build_file p c f a kw fn w = (w1, (r1, o)) ->
  w_old w1 = w_old w /\ forallb shape (olist o) = true /\ (Good w w1 (olist o) \/ Bad w w1).
Proof.
  intros p c f a kw fn w w1 r1 o HC Hfn E. rewrite m_build_file_unfold in E.
  destruct (sanitize a) as [sa|]; [|inversion E; subst; split; [reflexivity|]; split; [reflexivity|]; left; apply Good_refl; reflexivity].
  destruct (sanitize kw) as [skw|]; [|inversion E; subst; split; [reflexivity|]; split; [reflexivity|]; left; apply Good_refl; reflexivity].
  destruct (bf_setup p c f sa skw w) as [w2 rs] eqn:Es.
  destruct (bf_setup_T _ _ _ _ _ _ _ _ HC Es) as (O2 & S2 & [(-> & Gp & F2) | ([e ->] & F2)]).
  - unfold bf_rebuild in E.
    destruct (fn p sa skw (bf_invoke_world p f sa skw w2)) as [w3 [res bs]] eqn:Ef.
    assert (Ci : Cold (bf_invoke_world p f sa skw w2)) by (unfold Cold in *; cbn [bf_invoke_world w_old set_log]; rewrite O2; exact HC).
    destruct (Hfn sa skw _ _ _ _ Ci Ef) as (Oi & Hbs & Hstep). cbn [bf_invoke_world w_old set_log] in Oi.
    destruct (bf_finish_T _ _ _ _ _ _ _ _ _ _ _ E) as (rv & cr & ra & K). cbv zeta in K.
    destruct K as (-> & O4 & S4 & F4).
    assert (Ni : w_new (bf_invoke_world p f sa skw w2) = w_new w2) by reflexivity.
    split; [congruence|]. split; [cbn [olist forallb shape]; rewrite Hbs; reflexivity|].
    pose proof (files_get_none_keys _ _ Gp) as Hk.
    destruct Hstep as [[Gf Gs] | B].
    + rewrite Ni, F2 in Gf. rewrite Ni, S2 in Gs.
      destruct F4 as [F4|F4].
      * left. unfold Good. cbn [olist flat_map pre]. rewrite app_nil_r, fents_app, sents_app.
        split.
        -- rewrite F4, Gf, <- app_assoc. cbn [app]. rewrite (files_set_mid _ _ _ _ _ Hk). reflexivity.
        -- rewrite S4, Gs. reflexivity.
      * right. unfold Bad. rewrite F4, Gf, nnf_app, nnf_snoc_none. lia.
    + unfold Bad in B. rewrite Ni, F2, nnf_snoc_none in B. right. unfold Bad.
      destruct F4 as [F4|F4]; rewrite F4; [|lia].
      pose proof (nnf_files_set_ge (c_files (w_new w3)) p (OBuildFile p c f sa skw bs rv cr ra false)). lia.
  - inversion E; subst. split; [exact O2|]. split; [reflexivity|]. left. unfold Good.
    cbn [olist flat_map pre app fents sents]. rewrite !app_nil_r. split; assumption.
Qed.

Lemma m_subbuild_T : forall f a kw (fn : pyval -> pyval -> body) w w1 r1 o, Cold w ->
  (forall sa skw, body_T (fn sa skw)) ->
  m_subbuild f a kw fn w = (w1, (r1, o)) ->
  w_old w1 = w_old w /\ forallb shape (olist o) = true /\ (Good w w1 (olist o) \/ Bad w w1).
Proof.
  intros f a kw fn w w1 r1 o HC Hfn E. rewrite m_subbuild_unfold in E.
  destruct (sanitize a) as [sa|] eqn:Ea; [|inversion E; subst; split; [reflexivity|]; split; [reflexivity|]; left; apply Good_refl; reflexivity].
  destruct (sanitize kw) as [skw|] eqn:Ek; [|inversion E; subst; split; [reflexivity|]; split; [reflexivity|]; left; apply Good_refl; reflexivity].
  pose proof (subbuild_key_refl f sa skw (sanitize_sanitized _ _ Ea) (sanitize_sanitized _ _ Ek)) as Hkk.
  destruct (sb_setup f sa skw w) as [w2 rs] eqn:Es.
  destruct (sb_setup_T _ _ _ _ _ _ HC Es) as (O2 & F2 & [(-> & Gp & S2) | ([e ->] & S2)]).
  - unfold sb_rebuild in E.
    destruct (fn sa skw (sb_invoke_world f sa skw w2)) as [w3 [res bs]] eqn:Ef.
    assert (Ci : Cold (sb_invoke_world f sa skw w2)) by (unfold Cold in *; cbn [sb_invoke_world w_old set_log]; rewrite O2; exact HC).
    destruct (Hfn sa skw _ _ _ _ Ci Ef) as (Oi & Hbs & Hstep). cbn [sb_invoke_world w_old set_log] in Oi.
    destruct (sb_finish_T _ _ _ _ _ _ _ _ _ E) as (rv & ra & K). cbv zeta in K.
    destruct K as (-> & O4 & F4 & S4).
    assert (Ni : w_new (sb_invoke_world f sa skw w2) = w_new w2) by reflexivity.
    split; [congruence|]. split; [cbn [olist forallb shape]; rewrite Hbs; reflexivity|].
    pose proof (subs_get_none_keys _ _ Gp) as Hk.
    destruct Hstep as [[Gf Gs] | B].
    + rewrite Ni, F2 in Gf. rewrite Ni, S2 in Gs.
      left. unfold Good. cbn [olist flat_map pre]. rewrite app_nil_r, fents_app, sents_app. split.
      * rewrite F4, Gf. reflexivity.
      * rewrite S4, Gs, <- app_assoc. cbn [app]. rewrite (subs_set_mid _ _ _ _ _ Hkk Hk). reflexivity.
    + right. unfold Bad in *. rewrite Ni, F2 in B. rewrite F4. exact B.
  - inversion E; subst. split; [exact O2|]. split; [reflexivity|]. left. unfold Good.
    cbn [olist flat_map pre app fents sents]. rewrite !app_nil_r. split; assumption.
Qed.

(* ------------------------------------------------------------------ every program *)
Theorem run_T : forall pr target subs w w' r subs', Cold w -> run pr target subs w = (w', (r, subs')) ->
  exists new, subs' = subs ++ new /\ forallb shape new = true /\ (Good w w' new \/ Bad w w').
Proof.
  induction pr as [v | e | stale q k IH | c k IH | stale p c f a kw fn IHfn k IHk | stale f a kw fn IHfn k IHk];
    intros target subs w w' r subs' HC H; cbn [run] in H.
  - inversion H; subst. exists []. rewrite app_nil_r. split; [reflexivity|]. split; [reflexivity|]. left. apply Good_refl. reflexivity.
  - inversion H; subst. exists []. rewrite app_nil_r. split; [reflexivity|]. split; [reflexivity|]. left. apply Good_refl. reflexivity.
  - destruct stale; [eapply IH; eauto|].
    destruct (m_query q w) as [w1 [r1 o]] eqn:E.
    destruct (svb_eq _ _ _ _ _ (m_query_svb q) E) as [N1 O1].
    assert (Hsh : forallb shape (olist o) = true).
    { unfold m_query in E. destruct (exec_query q None w) as [w2 [v|[]]]; inversion E; subst; reflexivity. }
    assert (Hpre : flat_map pre (olist o) = []).
    { unfold m_query in E. destruct (exec_query q None w) as [w2 [v|[]]]; inversion E; subst; reflexivity. }
    assert (C1 : Cold (log_answer q (user_answer q r1 w1) w1)).
    { unfold Cold in *. replace (w_old (log_answer q (user_answer q r1 w1) w1)) with (w_old w1); [rewrite O1; exact HC|].
      unfold log_answer. repeat match goal with |- context [match ?y with _ => _ end] => destruct y end; reflexivity. }
    destruct (IH _ _ _ _ _ _ _ C1 H) as (new & -> & Hn & Hs).
    exists (olist o ++ new). rewrite app_op_olist, app_assoc. split; [reflexivity|].
    split; [rewrite forallb_app, Hsh, Hn; reflexivity|].
    assert (Nl : w_new (log_answer q (user_answer q r1 w1) w1) = w_new w).
    { rewrite <- N1. unfold log_answer. repeat match goal with |- context [match ?y with _ => _ end] => destruct y end; reflexivity. }
    destruct Hs as [G|B].
    + left. unfold Good in *. rewrite flat_map_app, Hpre. cbn [app]. rewrite Nl in G. exact G.
    + right. unfold Bad in *. rewrite Nl in B. exact B.
  - destruct target as [t|]; [|eapply IH; eauto].
    destruct (write_file (w_fs w) t c None (N.succ (w_clock w)) (w_nextid w)) as [fs'|e] eqn:E.
    + assert (C1 : Cold (set_clock (N.succ (w_clock w)) (N.succ (w_nextid w)) (set_fs fs' w))) by exact HC.
      destruct (IH _ _ _ _ _ _ C1 H) as (new & -> & Hn & Hs). exists new. split; [reflexivity|]. split; [exact Hn|]. exact Hs.
    + inversion H; subst. exists []. rewrite app_nil_r. split; [reflexivity|]. split; [reflexivity|]. left. apply Good_refl. reflexivity.
  - destruct stale; [eapply IHk; eauto|].
    match type of H with (let '(_, _) := ?X in _) = _ => destruct X as [w1 [r1 o]] eqn:E end.
    assert (Hb : forall sa skw, body_T (fun w0 => run (fn p sa skw) (Some p) [] w0)).
    { intros sa skw w0 w3 res bs C0 E0. destruct (IHfn _ _ _ _ _ _ _ _ _ C0 E0) as (new & -> & Hn & Hs).
      split; [exact (proj1 (run_old _ _ _ _ _ _ E0))|]. cbn [app]. auto. }
    destruct (m_build_file_T p c f a kw (fun p' sa skw w0 => run (fn p' sa skw) (Some p') [] w0) w w1 r1 o HC Hb E) as (O1 & Hsh & Hs1).
    assert (C1 : Cold w1) by (unfold Cold in *; rewrite O1; exact HC).
    destruct (IHk _ _ _ _ _ _ _ C1 H) as (new & -> & Hn & Hs).
    exists (olist o ++ new). rewrite app_op_olist, app_assoc. split; [reflexivity|].
    split; [rewrite forallb_app, Hsh, Hn; reflexivity|]. eapply step_trans; eauto.
  - destruct stale; [eapply IHk; eauto|].
    match type of H with (let '(_, _) := ?X in _) = _ => destruct X as [w1 [r1 o]] eqn:E end.
    assert (Hb : forall sa skw, body_T (fun w0 => run (fn sa skw) None [] w0)).
    { intros sa skw w0 w3 res bs C0 E0. destruct (IHfn _ _ _ _ _ _ _ _ C0 E0) as (new & -> & Hn & Hs).
      split; [exact (proj1 (run_old _ _ _ _ _ _ E0))|]. cbn [app]. auto. }
    destruct (m_subbuild_T f a kw (fun sa skw w0 => run (fn sa skw) None [] w0) w w1 r1 o HC Hb E) as (O1 & Hsh & Hs1).
    assert (C1 : Cold w1) by (unfold Cold in *; rewrite O1; exact HC).
    destruct (IHk _ _ _ _ _ _ _ C1 H) as (new & -> & Hn & Hs).
    exists (olist o ++ new). rewrite app_op_olist, app_assoc. split; [reflexivity|].
    split; [rewrite forallb_app, Hsh, Hn; reflexivity|]. eapply step_trans; eauto.
Qed.

Print Assumptions run_T.
