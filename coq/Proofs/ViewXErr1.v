(* Proofs/ViewXErr1.v — C04, reachability: error_building_file under the counting law:
   it does not raise KeyError, keeps the law (one live target less) and changes the record
   as described by [err_frame]. *)
From Coq Require Import List String Ascii NArith ZArith Bool Arith Lia.
From FB.Base Require Import PyVal Fs.
From FB.Model Require Import Types Monad CreatedFiles BuildDirs SimpleOps Builder.
From FB.Proofs Require Import FsLemmas ViewDefs ViewLemmas ViewScan ViewFrame ViewXDefs ViewXCount.
Import ListNotations.
Open Scope list_scope.

Record err_frame (b : bdirs) (parent : path) (b' : bdirs) : Prop := {
  ef_sub : forall x, in_counts b' x = true -> in_counts b x = true;
  ef_rel : forall x, in_counts b x = true -> in_counts b' x = false -> suffix x parent;
  ef_removed : bd_removed b' = bd_removed b;
  ef_rf : bd_removed_files b' = bd_removed_files b;
  ef_cr_sub : forall x, mem_path x (bd_created b') = true -> mem_path x (bd_created b) = true;
  ef_cr_rel : forall x, mem_path x (bd_created b) = true -> mem_path x (bd_created b') = false ->
              in_counts b x = true /\ in_counts b' x = false;
  ef_rel_cr : forall x, in_counts b x = true -> in_counts b' x = false -> mem_path x (bd_created b') = false;
  ef_mb_sub : forall x, mem_path x (bd_maybe b') = true ->
              mem_path x (bd_maybe b) = true \/
              (mem_path x (bd_created b) = true /\ in_counts b x = true /\ in_counts b' x = false);
  ef_mb_keep : forall x, mem_path x (bd_maybe b) = true -> mem_path x (bd_maybe b') = true;
  ef_mb_rel : forall x, mem_path x (bd_created b) = true -> in_counts b x = true -> in_counts b' x = false ->
              mem_path x (bd_maybe b') = true;
  ef_ex : forall q, mem_path q (bd_exists b') = true ->
          mem_path q (bd_exists b) = true /\
          forall x, in_counts b x = true -> in_counts b' x = false -> mem_path x (bd_created b) = false;
  ef_ex_all : forall q, mem_path q (bd_exists b') = true ->
              forall y, mem_path y (bd_exists b) = true -> mem_path y (bd_exists b') = true
}.

Lemma err_frame_trans : forall b n d b2 b', err_frame b (n :: d) b2 -> err_frame b2 d b' -> err_frame b (n :: d) b'.
Proof.
  intros b n d b2 b' F G.
  assert (Hkeep: forall x, mem_path x (bd_created b) = true -> in_counts b2 x = true -> mem_path x (bd_created b2) = true).
  { intros x H1 H2. destruct (mem_path x (bd_created b2)) eqn:E; [reflexivity|].
    destruct (ef_cr_rel _ _ _ F x H1 E) as [_ H]. congruence. }
  constructor.
  - intros x H. apply (ef_sub _ _ _ F), (ef_sub _ _ _ G), H.
  - intros x H1 H2. destruct (in_counts b2 x) eqn:E.
    + apply suffix_cons. apply (ef_rel _ _ _ G x E H2).
    + apply (ef_rel _ _ _ F x H1 E).
  - rewrite (ef_removed _ _ _ G). apply (ef_removed _ _ _ F).
  - rewrite (ef_rf _ _ _ G). apply (ef_rf _ _ _ F).
  - intros x H. apply (ef_cr_sub _ _ _ F), (ef_cr_sub _ _ _ G), H.
  - intros x H1 H2. destruct (mem_path x (bd_created b2)) eqn:E.
    + destruct (ef_cr_rel _ _ _ G x E H2) as [A B]. split; [apply (ef_sub _ _ _ F); exact A|exact B].
    + destruct (ef_cr_rel _ _ _ F x H1 E) as [A B]. split; [exact A|].
      destruct (in_counts b' x) eqn:E2; [|reflexivity]. apply (ef_sub _ _ _ G) in E2. congruence.
  - intros x H1 H2. destruct (in_counts b2 x) eqn:E.
    + apply (ef_rel_cr _ _ _ G x E H2).
    + pose proof (ef_rel_cr _ _ _ F x H1 E) as H. destruct (mem_path x (bd_created b')) eqn:E2; [|reflexivity].
      apply (ef_cr_sub _ _ _ G) in E2. congruence.
  - intros x H. destruct (ef_mb_sub _ _ _ G x H) as [H1|(H1 & H2 & H3)].
    + destruct (ef_mb_sub _ _ _ F x H1) as [H2|(H2 & H3 & H4)]; [left; exact H2|right].
      split; [exact H2|]. split; [exact H3|].
      destruct (in_counts b' x) eqn:E2; [|reflexivity]. apply (ef_sub _ _ _ G) in E2. congruence.
    + right. split; [apply (ef_cr_sub _ _ _ F); exact H1|]. split; [apply (ef_sub _ _ _ F); exact H2|exact H3].
  - intros x H. apply (ef_mb_keep _ _ _ G), (ef_mb_keep _ _ _ F), H.
  - intros x H1 H2 H3. destruct (in_counts b2 x) eqn:E.
    + apply (ef_mb_rel _ _ _ G x (Hkeep x H1 E) E H3).
    + apply (ef_mb_keep _ _ _ G). apply (ef_mb_rel _ _ _ F x H1 H2 E).
  - intros q H. destruct (ef_ex _ _ _ G q H) as [A B]. destruct (ef_ex _ _ _ F q A) as [A' B'].
    split; [exact A'|]. intros x H1 H2. destruct (in_counts b2 x) eqn:E.
    + destruct (mem_path x (bd_created b)) eqn:E2; [|reflexivity].
      pose proof (B x E H2) as B2. pose proof (Hkeep x E2 E). congruence.
    + apply (B' x H1 E).
  - intros q H y Hy. destruct (ef_ex _ _ _ G q H) as [A _].
    apply (ef_ex_all _ _ _ G q H). apply (ef_ex_all _ _ _ F q A). exact Hy.
Qed.

(* ---- the steps of the loop ---- *)
Definition er_set (b : bdirs) (parent : path) (k : nat) : bdirs :=
  bd_with b (cnt_set (bd_counts b) parent k) (bd_created b) (bd_err_created b)
          (bd_removed b) (bd_exists b) (bd_maybe b) (bd_removed_files b).
Definition er_b1 (b : bdirs) (parent : path) : bdirs :=
  bd_with b (cnt_del (bd_counts b) parent) (bd_created b) (bd_err_created b)
          (bd_removed b) (bd_exists b) (bd_maybe b) (bd_removed_files b).
Definition er_b2 (b : bdirs) (parent : path) : bdirs :=
  let b1 := er_b1 b parent in
  if mem_path parent (bd_created b1)
  then bd_with b1 (bd_counts b1) (del_path parent (bd_created b1)) (add_path parent (bd_err_created b1))
               (bd_removed b1) [] (add_path parent (bd_maybe b1)) (bd_removed_files b1)
  else b1.

Lemma bd_error_from_eq : forall b parent,
  bd_error_from b parent =
  match cnt_get (bd_counts b) parent with
  | None => None
  | Some n => if Nat.ltb 0 (n - 1) then Some (er_set b parent (n - 1))
              else match parent with [] => Some (er_b2 b parent) | _ :: d => bd_error_from (er_b2 b parent) d end
  end.
Proof. intros b parent. destruct parent; reflexivity. Qed.

Lemma in_counts_er_set : forall b parent k x, in_counts b parent = true -> in_counts (er_set b parent k) x = in_counts b x.
Proof.
  intros b parent k x H. unfold in_counts, er_set in *. cbn [bd_counts bd_with]. rewrite cnt_get_set.
  destruct (path_eqb parent x) eqn:E; [|reflexivity]. apply path_eqb_eq in E. subst x.
  destruct (cnt_get (bd_counts b) parent); [reflexivity|discriminate].
Qed.

Lemma in_counts_er_b2 : forall b parent x, in_counts (er_b2 b parent) x = negb (path_eqb parent x) && in_counts b x.
Proof.
  intros b parent x. unfold er_b2. destruct (mem_path parent (bd_created (er_b1 b parent)));
    unfold in_counts, er_b1; cbn [bd_counts bd_with]; rewrite cnt_get_del; destruct (path_eqb parent x); reflexivity.
Qed.

Lemma er_set_frame : forall b parent k, in_counts b parent = true -> err_frame b parent (er_set b parent k).
Proof.
  intros b parent k Hp.
  assert (Hc: forall x, in_counts (er_set b parent k) x = in_counts b x) by (intro x; apply in_counts_er_set; exact Hp).
  constructor.
  - intros x H. rewrite Hc in H. exact H.
  - intros x H1 H2. rewrite Hc in H2. congruence.
  - reflexivity.
  - reflexivity.
  - intros x H. exact H.
  - intros x H1 H2. cbn in H2. congruence.
  - intros x H1 H2. rewrite Hc in H2. congruence.
  - intros x H. left. exact H.
  - intros x H. exact H.
  - intros x H1 H2 H3. rewrite Hc in H3. congruence.
  - intros q H. split; [exact H|]. intros x H1 H2. rewrite Hc in H2. congruence.
  - intros q H y Hy. exact Hy.
Qed.

Lemma er_b2_fields : forall b parent,
  bd_removed (er_b2 b parent) = bd_removed b /\ bd_removed_files (er_b2 b parent) = bd_removed_files b /\
  bd_created (er_b2 b parent) = del_path parent (bd_created b) /\
  bd_maybe (er_b2 b parent) = (if mem_path parent (bd_created b) then add_path parent (bd_maybe b) else bd_maybe b) /\
  bd_exists (er_b2 b parent) = (if mem_path parent (bd_created b) then [] else bd_exists b).
Proof.
  intros b parent. unfold er_b2. cbn [er_b1 bd_created bd_with].
  destruct (mem_path parent (bd_created b)) eqn:E; cbn; repeat split; try reflexivity.
  symmetry. apply del_path_notin. exact E.
Qed.

Lemma er_b2_frame : forall b parent, in_counts b parent = true -> err_frame b parent (er_b2 b parent).
Proof.
  intros b parent Hp.
  assert (Hrel: forall x, in_counts b x = true -> in_counts (er_b2 b parent) x = false -> x = parent).
  { intros x H1 H2. rewrite in_counts_er_b2, H1, andb_true_r in H2. apply negb_false_iff in H2.
    apply path_eqb_eq in H2. auto. }
  assert (Hpf: in_counts (er_b2 b parent) parent = false).
  { rewrite in_counts_er_b2, path_eqb_refl. reflexivity. }
  destruct (er_b2_fields b parent) as (F1 & F2 & F3 & F4 & F5).
  constructor.
  - intros x H. rewrite in_counts_er_b2 in H. apply andb_true_iff in H. tauto.
  - intros x H1 H2. rewrite (Hrel x H1 H2). apply suffix_refl.
  - exact F1.
  - exact F2.
  - intros x H. rewrite F3 in H. eapply del_mem_sub. exact H.
  - intros x H1 H2. rewrite F3, mem_del_path, H1, andb_true_r in H2. apply negb_false_iff in H2.
    apply path_eqb_eq in H2. subst x. auto.
  - intros x H1 H2. rewrite (Hrel x H1 H2), F3, mem_del_path, path_eqb_refl. reflexivity.
  - intros x H. rewrite F4 in H. destruct (mem_path parent (bd_created b)) eqn:Ec; [|left; exact H].
    rewrite mem_add_path in H. apply orb_true_iff in H. destruct H as [H|H]; [right|left; exact H].
    apply path_eqb_eq in H. subst x. auto.
  - intros x H. rewrite F4. destruct (mem_path parent (bd_created b)); [|exact H]. rewrite mem_add_path, H. apply orb_true_r.
  - intros x H1 H2 H3. rewrite (Hrel x H2 H3) in *. rewrite F4, H1, mem_add_path, path_eqb_refl. reflexivity.
  - intros q H. rewrite F5 in H. destruct (mem_path parent (bd_created b)) eqn:Ec; [discriminate|].
    split; [exact H|]. intros x H1 H2. rewrite (Hrel x H1 H2). exact Ec.
  - intros q H y Hy. rewrite F5 in *. destruct (mem_path parent (bd_created b)); [discriminate|exact Hy].
Qed.

(* ---- the counting law along the loop ---- *)
Lemma er_counts_b2 : forall b parent, bd_counts (er_b2 b parent) = cnt_del (bd_counts b) parent.
Proof. intros b parent. unfold er_b2. destruct (mem_path parent (bd_created (er_b1 b parent))); reflexivity. Qed.

Lemma claw_minus_step : forall T b parent, claw_minus T b parent ->
  exists n, cnt_get (bd_counts b) parent = Some n /\ 0 < n /\
  (Nat.ltb 0 (n - 1) = true -> claw T (er_set b parent (n - 1))) /\
  (Nat.ltb 0 (n - 1) = false ->
     match parent with
     | [] => claw T (er_b2 b parent)
     | _ :: d => claw_minus T (er_b2 b parent) d
     end).
Proof.
  intros T b parent [K P C].
  pose proof (C parent) as Cp. rewrite path_eqb_refl in Cp. cbn [b2n] in Cp.
  unfold cval in Cp. destruct (cnt_get (bd_counts b) parent) as [n|] eqn:En; [|lia].
  exists n. split; [reflexivity|]. split; [lia|].
  assert (Hm: mem_path parent (ckeys b) = true) by (unfold ckeys; rewrite cnt_get_mem, En; reflexivity).
  split.
  - intro Hlt. apply Nat.ltb_lt in Hlt.
    assert (Hg: forall x, cnt_get (bd_counts (er_set b parent (n - 1))) x =
                          if path_eqb parent x then Some (n - 1) else cnt_get (bd_counts b) x).
    { intro x. unfold er_set. cbn [bd_counts bd_with]. apply cnt_get_set. }
    assert (Hk: ckeys (er_set b parent (n - 1)) = ckeys b).
    { unfold ckeys, er_set. cbn [bd_counts bd_with]. rewrite keys_set. fold (ckeys b). rewrite Hm. reflexivity. }
    constructor.
    + rewrite Hk. exact K.
    + intro x. rewrite Hg. destruct (path_eqb parent x); [intro H; inversion H; lia|apply P].
    + intro x. unfold cval, nk. rewrite Hg, Hk. fold (nk b x). specialize (C x). unfold cval in C.
      rewrite (path_eqb_sym x parent) in C. destruct (path_eqb parent x) eqn:E.
      * apply path_eqb_eq in E. subst x. rewrite En in C. cbn [b2n] in C. lia.
      * cbn [b2n] in C. lia.
  - intro Hlt. apply Nat.ltb_ge in Hlt. assert (Hn: n = 1) by lia. subst n.
    assert (Hg: forall x, cnt_get (bd_counts (er_b2 b parent)) x = if path_eqb parent x then None else cnt_get (bd_counts b) x).
    { intro x. rewrite er_counts_b2. apply cnt_get_del. }
    assert (Hk: ckeys (er_b2 b parent) = del_path parent (ckeys b)).
    { unfold ckeys. rewrite er_counts_b2. apply keys_del. }
    assert (Hnd: NoDup (ckeys (er_b2 b parent))) by (rewrite Hk; apply NoDup_del_path; exact K).
    assert (Hpos: forall x, cnt_get (bd_counts (er_b2 b parent)) x <> Some 0).
    { intro x. rewrite Hg. destruct (path_eqb parent x); [discriminate|apply P]. }
    assert (Hnk: forall x, nk b x = nk (er_b2 b parent) x + b2n (is_child x parent)).
    { intro x. unfold nk. rewrite Hk. apply filter_len_del; assumption. }
    assert (Hv: forall x, cval (er_b2 b parent) x = if path_eqb parent x then 0 else cval b x).
    { intro x. unfold cval. rewrite Hg. destruct (path_eqb parent x); reflexivity. }
    destruct parent as [|m d].
    + constructor; [exact Hnd|exact Hpos|]. intro x. rewrite Hv. specialize (Hnk x). cbn [is_child b2n] in Hnk.
      specialize (C x). rewrite (path_eqb_sym x []) in C. destruct (path_eqb [] x) eqn:E.
      * apply path_eqb_eq in E. subst x. unfold cval in C. rewrite En in C. cbn [b2n] in C. lia.
      * cbn [b2n] in C. lia.
    + constructor; [exact Hnd|exact Hpos|]. intro x. rewrite Hv. specialize (Hnk x). rewrite is_child_eqb in Hnk.
      specialize (C x). rewrite (path_eqb_sym x (m :: d)) in C.
      destruct (path_eqb (m :: d) x) eqn:E.
      * apply path_eqb_eq in E. subst x. unfold cval in C. rewrite En in C.
        assert (E2: path_eqb (m :: d) d = false).
        { apply path_eqb_neq. intro E'. apply (f_equal (@List.length _)) in E'. simpl in E'. lia. }
        rewrite E2 in *. cbn [b2n] in *. lia.
      * cbn [b2n] in C. destruct (path_eqb x d); cbn [b2n] in *; lia.
Qed.

Theorem bd_error_from_spec : forall parent T b, claw_minus T b parent ->
  exists b', bd_error_from b parent = Some b' /\ claw T b' /\ err_frame b parent b'.
Proof.
  induction parent as [|m d IH]; intros T b H; rewrite bd_error_from_eq;
    destruct (claw_minus_step T b _ H) as (n & En & Hn & S1 & S2); rewrite En;
    assert (Hp: in_counts b _ = true) by (unfold in_counts; rewrite En; reflexivity);
    destruct (Nat.ltb 0 (n - 1)) eqn:E.
  - eexists. split; [reflexivity|]. split; [apply S1; reflexivity|apply er_set_frame; exact Hp].
  - eexists. split; [reflexivity|]. split; [apply S2; reflexivity|apply er_b2_frame; exact Hp].
  - eexists. split; [reflexivity|]. split; [apply S1; reflexivity|apply er_set_frame; exact Hp].
  - destruct (IH T (er_b2 b (m :: d)) (S2 eq_refl)) as (b' & E1 & C1 & F1).
    exists b'. split; [exact E1|]. split; [exact C1|].
    eapply err_frame_trans; [apply er_b2_frame; exact Hp|exact F1].
Qed.

(* error_building_file for the live target n :: d *)
Theorem bd_error_spec : forall T b n d, claw T b -> In (n :: d) T ->
  exists b', bd_error b (n :: d) = Some b' /\ claw (rm1 (n :: d) T) b' /\ err_frame b d b'.
Proof.
  intros T b n d [K P C] Hin. unfold bd_error. apply bd_error_from_spec. constructor; [exact K|exact P|].
  intro x. rewrite (C x), (nt_rm1 (n :: d) T x Hin), is_child_eqb. lia.
Qed.

Print Assumptions bd_error_spec.
