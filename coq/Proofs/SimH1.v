(* Proofs/SimH1.v — the end of a committed FIRST build (no cache file before): the shape of the
   run (make_dirs, root function, _set_created_dirs, Cache.write, _commit), the new cache of the
   final world as a function of the world in which the root function returned, and the cache
   file: it holds [cache_to_json] of the new cache of the final world.  No hypothesis on
   faults: a build that answers [Done (inl v)] has made every call of the commit phase. *)
From Coq Require Import List String Ascii NArith ZArith Bool Arith Lia.
From FB.Base Require Import PyVal Fs.
From FB.Gen Require Import JsonUtilGen.
From FB.Spec Require Import JsonSpec Prog.
From FB.Model Require Import Types Monad CreatedFiles BuildDirs SimpleOps Builder Persist PersistSpec Build Run.
From FB.Proofs Require Import FsLemmas ReplayLaws ViewXOld.
Import ListNotations.
Local Open Scope list_scope.
Local Open Scope m_scope.

(* ------------------------------------------------------------------ a regular file is kept *)
Section KeepFile.
Variable q : path.
Variable g : fnode.

Definition fk (w w' : world) : Prop :=
  lookup (w_fs w) q = Some (NFile g) -> lookup (w_fs w') q = Some (NFile g).
Lemma fk_refl : forall w, fk w w.
Proof. intros w H. exact H. Qed.
Lemma fk_trans : forall a b c, fk a b -> fk b c -> fk a c.
Proof. intros a b c A B H. apply B, A, H. Qed.
Definition fkPO : PO := {| rel := fk; po_refl := fk_refl; po_trans := fk_trans |}.

Lemma rmdir_effect_fk : forall d, pres fkPO (effect "rmdir" d (fun fs => rmdir fs d)).
Proof.
  intros d w w' r H. change (fk w w'). unfold effect in H. cbv zeta in H.
  destruct (existsb (Nat.eqb (w_effects w)) (w_faults w)); [inversion H; subst; intro X; exact X|].
  cbn [w_fs set_effects] in H.
  destruct (rmdir (w_fs w) d) as [fs'|e] eqn:E; inversion H; subst; [|intro X; exact X].
  intro X. cbn [w_fs set_log set_fs set_effects].
  destruct (rmdir_frame _ _ _ E) as (A1 & _ & _ & _ & A5).
  rewrite A5; [exact X|]. intro Y. subst d. congruence.
Qed.

Lemma remove_empty_dirs_fk : forall ds, pres fkPO (remove_empty_dirs ds).
Proof.
  intro ds. unfold remove_empty_dirs. apply pres_mapM_. intro d.
  apply pres_catch; [apply rmdir_effect_fk|]. intro e. destruct (is_os e); [apply pres_ret | apply pres_raise].
Qed.
End KeepFile.

(* ------------------------------------------------------------------ the commit phase *)
Definition new_cache_of (ccd : list path) (w : world) : cache :=
  let created := bd_created (w_bd w) in
  let extra := filter (fun d => negb (mem_path d created)) ccd in
  let c := w_new w in
  cache_with c (c_files c) (c_subs c) (union_paths (c_dirs c) (created ++ extra)) (c_built c).

Lemma effect_ok : forall what p f w w' u, effect what p f w = (w', inl u) ->
  exists fs', f (w_fs w) = inl fs' /\ w_fs w' = fs' /\ w_new w' = w_new w /\ w_old w' = w_old w /\
              w_cachefile w' = w_cachefile w /\ w_clock w' = w_clock w /\ w_nextid w' = w_nextid w.
Proof.
  intros what p f w w' u H. unfold effect in H. cbv zeta in H.
  destruct (existsb (Nat.eqb (w_effects w)) (w_faults w)); [discriminate H|].
  cbn [w_fs set_effects] in H. destruct (f (w_fs w)) as [fs'|e]; [|discriminate H].
  inversion H; subst. exists fs'. repeat split; reflexivity.
Qed.

Lemma write_cache_ok : forall w w' u, write_cache w = (w', inl u) ->
  exists f, lookup (w_fs w') (w_cachefile w) = Some (NFile f) /\ f_json f = cache_to_json (w_new w) /\
            w_new w' = w_new w /\ w_old w' = w_old w /\ w_cachefile w' = w_cachefile w /\
            exists j, cache_to_json (w_new w) = Some j.
Proof.
  intros w w' u H. unfold write_cache in H. unfold bind at 1, get in H.
  destruct (cache_to_json (w_new w)) as [j|] eqn:Ej; [|discriminate H]. cbv zeta in H.
  apply bind_inv in H. destruct H as [(w1 & u1 & E1 & H) | (e & _ & Y)]; [|discriminate Y].
  apply bind_inv in H. destruct H as [(w2 & u2 & E2 & H) | (e & _ & Y)]; [|discriminate Y].
  unfold modify in E2. inversion E2; subst w2; clear E2.
  destruct (effect_ok _ _ _ _ _ _ E1) as (fs1 & _ & _ & N1 & O1 & C1 & _ & _).
  destruct (effect_ok _ _ _ _ _ _ H) as (fs2 & F2 & G2 & N2 & O2 & C2 & _ & _).
  cbn [w_fs w_new w_old w_cachefile set_clock] in *.
  destruct (write_file_frame _ _ _ _ _ _ _ F2) as [(f & L1 & _ & _ & L2) _].
  exists f. rewrite G2. split; [exact L1|]. split; [exact L2|].
  split; [congruence|]. split; [congruence|]. split; [congruence|]. exists j. reflexivity.
Qed.

Lemma commit_first : forall err nm svers w, w_old w = empty_cache nm svers ->
  commit err w = remove_empty_dirs err w.
Proof.
  intros err nm svers w Ho. unfold commit. unfold bind at 1, get. rewrite Ho.
  cbn [empty_cache cache_created_files c_files c_dirs flat_map mapM_].
  unfold bind at 1. unfold ret at 1. unfold bind at 1. unfold ret at 1. reflexivity.
Qed.

Lemma set_created_dirs_ok : forall ccd w w' r, set_created_dirs ccd w = (w', r) ->
  w' = set_new (new_cache_of ccd w) w /\ exists err, r = inl err.
Proof.
  intros ccd w w' r H. unfold set_created_dirs in H. unfold bind, get, put, ret in H. cbv zeta in H.
  inversion H; subst. split; [reflexivity | eauto].
Qed.

(* ------------------------------------------------------------------ the whole first build *)
Theorem first_build_end : forall cf nm vers svers root w w' v,
  sanitize vers = Some svers -> lookup (w_fs w) cf = None ->
  run_build cf nm vers root w = (w', Done (inl v)) ->
  exists w1 ccd w2 l,
    make_dirs (dirname cf) (start_world w cf (empty_cache nm svers) nm svers) = (w1, inl ccd) /\
    run root None [] (set_log (LInvoke "<root>" None PNone PNone :: w_log w1) w1) = (w2, (inl v, l)) /\
    w_new w' = new_cache_of ccd w2 /\
    (exists f, lookup (w_fs w') cf = Some (NFile f) /\ f_json f = cache_to_json (w_new w')) /\
    exists j, cache_to_json (w_new w') = Some j.
Proof.
  intros cf nm vers svers root w w' v Hs Hl H. unfold run_build in H.
  destruct (m_build cf nm vers (fun w0 => run root None [] w0) w) as [wz rz] eqn:E.
  inversion H; subst w' rz; clear H.
  unfold m_build in E. rewrite Hs, Hl in E. cbv zeta in E.
  set (w0 := start_world w cf (empty_cache nm svers) nm svers) in *.
  destruct (make_dirs (dirname cf) w0) as [w1 [ccd|e1]] eqn:E1.
  2:{ destruct (roll_back [] w1) as [wr [u|e']]; discriminate E. }
  destruct (run root None [] (set_log (LInvoke "<root>" None PNone PNone :: w_log w1) w1)) as [w2 [res l]] eqn:E2.
  destruct res as [v0|e2]; [|destruct (roll_back ccd w2) as [wr [u|e']]; discriminate E].
  exists w1, ccd, w2, l.
  pose proof (make_dirs_new _ _ _ _ E1) as (_ & O1 & C1).
  destruct (run_old _ _ _ _ _ _ E2) as [O2 C2]. cbn [w_old w_cachefile set_log] in O2, C2.
  assert (Ho2 : w_old w2 = empty_cache nm svers) by (rewrite O2, O1; reflexivity).
  assert (Hc2 : w_cachefile w2 = cf) by (rewrite C2, C1; reflexivity).
  match type of E with (match ?X with _ => _ end) = _ => destruct X as [w3 [err|e3]] eqn:E3 end.
  2:{ destruct (roll_back ccd w3) as [wr [u|e']]; discriminate E. }
  destruct (write_cache w3) as [w4 [u4|e4]] eqn:E4.
  2:{ destruct (try_to_remove_file cf w4) as [w5 r5]. destruct (roll_back ccd w5) as [wr [u|e']]; discriminate E. }
  destruct (commit err w4) as [w5 [u5|e5]] eqn:E5; [|discriminate E].
  inversion E; subst wz v0; clear E.
  (* the pre phase *)
  apply bind_inv in E3. destruct E3 as [(wa & erra & Ea & E3) | (e & _ & Y)]; [|discriminate Y].
  destruct (set_created_dirs_ok _ _ _ _ Ea) as [Ewa _].
  unfold bind at 1, get in E3.
  assert (K3 : w_new w3 = new_cache_of ccd w2 /\ w_old w3 = w_old w2 /\ w_cachefile w3 = w_cachefile w2).
  { destruct (isfile (w_fs wa) cf).
    - apply bind_inv in E3. destruct E3 as [(wb & ub & Eb & E3) | (e & _ & Y)]; [|discriminate Y].
      inversion E3; subst w3.
      apply bind_inv in Eb. destruct Eb as [(wc & b & Ec & Eb) | (e & _ & Y)]; [|discriminate Y].
      inversion Eb; subst wb.
      pose proof (back_up_and_remove_new _ _ _ _ Ec) as (A1 & A2 & A3).
      rewrite A1, A2, A3, Ewa. repeat split; reflexivity.
    - unfold bind, ret in E3. inversion E3; subst w3. rewrite Ewa. repeat split; reflexivity. }
  destruct K3 as (N3 & O3 & C3).
  destruct (write_cache_ok _ _ _ E4) as (f & L4 & J4 & N4 & O4 & C4 & j & Ej).
  rewrite (commit_first err nm svers w4) in E5 by congruence.
  pose proof (remove_empty_dirs_new _ _ _ _ E5) as (N5 & _ & _).
  split; [reflexivity|]. split; [exact E2|]. cbn [end_build w_new w_fs set_lost set_backups].
  split; [congruence|]. split.
  - exists f. split.
    + apply (remove_empty_dirs_fk cf f err _ _ _ E5). rewrite C3, Hc2 in L4. exact L4.
    + rewrite N5, N4. exact J4.
  - exists j. rewrite N5, N4. exact Ej.
Qed.

Print Assumptions first_build_end.
