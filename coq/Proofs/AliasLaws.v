(* Proofs/AliasLaws.v — C11, "values cross the API by value".
   Laws of the heap model Model/Alias.v for the generated edge table Gen/Edges.v:
   every edge is Deep; a deep copy is fresh; with Deep edges the user side and
   the record side of the heap stay separated, so nothing user code does can
   change what a record holds; an Alias or Shallow edge breaks this. *)
From Coq Require Import List String ZArith Bool Arith Lia.
From FB.Gen Require Import Edges.
From FB.Model Require Import Alias.
Import ListNotations.
Local Open Scope list_scope.

(* ------------------------------------------------------------------ *)
(* 1. the generated table                                               *)
(* ------------------------------------------------------------------ *)

Lemma edges_all_deep : all_deep = true.
Proof. vm_compute. reflexivity. Qed.

(* ------------------------------------------------------------------ *)
(* heap basics                                                          *)
(* ------------------------------------------------------------------ *)

Lemma hget_Some_lt : forall h l v, hget h l = Some v -> l < List.length h.
Proof. unfold hget; intros h l v H. apply nth_error_Some. congruence. Qed.

Lemma hget_app_old : forall h ext l, l < List.length h -> hget (h ++ ext) l = hget h l.
Proof. unfold hget; intros. apply nth_error_app1; auto. Qed.

Lemma hget_app_old_Some : forall h ext l v, hget h l = Some v -> hget (h ++ ext) l = Some v.
Proof. intros h ext l v H. rewrite hget_app_old; auto. eapply hget_Some_lt; eauto. Qed.

Lemma hget_app_new : forall h v, hget (h ++ [v]) (List.length h) = Some v.
Proof. unfold hget; intros. rewrite nth_error_app2, Nat.sub_diag; auto. Qed.

Lemma hget_app_cases : forall h v l w,
  hget (h ++ [v]) l = Some w ->
  (l < List.length h /\ hget h l = Some w) \/ (l = List.length h /\ w = v).
Proof.
  intros h v l w H. destruct (lt_dec l (List.length h)) as [L|L].
  - left. rewrite hget_app_old in H; auto.
  - right. pose proof (hget_Some_lt _ _ _ H) as B. rewrite app_length in B; simpl in B.
    assert (l = List.length h) by lia. subst l. rewrite hget_app_new in H. inversion H; auto.
Qed.

(* hset, through a named version of its local loop *)
Definition hset_go (l : loc) (v : hval) : nat -> heap -> heap :=
  fix go (i : nat) (h : heap) : heap :=
    match h with
    | [] => []
    | x :: r => if Nat.eqb i l then v :: r else x :: go (S i) r
    end.

Lemma hset_eq : forall h l v, hset h l v = hset_go l v 0 h.
Proof. reflexivity. Qed.

Lemma hset_go_length : forall l v h i, List.length (hset_go l v i h) = List.length h.
Proof.
  intros l v h; induction h as [|a r IH]; intros i; simpl; auto.
  destruct (Nat.eqb i l); simpl; auto.
Qed.

Lemma hset_go_nth : forall l v h i x,
  nth_error (hset_go l v i h) x =
  if (Nat.eqb (i + x) l && Nat.ltb x (List.length h))%bool then Some v else nth_error h x.
Proof.
  intros l v h; induction h as [|a r IH]; intros i x.
  - simpl. rewrite andb_false_r. reflexivity.
  - simpl hset_go. destruct (Nat.eqb i l) eqn:E.
    + apply Nat.eqb_eq in E. subst i. destruct x as [|x]; simpl.
      * rewrite Nat.add_0_r, Nat.eqb_refl. reflexivity.
      * replace (Nat.eqb (l + S x) l) with false; auto.
        symmetry. apply Nat.eqb_neq. lia.
    + apply Nat.eqb_neq in E. destruct x as [|x].
      * simpl. rewrite Nat.add_0_r. replace (Nat.eqb i l) with false; auto.
        symmetry. apply Nat.eqb_neq; auto.
      * simpl nth_error. rewrite IH. simpl List.length.
        replace (S i + x) with (i + S x) by lia.
        reflexivity.
Qed.

Lemma hset_length : forall h l v, List.length (hset h l v) = List.length h.
Proof. intros. rewrite hset_eq. apply hset_go_length. Qed.

Lemma hget_hset_same : forall h l v, l < List.length h -> hget (hset h l v) l = Some v.
Proof.
  intros h l v L. unfold hget. rewrite hset_eq, hset_go_nth. simpl.
  rewrite Nat.eqb_refl. apply Nat.ltb_lt in L. rewrite L. reflexivity.
Qed.

Lemma hget_hset_other : forall h l v x, x <> l -> hget (hset h l v) x = hget h x.
Proof.
  intros h l v x N. unfold hget. rewrite hset_eq, hset_go_nth. simpl.
  apply Nat.eqb_neq in N. rewrite N. reflexivity.
Qed.

Lemma hget_hset_cases : forall h l v x w,
  hget (hset h l v) x = Some w -> (x = l /\ w = v) \/ (x <> l /\ hget h x = Some w).
Proof.
  intros h l v x w H. destruct (Nat.eq_dec x l) as [E|N].
  - left. subst x. split; auto.
    pose proof (hget_Some_lt _ _ _ H) as B. rewrite hset_length in B.
    rewrite hget_hset_same in H; auto. inversion H; auto.
  - right. rewrite hget_hset_other in H; auto.
Qed.

(* ------------------------------------------------------------------ *)
(* reachability basics                                                  *)
(* ------------------------------------------------------------------ *)

Lemma reach_lt : forall h a x, reach h a x -> x < List.length h.
Proof. induction 1; auto. Qed.

Lemma reach_src_lt : forall h a x, reach h a x -> a < List.length h.
Proof. induction 1; auto. eapply hget_Some_lt; eauto. Qed.

Lemma reach_trans : forall h a b c, reach h a b -> reach h b c -> reach h a c.
Proof.
  induction 1; intros; auto. eapply reach_step; eauto.
Qed.

Lemma reach_child : forall h a b v c,
  reach h a b -> hget h b = Some v -> In c (children v) -> c < List.length h -> reach h a c.
Proof.
  intros h a b v c R G I L. eapply reach_trans; eauto.
  eapply reach_step; eauto. apply reach_refl; auto.
Qed.

Lemma reach_inv : forall h a x, reach h a x ->
  x = a \/ exists v c, hget h a = Some v /\ In c (children v) /\ reach h c x.
Proof. intros h a x R. inversion R; subst; [left; auto | right; eauto 6]. Qed.

(* in a closed heap, an old object reaches the same things in any extension *)
Lemma reach_app_old : forall h ext a x,
  heap_closed h -> a < List.length h -> reach (h ++ ext) a x -> reach h a x.
Proof.
  intros h ext a x Hc L R. induction R as [l _|l v c l' G I R IH].
  - apply reach_refl; auto.
  - rewrite hget_app_old in G; auto.
    eapply reach_step; eauto.
Qed.

Lemma reach_app_mono : forall h ext a x, reach h a x -> reach (h ++ ext) a x.
Proof.
  induction 1.
  - apply reach_refl. rewrite app_length. lia.
  - eapply reach_step; eauto. apply hget_app_old_Some; auto.
Qed.

(* ------------------------------------------------------------------ *)
(* 2. deep copies are fresh                                             *)
(* ------------------------------------------------------------------ *)

(* every pointer stored in a new object (one beyond [h]) points to a new object *)
Definition new_only (h h' : heap) : Prop :=
  forall l v ch, List.length h <= l -> hget h' l = Some v -> In ch (children v) -> List.length h <= ch.

(* the accumulator invariant of the copy loops *)
Definition ext_ok (h h' : heap) : Prop :=
  (exists ext, h' = h ++ ext) /\ heap_closed h' /\ new_only h h'.

Lemma ext_ok_refl : forall h, heap_closed h -> ext_ok h h.
Proof.
  intros h Hc. split; [exists []; rewrite app_nil_r; auto|]. split; auto.
  intros l v ch L G _. apply hget_Some_lt in G. lia.
Qed.

Lemma ext_ok_len : forall h h', ext_ok h h' -> List.length h <= List.length h'.
Proof. intros h h' [[ext E] _]. subst. rewrite app_length. lia. Qed.

Lemma ext_ok_trans : forall h h1 h2, ext_ok h h1 -> ext_ok h1 h2 -> ext_ok h h2.
Proof.
  intros h h1 h2 A B. pose proof (ext_ok_len _ _ A) as LA.
  destruct A as [[e1 E1] [C1 N1]]. destruct B as [[e2 E2] [C2 N2]].
  split; [exists (e1 ++ e2); subst; rewrite app_assoc; auto|]. split; auto.
  intros l v ch L G I. destruct (lt_dec l (List.length h1)) as [L1|L1].
  - rewrite E2, hget_app_old in G; auto. eapply N1; eauto.
  - assert (List.length h1 <= ch) by (apply (N2 l v ch); auto; lia). lia.
Qed.

Lemma ext_ok_alloc : forall h h' v,
  ext_ok h h' ->
  (forall ch, In ch (children v) -> List.length h <= ch < List.length h') ->
  ext_ok h (h' ++ [v]).
Proof.
  intros h h' v A Hv. destruct A as [[e E] [C N]].
  split; [exists (e ++ [v]); subst; rewrite app_assoc; auto|]. split.
  - intros l w c G I. rewrite app_length; simpl.
    destruct (hget_app_cases _ _ _ _ G) as [[L G']|[L W]].
    + specialize (C _ _ _ G' I). lia.
    + subst w. specialize (Hv _ I). lia.
  - intros l w c L G I.
    destruct (hget_app_cases _ _ _ _ G) as [[L' G']|[L' W]].
    + eapply N; eauto.
    + subst w. specialize (Hv _ I). lia.
Qed.

Lemma halloc_ok : forall h0 h v h' c,
  ext_ok h0 h ->
  (forall ch, In ch (children v) -> List.length h0 <= ch < List.length h) ->
  halloc h v = (h', c) ->
  ext_ok h0 h' /\ List.length h0 <= c < List.length h'.
Proof.
  intros h0 h v h' c A Hv E. unfold halloc in E. inversion E; subst.
  split; [apply ext_ok_alloc; auto|].
  apply ext_ok_len in A. rewrite app_length; simpl. lia.
Qed.

Lemma halloc_atom_ok : forall h z h' c,
  heap_closed h -> halloc h (HAtom z) = (h', c) ->
  ext_ok h h' /\ List.length h <= c < List.length h'.
Proof.
  intros h z h' c Hc E. eapply (halloc_ok h h (HAtom z)); [apply ext_ok_refl; auto | | exact E].
  simpl; intros ch [].
Qed.

Lemma deep_copy_S : forall f h l,
  deep_copy (S f) h l =
  match hget h l with
  | None => halloc h (HAtom 0)
  | Some (HAtom z) => halloc h (HAtom z)
  | Some (HList cs) =>
      let '(h', cs') := fold_left (fun acc c => let '(hh, out) := acc in
                                                 let '(hh', c') := deep_copy f hh c in (hh', out ++ [c']))
                                  cs (h, []) in
      halloc h' (HList cs')
  | Some (HDict d) =>
      let '(h', d') := fold_left (fun acc kc => let '(hh, out) := acc in
                                                  let '(hh', c') := deep_copy f hh (snd kc) in (hh', out ++ [(fst kc, c')]))
                                  d (h, []) in
      halloc h' (HDict d')
  end.
Proof. reflexivity. Qed.

Definition copy_spec (f : nat) : Prop :=
  forall h l h' c, heap_closed h -> deep_copy f h l = (h', c) ->
    ext_ok h h' /\ List.length h <= c < List.length h'.

Lemma fold_list_ok : forall f, copy_spec f ->
  forall cs h0 hh out h' cs',
    ext_ok h0 hh ->
    (forall o, In o out -> List.length h0 <= o < List.length hh) ->
    fold_left (fun acc c => let '(hh, out) := acc in
                            let '(hh', c') := deep_copy f hh c in (hh', out ++ [c']))
              cs (hh, out) = (h', cs') ->
    ext_ok h0 h' /\ (forall o, In o cs' -> List.length h0 <= o < List.length h').
Proof.
  intros f IH cs; induction cs as [|a cs IHcs]; intros h0 hh out h' cs' A Ho F; simpl in F.
  - inversion F; subst; auto.
  - destruct (deep_copy f hh a) as [hh1 c1] eqn:E.
    destruct (IH _ _ _ _ (proj1 (proj2 A)) E) as [B Bc].
    pose proof (ext_ok_len _ _ A) as LA. pose proof (ext_ok_len _ _ B) as LB.
    eapply IHcs; [| |exact F].
    + eapply ext_ok_trans; eauto.
    + intros o I. apply in_app_or in I. destruct I as [I|[I|[]]].
      * specialize (Ho _ I). lia.
      * subst o. lia.
Qed.

Lemma fold_dict_ok : forall f, copy_spec f ->
  forall (d : list (string * loc)) h0 hh out h' d',
    ext_ok h0 hh ->
    (forall o, In o (map snd out) -> List.length h0 <= o < List.length hh) ->
    fold_left (fun acc kc => let '(hh, out) := acc in
                             let '(hh', c') := deep_copy f hh (snd kc) in (hh', out ++ [(fst kc, c')]))
              d (hh, out) = (h', d') ->
    ext_ok h0 h' /\ (forall o, In o (map snd d') -> List.length h0 <= o < List.length h').
Proof.
  intros f IH d; induction d as [|a d IHd]; intros h0 hh out h' d' A Ho F; simpl in F.
  - inversion F; subst; auto.
  - destruct (deep_copy f hh (snd a)) as [hh1 c1] eqn:E.
    destruct (IH _ _ _ _ (proj1 (proj2 A)) E) as [B Bc].
    pose proof (ext_ok_len _ _ A) as LA. pose proof (ext_ok_len _ _ B) as LB.
    eapply IHd; [| |exact F].
    + eapply ext_ok_trans; eauto.
    + intros o I. rewrite map_app in I. apply in_app_or in I. destruct I as [I|[I|[]]].
      * specialize (Ho _ I). lia.
      * simpl in I. subst o. lia.
Qed.

(* the generalised statement: no bound on the depth is needed for freshness *)
Lemma deep_copy_ext : forall fuel, copy_spec fuel.
Proof.
  induction fuel as [|f IH]; intros h l h' c Hc E.
  - simpl in E. eapply halloc_atom_ok; eauto.
  - rewrite deep_copy_S in E. destruct (hget h l) as [[z|cs|d]|] eqn:G.
    + eapply halloc_atom_ok; eauto.
    + destruct (fold_left _ cs (h, [])) as [h1 cs'] eqn:F.
      destruct (fold_list_ok f IH cs h h [] h1 cs' (ext_ok_refl _ Hc)) as [A Ho]; auto.
      { intros o []. }
      eapply (halloc_ok h h1 (HList cs')); [exact A | exact Ho | exact E].
    + destruct (fold_left _ d (h, [])) as [h1 d'] eqn:F.
      destruct (fold_dict_ok f IH d h h [] h1 d' (ext_ok_refl _ Hc)) as [A Ho]; auto.
      { intros o []. }
      eapply (halloc_ok h h1 (HDict d')); [exact A | exact Ho | exact E].
    + eapply halloc_atom_ok; eauto.
Qed.

Lemma reach_new : forall h h' a x,
  new_only h h' -> List.length h <= a -> reach h' a x -> List.length h <= x.
Proof.
  intros h h' a x N L R. induction R as [l _|l v c l' G I R IH]; auto.
  apply IH. eapply N; eauto.
Qed.

(* freshness without the depth bound *)
Theorem deep_copy_fresh_any : forall fuel h l h' c,
  heap_closed h -> deep_copy fuel h l = (h', c) ->
  (exists ext, h' = h ++ ext) /\ heap_closed h' /\ List.length h <= c < List.length h' /\
  (forall x, reach h' c x -> List.length h <= x) /\
  (forall a x, a < List.length h -> reach h' a x -> reach h a x).
Proof.
  intros fuel h l h' c Hc E.
  destruct (deep_copy_ext fuel h l h' c Hc E) as [[[ext X] [C N]] B].
  split; [eauto|]. split; auto. split; auto. split.
  - intros x R. apply (reach_new h h' c x N); auto; lia.
  - intros a x L R. subst h'. eapply reach_app_old; eauto.
Qed.

Theorem deep_copy_fresh : forall fuel h l h' c,
  heap_closed h -> depth_le h fuel l -> deep_copy fuel h l = (h', c) ->
  (exists ext, h' = h ++ ext) /\ heap_closed h' /\ List.length h <= c < List.length h' /\
  (forall x, reach h' c x -> List.length h <= x) /\
  (forall a x, a < List.length h -> reach h' a x -> reach h a x).
Proof. intros fuel h l h' c Hc _ E. eapply deep_copy_fresh_any; eauto. Qed.

(* ------------------------------------------------------------------ *)
(* 3. the invariant (definition; preservation is proved below)          *)
(* ------------------------------------------------------------------ *)

Definition good (s : astate) : Prop :=
  heap_closed (a_heap s) /\ separated s /\
  (forall u, In u (a_user s) -> u < List.length (a_heap s)) /\
  (forall r, In r (a_rec s) -> r < List.length (a_heap s)).

(* ------------------------------------------------------------------ *)
(* 6. an aliasing (or shallow) edge breaks it                           *)
(* ------------------------------------------------------------------ *)

(* invert a [reach] hypothesis over a concrete, acyclic heap down to equalities *)
Ltac rinv H :=
  let v := fresh "v" in let c := fresh "c" in
  let G := fresh "G" in let I := fresh "I" in
  apply reach_inv in H; destruct H as [H | (v & c & G & I & H)];
  [ | vm_compute in G;
      first [ discriminate G
            | injection G as G; subst v; simpl in I;
              repeat (destruct I as [I|I]; [subst c; rinv H | ]); try contradiction ] ].

Ltac closed_concrete :=
  let l := fresh "l" in let v := fresh "v" in let c := fresh "c" in
  let G := fresh "G" in let I := fresh "I" in let B := fresh "B" in
  intros l v c G I; pose proof (hget_Some_lt _ _ _ G) as B; simpl in B;
  repeat (destruct l as [|l];
          [ vm_compute in G; injection G as G; subst v; simpl in I; simpl; intuition lia
          | try lia ]).

(* a record holds the list [1]; user code holds the atom [0] *)
Definition alias_s0 : astate :=
  {| a_heap := [HAtom 1; HList []]; a_user := [0]; a_rec := [1] |}.

Lemma alias_s0_good : good alias_s0.
Proof.
  unfold good, alias_s0; simpl. repeat split.
  - closed_concrete.
  - intros l (u & Iu & Ru) (r & Ir & Rr); simpl in *.
    destruct Iu as [<-|[]]. destruct Ir as [<-|[]].
    rinv Ru. rinv Rr. congruence.
  - intros u [<-|[]]; lia.
  - intros r [<-|[]]; lia.
Qed.

(* hand the list out through an Alias edge; the user then appends to it *)
Theorem alias_out_breaks : exists s st1 st2 r,
  good s /\ In r (a_rec s) /\ legal s st1 /\ legal (astep_run Deep Alias 5 s st1) st2 /\
  hget (a_heap (astep_run Deep Alias 5 (astep_run Deep Alias 5 s st1) st2)) r <> hget (a_heap s) r.
Proof.
  exists alias_s0, (SOut 1), (SMutate 1 (HList [0])), 1.
  split; [apply alias_s0_good|]. split; [simpl; auto|]. split; [|split].
  - exists 1. split; [simpl; auto|]. apply reach_refl. simpl; lia.
  - simpl. split; [|split].
    + exists 1. split; [simpl; auto|]. apply reach_refl. simpl; lia.
    + intros c [<-|[]]. exists 0. split; [simpl; auto|]. apply reach_refl. simpl; lia.
    + exists (HList []). split; auto.
  - vm_compute. discriminate.
Qed.

(* a record holds the nested list [2] = [[1]] *)
Definition shallow_s0 : astate :=
  {| a_heap := [HAtom 1; HList []; HList [1]]; a_user := [0]; a_rec := [2] |}.

Lemma shallow_s0_good : good shallow_s0.
Proof.
  unfold good, shallow_s0; simpl. repeat split.
  - closed_concrete.
  - intros l (u & Iu & Ru) (r & Ir & Rr); simpl in *.
    destruct Iu as [<-|[]]. destruct Ir as [<-|[]].
    rinv Ru. rinv Rr; congruence.
  - intros u [<-|[]]; lia.
  - intros r [<-|[]]; lia.
Qed.

(* With a Shallow edge the record's top-level object is copied, so the root
   itself keeps its contents; what breaks is an object *reachable* from the
   record root (the shared inner list): the statement is the Alias one with
   [r] replaced by some [x] with [reach (a_heap s) r x]. *)
Theorem shallow_out_breaks : exists s st1 st2 r x,
  good s /\ In r (a_rec s) /\ reach (a_heap s) r x /\
  legal s st1 /\ legal (astep_run Deep Shallow 5 s st1) st2 /\
  hget (a_heap (astep_run Deep Shallow 5 (astep_run Deep Shallow 5 s st1) st2)) x <> hget (a_heap s) x.
Proof.
  exists shallow_s0, (SOut 2), (SMutate 1 (HList [0])), 2, 1.
  split; [apply shallow_s0_good|]. split; [simpl; auto|]. split; [|split; [|split]].
  - eapply reach_step; [reflexivity | simpl; auto | apply reach_refl; simpl; lia].
  - exists 2. split; [simpl; auto|]. apply reach_refl. simpl; lia.
  - simpl. split; [|split].
    + exists 3. split; [simpl; auto|].
      eapply reach_step; [reflexivity | simpl; auto | apply reach_refl; simpl; lia].
    + intros c [<-|[]]. exists 0. split; [simpl; auto|]. apply reach_refl. simpl; lia.
    + exists (HList []). split; auto.
  - vm_compute. discriminate.
Qed.

(* ------------------------------------------------------------------ *)
(* 3. Deep edges preserve the invariant                                 *)
(* ------------------------------------------------------------------ *)

Lemma user_reach_lt : forall s l, user_reach s l -> l < List.length (a_heap s).
Proof. intros s l (u & _ & R). eapply reach_lt; eauto. Qed.

Lemma rec_reach_lt : forall s l, rec_reach s l -> l < List.length (a_heap s).
Proof. intros s l (u & _ & R). eapply reach_lt; eauto. Qed.

(* a path that never meets the mutated object is a path of the old heap *)
Lemma reach_hset_avoid : forall h l v a x,
  reach (hset h l v) a x -> (forall y, reach h a y -> y <> l) -> reach h a x.
Proof.
  intros h l v a x R. induction R as [a L | a w c x G I R IH]; intros Hav.
  - apply reach_refl. rewrite hset_length in L; auto.
  - assert (La : a < List.length h).
    { apply hget_Some_lt in G. rewrite hset_length in G; auto. }
    assert (N : a <> l) by (apply Hav; apply reach_refl; auto).
    rewrite hget_hset_other in G; auto.
    eapply reach_step; eauto. apply IH. intros y Ry. apply Hav. eapply reach_step; eauto.
Qed.

(* after an in-place store of user-reachable children, what user code reaches
   it could already reach *)
Lemma reach_hset_user : forall s l v,
  heap_closed (a_heap s) ->
  (forall c, In c (children v) -> user_reach s c) ->
  forall a x, reach (hset (a_heap s) l v) a x -> user_reach s a -> user_reach s x.
Proof.
  intros s l v Hc Hv a x R. induction R as [a L | a w c x G I R IH]; intros Ua; auto.
  apply IH. destruct (hget_hset_cases _ _ _ _ _ G) as [[-> ->]|[N G']].
  - apply Hv; auto.
  - destruct Ua as (u & Iu & Ru). exists u. split; auto.
    eapply reach_child; eauto.
Qed.

Lemma good_mutate : forall s l v,
  good s -> legal s (SMutate l v) ->
  good {| a_heap := hset (a_heap s) l v; a_user := a_user s; a_rec := a_rec s |}.
Proof.
  intros s l v (Hc & Sep & Hu & Hr) (Ul & Uv & _).
  unfold good; simpl. split; [|split; [|split]].
  - intros a w c G I. rewrite hset_length.
    destruct (hget_hset_cases _ _ _ _ _ G) as [[-> ->]|[N G']].
    + apply user_reach_lt. apply Uv; auto.
    + eapply Hc; eauto.
  - intros x (u & Iu & Ru) (r & Ir & Rr); simpl in *.
    apply (Sep x).
    + apply (reach_hset_user s l v Hc Uv u x Ru).
      exists u. split; auto. apply reach_refl; auto.
    + exists r. split; auto. apply (reach_hset_avoid _ l v r x Rr).
      intros y Ry ->. apply (Sep l); auto. exists r; auto.
  - intros u Iu. rewrite hset_length. auto.
  - intros r Ir. rewrite hset_length. auto.
Qed.

Lemma good_new : forall s v,
  good s -> legal s (SNew v) ->
  good {| a_heap := a_heap s ++ [v]; a_user := List.length (a_heap s) :: a_user s; a_rec := a_rec s |}.
Proof.
  intros s v (Hc & Sep & Hu & Hr) Uv. simpl in Uv.
  unfold good; simpl. split; [|split; [|split]].
  - intros a w c G I. rewrite app_length; simpl.
    destruct (hget_app_cases _ _ _ _ G) as [[L G']|[-> ->]].
    + specialize (Hc _ _ _ G' I). lia.
    + apply Uv, user_reach_lt in I. lia.
  - intros x (u & Iu & Ru) (r & Ir & Rr); simpl in *.
    apply reach_app_old in Rr; auto.
    assert (Rx : rec_reach s x) by (exists r; auto).
    apply (Sep x); auto.
    destruct Iu as [<-|Iu].
    + apply reach_inv in Ru. destruct Ru as [->|(w & c & G & I & Ru)].
      * apply rec_reach_lt in Rx. lia.
      * rewrite hget_app_new in G. injection G as <-.
        destruct (Uv _ I) as (u & Iu & Rc). exists u. split; auto.
        eapply reach_trans; eauto.
        eapply reach_app_old; eauto. eapply reach_lt; eauto.
    + exists u. split; auto. eapply reach_app_old; eauto.
  - intros u [<-|Iu]; rewrite app_length; simpl; [lia|]. specialize (Hu _ Iu). lia.
  - intros r Ir. rewrite app_length; simpl. specialize (Hr _ Ir). lia.
Qed.

Lemma good_in : forall fuel s l h' c,
  good s -> deep_copy fuel (a_heap s) l = (h', c) ->
  good {| a_heap := h'; a_user := a_user s; a_rec := c :: a_rec s |}.
Proof.
  intros fuel s l h' c (Hc & Sep & Hu & Hr) E.
  destruct (deep_copy_fresh_any _ _ _ _ _ Hc E) as ((ext & X) & C' & B & New & Old).
  assert (Len : List.length (a_heap s) <= List.length h') by (subst h'; rewrite app_length; lia).
  unfold good; simpl. split; [|split; [|split]]; auto.
  - intros x (u & Iu & Ru) (r & Ir & Rr); simpl in *.
    apply Old in Ru; auto.
    destruct Ir as [<-|Ir].
    + apply New in Rr. apply reach_lt in Ru. lia.
    + apply Old in Rr; auto. apply (Sep x); [exists u|exists r]; auto.
  - intros u Iu. specialize (Hu _ Iu). lia.
  - intros r [<-|Ir]; [lia|]. specialize (Hr _ Ir). lia.
Qed.

Lemma good_out : forall fuel s l h' c,
  good s -> deep_copy fuel (a_heap s) l = (h', c) ->
  good {| a_heap := h'; a_user := c :: a_user s; a_rec := a_rec s |}.
Proof.
  intros fuel s l h' c (Hc & Sep & Hu & Hr) E.
  destruct (deep_copy_fresh_any _ _ _ _ _ Hc E) as ((ext & X) & C' & B & New & Old).
  assert (Len : List.length (a_heap s) <= List.length h') by (subst h'; rewrite app_length; lia).
  unfold good; simpl. split; [|split; [|split]]; auto.
  - intros x (u & Iu & Ru) (r & Ir & Rr); simpl in *.
    apply Old in Rr; auto.
    destruct Iu as [<-|Iu].
    + apply New in Ru. apply reach_lt in Rr. lia.
    + apply Old in Ru; auto. apply (Sep x); [exists u|exists r]; auto.
  - intros u [<-|Iu]; [lia|]. specialize (Hu _ Iu). lia.
  - intros r Ir. specialize (Hr _ Ir). lia.
Qed.

(* Freshness of a deep copy does not depend on the fuel (deep_copy_fresh_any):
   with too little fuel the copy is truncated, but still fresh.  So the depth
   bound on the crossing value is not needed here; the theorem is stated with
   exactly [good s] and [legal s st]. *)
Theorem deep_step_preserves : forall fuel s st,
  good s -> legal s st -> good (astep_run Deep Deep fuel s st).
Proof.
  intros fuel s st G L. destruct st as [l v | v | l | r]; simpl.
  - apply good_mutate; auto.
  - apply good_new; auto.
  - destruct (deep_copy fuel (a_heap s) l) as [h' c] eqn:E. eapply good_in; eauto.
  - destruct (deep_copy fuel (a_heap s) r) as [h' c] eqn:E. eapply good_out; eauto.
Qed.

(* the same, in the form with the depth bound on the value that crosses *)
Corollary deep_step_preserves_bounded : forall fuel s st,
  good s -> legal s st ->
  match st with SIn l | SOut l => depth_le (a_heap s) fuel l | _ => True end ->
  good (astep_run Deep Deep fuel s st).
Proof. intros fuel s st G L _. apply deep_step_preserves; auto. Qed.

(* ------------------------------------------------------------------ *)
(* 4. user code cannot change what the records hold                     *)
(* ------------------------------------------------------------------ *)

Theorem records_unchanged_by_user : forall fuel s st r x,
  good s -> legal s st -> (match st with SMutate _ _ | SNew _ => True | _ => False end) ->
  In r (a_rec s) -> reach (a_heap s) r x ->
  hget (a_heap (astep_run Deep Deep fuel s st)) x = hget (a_heap s) x.
Proof.
  intros fuel s st r x (Hc & Sep & Hu & Hr) L K Ir R.
  destruct st as [l v | v | l | l]; try contradiction; simpl.
  - apply hget_hset_other. intros ->. destruct L as (Ul & _).
    apply (Sep l); auto. exists r; auto.
  - apply hget_app_old. eapply reach_lt; eauto.
Qed.

(* ------------------------------------------------------------------ *)
(* 5. all reachable states are good                                     *)
(* ------------------------------------------------------------------ *)

Definition run_steps (kin kout : edge_kind) (fuel : nat) (s : astate) (l : list astep) : astate :=
  fold_left (astep_run kin kout fuel) l s.

(* each step is legal in the state where it runs, and each crossing value
   respects the depth bound (so that its copy is complete) *)
Fixpoint all_legal (kin kout : edge_kind) (fuel : nat) (s : astate) (l : list astep) : Prop :=
  match l with
  | [] => True
  | st :: rest =>
      legal s st /\
      match st with SIn x | SOut x => depth_le (a_heap s) fuel x | _ => True end /\
      all_legal kin kout fuel (astep_run kin kout fuel s st) rest
  end.

Theorem deep_runs_good : forall fuel l s,
  good s -> all_legal Deep Deep fuel s l -> good (run_steps Deep Deep fuel s l).
Proof.
  intros fuel l; induction l as [|st rest IH]; intros s G A; simpl in *; auto.
  destruct A as (L & _ & A). apply IH; auto. apply deep_step_preserves; auto.
Qed.

Example good_init : good {| a_heap := []; a_user := []; a_rec := [] |}.
Proof.
  unfold good; simpl. split; [|split; [|split]].
  - intros l v c G. destruct l; discriminate G.
  - intros l (u & [] & _).
  - intros u [].
  - intros r [].
Qed.

(* every state reached from the empty state by legal steps is good *)
Corollary deep_runs_from_init_good : forall fuel l,
  all_legal Deep Deep fuel {| a_heap := []; a_user := []; a_rec := [] |} l ->
  good (run_steps Deep Deep fuel {| a_heap := []; a_user := []; a_rec := [] |} l).
Proof. intros. apply deep_runs_good; auto. apply good_init. Qed.

(* ------------------------------------------------------------------ *)
(* 2'. (stretch) the deep copy has the same shape as the original       *)
(* ------------------------------------------------------------------ *)

(* [same_shape_n n h l h' c]: the tree below [l] in [h] (of depth < n) and the
   tree below [c] in [h'] are equal up to the names of the locations *)
Fixpoint same_shape_n (n : nat) (h : heap) (l : loc) (h' : heap) (c : loc) : Prop :=
  match n with
  | O => False
  | S n =>
      match hget h l, hget h' c with
      | Some (HAtom z), Some (HAtom z') => z = z'
      | Some (HList cs), Some (HList cs') =>
          Forall2 (fun a b => same_shape_n n h a h' b) cs cs'
      | Some (HDict d), Some (HDict d') =>
          Forall2 (fun a b => fst a = fst b /\ same_shape_n n h (snd a) h' (snd b)) d d'
      | _, _ => False
      end
  end.

Definition same_shape (h : heap) (l : loc) (h' : heap) (c : loc) : Prop :=
  exists n, same_shape_n n h l h' c.

Lemma Forall2_impl_in : forall (A B : Type) (R1 R2 : A -> B -> Prop) l1 l2,
  Forall2 R1 l1 l2 -> (forall a b, In a l1 -> R1 a b -> R2 a b) -> Forall2 R2 l1 l2.
Proof.
  induction 1; intros K; constructor.
  - apply K; simpl; auto.
  - apply IHForall2. intros; apply K; simpl; auto.
Qed.

Lemma depth_le_app : forall n h e a, depth_le h n a -> depth_le (h ++ e) n a.
Proof.
  induction n as [|n IH]; intros h e a D; inversion D; subst.
  econstructor; [apply hget_app_old_Some; eauto|]. intros c I. apply IH; auto.
Qed.

(* extending the target heap keeps the shape relation *)
Lemma same_shape_n_app_tgt : forall n h a h1 e b,
  same_shape_n n h a h1 b -> same_shape_n n h a (h1 ++ e) b.
Proof.
  induction n as [|n IH]; intros h a h1 e b H; [exact H|].
  cbn [same_shape_n] in *.
  destruct (hget h1 b) as [vb|] eqn:G.
  2:{ destruct (hget h a) as [[z|cs|d]|]; contradiction. }
  rewrite (hget_app_old_Some _ e _ _ G).
  destruct (hget h a) as [[z|cs|d]|]; destruct vb as [z'|cs'|d']; try contradiction; auto.
  - eapply Forall2_impl_in; [exact H|]. intros x y _ K; apply IH; auto.
  - eapply Forall2_impl_in; [exact H|]. intros x y _ [K1 K2]; split; auto.
Qed.

(* the source heap may be cut back to the part that holds the original *)
Lemma same_shape_n_app_src : forall n h e a h1 b,
  depth_le h n a -> same_shape_n n (h ++ e) a h1 b -> same_shape_n n h a h1 b.
Proof.
  induction n as [|n IH]; intros h e a h1 b D H; [exact H|].
  inversion D as [n' a' v G Dc]; subst.
  cbn [same_shape_n] in *.
  rewrite (hget_app_old_Some _ e _ _ G) in H. rewrite G.
  destruct v as [z|cs|d]; destruct (hget h1 b) as [[z'|cs'|d']|]; try contradiction; auto.
  - eapply Forall2_impl_in; [exact H|]. intros x y I K. simpl in K.
    apply (IH h e); auto.
  - eapply Forall2_impl_in; [exact H|]. intros x y I [K1 K2]. split; auto.
    apply (IH h e); auto. apply Dc. simpl. apply in_map; auto.
Qed.

Definition shape_spec (f : nat) : Prop :=
  forall h l h' c, heap_closed h -> depth_le h f l -> deep_copy f h l = (h', c) ->
    same_shape_n f h l h' c.

Lemma fold_list_shape : forall f, shape_spec f ->
  forall cs h hh out h1 cs',
    ext_ok h hh ->
    (forall c, In c cs -> depth_le h f c) ->
    fold_left (fun acc c => let '(hh, out) := acc in
                            let '(hh', c') := deep_copy f hh c in (hh', out ++ [c']))
              cs (hh, out) = (h1, cs') ->
    (exists e, h1 = hh ++ e) /\
    exists new, cs' = out ++ new /\ Forall2 (fun a b => same_shape_n f h a h1 b) cs new.
Proof.
  intros f IH cs; induction cs as [|a cs IHcs]; intros h hh out h1 cs' A D F; simpl in F.
  - inversion F; subst. split; [exists []; rewrite app_nil_r; auto|].
    exists []. rewrite app_nil_r. auto.
  - destruct (deep_copy f hh a) as [hh1 c1] eqn:E.
    destruct (deep_copy_ext f _ _ _ _ (proj1 (proj2 A)) E) as [B _].
    pose proof A as [[e0 X0] _]. pose proof B as [[e1 X1] _].
    assert (S1 : same_shape_n f h a hh1 c1).
    { subst hh. eapply same_shape_n_app_src; [apply D; simpl; auto|].
      apply IH; [exact (proj1 (proj2 A)) | apply depth_le_app; apply D; simpl; auto | exact E]. }
    destruct (IHcs h hh1 (out ++ [c1]) h1 cs') as [[e X] [new [Y Z]]]; auto.
    { eapply ext_ok_trans; eauto. }
    { intros c I. apply D; simpl; auto. }
    split; [exists (e1 ++ e); rewrite X, X1, app_assoc; auto|].
    exists (c1 :: new). split; [rewrite Y, <- app_assoc; auto|].
    constructor; auto. rewrite X. apply same_shape_n_app_tgt; auto.
Qed.

Lemma fold_dict_shape : forall f, shape_spec f ->
  forall (d : list (string * loc)) h hh out h1 d',
    ext_ok h hh ->
    (forall c, In c (map snd d) -> depth_le h f c) ->
    fold_left (fun acc kc => let '(hh, out) := acc in
                             let '(hh', c') := deep_copy f hh (snd kc) in (hh', out ++ [(fst kc, c')]))
              d (hh, out) = (h1, d') ->
    (exists e, h1 = hh ++ e) /\
    exists new, d' = out ++ new /\
      Forall2 (fun a b => fst a = fst b /\ same_shape_n f h (snd a) h1 (snd b)) d new.
Proof.
  intros f IH d; induction d as [|a d IHd]; intros h hh out h1 d' A D F; simpl in F.
  - inversion F; subst. split; [exists []; rewrite app_nil_r; auto|].
    exists []. rewrite app_nil_r. auto.
  - destruct (deep_copy f hh (snd a)) as [hh1 c1] eqn:E.
    destruct (deep_copy_ext f _ _ _ _ (proj1 (proj2 A)) E) as [B _].
    pose proof A as [[e0 X0] _]. pose proof B as [[e1 X1] _].
    assert (S1 : same_shape_n f h (snd a) hh1 c1).
    { subst hh. eapply same_shape_n_app_src; [apply D; simpl; auto|].
      apply IH; [exact (proj1 (proj2 A)) | apply depth_le_app; apply D; simpl; auto | exact E]. }
    destruct (IHd h hh1 (out ++ [(fst a, c1)]) h1 d') as [[e X] [new [Y Z]]]; auto.
    { eapply ext_ok_trans; eauto. }
    { intros c I. apply D; simpl; auto. }
    split; [exists (e1 ++ e); rewrite X, X1, app_assoc; auto|].
    exists ((fst a, c1) :: new). split; [rewrite Y, <- app_assoc; auto|].
    constructor; auto. simpl. split; auto. rewrite X. apply same_shape_n_app_tgt; auto.
Qed.

Lemma deep_copy_shape_n : forall fuel, shape_spec fuel.
Proof.
  induction fuel as [|f IH]; intros h l h' c Hc D E.
  - inversion D.
  - inversion D as [n' a' v G Dc]; subst.
    rewrite deep_copy_S, G in E. cbn [same_shape_n]. rewrite G.
    destruct v as [z|cs|d].
    + unfold halloc in E. inversion E; subst. rewrite hget_app_new. reflexivity.
    + destruct (fold_left _ cs (h, [])) as [h1 cs'] eqn:F.
      destruct (fold_list_shape f IH cs h h [] h1 cs' (ext_ok_refl _ Hc) Dc F)
        as [_ [new [Y Z]]].
      simpl in Y. subst new.
      unfold halloc in E. inversion E; subst. rewrite hget_app_new.
      eapply Forall2_impl_in; [exact Z|]. intros x y _ K; apply same_shape_n_app_tgt; auto.
    + destruct (fold_left _ d (h, [])) as [h1 d'] eqn:F.
      destruct (fold_dict_shape f IH d h h [] h1 d' (ext_ok_refl _ Hc) Dc F)
        as [_ [new [Y Z]]].
      simpl in Y. subst new.
      unfold halloc in E. inversion E; subst. rewrite hget_app_new.
      eapply Forall2_impl_in; [exact Z|]. intros x y _ [K1 K2]; split; auto.
      apply same_shape_n_app_tgt; auto.
Qed.

(* here the depth bound is essential: with too little fuel the copy is truncated *)
Theorem deep_copy_same_shape : forall fuel h l h' c,
  heap_closed h -> depth_le h fuel l -> deep_copy fuel h l = (h', c) ->
  same_shape h l h' c.
Proof. intros fuel h l h' c Hc D E. exists fuel. eapply deep_copy_shape_n; eauto. Qed.

(* without the bound it fails: fuel 1 on the nested list [[ ]] gives an atom *)
Example deep_copy_truncates :
  let h := [HList []; HList [0]] in
  heap_closed h /\ hget h 1 = Some (HList [0]) /\
  hget (fst (deep_copy 1 h 1)) (snd (deep_copy 1 h 1)) = Some (HList [2]) /\
  hget (fst (deep_copy 1 h 1)) 2 = Some (HAtom 0).
Proof.
  simpl. split; [closed_concrete|]. vm_compute. auto.
Qed.
