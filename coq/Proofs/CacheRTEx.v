(* Proofs/CacheRTEx.v — C16 at cache level: the hypotheses of the round-trip
   theorems (writable, tables = tables of the forest, forest stable) hold, by
   computation, of the caches that builds of the mechanism model commit; the
   cache file those builds leave holds exactly cache_to_json of that cache.
   Non-vacuity of CacheRTLaws / CacheRTTables / CacheRTCycle. *)
From Coq Require Import List String Ascii NArith ZArith Bool Arith Permutation.
From FB.Base Require Import PyVal Fs.
From FB.Gen Require Import JsonUtilGen.
From FB.Spec Require Import JsonSpec Prog.
From FB.Model Require Import Types Monad SimpleOps Builder PathNorm Persist PersistSpec Build Run Dsl.
From FB.Proofs Require Import FsLemmas JsonLaws PersistLaws CacheRTDefs CacheRTLaws CacheRTTables
  CacheRTCheck CacheRTCycle CacheRTForest.
Import ListNotations.
Local Open Scope string_scope.
Local Open Scope list_scope.

Module CacheRTEx.

Definition CF : path := ["cache"; "meta"].
Definition V : pyval := PDict [(PStr "f", PInt 3); (PStr "a", PList [PInt 1; PFloat (FFin false 3%positive (-1))])].

(* a subbuild with unsorted kwargs; inside it an output in a directory with a
   space in its name, built from tuple-carrying arguments by a function that
   walks the tree and returns an unsorted dict; a read; a failing output; a
   failing read; then a second top-level output *)
Definition root : prog :=
  Subbuild false "s" (PList [PInt 1]) (PDict [(PStr "b", PInt 2); (PStr "a", PNone)])
    (fun _ _ =>
       BuildFile false ["o"; "d e"] HASH "f" (PList [PTuple [PInt 1; PInt 2]]) (PDict [])
         (fun _ _ _ => Ask false (QWalk [] true) (fun _ =>
                       Write "x" (Ret (PDict [(PStr "z", PInt 1); (PStr "y", PList [PDict [(PStr "q", PNone); (PStr "p", PBool true)]])]))))
         (fun _ => Ask false (QRead ["o"; "d e"] METADATA) (fun _ =>
            BuildFile false ["bad"] METADATA "g" (PList []) (PDict [])
              (fun _ _ _ => Write "tmp" (Raise (XUser 7)))
              (fun _ => Ask false (QRead ["nothere"] HASH) (fun _ => Ret (PList [PInt 3]))))))
    (fun _ => BuildFile false ["top"] METADATA "h" (PList []) (PDict [(PStr "k", PStr "v")])
                (fun _ _ _ => Ask false (QListDir ["d e"]) (fun _ => Write "t" (Ret PNone)))
                (fun _ => Ret PNone)).

Definition b1 := run_build CF "n" V root init_world.
Definition c1 : cache := w_new (fst b1).
(* second build after an external change of the first output: "s" and "f" are
   re-executed, "g" fails again, "h" (which listed the directory) is served *)
Definition b2 := run_build CF "n" V root (apply_fsop (fst b1) (FWrite ["o"; "d e"] "changed")).
Definition c2 : cache := w_new (fst b2).
(* third build, nothing changed: every record is served from the cache *)
Definition b3 := run_build CF "n" V root (fst b2).
Definition c3 : cache := w_new (fst b3).

Definition forest (c : cache) : list op := match cache_forest c with Some r => r | None => [] end.

Definition file_json (w : world) : option pyval :=
  match lookup (w_fs w) CF with Some (NFile f) => f_json f | _ => None end.

(* everything the theorems ask of a cache, as one boolean *)
Definition all_checks (w : world) : bool :=
  let c := w_new w in
  let roots := forest c in
  let d := tables_of (c_name c) (c_fvers c) (c_dirs c) roots in
  writable_b c &&
  negb (Nat.eqb (List.length roots) 0) &&
  tables_perm_forest_b c roots &&
  files_from_forest_b c roots &&
  forallb (fun k => ooop_beq (subs_get (c_subs c) k) (subs_get (c_subs d) k))
          (map fst (c_subs c) ++ map fst (c_subs d)) &&
  paths_nodup (c_dirs c) &&
  forest_good_b roots &&
  (match cache_forest (read_back c roots) with
   | Some r => all2 op_beq r (map norm_op roots)
   | None => false
   end) &&
  (* the cache file the build left holds the serialisation of its new cache *)
  opt_same (file_json w) (cache_to_json c) &&
  (match file_json w with Some _ => true | None => false end).

Lemma builds_ok : snd b1 = Done (inl PNone) /\ snd b2 = Done (inl PNone) /\ snd b3 = Done (inl PNone).
Proof. vm_compute. repeat split. Qed.

Lemma checks1 : all_checks (fst b1) = true. Proof. vm_compute. reflexivity. Qed.
Lemma checks2 : all_checks (fst b2) = true. Proof. vm_compute. reflexivity. Qed.
Lemma checks3 : all_checks (fst b3) = true. Proof. vm_compute. reflexivity. Qed.

(* the round trip is not the identity on these caches (dict items get sorted,
   tuples become lists, the tables are re-ordered) *)
Lemma not_identity :
  perm_check fentry_beq (c_files (read_back c1 (forest c1))) (c_files c1) = false /\
  list_same (fun a b => fentry_beq a b) (c_files (read_back c1 (forest c1))) (map norm_fentry (c_files c1)) = false.
Proof. vm_compute. split; reflexivity. Qed.

Lemma all2_op_beq_eq : forall l l', all2 op_beq l l' = true -> l = l'.
Proof.
  intro l. apply all2_beq_eq. apply Forall_forall. intros x _. apply op_beq_eq.
Qed.

Lemma opt_same_eq : forall a b, opt_same a b = true -> a = b.
Proof.
  destruct a, b; cbn [opt_same]; intro H; try discriminate; [|reflexivity].
  f_equal. apply CoreLawsJson.pyval_same_eq. exact H.
Qed.

(* from the boolean to the hypotheses *)
Lemma all_checks_sound : forall w, all_checks w = true ->
  let c := w_new w in let roots := forest c in
  writable c roots /\ tables_perm_forest c roots /\
  (forall p, files_get (c_files c) p = files_get (c_files (tables_of (c_name c) (c_fvers c) (c_dirs c) roots)) p) /\
  paths_nodup (c_dirs c) = true /\ forest_good roots /\ forest_stable c roots /\
  exists j, file_json w = Some j /\ cache_to_json c = Some j.
Proof.
  intros w H c roots. unfold all_checks in H. fold c in H. fold roots in H. cbv zeta in H.
  repeat (apply andb_true_iff in H; let H' := fresh "K" in destruct H as [H H']).
  assert (W : writable c roots).
  { unfold writable_b in H. unfold roots, forest. unfold writable.
    destruct (cache_forest c) as [r|]; [|discriminate H].
    repeat (apply andb_true_iff in H; let H' := fresh "L" in destruct H as [H H']). auto. }
  split; [exact W|]. split; [apply tables_perm_forest_b_sound; assumption|].
  split; [apply files_from_forest_b_sound; assumption|]. split; [assumption|].
  split; [apply forest_good_b_sound; assumption|]. split.
  - unfold forest_stable. destruct (cache_forest (read_back c roots)) as [r|]; [|discriminate].
    f_equal. apply all2_op_beq_eq. assumption.
  - destruct (file_json w) as [j|]; [|discriminate]. exists j. split; [reflexivity|].
    match goal with X : opt_same (Some j) _ = true |- _ => apply opt_same_eq in X; symmetry; exact X end.
Qed.

(* C16 for the caches these builds committed: the cache file on disk, read by
   Cache.read_immutable, gives [read_back] of the committed cache: same name,
   same created directories, versions JSON-equal, the forest record by record
   equivalent, file table related entry by entry; and a second write/read cycle
   returns the same cache again *)
Theorem committed_cache_roundtrip : forall w, In w [fst b1; fst b2; fst b3] ->
  let c := w_new w in let roots := forest c in let c' := read_back c roots in
  cache_of_json (file_json w) = ReadOk c' /\
  c_name c' = c_name c /\ c_dirs c' = c_dirs c /\ is_equal (c_fvers c) (c_fvers c') = true /\
  all2 op_equiv roots (map norm_op roots) = true /\ cache_forest c' = Some (map norm_op roots) /\
  (forall p, cache_get_file c' p = option_map norm_op (cache_get_file c p)) /\
  Permutation (c_files c') (map norm_fentry (c_files c)) /\
  Permutation (c_subs c') (map norm_sentry (c_subs c)) /\
  (exists j', cache_to_json c' = Some j' /\ cache_of_json (Some j') = ReadOk c').
Proof.
  intros w Hw c roots c'.
  assert (HC : all_checks w = true).
  { destruct Hw as [<-|[<-|[<-|[]]]]; [exact checks1 | exact checks2 | exact checks3]. }
  destruct (all_checks_sound w HC) as (W & TP & TF & ND & FG & ST & j & J1 & J2).
  fold c in W, TP, TF, ND, ST, J2. fold roots in W, TP, TF, FG, ST.
  destruct (write_read c roots W) as (j0 & E1 & E2).
  assert (j0 = j) by congruence. subst j0.
  destruct (read_back_fields c roots) as (F1 & F2 & F3 & F4). fold c' in F1, F2, F3, F4.
  destruct W as (Wf & Wr & Wd & Wv).
  destruct (read_back_tables c roots Wr) as [TB1 TB2]. fold c' in TB1, TB2. cbv zeta in TB1, TB2.
  destruct (read_back_perm c roots Wr TP) as [P1 P2]. fold c' in P1, P2.
  split; [rewrite J1; exact E2|]. split; [exact F1|].
  split; [rewrite F2; apply dedup_paths_nodup; exact ND|].
  split; [rewrite F3; apply norm_val_equal; exact Wv|].
  split; [apply forest_equivalent; exact Wr|]. split; [exact ST|]. split.
  - intro p. unfold cache_get_file. rewrite TB1, files_get_map_norm, <- TF.
    destruct (files_get (c_files c) p) as [[o|]|]; reflexivity.
  - split; [exact P1|]. split; [exact P2|].
    destruct (read_back_fixed_point c roots (conj Wf (conj Wr (conj Wd Wv))) FG) as (_ & _ & X). exact X.
Qed.

End CacheRTEx.
