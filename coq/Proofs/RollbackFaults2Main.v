(* Proofs/RollbackFaults2Main.v -- C14, directory half: when a build fails and every
   injected fault lies before the undo, NO DIRECTORY OF THE PRE-STATE IS LOST (statement (3)
   of rollback_leaves_nothing_new, now for any fault list before the undo):
   [rollback_keeps_dirs_faults].  Statement (2) (no new directory remains) is false in this
   setting: RollbackFaults2Ex.v.

   From RollbackFaults2Dirs.v: DF (D3 + W) holds when the undo starts.  Then, with no fault
   left: the undo removes only directories that are tracked or were made for the cache file
   and that the old cache did not record -- by W none of them was a directory of the
   pre-state; restoring the backups only adds directories; create_dirs makes every recorded
   directory of the pre-state again (shortest first, the regular files are back already).
   New file of round 3; edits nothing. *)
From Coq Require Import List String Ascii NArith ZArith Bool Arith Lia Sorted.
From FB.Base Require Import PyVal Fs.
From FB.Gen Require Import JsonUtilGen.
From FB.Spec Require Import Prog.
From FB.Model Require Import Types Monad CreatedFiles BuildDirs SimpleOps Builder Persist Build Run Frame.
From FB.Proofs Require RollbackDirsLaws RollbackDirsMain.
From FB.Proofs Require Import RollbackDirsBase RollbackDirsInv RollbackFaults2Dirs.
From FB.Proofs Require Import FsLemmas ReplayLaws FrameLaws RollbackFaultsLaws RollbackFaultsMain.
Import ListNotations.
Local Open Scope list_scope.

Definition isD (fs : fsT) (d : path) : Prop := lookup fs d = Some NDir.

(* ---- directories are never lost by: an effect that only adds, makedirs, replace ---- *)
Lemma effect_dmono : forall what p f w w' r,
  (forall fs fs', f fs = inl fs' -> forall q, isD fs q -> isD fs' q) ->
  effect what p f w = (w', r) -> forall q, isD (w_fs w) q -> isD (w_fs w') q.
Proof.
  intros what p f w w' r Hf H q Hq. unfold effect in H. cbv zeta in H.
  destruct (existsb (Nat.eqb (w_effects w)) (w_faults w)); [inversion H; subst; exact Hq|].
  cbn [w_fs set_effects] in H. destruct (f (w_fs w)) as [fs'|e] eqn:E; inversion H; subst; [|exact Hq].
  cbn [w_fs set_log set_fs set_effects]. exact (Hf _ _ E q Hq).
Qed.

Lemma effect_p_dmono : forall what p f w w' r,
  (forall fs fs' e, f fs = (fs', e) -> forall q, isD fs q -> isD fs' q) ->
  effect_p what p f w = (w', r) -> forall q, isD (w_fs w) q -> isD (w_fs w') q.
Proof.
  intros what p f w w' r Hf H q Hq. unfold effect_p in H. cbv zeta in H.
  destruct (existsb (Nat.eqb (w_effects w)) (w_faults w)); [inversion H; subst; exact Hq|].
  cbn [w_fs set_effects] in H. destruct (f (w_fs w)) as [fs' [e|]] eqn:E; inversion H; subst;
    cbn [w_fs set_log set_fs set_effects]; exact (Hf _ _ _ E q Hq).
Qed.

Lemma makedirs_p_dmono : forall d fs fs' e, makedirs_p fs d = (fs', e) -> forall q, isD fs q -> isD fs' q.
Proof.
  induction d as [|n d IH]; intros fs fs' e H q Hq; cbn [makedirs_p] in H.
  - destruct (lookup fs []) as [[g|]|]; inversion H; subst; exact Hq.
  - destruct (lookup fs (n :: d)) as [[g|]|]; try (inversion H; subst; exact Hq).
    destruct (makedirs_p fs d) as [fs1 [e1|]] eqn:E1; [inversion H; subst; exact (IH _ _ _ E1 q Hq)|].
    pose proof (IH _ _ _ E1 q Hq) as Hq1.
    destruct (mkdir fs1 (n :: d)) as [fs2|e2] eqn:E2; inversion H; subst; [|exact Hq1].
    apply mkdir_frame in E2. destruct E2 as (G1 & G2 & G3). unfold isD in *.
    destruct (path_eq_dec q (n :: d)) as [->|N]; [exact G1 | rewrite (G3 q N); exact Hq1].
Qed.

Lemma replace_in_dmono : forall fs p f fs', replace_in fs p f = inl fs' -> forall q, isD fs q -> isD fs' q.
Proof.
  intros fs p f fs' H q Hq. unfold isD in *.
  assert (Np : q <> p).
  { intro E. subst q. unfold replace_in in H. destruct p as [|n d]; [discriminate H|]. rewrite Hq in H. discriminate H. }
  rewrite (proj2 (replace_in_frame _ _ _ _ H) q Np). exact Hq.
Qed.

Lemma restore_one_dmono : forall x v v' r, restore_one x v = (v', r) -> forall q, isD (w_fs v) q -> isD (w_fs v') q.
Proof.
  intros [p f] v v' r H q Hq. unfold restore_one in H. unfold bind at 1, get in H.
  destruct (isdir (w_fs v) p); [inversion H; subst; exact Hq|].
  unfold catch in H.
  destruct (bind (effect_p "makedirs" (dirname p) (fun fs => makedirs_p fs (dirname p)))
                 (fun _ => effect "replace" p (fun fs => replace_in fs p f)) v) as [v1 [u|e]] eqn:E.
  - inversion H; subst v1 r; clear H.
    apply bind_inv in E. destruct E as [(v2 & u2 & E1 & E2) | (e & _ & Y)]; [|discriminate Y].
    apply (effect_dmono _ _ _ _ _ _ (fun fs fs' K => replace_in_dmono fs p f fs' K) E2).
    exact (effect_p_dmono _ _ _ _ _ _ (fun fs fs' e K => makedirs_p_dmono _ _ _ _ K) E1 q Hq).
  - assert (Hq1 : isD (w_fs v1) q).
    { apply bind_inv in E. destruct E as [(v2 & u2 & E1 & E2) | (e0 & E1 & _)].
      - apply (effect_dmono _ _ _ _ _ _ (fun fs fs' K => replace_in_dmono fs p f fs' K) E2).
        exact (effect_p_dmono _ _ _ _ _ _ (fun fs fs' e1 K => makedirs_p_dmono _ _ _ _ K) E1 q Hq).
      - exact (effect_p_dmono _ _ _ _ _ _ (fun fs fs' e1 K => makedirs_p_dmono _ _ _ _ K) E1 q Hq). }
    destruct (is_os e); inversion H; subst; exact Hq1.
Qed.

Lemma restore_loop_dmono : forall B v v' r, mapM_ restore_one B v = (v', r) -> forall q, isD (w_fs v) q -> isD (w_fs v') q.
Proof.
  induction B as [|x B IH]; intros v v' r H q Hq; cbn [mapM_] in H; [inversion H; subst; exact Hq|].
  apply bind_inv in H. destruct H as [(v1 & u & E1 & H) | (e & E1 & _)].
  - exact (IH _ _ _ H q (restore_one_dmono _ _ _ _ E1 q Hq)).
  - exact (restore_one_dmono _ _ _ _ E1 q Hq).
Qed.

(* ---- _remove_empty_dirs: only members of the list disappear (any faults) ---- *)
Lemma red_frame_any : forall L w w' r, mapM_ rmdir_step L w = (w', r) ->
  forall q, lookup (w_fs w') q = lookup (w_fs w) q \/ In q L.
Proof.
  induction L as [|x L IH]; intros w w' r H q; cbn [mapM_] in H; [inversion H; subst; left; reflexivity|].
  assert (St : forall w1 r1, rmdir_step x w = (w1, r1) -> lookup (w_fs w1) q = lookup (w_fs w) q \/ q = x).
  { intros w1 r1 E. unfold rmdir_step, catch in E.
    destruct (effect "rmdir" x (fun fs => rmdir fs x) w) as [w2 [u|e]] eqn:Ee.
    - inversion E; subst w2 r1. unfold effect in Ee. cbv zeta in Ee.
      destruct (existsb (Nat.eqb (w_effects w)) (w_faults w)); [discriminate Ee|].
      cbn [w_fs set_effects] in Ee. destruct (rmdir (w_fs w) x) as [fs'|e] eqn:Er; [|discriminate Ee].
      inversion Ee; subst. cbn [w_fs set_log set_fs set_effects].
      apply rmdir_frame in Er. destruct Er as (_ & _ & _ & _ & G5).
      destruct (path_eq_dec q x) as [->|N]; [right; reflexivity | left; apply G5; exact N].
    - assert (Ef : w_fs w2 = w_fs w).
      { unfold effect in Ee. cbv zeta in Ee.
        destruct (existsb (Nat.eqb (w_effects w)) (w_faults w)); [inversion Ee; reflexivity|].
        cbn [w_fs set_effects] in Ee. destruct (rmdir (w_fs w) x); inversion Ee; reflexivity. }
      destruct (is_os e); inversion E; subst; left; rewrite Ef; reflexivity. }
  apply bind_inv in H. destruct H as [(w1 & u & E1 & H) | (e & E1 & _)].
  - destruct (St _ _ E1) as [Y|Y]; [|right; left; symmetry; exact Y].
    destruct (IH _ _ _ H q) as [Z|Z]; [left; congruence | right; right; exact Z].
  - destruct (St _ _ E1) as [Y|Y]; [left; exact Y | right; left; symmetry; exact Y].
Qed.

Section Roll.

Variable fs0 : fsT.
Variable old : cache.
Variable cf : path.
Variable P : path -> Prop.
Variable Flt : list nat.

Hypothesis HypA : forall a t, Tgt old cf P t -> below a t = true -> notorig fs0 a /\ ~ P a.
Hypothesis Hwf : fs_wf fs0.
Hypothesis Hnames : forall p f, origfile fs0 p f -> path_ok p = true.
Hypothesis HE : forall d, In d (c_dirs old) -> path_ok d = true.

Notation RI := (RInv fs0 old cf P Flt).

(* ---- _create_dirs once the faults are behind ---- *)
Lemma caught_step_fp : forall what d f w w' r,
  catch (effect what d f) (fun e => if is_os e then ret tt else raise e) w = (w', r) -> fpassed w ->
  r = inl tt /\ fpassed w' /\
  (f (w_fs w) = inl (w_fs w') \/ (w_fs w' = w_fs w /\ exists e, f (w_fs w) = inr e)).
Proof.
  intros what d f w w' r H Hf. unfold catch in H. rewrite (effect_nofault' _ _ _ _ Hf) in H.
  destruct (f (w_fs w)) as [fs'|e] eqn:E.
  - inversion H; subst. split; [reflexivity|]. split; [|left; reflexivity].
    eapply fpassed_step; [exact Hf | reflexivity | cbn; lia].
  - cbn [is_os] in H. inversion H; subst. split; [reflexivity|]. split; [|right; split; [reflexivity | eauto]].
    eapply fpassed_step; [exact Hf | reflexivity | cbn; lia].
Qed.

Lemma create_loop_fp : forall l w w' r, mapM_ mkdir_step l w = (w', r) -> fpassed w ->
  r = inl tt /\ fpassed w' /\
  (forall q, lookup (w_fs w') q = lookup (w_fs w) q \/
             (In q l /\ lookup (w_fs w) q = None /\ lookup (w_fs w') q = Some NDir)).
Proof.
  induction l as [|x l IH]; intros w w' r H Hf; cbn [mapM_] in H.
  - inversion H; subst. repeat split; auto.
  - apply bind_inv in H. destruct H as [(w1 & u & E1 & H) | (e & E1 & _)].
    2:{ destruct (caught_step_fp _ _ _ _ _ _ E1 Hf) as (Y & _). discriminate Y. }
    destruct (caught_step_fp _ _ _ _ _ _ E1 Hf) as (_ & Hf1 & S1).
    destruct (IH _ _ _ H Hf1) as (R0 & R1 & R3).
    split; [exact R0|]. split; [exact R1|]. intro q.
    destruct S1 as [S1|(S1 & _)].
    + apply mkdir_frame in S1. destruct S1 as (G1 & G2 & G3).
      destruct (path_eq_dec q x) as [->|N].
      * right. split; [left; reflexivity|]. split; [exact G2|].
        destruct (R3 x) as [Y|(_ & Y & _)]; congruence.
      * destruct (R3 q) as [Y|(Y1 & Y2 & Y3)].
        -- left. rewrite Y. apply G3. exact N.
        -- right. split; [right; exact Y1|]. split; [rewrite <- (G3 q N); exact Y2 | exact Y3].
    + destruct (R3 q) as [Y|(Y1 & Y2 & Y3)].
      * left. congruence.
      * right. split; [right; exact Y1|]. split; [congruence | exact Y3].
Qed.

Lemma create_loop_want_fp : forall (Want : path -> Prop) l, StronglySorted shorter_first l ->
  forall w w' r, mapM_ mkdir_step l w = (w', r) -> fpassed w ->
  (forall d, In d l -> Want d ->
     d <> [] /\ path_ok d = true /\ (forall g, lookup (w_fs w) d <> Some (NFile g)) /\
     (lookup (w_fs w) (dirname d) = Some NDir \/ (In (dirname d) l /\ Want (dirname d)))) ->
  forall d, In d l -> Want d -> lookup (w_fs w') d = Some NDir.
Proof.
  intros Want l Hs. induction Hs as [|x l Hs IH Hx]; intros w w' r H Hf G d Hd Hwd; [destruct Hd|].
  cbn [mapM_] in H.
  apply bind_inv in H. destruct H as [(w1 & u & E1 & H) | (e & E1 & _)].
  2:{ destruct (caught_step_fp _ _ _ _ _ _ E1 Hf) as (Y & _). discriminate Y. }
  destruct (caught_step_fp _ _ _ _ _ _ E1 Hf) as (_ & Hf1 & S1).
  destruct (create_loop_fp _ _ _ _ H Hf1) as (_ & _ & R3).
  rewrite Forall_forall in Hx.
  assert (Keep : forall q, lookup (w_fs w1) q = Some NDir -> lookup (w_fs w') q = Some NDir).
  { intros q Hq. destruct (R3 q) as [Y|(_ & Y & _)]; congruence. }
  assert (Step : forall q, lookup (w_fs w1) q = lookup (w_fs w) q \/
                           (q = x /\ lookup (w_fs w) q = None /\ lookup (w_fs w1) q = Some NDir)).
  { intro q. destruct S1 as [S1|(S1 & _)]; [|left; congruence].
    apply mkdir_frame in S1. destruct S1 as (G1 & G2 & G3).
    destruct (path_eq_dec q x) as [->|N]; [right; auto | left; apply G3; exact N]. }
  assert (K : Want x -> lookup (w_fs w1) x = Some NDir).
  { intro Hwx. destruct (G x (or_introl eq_refl) Hwx) as (Q1 & Q2 & Q3 & Q4).
    destruct x as [|n dd]; [contradiction|]. cbn [dirname tl] in Q4.
    assert (Hpar : lookup (w_fs w) dd = Some NDir).
    { destruct Q4 as [Q4|([E|Q4] & _)]; [exact Q4 | exfalso; exact (cons_neq_self _ _ E) |].
      exfalso. apply Hx in Q4. unfold shorter_first in Q4. pose proof (plen_cons_lt n dd). lia. }
    cbn [path_ok forallb] in Q2. apply andb_true_iff in Q2. destruct Q2 as [Hn _].
    destruct (lookup (w_fs w) (n :: dd)) as [[g|]|] eqn:El.
    - exfalso. exact (Q3 g eq_refl).
    - destruct (Step (n :: dd)) as [Y|(_ & Y & _)]; congruence.
    - destruct S1 as [S1|(_ & e & S1)].
      + apply mkdir_frame in S1. destruct S1 as (G1 & _). exact G1.
      + rewrite (RollbackDirsMain.mkdir_ok _ _ _ El Hpar Hn) in S1. discriminate S1. }
  destruct Hd as [<-|Hd]; [apply Keep, K, Hwd|].
  apply (IH _ _ _ H Hf1); [|exact Hd | exact Hwd].
  intros q Hq Hwq. destruct (G q (or_intror Hq) Hwq) as (Q1 & Q2 & Q3 & Q4).
  split; [exact Q1|]. split; [exact Q2|]. split.
  - intros g Y. destruct (Step q) as [Z|(_ & _ & Z)]; [rewrite Z in Y; exact (Q3 g Y) | congruence].
  - destruct Q4 as [Q4|([E|Q4] & Q5)].
    + left. destruct (Step (dirname q)) as [Z|(_ & Z & _)]; congruence.
    + left. rewrite <- E. apply K. rewrite E. exact Q5.
    + right. split; assumption.
Qed.

(* ---- the undo ---- *)
Lemma restore_loop_ok : forall B v v' r, mapM_ restore_one B v = (v', r) ->
  (forall p f, In (p, f) B -> origfile fs0 p f) -> Rst fs0 B v -> r = inl tt /\ Rst fs0 [] v'.
Proof.
  induction B as [|[p f] B IH]; intros v v' r H HB HR; cbn [mapM_] in H.
  - inversion H; subst. split; [reflexivity | exact HR].
  - assert (Ho : origfile fs0 p f) by (apply HB; left; reflexivity).
    apply bind_inv in H. destruct H as [(v1 & u & E1 & H) | (e & E1 & _)].
    + destruct (restore_one_ok fs0 Hwf Hnames _ _ _ _ _ _ E1 Ho HR) as (_ & HR1).
      apply (IH _ _ _ H); [|exact HR1]. intros q g Hq. apply HB. right. exact Hq.
    + destruct (restore_one_ok fs0 Hwf Hnames _ _ _ _ _ _ E1 Ho HR) as (Y & _). discriminate Y.
Qed.

Theorem roll_back_keeps_dirs : forall ccd w w' r, roll_back ccd w = (w', r) -> RI w -> fpassed w ->
  DF fs0 old ccd w -> forall d, isD fs0 d -> isD (w_fs w') d.
Proof.
  intros ccd w w' r H Hinv A HD. unfold roll_back in H. unfold bind at 1, get in H. cbv zeta in H.
  pose proof Hinv as (_ & Bold & _).
  set (L := filter (fun d => negb (mem_path d (c_dirs (w_old w))))
              (union_paths (union_paths [] (bd_created (w_bd w) ++ ccd)) (bd_err_created (w_bd w)))) in *.
  assert (HL : forall d, In d L -> (tracked (w_bd w) d \/ In d ccd) /\ ~ In d (c_dirs old)).
  { intros d Hd. subst L. rewrite filter_In, !In_union_paths, in_app_iff, Bold in Hd. unfold tracked. cbn [In] in Hd.
    destruct Hd as (Y & Z). rewrite negb_true_iff in Z. split; [tauto|]. intro K. apply mem_path_In in K. congruence. }
  assert (HI4 : files_in fs0 (c_built (w_new w)) w).
  { destruct Hinv as (_ & _ & _ & _ & _ & _ & I4 & _). exact I4. }
  (* phase 1 *)
  apply bind_inv in H. destruct H as [(w1 & u1 & E1 & H) | (e & E1 & _)].
  2:{ destruct (remove_built_phase fs0 old cf P Flt _ _ _ _ E1 Hinv A) as (Y & _); [auto | exact HI4 | discriminate Y]. }
  destruct (remove_built_phase fs0 old cf P Flt _ _ _ _ E1 Hinv A) as (_ & Hinv1 & J1 & A1); [auto | exact HI4 |].
  assert (K1 : dkeep w w1).
  { refine ((_ : pres dkeepPO _) _ _ _ E1). apply pres_mapM_. intro. apply try_to_remove_file_dkeep. }
  pose proof (dkeep_DF fs0 old ccd _ _ K1 HD) as [D3 DW]. destruct K1 as (Hb1 & _ & _). rewrite Hb1 in DW.
  (* phase 2 *)
  apply bind_inv in H. destruct H as [(w2 & u2 & E2 & H) | (e & E2 & _)];
    [|exfalso; exact (remove_empty_dirs_no_raise _ _ _ _ E2)].
  assert (T0 : forall v, tcond None v) by (intros v q Y; discriminate Y).
  destruct (remove_empty_dirs_T fs0 old cf P Flt None _ _ _ _ E2 Hinv1 (T0 _)) as [Hinv2 _].
  pose proof (remove_empty_dirs_files fs0 cf P _ _ _ _ E2) as S2.
  pose proof (mono_fpassed _ _ (remove_empty_dirs_mono _ _ _ _ E2) A1) as A2.
  assert (J2 : files_in fs0 [] w2).
  { intros q g Hq. apply J1. apply S2. exact Hq. }
  rewrite remove_empty_dirs_eq in E2.
  assert (L2 : forall d, isD fs0 d -> isD (w_fs w2) d \/ In d (c_dirs old)).
  { intros d Hd. destruct (D3 d Hd) as [Y|Y]; [|right; exact Y].
    destruct (red_frame_any _ _ _ _ E2 d) as [Z|Z]; [left; unfold isD; congruence|].
    unfold sort_longest_first in Z. apply In_sort_by' in Z. destruct (HL d Z) as (Z1 & Z2).
    assert (Hw : Wp fs0 old d).
    { apply DW. destruct Z1 as [[Z1|Z1]|Z1]; auto. left; left; exact Z1. left; right; exact Z1. }
    destruct Hw as [Hw|Hw]; [right; exact Hw | contradiction]. }
  (* phase 3 *)
  assert (R3 : exists w3, restore_all w2 = (w3, inl tt) /\ Rst fs0 [] w3 /\ (forall q, isD (w_fs w2) q -> isD (w_fs w3) q)).
  { destruct (restore_all w2) as [w3 r3] eqn:E3. unfold restore_all in E3. unfold bind at 1, get in E3.
    apply bind_inv in E3. destruct E3 as [(w4 & u4 & E4 & E3) | (e & E4 & _)]; [|discriminate E4].
    unfold put in E4. inversion E4; subst w4; clear E4.
    destruct Hinv2 as (_ & _ & _ & I1 & I2 & _ & _ & _ & I6).
    assert (HR : Rst fs0 (w_backups w2) (set_backups [] w2)).
    { unfold Rst. cbn [w_fs set_backups]. split; [exact A2|]. split; [|split; [exact I6 | exact I1]].
      intros q g Hq. destruct (J2 q g Hq) as [Y|[]]. exact Y. }
    destruct (restore_loop_ok _ _ _ _ E3 I2 HR) as (-> & HR3).
    exists w3. split; [reflexivity|]. split; [exact HR3|].
    intros q Hq. exact (restore_loop_dmono _ _ _ _ E3 q Hq). }
  destruct R3 as (w3 & E3 & (A3 & Q2 & _ & _) & G3).
  apply bind_inv in H. rewrite E3 in H. destruct H as [(w3' & u3 & E3' & H) | (e & E3' & _)]; [|discriminate E3'].
  inversion E3'; subst w3' u3; clear E3'.
  (* phase 4 *)
  rewrite create_dirs_eq in H.
  destruct (create_loop_fp _ _ _ _ H A3) as (_ & _ & C3).
  assert (G4 : forall q, isD (w_fs w3) q -> isD (w_fs w') q).
  { intros q Hq. unfold isD in *. destruct (C3 q) as [Y|(_ & Y & _)]; congruence. }
  intros d Hd. destruct (L2 d Hd) as [Y|Y]; [apply G4, G3, Y|].
  destruct d as [|n dd]; [reflexivity|].
  apply (create_loop_want_fp (fun q => isD fs0 q /\ q <> []) _ (sort_shortest_sorted _) _ _ _ H A3);
    [| unfold sort_shortest_first; apply In_sort_by'; rewrite Bold; exact Y | split; [exact Hd | discriminate]].
  intros q Hq (Hq1 & Hq2). unfold sort_shortest_first in Hq. apply In_sort_by' in Hq. rewrite Bold in Hq.
  split; [exact Hq2|]. split; [apply HE; exact Hq|]. split.
  - intros g Z. apply Q2 in Z. unfold origfile, isD in *. congruence.
  - assert (Hpar : isD fs0 (dirname q)) by exact (Hwf _ _ Hq1).
    destruct (L2 _ Hpar) as [Z|Z]; [left; apply G3; exact Z|].
    destruct (dirname q) as [|m q'] eqn:Eq; [left; reflexivity|].
    right. split; [unfold sort_shortest_first; apply In_sort_by'; rewrite Bold; exact Z|].
    split; [exact Hpar | discriminate].
Qed.

End Roll.

(* ================================================================== *)
(* The build                                                           *)
(* ================================================================== *)

Section Accept.

Variable fs0 : fsT.
Variable old : cache.
Variable cf : path.
Variable P : path -> Prop.
Variable Flt : list nat.

Hypothesis HypA : forall a t, Tgt old cf P t -> below a t = true -> notorig fs0 a /\ ~ P a.
Hypothesis Hwf : fs_wf fs0.
Hypothesis Hnames : forall p f, origfile fs0 p f -> path_ok p = true.
Hypothesis HE : forall d, In d (c_dirs old) -> path_ok d = true.

Notation RI := (RInv fs0 old cf P Flt).

Lemma DF_start : forall w nm svers, fs0 = w_fs w -> DF fs0 old [] (start_world w cf old nm svers).
Proof.
  intros w nm svers Hfs. unfold DF, start_world, tracked, bd_init.
  cbn [w_fs w_bd bd_created bd_err_created bd_removed bd_maybe].
  rewrite <- Hfs. split; [auto|].
  intros d [[[]|[]]|[[]|[Hd|[]]]]. apply In_fold_add_path in Hd. destruct Hd as [[]|Hd]. left. exact Hd.
Qed.

Lemma rollback_case_dirs : forall ccd e wx w' e0,
  match roll_back ccd wx with
  | (w', inl _) => (w', Done (inr e))
  | (w', inr e') => (w', Done (inr e'))
  end = (w', Done (inr e0)) ->
  RI wx -> fpassed wx -> DF fs0 old ccd wx -> forall d, isD fs0 d -> isD (w_fs w') d.
Proof.
  intros ccd e wx w' e0 H Hinv A HD. destruct (roll_back ccd wx) as [wr [u|e']] eqn:ER; inversion H; subst;
    eapply (roll_back_keeps_dirs fs0 old cf P Flt Hwf Hnames HE); eauto.
Qed.

Lemma m_accept_dirs_faults : forall nm svers pr w w' e,
  fs0 = w_fs w -> w_faults w = Flt -> AllTargets P pr ->
  m_accept cf nm svers (fun w0 => run pr None [] w0) w old = (w', Done (inr e)) ->
  exists ccd wx, undo_entry cf nm svers (fun w0 => run pr None [] w0) w old = Some (ccd, wx) /\ w_faults wx = Flt /\
    (fpassed wx -> forall d, isD fs0 d -> isD (w_fs w') d).
Proof.
  intros nm svers pr w w' e Hfs Hf Hat H. unfold m_accept in H. unfold undo_entry. cbv zeta in H |- *.
  assert (Hroot : pres (RPOt fs0 old cf P Flt None) (fun w0 => run pr None [] w0)).
  { exact (run_T fs0 old cf P Flt HypA pr Hat None []). }
  pose proof (RInv_start fs0 old cf P Flt w nm svers Hfs Hf) as Hinv0.
  pose proof (DF_start w nm svers Hfs) as HD0.
  assert (T0 : forall v, tcond None v) by (intros v q X; discriminate X).
  assert (Tcf : Tgt old cf P cf) by (right; left; reflexivity).
  destruct (make_dirs (dirname cf) (start_world w cf old nm svers)) as [w1 [ccd|e1]] eqn:E1;
    destruct (make_dirs_T fs0 old cf P Flt HypA None cf Tcf _ _ _ E1 Hinv0 (T0 _)) as [Hinv1 _];
    destruct (make_dirs_DF fs0 old [] _ _ _ _ E1 HD0) as [HD1 Hccd].
  2:{ exists [], w1. split; [reflexivity|]. split; [exact (proj1 Hinv1)|]. intro A. eapply rollback_case_dirs; eauto. }
  assert (HD1' : DF fs0 old ccd w1) by (apply (DF_weaken fs0 old [] ccd w1 HD1); exact (Hccd ccd eq_refl)).
  match type of H with (let '(_, _) := ?Z in _) = _ => destruct Z as [w2 [res x]] eqn:E2 end.
  assert (Hinv2 : RI w2).
  { refine (proj1 (Hroot _ _ _ E2 _ (T0 _))). eapply RInv_ext; eauto. }
  assert (HD2 : DF fs0 old ccd w2).
  { refine (run_DF fs0 old ccd pr None [] _ _ _ E2 _). apply (DF_same fs0 old ccd w1); [reflexivity | reflexivity | exact HD1']. }
  destruct res as [v|e2].
  2:{ exists ccd, w2. split; [reflexivity|]. split; [exact (proj1 Hinv2)|]. intro A. eapply rollback_case_dirs; eauto. }
  destruct (bd_pre cf ccd w2) as [w3 [err|e3]] eqn:E3; destruct (bd_pre_inv fs0 old cf P Flt _ _ _ _ E3 Hinv2) as [Hinv3 Hnf];
    pose proof (dkeep_DF fs0 old ccd _ _ (RollbackDirsMain.bd_pre_dkeep cf ccd _ _ _ E3) HD2) as HD3.
  2:{ exists ccd, w3. split; [reflexivity|]. split; [exact (proj1 Hinv3)|]. intro A. eapply rollback_case_dirs; eauto. }
  destruct (write_cache w3) as [w4 [u4|e4]] eqn:E4.
  - destruct (commit err w4) as [w5 [u5|e5]] eqn:E5; [discriminate H|].
    exfalso. eapply commit_no_raise; [|exact E5].
    destruct Hinv3 as (_ & B & C & _). destruct (write_cache_only_cf cf _ _ _ C E4) as (_ & Y & _).
    rewrite Y, B. exact HE.
  - destruct (try_to_remove_file cf w4) as [w5 r5] eqn:E5.
    exists ccd, w4. split; [reflexivity|]. split.
    { destruct Hinv3 as (A3 & _ & C & _). destruct (write_cache_only_cf cf _ _ _ C E4) as (Y & _). congruence. }
    intro A. destruct (write_cache_fail_T fs0 old cf P Flt _ _ _ _ _ E4 E5 Hinv3 (Hnf _ eq_refl) A) as [Hinv5 A5].
    assert (HD5 : DF fs0 old ccd w5).
    { apply (dkeep_DF fs0 old ccd w4 w5 (try_to_remove_file_dkeep cf _ _ _ E5)).
      exact (dkeep_DF fs0 old ccd w3 w4 (write_cache_dkeep _ _ _ E4) HD3). }
    eapply rollback_case_dirs; eauto.
Qed.

End Accept.

(* C14, directories: no directory of the pre-state is lost, whatever faults were injected
   before the undo *)
Theorem rollback_keeps_dirs_faults : forall cf nm vers svers root w w' e (P : path -> Prop),
  sanitize vers = Some svers ->
  AllTargets P root ->
  (* C *)
  fs_wf (w_fs w) ->
  (* D *)
  (forall p f, lookup (w_fs w) p = Some (NFile f) -> path_ok p = true) ->
  (* A *)
  (forall a t, (P t \/ t = cf \/ In t (cache_targets (old_cache_of (w_fs w) cf nm svers))) ->
     below a t = true -> (forall f, lookup (w_fs w) a <> Some (NFile f)) /\ ~ P a) ->
  (* E *)
  (forall d, In d (c_dirs (old_cache_of (w_fs w) cf nm svers)) -> path_ok d = true) ->
  run_build cf nm vers root w = (w', Done (inr e)) ->
  exists ccd wx,
    undo_entry cf nm svers (fun w0 => run root None [] w0) w (old_cache_of (w_fs w) cf nm svers) = Some (ccd, wx) /\
    ((* every injected fault lies before the undo *)
     (forall n, In n (w_faults w) -> n < w_effects wx) ->
     forall d, isdir (w_fs w) d = true -> isdir (w_fs w') d = true).
Proof.
  intros cf nm vers svers root w w' e P Hsv Hat Hwf Hnames HA HE H.
  set (old := old_cache_of (w_fs w) cf nm svers) in *.
  unfold run_build in H.
  destruct (m_build cf nm vers (fun w0 => run root None [] w0) w) as [w1 r1] eqn:E.
  inversion H; subst w' r1; clear H.
  change (w_fs (end_build w1)) with (w_fs w1).
  assert (G : forall old0, old0 = old -> m_accept cf nm svers (fun w0 => run root None [] w0) w old0 = (w1, Done (inr e)) ->
    exists ccd wx, undo_entry cf nm svers (fun w0 => run root None [] w0) w old0 = Some (ccd, wx) /\
      ((forall n, In n (w_faults w) -> n < w_effects wx) ->
       forall d, isdir (w_fs w) d = true -> isdir (w_fs w1) d = true)).
  { intros old0 -> X.
    destruct (m_accept_dirs_faults (w_fs w) old cf P (w_faults w) HA Hwf Hnames HE nm svers root w w1 e eq_refl eq_refl Hat X)
      as (ccd & wx & U1 & U2 & U3).
    exists ccd, wx. split; [exact U1|]. intros Hp d Hd.
    apply isdir_lookup. apply U3; [|apply isdir_lookup; exact Hd].
    intros n Hn. rewrite U2 in Hn. apply Hp. exact Hn. }
  rewrite m_build_unfold, Hsv in E. subst old. unfold old_cache_of in G |- *.
  destruct (lookup (w_fs w) cf) as [[g|]|].
  - destruct (cache_of_json (f_json g)) as [old0| |]; try discriminate E.
    destruct (String.eqb (c_name old0) nm); [|discriminate E]. exact (G old0 eq_refl E).
  - discriminate E.
  - exact (G _ eq_refl E).
Qed.

Print Assumptions roll_back_keeps_dirs.
Print Assumptions rollback_keeps_dirs_faults.
