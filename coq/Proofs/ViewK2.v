(* Proofs/ViewK2.v — C04, the link to Core, part 2.

   1. [sim_run_statement] of ViewK1.v ("mechanism run and core_run: same outcome, same
      records, Sim kept") is FALSE as stated: Model/Core.v keeps the bytes written by a
      build_file function aside (pending) and writes the target when the function has
      returned, with the clock and the next inode number of that moment; the mechanism
      model (like the package) writes when the function writes.  A function that writes
      its target and THEN builds another file gets another modification time (hence
      another METADATA comparison result in its record) and another inode number.
      [sim_run_statement_false] refutes the statement on the empty tree, first build.
   2. The corrected statement: for programs in which a write is the last thing a
      build_file function does that advances the clock (WriteLast), with the relation
      Sim2 (Sim + subbuild claims + records).  Stated, with its decomposition into steps. *)
From Coq Require Import List String Ascii NArith ZArith Bool Arith Lia.
From FB.Base Require Import PyVal Fs.
From FB.Gen Require Import JsonUtilGen.
From FB.Spec Require Import Prog Ref.
From FB.Model Require Import Types Monad CreatedFiles BuildDirs SimpleOps Builder Persist Build Run Dsl Core.
From FB.Proofs Require Import FsLemmas ReplayLaws ViewDefs ViewLemmas ViewInit ViewXDefs ViewXFail ViewXReach ViewK1.
Import ListNotations.
Open Scope list_scope.

Module Refute.
  Open Scope string_scope.
  Definition CF : path := ["cache"].
  Definition old0 : cache := empty_cache "n" (PDict []).
  Definition inner : prog := Write "y" (Ret PNone).
  Definition outer : prog :=
    Write "x" (BuildFile false ["b"] METADATA "g" PNone PNone (fun _ _ _ => inner) (fun _ => Ret PNone)).
  Definition root : prog :=
    BuildFile false ["a"] METADATA "f" PNone PNone (fun _ _ _ => outer) (fun _ => Ret PNone).

  Definition w0 : world := start_world init_world CF old0 "n" (PDict []).
  Definition s0 : kstate :=
    {| k_fs := []; k_stale := []; k_staledirs := []; k_claimedF := []; k_claimedS := []; k_need := []; k_made := [];
       k_clock := 0; k_nextid := 1; k_log := []; k_cachefile := CF; k_old := old0; k_vers := PDict [];
       k_newF := []; k_newS := [] |}.

  Lemma view0 : view_fs w0 = [].
  Proof. vm_compute. reflexivity. Qed.

  Lemma sim0 : Sim w0 s0.
  Proof.
    constructor; try reflexivity; intro p; try (rewrite view0); reflexivity.
  Qed.

  Lemma old_ok0 : old_ok old0 CF.
  Proof.
    constructor.
    - constructor.
    - intros [].
    - intros a d _ [].
  Qed.

  Lemma rinv0 : RInv [] w0.
  Proof.
    apply RInv_start_world; [|apply old_ok0|reflexivity].
    intros p n H. destruct p as [|x p]; [reflexivity|]. cbn in H. discriminate.
  Qed.

  (* the records of the two runs: the comparison result of "a" differs (timeNs 1 / 2) *)
  Example records_differ :
    snd (snd (run root None [] w0)) <> snd (snd (core_run root None None [] s0)).
  Proof. vm_compute. intro H. discriminate H. Qed.

  (* and so do the trees: modification time and inode number of "a" *)
  Example trees_differ :
    lookup (w_fs (fst (run root None [] w0))) ["a"] <> lookup (k_fs (fst (core_run root None None [] s0))) ["a"].
  Proof. vm_compute. intro H. discriminate H. Qed.
End Refute.

Theorem sim_run_statement_false : ~ sim_run_statement.
Proof.
  intro H. unfold sim_run_statement in H.
  destruct (run Refute.root None [] Refute.w0) as [w' [r l]] eqn:E1.
  destruct (core_run Refute.root None None [] Refute.s0) as [s' [[r' pend'] l']] eqn:E2.
  destruct (H [] Refute.w0 Refute.s0 Refute.root [] w' r l s' r' pend' l' Refute.sim0 Refute.rinv0 E1 E2) as (_ & _ & K).
  pose proof Refute.records_differ as D. rewrite E1, E2 in D. cbn [snd] in D. apply D. exact K.
Qed.

(* ------------------------------------------------------------------ the query steps of the simulation *)
(* programs that only ask (creatable paths, no read), return or raise; a write outside a
   build_file function is a no-op on both sides *)
Inductive QOnly : prog -> Prop :=
| QO_Ret : forall v, QOnly (Ret v)
| QO_Raise : forall e, QOnly (Raise e)
| QO_Ask : forall s q k, path_ok (spec_query_path q) = true -> (forall p c, q <> QRead p c) ->
    (forall o, QOnly (k o)) -> QOnly (Ask s q k)
| QO_Write : forall c k, QOnly k -> QOnly (Write c k).

Lemma spec_query_path_eq : forall q, query_path q = spec_query_path q.
Proof. intros []; reflexivity. Qed.

Theorem sim_run_queries : forall pr, QOnly pr ->
  forall T w s subs pend w' r l s' r' pend' l',
    Sim w s -> RInv T w -> maxlen (w_fs w) < walk_fuel ->
    run pr None subs w = (w', (r, l)) -> core_run pr None pend subs s = (s', (r', pend', l')) ->
    Sim w' s' /\ r = r' /\ l = l' /\ pend' = pend /\ RInv T w' /\ w_fs w' = w_fs w.
Proof.
  intros pr HQ. induction HQ as [v|e|st q k Hp Hnr Hk IH|c k Hk IH];
    intros T w s subs pend w' r l s' r' pend' l' HS HR Hml H1 H2; cbn [run core_run] in H1, H2.
  - inversion H1; inversion H2; subst. split; [assumption|]. split; [reflexivity|]. split; [reflexivity|]. split; [reflexivity|]. split; [assumption|reflexivity].
  - inversion H1; inversion H2; subst. split; [assumption|]. split; [reflexivity|]. split; [reflexivity|]. split; [reflexivity|]. split; [assumption|reflexivity].
  - destruct st; [eapply IH; eassumption|].
    destruct (m_query q w) as [w1 [r1 o]] eqn:E.
    destruct (sim_query T w s q w1 r1 o HS HR Hp) as (Ho & Hv & Hc & Hview & HR1 & N1 & C1 & I1 & L1); [| |exact E|].
    { intros p td _ _. lia. }
    { intros p c Hq. exfalso. apply (Hnr p c Hq). }
    assert (F1: w_fs w1 = w_fs w) by (apply (m_query_svb _ _ _ _ E)).
    subst o. cbn [app_op] in H1.
    assert (Hstep: forall a lg, user_answer q r1 w1 = a ->
              (forall w2, w2 = log_answer q a w1 ->
               Sim w2 (klog lg s) -> RInv T w2 -> maxlen (w_fs w2) < walk_fuel -> w_fs w2 = w_fs w ->
               run (k a) None (subs ++ [record_of q (record_answer (k_fs s) q)]) w2 = (w', (r, l)) ->
               core_run (k a) None pend (subs ++ [record_of q (record_answer (k_fs s) q)]) (klog lg s) = (s', (r', pend', l')) ->
               Sim w' s' /\ r = r' /\ l = l' /\ pend' = pend /\ RInv T w' /\ w_fs w' = w_fs w)).
    { intros a lg Ha w2 Ew2 S2 R2 M2 F2 X1 X2.
      destruct (IH a T w2 (klog lg s) _ pend w' r l s' r' pend' l' S2 R2 M2 X1 X2) as (A1 & A2 & A3 & A4 & A5 & A6).
      split; [exact A1|]. split; [exact A2|]. split; [exact A3|]. split; [exact A4|]. split; [exact A5|congruence]. }
    assert (Hsim: forall lg, Sim (set_log (lg :: w_log w1) w1) (klog lg s)).
    { intro lg. destruct HS as [S1 S2 S3 S4 S5 S6 S7]. constructor; cbn [klog ks_with k_fs k_cachefile k_old k_claimedF k_clock k_nextid k_log
                                                                          w_cachefile w_old w_new w_clock w_nextid w_log set_log].
      - intro p. exact (Hview p).
      - pose proof (m_query_svb _ _ _ _ E) as (_ & _ & _ & _ & _ & _ & _ & A8 & _). congruence.
      - pose proof (m_query_svb _ _ _ _ E) as (_ & _ & _ & A4 & _). congruence.
      - intro p. rewrite N1. apply S4.
      - congruence.
      - congruence.
      - congruence. }
    assert (HRl: forall lg, RInv T (set_log (lg :: w_log w1) w1)).
    { intro lg. eapply ViewXRun.RInv_fields; [exact HR1|..]; reflexivity. }
    destruct (spec_answer (k_fs s) q) as [v|c] eqn:Esp.
    + pose proof (Hv v eq_refl Hnr) as ->.
      assert (Hua: user_answer q (inl v) w1 = inl v).
      { unfold user_answer. cbn [canon_err]. destruct q; try reflexivity. exfalso. eapply Hnr. reflexivity. }
      rewrite Hua in H1. cbn [log_answer] in H1.
      apply (Hstep (inl v) (LAnswer q (inl v)) Hua _ eq_refl (Hsim _) (HRl _)); cbn [log_answer w_fs set_log]; try assumption; congruence.
    + pose proof (Hc c eq_refl) as ->.
      assert (Hua: user_answer q (inr (XOS c)) w1 = inr (XOS c)).
      { unfold user_answer. cbn [canon_err]. rewrite spec_query_path_eq, Hp. destruct q; reflexivity. }
      rewrite Hua in H1. cbn [log_answer] in H1.
      apply (Hstep (inr (XOS c)) (LAnswer q (inr c)) Hua _ eq_refl (Hsim _) (HRl _)); cbn [log_answer w_fs set_log]; try assumption; congruence.
  - eapply IH; eassumption.
Qed.

(* ------------------------------------------------------------------ the corrected statement *)
(* a write is the last thing a build_file function does *)
Inductive WriteLast : prog -> Prop :=
| WL_Ret : forall v, WriteLast (Ret v)
| WL_Raise : forall e, WriteLast (Raise e)
| WL_Ask : forall s q k, (forall o, WriteLast (k o)) -> WriteLast (Ask s q k)
| WL_Write : forall c k, (exists v, k = Ret v) \/ (exists e, k = Raise e) -> WriteLast (Write c k)
| WL_BuildFile : forall s p c f a kw fn k,
    (forall p' a' k', WriteLast (fn p' a' k')) -> (forall o, WriteLast (k o)) -> WriteLast (BuildFile s p c f a kw fn k)
| WL_Subbuild : forall s f a kw fn k,
    (forall a' k', WriteLast (fn a' k')) -> (forall o, WriteLast (k o)) -> WriteLast (Subbuild s f a kw fn k).

(* Sim, the claims of subbuild keys, and the records of this build *)
Record Sim2 (w : world) (s : kstate) : Prop := {
  s2_sim : Sim w s;
  s2_claimsS : forall k, existsb (py_eq k) (k_claimedS s) = cache_has_subbuild (w_new w) k;
  s2_recF : forall p o, cache_get_file (w_new w) p = Some o <-> In (p, o) (k_newF s);
  s2_recS : forall k o, subs_get (c_subs (w_new w)) k = Some (Some o) <->
                        exists k', py_eq k k' = true /\ In (k', o) (k_newS s)
}.

(* mechanism and Core: same outcome, same records of the caller, Sim2 kept; for write-last
   programs with creatable shallow targets, queries on creatable paths, no read *)
Definition sim_run2_statement : Prop :=
  forall T w s pr subs w' r l s' r' pend' l',
    WriteLast pr -> Sim2 w s -> RInv T w -> maxlen (w_fs w) < walk_fuel ->
    run pr None subs w = (w', (r, l)) -> core_run pr None None subs s = (s', (r', pend', l')) ->
    Sim2 w' s' /\ r = r' /\ l = l'.

Print Assumptions sim_run_statement_false.
Print Assumptions sim_run_queries.
