(* Proofs/CoreRebuild2.v — a run of Core as a derivation ([Run]: one constructor per way a node of
   the program can go, with the records it appends), a successful replay of clean records as a
   derivation ([RepL]), and the correspondence with [core_run] / [kreplay_list].  All later
   inductions are inductions on these derivations. *)
From Coq Require Import List String Ascii NArith ZArith Bool Arith Lia.
From FB.Base Require Import PyVal Fs.
From FB.Gen Require Import JsonUtilGen.
From FB.Spec Require Import JsonSpec Prog Ref Oracle Faithful.
From FB.Model Require Import Types SimpleOps Builder Persist Core CoreOracle CoreCache.
From FB.Proofs Require Import FsLemmas CleanLaws CoreLawsChildren CoreLaws1 CoreLaws2 CoreLaws3 CoreLaws4
     CoreRebuildDefs CoreRebuild1.
Import ListNotations.
Local Open Scope list_scope.

Definition ans_out (a : pyval + errclass) : outcome :=
  match a with inl v => inl v | inr c => inr (XOS c) end.

(* a call that is refused before anything is looked at *)
Definition call_skip (st : bool) (a kw : pyval) : option exn :=
  if st then Some (XRuntime RFinished) else
  match sanitize a, sanitize kw with Some _, Some _ => None | _, _ => Some XType end.

Definition bf_setup (s : kstate) (p : path) : (fsT * list path) + exn :=
  match claim_check (k_claimedF s) (k_cachefile s) p with
  | Some e => inr e
  | None => setup_fs (k_fs s) (k_cachefile s) p
  end.

Definition core_done (s2 : kstate) (fs3 : fsT) (p : path) (o : op) : kstate :=
  ks_with s2 fs3 (k_stale s2) (k_claimedF s2) (k_claimedS s2) (k_need s2) (k_made s2)
          (k_clock s2) (N.succ (k_nextid s2)) (k_log s2) (k_newF s2 ++ [(p, o)]) (k_newS s2).

Inductive Run : prog -> option path -> option string -> kstate -> kstate -> outcome -> option string -> list op -> Prop :=
| R_Ret : forall v tgt pend s, Run (Ret v) tgt pend s s (inl v) pend []
| R_Raise : forall e tgt pend s, Run (Raise e) tgt pend s s (inr e) pend []
| R_AskStale : forall q k tgt pend s s' out pend' new,
    Run (k (inr (XRuntime RFinished))) tgt pend s s' out pend' new ->
    Run (Ask true q k) tgt pend s s' out pend' new
| R_Ask : forall q k tgt pend s s' out pend' new,
    Run (k (ans_out (spec_answer (k_fs s) q))) tgt pend (klog (LAnswer q (spec_answer (k_fs s) q)) s) s' out pend' new ->
    Run (Ask false q k) tgt pend s s' out pend' (record_of q (record_answer (k_fs s) q) :: new)
| R_WriteNone : forall c k pend s s' out pend' new,
    Run k None pend s s' out pend' new -> Run (Write c k) None pend s s' out pend' new
| R_WriteOk : forall c k p pend s s' out pend' new,
    path_ok p = true -> Run k (Some p) (Some c) (ktick s) s' out pend' new ->
    Run (Write c k) (Some p) pend s s' out pend' new
| R_WriteBad : forall c k p pend s,
    path_ok p = false -> Run (Write c k) (Some p) pend s s (inr (XOS XOSError)) pend []
| R_BFSkip : forall st p c fname a kw fn k e tgt pend s s' out pend' new,
    call_skip st a kw = Some e ->
    Run (k (inr e)) tgt pend s s' out pend' new ->
    Run (BuildFile st p c fname a kw fn k) tgt pend s s' out pend' new
| R_BFSetupFail : forall p c fname a kw fn k sa skw e tgt pend s s' out pend' new,
    sanitize a = Some sa -> sanitize kw = Some skw ->
    bf_setup s p = inr e ->
    Run (k (inr e)) tgt pend s s' out pend' new ->
    Run (BuildFile false p c fname a kw fn k) tgt pend s s' out pend'
        (OBuildFile p c fname sa skw [] PNone PNone true true :: new)
| R_BFHit : forall p c fname a kw fn k sa skw fs1 dirs f subs1 ret1 r tgt pend s s' out pend' new,
    sanitize a = Some sa -> sanitize kw = Some skw ->
    bf_setup s p = inl (fs1, dirs) ->
    core_hit s (core_s0 s p fs1 dirs) p fname sa skw = Some (f, subs1, ret1, r) ->
    Run (k (inl ret1)) tgt pend
        (core_put (adopt (core_s0 s p fs1 dirs) r (OBuildFile p c fname sa skw subs1 ret1 (cmp_of c f) false false)) p f)
        s' out pend' new ->
    Run (BuildFile false p c fname a kw fn k) tgt pend s s' out pend'
        (OBuildFile p c fname sa skw subs1 ret1 (cmp_of c f) false false :: new)
| R_BFRun : forall p c fname a kw fn k sa skw fs1 dirs s2 res pend2 bsubs s3 out3 o tgt pend s s' out pend' new,
    sanitize a = Some sa -> sanitize kw = Some skw ->
    bf_setup s p = inl (fs1, dirs) ->
    core_hit s (core_s0 s p fs1 dirs) p fname sa skw = None ->
    Run (fn p sa skw) (Some p) None (core_start (core_s0 s p fs1 dirs) p fname sa skw) s2 res pend2 bsubs ->
    core_finish s2 p c fname sa skw bsubs res pend2 = (s3, out3, o) ->
    Run (k out3) tgt pend s3 s' out pend' new ->
    Run (BuildFile false p c fname a kw fn k) tgt pend s s' out pend' (o :: new)
| R_SBSkip : forall st fname a kw fn k e tgt pend s s' out pend' new,
    call_skip st a kw = Some e ->
    Run (k (inr e)) tgt pend s s' out pend' new ->
    Run (Subbuild st fname a kw fn k) tgt pend s s' out pend' new
| R_SBDup : forall fname a kw fn k sa skw tgt pend s s' out pend' new,
    sanitize a = Some sa -> sanitize kw = Some skw ->
    existsb (py_eq (subbuild_key fname sa skw)) (k_claimedS s) = true ->
    Run (k (inr (XRuntime RDupSubbuild))) tgt pend s s' out pend' new ->
    Run (Subbuild false fname a kw fn k) tgt pend s s' out pend' (OSubbuild fname sa skw [] PNone true true :: new)
| R_SBHit : forall fname a kw fn k sa skw subs1 ret1 r tgt pend s s' out pend' new,
    sanitize a = Some sa -> sanitize kw = Some skw ->
    existsb (py_eq (subbuild_key fname sa skw)) (k_claimedS s) = false ->
    core_subhit s fname (subbuild_key fname sa skw) = Some (subs1, ret1, r) ->
    Run (k (inl ret1)) tgt pend (adopt s r (OSubbuild fname sa skw subs1 ret1 false false)) s' out pend' new ->
    Run (Subbuild false fname a kw fn k) tgt pend s s' out pend' (OSubbuild fname sa skw subs1 ret1 false false :: new)
| R_SBRun : forall fname a kw fn k sa skw s2 res pd bsubs tgt pend s s' out pend' new,
    sanitize a = Some sa -> sanitize kw = Some skw ->
    existsb (py_eq (subbuild_key fname sa skw)) (k_claimedS s) = false ->
    core_subhit s fname (subbuild_key fname sa skw) = None ->
    Run (fn sa skw) None None (core_substart s fname sa skw) s2 res pd bsubs ->
    Run (k (sub_out res)) tgt pend (core_subreg s2 (subbuild_key fname sa skw) (sub_rec fname sa skw bsubs res)) s' out pend' new ->
    Run (Subbuild false fname a kw fn k) tgt pend s s' out pend' (sub_rec fname sa skw bsubs res :: new).

(* [core_run] in terms of the step functions *)
Lemma core_run_BF_setup : forall p c fname a kw fn k tgt pend subs s sa skw,
  sanitize a = Some sa -> sanitize kw = Some skw ->
  core_run (BuildFile false p c fname a kw fn k) tgt pend subs s =
  match bf_setup s p with
  | inr e => core_run (k (inr e)) tgt pend (subs ++ [OBuildFile p c fname sa skw [] PNone PNone true true]) s
  | inl (fs1, dirs) =>
      let s0 := core_s0 s p fs1 dirs in
      match core_hit s s0 p fname sa skw with
      | Some (f, subs', ret', r) =>
          let o := OBuildFile p c fname sa skw subs' ret' (cmp_of c f) false false in
          core_run (k (inl ret')) tgt pend (subs ++ [o]) (core_put (adopt s0 r o) p f)
      | None =>
          let '(s2, (res, pend2, bsubs)) := core_run (fn p sa skw) (Some p) None [] (core_start s0 p fname sa skw) in
          let '(s3, out, o) := core_finish s2 p c fname sa skw bsubs res pend2 in
          core_run (k out) tgt pend (subs ++ [o]) s3
      end
  end.
Proof.
  intros. rewrite core_run_BuildFile, H, H0. cbv zeta. unfold bf_setup.
  destruct (claim_check (k_claimedF s) (k_cachefile s) p); [reflexivity|].
  destruct (setup_fs (k_fs s) (k_cachefile s) p) as [[fs1 dirs]|e]; reflexivity.
Qed.

Lemma core_run_skipBF : forall st p c fname a kw fn k tgt pend subs s e,
  call_skip st a kw = Some e ->
  core_run (BuildFile st p c fname a kw fn k) tgt pend subs s = core_run (k (inr e)) tgt pend subs s.
Proof.
  intros st p c fname a kw fn k tgt pend subs s e H. rewrite core_run_BuildFile. unfold call_skip in H.
  destruct st; [inversion H; reflexivity|].
  destruct (sanitize a); [destruct (sanitize kw); [discriminate|]|]; inversion H; reflexivity.
Qed.

Lemma core_run_skipSB : forall st fname a kw fn k tgt pend subs s e,
  call_skip st a kw = Some e ->
  core_run (Subbuild st fname a kw fn k) tgt pend subs s = core_run (k (inr e)) tgt pend subs s.
Proof.
  intros st fname a kw fn k tgt pend subs s e H. rewrite core_run_Subbuild. unfold call_skip in H.
  destruct st; [inversion H; reflexivity|].
  destruct (sanitize a); [destruct (sanitize kw); [discriminate|]|]; inversion H; reflexivity.
Qed.

Lemma call_skip_none : forall st a kw, call_skip st a kw = None ->
  st = false /\ exists sa skw, sanitize a = Some sa /\ sanitize kw = Some skw.
Proof.
  intros st a kw H. unfold call_skip in H. destruct st; [discriminate|]. split; [reflexivity|].
  destruct (sanitize a) as [sa|]; [|discriminate]. destruct (sanitize kw) as [skw|]; [|discriminate]. eauto.
Qed.

Theorem run_of_core : forall pr tgt pend subs s s' out pend' subs',
  core_run pr tgt pend subs s = (s', (out, pend', subs')) ->
  exists new, subs' = subs ++ new /\ Run pr tgt pend s s' out pend' new.
Proof.
  induction pr as [v|e|st q k IHk|c k IHk|st p c fname a kw fn IHfn k IHk|st fname a kw fn IHfn k IHk];
    intros tgt pend subs s s' out pend' subs' H.
  - inversion H; subst. exists []. rewrite app_nil_r. split; [reflexivity|constructor].
  - inversion H; subst. exists []. rewrite app_nil_r. split; [reflexivity|constructor].
  - rewrite core_run_Ask in H. destruct st.
    + destruct (IHk _ _ _ _ _ _ _ _ _ H) as [new [E R]]. exists new. split; [exact E|constructor; exact R].
    + cbv zeta in H.
      assert (G : core_run (k (ans_out (spec_answer (k_fs s) q))) tgt pend (subs ++ [record_of q (record_answer (k_fs s) q)])
                    (klog (LAnswer q (spec_answer (k_fs s) q)) s) = (s', (out, pend', subs'))).
      { destruct (spec_answer (k_fs s) q); exact H. }
      destruct (IHk _ _ _ _ _ _ _ _ _ G) as [new [E R]].
      exists (record_of q (record_answer (k_fs s) q) :: new). split; [rewrite E, <- app_assoc; reflexivity|constructor; exact R].
  - rewrite core_run_Write in H. destruct tgt as [p|].
    + destruct (path_ok p) eqn:Ep.
      * destruct (IHk _ _ _ _ _ _ _ _ H) as [new [E R]]. exists new. split; [exact E|constructor; assumption].
      * inversion H; subst. exists []. rewrite app_nil_r. split; [reflexivity|constructor; exact Ep].
    + destruct (IHk _ _ _ _ _ _ _ _ H) as [new [E R]]. exists new. split; [exact E|constructor; assumption].
  - destruct (call_skip st a kw) as [e|] eqn:Esk.
    + rewrite (core_run_skipBF _ _ _ _ _ _ _ _ _ _ _ _ _ Esk) in H.
      destruct (IHk _ _ _ _ _ _ _ _ _ H) as [new [E R]]. exists new. split; [exact E|econstructor; eassumption].
    + destruct (call_skip_none _ _ _ Esk) as [-> [sa [skw [Ea Ek]]]].
      rewrite (core_run_BF_setup _ _ _ _ _ _ _ _ _ _ _ sa skw Ea Ek) in H.
      destruct (bf_setup s p) as [[fs1 dirs]|e] eqn:Es.
      * cbv zeta in H. destruct (core_hit s (core_s0 s p fs1 dirs) p fname sa skw) as [[[[f subs1] ret1] r]|] eqn:Eh.
        -- destruct (IHk _ _ _ _ _ _ _ _ _ H) as [new [E R]].
           eexists (_ :: new). split; [rewrite E, <- app_assoc; reflexivity|]. eapply R_BFHit; eassumption.
        -- destruct (core_run (fn p sa skw) (Some p) None [] (core_start (core_s0 s p fs1 dirs) p fname sa skw))
             as [s2 [[res pend2] bsubs]] eqn:Eb.
           destruct (IHfn _ _ _ _ _ _ _ _ _ _ _ Eb) as [newb [Eb' Rb]]. simpl in Eb'. subst newb.
           destruct (core_finish s2 p c fname sa skw bsubs res pend2) as [[s3 out3] o] eqn:Ef.
           destruct (IHk _ _ _ _ _ _ _ _ _ H) as [new [E R]].
           exists (o :: new). split; [rewrite E, <- app_assoc; reflexivity|]. eapply R_BFRun; eassumption.
      * destruct (IHk _ _ _ _ _ _ _ _ _ H) as [new [E R]].
        eexists (_ :: new). split; [rewrite E, <- app_assoc; reflexivity|]. eapply R_BFSetupFail; eassumption.
  - destruct (call_skip st a kw) as [e|] eqn:Esk.
    + rewrite (core_run_skipSB _ _ _ _ _ _ _ _ _ _ _ Esk) in H.
      destruct (IHk _ _ _ _ _ _ _ _ _ H) as [new [E R]]. exists new. split; [exact E|econstructor; eassumption].
    + destruct (call_skip_none _ _ _ Esk) as [-> [sa [skw [Ea Ek]]]].
      rewrite core_run_Subbuild, Ea, Ek in H. cbv zeta in H.
      destruct (existsb (py_eq (subbuild_key fname sa skw)) (k_claimedS s)) eqn:Ed.
      * destruct (IHk _ _ _ _ _ _ _ _ _ H) as [new [E R]].
        eexists (_ :: new). split; [rewrite E, <- app_assoc; reflexivity|]. eapply R_SBDup; eassumption.
      * destruct (core_subhit s fname (subbuild_key fname sa skw)) as [[[subs1 ret1] r]|] eqn:Eh.
        -- destruct (IHk _ _ _ _ _ _ _ _ _ H) as [new [E R]].
           eexists (_ :: new). split; [rewrite E, <- app_assoc; reflexivity|]. eapply R_SBHit; eassumption.
        -- destruct (core_run (fn sa skw) None None [] (core_substart s fname sa skw)) as [s2 [[res pd] bsubs]] eqn:Eb.
           destruct (IHfn _ _ _ _ _ _ _ _ _ _ Eb) as [newb [Eb' Rb]]. simpl in Eb'. subst newb.
           destruct (IHk _ _ _ _ _ _ _ _ _ H) as [new [E R]].
           eexists (_ :: new). split; [rewrite E, <- app_assoc; reflexivity|]. eapply R_SBRun; eassumption.
Qed.

(* how a build_file function's run ends *)
Lemma core_finish_cases : forall s2 p c fname sa skw bsubs res pend2 s3 out o,
  core_finish s2 p c fname sa skw bsubs res pend2 = (s3, out, o) ->
  (exists sv bytes fs3 g,
      pend2 = Some bytes /\ write_file (k_fs s2) p bytes None (k_clock s2) (k_nextid s2) = inl fs3 /\
      lookup fs3 p = Some (NFile g) /\
      o = OBuildFile p c fname sa skw bsubs sv (cmp_of c g) false false /\
      s3 = core_done s2 fs3 p o /\ out = inl sv) \/
  (exists e, o = OBuildFile p c fname sa skw bsubs PNone PNone true false /\ s3 = core_prune s2 p o /\ out = inr e).
Proof.
  intros s2 p c fname sa skw bsubs res pend2 s3 out o H. unfold core_finish in H.
  assert (Fl : forall e, (core_prune s2 p (OBuildFile p c fname sa skw bsubs PNone PNone true false), @inr pyval exn e,
                          OBuildFile p c fname sa skw bsubs PNone PNone true false) = (s3, out, o) ->
               exists e, o = OBuildFile p c fname sa skw bsubs PNone PNone true false /\ s3 = core_prune s2 p o /\ out = inr e).
  { intros e E. inversion E; subst. eauto. }
  destruct res as [v|e]; [|right; eapply Fl; eauto].
  destruct (sanitize v) as [sv|]; [|right; eapply Fl; eauto].
  destruct pend2 as [bytes|]; [|right; eapply Fl; eauto].
  destruct (write_file (k_fs s2) p bytes None (k_clock s2) (k_nextid s2)) as [fs3|e] eqn:Ew; [|right; eapply Fl; eauto].
  left. destruct (write_file_frame _ _ _ _ _ _ _ Ew) as [[g [Hg _]] _].
  exists sv, bytes, fs3, g. rewrite Hg in H. inversion H; subst. repeat split; auto.
Qed.

(* ------------------------------------------------------------------ *)
(* successful replays of clean records                                *)
(* ------------------------------------------------------------------ *)
Definition simple_ok (r : rstate') (q : query) (ret_ : pyval) (ex : option errclass) : bool :=
  match record_answer (rp_fs r) q, ex with
  | inl v, None => is_equal v ret_
  | inr c, Some c' => is_equal PNone ret_ && errclass_eqb c c'
  | _, _ => false
  end.

Inductive RepL (B : kstate) : list op -> rstate' -> rstate' -> Prop :=
| RL_nil : forall r, RepL B [] r r
| RL_simple : forall q ret_ ex rest r r',
    simple_ok r q ret_ ex = true -> RepL B rest r r' -> RepL B (OSimple q ret_ ex :: rest) r r'
| RL_bf : forall p c fname a k subs ret_ cmpres rest r f dirs fs1 r2 r',
    kversion_equal B fname = true ->
    phys (k_fs B) (k_stale B) p = Some f -> is_equal cmpres (cmp_of c f) = true ->
    mem_path p (rp_claimedF r) = false -> path_eqb p (k_cachefile B) = false ->
    missing_dirs (rp_fs r) (k_cachefile B) (dirname p) = inl dirs -> mkdir_all (rp_fs r) dirs = inl fs1 ->
    RepL B subs (rp_start r p fs1 dirs) r2 ->
    RepL B rest (rp_put r2 p f) r' ->
    RepL B (OBuildFile p c fname a k subs ret_ cmpres false false :: rest) r r'
| RL_sb : forall fname a k subs ret_ rest r r2 r',
    kversion_equal B fname = true ->
    existsb (py_eq (subbuild_key fname a k)) (rp_claimedS r) = false ->
    RepL B subs r r2 -> RepL B rest r2 r' ->
    RepL B (OSubbuild fname a k subs ret_ false false :: rest) r r'.

Lemma RepL_kreplay : forall B l r r', RepL B l r r' -> kreplay_list B l r = Some r'.
Proof.
  intros B l r r' H. induction H.
  - reflexivity.
  - rewrite kreplay_list_cons, kreplay_Simple. unfold simple_ok in H.
    destruct (record_answer (rp_fs r) q) as [v|c0], ex as [c1|]; try discriminate; rewrite H; exact IHRepL.
  - rewrite kreplay_list_cons, kreplay_BF, H. cbn [negb]. unfold on_disk. rewrite H0, H1, H2, H3. cbn [orb].
    rewrite H4, H5, IHRepL1. exact IHRepL2.
  - rewrite kreplay_list_cons, kreplay_SB, H. cbn [negb orb]. rewrite H0, IHRepL1. exact IHRepL2.
Qed.

Lemma op_clean_BF : forall p c f a k subs r cr ra sf,
  op_clean (OBuildFile p c f a k subs r cr ra sf) = true -> ra = false /\ sf = false /\ forallb op_clean subs = true.
Proof.
  intros. cbn [op_clean] in H. apply andb_true_iff in H. destruct H as [H H3]. apply andb_true_iff in H. destruct H as [H1 H2].
  apply negb_true_iff in H1, H2. auto.
Qed.
Lemma op_clean_SB : forall f a k subs r ra sf,
  op_clean (OSubbuild f a k subs r ra sf) = true -> ra = false /\ sf = false /\ forallb op_clean subs = true.
Proof.
  intros. cbn [op_clean] in H. apply andb_true_iff in H. destruct H as [H H3]. apply andb_true_iff in H. destruct H as [H1 H2].
  apply negb_true_iff in H1, H2. auto.
Qed.

Lemma kreplay_RepL : forall B l, forallb op_clean l = true ->
  forall r r', kreplay_list B l r = Some r' -> RepL B l r r'.
Proof.
  intros B.
  assert (G : forall o, op_clean o = true ->
            forall rest, (forall r r', kreplay_list B rest r = Some r' -> RepL B rest r r') ->
            forall r r', kreplay_list B (o :: rest) r = Some r' -> RepL B (o :: rest) r r').
  { induction o as [q ret_ ex|p c f a k subs ret_ cmpres ra sf IH|f a k subs ret_ ra sf IH] using op_ind';
      intros Hc rest Hrest r r' H; rewrite kreplay_list_cons in H.
    - rewrite kreplay_Simple in H. apply RL_simple.
      + unfold simple_ok. destruct (record_answer (rp_fs r) q) as [v|c0], ex as [c1|]; try discriminate.
        * destruct (is_equal v ret_); [reflexivity|discriminate].
        * destruct (is_equal PNone ret_ && errclass_eqb c0 c1); [reflexivity|discriminate].
      + apply Hrest. destruct (record_answer (rp_fs r) q) as [v|c0], ex as [c1|]; try discriminate.
        * destruct (is_equal v ret_); [exact H|discriminate].
        * destruct (is_equal PNone ret_ && errclass_eqb c0 c1); [exact H|discriminate].
    - apply op_clean_BF in Hc. destruct Hc as [-> [-> Hc]]. rewrite kreplay_BF in H.
      destruct (kversion_equal B f) eqn:Ev; [|discriminate]. cbn [negb] in H. unfold on_disk in H.
      destruct (phys (k_fs B) (k_stale B) p) as [g|] eqn:Eph; [|discriminate].
      destruct (is_equal cmpres (cmp_of c g)) eqn:Ecmp; [|discriminate].
      destruct (mem_path p (rp_claimedF r) || path_eqb p (k_cachefile B)) eqn:Ecl; [discriminate|].
      apply orb_false_iff in Ecl. destruct Ecl as [Ecl1 Ecl2].
      destruct (missing_dirs (rp_fs r) (k_cachefile B) (dirname p)) as [dirs|] eqn:Emd; [|discriminate].
      destruct (mkdir_all (rp_fs r) dirs) as [fs1|] eqn:Emk; [|discriminate].
      destruct (kreplay_list B subs (rp_start r p fs1 dirs)) as [r2|] eqn:Ek; [|discriminate].
      eapply RL_bf; try eassumption; [|apply Hrest; exact H].
      clear H Hrest. revert r2 Ek. generalize (rp_start r p fs1 dirs). clear - IH Hc.
      induction subs as [|x subs IHs]; intros r0 r2 Ek.
      + simpl in Ek. inversion Ek; subst. constructor.
      + inversion IH; subst. simpl in Hc. apply andb_true_iff in Hc. destruct Hc as [Hx Hs].
        apply (H1 Hx); [|exact Ek]. intros. apply IHs; assumption.
    - apply op_clean_SB in Hc. destruct Hc as [-> [-> Hc]]. rewrite kreplay_SB in H.
      destruct (kversion_equal B f) eqn:Ev; [|discriminate]. cbn [negb orb] in H.
      destruct (existsb (py_eq (subbuild_key f a k)) (rp_claimedS r)) eqn:Ecl; [discriminate|].
      destruct (kreplay_list B subs r) as [r2|] eqn:Ek; [|discriminate].
      eapply RL_sb; try eassumption; [|apply Hrest; exact H].
      clear H Hrest Ecl. revert r2 Ek. generalize r. clear - IH Hc.
      induction subs as [|x subs IHs]; intros r0 r2 Ek.
      + simpl in Ek. inversion Ek; subst. constructor.
      + inversion IH; subst. simpl in Hc. apply andb_true_iff in Hc. destruct Hc as [Hx Hs].
        apply (H1 Hx); [|exact Ek]. intros. apply IHs; assumption. }
  induction l as [|o l IHl]; intros Hc r r' H.
  - simpl in H. inversion H; subst. constructor.
  - simpl in Hc. apply andb_true_iff in Hc. destruct Hc as [Ho Hl]. apply (G o Ho); [|exact H]. apply IHl. exact Hl.
Qed.

Lemma RepL_app : forall B l1 l2 r r1 r2, RepL B l1 r r1 -> RepL B l2 r1 r2 -> RepL B (l1 ++ l2) r r2.
Proof.
  intros B l1 l2 r r1 r2 H. revert l2 r2. induction H; intros l2 rr H'; simpl.
  - exact H'.
  - apply RL_simple; auto.
  - eapply RL_bf; eauto.
  - eapply RL_sb; eauto.
Qed.

(* ------------------------------------------------------------------ *)
(* what a run never changes, and what only grows                      *)
(* ------------------------------------------------------------------ *)
Definition kconst (s s' : kstate) : Prop :=
  k_cachefile s' = k_cachefile s /\ k_old s' = k_old s /\ k_vers s' = k_vers s /\ k_staledirs s' = k_staledirs s /\
  (exists eF, k_newF s' = k_newF s ++ eF) /\ (exists eS, k_newS s' = k_newS s ++ eS) /\
  (exists ex, k_log s' = ex ++ k_log s).

Lemma kconst_refl : forall s, kconst s s.
Proof. intro s. repeat split; try reflexivity; exists []; try (rewrite app_nil_r); reflexivity. Qed.

Lemma kconst_trans : forall a b c, kconst a b -> kconst b c -> kconst a c.
Proof.
  intros a b c [A1 [A2 [A3 [A4 [[f1 A5] [[g1 A6] [x1 A7]]]]]]] [B1 [B2 [B3 [B4 [[f2 B5] [[g2 B6] [x2 B7]]]]]]].
  repeat split; try congruence.
  - exists (f1 ++ f2). rewrite B5, A5, app_assoc. reflexivity.
  - exists (g1 ++ g2). rewrite B6, A6, app_assoc. reflexivity.
  - exists (x2 ++ x1). rewrite B7, A7, app_assoc. reflexivity.
Qed.

Lemma kconst_intro : forall s s' eF eS ex,
  k_cachefile s' = k_cachefile s -> k_old s' = k_old s -> k_vers s' = k_vers s -> k_staledirs s' = k_staledirs s ->
  k_newF s' = k_newF s ++ eF -> k_newS s' = k_newS s ++ eS -> k_log s' = ex ++ k_log s -> kconst s s'.
Proof. intros. repeat split; eauto. Qed.

Lemma run_kconst : forall pr tgt pend s s' out pend' new, Run pr tgt pend s s' out pend' new -> kconst s s'.
Proof.
  intros pr tgt pend s s' out pend' new H. induction H; try apply kconst_refl; try assumption.
  - eapply kconst_trans; [|exact IHRun]. apply (kconst_intro _ _ [] [] [LAnswer q (spec_answer (k_fs s) q)]); try reflexivity;
      cbn; rewrite ?app_nil_r; reflexivity.
  - eapply kconst_trans; [|exact IHRun].
    apply (kconst_intro _ _ (fst (tree_regs (OBuildFile p c fname sa skw subs1 ret1 (cmp_of c f) false false)))
                        (snd (tree_regs (OBuildFile p c fname sa skw subs1 ret1 (cmp_of c f) false false))) []); reflexivity.
  - eapply kconst_trans; [|exact IHRun2]. eapply kconst_trans; [|eapply kconst_trans; [exact IHRun1|]].
    + apply (kconst_intro _ _ [] [] [LInvoke fname (Some p) sa skw]); try reflexivity; cbn; rewrite ?app_nil_r; reflexivity.
    + destruct (core_finish_cases _ _ _ _ _ _ _ _ _ _ _ _ H4) as [(sv & bytes & fs3 & g & _ & _ & _ & _ & -> & _)|(e & _ & -> & _)].
      * apply (kconst_intro _ _ [(p, o)] [] []); try reflexivity. cbn. rewrite app_nil_r. reflexivity.
      * apply (kconst_intro _ _ [(p, o)] [] []); try reflexivity. cbn. rewrite app_nil_r. reflexivity.
  - eapply kconst_trans; [|exact IHRun].
    apply (kconst_intro _ _ (fst (tree_regs (OSubbuild fname sa skw subs1 ret1 false false)))
                        (snd (tree_regs (OSubbuild fname sa skw subs1 ret1 false false))) []); reflexivity.
  - eapply kconst_trans; [|exact IHRun2]. eapply kconst_trans; [|eapply kconst_trans; [exact IHRun1|]].
    + apply (kconst_intro _ _ [] [] [LInvoke fname None sa skw]); try reflexivity; cbn; rewrite ?app_nil_r; reflexivity.
    + apply (kconst_intro _ _ [] [(subbuild_key fname sa skw, sub_rec fname sa skw bsubs res)] []); try reflexivity.
      cbn. rewrite app_nil_r. reflexivity.
Qed.
