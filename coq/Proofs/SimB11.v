(* Proofs/SimB11.v — mechanism model vs Core, after a hit, part 2: registering the adopted
   record.  Cache._use_cached_operation (register_op) against Core's adopt: the same paths are
   claimed (tree_claims), the same records are registered (tree_regs), the outputs of the
   subtree leave the stale store (tree_outputs); and the view after the registration: the
   regular files at the registered paths become visible, nothing else changes.             *)
From Coq Require Import List String Ascii NArith ZArith Bool Arith Lia.
From FB.Base Require Import PyVal Fs.
From FB.Gen Require Import JsonUtilGen.
From FB.Spec Require Import Prog Ref Oracle Faithful.
From FB.Model Require Import Types Monad CreatedFiles BuildDirs SimpleOps Builder Persist Core.
From FB.Proofs Require Import FsLemmas CleanLaws JsonLaws CoreLawsChildren ReplayLaws BuildFileLaws CoreLaws1 CoreLaws3 CoreLaws4 CoreLaws5
     CoreNextRegs
     ViewDefs ViewLemmas ViewScan ViewQueries ViewAnswers ViewPres ViewFrame ViewXDefs ViewXSteps ViewXFail
     ViewH4 ViewH5 ViewH6 ViewK3 ViewK4 ViewK5 SimB7.
Import ListNotations.
Open Scope list_scope.

(* ------------------------------------------------------------------ the lists of Core *)
Lemma regp_claims : forall o, regp o = fst (tree_claims o).
Proof.
  induction o as [q r e|p c f a k subs r cr ra sf IH|f a k subs r ra sf IH] using op_ind'.
  - reflexivity.
  - assert (L: flat_map regp subs = fst (cll subs)).
    { clear -IH. induction subs as [|x rest IHl]; [reflexivity|]. inversion IH as [|? ? Hx Hrest]; subst.
      rewrite cll_cons. cbn [flat_map fst]. rewrite Hx, (IHl Hrest). reflexivity. }
    cbn [regp]. rewrite tree_claims_BF, L. destruct sf; reflexivity.
  - assert (L: flat_map regp subs = fst (cll subs)).
    { clear -IH. induction subs as [|x rest IHl]; [reflexivity|]. inversion IH as [|? ? Hx Hrest]; subst.
      rewrite cll_cons. cbn [flat_map fst]. rewrite Hx, (IHl Hrest). reflexivity. }
    cbn [regp]. rewrite tree_claims_SB, L. destruct sf; reflexivity.
Qed.

Lemma regs_keysF : forall o, map fst (fst (tree_regs o)) = fst (tree_claims o).
Proof.
  induction o as [q r e|p c f a k subs r cr ra sf IH|f a k subs r ra sf IH] using op_ind'.
  - reflexivity.
  - assert (L : map fst (fst (rll subs)) = fst (cll subs)).
    { clear -IH. induction subs as [|x rest IHl]; [reflexivity|]. inversion IH as [|? ? Hx Hrest]; subst.
      rewrite rll_cons, cll_cons. cbn [fst]. rewrite map_app, Hx, (IHl Hrest). reflexivity. }
    rewrite tree_regs_BF, tree_claims_BF. destruct sf; [exact L|]. cbn [fst map]. rewrite L. reflexivity.
  - assert (L : map fst (fst (rll subs)) = fst (cll subs)).
    { clear -IH. induction subs as [|x rest IHl]; [reflexivity|]. inversion IH as [|? ? Hx Hrest]; subst.
      rewrite rll_cons, cll_cons. cbn [fst]. rewrite map_app, Hx, (IHl Hrest). reflexivity. }
    rewrite tree_regs_SB, tree_claims_SB. destruct sf; exact L.
Qed.

Lemma outputs_adopted : forall o, tree_outputs o = adopted o.
Proof.
  induction o as [q r e|p c f a k subs r cr ra sf IH|f a k subs r ra sf IH] using op_ind'; cbn [tree_outputs adopted].
  - reflexivity.
  - assert (L: flat_map tree_outputs subs = flat_map adopted subs).
    { clear -IH. induction IH as [|x rest Hx Hrest IHl]; [reflexivity|]. cbn [flat_map]. rewrite Hx, IHl. reflexivity. }
    rewrite L. reflexivity.
  - clear -IH. induction IH as [|x rest Hx Hrest IHl]; [reflexivity|]. cbn [flat_map]. rewrite Hx, IHl. reflexivity.
Qed.

Lemma kf_get_app : forall a b q, kf_get (a ++ b) q = match kf_get a q with Some x => Some x | None => kf_get b q end.
Proof.
  induction a as [|[k o] a IH]; intros b q; cbn [app kf_get]; [reflexivity|]. destruct (path_eqb k q); [reflexivity|apply IH].
Qed.

Lemma kf_get_keys : forall l q x, kf_get l q = Some x -> In q (map fst l).
Proof.
  induction l as [|[k o] l IH]; intros q x H; cbn [kf_get] in H; [discriminate|]. cbn [map fst].
  destruct (path_eqb k q) eqn:E; [left; apply path_eqb_eq; exact E|right; apply (IH q x H)].
Qed.

Lemma kf_get_notin : forall l q, ~ In q (map fst l) -> kf_get l q = None.
Proof. intros l q H. destruct (kf_get l q) eqn:E; [|reflexivity]. exfalso. apply H. eapply kf_get_keys. exact E. Qed.

Lemma stale_get_fold_del : forall l st q,
  stale_get (fold_left stale_del l st) q = if mem_path q l then None else stale_get st q.
Proof.
  induction l as [|p l IH]; intros st q; cbn [fold_left mem_path]; [reflexivity|]. rewrite IH.
  destruct (mem_path q l); [rewrite orb_true_r; reflexivity|]. rewrite orb_false_r.
  destruct (path_eqb p q) eqn:E.
  - apply path_eqb_eq in E. subst q. apply stale_del_same.
  - clear IH. induction st as [|[k f] st IHs]; cbn [stale_del stale_get]; [reflexivity|].
    destruct (path_eqb k p) eqn:Ek.
    + apply path_eqb_eq in Ek. subst k. rewrite E. exact IHs.
    + cbn [stale_get]. destruct (path_eqb k q); [reflexivity|exact IHs].
Qed.

(* ------------------------------------------------------------------ register_op: the file table *)
Lemma has_file_set : forall c files subs dirs built q,
  cache_has_file (cache_with c files subs dirs built) q = match files_get files q with Some _ => true | None => false end.
Proof. reflexivity. Qed.

Lemma reg_has_file : forall o c q,
  cache_has_file (register_op c o) q = mem_path q (fst (tree_claims o)) || cache_has_file c q.
Proof.
  induction o as [q0 r e|p c0 f a k subs r cr ra sf IH|f a k subs r ra sf IH] using op_ind'; intros c q.
  - reflexivity.
  - assert (L: forall c1, cache_has_file (fold_left register_op subs c1) q = mem_path q (fst (cll subs)) || cache_has_file c1 q).
    { clear -IH. induction IH as [|x rest Hx Hrest IHl]; intro c1; [reflexivity|].
      cbn [fold_left]. rewrite IHl, Hx, cll_cons. cbn [fst]. rewrite mem_path_app.
      destruct (mem_path q (fst (tree_claims x))), (mem_path q (fst (cll rest))); reflexivity. }
    cbn [register_op]. rewrite L, tree_claims_BF. destruct sf; [reflexivity|]. cbn [fst mem_path].
    unfold cache_has_file at 1. cbn [c_files cache_with].
    destruct (path_eqb p q) eqn:E.
    + apply path_eqb_eq in E. subst q. rewrite files_get_set_same. rewrite !orb_true_r. reflexivity.
    + rewrite files_get_set_other by (apply path_eqb_neq; rewrite path_eqb_sym; exact E). reflexivity.
  - assert (L: forall c1, cache_has_file (fold_left register_op subs c1) q = mem_path q (fst (cll subs)) || cache_has_file c1 q).
    { clear -IH. induction IH as [|x rest Hx Hrest IHl]; intro c1; [reflexivity|].
      cbn [fold_left]. rewrite IHl, Hx, cll_cons. cbn [fst]. rewrite mem_path_app.
      destruct (mem_path q (fst (tree_claims x))), (mem_path q (fst (cll rest))); reflexivity. }
    cbn [register_op]. rewrite L, tree_claims_SB. destruct sf; reflexivity.
Qed.

Definition reg_files_ok (o : op) : Prop :=
  forall c q, NoDup (fst (tree_claims o)) ->
    files_get (c_files (register_op c o)) q =
    match kf_get (fst (tree_regs o)) q with Some x => Some (Some x) | None => files_get (c_files c) q end.

Lemma rll_keysF : forall subs, map fst (fst (rll subs)) = fst (cll subs).
Proof. induction subs as [|z r IHr]; [reflexivity|]. rewrite rll_cons, cll_cons. cbn [fst]. rewrite map_app, regs_keysF, IHr. reflexivity. Qed.

Lemma reg_files_fold : forall subs, Forall reg_files_ok subs ->
  forall c q, NoDup (fst (cll subs)) ->
    files_get (c_files (fold_left register_op subs c)) q =
    match kf_get (fst (rll subs)) q with Some x => Some (Some x) | None => files_get (c_files c) q end.
Proof.
  intros subs H. induction H as [|x rest Hx Hrest IH]; intros c q Hnd; [reflexivity|].
  cbn [fold_left]. rewrite cll_cons in Hnd. cbn [fst] in Hnd. destruct (NoDup_app_parts _ _ Hnd) as (N1 & N2 & N3).
  rewrite (IH _ q N2), (Hx c q N1), rll_cons. cbn [fst]. rewrite kf_get_app.
  destruct (kf_get (fst (rll rest)) q) as [y|] eqn:E2; [|destruct (kf_get (fst (tree_regs x)) q); reflexivity].
  rewrite kf_get_notin; [reflexivity|]. rewrite regs_keysF. intro K. apply (N3 q K).
  apply kf_get_keys in E2. rewrite <- rll_keysF. exact E2.
Qed.

Lemma reg_files_all : forall o, reg_files_ok o.
Proof.
  induction o as [q0 r e|p c0 f a k subs r cr ra sf IH|f a k subs r ra sf IH] using op_ind'; intros c q Hnd.
  - reflexivity.
  - cbn [register_op]. rewrite tree_regs_BF. rewrite tree_claims_BF in Hnd. destruct sf.
    + apply (reg_files_fold subs IH); exact Hnd.
    + cbn [fst] in Hnd |- *. inversion Hnd as [|? ? Hp Hnd']; subst. rewrite (reg_files_fold subs IH _ q Hnd'). cbn [kf_get].
      destruct (path_eqb p q) eqn:E.
      * apply path_eqb_eq in E. subst q. rewrite kf_get_notin by (rewrite rll_keysF; exact Hp).
        cbn [c_files cache_with]. apply files_get_set_same.
      * destruct (kf_get (fst (rll subs)) q); [reflexivity|]. cbn [c_files cache_with].
        apply files_get_set_other. apply path_eqb_neq. rewrite path_eqb_sym. exact E.
  - cbn [register_op]. rewrite tree_regs_SB. rewrite tree_claims_SB in Hnd. destruct sf.
    + apply (reg_files_fold subs IH); exact Hnd.
    + cbn [fst] in Hnd |- *. rewrite (reg_files_fold subs IH _ q Hnd). reflexivity.
Qed.

(* the function versions are not touched *)
Lemma reg_fvers : forall o c, c_fvers (register_op c o) = c_fvers c /\ c_built (register_op c o) = c_built c.
Proof.
  induction o as [q0 r e|p c0 f a k subs r cr ra sf IH|f a k subs r ra sf IH] using op_ind'; intro c.
  - split; reflexivity.
  - cbn [register_op].
    assert (L: forall c1, c_fvers (fold_left register_op subs c1) = c_fvers c1 /\ c_built (fold_left register_op subs c1) = c_built c1).
    { clear -IH. induction IH as [|x rest Hx Hrest IHl]; intro c1; [split; reflexivity|]. cbn [fold_left].
      destruct (IHl (register_op c1 x)) as [A B]. destruct (Hx c1) as [C D]. split; congruence. }
    destruct (L (if sf then c else cache_with c (files_set (c_files c) p (Some (OBuildFile p c0 f a k subs r cr ra sf))) (c_subs c) (c_dirs c) (c_built c))) as [A B].
    destruct sf; split; assumption.
  - cbn [register_op].
    assert (L: forall c1, c_fvers (fold_left register_op subs c1) = c_fvers c1 /\ c_built (fold_left register_op subs c1) = c_built c1).
    { clear -IH. induction IH as [|x rest Hx Hrest IHl]; intro c1; [split; reflexivity|]. cbn [fold_left].
      destruct (IHl (register_op c1 x)) as [A B]. destruct (Hx c1) as [C D]. split; congruence. }
    destruct (L (if sf then c else cache_with c (c_files c) (subs_set (c_subs c) (subbuild_key f a k) (Some (OSubbuild f a k subs r ra sf))) (c_dirs c) (c_built c))) as [A B].
    destruct sf; split; assumption.
Qed.

(* a registered path holds a record afterwards *)
Lemma reg_get_registered : forall o c a, In a (regp o) -> exists x, files_get (c_files (register_op c o)) a = Some (Some x).
Proof.
  induction o as [q0 r e|p c0 f a0 k subs r cr ra sf IH|f a0 k subs r ra sf IH] using op_ind'; intros c a Ha; cbn [regp register_op] in *.
  - destruct Ha.
  - assert (L: forall c1, ((exists x, files_get (c_files c1) a = Some (Some x)) \/ In a (flat_map regp subs)) ->
               exists x, files_get (c_files (fold_left register_op subs c1)) a = Some (Some x)).
    { clear -IH. induction IH as [|x rest Hx Hrest IHl]; intros c1 Hc; cbn [fold_left flat_map] in *.
      - destruct Hc as [Hc|[]]. exact Hc.
      - apply IHl. destruct (in_dec (list_eq_dec string_dec) a (regp x)) as [Hi|Hni]; [left; apply Hx; exact Hi|].
        destruct Hc as [Hc|Hc].
        + left. rewrite (proj1 (reg_all x c1 a) Hni). exact Hc.
        + apply in_app_iff in Hc. destruct Hc as [Hc|Hc]; [contradiction|right; exact Hc]. }
    apply L. apply in_app_iff in Ha. destruct Ha as [Ha|Ha]; [|right; exact Ha].
    destruct sf; [destruct Ha|]. destruct Ha as [<-|[]]. left. cbn [c_files cache_with]. rewrite files_get_set_same. eauto.
  - assert (L: forall c1, ((exists x, files_get (c_files c1) a = Some (Some x)) \/ In a (flat_map regp subs)) ->
               exists x, files_get (c_files (fold_left register_op subs c1)) a = Some (Some x)).
    { clear -IH. induction IH as [|x rest Hx Hrest IHl]; intros c1 Hc; cbn [fold_left flat_map] in *.
      - destruct Hc as [Hc|[]]. exact Hc.
      - apply IHl. destruct (in_dec (list_eq_dec string_dec) a (regp x)) as [Hi|Hni]; [left; apply Hx; exact Hi|].
        destruct Hc as [Hc|Hc].
        + left. rewrite (proj1 (reg_all x c1 a) Hni). exact Hc.
        + apply in_app_iff in Hc. destruct Hc as [Hc|Hc]; [contradiction|right; exact Hc]. }
    apply L. right. exact Ha.
Qed.

(* ------------------------------------------------------------------ the view after the registration *)
(* [T]: the live targets; the registered paths that hold a regular file are live targets *)
Theorem view_registered : forall T w o,
  XInv T w -> (forall a, In a (regp o) -> In a T \/ isfile (w_fs w) a = false) ->
  (forall a, In a (regp o) -> path_eqb a (w_cachefile w) = false) ->
  let w' := set_new (register_op (w_new w) o) w in
  forall a, lookup (view_fs w') a =
            if mem_path a (regp o) && isfile (w_fs w) a then lookup (w_fs w) a else lookup (view_fs w) a.
Proof.
  intros T w o HX Hreg Hncf w' a.
  assert (Hh: forall x, isfile (w_fs w) x = true -> hid w' x = hid w x \/ In x T).
  { intros x Hf. destruct (in_dec (list_eq_dec string_dec) x (regp o)) as [Hi|Hni].
    - destruct (Hreg x Hi) as [K|K]; [right; exact K|congruence].
    - left. unfold hid, cache_has_file, cache_get_file. cbn [w' w_new w_old w_cachefile set_new].
      rewrite (proj1 (reg_all o (w_new w) x) Hni). reflexivity. }
  pose proof (hm_dead T w w' HX eq_refl eq_refl Hh) as Hdead.
  destruct a as [|m q]; [cbn [lookup]; destruct (mem_path [] (regp o) && isfile (w_fs w) []); reflexivity|].
  rewrite !lookup_view_invis by discriminate. rewrite !invis_unfold. cbn [w' w_fs set_new].
  destruct (lookup (w_fs w) (m :: q)) as [[g|]|] eqn:El.
  - assert (Hf: isfile (w_fs w) (m :: q) = true) by (unfold isfile; rewrite El; reflexivity). rewrite Hf, andb_true_r.
    destruct (mem_path (m :: q) (regp o)) eqn:Em.
    + (* a registered path: claimed with a record, not the cache file: visible *)
      apply mem_path_In in Em.
      assert (Hh': hid w' (m :: q) = false).
      { unfold hid, cache_has_file, cache_get_file. cbn [w' w_new w_old w_cachefile set_new]. rewrite (Hncf _ Em). cbn [orb].
        destruct (reg_get_registered o (w_new w) _ Em) as [x Ex]. rewrite Ex. reflexivity. }
      rewrite Hh'. reflexivity.
    + assert (Hni: ~ In (m :: q) (regp o)) by (intro K; apply mem_path_In in K; congruence).
      assert (E: hid w' (m :: q) = hid w (m :: q)).
      { unfold hid, cache_has_file, cache_get_file. cbn [w' w_new w_old w_cachefile set_new].
        rewrite (proj1 (reg_all o (w_new w) (m :: q)) Hni). reflexivity. }
      rewrite E. reflexivity.
  - unfold isfile. rewrite El, andb_false_r, Hdead. reflexivity.
  - unfold isfile. rewrite El, andb_false_r. reflexivity.
Qed.

Print Assumptions reg_has_file.
Print Assumptions reg_files_all.
Print Assumptions view_registered.
