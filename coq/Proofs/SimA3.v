(* Proofs/SimA3.v — C04, the link to Core, run level: two more auxiliary statements.
   (1) c_built of the new cache (the targets passed to start_building_file) along the routines of
   build_file / subbuild; (2) Core's run does not read its log: it only pushes entries. *)
From Coq Require Import List String Ascii NArith ZArith Bool Arith Lia.
From FB.Base Require Import PyVal Fs.
From FB.Gen Require Import JsonUtilGen.
From FB.Spec Require Import JsonSpec Prog Ref.
From FB.Model Require Import Types Monad CreatedFiles BuildDirs SimpleOps Builder Persist Build Run Core.
From FB.Proofs Require Import FsLemmas JsonLaws BuildFileLaws ViewXSetup SimA0 SimA2.
Import ListNotations.
Open Scope list_scope.

Definition built_same (w w' : world) : Prop := c_built (w_new w') = c_built (w_new w).

Definition built_statement : Prop :=
  (forall p w w' r, bf_claim p w = (w', inl r) -> c_built (w_new w') = c_built (w_new w) ++ [p]) /\
  (forall p w w' r, bf_pre p w = (w', r) -> built_same w w') /\
  (forall p f sa skw w w' r, build_file_cache_lookup p f sa skw w = (w', r) -> built_same w w') /\
  (forall p c f sa skw cached w w' r, bf_reuse p c f sa skw cached w = (w', r) -> built_same w w') /\
  (forall p c f sa skw res subs w w' r, bf_finish p c f sa skw res subs w = (w', r) -> built_same w w') /\
  (forall f sa skw w w' r, sb_setup f sa skw w = (w', r) -> built_same w w') /\
  (forall f sa skw res subs w w' r, sb_finish f sa skw res subs w = (w', r) -> built_same w w') /\
  (forall q w w' r, m_query q w = (w', r) -> built_same w w').

(* Core's state with another log *)
Definition with_log (l : list logentry) (s : kstate) : kstate :=
  ks_with s (k_fs s) (k_stale s) (k_claimedF s) (k_claimedS s) (k_need s) (k_made s) (k_clock s) (k_nextid s)
          l (k_newF s) (k_newS s).

(* running from a state whose log is base ++ l0 gives the same result as running from the state
   with log l0, and the log grows by the same entries *)
Definition core_log_statement : Prop :=
  forall pr tg pend subs s l0 s' out,
    core_run pr tg pend subs (with_log l0 s) = (s', out) ->
    forall l1, exists ex,
      k_log s' = ex ++ l0 /\
      core_run pr tg pend subs (with_log l1 s) = (with_log (ex ++ l1) s', out).
