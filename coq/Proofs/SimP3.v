(* Proofs/SimP3.v — which directories a build can make or leak, under ANY injected faults and
   for EVERY outcome (committed, raised and rolled back - also when faults hit the undo -, refused):
   a directory of the tree after run_build was a directory before, or is recorded by the previous
   cache (c_dirs), or is a proper ancestor of a target of this build, of the cache file, or of a
   build_file target recorded anywhere in the previous cache:
     [build_makes_only_related_directories].
   This is the faulty analogue of the directory part of C02_rollback_state that does survive
   faults (RollbackFaults2Ex: "no new directory remains" is false under faults; what remains is
   confined to the ancestors named above), and the directory counterpart of
   build_creates_no_foreign_files.
   Invariant K: the tree is well formed (SimP1), w_old is the previous cache, every directory of
   the tree is allowed, and every proper ancestor of a backed-up path is allowed (so that
   restore_all's makedirs stays inside the allowed set; kept because a path is backed up only
   when a regular file is there, whose ancestors are directories of a well-formed tree).
   New file; edits nothing. *)
From Coq Require Import List String Ascii NArith ZArith Bool Arith Lia.
From FB.Base Require Import PyVal Fs.
From FB.Gen Require Import JsonUtilGen.
From FB.Spec Require Import Prog.
From FB.Model Require Import Types Monad CreatedFiles BuildDirs SimpleOps Builder Persist Build Run Frame.
From FB.Proofs Require Import FsLemmas ReplayLaws BuildFileLaws RollbackDirsBase FrameLaws RollbackFaultsLaws SimP1.
Import ListNotations.
Local Open Scope list_scope.

#[local] Hint Resolve m_handle_dir_exists_svb m_is_removed_svb is_file_no_read_svb is_cache_file_svb
  file_metadata_svb file_hash_svb list_dir_superset_svb file_comparison_result_svb
  m_is_file_svb m_is_dir_svb m_exists_svb exec_query_svb noneable_cmp_svb version_equal_svb
  is_build_file_cached_svb dirs_to_make_svb is_op_cached_svb are_subs_cached_svb
  build_file_cache_lookup_svb subbuild_cache_lookup_svb m_bd_started_svb m_bd_error_svb
  new_assert_no_file_svb new_assert_no_subbuild_svb m_query_svb : pres.

Lemma bcons : forall a x b, below a b = true -> below a (x :: b) = true.
Proof. intros a x b H. cbn [below]. rewrite H. apply orb_true_r. Qed.

Lemma below_dirname : forall q p, q = dirname p \/ below q (dirname p) = true -> q = [] \/ below q p = true.
Proof.
  intros q [|n p'] H; cbn [dirname tl] in H.
  - destruct H as [H|H]; [left; exact H | destruct q; discriminate H].
  - right. destruct H as [->|H]; [apply below_self_cons | apply bcons; exact H].
Qed.

Lemma rename_out_sub : forall fs p fs' n, rename_out fs p = inl (fs', n) ->
  forall q x, lookup fs' q = Some x -> lookup fs q = Some x.
Proof.
  intros fs p fs' n H q x Hq. unfold rename_out in H.
  destruct (lookup fs p) as [[g|]|] eqn:E1; destruct p as [|a d]; try discriminate H; inversion H; subst; clear H.
  - destruct (path_eq_dec q (a :: d)) as [->|N].
    + rewrite lookup_upd_eq in Hq by discriminate. discriminate Hq.
    + rewrite lookup_upd_neq in Hq by exact N. exact Hq.
  - destruct q as [|y q]; [exact Hq|]. unfold lookup, upd in Hq. cbn [raw_lookup] in Hq.
    destruct (path_eqb (a :: d) (y :: q)); [discriminate Hq|].
    change (drop_below fs (a :: d)) with (dbf (a :: d) fs fs) in Hq. apply dbf_some in Hq. exact Hq.
Qed.

Lemma makedirs_p_new : forall p fs fs' e, makedirs_p fs p = (fs', e) ->
  forall d, lookup fs' d = Some NDir -> lookup fs d = Some NDir \/ d = p \/ below d p = true.
Proof.
  induction p as [|n d0 IH]; intros fs fs' e H d Hd; cbn [makedirs_p] in H.
  - destruct (lookup fs []) as [[g|]|]; inversion H; subst; left; exact Hd.
  - destruct (lookup fs (n :: d0)) as [[g|]|]; try (inversion H; subst; left; exact Hd).
    destruct (makedirs_p fs d0) as [fs1 [e1|]] eqn:E1.
    + inversion H; subst. destruct (IH _ _ _ E1 d Hd) as [X|[X|X]]; [left; exact X | right; right | right; right].
      * subst d. apply below_self_cons.
      * apply bcons. exact X.
    + assert (Y : lookup fs1 d = Some NDir -> lookup fs d = Some NDir \/ d = n :: d0 \/ below d (n :: d0) = true).
      { intro Z. destruct (IH _ _ _ E1 d Z) as [X|[X|X]]; [left; exact X | right; right | right; right].
        - subst d. apply below_self_cons.
        - apply bcons. exact X. }
      destruct (mkdir fs1 (n :: d0)) as [fs2|e2] eqn:E2; inversion H; subst; [|exact (Y Hd)].
      apply mkdir_frame in E2. destruct E2 as (G1 & G2 & G3).
      destruct (path_eq_dec d (n :: d0)) as [->|N]; [right; left; reflexivity|].
      rewrite (G3 d N) in Hd. exact (Y Hd).
Qed.

Section Made.

Variable fs0 : fsT.               (* the tree when the build starts *)
Variable old : cache.             (* the previous build *)
Variable cf : path.               (* the cache file *)
Variable P : path -> Prop.        (* the targets of this build *)

Definition Tgt (t : path) : Prop := P t \/ t = cf \/ In t (cache_targets old).
Definition Allowed (d : path) : Prop :=
  lookup fs0 d = Some NDir \/ In d (c_dirs old) \/ exists t, Tgt t /\ below d t = true.

Lemma Allowed_root : Allowed [].
Proof. left. reflexivity. Qed.

Lemma Allowed_anc : forall t d, Tgt t -> d = dirname t \/ below d (dirname t) = true -> Allowed d.
Proof.
  intros t d Ht H. destruct (below_dirname d t H) as [->|X]; [apply Allowed_root|].
  right. right. exists t. split; assumption.
Qed.

Definition K (w : world) : Prop :=
  fs_wf (w_fs w) /\ w_old w = old /\
  (forall d, lookup (w_fs w) d = Some NDir -> Allowed d) /\
  (forall a f, In (a, f) (w_backups w) -> forall d, below d a = true -> Allowed d).

Definition kr (w w' : world) : Prop := K w -> K w'.
Lemma kr_refl : forall w, kr w w.
Proof. intros w H. exact H. Qed.
Lemma kr_trans : forall a b c, kr a b -> kr b c -> kr a c.
Proof. intros a b c A B H. apply B, A, H. Qed.
Definition KPO : PO := {| rel := kr; po_refl := kr_refl; po_trans := kr_trans |}.

Lemma kr_same : forall w w', w_fs w' = w_fs w -> w_old w' = w_old w -> w_backups w' = w_backups w -> kr w w'.
Proof. intros w w' E1 E2 E3 H. unfold K in *. rewrite E1, E2, E3. exact H. Qed.

Lemma svb_kr : forall w w', svbPO w w' -> KPO w w'.
Proof.
  cbn. unfold same_but_view. intros w w' (A1 & A2 & A3 & A4 & A5 & A6 & _). apply kr_same; assumption.
Qed.
Hint Extern 8 (pres KPO _) => apply (pres_weaken svbPO KPO _ _ svb_kr) : pres.

Lemma kr_set_log : forall l w, kr w (set_log l w).
Proof. intros l w. apply kr_same; reflexivity. Qed.

Lemma pres_bind_val_K : forall A B (m : M A) (f : A -> M B) (Phi : A -> Prop),
  pres KPO m ->
  (forall w w1 a, K w -> m w = (w1, inl a) -> Phi a) ->
  (forall a, Phi a -> pres KPO (f a)) -> pres KPO (bind m f).
Proof.
  intros A B m f Phi Hm Hv Hf w w' r H. change (kr w w'). apply bind_inv in H.
  destruct H as [(w1 & a & E1 & H) | (e & E1 & _)].
  - intro HK. pose proof (Hv _ _ _ HK E1) as Ha. exact (Hf a Ha _ _ _ H (Hm _ _ _ E1 HK)).
  - exact (Hm _ _ _ E1).
Qed.

(* ---- primitives ---- *)
Definition dstep (fs fs' : fsT) : Prop :=
  fs_wf fs' /\ forall d, lookup fs' d = Some NDir -> lookup fs d = Some NDir \/ Allowed d.

Lemma K_step : forall w w', K w -> dstep (w_fs w) (w_fs w') -> w_old w' = w_old w -> w_backups w' = w_backups w -> K w'.
Proof.
  intros w w' (A & B & C & D) (S1 & S2) E2 E3. unfold K. rewrite E2, E3.
  split; [exact S1|]. split; [exact B|]. split; [|exact D].
  intros d Hd. destruct (S2 d Hd) as [X|X]; [exact (C d X) | exact X].
Qed.

Lemma dirs_one : forall fs fs' p, (forall q, q <> p -> lookup fs' q = lookup fs q) ->
  (lookup fs' p = Some NDir -> Allowed p) ->
  forall d, lookup fs' d = Some NDir -> lookup fs d = Some NDir \/ Allowed d.
Proof.
  intros fs fs' p Hfr Hp d Hd. destruct (path_eq_dec d p) as [->|N]; [right; exact (Hp Hd)|].
  left. rewrite <- (Hfr d N). exact Hd.
Qed.

Lemma effect_K : forall what p f,
  (forall fs fs', f fs = inl fs' -> fs_wf fs -> dstep fs fs') -> pres KPO (effect what p f).
Proof.
  intros what p f Hf w w' r H HK. unfold effect in H. cbv zeta in H.
  destruct (existsb (Nat.eqb (w_effects w)) (w_faults w)).
  - inversion H; subst. exact (kr_same w _ eq_refl eq_refl eq_refl HK).
  - cbn [w_fs set_effects] in H. destruct (f (w_fs w)) as [fs'|e] eqn:E; inversion H; subst.
    + apply (K_step w); [exact HK | | reflexivity | reflexivity].
      cbn [w_fs set_log set_fs]. apply (Hf _ _ E). exact (proj1 HK).
    + exact (kr_same w _ eq_refl eq_refl eq_refl HK).
Qed.

Lemma effect_p_K : forall what p f,
  (forall fs fs' e, f fs = (fs', e) -> fs_wf fs -> dstep fs fs') -> pres KPO (effect_p what p f).
Proof.
  intros what p f Hf w w' r H HK. unfold effect_p in H. cbv zeta in H.
  destruct (existsb (Nat.eqb (w_effects w)) (w_faults w)).
  - inversion H; subst. exact (kr_same w _ eq_refl eq_refl eq_refl HK).
  - cbn [w_fs set_effects] in H. destruct (f (w_fs w)) as [fs' [e|]] eqn:E; inversion H; subst;
      (apply (K_step w); [exact HK | | reflexivity | reflexivity]);
      cbn [w_fs set_log set_fs]; apply (Hf _ _ _ E); exact (proj1 HK).
Qed.

Lemma effect_mkdir_K : forall what p d, Allowed d -> pres KPO (effect what p (fun fs => mkdir fs d)).
Proof.
  intros what p d Hd. apply effect_K. intros fs fs' H Hwf. split; [eapply mkdir_wf; eauto|].
  apply mkdir_frame in H. destruct H as (G1 & G2 & G3). apply (dirs_one fs fs' d G3). intros _. exact Hd.
Qed.
Lemma effect_rmdir_K : forall what p d, pres KPO (effect what p (fun fs => rmdir fs d)).
Proof.
  intros what p d. apply effect_K. intros fs fs' H Hwf. split; [eapply rmdir_wf; eauto|].
  apply rmdir_frame in H. destruct H as (G1 & G2 & G3 & G4 & G5). apply (dirs_one fs fs' d G5). intro X. congruence.
Qed.
Lemma effect_remove_K : forall what p d, pres KPO (effect what p (fun fs => remove fs d)).
Proof.
  intros what p d. apply effect_K. intros fs fs' H Hwf. split; [eapply remove_wf; eauto|].
  apply remove_frame in H. destruct H as (G1 & G2 & G3). apply (dirs_one fs fs' d G3). intro X. congruence.
Qed.
Lemma effect_replace_K : forall what p d f, pres KPO (effect what p (fun fs => replace_in fs d f)).
Proof.
  intros what p d f. apply effect_K. intros fs fs' H Hwf. split; [eapply replace_in_wf; eauto|].
  apply replace_in_frame in H. destruct H as (G1 & G2). apply (dirs_one fs fs' d G2). intro X. congruence.
Qed.
Lemma effect_write_K : forall what p d b j m i, pres KPO (effect what p (fun fs => write_file fs d b j m i)).
Proof.
  intros what p d b j m i. apply effect_K. intros fs fs' H Hwf. split; [eapply write_file_wf; eauto|].
  apply write_file_frame in H. destruct H as ((g & G1 & _) & G2). apply (dirs_one fs fs' d G2). intro X. congruence.
Qed.
Lemma effect_id_K : forall what p, pres KPO (effect what p (fun fs => inl fs)).
Proof. intros. apply effect_K. intros fs fs' H Hwf. inversion H; subst. split; [exact Hwf | intros d X; left; exact X]. Qed.
Lemma effect_makedirs_K : forall what p d, (forall q, q = d \/ below q d = true -> Allowed q) ->
  pres KPO (effect_p what p (fun fs => makedirs_p fs d)).
Proof.
  intros what p d Hd. apply effect_p_K. intros fs fs' e H Hwf. split; [eapply makedirs_p_wf; eauto|].
  intros q Hq. destruct (makedirs_p_new _ _ _ _ H q Hq) as [X|X]; [left; exact X | right; exact (Hd q X)].
Qed.
Hint Resolve effect_rmdir_K effect_remove_K effect_replace_K effect_write_K effect_id_K : pres.

Lemma back_up_and_remove_K : forall p, pres KPO (back_up_and_remove p).
Proof.
  intro p. unfold back_up_and_remove. apply pres_bind; [apply effect_id_K|]. intros _.
  intros w w' r H HK. cbv zeta in H.
  destruct (existsb (Nat.eqb (w_effects w)) (w_faults w));
    [inversion H; subst; exact (kr_same w _ eq_refl eq_refl eq_refl HK)|].
  cbn [w_fs set_effects] in H.
  destruct (rename_out (w_fs w) p) as [[fs' [f|]]|e] eqn:E.
  - inversion H; subst. pose proof HK as (A & B & C & D).
    split; [cbn [w_fs set_log set_backups set_fs set_effects]; eapply rename_out_wf; eauto|].
    split; [exact B|]. split.
    + cbn [w_fs set_log set_backups set_fs set_effects]. intros d Hd. apply C. eapply rename_out_sub; eauto.
    + cbn [w_backups set_log set_backups set_fs set_effects]. intros a g Hin d Hb.
      apply in_app_or in Hin. destruct Hin as [Hin|[Hin|[]]]; [eapply D; eauto|].
      inversion Hin; subst a g. apply rename_out_file_frame in E. destruct E as (G1 & _).
      apply C. exact (wf_ancestor_dir _ A _ _ _ G1 Hb).
  - inversion H; subst. pose proof HK as (A & B & C & D).
    split; [cbn [w_fs set_log set_lost set_fs set_effects]; eapply rename_out_wf; eauto|].
    split; [exact B|]. split; [|exact D].
    cbn [w_fs set_log set_lost set_fs set_effects]. intros d Hd. apply C. eapply rename_out_sub; eauto.
  - assert (G : w' = set_effects (S (w_effects w)) w) by (destruct e; inversion H; reflexivity).
    subst w'. exact (kr_same w _ eq_refl eq_refl eq_refl HK).
Qed.
Hint Resolve back_up_and_remove_K : pres.

Lemma try_to_remove_file_K : forall p, pres KPO (try_to_remove_file p).
Proof. intro p. unfold try_to_remove_file. pres_auto. Qed.

Lemma restore_one_K : forall x, (forall d, below d (fst x) = true -> Allowed d) -> pres KPO (restore_one x).
Proof.
  intros [p f] Hp. cbn [fst] in Hp. unfold restore_one.
  assert (G : pres KPO (effect_p "makedirs" (dirname p) (fun fs => makedirs_p fs (dirname p)))).
  { apply effect_makedirs_K. intros q Hq. destruct (below_dirname q p Hq) as [->|X]; [apply Allowed_root | exact (Hp q X)]. }
  pres_auto.
Qed.

Lemma restore_all_K : pres KPO restore_all.
Proof.
  intros w w' r H HK. unfold restore_all in H. unfold bind at 1, get in H.
  apply bind_inv in H. destruct H as [(w1 & u & E1 & H) | (e & E1 & _)]; [|discriminate E1].
  unfold put in E1. inversion E1; subst w1; clear E1.
  pose proof HK as (A & B & C & D).
  assert (HK1 : K (set_backups [] w)).
  { split; [exact A|]. split; [exact B|]. split; [exact C|]. cbn. intros a f []. }
  refine (pres_mapM_In KPO _ restore_one (w_backups w) _ _ _ _ H HK1).
  intros [a f] Hx. apply restore_one_K. cbn [fst]. intros d Hd. exact (D a f Hx d Hd).
Qed.

Lemma remove_empty_dirs_K : forall ds, pres KPO (remove_empty_dirs ds).
Proof. intro ds. unfold remove_empty_dirs. pres_auto. Qed.

Lemma create_dirs_K : forall ds, (forall d, In d ds -> Allowed d) -> pres KPO (create_dirs ds).
Proof.
  intros ds Hds. unfold create_dirs. apply pres_mapM_In. intros d Hd.
  unfold sort_shortest_first in Hd. apply In_sort_by' in Hd.
  pose proof (effect_mkdir_K "mkdir" d d (Hds d Hd)). pres_auto.
Qed.
Hint Resolve try_to_remove_file_K restore_all_K remove_empty_dirs_K : pres.

(* ---- directory preparation ---- *)
Lemma make_one_dir_K : forall d, Allowed d -> pres KPO (make_one_dir d).
Proof. intros d Hd. unfold make_one_dir. pose proof (effect_mkdir_K "mkdir" d d Hd). pres_auto. Qed.

Lemma make_dirs_loop_K : forall ds, (forall d, In d ds -> Allowed d) -> forall made, pres KPO (make_dirs_loop ds made).
Proof.
  induction ds as [|d ds IH]; intros Hds made; cbn [make_dirs_loop]; [apply pres_ret|].
  pose proof (make_one_dir_K d (Hds d (or_introl eq_refl))).
  pose proof (IH (fun x Hx => Hds x (or_intror Hx))). pres_auto.
Qed.

Lemma make_dirs_K : forall t, Tgt t -> pres KPO (make_dirs (dirname t)).
Proof.
  intros t Ht. unfold make_dirs.
  apply (pres_bind_val_K _ _ _ _ (fun ds => forall d, In d ds -> Allowed d)).
  - auto with pres.
  - intros w w1 ds _ E d Hd. destruct (dirs_to_make_anc _ _ _ _ _ E d Hd) as (X1 & X2).
    apply (Allowed_anc t d Ht). destruct X2 as [X2|X2]; [left | right]; exact X2.
  - intros ds Hds. pose proof (make_dirs_loop_K ds Hds []). pres_auto.
Qed.

Lemma make_room_K : forall fuel d, pres KPO (make_room fuel d).
Proof.
  induction fuel as [|fuel IH]; intro d; cbn [make_room]; pose proof effect_rmdir_K; pres_auto.
Qed.
Hint Resolve make_room_K : pres.

Lemma prepare_file_creation_K : forall p, Tgt p -> pres KPO (prepare_file_creation p).
Proof. intros p Hp. unfold prepare_file_creation. pose proof (make_dirs_K p Hp). pres_auto. Qed.

Lemma apply_step_K : forall s (k : M unit),
  (forall t, In t (op_targets s) -> Tgt t) -> pres KPO (apply_cached_subs_of s) -> pres KPO k ->
  pres KPO
    (bind (match s with
           | OBuildFile p _ _ _ _ _ _ _ false _ =>
               bind (make_dirs (dirname p)) (fun created =>
               bind (m_bd_started p created) (fun locked =>
               catch (apply_cached_subs_of s) (fun e => bind (m_bd_error p) (fun _ => raise e))))
           | OSimple _ _ _ => ret tt
           | _ => apply_cached_subs_of s
           end) (fun _ => k)).
Proof.
  intros s k Ht Hs Hk. apply pres_bind; [|intros _; exact Hk].
  destruct s as [q r e | p c f a kw subs r cr ra sf | f a kw subs r ra sf]; [apply pres_ret | | exact Hs].
  destruct ra; [exact Hs|].
  pose proof (make_dirs_K p (Ht p (or_introl eq_refl))). pres_auto.
Qed.

Lemma apply_cached_subs_of_K : forall o, (forall t, In t (op_targets o) -> Tgt t) -> pres KPO (apply_cached_subs_of o).
Proof.
  induction o as [q r e | p c f a k subs r cr ra sf IH | f a k subs r ra sf IH] using op_ind';
    intros Ht; cbn [apply_cached_subs_of].
  - apply pres_ret.
  - assert (Ht' : forall t, In t (flat_map op_targets subs) -> Tgt t).
    { intros t X. apply Ht. right. exact X. }
    clear Ht. induction IH as [|s rest Hs HF IHl]; cbn beta iota fix; [apply pres_ret|].
    apply apply_step_K.
    + intros t X. apply Ht'. cbn [flat_map]. apply in_or_app. left. exact X.
    + apply Hs. intros t X. apply Ht'. cbn [flat_map]. apply in_or_app. left. exact X.
    + apply IHl. intros t X. apply Ht'. cbn [flat_map]. apply in_or_app. right. exact X.
  - assert (Ht' : forall t, In t (flat_map op_targets subs) -> Tgt t).
    { intros t X. apply Ht. exact X. }
    clear Ht. induction IH as [|s rest Hs HF IHl]; cbn beta iota fix; [apply pres_ret|].
    apply apply_step_K.
    + intros t X. apply Ht'. cbn [flat_map]. apply in_or_app. left. exact X.
    + apply Hs. intros t X. apply Ht'. cbn [flat_map]. apply in_or_app. left. exact X.
    + apply IHl. intros t X. apply Ht'. cbn [flat_map]. apply in_or_app. right. exact X.
Qed.

(* ---- the new cache ---- *)
Lemma modify_K : forall f : world -> world,
  (forall w, w_fs (f w) = w_fs w /\ w_old (f w) = w_old w /\ w_backups (f w) = w_backups w) -> pres KPO (modify f).
Proof. intros f Hf. apply pres_modify. intro w. destruct (Hf w) as (A & B & C). apply kr_same; assumption. Qed.
Ltac mk := apply modify_K; intro; repeat split; reflexivity.

Lemma new_start_building_file_K : forall p, pres KPO (new_start_building_file p).
Proof. intro p. unfold new_start_building_file. pres_auto. mk. Qed.
Lemma new_abort_building_file_K : forall p, pres KPO (new_abort_building_file p).
Proof. intro p. unfold new_abort_building_file. mk. Qed.
Lemma new_finish_building_file_K : forall p o, pres KPO (new_finish_building_file p o).
Proof. intros p o. unfold new_finish_building_file. mk. Qed.
Lemma new_start_subbuild_K : forall k, pres KPO (new_start_subbuild k).
Proof. intro k. unfold new_start_subbuild. pres_auto. mk. Qed.
Lemma new_finish_subbuild_K : forall k o, pres KPO (new_finish_subbuild k o).
Proof. intros k o. unfold new_finish_subbuild. mk. Qed.
Lemma new_use_cached_operation_K : forall o, pres KPO (new_use_cached_operation o).
Proof.
  intros o w w' r H. unfold new_use_cached_operation in H. unfold bind at 1, get in H.
  destruct (assert_no_repeats (w_new w) o).
  - unfold put in H. inversion H; subst. apply kr_same; reflexivity.
  - inversion H; subst. apply kr_refl.
Qed.
Lemma set_created_dirs_K : forall ccd, pres KPO (set_created_dirs ccd).
Proof.
  intros ccd w w' r H. unfold set_created_dirs in H. unfold bind at 1, get in H. cbv zeta in H.
  apply bind_inv in H. destruct H as [(w1 & u & E1 & H) | (e & E1 & _)]; [|discriminate E1].
  unfold put in E1. inversion E1; subst w1; clear E1. inversion H; subst; clear H.
  apply kr_same; reflexivity.
Qed.
Hint Resolve new_start_building_file_K new_abort_building_file_K new_finish_building_file_K
  new_start_subbuild_K new_finish_subbuild_K new_use_cached_operation_K set_created_dirs_K : pres.

(* ---- commit, roll back, the cache file ---- *)
Lemma commit_K : forall err, pres KPO (commit err).
Proof.
  intro err. unfold commit. apply pres_bind; [apply pres_get|]. intro w0.
  apply pres_bind; [|intros _; apply pres_bind; [|intro; auto with pres]].
  - pres_auto.
  - generalize (c_dirs (w_old w0)). intro ds. induction ds as [|d ds IH]; pres_auto.
Qed.

Lemma roll_back_K : forall ccd, pres KPO (roll_back ccd).
Proof.
  intros ccd w w' r H HK. unfold roll_back in H. unfold bind at 1, get in H. cbv zeta in H.
  assert (C : pres KPO (create_dirs (c_dirs (w_old w)))).
  { apply create_dirs_K. intros d Hd. right. left. destruct HK as (_ & B & _). rewrite <- B. exact Hd. }
  refine ((_ : pres KPO _) w w' r H HK). pres_auto.
Qed.

Lemma write_cache_K : pres KPO write_cache.
Proof.
  unfold write_cache. apply pres_bind; [apply pres_get|]. intro w0.
  destruct (cache_to_json (w_new w0)) as [j|]; [|apply pres_raise]. cbv zeta.
  apply pres_bind; [apply effect_write_K|]. intros _.
  apply pres_bind; [|intros _; apply effect_write_K]. mk.
Qed.
Hint Resolve commit_K roll_back_K write_cache_K : pres.

(* ---- build_file, subbuild, user code ---- *)
Ltac k_facts :=
  repeat match goal with
  | E : ?m ?w = (?w1, _) |- _ =>
      lazymatch goal with
      | _ : kr w w1 |- _ => fail
      | _ => let X := fresh "RL" in
             assert (X : kr w w1) by (refine ((_ : pres KPO m) w w1 _ E); solve [pres_auto])
      end
  end.
Ltac k_chain :=
  repeat first [ eassumption
               | apply kr_refl
               | apply kr_set_log
               | eapply kr_trans; [eassumption|]
               | eapply kr_trans; [apply kr_set_log|];
                 first [ eassumption | eapply kr_trans; [eassumption|] ] ].

Definition PhiC (cached : option op) : Prop :=
  match cached with Some co => forall x, In x (op_targets co) -> Tgt x | None => True end.

Lemma bf_reuse_K : forall p c fname sargs skw cached, PhiC cached -> pres KPO (bf_reuse p c fname sargs skw cached).
Proof.
  intros p c fname sargs skw cached Hc. unfold bf_reuse. cbv zeta. destruct cached as [co|]; [|apply pres_ret].
  pose proof (apply_cached_subs_of_K co Hc). pres_auto.
Qed.

Lemma bf_claim_K : forall p, pres KPO (bf_claim p).
Proof. intro p. unfold bf_claim. pres_auto. Qed.

Lemma bf_setup_K : forall p c fname sargs skw, P p -> pres KPO (bf_setup p c fname sargs skw).
Proof.
  intros p c fname sargs skw HP. unfold bf_setup.
  apply pres_bind; [auto with pres|]. intros _.
  apply pres_bind; [auto with pres|]. intro icf.
  apply pres_bind; [destruct icf; [apply pres_raise | apply pres_ret]|]. intros _.
  apply pres_bind; [apply prepare_file_creation_K; left; exact HP|]. intro created.
  apply pres_bind; [auto with pres|]. intro locked.
  apply pres_catch; [|intro e; pres_auto].
  apply (pres_bind_val_K _ _ _ _ PhiC); [auto with pres | |].
  { intros w w1 a (_ & B & _) E. destruct a as [co|]; [|exact I].
    apply lookup_never_raised in E. destruct E as (E & _). rewrite B in E.
    intros x Hx. right. right. eapply cache_get_file_targets; eauto. }
  intros cached Hc. apply pres_bind; [apply bf_reuse_K; exact Hc|]. intro reused.
  destruct reused as [[o|eo]|]; [pres_auto | pres_auto | apply bf_claim_K].
Qed.

Lemma sb_setup_K : forall f sa skw, pres KPO (sb_setup f sa skw).
Proof.
  intros f sa skw. unfold sb_setup. cbv zeta.
  apply pres_bind; [auto with pres|]. intros _.
  apply (pres_bind_val_K _ _ _ _ PhiC); [auto with pres | |].
  { intros w0 w1 x (_ & B & _) E. destruct x as [co|]; [|exact I].
    apply sublookup_never_raised in E. destruct E as (E & _). rewrite B in E.
    intros y Hy. right. right. eapply subs_get_targets; eauto. }
  intros cached Hc. destruct cached as [co|]; [|pres_auto].
  pose proof (apply_cached_subs_of_K co Hc). pres_auto.
Qed.

Lemma m_build_file_K : forall p c f a kw fn, P p ->
  (forall sa skw, pres KPO (fn p sa skw)) -> pres KPO (m_build_file p c f a kw fn).
Proof.
  intros p c f a kw fn HP Hfn w w' r H. rewrite m_build_file_unfold in H.
  destruct (sanitize a) as [sa|]; [|inversion H; subst; apply kr_refl].
  destruct (sanitize kw) as [skw|]; [|inversion H; subst; apply kr_refl].
  pose proof (bf_setup_K p c f sa skw HP) as T1.
  destruct (bf_setup p c f sa skw w) as [w1 res] eqn:Hs.
  change (kr w w').
  unfold bf_tail in H. cbv zeta in H.
  repeat dm H; inversion H; subst; k_facts; k_chain.
Qed.

Lemma m_subbuild_K : forall f a kw fn,
  (forall sa skw, pres KPO (fn sa skw)) -> pres KPO (m_subbuild f a kw fn).
Proof.
  intros f a kw fn Hfn w w' r H. rewrite m_subbuild_unfold in H.
  destruct (sanitize a) as [sa|]; [|inversion H; subst; apply kr_refl].
  destruct (sanitize kw) as [skw|]; [|inversion H; subst; apply kr_refl].
  pose proof (sb_setup_K f sa skw) as T1.
  destruct (sb_setup f sa skw w) as [w1 res] eqn:Hs.
  change (kr w w').
  unfold sb_rebuild, sb_invoke_world, sb_finish in H. cbv zeta in H.
  repeat dm H; inversion H; subst; k_facts; k_chain.
Qed.

Lemma kr_log_answer : forall q r w, kr w (log_answer q r w).
Proof.
  intros q r w. unfold log_answer.
  repeat match goal with |- context [match ?x with _ => _ end] => destruct x end;
    first [apply kr_refl | apply kr_set_log].
Qed.

Theorem run_K : forall pr, AllTargets P pr -> forall target subs, pres KPO (run pr target subs).
Proof.
  intros pr Hat.
  induction Hat as [v | e | s q k Hk IHk | c k Hk IHk | s p c f a kw fn k Hp Hfn IHfn Hk IHk
                    | s f a kw fn k Hfn IHfn Hk IHk];
    intros target subs w w' r H; cbn [run] in H; change (kr w w').
  - inversion H; subst. apply kr_refl.
  - inversion H; subst. apply kr_refl.
  - destruct s; [eapply IHk; eauto|].
    destruct (m_query q w) as [w1 [r1 o]] eqn:E.
    assert (E' : kr w w1) by (exact (pres_weaken svbPO KPO _ _ svb_kr (m_query_svb q) _ _ _ E)).
    apply IHk in H. eapply kr_trans; [exact E'|]. eapply kr_trans; [apply kr_log_answer | exact H].
  - destruct target as [t|]; [|eapply IHk; eauto].
    destruct (write_file (w_fs w) t c None (N.succ (w_clock w)) (w_nextid w)) as [fs'|e] eqn:E;
      [|inversion H; subst; apply kr_refl].
    apply IHk in H. eapply kr_trans; [|exact H].
    intro HK. apply (K_step w); [exact HK | | reflexivity | reflexivity].
    cbn [w_fs set_clock set_fs]. split; [eapply write_file_wf; [exact E | exact (proj1 HK)]|].
    apply write_file_frame in E. destruct E as ((g & G1 & _) & G2). apply (dirs_one _ _ t G2). intro X. congruence.
  - destruct s; [eapply IHk; eauto|].
    match type of H with (let '(_, _) := ?X in _) = _ => destruct X as [w1 [r1 o]] eqn:E end.
    apply m_build_file_K in E; [| exact Hp |].
    + apply IHk in H. eapply kr_trans; eauto.
    + intros sa skw. apply IHfn.
  - destruct s; [eapply IHk; eauto|].
    match type of H with (let '(_, _) := ?X in _) = _ => destruct X as [w1 [r1 o]] eqn:E end.
    apply m_subbuild_K in E.
    + apply IHk in H. eapply kr_trans; eauto.
    + intros sa skw. apply IHfn.
Qed.

(* ---- the whole build ---- *)
Lemma K_start : forall w nm svers, fs0 = w_fs w -> fs_wf (w_fs w) -> K (start_world w cf old nm svers).
Proof.
  intros w nm svers E Hwf. unfold K, start_world. cbn [w_fs w_old w_backups].
  split; [exact Hwf|]. split; [reflexivity|]. split; [|intros a f []].
  intros d Hd. left. rewrite E. exact Hd.
Qed.

Lemma m_build_dirs : forall nm vers svers root w w' r,
  sanitize vers = Some svers -> old = old_cache_of (w_fs w) cf nm svers -> fs0 = w_fs w -> fs_wf (w_fs w) ->
  pres KPO root ->
  m_build cf nm vers root w = (w', r) -> forall d, lookup (w_fs w') d = Some NDir -> Allowed d.
Proof.
  intros nm vers svers root w w' r Hsv Hold Hfs Hwf Hroot H. unfold m_build in H. rewrite Hsv in H.
  cbv beta iota zeta in H. unfold old_cache_of in Hold.
  pose proof (make_dirs_K cf (or_intror (or_introl eq_refl))) as T1.
  pose proof (K_start w nm svers Hfs Hwf) as HK0.
  assert (HA : forall w2, kr (start_world w cf old nm svers) w2 -> forall d, lookup (w_fs w2) d = Some NDir -> Allowed d).
  { intros w2 X. destruct (X HK0) as (_ & _ & C & _). exact C. }
  assert (HR : forall d, lookup (w_fs w) d = Some NDir -> Allowed d).
  { intros d Hd. left. rewrite Hfs. exact Hd. }
  destruct (lookup (w_fs w) cf) as [[f|]|].
  - destruct (cache_of_json (f_json f)) as [old0| |].
    + subst old0. destruct (String.eqb (c_name old) nm); [| inversion H; subst; exact HR].
      apply HA. clear HA HK0 HR.
      repeat dm H; inversion H; subst; k_facts; k_chain.
    + inversion H; subst; exact HR.
    + inversion H; subst; exact HR.
  - inversion H; subst; exact HR.
  - rewrite <- Hold in H. apply HA. clear HA HK0 HR.
    repeat dm H; inversion H; subst; k_facts; k_chain.
Qed.

End Made.

Theorem build_makes_only_related_directories : forall cf nm vers svers root w w' r (P : path -> Prop),
  sanitize vers = Some svers -> AllTargets P root -> fs_wf (w_fs w) ->
  run_build cf nm vers root w = (w', r) ->
  forall d, lookup (w_fs w') d = Some NDir ->
    lookup (w_fs w) d = Some NDir \/
    In d (c_dirs (old_cache_of (w_fs w) cf nm svers)) \/
    exists t, (P t \/ t = cf \/ In t (cache_targets (old_cache_of (w_fs w) cf nm svers))) /\ below d t = true.
Proof.
  intros cf nm vers svers root w w' r P Hsv Hat Hwf H d Hd. unfold run_build in H.
  destruct (m_build cf nm vers (fun w0 => run root None [] w0) w) as [w1 r1] eqn:E.
  inversion H; subst. cbn [end_build w_fs set_lost set_backups] in Hd.
  exact (m_build_dirs (w_fs w) (old_cache_of (w_fs w) cf nm svers) cf P nm vers svers _ w w1 _
           Hsv eq_refl eq_refl Hwf (run_K (w_fs w) (old_cache_of (w_fs w) cf nm svers) cf P root Hat None []) E d Hd).
Qed.

(* in particular a directory that appears (after any outcome, under any faults: a directory a
   faulted clean-up leaked, or one a commit keeps) is recorded by the previous cache or is a proper
   ancestor of a target, of the cache file or of a recorded target *)
Corollary new_directory_is_recorded_or_ancestor : forall cf nm vers svers root w w' r (P : path -> Prop),
  sanitize vers = Some svers -> AllTargets P root -> fs_wf (w_fs w) ->
  run_build cf nm vers root w = (w', r) ->
  forall d, lookup (w_fs w) d = None -> lookup (w_fs w') d = Some NDir ->
    In d (c_dirs (old_cache_of (w_fs w) cf nm svers)) \/
    exists t, (P t \/ t = cf \/ In t (cache_targets (old_cache_of (w_fs w) cf nm svers))) /\ below d t = true.
Proof.
  intros cf nm vers svers root w w' r P Hsv Hat Hwf H d Hn Hd.
  destruct (build_makes_only_related_directories cf nm vers svers root w w' r P Hsv Hat Hwf H d Hd) as [X|X];
    [congruence | exact X].
Qed.

Print Assumptions build_makes_only_related_directories.
Print Assumptions new_directory_is_recorded_or_ancestor.
