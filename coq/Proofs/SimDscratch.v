From Coq Require Import List String Ascii NArith ZArith Bool Arith Lia.
From FB.Base Require Import PyVal Fs.
From FB.Gen Require Import JsonUtilGen.
From FB.Spec Require Import JsonSpec Prog Ref Oracle Faithful.
From FB.Model Require Import Types Monad CreatedFiles BuildDirs SimpleOps Builder Persist Build Run Frame Dsl Core CoreOracle.
From FB.Proofs Require Import FsLemmas ViewDefs ViewK2 ViewK3 SimA0 SimAEx SimB1 SimC0 SimCEx.
Import ListNotations.
Open Scope string_scope. Open Scope list_scope.
(* final tree after commit = view at the end of the root function, except the cache file *)
Definition commit_view (cf : path) (nm : string) (vers : pyval) (root : prog) (w : world) : bool * string :=
  match mech_root cf nm vers root w with
  | Some (_, (w2, (r, _))) =>
      let '(w', res) := run_build cf nm vers root w in
      let ps := map fst (w_fs w') ++ map fst (w_fs w2) in
      (forallb (fun p => path_eqb p cf || node_sameb (lookup (w_fs w') p) (lookup (view_fs w2) p)) ps, show_result res)
  | None => (false, "")
  end.
Eval vm_compute in map (commit_view SimCEx.Ex.CF "n" SimCEx.Ex.V SimCEx.Ex.root) [SimCEx.Ex.w0; SimCEx.Ex.w1; SimCEx.Ex.w2'; SimCEx.Ex.w3].
Import SimAEx.Ex.
Eval vm_compute in map (fun r => commit_view CF0 "n" (PDict []) r init_world) [r1;r2;r2x;r3;r4;r5;r6].
Eval vm_compute in map (fun r => commit_view CF0 "n" (PDict []) r w_r2) [r1;r2;r2x;r3;r4;r5;r6].
Eval vm_compute in map (fun r => commit_view CF0 "n" (PDict []) r w_r6) [r1;r2;r2x;r3;r4;r5;r6].
Eval vm_compute in map (commit_view ViewK3.Check.CF0 "n" ViewK3.Check.V ViewK3.Check.root) [init_world; ViewK3.Check.pre2; fst ViewK3.Check.h2].
