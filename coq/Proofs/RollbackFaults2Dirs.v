(* Proofs/RollbackFaults2Dirs.v -- the directory half of C14, what survives injected faults.

   RollbackFaults2Ex.v shows that statement (2) of rollback_leaves_nothing_new (no new
   directory remains) is FALSE under forward faults (two faults, or one fault on the cleanup
   rmdir after a genuine mkdir failure, leave a directory behind).  Statement (3),
   "no directory is lost", does survive: this file carries the two clauses of DInv that are
   robust,
        D3  a directory of the pre-state is still there unless the old cache recorded it,
        W   every directory BuildDirs tracks (created, error-created, candidates) and every
            directory made for the cache file was recorded by the old cache or was not a
            directory of the pre-state,
   along every run WITH ANY fault list ([DF], an unconditional preorder: no hypothesis on
   the world at all), and RollbackFaults2Main.v concludes from them once the faults lie
   before the undo.  New file of round 3; edits nothing. *)
From Coq Require Import List String Ascii NArith ZArith Bool Arith Lia Sorted.
From FB.Base Require Import PyVal Fs.
From FB.Gen Require Import JsonUtilGen.
From FB.Spec Require Import Prog.
From FB.Model Require Import Types Monad CreatedFiles BuildDirs SimpleOps Builder Persist Build Run Frame.
From FB.Proofs Require Import FsLemmas ReplayLaws FrameLaws CleanLaws RollbackDirsLaws
     RollbackDirsView RollbackDirsBase RollbackDirsInv RollbackDirsMake RollbackDirsRun.
Import ListNotations.
Local Open Scope list_scope.

Section DF.

Variable fs0 : fsT.
Variable old : cache.

Notation WP := (Wp fs0 old).

Definition DF (Y : list path) (w : world) : Prop :=
  (forall d, lookup fs0 d = Some NDir -> lookup (w_fs w) d = Some NDir \/ In d (c_dirs old)) /\
  (forall d, tracked (w_bd w) d \/ In d (bd_removed (w_bd w)) \/ In d (bd_maybe (w_bd w)) \/ In d Y -> WP d).

Definition DFRel (Y : list path) (w w' : world) : Prop := DF Y w -> DF Y w'.
Lemma DFRel_refl : forall Y w, DFRel Y w w.
Proof. intros Y w H. exact H. Qed.
Lemma DFRel_trans : forall Y a b c, DFRel Y a b -> DFRel Y b c -> DFRel Y a c.
Proof. intros Y a b c H1 H2 H. apply H2, H1, H. Qed.
Definition DFPO (Y : list path) : PO := {| rel := DFRel Y; po_refl := DFRel_refl Y; po_trans := DFRel_trans Y |}.

Lemma DF_same : forall Y w w', w_fs w' = w_fs w -> w_bd w' = w_bd w -> DF Y w -> DF Y w'.
Proof. intros Y w w' E1 E2 H. unfold DF in *. rewrite E1, E2. exact H. Qed.

Lemma DF_weaken : forall Y Y' w, DF Y w -> (forall d, In d Y' -> WP d) -> DF Y' w.
Proof.
  intros Y Y' w [D3 W] H. split; [exact D3|]. intros d [Hd|[Hd|[Hd|Hd]]]; [apply W; auto | apply W; auto | apply W; auto | exact (H d Hd)].
Qed.

Lemma dkeep_DF : forall Y w w', dkeepPO w w' -> DFPO Y w w'.
Proof.
  intros Y w w' (B & S & _) [D3 W]. split.
  - intros d Hd. destruct (D3 d Hd) as [Z|Z]; [left; apply S; exact Z | right; exact Z].
  - rewrite B. exact W.
Qed.

Lemma view_DF : forall Y w w', viewPO w w' -> DFPO Y w w'.
Proof.
  intros Y w w' ((F & _) & (C1 & C2 & C3 & C4)) [D3 W]. split.
  - rewrite F. exact D3.
  - unfold tracked. rewrite C2, C3. intros d [Hd|[Hd|[Hd|Hd]]]; apply W; auto.
    + destruct (C4 d (or_introl Hd)) as [Z|Z]; auto.
    + destruct (C4 d (or_intror Hd)) as [Z|Z]; auto.
Qed.

Lemma pres_view_DF : forall Y A (m : world -> world * A), pres viewPO m -> pres (DFPO Y) m.
Proof. intros Y A m. apply pres_weaken. apply view_DF. Qed.
Lemma pres_dkeep_DF : forall Y A (m : world -> world * A), pres dkeepPO m -> pres (DFPO Y) m.
Proof. intros Y A m. apply pres_weaken. apply dkeep_DF. Qed.

Lemma Wp_absent : forall Y w d, DF Y w -> lookup (w_fs w) d <> Some NDir -> WP d.
Proof.
  intros Y w d [D3 _] H. unfold Wp. destruct (lookup fs0 d) as [[g|]|] eqn:E; try (right; discriminate).
  destruct (D3 d E) as [Z|Z]; [contradiction | left; exact Z].
Qed.

Lemma Wp_virtual_absent : forall Y d w w', DF Y w -> m_is_dir d None w = (w', inl false) -> WP d.
Proof.
  intros Y d w w' HD H. destruct (m_is_dir_false _ _ _ H) as [Z|Z].
  - apply (Wp_absent Y w d HD). intro E. unfold isdir in Z. rewrite E in Z. discriminate Z.
  - destruct HD as [_ W]. apply W. destruct Z as [Z|Z]; auto.
Qed.

(* ---- effects ---- *)
Lemma effect_DF : forall Y what p f,
  (forall fs fs', f fs = inl fs' -> forall q, lookup fs q = Some NDir -> lookup fs' q = Some NDir \/ WP q) ->
  pres (DFPO Y) (effect what p f).
Proof.
  intros Y what p f Hf w w' r H [D3 W]. unfold effect in H. cbv zeta in H.
  destruct (existsb (Nat.eqb (w_effects w)) (w_faults w)).
  { inversion H; subst. split; assumption. }
  cbn [w_fs set_effects] in H. destruct (f (w_fs w)) as [fs'|e] eqn:E; inversion H; subst; clear H; [|split; assumption].
  split; [|exact W]. cbn [w_fs set_log set_fs set_effects].
  intros d Hd. destruct (D3 d Hd) as [Z|Z]; [|right; exact Z].
  destruct (Hf _ _ E d Z) as [K|[K|K]]; [left; exact K | right; exact K | contradiction].
Qed.

Lemma effect_mkdir_DF : forall Y what d, pres (DFPO Y) (effect what d (fun fs => mkdir fs d)).
Proof.
  intros Y what d. apply effect_DF. intros fs fs' H q Hq. left.
  apply mkdir_frame in H. destruct H as (G1 & G2 & G3).
  destruct (path_eq_dec q d) as [->|N]; [exact G1 | rewrite (G3 q N); exact Hq].
Qed.

Lemma effect_rmdir_DF : forall Y what d, WP d -> pres (DFPO Y) (effect what d (fun fs => rmdir fs d)).
Proof.
  intros Y what d Hw. apply effect_DF. intros fs fs' H q Hq.
  apply rmdir_frame in H. destruct H as (_ & _ & _ & _ & G5).
  destruct (path_eq_dec q d) as [->|N]; [right; exact Hw | left; rewrite (G5 q N); exact Hq].
Qed.

Lemma pres_mapM_In : forall (Q : PO) A (f : A -> M unit) l,
  (forall x, In x l -> pres Q (f x)) -> pres Q (mapM_ f l).
Proof.
  intros Q A f l. induction l as [|x l IH]; intro Hf; cbn [mapM_]; [apply pres_ret|].
  apply pres_bind; [apply Hf; left; reflexivity|]. intro. apply IH. intros y Hy. apply Hf. right. exact Hy.
Qed.

Lemma remove_empty_dirs_DF : forall Y L, (forall d, In d L -> WP d) -> pres (DFPO Y) (remove_empty_dirs L).
Proof.
  intros Y L HL. rewrite remove_empty_dirs_eq. apply pres_mapM_In. intros d Hin.
  unfold rmdir_step. apply pres_catch; [|intro e; destruct (is_os e); [apply pres_ret | apply pres_raise]].
  apply effect_rmdir_DF. apply HL. unfold sort_longest_first in Hin. apply In_sort_by' in Hin. exact Hin.
Qed.

(* ---- _make_dirs ---- *)
Lemma make_one_dir_DF : forall Y d w w' r, make_one_dir d w = (w', r) -> DF Y w ->
  DF Y w' /\ (r = inl true -> WP d).
Proof.
  intros Y d w w' r H HD. unfold make_one_dir in H. unfold bind at 1, get in H.
  assert (G : forall wm, DF Y wm ->
            catch (bind (effect "mkdir" d (fun fs => mkdir fs d)) (fun _ => ret true))
                  (fun e => if is_os_class XFileExists e then ret false else raise e) wm = (w', r) ->
            DF Y w' /\ (r = inl true -> WP d)).
  { intros wm HDm Hc. unfold catch in Hc.
    destruct (bind (effect "mkdir" d (fun fs => mkdir fs d)) (fun _ => ret true) wm) as [w1 [b|e]] eqn:Eb.
    - inversion Hc; subst w1 r; clear Hc.
      apply bind_inv in Eb. destruct Eb as [(w2 & u & E1 & E2) | (e & _ & Y0)]; [|discriminate Y0].
      inversion E2; subst w2 b; clear E2.
      split; [exact (effect_mkdir_DF Y _ _ _ _ _ E1 HDm)|]. intros _.
      apply (Wp_absent Y wm d HDm). unfold effect in E1. cbv zeta in E1.
      destruct (existsb (Nat.eqb (w_effects wm)) (w_faults wm)); [discriminate E1|].
      cbn [w_fs set_effects] in E1. destruct (mkdir (w_fs wm) d) as [fs'|e] eqn:Em; [|discriminate E1].
      apply mkdir_frame in Em. destruct Em as (_ & G2 & _). rewrite G2. discriminate.
    - apply bind_inv in Eb. destruct Eb as [(w2 & u & _ & E2) | (e0 & E1 & Y0)]; [discriminate E2|].
      inversion Y0; subst e0.
      assert (HD1 : DF Y w1) by exact (effect_mkdir_DF Y _ _ _ _ _ E1 HDm).
      destruct (is_os_class XFileExists e); inversion Hc; subst; (split; [exact HD1 | discriminate]). }
  destruct (isfile (w_fs w) d && cache_created_file (w_old w) d) eqn:Eg.
  - apply andb_true_iff in Eg. destruct Eg as [Ef _]. apply isfile_not_dir in Ef.
    apply bind_inv in H. destruct H as [(wm & u & E1 & H) | (e & E1 & ->)].
    + apply bind_inv in E1. destruct E1 as [(w2 & b & E2 & E3) | (e & _ & Y0)]; [|discriminate Y0].
      inversion E3; subst w2 u; clear E3.
      apply (G wm); [|exact H]. exact (dkeep_DF Y _ _ (back_up_dkeep _ _ _ _ E2 Ef) HD).
    + apply bind_inv in E1. destruct E1 as [(w2 & b & _ & E3) | (e0 & E2 & _)]; [discriminate E3|].
      split; [exact (dkeep_DF Y _ _ (back_up_dkeep _ _ _ _ E2 Ef) HD) | discriminate].
  - apply bind_inv in H. destruct H as [(wm & u & E1 & H) | (e & E1 & _)]; [|discriminate E1].
    inversion E1; subst wm u. exact (G w HD H).
Qed.

Lemma make_dirs_loop_DF : forall Y ds made, (forall d, In d made -> WP d) -> pres (DFPO Y) (make_dirs_loop ds made).
Proof.
  intros Y. induction ds as [|d ds IH]; intros made Hm; cbn [make_dirs_loop]; [apply pres_ret|].
  intros w w' r H HD. apply bind_inv in H. destruct H as [(w1 & res & E1 & H) | (e & E1 & _)].
  2:{ unfold attempt in E1. destruct (make_one_dir d w); discriminate E1. }
  unfold attempt in E1. destruct (make_one_dir d w) as [wa ra] eqn:Em. inversion E1; subst wa res; clear E1.
  destruct (make_one_dir_DF Y _ _ _ _ Em HD) as [HD1 Hw].
  destruct ra as [b|e].
  - refine (IH _ _ _ _ _ H HD1). destruct b; [|exact Hm].
    intros x Hx. apply in_app_or in Hx. destruct Hx as [Hx|[<-|[]]]; [apply Hm; exact Hx | apply Hw; reflexivity].
  - destruct (is_os e); [|inversion H; subst; exact HD1].
    apply bind_inv in H. destruct H as [(w2 & u & E2 & H) | (e0 & E2 & _)].
    + inversion H; subst. exact (remove_empty_dirs_DF Y made Hm _ _ _ E2 HD1).
    + exact (remove_empty_dirs_DF Y made Hm _ _ _ E2 HD1).
Qed.

Lemma dirs_to_make_DF : forall Y parent w w' r, dirs_to_make parent None w = (w', r) -> DF Y w ->
  DF Y w' /\ (forall ds, r = inl ds -> forall d, In d ds -> WP d).
Proof.
  intros Y. induction parent as [|n d0 IH]; intros w w' r H HD.
  - split; [exact (view_DF Y _ _ (dirs_to_make_view _ _ _ _ _ H) HD)|].
    intros ds -> d Hd. cbn [dirs_to_make] in H.
    apply bind_inv in H. destruct H as [(w1 & isd & E1 & H) | (e & _ & Y0)]; [|discriminate Y0].
    destruct isd; minv H; try contradiction.
  - split; [exact (view_DF Y _ _ (dirs_to_make_view _ _ _ _ _ H) HD)|].
    intros ds -> d Hd. cbn [dirs_to_make] in H.
    apply bind_inv in H. destruct H as [(w1 & isd & E1 & H) | (e & _ & Y0)]; [|discriminate Y0].
    destruct isd; [minv H; contradiction|].
    pose proof (Wp_virtual_absent Y _ _ _ HD E1) as Hw.
    pose proof (view_DF Y _ _ (m_is_dir_view _ _ _ _ _ E1) HD) as HD1.
    apply bind_inv in H. destruct H as [(w2 & isf & E2 & H) | (e & _ & Y0)]; [|discriminate Y0].
    pose proof (view_DF Y _ _ (m_is_file_view _ _ _ _ _ E2) HD1) as HD2.
    destruct isf; [inversion H|].
    apply bind_inv in H. destruct H as [(w3 & icf & E3 & H) | (e & _ & Y0)]; [|discriminate Y0].
    pose proof (view_DF Y _ _ (is_cache_file_view _ _ _ _ E3) HD2) as HD3.
    destruct icf; [inversion H|].
    apply bind_inv in H. destruct H as [(w4 & r & E4 & H) | (e & _ & Y0)]; [|discriminate Y0].
    inversion H; subst; clear H.
    destruct (IH _ _ _ E4 HD3) as [_ A1].
    apply in_app_or in Hd. destruct Hd as [Hd|[<-|[]]]; [exact (A1 r eq_refl d Hd) | exact Hw].
Qed.

Lemma make_dirs_DF : forall Y dd w w' r, make_dirs dd w = (w', r) -> DF Y w ->
  DF Y w' /\ (forall ds, r = inl ds -> forall d, In d ds -> WP d).
Proof.
  intros Y dd w w' r H HD. unfold make_dirs in H.
  apply bind_inv in H. destruct H as [(w0 & ds & E0 & H) | (e & E0 & ->)].
  2:{ split; [exact (proj1 (dirs_to_make_DF Y _ _ _ _ E0 HD)) | intros ds Y0; discriminate Y0]. }
  destruct (dirs_to_make_DF Y _ _ _ _ E0 HD) as [HD0 Hds].
  apply bind_inv in H. destruct H as [(w1 & u & E1 & H) | (e & E1 & ->)].
  - inversion H; subst. split; [exact (make_dirs_loop_DF Y ds [] (fun d (K : In d []) => False_ind _ K) _ _ _ E1 HD0)|].
    intros ds0 Y0 d Hd. inversion Y0; subst ds0. exact (Hds ds eq_refl d Hd).
  - split; [exact (make_dirs_loop_DF Y ds [] (fun d (K : In d []) => False_ind _ K) _ _ _ E1 HD0) | intros ds0 Y0; discriminate Y0].
Qed.

(* ---- BuildDirs ---- *)
Lemma m_bd_started_DF : forall Y p ds, (forall d, In d ds -> WP d) -> pres (DFPO Y) (m_bd_started p ds).
Proof.
  intros Y p ds Hds w w' r H [D3 W]. unfold m_bd_started in H.
  destruct (bd_started (w_bd w) p ds) as [b l] eqn:Eb. inversion H; subst; clear H.
  destruct (bd_started_spec _ _ _ _ _ Eb) as (S1 & S2 & _ & S4 & _).
  split; [exact D3|]. cbn [w_bd set_bd]. rewrite S1, S2.
  intros d [Hd|[Hd|[Hd|Hd]]]; [|apply W; auto | apply W; auto | apply W; auto].
  destruct (S4 d Hd) as [Z|Z]; [apply W; auto | exact (Hds d Z)].
Qed.

Lemma m_bd_error_DF : forall Y p, pres (DFPO Y) (m_bd_error p).
Proof.
  intros Y p w w' r H [D3 W]. unfold m_bd_error in H.
  destruct (bd_error (w_bd w) p) as [b|] eqn:Eb; inversion H; subst; clear H; [|split; assumption].
  destruct (bd_error_spec _ _ _ Eb) as (S1 & S2 & S3 & _).
  split; [exact D3|]. cbn [w_bd set_bd]. rewrite S1.
  intros d [Hd|[Hd|[Hd|Hd]]]; [apply W; left; apply S2; exact Hd | apply W; auto | | apply W; auto].
  destruct (S3 d Hd) as [Z|Z]; [apply W; auto | apply W; left; left; exact Z].
Qed.

Lemma make_lock_DF : forall Y dd p A (k : list path -> M A),
  (forall l, pres (DFPO Y) (k l)) ->
  pres (DFPO Y) (bind (make_dirs dd) (fun created => bind (m_bd_started p created) k)).
Proof.
  intros Y dd p A k Hk w w' r H HD.
  apply bind_inv in H. destruct H as [(w1 & ds & E1 & H) | (e & E1 & ->)].
  - destruct (make_dirs_DF Y _ _ _ _ E1 HD) as [HD1 Hds].
    refine (pres_bind (DFPO Y) _ _ _ _ (m_bd_started_DF Y p ds (Hds ds eq_refl)) Hk _ _ _ H HD1).
  - exact (proj1 (make_dirs_DF Y _ _ _ _ E1 HD)).
Qed.

(* ---- _make_room ---- *)
Lemma make_room_DF : forall Y fuel d, WP d -> pres (DFPO Y) (make_room fuel d).
Proof.
  intros Y. induction fuel as [|fuel IH]; intros d Hw; cbn [make_room]; [apply pres_raise|].
  apply pres_bind; [apply pres_get|]. intro w0.
  destruct (listdir (w_fs w0) d) as [names|e]; [|apply pres_raise].
  apply pres_bind.
  - apply pres_mapM_. intro n.
    intros w w' r H HD. unfold bind at 1, get in H.
    destruct (isdir (w_fs w) (n :: d)) eqn:Ed.
    + apply bind_inv in H. destruct H as [(w1 & vd & E1 & H) | (e & E1 & _)].
      2:{ exact (view_DF Y _ _ (m_is_dir_view _ _ _ _ _ E1) HD). }
      pose proof (view_DF Y _ _ (m_is_dir_view _ _ _ _ _ E1) HD) as HD1.
      destruct vd; [inversion H; subst; exact HD1|].
      pose proof (Wp_virtual_absent Y _ _ _ HD E1) as Hwa.
      exact (IH (n :: d) Hwa _ _ _ H HD1).
    + apply bind_inv in H. destruct H as [(w1 & vf & E1 & H) | (e & E1 & _)].
      2:{ exact (view_DF Y _ _ (m_is_file_view _ _ _ _ _ E1) HD). }
      pose proof (m_is_file_view _ _ _ _ _ E1) as V1.
      pose proof (view_DF Y _ _ V1 HD) as HD1.
      assert (Ffs : w_fs w1 = w_fs w) by (destruct V1 as ((F & _) & _); exact F).
      destruct vf; [inversion H; subst; exact HD1|].
      assert (K : dkeep w1 w').
      { apply bind_inv in H. destruct H as [(w2 & b & E2 & H) | (e & E2 & _)].
        - inversion H; subst. eapply back_up_dkeep; eauto. rewrite Ffs. exact Ed.
        - eapply back_up_dkeep; eauto. rewrite Ffs. exact Ed. }
      exact (dkeep_DF Y _ _ K HD1).
  - intros _. apply pres_catch.
    + apply effect_rmdir_DF. exact Hw.
    + intro e. destruct (is_os e); apply pres_raise.
Qed.

Lemma pfc_room_DF : forall Y p, pres (DFPO Y) (pfc_room p).
Proof.
  intros Y p w w' r H HD. unfold pfc_room in H. unfold bind at 1, get in H.
  destruct (isdir (w_fs w) p) eqn:Ed; [|inversion H; subst; exact HD].
  apply bind_inv in H. destruct H as [(w1 & vd & E1 & H) | (e & E1 & _)].
  2:{ exact (view_DF Y _ _ (m_is_dir_view _ _ _ _ _ E1) HD). }
  pose proof (view_DF Y _ _ (m_is_dir_view _ _ _ _ _ E1) HD) as HD1.
  destruct vd; [inversion H; subst; exact HD1|].
  pose proof (Wp_virtual_absent Y _ _ _ HD E1) as Hwa.
  exact (make_room_DF Y room_fuel p Hwa _ _ _ H HD1).
Qed.

(* ---- everything else ---- *)
#[local] Hint Resolve m_handle_dir_exists_view m_is_removed_view is_file_no_read_view is_cache_file_view
  file_metadata_view file_hash_view list_dir_superset_view file_comparison_result_view
  m_is_file_view m_is_dir_view m_exists_view exec_query_view noneable_cmp_view version_equal_view
  is_build_file_cached_view dirs_to_make_view is_op_cached_view are_subs_cached_view
  build_file_cache_lookup_view subbuild_cache_lookup_view
  new_assert_no_file_view new_assert_no_subbuild_view m_query_view : pres.
#[local] Hint Extern 8 (pres (DFPO _) _) => apply pres_view_DF : pres.
#[local] Hint Extern 8 (pres (DFPO _) _) => apply pres_dkeep_DF : pres.
#[local] Hint Resolve try_to_remove_file_dkeep new_start_building_file_dkeep new_abort_building_file_dkeep
  new_finish_building_file_dkeep new_start_subbuild_dkeep new_finish_subbuild_dkeep
  new_use_cached_operation_dkeep guarded_backup_dkeep : pres.
#[local] Hint Resolve m_bd_error_DF pfc_room_DF : pres.

Lemma apply_step_DF : forall Y s (k : M unit),
  pres (DFPO Y) (apply_cached_subs_of s) -> pres (DFPO Y) k ->
  pres (DFPO Y)
    (bind (match s with
           | OBuildFile p _ _ _ _ _ _ _ false _ =>
               bind (make_dirs (dirname p)) (fun created =>
               bind (m_bd_started p created) (fun locked =>
               catch (apply_cached_subs_of s) (fun e => bind (m_bd_error p) (fun _ => raise e))))
           | OSimple _ _ _ => ret tt
           | _ => apply_cached_subs_of s
           end) (fun _ => k)).
Proof.
  intros Y s k Hs Hk. apply pres_bind; [|intros _; exact Hk].
  destruct s as [q r e | p c f a kw subs r cr ra sf | f a kw subs r ra sf]; [apply pres_ret | | exact Hs].
  destruct ra; [exact Hs|].
  apply make_lock_DF. intro locked. pres_auto.
Qed.

Lemma apply_cached_subs_of_DF : forall Y o, pres (DFPO Y) (apply_cached_subs_of o).
Proof.
  intros Y. induction o as [q r e | p c f a k subs r cr ra sf IH | f a k subs r ra sf IH] using op_ind';
    cbn [apply_cached_subs_of].
  - apply pres_ret.
  - induction IH as [|s rest Hs HF IHl]; cbn beta iota fix; [apply pres_ret|].
    apply apply_step_DF; [exact Hs | exact IHl].
  - induction IH as [|s rest Hs HF IHl]; cbn beta iota fix; [apply pres_ret|].
    apply apply_step_DF; [exact Hs | exact IHl].
Qed.
#[local] Hint Resolve apply_cached_subs_of_DF : pres.

Lemma bf_claim_DF : forall Y p, pres (DFPO Y) (bf_claim p).
Proof. intros Y p. unfold bf_claim. pres_auto. Qed.
#[local] Hint Resolve bf_claim_DF : pres.

Lemma bf_reuse_DF : forall Y p c fname sargs skw cached, pres (DFPO Y) (bf_reuse p c fname sargs skw cached).
Proof. intros Y p c fname sargs skw cached. unfold bf_reuse. cbv zeta. pres_auto. Qed.
#[local] Hint Resolve bf_reuse_DF : pres.

Lemma bf_setup_DF : forall Y p c fname sargs skw, pres (DFPO Y) (bf_setup p c fname sargs skw).
Proof.
  intros Y p c fname sargs skw. unfold bf_setup.
  apply pres_bind; [auto with pres|]. intros _.
  apply pres_bind; [auto with pres|]. intro icf.
  apply pres_bind; [destruct icf; [apply pres_raise | apply pres_ret]|]. intros _.
  eapply pres_ext; [intro; apply prep_assoc|].
  apply pres_bind; [apply pfc_room_DF|]. intros _.
  apply make_lock_DF. intro locked. pres_auto.
Qed.

Lemma DFRel_set_log : forall Y l w, DFRel Y w (set_log l w).
Proof. intros Y l w H. apply (DF_same Y w); [reflexivity | reflexivity | exact H]. Qed.

Ltac relD_facts Y :=
  repeat match goal with
  | E : ?m ?w = (?w1, _) |- _ =>
      lazymatch goal with
      | _ : DFRel Y w w1 |- _ => fail
      | _ => let Z := fresh "RL" in
             assert (Z : DFRel Y w w1) by (refine ((_ : pres (DFPO Y) m) w w1 _ E); solve [pres_auto])
      end
  end.
Ltac relD_chain :=
  repeat first [ eassumption
               | apply DFRel_refl
               | apply DFRel_set_log
               | eapply DFRel_trans; [eassumption|]
               | eapply DFRel_trans; [apply DFRel_set_log|];
                 first [ eassumption | eapply DFRel_trans; [eassumption|] ] ].

Lemma bf_tail_none_DF : forall Y p c fname sargs skw fn w1 w' r,
  (forall sa skw', pres (DFPO Y) (fn p sa skw')) ->
  bf_tail p c fname sargs skw fn (w1, inl None) = (w', r) -> DFRel Y w1 w'.
Proof.
  intros Y p c fname sargs skw fn w1 w' r Hfn H. unfold bf_tail in H. cbv zeta in H.
  repeat dm H; inversion H; subst; relD_facts Y; relD_chain.
Qed.

Lemma m_build_file_DF : forall Y p c f a kw fn,
  (forall sa skw, pres (DFPO Y) (fn p sa skw)) -> pres (DFPO Y) (m_build_file p c f a kw fn).
Proof.
  intros Y p c f a kw fn Hfn w w' r H. rewrite m_build_file_unfold in H.
  destruct (sanitize a) as [sa|]; [|inversion H; subst; apply DFRel_refl].
  destruct (sanitize kw) as [skw|]; [|inversion H; subst; apply DFRel_refl].
  destruct (bf_setup p c f sa skw w) as [w1 sr] eqn:Hs.
  pose proof (bf_setup_DF Y p c f sa skw _ _ _ Hs) as R1. change (DFRel Y w w1) in R1.
  change (DFRel Y w w').
  destruct sr as [[[o|[e o]]|]|e]; try (cbn in H; inversion H; subst; exact R1).
  pose proof (bf_tail_none_DF Y _ _ _ _ _ _ _ _ _ Hfn H) as R2.
  eapply DFRel_trans; eauto.
Qed.

Lemma m_subbuild_DF : forall Y f a kw fn,
  (forall sa skw, pres (DFPO Y) (fn sa skw)) -> pres (DFPO Y) (m_subbuild f a kw fn).
Proof.
  intros Y f a kw fn Hfn w w' r H. unfold m_subbuild in H.
  destruct (sanitize a) as [sa|]; [|inversion H; subst; apply DFRel_refl].
  destruct (sanitize kw) as [skw|]; [|inversion H; subst; apply DFRel_refl].
  cbv zeta in H.
  match type of H with (match ?Z with _ => _ end) = _ => destruct Z as [w1 res] eqn:Hs end.
  change (DFRel Y w w').
  repeat dm H; inversion H; subst; relD_facts Y; relD_chain.
Qed.

Lemma DFRel_log_answer : forall Y q r w, DFRel Y w (log_answer q r w).
Proof. intros Y q r w. apply dkeep_DF. apply dkeep_log_answer. Qed.

(* every program, any faults *)
Theorem run_DF : forall Y pr target subs, pres (DFPO Y) (run pr target subs).
Proof.
  intros Y.
  induction pr as [v | e | s q k IHk | c k IHk | s p c f a kw fn IHfn k IHk | s f a kw fn IHfn k IHk];
    intros target subs w w' r H; cbn [run] in H; change (DFRel Y w w').
  - inversion H; subst. apply DFRel_refl.
  - inversion H; subst. apply DFRel_refl.
  - destruct s; [eapply IHk; eauto|].
    destruct (m_query q w) as [w1 [r1 o]] eqn:E.
    apply (pres_view_DF Y _ _ (m_query_view q)) in E. apply IHk in H.
    eapply DFRel_trans; [exact E|]. eapply DFRel_trans; [apply DFRel_log_answer | exact H].
  - destruct target as [p|]; [|eapply IHk; eauto].
    destruct (write_file (w_fs w) p c None (N.succ (w_clock w)) (w_nextid w)) as [fs'|e] eqn:E.
    + apply IHk in H. eapply DFRel_trans; [|exact H].
      apply dkeep_DF. split; [reflexivity|]. cbn [w_fs set_clock set_fs].
      split; [eapply write_file_dirs_same; eauto | eapply write_file_wf; eauto].
    + inversion H; subst. apply DFRel_refl.
  - destruct s; [eapply IHk; eauto|].
    match type of H with (let '(_, _) := ?Z in _) = _ => destruct Z as [w1 [r1 o]] eqn:E end.
    apply (m_build_file_DF Y p c f a kw) in E.
    + apply IHk in H. eapply DFRel_trans; [exact E | exact H].
    + intros sa skw. apply IHfn.
  - destruct s; [eapply IHk; eauto|].
    match type of H with (let '(_, _) := ?Z in _) = _ => destruct Z as [w1 [r1 o]] eqn:E end.
    apply (m_subbuild_DF Y f a kw) in E.
    + apply IHk in H. eapply DFRel_trans; [exact E | exact H].
    + intros sa skw. apply IHfn.
Qed.

End DF.

Print Assumptions run_DF.
