(* Proofs/OpsGenLaws.v — the definitions regenerated from file_builder.py (Gen/OpsGen.v, written by
   tools/translate/operations_tr.py: the operations of class FileBuilder) equal the hand-written routines of
   Model/Builder.v (and how Model/Run.v uses them).  Pointwise in the world and the builder state: no functional
   extensionality.  See tools/translate/OPSGEN_NOTES.md for the tables and the list of differences. *)
From Coq Require Import List String NArith ZArith Bool Arith.
From FB.Base Require Import PyVal Fs.
From FB.Gen Require Import JsonUtilGen.
From FB.Model Require Import Types Monad CreatedFiles BuildDirs SimpleOps Builder.
From FB.Spec Require Import Prog.
From FB.Model Require Import Build Run Dsl.
From FB.Proofs Require Import ReplayLaws BuildFileLaws HashMemoInv.
From FB.Gen Require Import OpsGen.
Import ListNotations.
Open Scope list_scope.
Open Scope m_scope.

(* ---- the monad M, pointwise ---- *)
Lemma og_bind_cong : forall {A B} (m1 m2 : M A) (f1 f2 : A -> M B),
  (forall w, m1 w = m2 w) -> (forall a w, f1 a w = f2 a w) -> forall w, bind m1 f1 w = bind m2 f2 w.
Proof.
  intros A B m1 m2 f1 f2 H1 H2 w. unfold bind. rewrite H1.
  destruct (m2 w) as [w' [a|e]]; [apply H2|reflexivity].
Qed.

Lemma og_bind_assoc : forall {A B C} (m : M A) (f : A -> M B) (g : B -> M C) w,
  bind (bind m f) g w = bind m (fun a => bind (f a) g) w.
Proof. intros. unfold bind. destruct (m w) as [w' [a|e]]; reflexivity. Qed.

Lemma og_bind_unf : forall {A B} (m : M A) (f : A -> M B) w,
  bind m f w = match m w with (w', inl a) => f a w' | (w', inr e) => (w', inr e) end.
Proof. reflexivity. Qed.

Lemma og_ret_unf : forall {A} (a : A) w, ret a w = (w, inl a).
Proof. reflexivity. Qed.
Lemma og_raise_unf : forall {A} (e : exn) w, @raise A e w = (w, inr e).
Proof. reflexivity. Qed.
Lemma og_attempt_unf : forall {A} (m : M A) w, attempt m w = match m w with (w', r) => (w', inl r) end.
Proof. reflexivity. Qed.
Lemma og_catch_unf : forall {A} (m : M A) h w,
  catch m h w = match m w with (w', inl a) => (w', inl a) | (w', inr e) => h e w' end.
Proof. reflexivity. Qed.
Ltac mred := repeat (progress (rewrite ?og_bind_unf, ?og_ret_unf, ?og_raise_unf, ?og_attempt_unf, ?og_catch_unf; cbv beta iota)).

Lemma og_bind_ret_r : forall {A} (m : M A) w, bind m (fun a => ret a) w = m w.
Proof. intros. unfold bind, ret. destruct (m w) as [w' [a|e]]; reflexivity. Qed.

(* ---- induction on the nested type of records ---- *)
Section OpInd.
  Variable P : op -> Prop.
  Hypothesis HS : forall q r e, P (OSimple q r e).
  Hypothesis HB : forall p c f a k subs r cr ra sf, Forall P subs -> P (OBuildFile p c f a k subs r cr ra sf).
  Hypothesis HU : forall f a k subs r ra sf, Forall P subs -> P (OSubbuild f a k subs r ra sf).
  Fixpoint og_op_ind (o : op) : P o :=
    let go := fix go (l : list op) : Forall P l :=
      match l with [] => Forall_nil _ | x :: xs => Forall_cons _ (og_op_ind x) (go xs) end in
    match o with
    | OSimple q r e => HS q r e
    | OBuildFile p c f a k subs r cr ra sf => HB p c f a k subs r cr ra sf (go subs)
    | OSubbuild f a k subs r ra sf => HU f a k subs r ra sf (go subs)
    end.
End OpInd.

Definition is_complex (o : op) : Prop := match o with OSimple _ _ _ => False | _ => True end.

(* ================= comparison of the output file ================= *)

Lemma gen_fb_priv_noneable_file_comparison_result_eq : forall p c w,
  gen_fb_priv_noneable_file_comparison_result p c w = noneable_cmp p c w.
Proof.
  intros p c w. unfold gen_fb_priv_noneable_file_comparison_result, noneable_cmp, bind, attempt, catch.
  destruct (file_comparison_result p c w) as [w' [v|e]]; reflexivity.
Qed.

(* _is_build_file_cached(operation): the model's routine takes the three fields it reads; on POSIX _has_case is True *)
Lemma gen_fb_priv_is_build_file_cached_eq : forall p c f a k subs r cr ra sf w,
  gen_fb_priv_is_build_file_cached (OBuildFile p c f a k subs r cr ra sf) w = is_build_file_cached p c cr w.
Proof.
  intros. unfold gen_fb_priv_is_build_file_cached, is_build_file_cached.
  apply og_bind_cong; [apply gen_fb_priv_noneable_file_comparison_result_eq|reflexivity].
Qed.

(* a record of another class has no `filename`: AttributeError (the model's routine cannot be called on one) *)
Lemma gen_fb_priv_is_build_file_cached_other : forall o w,
  match o with OBuildFile _ _ _ _ _ _ _ _ _ _ => False | _ => True end ->
  gen_fb_priv_is_build_file_cached o w = (w, inr (XCrash "AttributeError")).
Proof. intros [| |] w H; [reflexivity|destruct H|reflexivity]. Qed.

(* ================= replay of a cached record ================= *)

(* _is_simple_operation_cached: the operation versions of both caches are None in the model (table PURE_CALLS);
   the name is one of OPERATIONS because it comes from a [query] *)
Lemma gen_fb_priv_is_simple_operation_cached_eq : forall q r ex cf w,
  gen_fb_priv_is_simple_operation_cached (OSimple q r ex) cf w = is_simple_operation_cached q r ex cf w.
Proof.
  intros q r ex cf w. unfold gen_fb_priv_is_simple_operation_cached, is_simple_operation_cached.
  change (negb (is_equal PNone PNone)) with false. cbv iota.
  unfold bind, attempt, get. cbv beta iota.
  destruct (exec_query q (Some cf) w) as [w' [v|e]].
  - unfold ret, oerr_eqb. destruct ex; reflexivity.
  - destruct e as [n|k| |c|s]; try reflexivity;
      cbn [is_os exn_os_class]; unfold ret, oerr_eqb; destruct ex; reflexivity.
Qed.

Lemma gen_fb_priv_is_simple_operation_cached_other : forall o cf w,
  is_complex o -> gen_fb_priv_is_simple_operation_cached o cf w = (w, inr (XCrash "AttributeError")).
Proof. intros [| |] cf w H; [destruct H|reflexivity|reflexivity]. Qed.

(* the local loop of the model's is_op_cached is are_subs_cached *)
Definition model_subs_cached : list op -> cfiles -> M (bool * cfiles) :=
  fix go (subs : list op) (cf : cfiles) {struct subs} : M (bool * cfiles) :=
    match subs with
    | [] => ret (true, cf)
    | s :: rest => r <- is_op_cached s cf ;; if fst r then go rest (snd r) else ret (false, snd r)
    end.

Lemma model_subs_cached_eq : forall subs cf w, model_subs_cached subs cf w = are_subs_cached subs cf w.
Proof.
  induction subs as [|s rest IH]; intros cf w; [reflexivity|].
  cbn [model_subs_cached are_subs_cached]. apply og_bind_cong; [reflexivity|].
  intros r w'. destruct (fst r); [apply IH|reflexivity].
Qed.

Definition gen_subs_loop := gen_fb_priv_are_suboperations_cached_loop1
  gen_fb_priv_is_build_file_operation_cached gen_fb_priv_is_subbuild_operation_cached.

(* what the lemma says of one record: the routine of its class *)
Definition replay_ok (o : op) : Prop :=
  forall cf w,
    match o with
    | OSimple _ _ _ => True
    | OBuildFile _ _ _ _ _ _ _ _ _ _ => gen_fb_priv_is_build_file_operation_cached o cf w = is_op_cached o cf w
    | OSubbuild _ _ _ _ _ _ _ => gen_fb_priv_is_subbuild_operation_cached o cf w = is_op_cached o cf w
    end.

Lemma gen_subs_loop_eq : forall subs, Forall replay_ok subs ->
  forall cf w, gen_subs_loop subs cf w = model_subs_cached subs cf w.
Proof.
  induction 1 as [|s rest Hs Hrest IH]; intros cf w; [reflexivity|].
  unfold gen_subs_loop in *. cbn [gen_fb_priv_are_suboperations_cached_loop1 model_subs_cached].
  destruct s as [q r e | p c f a k subs r cr ra sf | f a k subs r ra sf].
  - cbn [is_op_cached]. rewrite og_bind_assoc.
    apply og_bind_cong; [apply gen_fb_priv_is_simple_operation_cached_eq|].
    intros b w'. unfold bind at 1. unfold ret at 1. cbn [fst snd].
    destruct b; cbn [negb]; [apply IH|reflexivity].
  - apply og_bind_cong; [intro w0; apply (Hs cf w0)|].
    intros r0 w'. cbv zeta. destruct (fst r0); cbn [negb]; [apply IH|reflexivity].
  - apply og_bind_cong; [intro w0; apply (Hs cf w0)|].
    intros r0 w'. cbv zeta. destruct (fst r0); cbn [negb]; [apply IH|reflexivity].
Qed.

Lemma replay_ok_all : forall o, replay_ok o.
Proof.
  induction o as [q r e | p c f a k subs r cr ra sf IH | f a k subs r ra sf IH] using og_op_ind;
    intros cf w; [exact I| |].
  - cbn [gen_fb_priv_is_build_file_operation_cached is_op_cached]. cbv zeta.
    change (fix go (subs0 : list op) (cf0 : cfiles) {struct subs0} : M (bool * cfiles) :=
              match subs0 with
              | [] => ret (true, cf0)
              | s :: rest => r0 <- is_op_cached s cf0 ;; (if fst r0 then go rest (snd r0) else ret (false, snd r0))
              end) with model_subs_cached.
    unfold gen_fb_priv_are_suboperations_cached_open.
    fold gen_subs_loop.
    unfold version_equal, m_cf_error. unfold bind, get, ret, attempt, raise. cbv beta iota.
    destruct (cache_has_file (w_new w) p || path_eqb p (w_cachefile w)); [reflexivity|].
    destruct (is_equal (func_version (w_old w) f) (func_version (w_new w) f)); cbn [negb]; [|reflexivity].
    destruct ra; cbn [negb andb orb].
    + destruct (lexists (w_fs w) p); cbn [orb]; [reflexivity|]. destruct sf; [reflexivity|].
      destruct (dirs_to_make (dirname p) (Some cf) w) as [w1 [ds|e]]; [|destruct (is_os e); reflexivity].
      rewrite (gen_subs_loop_eq subs IH).
      destruct (model_subs_cached subs (cf_started cf p) w1) as [w2 [r2|e]]; [|reflexivity].
      destruct (fst r2); cbn [negb]; [|reflexivity]. destruct (cf_error (snd r2) p); reflexivity.
    + rewrite gen_fb_priv_is_build_file_cached_eq.
      destruct (is_build_file_cached p c cr w) as [w1 [ok|e]]; [|reflexivity].
      destruct ok; cbn [negb]; [|reflexivity]. destruct sf; [reflexivity|].
      destruct (dirs_to_make (dirname p) (Some cf) w1) as [w2 [ds|e]]; [|destruct (is_os e); reflexivity].
      rewrite (gen_subs_loop_eq subs IH).
      destruct (model_subs_cached subs (cf_started cf p) w2) as [w3 [r2|e]]; [|reflexivity].
      destruct (fst r2); reflexivity.
  - cbn [gen_fb_priv_is_subbuild_operation_cached is_op_cached]. cbv zeta.
    change (fix go (subs0 : list op) (cf0 : cfiles) {struct subs0} : M (bool * cfiles) :=
              match subs0 with
              | [] => ret (true, cf0)
              | s :: rest => r0 <- is_op_cached s cf0 ;; (if fst r0 then go rest (snd r0) else ret (false, snd r0))
              end) with model_subs_cached.
    unfold gen_fb_priv_are_suboperations_cached_open.
    fold gen_subs_loop.
    unfold version_equal. unfold bind, get, ret. cbv beta iota.
    destruct (is_equal (func_version (w_old w) f) (func_version (w_new w) f)); cbn [negb orb]; [|reflexivity].
    destruct sf; [reflexivity|].
    destruct (cache_has_subbuild (w_new w) (subbuild_key f a k)); [reflexivity|].
    apply (gen_subs_loop_eq subs IH).
Qed.

(* _is_build_file_operation_cached / _is_subbuild_operation_cached: the model's is_op_cached on a record of that class *)
Lemma gen_fb_priv_is_build_file_operation_cached_eq : forall p c f a k subs r cr ra sf cf w,
  gen_fb_priv_is_build_file_operation_cached (OBuildFile p c f a k subs r cr ra sf) cf w
  = is_op_cached (OBuildFile p c f a k subs r cr ra sf) cf w.
Proof. intros. apply (replay_ok_all (OBuildFile p c f a k subs r cr ra sf)). Qed.

Lemma gen_fb_priv_is_subbuild_operation_cached_eq : forall f a k subs r ra sf cf w,
  gen_fb_priv_is_subbuild_operation_cached (OSubbuild f a k subs r ra sf) cf w
  = is_op_cached (OSubbuild f a k subs r ra sf) cf w.
Proof. intros. apply (replay_ok_all (OSubbuild f a k subs r ra sf)). Qed.

(* the loop of _are_suboperations_cached (dispatch on the class of each record) *)
Lemma gen_fb_priv_are_suboperations_cached_loop1_eq : forall subs cf w,
  gen_fb_priv_are_suboperations_cached_loop1
    gen_fb_priv_is_build_file_operation_cached gen_fb_priv_is_subbuild_operation_cached subs cf w
  = are_subs_cached subs cf w.
Proof.
  intros. rewrite <- model_subs_cached_eq. apply gen_subs_loop_eq.
  apply Forall_forall. intros o _. apply replay_ok_all.
Qed.

(* _are_suboperations_cached(operation, created_files) = the model's loop over operation.suboperations *)
Lemma gen_fb_priv_are_suboperations_cached_eq : forall o cf w, is_complex o ->
  gen_fb_priv_are_suboperations_cached o cf w = are_subs_cached (op_subs o) cf w.
Proof.
  intros [q r e | p c f a k subs r cr ra sf | f a k subs r ra sf] cf w H; [destruct H| |];
    apply gen_fb_priv_are_suboperations_cached_loop1_eq.
Qed.

(* a SimpleOperation has no suboperations: AttributeError in Python; the model's are_subs_cached takes the list *)
Lemma gen_fb_priv_are_suboperations_cached_simple : forall q r e cf w,
  gen_fb_priv_are_suboperations_cached (OSimple q r e) cf w = (w, inr (XCrash "AttributeError")).
Proof. reflexivity. Qed.

(* _is_subbuild_operation_cached on a BuildFileOperation (never called so: the caller dispatches on the class) runs the
   subbuild checks on the fields the two classes share; _is_build_file_operation_cached on a SubbuildOperation is
   AttributeError *)
Lemma gen_fb_priv_is_build_file_operation_cached_other : forall o cf w,
  match o with OBuildFile _ _ _ _ _ _ _ _ _ _ => False | _ => True end ->
  gen_fb_priv_is_build_file_operation_cached o cf w = (w, inr (XCrash "AttributeError")).
Proof. intros [| |] cf w H; [reflexivity|destruct H|reflexivity]. Qed.

(* ================= _apply_cached_suboperations ================= *)

Definition model_apply_loop : list op -> M unit :=
  fix go (subs : list op) : M unit :=
    match subs with
    | [] => ret tt
    | s :: rest =>
        (match s with
         | OBuildFile p _ _ _ _ _ _ _ false _ =>
             created <- make_dirs (dirname p) ;;
             locked <- m_bd_started p created ;;
             catch (apply_cached_subs_of s) (fun e => m_bd_error p ;;; raise e)
         | OSimple _ _ _ => ret tt
         | _ => apply_cached_subs_of s
         end) ;;; go rest
    end.

Lemma gen_apply_loop_eq : forall subs,
  Forall (fun o => is_complex o -> forall w, gen_fb_priv_apply_cached_suboperations o w = apply_cached_subs_of o w) subs ->
  forall w, gen_fb_priv_apply_cached_suboperations_loop1 gen_fb_priv_apply_cached_suboperations subs w
            = model_apply_loop subs w.
Proof.
  induction 1 as [|s rest Hs Hrest IH]; intros w; [reflexivity|].
  cbn [gen_fb_priv_apply_cached_suboperations_loop1 model_apply_loop].
  destruct s as [q r e | p c f a k subs r cr ra sf | f a k subs r ra sf].
  - apply IH.
  - destruct ra; cbn [negb].
    + apply og_bind_cong; [intro w0; apply Hs; exact I|]. intros _ w'. apply IH.
    + cbv zeta. rewrite !og_bind_assoc. apply og_bind_cong; [reflexivity|]. intros created w1.
      rewrite og_bind_assoc. apply og_bind_cong; [reflexivity|]. intros locked w2.
      unfold bind, attempt, catch, ret, raise.
      rewrite (Hs I w2).
      destruct (apply_cached_subs_of (OBuildFile p c f a k subs r cr false sf) w2) as [w3 [u|e]].
      * apply IH.
      * destruct (m_bd_error p w3) as [w4 [u|e']]; reflexivity.
  - apply og_bind_cong; [intro w0; apply Hs; exact I|]. intros _ w'. apply IH.
Qed.

Lemma gen_fb_priv_apply_cached_suboperations_eq : forall o, is_complex o ->
  forall w, gen_fb_priv_apply_cached_suboperations o w = apply_cached_subs_of o w.
Proof.
  induction o as [q r e | p c f a k subs r cr ra sf IH | f a k subs r ra sf IH] using og_op_ind; intros H w;
    [destruct H| |]; cbn [gen_fb_priv_apply_cached_suboperations apply_cached_subs_of];
    rewrite (gen_apply_loop_eq subs IH); reflexivity.
Qed.

(* a SimpleOperation: AttributeError in Python (`operation.suboperations`), nothing in the model *)
Lemma gen_fb_priv_apply_cached_suboperations_simple_differs : forall q r e w,
  gen_fb_priv_apply_cached_suboperations (OSimple q r e) w = (w, inr (XCrash "AttributeError"))
  /\ apply_cached_subs_of (OSimple q r e) w = (w, inl tt).
Proof. intros. split; reflexivity. Qed.

(* ================= _sanitize_args ================= *)

Lemma gen_fb_priv_sanitize_args_eq : forall args kwargs w,
  gen_fb_priv_sanitize_args args kwargs w
  = match sanitize args, sanitize kwargs with
    | Some sa, Some skw => (w, inl (sa, skw))
    | _, _ => (w, inr XType)
    end.
Proof.
  intros. unfold gen_fb_priv_sanitize_args, bind, attempt, sanitize_m, ret, raise.
  destruct (sanitize args); [destruct (sanitize kwargs)|]; reflexivity.
Qed.

(* ================= the builder's own state ================= *)

(* a sub-builder: FileBuilder(o, <shared objects>) *)
Definition bs (o : opr) : bstate := {| b_op := Some o; b_finished_build := false |}.

(* _assert_not_finished passes *)
Definition not_finished (b : bstate) : Prop :=
  match b_op b with Some o => r_is_finished o = false | None => b_finished_build b = false end.

(* self._operation.suboperations.append(x); the root builder has no record *)
Definition app_sub (b : bstate) (x : option op) : bstate :=
  match x, b_op b with
  | Some x, Some o => {| b_op := Some (set_r_suboperations o (r_suboperations o ++ [x]));
                         b_finished_build := b_finished_build b |}
  | _, _ => b
  end.

Ltac bm_unfold :=
  unfold bbind, lift, self_op_bf, self_op, self_opt, self_update, self_finished_build, bret, braise, battempt, bs;
  cbn [b_op b_finished_build].

(* _assert_not_finished: nothing when the builder is still running, RuntimeError otherwise (the model has no
   is_finished flags: Model/Run.v answers RFinished for a [stale] call) *)
Lemma gen_fb_priv_assert_not_finished_ok : forall b w, not_finished b ->
  gen_fb_priv_assert_not_finished b w = ((b, w), inl tt).
Proof.
  intros [[o|] fb] w H; unfold not_finished in H; cbn [b_op b_finished_build] in H;
    unfold gen_fb_priv_assert_not_finished; bm_unfold; rewrite H; reflexivity.
Qed.

Lemma gen_fb_priv_assert_not_finished_stale : forall b w, ~ not_finished b ->
  gen_fb_priv_assert_not_finished b w = ((b, w), inr (XRuntime RFinished)).
Proof.
  intros [[o|] fb] w H; unfold not_finished in H; cbn [b_op b_finished_build] in H;
    unfold gen_fb_priv_assert_not_finished; bm_unfold.
  - destruct (r_is_finished o); [|exfalso; apply H; reflexivity].
    cbn [b_op b_finished_build]. destruct (r_kind o) eqn:K; cbn [b_op b_finished_build]; rewrite ?K; reflexivity.
  - destruct fb; [reflexivity|exfalso; apply H; reflexivity].
Qed.

Lemma gen_fb_priv_append_suboperation_ok : forall x b w, not_finished b ->
  gen_fb_priv_append_suboperation x b w = ((app_sub b (Some x), w), inl tt).
Proof.
  intros x b w H. unfold gen_fb_priv_append_suboperation.
  unfold bbind at 1. unfold self_opt at 1. destruct b as [[o|] fb]; cbn [b_op].
  - unfold bbind at 1. rewrite gen_fb_priv_assert_not_finished_ok by exact H. reflexivity.
  - unfold bbind at 1. rewrite gen_fb_priv_assert_not_finished_ok by exact H. reflexivity.
Qed.

Lemma gen_fb_priv_append_suboperation_stale : forall x b w, ~ not_finished b ->
  gen_fb_priv_append_suboperation x b w = ((b, w), inr (XRuntime RFinished)).
Proof.
  intros x b w H. unfold gen_fb_priv_append_suboperation.
  unfold bbind at 1. unfold self_opt at 1. destruct b as [[o|] fb]; cbn [b_op];
    unfold bbind at 1; rewrite gen_fb_priv_assert_not_finished_stale by exact H; reflexivity.
Qed.

(* ================= the queries ================= *)

(* _exec_simple_operation(SimpleOperation(name, args)) = m_query: the record is appended whatever happens *)
Lemma gen_fb_priv_exec_simple_operation_eq : forall q b w, not_finished b ->
  gen_fb_priv_exec_simple_operation (new_SimpleOperation q PNone None false) b w
  = let '(w1, (r, o)) := m_query q w in ((app_sub b o, w1), r).
Proof.
  intros q b w H. unfold gen_fb_priv_exec_simple_operation, m_query.
  unfold bbind at 1. rewrite gen_fb_priv_assert_not_finished_ok by exact H.
  unfold bbind at 1. unfold battempt, bbind at 1, lift. cbn [s_q new_SimpleOperation].
  destruct (exec_query q None w) as [w1 [v|e]].
  - cbv zeta. cbn [s_q s_return_value s_exception_type_str s_is_finished set_s_return_value set_s_is_finished
                   new_SimpleOperation freeze_s bret].
    unfold bbind. rewrite gen_fb_priv_append_suboperation_ok by exact H. reflexivity.
  - destruct e as [n|k| |c|s]; cbn [is_os]; cbv zeta;
      cbn [s_q s_return_value s_exception_type_str s_is_finished set_s_exception_type_str set_s_is_finished
           new_SimpleOperation freeze_s exn_os_class];
      unfold bbind; rewrite gen_fb_priv_append_suboperation_ok by exact H; reflexivity.
Qed.

Lemma gen_fb_priv_exec_simple_operation_stale : forall so b w, ~ not_finished b ->
  gen_fb_priv_exec_simple_operation so b w = ((b, w), inr (XRuntime RFinished)).
Proof.
  intros so b w H. unfold gen_fb_priv_exec_simple_operation.
  unfold bbind at 1. rewrite gen_fb_priv_assert_not_finished_stale by exact H. reflexivity.
Qed.

(* what a query method gives: the result of m_query, the record appended to the builder's suboperations *)
Definition query_result (q : query) (b : bstate) (w : world) : (bstate * world) * (pyval + exn) :=
  let '(w1, (r, o)) := m_query q w in ((app_sub b o, w1), r).

Lemma gen_fb_list_dir_eq : forall p b w, not_finished b -> gen_fb_list_dir p b w = query_result (QListDir p) b w.
Proof. intros. apply gen_fb_priv_exec_simple_operation_eq; assumption. Qed.
Lemma gen_fb_walk_eq : forall p td b w, not_finished b -> gen_fb_walk p td b w = query_result (QWalk p td) b w.
Proof. intros. apply gen_fb_priv_exec_simple_operation_eq; assumption. Qed.
Lemma gen_fb_is_file_eq : forall p b w, not_finished b -> gen_fb_is_file p b w = query_result (QIsFile p) b w.
Proof. intros. apply gen_fb_priv_exec_simple_operation_eq; assumption. Qed.
Lemma gen_fb_is_dir_eq : forall p b w, not_finished b -> gen_fb_is_dir p b w = query_result (QIsDir p) b w.
Proof. intros. apply gen_fb_priv_exec_simple_operation_eq; assumption. Qed.
Lemma gen_fb_exists_eq : forall p b w, not_finished b -> gen_fb_exists p b w = query_result (QExists p) b w.
Proof. intros. apply gen_fb_priv_exec_simple_operation_eq; assumption. Qed.
Lemma gen_fb_get_size_eq : forall p b w, not_finished b -> gen_fb_get_size p b w = query_result (QGetSize p) b w.
Proof. intros. apply gen_fb_priv_exec_simple_operation_eq; assumption. Qed.

(* read_text / read_binary: the query, then open(): the content stands for the file object *)
Definition read_result (p : path) (c : cmpmode) (b : bstate) (w : world) : (bstate * world) * (pyval + exn) :=
  let '(w1, (r, o)) := m_query (QRead p c) w in
  match r with
  | inl _ => ((app_sub b o, fst (m_open_read p w1)), snd (m_open_read p w1))
  | inr e => ((app_sub b o, w1), inr e)
  end.

Lemma gen_fb_read_text_eq : forall p c b w, not_finished b -> gen_fb_read_text p c b w = read_result p c b w.
Proof.
  intros p c b w H. unfold gen_fb_read_text, read_result. cbv zeta. unfold bbind.
  rewrite gen_fb_priv_exec_simple_operation_eq by exact H.
  destruct (m_query (QRead p c) w) as [w1 [[v|e] o]]; [|reflexivity].
  unfold lift. destruct (m_open_read p w1) as [w2 r]. reflexivity.
Qed.

Lemma gen_fb_read_binary_eq : forall p c b w, not_finished b -> gen_fb_read_binary p c b w = read_result p c b w.
Proof. exact gen_fb_read_text_eq. Qed.

(* declare_read: the query, nothing returned *)
Lemma gen_fb_declare_read_eq : forall p c b w, not_finished b ->
  gen_fb_declare_read p c b w
  = let '(w1, (r, o)) := m_query (QRead p c) w in
    ((app_sub b o, w1), match r with inl _ => inl tt | inr e => inr e end).
Proof.
  intros p c b w H. unfold gen_fb_declare_read, bbind.
  rewrite gen_fb_priv_exec_simple_operation_eq by exact H.
  destruct (m_query (QRead p c) w) as [w1 [[v|e] o]]; reflexivity.
Qed.

(* every query method of a finished builder raises (Model/Run.v: the [stale] flag of Ask) *)
Lemma gen_fb_queries_stale : forall p c td b w, ~ not_finished b ->
  let r := ((b, w), inr (XRuntime RFinished)) in
  gen_fb_list_dir p b w = r /\ gen_fb_walk p td b w = r /\ gen_fb_is_file p b w = r /\ gen_fb_is_dir p b w = r /\
  gen_fb_exists p b w = r /\ gen_fb_get_size p b w = r /\ gen_fb_read_text p c b w = r /\
  gen_fb_read_binary p c b w = r.
Proof.
  intros p c td b w H r. subst r.
  repeat split; try (apply gen_fb_priv_exec_simple_operation_stale; exact H);
    unfold gen_fb_read_text, gen_fb_read_binary; cbv zeta; unfold bbind;
    rewrite gen_fb_priv_exec_simple_operation_stale by exact H; reflexivity.
Qed.

(* ================= the cache lookups ================= *)

(* the table of files of the previous cache holds BuildFileOperations, its table of subbuilds SubbuildOperations
   (true of every cache Cache.read_immutable returns and of the empty cache) *)
Definition old_typed (c : cache) : Prop :=
  (forall p, match cache_get_file c p with Some (OBuildFile _ _ _ _ _ _ _ _ _ _) | None => True | _ => False end) /\
  (forall k, match cache_get_subbuild c k with Some (OSubbuild _ _ _ _ _ _ _) | None => True | _ => False end).

Lemma gen_fb_priv_build_file_cache_lookup_eq : forall o w, r_kind o = KBuildFile -> old_typed (w_old w) ->
  gen_fb_priv_build_file_cache_lookup (bs o) w
  = lift (build_file_cache_lookup (r_filename o) (r_func_name o) (r_args o) (r_kwargs o)) (bs o) w.
Proof.
  intros o w K [Hty _]. specialize (Hty (r_filename o)).
  unfold gen_fb_priv_build_file_cache_lookup, build_file_cache_lookup. bm_unfold.
  unfold get, bind at 1. cbv beta iota zeta. cbn [b_op]. rewrite K. cbv beta iota.
  destruct (cache_get_file (w_old w) (r_filename o)) as [[q r e | p' c' f' a' k' subs' r' cr' ra' sf' | f a k subs r ra sf]|];
    try (destruct Hty); [|reflexivity].
  unfold version_equal. unfold bind, get, ret. cbv beta iota.
  destruct ra'; cbn [negb andb b_op]; cbv beta iota; [reflexivity|].
  destruct (String.eqb f' (r_func_name o)); cbn [negb andb]; [|reflexivity].
  destruct (is_equal (func_version (w_old w) (r_func_name o)) (func_version (w_new w) (r_func_name o)));
    cbn [negb andb]; [|reflexivity].
  destruct (is_equal a' (r_args o)); cbn [negb andb]; [|reflexivity].
  destruct (is_equal k' (r_kwargs o)); cbn [negb andb]; [|reflexivity].
  rewrite gen_fb_priv_is_build_file_cached_eq.
  destruct (is_build_file_cached p' c' cr' w) as [w1 [ok|e]]; [|reflexivity].
  destruct ok; cbn [negb]; [|reflexivity].
  rewrite gen_fb_priv_are_suboperations_cached_eq by exact I. cbn [op_subs].
  destruct (are_subs_cached subs' cf_empty w1) as [w2 [r2|e]]; [|reflexivity].
  destruct (fst r2); reflexivity.
Qed.

Lemma gen_fb_priv_subbuild_cache_lookup_eq : forall o key w, old_typed (w_old w) ->
  gen_fb_priv_subbuild_cache_lookup key (bs o) w = lift (subbuild_cache_lookup key (r_func_name o)) (bs o) w.
Proof.
  intros o key w [_ Hty]. specialize (Hty key). unfold cache_get_subbuild in Hty.
  unfold gen_fb_priv_subbuild_cache_lookup, subbuild_cache_lookup, cache_get_subbuild. bm_unfold.
  unfold get, bind at 1. cbv beta iota zeta. cbn [b_op].
  destruct (subs_get (c_subs (w_old w)) key) as [[[q r e | p' c' f' a' k' subs' r' cr' ra' sf' | f a k subs r ra sf]|]|];
    try (destruct Hty); try reflexivity.
  unfold version_equal. unfold bind, get, ret. cbv beta iota.
  destruct ra; cbn [negb andb b_op]; cbv beta iota; [reflexivity|].
  destruct (is_equal (func_version (w_old w) (r_func_name o)) (func_version (w_new w) (r_func_name o)));
    cbn [negb andb]; [|reflexivity].
  rewrite gen_fb_priv_are_suboperations_cached_eq by exact I. cbn [op_subs].
  destruct (are_subs_cached subs cf_empty w) as [w2 [r2|e]]; [|reflexivity].
  destruct (fst r2); reflexivity.
Qed.

(* the lookups only hand out records of their class *)
Lemma build_file_cache_lookup_complex : forall p f a k w w1 co,
  build_file_cache_lookup p f a k w = (w1, inl (Some co)) -> is_complex co.
Proof.
  intros p f a k w w1 co H. unfold build_file_cache_lookup in H. unfold bind at 1, get at 1 in H. cbv beta iota in H.
  destruct (cache_get_file (w_old w) p) as [[q r e | p' c' f' a' k' subs' r' cr' ra' sf' | f0 a0 k0 subs r ra sf]|];
    try discriminate.
  destruct ra'; [discriminate|]. destruct (negb (f' =? f)%string); [discriminate|].
  unfold bind at 1 in H. destruct (version_equal f w) as [w2 [ve|e]]; [|discriminate].
  destruct (negb ve); [discriminate|]. destruct (negb (is_equal a' a)); [discriminate|].
  destruct (negb (is_equal k' k)); [discriminate|].
  unfold bind at 1 in H. destruct (is_build_file_cached p' c' cr' w2) as [w3 [ok|e]]; [|discriminate].
  destruct (negb ok); [discriminate|].
  unfold bind in H. destruct (are_subs_cached subs' cf_empty w3) as [w4 [r2|e]]; [|discriminate].
  destruct (fst r2); inversion H; subst; exact I.
Qed.

Lemma subbuild_cache_lookup_complex : forall key f w w1 co,
  subbuild_cache_lookup key f w = (w1, inl (Some co)) -> is_complex co.
Proof.
  intros key f w w1 co H. unfold subbuild_cache_lookup in H. unfold bind at 1, get at 1 in H. cbv beta iota in H.
  destruct (subs_get (c_subs (w_old w)) key) as [[[q r e | p' c' f' a' k' subs' r' cr' ra' sf' | f0 a0 k0 subs r ra sf]|]|];
    try discriminate.
  destruct ra; [discriminate|].
  unfold bind at 1 in H. destruct (version_equal f w) as [w2 [ve|e]]; [|discriminate].
  destruct (negb ve); [discriminate|].
  unfold bind in H. destruct (are_subs_cached subs cf_empty w2) as [w4 [r2|e]]; [|discriminate].
  destruct (fst r2); inversion H; subst; exact I.
Qed.

(* ================= build_file: the stages, as the Python runs them ================= *)

(* the record build_file_with_comparison creates *)
Definition bf0 (p : path) (c : cmpmode) (f : string) (sa skw : pyval) : opr :=
  new_BuildFileOperation p c f sa skw [] PNone PNone false false false.
(* the user function of build_file takes the target; `func` of the generated code the optional target *)
Definition lift_bf (fn : path -> pyval -> pyval -> body) : ufunc :=
  fun t a k => match t with Some p => fn p a k | None => fn [] a k end.
Definition lift_sb (fn : pyval -> pyval -> body) : ufunc := fun _ a k => fn a k.

(* a mutable record holding the fields of o *)
Definition opr_of (o : op) (fin : bool) : opr :=
  match o with
  | OBuildFile p c f a k subs r cr ra sf =>
      {| r_kind := KBuildFile; r_filename := p; r_file_comparison := c; r_func_name := f; r_args := a; r_kwargs := k;
         r_suboperations := subs; r_return_value := r; r_file_comparison_result := cr; r_raised := ra;
         r_setup_failed := sf; r_is_finished := fin |}
  | OSubbuild f a k subs r ra sf =>
      {| r_kind := KSubbuild; r_filename := []; r_file_comparison := METADATA; r_func_name := f; r_args := a; r_kwargs := k;
         r_suboperations := subs; r_return_value := r; r_file_comparison_result := PNone; r_raised := ra;
         r_setup_failed := sf; r_is_finished := fin |}
  | OSimple _ _ _ => bf0 [] METADATA "" PNone PNone
  end.

Lemma freeze_opr_of : forall o fin, is_complex o -> freeze (opr_of o fin) = o.
Proof. intros [| |] fin H; [destruct H|reflexivity|reflexivity]. Qed.

(* the `except Exception: if not suboperation.raised: raised = setup_failed = True` of build_file_with_comparison /
   subbuild, then the record that is appended *)
Definition final_op {A} (st : opr) (r : A + exn) : op :=
  match r with
  | inl _ => freeze st
  | inr _ => if r_raised st then freeze st else freeze (set_r_setup_failed (set_r_raised st true) true)
  end.

Lemma gen_fb_priv_assert_build_file_call_valid_eq : forall o w, r_kind o = KBuildFile ->
  gen_fb_priv_assert_build_file_call_valid (bs o) w
  = lift (new_assert_no_file (r_filename o) ;;;
          icf <- is_cache_file (r_filename o) ;;
          if icf then raise (XRuntime RCacheFileTarget) else ret tt) (bs o) w.
Proof.
  intros o w K. unfold gen_fb_priv_assert_build_file_call_valid. bm_unfold. rewrite K. cbv zeta beta iota.
  unfold bind, is_cache_file, get. destruct (new_assert_no_file (r_filename o) w) as [w1 [u|e]]; [|reflexivity].
  cbn [b_op]. destruct (path_eqb (r_filename o) (w_cachefile w1)); reflexivity.
Qed.

(* _handle_error_building_file: the record is marked raised before anything can fail; it is stored when the two
   clean-up steps went through *)
Lemma gen_fb_priv_handle_error_building_file_eq : forall o w, r_kind o = KBuildFile ->
  gen_fb_priv_handle_error_building_file (bs o) w
  = let p := r_filename o in
    let o1 := set_r_raised o true in
    match (try_to_remove_file p ;;; m_bd_error p) w with
    | (w1, inr e) => ((bs o1, w1), inr e)
    | (w1, inl _) =>
        let o2 := set_r_is_finished o1 true in
        match new_finish_building_file p (freeze o2) w1 with (w2, r) => ((bs o2, w2), r) end
    end.
Proof.
  intros o w K. unfold gen_fb_priv_handle_error_building_file. bm_unfold. rewrite K. cbv zeta beta iota.
  cbn [b_op]. unfold bind.
  destruct (try_to_remove_file (r_filename o) w) as [w1 [u|e]]; [|reflexivity].
  destruct (m_bd_error (r_filename o) w1) as [w2 [u'|e]]; [|reflexivity].
  cbn [b_op b_finished_build r_filename set_r_is_finished set_r_raised].
  destruct (new_finish_building_file (r_filename o) _ w2) as [w3 [[]|e]]; reflexivity.
Qed.

Definition bf_fail_py (p : path) (c : cmpmode) (f : string) (sa skw : pyval) (subs : list op) (rv : pyval)
           (e : exn) (w : world) : world * (outcome * op) :=
  let o := OBuildFile p c f sa skw subs rv PNone true false in
  match (try_to_remove_file p ;;; m_bd_error p ;;; new_finish_building_file p o) w with
  | (w', inl _) => (w', (inr e, o))
  | (w', inr e') => (w', (inr e', o))
  end.

(* after the user function: the sanitized return value is stored in the record BEFORE the output file is looked at,
   so a record that fails there keeps it (Model/Builder.v resets it to None: bf_finish_py_differs) *)
Definition bf_finish_py (p : path) (c : cmpmode) (f : string) (sa skw : pyval) (res : outcome) (subs : list op)
           (w3 : world) : world * (outcome * op) :=
  match res with
  | inr e => bf_fail_py p c f sa skw subs PNone e w3
  | inl v =>
      match sanitize v with
      | None => bf_fail_py p c f sa skw subs PNone XType w3
      | Some sv =>
          match noneable_cmp p c w3 with
          | (w4, inr e) => bf_fail_py p c f sa skw subs sv e w4
          | (w4, inl PNone) => bf_fail_py p c f sa skw subs sv (XRuntime RNotCreated) w4
          | (w4, inl cmp) =>
              let o := OBuildFile p c f sa skw subs sv cmp false false in
              match new_finish_building_file p o w4 with (w5, _) => (w5, (inl sv, o)) end
          end
      end
  end.

Ltac rsimp :=
  cbn [b_op b_finished_build r_kind r_filename r_file_comparison r_func_name r_args r_kwargs r_suboperations
       r_return_value r_file_comparison_result r_raised r_setup_failed r_is_finished
       set_r_filename set_r_file_comparison set_r_func_name set_r_args set_r_kwargs set_r_suboperations
       set_r_return_value set_r_file_comparison_result set_r_raised set_r_setup_failed set_r_is_finished
       fst snd app freeze op_raised op_ret op_subs].

(* the handler of _rebuild_file: _handle_error_building_file(); raise *)
Lemma rebuild_fail_path : forall p c f sa skw subs rv fin e w w5 r o,
  bf_fail_py p c f sa skw subs rv e w = (w5, (r, o)) ->
  exists st' e',
    bbind gen_fb_priv_handle_error_building_file (fun _ => braise e)
      (bs {| r_kind := KBuildFile; r_filename := p; r_file_comparison := c; r_func_name := f; r_args := sa;
             r_kwargs := skw; r_suboperations := subs; r_return_value := rv; r_file_comparison_result := PNone;
             r_raised := false; r_setup_failed := false; r_is_finished := fin |}) w
    = ((bs st', w5), @inr unit exn e')
    /\ r = inr e' /\ freeze st' = o /\ r_raised st' = true.
Proof.
  intros p c f sa skw subs rv fin e w w5 r o H.
  unfold bbind. rewrite gen_fb_priv_handle_error_building_file_eq by reflexivity. cbv zeta. rsimp.
  unfold bf_fail_py in H. cbv zeta in H. unfold bind in *.
  destruct (try_to_remove_file p w) as [wa [u|e1]].
  - destruct (m_bd_error p wa) as [wb [u'|e1]].
    + rsimp.
      destruct (new_finish_building_file p (OBuildFile p c f sa skw subs rv PNone true false) wb) as [wc [[]|e1]];
        inversion H; subst; unfold braise; eexists; eexists; (split; [reflexivity|]); repeat split.
    + inversion H; subst. eexists; eexists; (split; [reflexivity|]); repeat split.
  - inversion H; subst. eexists; eexists; (split; [reflexivity|]); repeat split.
Qed.

Lemma gen_fb_priv_rebuild_file_eq : forall p c f sa skw fn w1 w3 res subs w5 r o,
  fn p sa skw (bf_invoke_world p f sa skw w1) = (w3, (res, subs)) ->
  bf_finish_py p c f sa skw res subs w3 = (w5, (r, o)) ->
  exists st,
    gen_fb_priv_rebuild_file (lift_bf fn) (bs (bf0 p c f sa skw)) w1
    = ((bs st, w5), match r with inl _ => inl tt | inr e => inr e end)
    /\ freeze st = o /\ r_raised st = op_raised o /\ (forall v, r = inl v -> r_return_value st = v).
Proof.
  intros p c f sa skw fn w1 w3 res subs w5 r o Hfn Hfin.
  unfold gen_fb_priv_rebuild_file, gen_fb_priv_call_and_sanitize_return_value, call_user.
  unfold bf0, new_BuildFileOperation. bm_unfold. cbv zeta beta iota.
  cbn [b_op r_kind r_filename r_args r_kwargs r_func_name fst snd lift_bf].
  unfold bf_invoke_world in Hfn. rewrite Hfn. cbn [b_op b_finished_build].
  unfold bf_finish_py in Hfin.
  assert (Hfail : forall rv e w, bf_fail_py p c f sa skw subs rv e w = (w5, (r, o)) ->
    exists st, (let (p0, s) := gen_fb_priv_handle_error_building_file
                  (bs {| r_kind := KBuildFile; r_filename := p; r_file_comparison := c; r_func_name := f; r_args := sa;
                         r_kwargs := skw; r_suboperations := subs; r_return_value := rv;
                         r_file_comparison_result := PNone; r_raised := false; r_setup_failed := false;
                         r_is_finished := false |}) w in
                let (b', w') := p0 in
                match s with inl _ => ((b', w'), @inr unit exn e) | inr e0 => ((b', w'), inr e0) end)
               = ((bs st, w5), match r with inl _ => inl tt | inr e => inr e end)
               /\ freeze st = o /\ r_raised st = op_raised o /\ (forall v, r = inl v -> r_return_value st = v)).
  { intros rv e w Hf. destruct (rebuild_fail_path _ _ _ _ _ _ _ false _ _ _ _ _ Hf) as (st' & e' & E & Hr & Hfz & Hra).
    exists st'. unfold bbind, braise in E. rewrite E. subst r. repeat split; auto.
    - rewrite Hra. unfold bf_fail_py in Hf. cbv zeta in Hf.
      destruct ((try_to_remove_file p;;; m_bd_error p;;; new_finish_building_file p (OBuildFile p c f sa skw subs rv PNone true false)) w)
        as [w' [u|e1]]; inversion Hf; reflexivity.
    - intros v Hv; discriminate. }
  destruct res as [v|e].
  - unfold sanitize_m. destruct (sanitize v) as [sv|]; unfold ret, raise; rsimp.
    + rewrite gen_fb_priv_noneable_file_comparison_result_eq.
      destruct (noneable_cmp p c w3) as [w4 [cmp|e]]; rsimp.
      * destruct cmp; rsimp; try (apply Hfail; exact Hfin);
          (destruct (new_finish_building_file p _ w4) as [w6 [[]|e]] eqn:E;
           [ inversion Hfin; subst; eexists; split; [reflexivity|]; repeat split; intros v0 Hv; inversion Hv; reflexivity
           | unfold new_finish_building_file, modify in E; discriminate ]).
      * apply Hfail; exact Hfin.
    + cbn [is_type]. apply Hfail; exact Hfin.
  - apply Hfail; exact Hfin.
Qed.

(* the record before build_file_with_comparison / subbuild marks it raised + setup_failed *)
Definition unmark (o : op) : op :=
  match o with
  | OBuildFile p c f a k s r cr _ _ => OBuildFile p c f a k s r cr false false
  | OSubbuild f a k s r _ _ => OSubbuild f a k s r false false
  | OSimple _ _ _ => o
  end.

(* _try_to_reuse_cached_file, against the model's lookup + bf_reuse (Proofs/BuildFileLaws.v): the fields of the
   cached record are copied into the builder's record before use_cached_operation can fail *)
Lemma gen_fb_priv_try_to_reuse_cached_file_eq : forall p c f sa skw w, old_typed (w_old w) ->
  let o0 := bf0 p c f sa skw in
  gen_fb_priv_try_to_reuse_cached_file (bs o0) w =
  match (cached <- build_file_cache_lookup p f sa skw ;; bf_reuse p c f sa skw cached) w with
  | (w1, inr e) => ((bs o0, w1), inr e)
  | (w1, inl None) => ((bs o0, w1), inl false)
  | (w1, inl (Some (inl o))) => ((bs (opr_of o true), w1), inl true)
  | (w1, inl (Some (inr (e, o)))) => ((bs (opr_of (unmark o) true), w1), inr e)
  end.
Proof.
  intros p c f sa skw w Hty o0.
  unfold gen_fb_priv_try_to_reuse_cached_file. unfold bbind at 1.
  rewrite gen_fb_priv_build_file_cache_lookup_eq by (try reflexivity; exact Hty).
  subst o0. unfold bf0, new_BuildFileOperation. rsimp. unfold lift at 1. unfold bind at 1.
  destruct (build_file_cache_lookup p f sa skw w) as [w1 [[co|]|e]] eqn:L; [| reflexivity | reflexivity].
  pose proof (build_file_cache_lookup_complex _ _ _ _ _ _ _ L) as Hco.
  unfold bf_reuse. bm_unfold. cbv beta iota zeta. rsimp.
  rewrite gen_fb_priv_noneable_file_comparison_result_eq. unfold bind at 1.
  destruct (noneable_cmp p c w1) as [w2 [cmp|e]]; [|reflexivity].
  destruct cmp; try reflexivity;
    (rewrite gen_fb_priv_apply_cached_suboperations_eq by exact Hco; unfold bind at 1;
     destruct (apply_cached_subs_of co w2) as [w3 [[]|e]]; [|reflexivity];
     destruct co as [q r e | p' c' f' a' k' subs' r' cr' ra' sf' | f' a' k' subs' r' ra' sf']; [destruct Hco| |];
     rsimp; cbv zeta; unfold bind, attempt, ret;
     (match goal with |- context [new_use_cached_operation ?o w3] =>
        destruct (new_use_cached_operation o w3) as [w4 [[]|e]] end); reflexivity).
Qed.

Lemma bf_reuse_complex : forall p c f sa skw cached w w' x,
  bf_reuse p c f sa skw cached w = (w', inl (Some x)) ->
  match x with inl o => is_complex o | inr (_, o) => is_complex o end.
Proof.
  intros p c f sa skw cached w w' x H. unfold bf_reuse in H. destruct cached as [co|]; [|discriminate].
  rewrite og_bind_unf in H. destruct (noneable_cmp p c w) as [w1 [cmp|e]]; [|discriminate].
  destruct cmp; try discriminate; cbv zeta in H; rewrite og_bind_unf in H;
    (destruct (apply_cached_subs_of co w1) as [w2 [[]|e]]; [|discriminate]);
    rewrite og_bind_unf, og_attempt_unf in H;
    (match type of H with context [new_use_cached_operation ?o w2] =>
       destruct (new_use_cached_operation o w2) as [w3 [[]|e]] end);
    inversion H; subst; exact I.
Qed.

(* everything before the user function is called, as the Python runs it.  Differs from bf_setup (BuildFileLaws.v =
   the setup of Model/Builder.v) in one place: when use_cached_operation fails, BuildDirs.error_building_file is
   called once, and if that fails too the record keeps the fields copied from the cached record *)
Definition bf_setup_py (p : path) (c : cmpmode) (f : string) (sa skw : pyval) : M (option (op + exn * op)) :=
  new_assert_no_file p ;;;
  icf <- is_cache_file p ;;
  (if icf then raise (XRuntime RCacheFileTarget) else ret tt) ;;;
  created <- prepare_file_creation p ;;
  locked <- m_bd_started p created ;;
  r <- attempt (cached <- build_file_cache_lookup p f sa skw ;; bf_reuse p c f sa skw cached) ;;
  match r with
  | inr e => m_bd_error p ;;; raise e
  | inl (Some (inl o)) => ret (Some (inl o))
  | inl (Some (inr (e, o))) =>
      x <- attempt (m_bd_error p) ;;
      ret (Some (inr (match x with inl _ => e | inr e' => e' end, o)))
  | inl None => catch (bf_claim p) (fun e => m_bd_error p ;;; raise e)
  end.

(* the previous cache is not touched before the lookup *)
Lemma prepare_file_creation_old : forall p w w1 r, prepare_file_creation p w = (w1, r) -> w_old w1 = w_old w.
Proof. intros p w w1 r H. exact (proj1 (prepare_file_creation_fs p w w1 r H)). Qed.

Lemma gen_fb_priv_build_file_eq : forall p c f sa skw fn w, old_typed (w_old w) ->
  let o0 := bf0 p c f sa skw in
  gen_fb_priv_build_file (lift_bf fn) (bs o0) w =
  match bf_setup_py p c f sa skw w with
  | (w1, inr e) => ((bs o0, w1), inr e)
  | (w1, inl (Some (inl o))) => ((bs (opr_of o true), w1), inl (op_ret o))
  | (w1, inl (Some (inr (e, o)))) => ((bs (opr_of (unmark o) true), w1), inr e)
  | (w1, inl None) =>
      bbind (gen_fb_priv_rebuild_file (lift_bf fn)) (fun _ => bbind self_op (fun o => bret (r_return_value o))) (bs o0) w1
  end.
Proof.
  intros p c f sa skw fn w Hty o0.
  unfold gen_fb_priv_build_file, bf_setup_py.
  unfold bbind at 1. change (self_op_bf (bs o0) w) with ((bs o0, w), @inl opr exn o0). cbv beta iota zeta.
  unfold bbind at 1. rewrite gen_fb_priv_assert_build_file_call_valid_eq by reflexivity.
  change (r_filename o0) with p. unfold lift at 1.
  mred.
  destruct (new_assert_no_file p w) as [wa [[]|e]] eqn:Ea; [|reflexivity].
  assert (Oa : w_old wa = w_old w).
  { unfold new_assert_no_file, bind, get in Ea. destruct (cache_has_file (w_new w) p); inversion Ea; reflexivity. }
  mred. unfold is_cache_file at 1 2.
  destruct (path_eqb p (w_cachefile wa)); [reflexivity|]. mred.
  unfold bbind at 1. change (self_op_bf (bs o0) wa) with ((bs o0, wa), @inl opr exn o0). cbv beta iota zeta.
  change (r_filename o0) with p.
  unfold bbind at 1. unfold lift at 1.
  destruct (prepare_file_creation p wa) as [wb [created|e]] eqn:Eb; [|reflexivity].
  pose proof (prepare_file_creation_old _ _ _ _ Eb) as Ob.
  mred. unfold bbind at 1. unfold lift at 1.
  unfold m_bd_started at 1 2. destruct (bd_started (w_bd wb) p created) as [bd' locked] eqn:Ebd.
  set (wc := set_bd bd' wb).
  assert (Hc : old_typed (w_old wc)) by (subst wc; cbn [w_old set_bd]; rewrite Ob, Oa; exact Hty).
  mred.
  unfold bbind at 1. unfold battempt at 1. unfold bbind at 1. unfold lift at 1. mred.
  unfold bbind at 1.
  pose proof (gen_fb_priv_try_to_reuse_cached_file_eq p c f sa skw wc Hc) as Hr. cbv zeta in Hr.
  rewrite og_bind_unf in Hr. fold o0 in Hr. rewrite Hr. clear Hr.
  destruct (build_file_cache_lookup p f sa skw wc) as [wd [cached|e]].
  2:{ unfold bbind, lift, braise. mred. destruct (m_bd_error p wd) as [we [[]|e']]; reflexivity. }
  destruct (bf_reuse p c f sa skw cached wd) as [we [[[o|[e o]]|]|e]] eqn:Er.
  - pose proof (bf_reuse_complex _ _ _ _ _ _ _ _ _ Er) as Hco. cbn beta iota in Hco.
    unfold bbind, self_op, bret. cbn [b_op bs].
    destruct o; [destruct Hco| |]; reflexivity.
  - unfold bbind, lift, braise. mred. destruct (m_bd_error p we) as [wf [[]|e']]; reflexivity.
  - unfold bf_claim. mred. unfold bbind at 1. unfold lift at 1.
    destruct (new_start_building_file p we) as [wf [[]|e]].
    2:{ mred. unfold bbind, lift, braise. destruct (m_bd_error p wf) as [wg [[]|e']]; reflexivity. }
    mred. unfold bbind at 1. unfold battempt at 1. unfold bbind at 1. unfold bbind at 1. unfold lift at 1.
    unfold get at 1 2. cbv beta iota.
    destruct (isfile (w_fs wf) p).
    + unfold lift at 1. mred.
      destruct (back_up_and_remove p wf) as [wg [b|e]]; mred.
      * reflexivity.
      * unfold bbind at 1. unfold lift at 1. unfold new_abort_building_file at 1 2. unfold modify. cbv beta iota.
        unfold braise at 1. unfold bbind, lift, braise. mred.
        match goal with |- context [m_bd_error p ?x] => destruct (m_bd_error p x) as [wh [[]|e']] end; reflexivity.
    + mred. reflexivity.
  - unfold bbind, lift, braise. mred. destruct (m_bd_error p we) as [wf [[]|e']]; reflexivity.
Qed.

(* _rebuild_file *)
Definition bf_rebuild_py (p : path) (c : cmpmode) (f : string) (sa skw : pyval)
           (fn : path -> pyval -> pyval -> body) (w1 : world) : world * (outcome * op) :=
  let '(w3, (res, subs)) := fn p sa skw (bf_invoke_world p f sa skw w1) in
  bf_finish_py p c f sa skw res subs w3.

(* build_file_with_comparison as the Python runs it, in the shape of m_build_file (BuildFileLaws.m_build_file_unfold) *)
Definition m_build_file_py (p : path) (c : cmpmode) (f : string) (a kw : pyval)
           (fn : path -> pyval -> pyval -> body) (w : world) : world * (outcome * option op) :=
  match sanitize a, sanitize kw with
  | Some sa, Some skw =>
      match bf_setup_py p c f sa skw w with
      | (w1, inr e) => (w1, (inr e, Some (OBuildFile p c f sa skw [] PNone PNone true true)))
      | (w1, inl (Some (inl o))) => (w1, (inl (op_ret o), Some o))
      | (w1, inl (Some (inr (e, o)))) => (w1, (inr e, Some o))
      | (w1, inl None) => let '(w5, (r, o)) := bf_rebuild_py p c f sa skw fn w1 in (w5, (r, Some o))
      end
  | _, _ => (w, (inr XType, None))
  end.

Definition reuse_shape (x : op + exn * op) : Prop :=
  match x with
  | inl o => is_complex o /\ op_raised o = false
  | inr (_, o) => is_complex o /\ op_raised o = true /\ op_setup_failed o = true
  end.

Lemma bf_reuse_shape : forall p c f sa skw cached w w' x,
  bf_reuse p c f sa skw cached w = (w', inl (Some x)) -> reuse_shape x.
Proof.
  intros p c f sa skw cached w w' x H. unfold bf_reuse in H. destruct cached as [co|]; [|discriminate].
  rewrite og_bind_unf in H. destruct (noneable_cmp p c w) as [w1 [cmp|e]]; [|discriminate].
  destruct cmp; try discriminate; cbv zeta in H; rewrite og_bind_unf in H;
    (destruct (apply_cached_subs_of co w1) as [w2 [[]|e]]; [|discriminate]);
    rewrite og_bind_unf, og_attempt_unf in H;
    (match type of H with context [new_use_cached_operation ?o w2] =>
       destruct (new_use_cached_operation o w2) as [w3 [[]|e]] end);
    inversion H; subst; cbn; auto.
Qed.

Lemma bf_setup_py_shape : forall p c f sa skw w w1 x,
  bf_setup_py p c f sa skw w = (w1, inl (Some x)) -> reuse_shape x.
Proof.
  intros p c f sa skw w w1 x H. unfold bf_setup_py in H. revert H. mred.
  destruct (new_assert_no_file p w) as [wa [[]|e]]; [|discriminate]. mred.
  unfold is_cache_file at 1. destruct (path_eqb p (w_cachefile wa)); mred; [discriminate|].
  destruct (prepare_file_creation p wa) as [wb [created|e]]; [|discriminate]. mred.
  destruct (m_bd_started p created wb) as [wc [locked|e]]; [|discriminate]. mred.
  destruct (build_file_cache_lookup p f sa skw wc) as [wd [cached|e]].
  2:{ mred. destruct (m_bd_error p wd) as [we [[]|e']]; discriminate. }
  destruct (bf_reuse p c f sa skw cached wd) as [we [[[o|[e o]]|]|e]] eqn:Er; mred.
  - intro H. inversion H; subst. exact (bf_reuse_shape _ _ _ _ _ _ _ _ _ Er).
  - destruct (m_bd_error p we) as [wf [[]|e']]; intro H; inversion H; subst; exact (bf_reuse_shape _ _ _ _ _ _ _ _ _ Er).
  - unfold bf_claim. mred. destruct (new_start_building_file p we) as [wf [[]|e]]; mred.
    + unfold get at 1. cbv beta iota. destruct (isfile (w_fs wf) p); mred.
      * destruct (back_up_and_remove p wf) as [wg [b|e]]; mred; [discriminate|].
        unfold new_abort_building_file at 1. unfold modify. cbv beta iota. mred.
        match goal with |- context [m_bd_error p ?x] => destruct (m_bd_error p x) as [wh [[]|e']] end; discriminate.
      * discriminate.
    + destruct (m_bd_error p wf) as [wg [[]|e']]; discriminate.
  - destruct (m_bd_error p we) as [wf [[]|e']]; discriminate.
Qed.

Lemma bf_finish_py_raised : forall p c f sa skw res subs w3 w5 r o,
  bf_finish_py p c f sa skw res subs w3 = (w5, (r, o)) ->
  is_complex o /\ op_raised o = match r with inl _ => false | inr _ => true end.
Proof.
  intros p c f sa skw res subs w3 w5 r o H.
  assert (Hf : forall rv e w, bf_fail_py p c f sa skw subs rv e w = (w5, (r, o)) ->
                 is_complex o /\ op_raised o = match r with inl _ => false | inr _ => true end).
  { intros rv e w Hf. unfold bf_fail_py in Hf. cbv zeta in Hf.
    destruct ((try_to_remove_file p;;; m_bd_error p;;; new_finish_building_file p (OBuildFile p c f sa skw subs rv PNone true false)) w)
      as [w' [u|e1]]; inversion Hf; subst; split; [exact I|reflexivity|exact I|reflexivity]. }
  unfold bf_finish_py in H. destruct res as [v|e]; [|eapply Hf; eauto].
  destruct (sanitize v) as [sv|]; [|eapply Hf; eauto].
  destruct (noneable_cmp p c w3) as [w4 [cmp|e]]; [|eapply Hf; eauto].
  destruct cmp; try (eapply Hf; eauto; fail);
    (destruct (new_finish_building_file p _ w4) as [w6 u]; inversion H; subst; split; [exact I|reflexivity]).
Qed.

Lemma opr_of_ret : forall o fin, is_complex o -> r_return_value (opr_of o fin) = op_ret o.
Proof. intros [| |] fin H; [destruct H|reflexivity|reflexivity]. Qed.
Lemma opr_of_raised : forall o fin, is_complex o -> r_raised (opr_of o fin) = op_raised o.
Proof. intros [| |] fin H; [destruct H|reflexivity|reflexivity]. Qed.
Lemma freeze_finished : forall st b, freeze (set_r_is_finished st b) = freeze st.
Proof. intros. unfold freeze. reflexivity. Qed.
Lemma mark_unmark : forall o fin, is_complex o -> op_raised o = true -> op_setup_failed o = true ->
  freeze (set_r_is_finished (set_r_setup_failed (set_r_raised (opr_of (unmark o) fin) true) true) true) = o.
Proof. intros [| |] fin H Hr Hs; [destruct H| |]; cbn in *; subst; reflexivity. Qed.

(* build_file_with_comparison: what the generated routine does to the world, the value it returns or the exception it
   raises, and the record it appends to the caller's suboperations, are those of m_build_file_py *)
Theorem gen_fb_build_file_with_comparison_eq : forall p c f fn a kw b w,
  not_finished b -> old_typed (w_old w) ->
  gen_fb_build_file_with_comparison p c f (lift_bf fn) a kw b w
  = let '(w1, (r, o)) := m_build_file_py p c f a kw fn w in ((app_sub b o, w1), r).
Proof.
  intros p c f fn a kw b w Hb Hty.
  unfold gen_fb_build_file_with_comparison, m_build_file_py.
  unfold bbind at 1. rewrite gen_fb_priv_assert_not_finished_ok by exact Hb. cbv zeta.
  unfold bbind at 1. unfold lift at 1. rewrite gen_fb_priv_sanitize_args_eq.
  destruct (sanitize a) as [sa|]; [destruct (sanitize kw) as [skw|]|]; [| destruct b; reflexivity | destruct b; reflexivity].
  cbn [fst snd]. fold (bf0 p c f sa skw).
  unfold bbind at 1. unfold run_sub at 1.
  change {| b_op := Some (bf0 p c f sa skw); b_finished_build := false |} with (bs (bf0 p c f sa skw)).
  rewrite (gen_fb_priv_build_file_eq p c f sa skw fn w Hty).
  destruct (bf_setup_py p c f sa skw w) as [w1 [[[o|[e o]]|]|e]] eqn:Es.
  - destruct (bf_setup_py_shape _ _ _ _ _ _ _ _ Es) as [Hco Hra].
    cbn [b_op bs fst snd]. unfold bbind. rewrite gen_fb_priv_append_suboperation_ok by exact Hb.
    unfold bret. rewrite freeze_finished, freeze_opr_of by exact Hco.
    cbn [r_return_value set_r_is_finished]. rewrite opr_of_ret by exact Hco. reflexivity.
  - destruct (bf_setup_py_shape _ _ _ _ _ _ _ _ Es) as (Hco & Hra & Hsf).
    cbn [b_op bs fst snd].
    assert (Hu : r_raised (opr_of (unmark o) true) = false) by (destruct o; [destruct Hco| |]; reflexivity).
    rewrite Hu. cbn [negb]. unfold bbind. rewrite gen_fb_priv_append_suboperation_ok by exact Hb.
    rewrite mark_unmark by assumption. reflexivity.
  - unfold bf_rebuild_py.
    destruct (fn p sa skw (bf_invoke_world p f sa skw w1)) as [w3 [res subs]] eqn:Efn.
    destruct (bf_finish_py p c f sa skw res subs w3) as [w5 [r o]] eqn:Efin.
    destruct (gen_fb_priv_rebuild_file_eq _ _ _ _ _ _ _ _ _ _ _ _ _ Efn Efin) as (st & Eg & Hfz & Hra & Hv).
    destruct (bf_finish_py_raised _ _ _ _ _ _ _ _ _ _ _ Efin) as [Hco Hro].
    unfold bbind at 1. rewrite Eg. destruct r as [v|e].
    + unfold bbind at 1. unfold self_op at 1. cbn [b_op bs fst snd]. unfold bret at 1. cbn [b_op bs fst snd].
      unfold bbind. rewrite gen_fb_priv_append_suboperation_ok by exact Hb.
      unfold bret. rewrite freeze_finished, Hfz. cbn [r_return_value set_r_is_finished].
      rewrite (Hv v eq_refl). reflexivity.
    + cbn [b_op bs fst snd]. rewrite Hra, Hro. cbn [negb].
      unfold bbind. rewrite gen_fb_priv_append_suboperation_ok by exact Hb.
      rewrite freeze_finished, Hfz. reflexivity.
  - unfold bf0, new_BuildFileOperation. cbn [b_op bs fst snd]. rsimp. cbn [negb].
    unfold bbind. rewrite gen_fb_priv_append_suboperation_ok by exact Hb. reflexivity.
Qed.

Theorem gen_fb_build_file_eq : forall p f fn a kw b w,
  not_finished b -> old_typed (w_old w) ->
  gen_fb_build_file p f (lift_bf fn) a kw b w
  = let '(w1, (r, o)) := m_build_file_py p METADATA f a kw fn w in ((app_sub b o, w1), r).
Proof. intros. apply gen_fb_build_file_with_comparison_eq; assumption. Qed.

(* a finished builder: RuntimeError, nothing else happens (Model/Run.v: the [stale] flag of BuildFile) *)
Lemma gen_fb_build_file_with_comparison_stale : forall p c f func a kw b w, ~ not_finished b ->
  gen_fb_build_file_with_comparison p c f func a kw b w = ((b, w), inr (XRuntime RFinished)).
Proof.
  intros. unfold gen_fb_build_file_with_comparison. unfold bbind at 1.
  rewrite gen_fb_priv_assert_not_finished_stale by assumption. reflexivity.
Qed.

(* ================= m_build_file_py against the hand-written m_build_file ================= *)

(* (1) the return value of a function that did not produce its file.  Python: `operation.return_value = <sanitized
   value>` comes first, then the output file is examined; if it is missing (or examining it raises) the record is
   marked raised, stored in the new cache and appended with the return value still in it (and Cache.write puts it in
   the cache file: "returnValue": 5, "raised": true).  Model/Builder.v builds that record with return value None. *)
Definition no_kept_return (p : path) (c : cmpmode) (res : outcome) (w3 : world) : Prop :=
  match res with
  | inr _ => True
  | inl v => match sanitize v with
             | None => True
             | Some sv => sv = PNone \/ exists w4 cmp, noneable_cmp p c w3 = (w4, inl cmp) /\ cmp <> PNone
             end
  end.

Lemma bf_fail_py_eq : forall p c f sa skw subs e w,
  (let '(w5, (r, o)) := bf_fail_py p c f sa skw subs PNone e w in (w5, (r, Some o))) = bf_fail p c f sa skw subs e w.
Proof.
  intros. unfold bf_fail_py, bf_fail. cbv zeta.
  destruct ((try_to_remove_file p;;; m_bd_error p;;;
             new_finish_building_file p (OBuildFile p c f sa skw subs PNone PNone true false)) w) as [w' [u|e']]; reflexivity.
Qed.

Lemma bf_finish_py_eq : forall p c f sa skw res subs w3, no_kept_return p c res w3 ->
  (let '(w5, (r, o)) := bf_finish_py p c f sa skw res subs w3 in (w5, (r, Some o))) = bf_finish p c f sa skw res subs w3.
Proof.
  intros p c f sa skw res subs w3 H. unfold bf_finish_py, bf_finish, no_kept_return in *.
  destruct res as [v|e]; [|apply bf_fail_py_eq].
  destruct (sanitize v) as [sv|]; [|apply bf_fail_py_eq].
  destruct H as [H|(w4 & cmp & E & Hc)].
  - subst sv. destruct (noneable_cmp p c w3) as [w4 [cmp|e]]; [|apply bf_fail_py_eq].
    destruct cmp; try apply bf_fail_py_eq; cbv zeta; destruct (new_finish_building_file p _ w4); reflexivity.
  - rewrite E. destruct cmp; try (exfalso; apply Hc; reflexivity);
      cbv zeta; destruct (new_finish_building_file p _ w4); reflexivity.
Qed.

(* the difference, for any world in which the output file is not there after the function returned sv <> None *)
Lemma bf_finish_py_differs : forall p c f sa skw v sv subs w3 w4,
  sanitize v = Some sv -> sv <> PNone -> noneable_cmp p c w3 = (w4, inl PNone) ->
  snd (snd (bf_finish_py p c f sa skw (inl v) subs w3)) = OBuildFile p c f sa skw subs sv PNone true false /\
  snd (snd (bf_finish p c f sa skw (inl v) subs w3)) = Some (OBuildFile p c f sa skw subs PNone PNone true false) /\
  OBuildFile p c f sa skw subs sv PNone true false <> OBuildFile p c f sa skw subs PNone PNone true false.
Proof.
  intros p c f sa skw v sv subs w3 w4 Hs Hne Hc. unfold bf_finish_py, bf_finish. rewrite Hs, Hc.
  unfold bf_fail_py, bf_fail. cbv zeta. repeat split.
  - match goal with |- context [match ?m w4 with _ => _ end] => destruct (m w4) as [w' [u|e']] end; reflexivity.
  - match goal with |- context [match ?m w4 with _ => _ end] => destruct (m w4) as [w' [u|e']] end; reflexivity.
  - intro H. inversion H. apply Hne. assumption.
Qed.

(* (2) use_cached_operation fails (a record of the cached tree is already claimed) and then
   BuildDirs.error_building_file fails too (KeyError).  Python: the handler of _build_file calls it once; the record
   keeps the fields copied from the cached record.  Model/Builder.v: the `m_bd_error p ;;; ret ..` sits inside the
   catch whose handler calls m_bd_error again, and the setup fails as a whole: the record is the empty one.  World and
   exception agree. *)
Definition bd_crash : exn := XCrash "KeyError in BuildDirs.error_building_file".

Lemma m_bd_error_fails : forall p w w' e, m_bd_error p w = (w', inr e) -> w' = w /\ e = bd_crash.
Proof. intros p w w' e H. unfold m_bd_error in H. destruct (bd_error (w_bd w) p); inversion H; split; reflexivity. Qed.

Lemma bf_setup_py_eq : forall p c f sa skw w,
  (forall w1 e o, bf_setup_py p c f sa skw w = (w1, inl (Some (inr (e, o)))) -> e <> bd_crash) ->
  bf_setup_py p c f sa skw w = bf_setup p c f sa skw w.
Proof.
  intros p c f sa skw w H.
  assert (G : forall w1 o, bf_setup_py p c f sa skw w <> (w1, inl (Some (inr (bd_crash, o)))))
    by (intros w1 o E; exact (H _ _ _ E eq_refl)).
  clear H. revert G. unfold bf_setup_py, bf_setup. mred.
  destruct (new_assert_no_file p w) as [wa [[]|e]]; [|reflexivity]. mred.
  unfold is_cache_file. destruct (path_eqb p (w_cachefile wa)); mred; [reflexivity|].
  destruct (prepare_file_creation p wa) as [wb [created|e]]; [|reflexivity]. mred.
  destruct (m_bd_started p created wb) as [wc [locked|e]]; [|reflexivity]. mred.
  destruct (build_file_cache_lookup p f sa skw wc) as [wd [cached|e]]; mred; [|reflexivity].
  destruct (bf_reuse p c f sa skw cached wd) as [we [[[o|[e o]]|]|e]]; mred; try reflexivity.
  destruct (m_bd_error p we) as [wf [[]|e']] eqn:Eb; mred; [reflexivity|].
  intro G. destruct (m_bd_error_fails _ _ _ _ Eb) as [-> ->]. exfalso. exact (G _ _ eq_refl).
Qed.

Lemma bf_setup_py_differs : forall p c f sa skw w w1 o,
  bf_setup_py p c f sa skw w = (w1, inl (Some (inr (bd_crash, o)))) ->
  bf_setup p c f sa skw w = (w1, inr bd_crash).
Proof.
  intros p c f sa skw w w1 o. unfold bf_setup_py, bf_setup. mred.
  destruct (new_assert_no_file p w) as [wa [[]|e]]; [|discriminate]. mred.
  unfold is_cache_file. destruct (path_eqb p (w_cachefile wa)); mred; [discriminate|].
  destruct (prepare_file_creation p wa) as [wb [created|e]]; [|discriminate]. mred.
  destruct (m_bd_started p created wb) as [wc [locked|e]]; [|discriminate]. mred.
  destruct (build_file_cache_lookup p f sa skw wc) as [wd [cached|e]]; mred.
  2:{ destruct (m_bd_error p wd) as [we [[]|e']]; discriminate. }
  destruct (bf_reuse p c f sa skw cached wd) as [we [[[o'|[e o']]|]|e]] eqn:Er; mred.
  - discriminate.
  - destruct (m_bd_error p we) as [wf [[]|e']] eqn:Eb; mred.
    + intro H. inversion H; subst.
      exfalso. revert Er. unfold bf_reuse. destruct cached as [co|]; [|discriminate]. mred.
      destruct (noneable_cmp p c wd) as [w1' [cmp|e]]; [|discriminate].
      destruct cmp; try discriminate; cbv zeta; mred;
        (destruct (apply_cached_subs_of co w1') as [w2 [[]|e]]; [|discriminate]); mred;
        (match goal with |- context [new_use_cached_operation ?x w2] =>
           unfold new_use_cached_operation at 1; mred; unfold get at 1; cbv beta iota;
           destruct (assert_no_repeats (w_new w2) x) end); mred; discriminate.
    + destruct (m_bd_error_fails _ _ _ _ Eb) as [-> ->]. rewrite Eb. intro H. inversion H; subst. reflexivity.
  - unfold bf_claim. mred. destruct (new_start_building_file p we) as [wf [[]|e]]; mred.
    + unfold get at 1. cbv beta iota. destruct (isfile (w_fs wf) p); mred.
      * destruct (back_up_and_remove p wf) as [wg [b|e]]; mred; [discriminate|].
        unfold new_abort_building_file at 1. unfold modify. cbv beta iota. mred.
        match goal with |- context [m_bd_error p ?x] => destruct (m_bd_error p x) as [wh [[]|e']] end; discriminate.
      * discriminate.
    + destruct (m_bd_error p wf) as [wg [[]|e']]; discriminate.
  - destruct (m_bd_error p we) as [wf [[]|e']]; discriminate.
Qed.

(* away from the two situations above, the Python is the hand-written model *)
Theorem m_build_file_py_eq : forall p c f a kw fn w,
  (forall sa skw, sanitize a = Some sa -> sanitize kw = Some skw ->
     (forall w1 e o, bf_setup_py p c f sa skw w = (w1, inl (Some (inr (e, o)))) -> e <> bd_crash) /\
     (forall w1 w3 res subs, bf_setup_py p c f sa skw w = (w1, inl None) ->
        fn p sa skw (bf_invoke_world p f sa skw w1) = (w3, (res, subs)) -> no_kept_return p c res w3)) ->
  m_build_file_py p c f a kw fn w = m_build_file p c f a kw fn w.
Proof.
  intros p c f a kw fn w H. rewrite m_build_file_unfold. unfold m_build_file_py.
  destruct (sanitize a) as [sa|]; [|reflexivity]. destruct (sanitize kw) as [skw|]; [|reflexivity].
  destruct (H sa skw eq_refl eq_refl) as [H1 H2]. rewrite <- (bf_setup_py_eq p c f sa skw w H1).
  destruct (bf_setup_py p c f sa skw w) as [w1 [[[o|[e o]]|]|e]]; try reflexivity.
  unfold bf_rebuild_py, bf_rebuild.
  destruct (fn p sa skw (bf_invoke_world p f sa skw w1)) as [w3 [res subs]] eqn:Efn.
  apply bf_finish_py_eq. exact (H2 _ _ _ _ eq_refl Efn).
Qed.

Corollary gen_fb_build_file_with_comparison_model : forall p c f fn a kw b w,
  not_finished b -> old_typed (w_old w) ->
  (forall sa skw, sanitize a = Some sa -> sanitize kw = Some skw ->
     (forall w1 e o, bf_setup_py p c f sa skw w = (w1, inl (Some (inr (e, o)))) -> e <> bd_crash) /\
     (forall w1 w3 res subs, bf_setup_py p c f sa skw w = (w1, inl None) ->
        fn p sa skw (bf_invoke_world p f sa skw w1) = (w3, (res, subs)) -> no_kept_return p c res w3)) ->
  gen_fb_build_file_with_comparison p c f (lift_bf fn) a kw b w
  = let '(w1, (r, o)) := m_build_file p c f a kw fn w in ((app_sub b o, w1), r).
Proof.
  intros. rewrite gen_fb_build_file_with_comparison_eq by assumption. rewrite m_build_file_py_eq by assumption. reflexivity.
Qed.

(* in the first situation world, exception and record all differ from the model only in the return value of the
   record; in the second only the record differs: the world and the outcome of m_build_file_py and m_build_file agree *)
Lemma m_build_file_py_setup_differs : forall p c f a kw fn w sa skw w1 o,
  sanitize a = Some sa -> sanitize kw = Some skw ->
  bf_setup_py p c f sa skw w = (w1, inl (Some (inr (bd_crash, o)))) ->
  m_build_file_py p c f a kw fn w = (w1, (inr bd_crash, Some o)) /\
  m_build_file p c f a kw fn w = (w1, (inr bd_crash, Some (OBuildFile p c f sa skw [] PNone PNone true true))).
Proof.
  intros p c f a kw fn w sa skw w1 o Ha Hk E. rewrite m_build_file_unfold. unfold m_build_file_py.
  rewrite Ha, Hk, E, (bf_setup_py_differs _ _ _ _ _ _ _ _ E). split; reflexivity.
Qed.

(* ================= subbuild ================= *)

Definition sb0 (f : string) (sa skw : pyval) : opr := new_SubbuildOperation f sa skw [] PNone false false false.

Lemma gen_fb_priv_subbuild_eq : forall f sa skw fn w, old_typed (w_old w) ->
  let o0 := sb0 f sa skw in
  gen_fb_priv_subbuild (lift_sb fn) (bs o0) w =
  match sb_setup f sa skw w with
  | (w1, inr e) => ((bs o0, w1), inr e)
  | (w1, inl (Some (inl o))) => ((bs (opr_of o true), w1), inl (op_ret o))
  | (w1, inl (Some (inr (e, o)))) => ((bs (opr_of (unmark o) true), w1), inr e)
  | (w1, inl None) =>
      let '(w4, (r, oo)) := sb_rebuild f sa skw fn w1 in
      match oo with Some o => ((bs (opr_of o true), w4), r) | None => ((bs o0, w4), r) end
  end.
Proof.
  intros f sa skw fn w Hty o0.
  unfold gen_fb_priv_subbuild, sb_setup. cbv zeta.
  unfold bbind at 1. change (self_op (bs o0) w) with ((bs o0, w), @inl opr exn o0). cbv beta iota.
  change (subbuild_key (r_func_name o0) (r_args o0) (r_kwargs o0)) with (subbuild_key f sa skw).
  set (key := subbuild_key f sa skw).
  unfold bbind at 1. unfold lift at 1. mred.
  destruct (new_assert_no_subbuild key w) as [wa [[]|e]] eqn:Ea; [|reflexivity].
  assert (Oa : w_old wa = w_old w).
  { unfold new_assert_no_subbuild, bind, get in Ea. destruct (cache_has_subbuild (w_new w) key); inversion Ea; reflexivity. }
  unfold bbind at 1. rewrite gen_fb_priv_subbuild_cache_lookup_eq by (rewrite Oa; exact Hty).
  change (r_func_name o0) with f. unfold lift at 1. mred.
  destruct (subbuild_cache_lookup key f wa) as [wb [[co|]|e]] eqn:L; [| |reflexivity].
  - pose proof (subbuild_cache_lookup_complex _ _ _ _ _ L) as Hco.
    unfold bbind at 1. unfold lift at 1. rewrite gen_fb_priv_apply_cached_suboperations_eq by exact Hco. mred.
    destruct (apply_cached_subs_of co wb) as [wc [[]|e]]; [|reflexivity].
    subst o0. unfold sb0, new_SubbuildOperation.
    destruct co as [q r e | p' c' f' a' k' subs' r' cr' ra' sf' | f' a' k' subs' r' ra' sf']; [destruct Hco| |];
      bm_unfold; rsimp; cbv zeta beta iota; rsimp; mred;
      (match goal with |- context [new_use_cached_operation ?x wc] =>
         destruct (new_use_cached_operation x wc) as [wd [[]|e]] end); reflexivity.
  - unfold bbind at 1. change (self_op (bs o0) wb) with ((bs o0, wb), @inl opr exn o0). cbv beta iota.
    unfold bbind at 1. unfold lift at 1. mred.
    destruct (new_start_subbuild key wb) as [wc [[]|e]]; [|reflexivity]. mred.
    unfold sb_rebuild, sb_finish, sb_invoke_world. cbv zeta.
    unfold gen_fb_priv_call_and_sanitize_return_value, call_user.
    subst o0. unfold sb0, new_SubbuildOperation. bm_unfold. rsimp. cbv zeta beta iota. rsimp. unfold lift_sb.
    destruct (fn sa skw (set_log (LInvoke f None sa skw :: w_log wc) wc)) as [w3 [res subs]].
    rsimp. destruct res as [v|e]; rsimp.
    + unfold sanitize_m. destruct (sanitize v) as [sv|]; unfold ret, raise; rsimp; cbn [is_type]; cbv beta iota; rsimp;
        fold key; destruct (new_finish_subbuild key _ w3) as [w4 [[]|e]] eqn:E; try reflexivity;
        unfold new_finish_subbuild, modify in E; cbv beta zeta in E; discriminate.
    + fold key. destruct (new_finish_subbuild key _ w3) as [w4 [[]|e']] eqn:E; try reflexivity;
        unfold new_finish_subbuild, modify in E; cbv beta zeta in E; discriminate.
Qed.

Lemma sb_setup_shape : forall f sa skw w w1 x, sb_setup f sa skw w = (w1, inl (Some x)) -> reuse_shape x.
Proof.
  intros f sa skw w w1 x. unfold sb_setup. cbv zeta. mred.
  destruct (new_assert_no_subbuild (subbuild_key f sa skw) w) as [wa [[]|e]]; [|discriminate]. mred.
  destruct (subbuild_cache_lookup (subbuild_key f sa skw) f wa) as [wb [[co|]|e]]; [| |discriminate]; mred.
  - destruct (apply_cached_subs_of co wb) as [wc [[]|e]]; [|discriminate]. mred.
    match goal with |- context [new_use_cached_operation ?o wc] =>
      destruct (new_use_cached_operation o wc) as [wd [[]|e]] end; intro H; inversion H; subst; cbn; auto.
  - destruct (new_start_subbuild (subbuild_key f sa skw) wb) as [wc [[]|e]]; discriminate.
Qed.

Lemma sb_rebuild_shape : forall f sa skw fn w1 w4 r oo, sb_rebuild f sa skw fn w1 = (w4, (r, oo)) ->
  exists o, oo = Some o /\ is_complex o /\ op_raised o = match r with inl _ => false | inr _ => true end
            /\ (forall v, r = inl v -> op_ret o = v).
Proof.
  intros f sa skw fn w1 w4 r oo. unfold sb_rebuild, sb_finish. cbv zeta.
  destruct (fn sa skw (sb_invoke_world f sa skw w1)) as [w3 [res subs]].
  destruct res as [v|e]; [destruct (sanitize v) as [sv|]|];
    (match goal with |- context [new_finish_subbuild ?k ?o w3] => destruct (new_finish_subbuild k o w3) as [w5 u] end);
    intro H; inversion H; subst; eexists; (split; [reflexivity|]); repeat split;
    intros v0 Hv; inversion Hv; reflexivity.
Qed.

(* subbuild: the generated routine is the hand-written m_subbuild (no difference found) *)
Theorem gen_fb_subbuild_eq : forall f fn a kw b w,
  not_finished b -> old_typed (w_old w) ->
  gen_fb_subbuild f (lift_sb fn) a kw b w
  = let '(w1, (r, o)) := m_subbuild f a kw fn w in ((app_sub b o, w1), r).
Proof.
  intros f fn a kw b w Hb Hty.
  unfold gen_fb_subbuild. rewrite m_subbuild_unfold.
  unfold bbind at 1. rewrite gen_fb_priv_assert_not_finished_ok by exact Hb.
  unfold bbind at 1. unfold lift at 1. rewrite gen_fb_priv_sanitize_args_eq.
  destruct (sanitize a) as [sa|]; [destruct (sanitize kw) as [skw|]|]; [| destruct b; reflexivity | destruct b; reflexivity].
  cbv zeta. cbn [fst snd]. fold (sb0 f sa skw).
  unfold bbind at 1. unfold run_sub at 1.
  change {| b_op := Some (sb0 f sa skw); b_finished_build := false |} with (bs (sb0 f sa skw)).
  rewrite (gen_fb_priv_subbuild_eq f sa skw fn w Hty).
  destruct (sb_setup f sa skw w) as [w1 [[[o|[e o]]|]|e]] eqn:Es.
  - destruct (sb_setup_shape _ _ _ _ _ _ Es) as [Hco Hra].
    cbn [b_op bs fst snd]. unfold bbind. rewrite gen_fb_priv_append_suboperation_ok by exact Hb.
    unfold bret. rewrite freeze_finished, freeze_opr_of by exact Hco.
    cbn [r_return_value set_r_is_finished]. rewrite opr_of_ret by exact Hco. reflexivity.
  - destruct (sb_setup_shape _ _ _ _ _ _ Es) as (Hco & Hra & Hsf).
    cbn [b_op bs fst snd].
    assert (Hu : r_raised (opr_of (unmark o) true) = false) by (destruct o; [destruct Hco| |]; reflexivity).
    rewrite Hu. cbn [negb]. unfold bbind. rewrite gen_fb_priv_append_suboperation_ok by exact Hb.
    rewrite mark_unmark by assumption. reflexivity.
  - destruct (sb_rebuild f sa skw fn w1) as [w4 [r oo]] eqn:Er.
    destruct (sb_rebuild_shape _ _ _ _ _ _ _ _ Er) as (o & -> & Hco & Hra & Hv).
    cbn [b_op bs fst snd]. destruct r as [v|e].
    + unfold bbind. rewrite gen_fb_priv_append_suboperation_ok by exact Hb.
      unfold bret. rewrite freeze_finished, freeze_opr_of by exact Hco.
      cbn [r_return_value set_r_is_finished]. rewrite opr_of_ret by exact Hco. rewrite (Hv v eq_refl). reflexivity.
    + rewrite opr_of_raised by exact Hco. rewrite Hra. cbn [negb].
      unfold bbind. rewrite gen_fb_priv_append_suboperation_ok by exact Hb.
      rewrite freeze_finished, freeze_opr_of by exact Hco. reflexivity.
  - unfold sb0, new_SubbuildOperation. cbn [b_op bs fst snd]. rsimp. cbn [negb].
    unfold bbind. rewrite gen_fb_priv_append_suboperation_ok by exact Hb. reflexivity.
Qed.

Lemma gen_fb_subbuild_stale : forall f func a kw b w, ~ not_finished b ->
  gen_fb_subbuild f func a kw b w = ((b, w), inr (XRuntime RFinished)).
Proof.
  intros. unfold gen_fb_subbuild. unfold bbind at 1.
  rewrite gen_fb_priv_assert_not_finished_stale by assumption. reflexivity.
Qed.

(* ================= the remaining routines ================= *)

(* _call_and_sanitize_return_value: the user function, then JsonUtil.sanitize (TypeError -> TypeError) *)
Lemma gen_fb_priv_call_and_sanitize_return_value_eq : forall func ua kw b w,
  gen_fb_priv_call_and_sanitize_return_value func ua kw b w
  = bbind (call_user func ua kw) (fun v => lift (sanitize_m v)) b w.
Proof.
  intros. unfold gen_fb_priv_call_and_sanitize_return_value, bbind.
  destruct (call_user func ua kw b w) as [[b' w'] [v|e]]; [|reflexivity].
  unfold battempt, lift, sanitize_m. destruct (sanitize v); reflexivity.
Qed.

(* read_text / read_binary hand out the file object; Model/Run.v hands out the content (user_answer) when the file is
   there, which it is after a successful read in a sequential run *)
Lemma read_result_user_answer : forall p c w w1 v o f,
  m_query (QRead p c) w = (w1, (inl v, o)) -> lookup (w_fs w1) p = Some (NFile f) ->
  snd (m_open_read p w1) = user_answer (QRead p c) (inl v) w1 /\ fst (m_open_read p w1) = w1.
Proof. intros p c w w1 v o f _ H. unfold m_open_read, user_answer, canon_err. rewrite H. split; reflexivity. Qed.

(* ill-typed previous cache: a SimpleOperation in the table of files.  Python: AttributeError (`.raised`); the
   model's lookup answers "nothing cached" *)
Lemma gen_fb_priv_build_file_cache_lookup_differs : forall o w q r e, r_kind o = KBuildFile ->
  cache_get_file (w_old w) (r_filename o) = Some (OSimple q r e) ->
  gen_fb_priv_build_file_cache_lookup (bs o) w = ((bs o, w), inr (XCrash "AttributeError")) /\
  build_file_cache_lookup (r_filename o) (r_func_name o) (r_args o) (r_kwargs o) w = (w, inl None).
Proof.
  intros o w q r e K H. unfold gen_fb_priv_build_file_cache_lookup, build_file_cache_lookup. bm_unfold.
  unfold get, bind. cbv beta iota zeta. cbn [b_op]. rewrite K. cbv beta iota. rewrite H. split; reflexivity.
Qed.

(* ================= the first difference on a concrete run ================= *)
(* empty tree, no previous cache; build_file("/out", "bf", f) where f returns 5 without creating /out.
   The generated code (and the implementation: cache file with "returnValue": 5, "raised": true) stores and appends
   a record holding 5; Model/Builder.v one holding None. *)
Definition ex_fn5 : path -> pyval -> pyval -> body := fun _ _ _ w => (w, (inl (PInt 5), [])).
Definition ex_root : bstate := {| b_op := None; b_finished_build := false |}.

Example ex_kept_return_value :
  let g := gen_fb_build_file ["out"%string] "bf" (lift_bf ex_fn5) (PList []) (PDict []) ex_root init_world in
  let m := m_build_file ["out"%string] METADATA "bf" (PList []) (PDict []) ex_fn5 init_world in
  snd g = inr (XRuntime RNotCreated) /\ fst (snd m) = inr (XRuntime RNotCreated) /\
  c_files (w_new (snd (fst g)))
  = [(["out"%string], Some (OBuildFile ["out"%string] METADATA "bf" (PList []) (PDict []) [] (PInt 5) PNone true false))] /\
  c_files (w_new (fst m))
  = [(["out"%string], Some (OBuildFile ["out"%string] METADATA "bf" (PList []) (PDict []) [] PNone PNone true false))].
Proof. vm_compute. repeat split. Qed.
