(* Proofs/OpsGenLaws.v — the definitions regenerated from file_builder.py (Gen/OpsGen.v, written by
   tools/translate/operations_tr.py: the operations of class FileBuilder) equal the hand-written routines of
   Model/Builder.v (and how Model/Run.v uses them).  Pointwise in the world and the builder state: no functional
   extensionality.  See tools/translate/OPSGEN_NOTES.md for the tables and the list of differences. *)
From Coq Require Import List String NArith ZArith Bool Arith.
From FB.Base Require Import PyVal Fs.
From FB.Gen Require Import JsonUtilGen.
From FB.Model Require Import Types Monad CreatedFiles BuildDirs SimpleOps Builder.
From FB.Gen Require Import OpsGen.
Import ListNotations.
Open Scope list_scope.
Open Scope m_scope.

(* ---- the monad M, pointwise ---- *)
Lemma og_bind_cong : forall {A B} (m1 m2 : M A) (f1 f2 : A -> M B),
  (forall w, m1 w = m2 w) -> (forall a w, f1 a w = f2 a w) -> forall w, bind m1 f1 w = bind m2 f2 w.
Proof.
  intros A B m1 m2 f1 f2 H1 H2 w. unfold bind. rewrite H1.
  destruct (m2 w) as [w' [a|e]]; [apply H2|reflexivity].
Qed.

Lemma og_bind_assoc : forall {A B C} (m : M A) (f : A -> M B) (g : B -> M C) w,
  bind (bind m f) g w = bind m (fun a => bind (f a) g) w.
Proof. intros. unfold bind. destruct (m w) as [w' [a|e]]; reflexivity. Qed.

Lemma og_bind_ret_r : forall {A} (m : M A) w, bind m (fun a => ret a) w = m w.
Proof. intros. unfold bind, ret. destruct (m w) as [w' [a|e]]; reflexivity. Qed.

(* ---- induction on the nested type of records ---- *)
Section OpInd.
  Variable P : op -> Prop.
  Hypothesis HS : forall q r e, P (OSimple q r e).
  Hypothesis HB : forall p c f a k subs r cr ra sf, Forall P subs -> P (OBuildFile p c f a k subs r cr ra sf).
  Hypothesis HU : forall f a k subs r ra sf, Forall P subs -> P (OSubbuild f a k subs r ra sf).
  Fixpoint og_op_ind (o : op) : P o :=
    let go := fix go (l : list op) : Forall P l :=
      match l with [] => Forall_nil _ | x :: xs => Forall_cons _ (og_op_ind x) (go xs) end in
    match o with
    | OSimple q r e => HS q r e
    | OBuildFile p c f a k subs r cr ra sf => HB p c f a k subs r cr ra sf (go subs)
    | OSubbuild f a k subs r ra sf => HU f a k subs r ra sf (go subs)
    end.
End OpInd.

Definition is_complex (o : op) : Prop := match o with OSimple _ _ _ => False | _ => True end.

(* ================= comparison of the output file ================= *)

Lemma gen_fb_priv_noneable_file_comparison_result_eq : forall p c w,
  gen_fb_priv_noneable_file_comparison_result p c w = noneable_cmp p c w.
Proof.
  intros p c w. unfold gen_fb_priv_noneable_file_comparison_result, noneable_cmp, bind, attempt, catch.
  destruct (file_comparison_result p c w) as [w' [v|e]]; reflexivity.
Qed.

(* _is_build_file_cached(operation): the model's routine takes the three fields it reads; on POSIX _has_case is True *)
Lemma gen_fb_priv_is_build_file_cached_eq : forall p c f a k subs r cr ra sf w,
  gen_fb_priv_is_build_file_cached (OBuildFile p c f a k subs r cr ra sf) w = is_build_file_cached p c cr w.
Proof.
  intros. unfold gen_fb_priv_is_build_file_cached, is_build_file_cached.
  apply og_bind_cong; [apply gen_fb_priv_noneable_file_comparison_result_eq|reflexivity].
Qed.

(* a record of another class has no `filename`: AttributeError (the model's routine cannot be called on one) *)
Lemma gen_fb_priv_is_build_file_cached_other : forall o w,
  match o with OBuildFile _ _ _ _ _ _ _ _ _ _ => False | _ => True end ->
  gen_fb_priv_is_build_file_cached o w = (w, inr (XCrash "AttributeError")).
Proof. intros [| |] w H; [reflexivity|destruct H|reflexivity]. Qed.

(* ================= replay of a cached record ================= *)

(* _is_simple_operation_cached: the operation versions of both caches are None in the model (table PURE_CALLS);
   the name is one of OPERATIONS because it comes from a [query] *)
Lemma gen_fb_priv_is_simple_operation_cached_eq : forall q r ex cf w,
  gen_fb_priv_is_simple_operation_cached (OSimple q r ex) cf w = is_simple_operation_cached q r ex cf w.
Proof.
  intros q r ex cf w. unfold gen_fb_priv_is_simple_operation_cached, is_simple_operation_cached.
  change (negb (is_equal PNone PNone)) with false. cbv iota.
  unfold bind, attempt, get. cbv beta iota.
  destruct (exec_query q (Some cf) w) as [w' [v|e]].
  - unfold ret, oerr_eqb. destruct ex; reflexivity.
  - destruct e as [n|k| |c|s]; try reflexivity;
      cbn [is_os exn_os_class]; unfold ret, oerr_eqb; destruct ex; reflexivity.
Qed.

Lemma gen_fb_priv_is_simple_operation_cached_other : forall o cf w,
  is_complex o -> gen_fb_priv_is_simple_operation_cached o cf w = (w, inr (XCrash "AttributeError")).
Proof. intros [| |] cf w H; [destruct H|reflexivity|reflexivity]. Qed.

(* the local loop of the model's is_op_cached is are_subs_cached *)
Definition model_subs_cached : list op -> cfiles -> M (bool * cfiles) :=
  fix go (subs : list op) (cf : cfiles) {struct subs} : M (bool * cfiles) :=
    match subs with
    | [] => ret (true, cf)
    | s :: rest => r <- is_op_cached s cf ;; if fst r then go rest (snd r) else ret (false, snd r)
    end.

Lemma model_subs_cached_eq : forall subs cf w, model_subs_cached subs cf w = are_subs_cached subs cf w.
Proof.
  induction subs as [|s rest IH]; intros cf w; [reflexivity|].
  cbn [model_subs_cached are_subs_cached]. apply og_bind_cong; [reflexivity|].
  intros r w'. destruct (fst r); [apply IH|reflexivity].
Qed.

Definition gen_subs_loop := gen_fb_priv_are_suboperations_cached_loop1
  gen_fb_priv_is_build_file_operation_cached gen_fb_priv_is_subbuild_operation_cached.

(* what the lemma says of one record: the routine of its class *)
Definition replay_ok (o : op) : Prop :=
  forall cf w,
    match o with
    | OSimple _ _ _ => True
    | OBuildFile _ _ _ _ _ _ _ _ _ _ => gen_fb_priv_is_build_file_operation_cached o cf w = is_op_cached o cf w
    | OSubbuild _ _ _ _ _ _ _ => gen_fb_priv_is_subbuild_operation_cached o cf w = is_op_cached o cf w
    end.

Lemma gen_subs_loop_eq : forall subs, Forall replay_ok subs ->
  forall cf w, gen_subs_loop subs cf w = model_subs_cached subs cf w.
Proof.
  induction 1 as [|s rest Hs Hrest IH]; intros cf w; [reflexivity|].
  unfold gen_subs_loop in *. cbn [gen_fb_priv_are_suboperations_cached_loop1 model_subs_cached].
  destruct s as [q r e | p c f a k subs r cr ra sf | f a k subs r ra sf].
  - cbn [is_op_cached]. rewrite og_bind_assoc.
    apply og_bind_cong; [apply gen_fb_priv_is_simple_operation_cached_eq|].
    intros b w'. unfold bind at 1. unfold ret at 1. cbn [fst snd].
    destruct b; cbn [negb]; [apply IH|reflexivity].
  - apply og_bind_cong; [intro w0; apply (Hs cf w0)|].
    intros r0 w'. cbv zeta. destruct (fst r0); cbn [negb]; [apply IH|reflexivity].
  - apply og_bind_cong; [intro w0; apply (Hs cf w0)|].
    intros r0 w'. cbv zeta. destruct (fst r0); cbn [negb]; [apply IH|reflexivity].
Qed.

Lemma replay_ok_all : forall o, replay_ok o.
Proof.
  induction o as [q r e | p c f a k subs r cr ra sf IH | f a k subs r ra sf IH] using og_op_ind;
    intros cf w; [exact I| |].
  - cbn [gen_fb_priv_is_build_file_operation_cached is_op_cached]. cbv zeta.
    change (fix go (subs0 : list op) (cf0 : cfiles) {struct subs0} : M (bool * cfiles) :=
              match subs0 with
              | [] => ret (true, cf0)
              | s :: rest => r0 <- is_op_cached s cf0 ;; (if fst r0 then go rest (snd r0) else ret (false, snd r0))
              end) with model_subs_cached.
    unfold gen_fb_priv_are_suboperations_cached_open.
    fold gen_subs_loop.
    unfold version_equal, m_cf_error. unfold bind, get, ret, attempt, raise. cbv beta iota.
    destruct (cache_has_file (w_new w) p || path_eqb p (w_cachefile w)); [reflexivity|].
    destruct (is_equal (func_version (w_old w) f) (func_version (w_new w) f)); cbn [negb]; [|reflexivity].
    destruct ra; cbn [negb andb orb].
    + destruct (lexists (w_fs w) p); cbn [orb]; [reflexivity|]. destruct sf; [reflexivity|].
      destruct (dirs_to_make (dirname p) (Some cf) w) as [w1 [ds|e]]; [|destruct (is_os e); reflexivity].
      rewrite (gen_subs_loop_eq subs IH).
      destruct (model_subs_cached subs (cf_started cf p) w1) as [w2 [r2|e]]; [|reflexivity].
      destruct (fst r2); cbn [negb]; [|reflexivity]. destruct (cf_error (snd r2) p); reflexivity.
    + rewrite gen_fb_priv_is_build_file_cached_eq.
      destruct (is_build_file_cached p c cr w) as [w1 [ok|e]]; [|reflexivity].
      destruct ok; cbn [negb]; [|reflexivity]. destruct sf; [reflexivity|].
      destruct (dirs_to_make (dirname p) (Some cf) w1) as [w2 [ds|e]]; [|destruct (is_os e); reflexivity].
      rewrite (gen_subs_loop_eq subs IH).
      destruct (model_subs_cached subs (cf_started cf p) w2) as [w3 [r2|e]]; [|reflexivity].
      destruct (fst r2); reflexivity.
  - cbn [gen_fb_priv_is_subbuild_operation_cached is_op_cached]. cbv zeta.
    change (fix go (subs0 : list op) (cf0 : cfiles) {struct subs0} : M (bool * cfiles) :=
              match subs0 with
              | [] => ret (true, cf0)
              | s :: rest => r0 <- is_op_cached s cf0 ;; (if fst r0 then go rest (snd r0) else ret (false, snd r0))
              end) with model_subs_cached.
    unfold gen_fb_priv_are_suboperations_cached_open.
    fold gen_subs_loop.
    unfold version_equal. unfold bind, get, ret. cbv beta iota.
    destruct (is_equal (func_version (w_old w) f) (func_version (w_new w) f)); cbn [negb orb]; [|reflexivity].
    destruct sf; [reflexivity|].
    destruct (cache_has_subbuild (w_new w) (subbuild_key f a k)); [reflexivity|].
    apply (gen_subs_loop_eq subs IH).
Qed.

(* _is_build_file_operation_cached / _is_subbuild_operation_cached: the model's is_op_cached on a record of that class *)
Lemma gen_fb_priv_is_build_file_operation_cached_eq : forall p c f a k subs r cr ra sf cf w,
  gen_fb_priv_is_build_file_operation_cached (OBuildFile p c f a k subs r cr ra sf) cf w
  = is_op_cached (OBuildFile p c f a k subs r cr ra sf) cf w.
Proof. intros. apply (replay_ok_all (OBuildFile p c f a k subs r cr ra sf)). Qed.

Lemma gen_fb_priv_is_subbuild_operation_cached_eq : forall f a k subs r ra sf cf w,
  gen_fb_priv_is_subbuild_operation_cached (OSubbuild f a k subs r ra sf) cf w
  = is_op_cached (OSubbuild f a k subs r ra sf) cf w.
Proof. intros. apply (replay_ok_all (OSubbuild f a k subs r ra sf)). Qed.

(* the loop of _are_suboperations_cached (dispatch on the class of each record) *)
Lemma gen_fb_priv_are_suboperations_cached_loop1_eq : forall subs cf w,
  gen_fb_priv_are_suboperations_cached_loop1
    gen_fb_priv_is_build_file_operation_cached gen_fb_priv_is_subbuild_operation_cached subs cf w
  = are_subs_cached subs cf w.
Proof.
  intros. rewrite <- model_subs_cached_eq. apply gen_subs_loop_eq.
  apply Forall_forall. intros o _. apply replay_ok_all.
Qed.

(* _are_suboperations_cached(operation, created_files) = the model's loop over operation.suboperations *)
Lemma gen_fb_priv_are_suboperations_cached_eq : forall o cf w, is_complex o ->
  gen_fb_priv_are_suboperations_cached o cf w = are_subs_cached (op_subs o) cf w.
Proof.
  intros [q r e | p c f a k subs r cr ra sf | f a k subs r ra sf] cf w H; [destruct H| |];
    apply gen_fb_priv_are_suboperations_cached_loop1_eq.
Qed.

(* a SimpleOperation has no suboperations: AttributeError in Python; the model's are_subs_cached takes the list *)
Lemma gen_fb_priv_are_suboperations_cached_simple : forall q r e cf w,
  gen_fb_priv_are_suboperations_cached (OSimple q r e) cf w = (w, inr (XCrash "AttributeError")).
Proof. reflexivity. Qed.

(* _is_subbuild_operation_cached on a BuildFileOperation (never called so: the caller dispatches on the class) runs the
   subbuild checks on the fields the two classes share; _is_build_file_operation_cached on a SubbuildOperation is
   AttributeError *)
Lemma gen_fb_priv_is_build_file_operation_cached_other : forall o cf w,
  match o with OBuildFile _ _ _ _ _ _ _ _ _ _ => False | _ => True end ->
  gen_fb_priv_is_build_file_operation_cached o cf w = (w, inr (XCrash "AttributeError")).
Proof. intros [| |] cf w H; [reflexivity|destruct H|reflexivity]. Qed.

(* ================= _apply_cached_suboperations ================= *)

Definition model_apply_loop : list op -> M unit :=
  fix go (subs : list op) : M unit :=
    match subs with
    | [] => ret tt
    | s :: rest =>
        (match s with
         | OBuildFile p _ _ _ _ _ _ _ false _ =>
             created <- make_dirs (dirname p) ;;
             locked <- m_bd_started p created ;;
             catch (apply_cached_subs_of s) (fun e => m_bd_error p ;;; raise e)
         | OSimple _ _ _ => ret tt
         | _ => apply_cached_subs_of s
         end) ;;; go rest
    end.

Lemma gen_apply_loop_eq : forall subs,
  Forall (fun o => is_complex o -> forall w, gen_fb_priv_apply_cached_suboperations o w = apply_cached_subs_of o w) subs ->
  forall w, gen_fb_priv_apply_cached_suboperations_loop1 gen_fb_priv_apply_cached_suboperations subs w
            = model_apply_loop subs w.
Proof.
  induction 1 as [|s rest Hs Hrest IH]; intros w; [reflexivity|].
  cbn [gen_fb_priv_apply_cached_suboperations_loop1 model_apply_loop].
  destruct s as [q r e | p c f a k subs r cr ra sf | f a k subs r ra sf].
  - apply IH.
  - destruct ra; cbn [negb].
    + apply og_bind_cong; [intro w0; apply Hs; exact I|]. intros _ w'. apply IH.
    + cbv zeta. rewrite !og_bind_assoc. apply og_bind_cong; [reflexivity|]. intros created w1.
      rewrite og_bind_assoc. apply og_bind_cong; [reflexivity|]. intros locked w2.
      unfold bind, attempt, catch, ret, raise.
      rewrite (Hs I w2).
      destruct (apply_cached_subs_of (OBuildFile p c f a k subs r cr false sf) w2) as [w3 [u|e]].
      * apply IH.
      * destruct (m_bd_error p w3) as [w4 [u|e']]; reflexivity.
  - apply og_bind_cong; [intro w0; apply Hs; exact I|]. intros _ w'. apply IH.
Qed.

Lemma gen_fb_priv_apply_cached_suboperations_eq : forall o, is_complex o ->
  forall w, gen_fb_priv_apply_cached_suboperations o w = apply_cached_subs_of o w.
Proof.
  induction o as [q r e | p c f a k subs r cr ra sf IH | f a k subs r ra sf IH] using og_op_ind; intros H w;
    [destruct H| |]; cbn [gen_fb_priv_apply_cached_suboperations apply_cached_subs_of];
    rewrite (gen_apply_loop_eq subs IH); reflexivity.
Qed.

(* a SimpleOperation: AttributeError in Python (`operation.suboperations`), nothing in the model *)
Lemma gen_fb_priv_apply_cached_suboperations_simple_differs : forall q r e w,
  gen_fb_priv_apply_cached_suboperations (OSimple q r e) w = (w, inr (XCrash "AttributeError"))
  /\ apply_cached_subs_of (OSimple q r e) w = (w, inl tt).
Proof. intros. split; reflexivity. Qed.

(* ================= _sanitize_args ================= *)

Lemma gen_fb_priv_sanitize_args_eq : forall args kwargs w,
  gen_fb_priv_sanitize_args args kwargs w
  = match sanitize args, sanitize kwargs with
    | Some sa, Some skw => (w, inl (sa, skw))
    | _, _ => (w, inr XType)
    end.
Proof.
  intros. unfold gen_fb_priv_sanitize_args, bind, attempt, sanitize_m, ret, raise.
  destruct (sanitize args); [destruct (sanitize kwargs)|]; reflexivity.
Qed.

(* ================= the builder's own state ================= *)

(* a sub-builder: FileBuilder(o, <shared objects>) *)
Definition bs (o : opr) : bstate := {| b_op := Some o; b_finished_build := false |}.

(* _assert_not_finished passes *)
Definition not_finished (b : bstate) : Prop :=
  match b_op b with Some o => r_is_finished o = false | None => b_finished_build b = false end.

(* self._operation.suboperations.append(x); the root builder has no record *)
Definition app_sub (b : bstate) (x : option op) : bstate :=
  match x, b_op b with
  | Some x, Some o => {| b_op := Some (set_r_suboperations o (r_suboperations o ++ [x]));
                         b_finished_build := b_finished_build b |}
  | _, _ => b
  end.

Ltac bm_unfold :=
  unfold bbind, lift, self_op_bf, self_op, self_opt, self_update, self_finished_build, bret, braise, battempt, bs;
  cbn [b_op b_finished_build].

(* _assert_not_finished: nothing when the builder is still running, RuntimeError otherwise (the model has no
   is_finished flags: Model/Run.v answers RFinished for a [stale] call) *)
Lemma gen_fb_priv_assert_not_finished_ok : forall b w, not_finished b ->
  gen_fb_priv_assert_not_finished b w = ((b, w), inl tt).
Proof.
  intros [[o|] fb] w H; unfold not_finished in H; cbn [b_op b_finished_build] in H;
    unfold gen_fb_priv_assert_not_finished; bm_unfold; rewrite H; reflexivity.
Qed.

Lemma gen_fb_priv_assert_not_finished_stale : forall b w, ~ not_finished b ->
  gen_fb_priv_assert_not_finished b w = ((b, w), inr (XRuntime RFinished)).
Proof.
  intros [[o|] fb] w H; unfold not_finished in H; cbn [b_op b_finished_build] in H;
    unfold gen_fb_priv_assert_not_finished; bm_unfold.
  - destruct (r_is_finished o); [|exfalso; apply H; reflexivity].
    cbn [b_op b_finished_build]. destruct (r_kind o) eqn:K; cbn [b_op b_finished_build]; rewrite ?K; reflexivity.
  - destruct fb; [reflexivity|exfalso; apply H; reflexivity].
Qed.

Lemma gen_fb_priv_append_suboperation_ok : forall x b w, not_finished b ->
  gen_fb_priv_append_suboperation x b w = ((app_sub b (Some x), w), inl tt).
Proof.
  intros x b w H. unfold gen_fb_priv_append_suboperation.
  unfold bbind at 1. unfold self_opt at 1. destruct b as [[o|] fb]; cbn [b_op].
  - unfold bbind at 1. rewrite gen_fb_priv_assert_not_finished_ok by exact H. reflexivity.
  - unfold bbind at 1. rewrite gen_fb_priv_assert_not_finished_ok by exact H. reflexivity.
Qed.

Lemma gen_fb_priv_append_suboperation_stale : forall x b w, ~ not_finished b ->
  gen_fb_priv_append_suboperation x b w = ((b, w), inr (XRuntime RFinished)).
Proof.
  intros x b w H. unfold gen_fb_priv_append_suboperation.
  unfold bbind at 1. unfold self_opt at 1. destruct b as [[o|] fb]; cbn [b_op];
    unfold bbind at 1; rewrite gen_fb_priv_assert_not_finished_stale by exact H; reflexivity.
Qed.

(* ================= the queries ================= *)

(* _exec_simple_operation(SimpleOperation(name, args)) = m_query: the record is appended whatever happens *)
Lemma gen_fb_priv_exec_simple_operation_eq : forall q b w, not_finished b ->
  gen_fb_priv_exec_simple_operation (new_SimpleOperation q PNone None false) b w
  = let '(w1, (r, o)) := m_query q w in ((app_sub b o, w1), r).
Proof.
  intros q b w H. unfold gen_fb_priv_exec_simple_operation, m_query.
  unfold bbind at 1. rewrite gen_fb_priv_assert_not_finished_ok by exact H.
  unfold bbind at 1. unfold battempt, bbind at 1, lift. cbn [s_q new_SimpleOperation].
  destruct (exec_query q None w) as [w1 [v|e]].
  - cbv zeta. cbn [s_q s_return_value s_exception_type_str s_is_finished set_s_return_value set_s_is_finished
                   new_SimpleOperation freeze_s bret].
    unfold bbind. rewrite gen_fb_priv_append_suboperation_ok by exact H. reflexivity.
  - destruct e as [n|k| |c|s]; cbn [is_os]; cbv zeta;
      cbn [s_q s_return_value s_exception_type_str s_is_finished set_s_exception_type_str set_s_is_finished
           new_SimpleOperation freeze_s exn_os_class];
      unfold bbind; rewrite gen_fb_priv_append_suboperation_ok by exact H; reflexivity.
Qed.

Lemma gen_fb_priv_exec_simple_operation_stale : forall so b w, ~ not_finished b ->
  gen_fb_priv_exec_simple_operation so b w = ((b, w), inr (XRuntime RFinished)).
Proof.
  intros so b w H. unfold gen_fb_priv_exec_simple_operation.
  unfold bbind at 1. rewrite gen_fb_priv_assert_not_finished_stale by exact H. reflexivity.
Qed.
