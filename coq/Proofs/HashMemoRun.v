(* Proofs/HashMemoRun.v — C13, the hash memo along user code.

   [HInv] (HashOk + "an entry keyed built is for a claimed path") holds in the
   world a build starts user code in, and is preserved by [run pr] for every
   program [pr] in which no build_file function rewrites its target after it
   has (a) written it and then (b) called build_file or subbuild  ([wsafe]).
   For programs outside that class the invariant — and C13 with it — fails:
   HashMemoEx.v.  The typical shapes are inside the class: "call the
   dependencies, then write the target (in any number of steps)", "write the
   target, then call further builds", any interleaving of queries. *)
From Coq Require Import List String Ascii NArith ZArith Bool Arith Lia.
From FB.Base Require Import PyVal Fs.
From FB.Gen Require Import JsonUtilGen.
From FB.Spec Require Import Prog.
From FB.Model Require Import Types Monad CreatedFiles BuildDirs SimpleOps Builder Persist Build Run.
From FB.Proofs Require Import FsLemmas JsonLaws CmpLaws ReplayLaws BuildFileLaws HashMemoInv.
Import ListNotations.
Local Open Scope list_scope.

(* ================================================================== *)
(** * 1. The class of programs                                          *)
(* ================================================================== *)

(* where a function body stands with respect to its own target:
   SN  there is no target (root function, subbuild function: Write is a no-op);
   S0  the target has not been written yet;
   S1  it has been written, no build_file/subbuild call since the first write;
   S2  it has been written and a build_file/subbuild call was made afterwards *)
Inductive wst := SN | S0 | S1 | S2.

Definition after_call (st : wst) : wst := match st with S1 => S2 | s => s end.
Definition after_write (st : wst) : wst := match st with SN => SN | _ => S1 end.

Inductive wsafe : wst -> prog -> Prop :=
| WS_Ret : forall st v, wsafe st (Ret v)
| WS_Raise : forall st e, wsafe st (Raise e)
| WS_Ask : forall st s q (k : Prog.outcome -> prog), (forall r, wsafe st (k r)) -> wsafe st (Ask s q k)
| WS_Write : forall st c k, st <> S2 -> wsafe (after_write st) k -> wsafe st (Write c k)
| WS_BuildFile : forall st (s : bool) p c f a kw (fn : path -> pyval -> pyval -> prog) (k : Prog.outcome -> prog),
    (forall p' sa skw, wsafe S0 (fn p' sa skw)) ->
    (forall r, wsafe (if s then st else after_call st) (k r)) ->
    wsafe st (BuildFile s p c f a kw fn k)
| WS_Subbuild : forall st (s : bool) f a kw (fn : pyval -> pyval -> prog) (k : Prog.outcome -> prog),
    (forall sa skw, wsafe SN (fn sa skw)) ->
    (forall r, wsafe (if s then st else after_call st) (k r)) ->
    wsafe st (Subbuild s f a kw fn k).

(* the state of the world that goes with a state of the body *)
Definition TS (st : wst) (target : option path) (w : world) : Prop :=
  match target with
  | None => True
  | Some t =>
      st <> SN /\ pending (w_new w) t /\
      (st = S0 -> isfile (w_fs w) t = false) /\
      (st <> S2 -> NoT t w)
  end.

(* ================================================================== *)
(** * 2. Moving [TS] along the steps of [run]                           *)
(* ================================================================== *)

Lemma TS_query : forall st target w w', hx true w w' -> TS st target w -> TS st target w'.
Proof.
  intros st [t|] w w' H; [|trivial]. intros (A & B & C & D).
  pose proof H as (_ & F & N & _). unfold TS. rewrite F. unfold pending in *. rewrite N.
  split; [exact A|]. split; [exact B|]. split; [exact C|].
  intros X h E. rewrite (hx_strict_pending w w' t H B) in E. exact (D X h E).
Qed.

Lemma TS_set_log : forall st target l w, TS st target w -> TS st target (set_log l w).
Proof. intros st [t|] l w H; [exact H | trivial]. Qed.

Lemma TS_log_answer : forall st target q r w, TS st target w -> TS st target (log_answer q r w).
Proof.
  intros st target q r w H. unfold log_answer.
  repeat match goal with |- context [match ?y with _ => _ end] => destruct y end;
    first [exact H | apply TS_set_log; exact H].
Qed.

Lemma HInv_set_log : forall l w, HInv w -> HInv (set_log l w).
Proof. intros l w H. exact (brel_set_log l w H). Qed.

Lemma HInv_log_answer : forall q r w, HInv w -> HInv (log_answer q r w).
Proof.
  intros q r w H. unfold log_answer.
  repeat match goal with |- context [match ?y with _ => _ end] => destruct y end;
    first [exact H | apply HInv_set_log; exact H].
Qed.

(* a nested call: [xrel] for the target of the caller *)
Lemma TS_call : forall st target w w',
  (forall t, target = Some t -> xrel t w w') -> TS st target w -> TS (after_call st) target w'.
Proof.
  intros st [t|] w w' H; [|trivial]. intros (A & B & C & D).
  destruct (H t eq_refl B) as [B' K]. unfold TS.
  split; [destruct st; cbn; congruence|]. split; [exact B'|].
  destruct st; cbn [after_call]; try congruence.
  - (* S0 *) destruct (K (C eq_refl)) as [G E]. split; [intros _; exact G|].
    intros _ h X. rewrite E in X. exact (D ltac:(discriminate) h X).
  - (* S1 -> S2 *) split; [discriminate | congruence].
  - (* S2 *) split; [discriminate | congruence].
Qed.

(* ================================================================== *)
(** * 3. The theorem                                                    *)
(* ================================================================== *)

Theorem run_HInv : forall st pr, wsafe st pr ->
  forall target subs w w' r, HInv w -> TS st target w -> run pr target subs w = (w', r) -> HInv w'.
Proof.
  intros st pr Hs.
  induction Hs as [st v | st e | st s q k Hk IHk | st c k Hst Hk IHk
                   | st s p c f a kw fn k Hfn IHfn Hk IHk | st s f a kw fn k Hfn IHfn Hk IHk];
    intros target subs w w' r Hi Ht H; cbn [run] in H.
  - inversion H; subst. exact Hi.
  - inversion H; subst. exact Hi.
  - destruct s; [eapply IHk; eauto|].
    destruct (m_query q w) as [w1 [r1 o]] eqn:E.
    pose proof (m_query_strict q w w1 _ E) as X.
    apply IHk in H; [exact H | |].
    + apply HInv_log_answer. exact (hx_HInv true w w1 X Hi).
    + apply TS_log_answer. exact (TS_query st target w w1 X Ht).
  - destruct target as [t|]; [|exact (IHk None subs w w' r Hi I H)].
    destruct Ht as (A & B & C & D).
    destruct (write_file (w_fs w) t c None (N.succ (w_clock w)) (w_nextid w)) as [fs'|e] eqn:E.
    + apply IHk in H; [exact H | |].
      * eapply write_keeps_HInv; eauto.
        intros h X. rewrite (pending_has_file _ _ B) in X. exfalso. exact (D Hst h X).
      * unfold TS. cbn [w_new w_fs w_hash set_clock set_fs].
        split; [destruct st; cbn; congruence|]. split; [exact B|].
        split; [destruct st; cbn; congruence|].
        intros _ h X. exact (D Hst h X).
    + inversion H; subst. exact Hi.
  - destruct s; [eapply IHk; eauto|].
    match type of H with (let '(_, _) := ?X in _) = _ => destruct X as [w1 [r1 o]] eqn:E end.
    apply IHk in H; [exact H | |].
    + refine (m_build_file_B p c f a kw _ _ w w1 _ E Hi).
      intros sa skw w2 w3 r0 Hi2 P2 F2 N2 R2. cbv beta in R2.
      eapply (IHfn p sa skw (Some p) [] w2 w3 r0 Hi2); [|exact R2].
      unfold TS. split; [discriminate|]. split; [exact P2|]. split; [intros _; exact F2 | intros _; exact N2].
    + eapply TS_call; [|exact Ht]. intros t Et.
      refine (m_build_file_X t p c f a kw _ _ w w1 _ E).
      intros sa skw Hne. cbv beta. apply run_X. intro X. inversion X. contradiction.
  - destruct s; [eapply IHk; eauto|].
    match type of H with (let '(_, _) := ?X in _) = _ => destruct X as [w1 [r1 o]] eqn:E end.
    apply IHk in H; [exact H | |].
    + refine (m_subbuild_B f a kw _ _ w w1 _ E Hi).
      intros sa skw w2 w3 r0 Hi2 R2. cbv beta in R2.
      eapply (IHfn sa skw None [] w2 w3 r0 Hi2); [exact I | exact R2].
    + eapply TS_call; [|exact Ht]. intros t Et.
      refine (m_subbuild_X t f a kw _ _ w w1 _ E).
      intros sa skw. cbv beta. apply run_X. discriminate.
Qed.

(* ================================================================== *)
(** * 4. From the start of the build                                    *)
(* ================================================================== *)

(* m_build resets the memo: the world a build is accepted in satisfies HInv *)
Theorem start_world_HInv : forall w cf old nm svers, HInv (start_world w cf old nm svers).
Proof.
  intros. split.
  - intros p h b f H. cbn [w_hash start_world hash_get] in H. discriminate H.
  - intros p h H. cbn [w_hash start_world hash_get] in H. discriminate H.
Qed.

(* ... and so does every world up to the return of the root function: after the
   directory of the cache file has been made, and after user code *)
Theorem build_user_code_HInv : forall cf old nm svers w root w1 ccd w2 res,
  wsafe SN root ->
  make_dirs (dirname cf) (start_world w cf old nm svers) = (w1, inl ccd) ->
  run root None [] (set_log (LInvoke "<root>" None PNone PNone :: w_log w1) w1) = (w2, res) ->
  HInv w1 /\ HInv w2.
Proof.
  intros cf old nm svers w root w1 ccd w2 res Hs Hm Hr.
  assert (H1 : HInv w1).
  { refine (fstep_brel _ _ (make_dirs_fs _ _ _ _ Hm) _). apply start_world_HInv. }
  split; [exact H1|].
  eapply (run_HInv SN root Hs None [] _ w2 res); [|exact I|exact Hr].
  apply HInv_set_log. exact H1.
Qed.

(* ================================================================== *)
(** * 5. What it buys: recorded hashes are those of the outputs         *)
(* ================================================================== *)

(* under the invariant, the comparison result recorded for an output that was
   just rebuilt is the hash of the file as its function left it (and the file
   is untouched by the bookkeeping that follows) *)
Theorem rebuilt_output_hash : forall p f sa skw res subs w3 w' v o,
  HashOk w3 -> bf_finish p HASH f sa skw res subs w3 = (w', (inl v, Some o)) ->
  exists fl, lookup (w_fs w3) p = Some (NFile fl) /\ lookup (w_fs w') p = Some (NFile fl) /\
             o = OBuildFile p HASH f sa skw subs v (hash_of (f_bytes fl)) false false.
Proof.
  intros p f sa skw res subs w3 w' v o Hok H.
  apply bf_finish_success in H. destruct H as (v0 & cmp & w4 & -> & Hsv & Hc & Hne & -> & ->).
  unfold noneable_cmp in Hc. apply catch_inv in Hc. destruct Hc as [(a & Hc & Ha) | (w5 & e & Hc & Hh)].
  - inversion Ha; subst a. cbn [file_comparison_result] in Hc.
    destruct (file_hash_spec p w3 w4 _ Hok Hc) as (_ & F & _ & S).
    destruct (lookup (w_fs w3) p) as [[fl|]|] eqn:El.
    + inversion S; subst cmp. exists fl. split; [reflexivity|]. split; [|reflexivity].
      cbn [w_fs set_new]. rewrite F. exact El.
    + discriminate S.
    + destruct S as [e S]. discriminate S.
  - exfalso. apply Hne.
    destruct (is_os_class XFileNotFound e || is_os_class XIsADirectory e || is_os_class XNotADirectory e);
      inversion Hh; reflexivity.
Qed.

(* ... in particular for every output a program of the class rebuilds *)
Theorem wsafe_rebuilt_output_hash : forall p f sa skw (fn : path -> pyval -> pyval -> prog) w w1 w' v o,
  (forall p' a k, wsafe S0 (fn p' a k)) ->
  HInv w ->
  bf_setup p HASH f sa skw w = (w1, inl None) ->
  bf_rebuild p HASH f sa skw (fun p' a k w0 => run (fn p' a k) (Some p') [] w0) w1 = (w', (inl v, Some o)) ->
  exists fl subs, lookup (w_fs w') p = Some (NFile fl) /\
                  o = OBuildFile p HASH f sa skw subs v (hash_of (f_bytes fl)) false false.
Proof.
  intros p f sa skw fn w w1 w' v o Hs Hi Hset H.
  destruct (bf_setup_None _ _ _ _ _ _ _ Hset Hi) as (A & B & C & D).
  unfold bf_rebuild in H. cbv beta in H.
  destruct (run (fn p sa skw) (Some p) [] (bf_invoke_world p f sa skw w1)) as [w3 [res subs]] eqn:Er.
  assert (H3 : HInv w3).
  { eapply (run_HInv S0 _ (Hs p sa skw) (Some p) [] _ w3 _); [| |exact Er]; unfold bf_invoke_world.
    - apply HInv_set_log. exact A.
    - unfold TS. split; [discriminate|]. split; [exact B|]. split; [intros _; exact C | intros _; exact D]. }
  destruct (rebuilt_output_hash _ _ _ _ _ _ _ _ _ _ (proj1 H3) H) as (fl & _ & L & ->).
  exists fl, subs. split; [exact L | reflexivity].
Qed.
