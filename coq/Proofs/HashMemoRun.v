(* Proofs/HashMemoRun.v — C13, the hash memo along user code, after the repair of
   D15 (the replay tests "the path is claimed" before it compares the file).

   [HInv] (HashOk + "an entry keyed built is for a claimed path") holds in the
   world a build starts user code in, and is preserved by [run pr] for EVERY
   program [pr].  The one step that could break it — user code rewriting its
   target while the memo holds an entry for the target keyed "built" — cannot
   happen any more: while a path is claimed and in progress no routine makes an
   entry for it (a query answers "no such file" before it looks at the disk, the
   replay answers "not cached" before it looks at the disk), so entries keyed
   "built" are made only when an output is finished, or by reads and replays of
   finished outputs.

   Consequences: the HASH comparison result recorded for a rebuilt output is the
   hash of the file as its function left it; a recorded read(..., HASH) carries
   the hash of the bytes the reader was given.

   The only hypothesis on the world is [old_keys_ok]: the file table of the
   previous build's cache is keyed by the paths of its records — true of the
   empty cache and of every cache Cache.read_immutable returns.

   (Before the repair the statement held only for programs that do not rewrite
   their target after a nested build_file/subbuild call; the counterexample is
   documented in HashMemoEx.v.) *)
From Coq Require Import List String Ascii NArith ZArith Bool Arith Lia.
From FB.Base Require Import PyVal Fs.
From FB.Gen Require Import JsonUtilGen.
From FB.Spec Require Import Prog.
From FB.Model Require Import Types Monad CreatedFiles BuildDirs SimpleOps Builder Persist Build Run.
From FB.Proofs Require Import FsLemmas JsonLaws CmpLaws ReplayLaws BuildFileLaws HashMemoInv.
Import ListNotations.
Local Open Scope list_scope.

(* ================================================================== *)
(** * 1. The state that goes with the target of the running function    *)
(* ================================================================== *)

(* the target is claimed and in progress, and the memo shows no entry for it
   keyed "built" *)
Definition TSA (target : option path) (w : world) : Prop :=
  forall t, target = Some t -> pending (w_new w) t /\ NoT t w.

Lemma HInv_set_log : forall l w, HInv w -> HInv (set_log l w).
Proof. intros l w H. exact (brel_set_log l w H). Qed.

Lemma HInv_log_answer : forall q r w, HInv w -> HInv (log_answer q r w).
Proof.
  intros q r w H. unfold log_answer.
  repeat match goal with |- context [match ?y with _ => _ end] => destruct y end;
    first [exact H | apply HInv_set_log; exact H].
Qed.

Lemma w_old_log_answer : forall q r w, w_old (log_answer q r w) = w_old w.
Proof.
  intros q r w. unfold log_answer.
  repeat match goal with |- context [match ?y with _ => _ end] => destruct y end; reflexivity.
Qed.

Lemma TSA_log_answer : forall target q r w, TSA target w -> TSA target (log_answer q r w).
Proof.
  intros target q r w H t Et. destruct (H t Et) as [A B]. unfold log_answer.
  repeat match goal with |- context [match ?y with _ => _ end] => destruct y end; split; assumption.
Qed.

Lemma TSA_query : forall target w w', hx true w w' -> TSA target w -> TSA target w'.
Proof.
  intros target w w' H Ht t Et. destruct (Ht t Et) as [A B]. pose proof H as (_ & _ & N & _).
  unfold pending in *. rewrite N. split; [exact A|].
  intros h E. rewrite (hx_strict_pending w w' t H A) in E. exact (B h E).
Qed.

(* a nested call: [prel] for the target of the caller *)
Lemma TSA_call : forall target w w', old_keys_ok (w_old w) ->
  (forall t, target = Some t -> prel t w w') -> TSA target w -> TSA target w'.
Proof.
  intros target w w' Hk H Ht t Et. destruct (Ht t Et) as [A B].
  destruct (H t Et) as [_ K]. destruct (K Hk A) as [A' E]. split; [exact A'|].
  intros h X. rewrite E in X. exact (B h X).
Qed.

(* ================================================================== *)
(** * 2. build_file and subbuild, with the previous cache carried along  *)
(* ================================================================== *)

Lemma m_build_file_HInv : forall p c f a kw (fn : path -> pyval -> pyval -> body) w w' r,
  (forall sa skw w2 w3 r0, HInv w2 -> old_keys_ok (w_old w2) -> pending (w_new w2) p -> NoT p w2 ->
                           fn p sa skw w2 = (w3, r0) -> HInv w3) ->
  m_build_file p c f a kw fn w = (w', r) -> HInv w -> old_keys_ok (w_old w) -> HInv w'.
Proof.
  intros p c f a kw fn w w' r Hfn H Hi Hk. rewrite m_build_file_unfold in H.
  destruct (sanitize a) as [sa|]; [|inversion H; subst; exact Hi].
  destruct (sanitize kw) as [skw|]; [|inversion H; subst; exact Hi].
  destruct (bf_setup p c f sa skw w) as [w1 [[[o|[e o]]|]|e]] eqn:Hs;
    try (inversion H; subst; exact (bf_setup_B _ _ _ _ _ _ _ _ Hs Hi)).
  destruct (bf_setup_None _ _ _ _ _ _ _ Hs Hi) as (A & B & C & D).
  pose proof (bf_setup_O _ _ _ _ _ _ _ _ Hs) as O1. unfold osame in O1.
  unfold bf_rebuild in H.
  destruct (fn p sa skw (bf_invoke_world p f sa skw w1)) as [w3 [res subs]] eqn:Ef.
  assert (Hi3 : HInv w3).
  { eapply Hfn; [| | | | exact Ef]; unfold bf_invoke_world.
    - apply HInv_set_log. exact A.
    - cbn [w_old set_log]. rewrite O1. exact Hk.
    - exact B.
    - exact D. }
  exact (bf_finish_B _ _ _ _ _ _ _ _ _ _ H Hi3).
Qed.

Lemma m_subbuild_HInv : forall f a kw (fn : pyval -> pyval -> body) w w' r,
  (forall sa skw w2 w3 r0, HInv w2 -> old_keys_ok (w_old w2) -> fn sa skw w2 = (w3, r0) -> HInv w3) ->
  m_subbuild f a kw fn w = (w', r) -> HInv w -> old_keys_ok (w_old w) -> HInv w'.
Proof.
  intros f a kw fn w w' r Hfn H Hi Hk. rewrite m_subbuild_unfold in H.
  destruct (sanitize a) as [sa|]; [|inversion H; subst; exact Hi].
  destruct (sanitize kw) as [skw|]; [|inversion H; subst; exact Hi].
  destruct (sb_setup f sa skw w) as [w1 [[[o|[e o]]|]|e]] eqn:Hs;
    try (inversion H; subst; exact (sb_setup_B _ _ _ _ _ _ Hs Hi)).
  pose proof (sb_setup_B _ _ _ _ _ _ Hs Hi) as A.
  pose proof (sb_setup_O _ _ _ _ _ _ Hs) as O1. unfold osame in O1.
  unfold sb_rebuild in H.
  destruct (fn sa skw (sb_invoke_world f sa skw w1)) as [w3 [res subs]] eqn:Ef.
  assert (Hi3 : HInv w3).
  { eapply Hfn; [| | exact Ef]; unfold sb_invoke_world.
    - apply HInv_set_log. exact A.
    - cbn [w_old set_log]. rewrite O1. exact Hk. }
  exact (sb_finish_B _ _ _ _ _ _ _ _ H Hi3).
Qed.

(* ================================================================== *)
(** * 3. The theorem: every program                                     *)
(* ================================================================== *)

Theorem run_HInv : forall pr target subs w w' r,
  HInv w -> old_keys_ok (w_old w) -> TSA target w -> run pr target subs w = (w', r) -> HInv w'.
Proof.
  induction pr as [v | e | stale q k IH | c k IH | stale p c f a kw fn IHfn k IHk | stale f a kw fn IHfn k IHk];
    intros target subs w w' r Hi Hk Ht H; cbn [run] in H.
  - inversion H; subst. exact Hi.
  - inversion H; subst. exact Hi.
  - destruct stale; [eapply IH; eauto|].
    destruct (m_query q w) as [w1 [r1 o]] eqn:E.
    pose proof (m_query_strict q w w1 _ E) as X. pose proof X as (O & _).
    apply IH in H; [exact H | | |].
    + apply HInv_log_answer. exact (hx_HInv true w w1 X Hi).
    + rewrite w_old_log_answer, O. exact Hk.
    + apply TSA_log_answer. exact (TSA_query target w w1 X Ht).
  - destruct target as [t|]; [|refine (IH None subs w w' r Hi Hk _ H); intros t Et; discriminate Et].
    destruct (Ht t eq_refl) as [A B].
    destruct (write_file (w_fs w) t c None (N.succ (w_clock w)) (w_nextid w)) as [fs'|e] eqn:E.
    + apply IH in H; [exact H | | |].
      * eapply write_keeps_HInv; eauto.
        intros h X. rewrite (pending_has_file _ _ A) in X. exfalso. exact (B h X).
      * exact Hk.
      * intros t' Et'. inversion Et'; subst t'. split; [exact A | exact B].
    + inversion H; subst. exact Hi.
  - destruct stale; [eapply IHk; eauto|].
    match type of H with (let '(_, _) := ?X in _) = _ => destruct X as [w1 [r1 o]] eqn:E end.
    assert (O : w_old w1 = w_old w).
    { refine (m_build_file_O p c f a kw _ _ w w1 _ E). intros sa skw. apply run_O. }
    apply IHk in H; [exact H | | |].
    + refine (m_build_file_HInv p c f a kw _ w w1 _ _ E Hi Hk).
      intros sa skw w2 w3 r0 Hi2 Hk2 P2 N2 R2. cbv beta in R2.
      refine (IHfn p sa skw (Some p) [] w2 w3 r0 Hi2 Hk2 _ R2).
      intros t Et. inversion Et; subst t. split; assumption.
    + rewrite O. exact Hk.
    + apply (TSA_call target w w1 Hk); [|exact Ht]. intros t Et.
      refine (m_build_file_P t p c f a kw _ _ _ w w1 _ E).
      * intros sa skw Hne. cbv beta. apply run_P. intro X. inversion X. contradiction.
      * intros sa skw. apply run_O.
  - destruct stale; [eapply IHk; eauto|].
    match type of H with (let '(_, _) := ?X in _) = _ => destruct X as [w1 [r1 o]] eqn:E end.
    assert (O : w_old w1 = w_old w).
    { refine (m_subbuild_O f a kw _ _ w w1 _ E). intros sa skw. apply run_O. }
    apply IHk in H; [exact H | | |].
    + refine (m_subbuild_HInv f a kw _ w w1 _ _ E Hi Hk).
      intros sa skw w2 w3 r0 Hi2 Hk2 R2. cbv beta in R2.
      refine (IHfn sa skw None [] w2 w3 r0 Hi2 Hk2 _ R2). intros t Et. discriminate Et.
    + rewrite O. exact Hk.
    + apply (TSA_call target w w1 Hk); [|exact Ht]. intros t Et.
      refine (m_subbuild_P t f a kw _ _ w w1 _ E).
      intros sa skw. cbv beta. apply run_P. discriminate.
Qed.

(* in particular plain HashOk, the hypothesis of C13_memo_transparent *)
Corollary run_HashOk : forall pr target subs w w' r,
  HInv w -> old_keys_ok (w_old w) -> TSA target w -> run pr target subs w = (w', r) -> HashOk w'.
Proof. intros. exact (proj1 (run_HInv pr target subs w w' r H H0 H1 H2)). Qed.

(* ================================================================== *)
(** * 4. From the start of the build                                    *)
(* ================================================================== *)

Theorem start_world_HInv : forall w cf old nm svers, HInv (start_world w cf old nm svers).
Proof.
  intros. split.
  - intros p h b f H. cbn [w_hash start_world hash_get] in H. discriminate H.
  - intros p h H. cbn [w_hash start_world hash_get] in H. discriminate H.
Qed.

(* the previous cache of a build is the empty cache or what read_immutable returned *)
Lemma old_keys_ok_empty : forall nm fv, old_keys_ok (empty_cache nm fv).
Proof. intros nm fv p p' cm f a k subs r cr ra sf H. discriminate H. Qed.

Definition fkeys_ok (l : list (path * option op)) : Prop :=
  forall p p' cm f a k subs r cr ra sf,
    files_get l p = Some (Some (OBuildFile p' cm f a k subs r cr ra sf)) -> p' = p.

Lemma fold_register_parsed_keys : forall subs,
  Forall (fun o => forall c, fkeys_ok (c_files c) -> fkeys_ok (c_files (register_parsed c o))) subs ->
  forall c, fkeys_ok (c_files c) -> fkeys_ok (c_files (fold_left register_parsed subs c)).
Proof.
  intros subs HF. induction HF as [|s rest Hs HF IH]; intros c Hc; cbn [fold_left]; [exact Hc|].
  apply IH, Hs, Hc.
Qed.

Lemma register_parsed_keys : forall o c, fkeys_ok (c_files c) -> fkeys_ok (c_files (register_parsed c o)).
Proof.
  induction o as [q r e | p c0 f a k subs r cr ra sf IH | f a k subs r ra sf IH] using op_ind';
    intros c Hc; cbn [register_parsed].
  - exact Hc.
  - pose proof (fold_register_parsed_keys subs IH c Hc) as H1. destruct sf; [exact H1|].
    cbn [cache_with c_files]. intros q p' cm f' a' k' subs' r' cr' ra' sf' H.
    rewrite files_get_set in H. destruct (path_eqb p q) eqn:E.
    + apply path_eqb_eq in E. inversion H; subst. reflexivity.
    + eapply H1; eauto.
  - pose proof (fold_register_parsed_keys subs IH c Hc) as H1. destruct sf; exact H1.
Qed.

Theorem read_keys_ok : forall j c, cache_of_json j = ReadOk c -> old_keys_ok c.
Proof.
  intros j c H. unfold cache_of_json in H.
  repeat match type of H with context [match ?x with _ => _ end] => destruct x; try discriminate H end.
  inversion H; subst c; clear H.
  match goal with |- old_keys_ok (fold_left register_parsed ?ops ?c0) =>
    assert (K : fkeys_ok (c_files (fold_left register_parsed ops c0))) end.
  { apply fold_register_parsed_keys.
    - apply Forall_forall. intros o _. apply register_parsed_keys.
    - intros zp zp' zcm zf za zk zsubs zr zcr zra zsf X. discriminate X. }
  intros zp zp' zcm zf za zk zsubs zr zcr zra zsf X. unfold cache_get_file in X.
  match type of X with match ?y with _ => _ end = _ => destruct y as [[zo|]|] eqn:E end; try discriminate X.
  inversion X; subst zo. eapply K; eauto.
Qed.

(* every world from the acceptance of the build to the return of the root function *)
Theorem build_user_code_HInv : forall cf old nm svers w root w1 ccd w2 res,
  old_keys_ok old ->
  make_dirs (dirname cf) (start_world w cf old nm svers) = (w1, inl ccd) ->
  run root None [] (set_log (LInvoke "<root>" None PNone PNone :: w_log w1) w1) = (w2, res) ->
  HInv w1 /\ HInv w2.
Proof.
  intros cf old nm svers w root w1 ccd w2 res Hk Hm Hr.
  assert (H1 : HInv w1).
  { refine (fstep_brel _ _ (make_dirs_fs _ _ _ _ Hm) _). apply start_world_HInv. }
  split; [exact H1|].
  refine (run_HInv root None [] _ w2 res _ _ _ Hr).
  - apply HInv_set_log. exact H1.
  - cbn [w_old set_log]. destruct (make_dirs_fs _ _ _ _ Hm) as (O & _). rewrite O. exact Hk.
  - intros t Et. discriminate Et.
Qed.

(* the two ways m_build accepts a build *)
Corollary build_from_cache_file_HInv : forall cf f nm svers w root old w1 ccd w2 res,
  cache_of_json (f_json f) = ReadOk old ->
  make_dirs (dirname cf) (start_world w cf old nm svers) = (w1, inl ccd) ->
  run root None [] (set_log (LInvoke "<root>" None PNone PNone :: w_log w1) w1) = (w2, res) ->
  HInv w2.
Proof.
  intros cf f nm svers w root old w1 ccd w2 res Hj Hm Hr.
  exact (proj2 (build_user_code_HInv cf old nm svers w root w1 ccd w2 res (read_keys_ok _ _ Hj) Hm Hr)).
Qed.
Corollary build_from_scratch_HInv : forall cf nm svers w root w1 ccd w2 res,
  make_dirs (dirname cf) (start_world w cf (empty_cache nm svers) nm svers) = (w1, inl ccd) ->
  run root None [] (set_log (LInvoke "<root>" None PNone PNone :: w_log w1) w1) = (w2, res) ->
  HInv w2.
Proof.
  intros cf nm svers w root w1 ccd w2 res Hm Hr.
  exact (proj2 (build_user_code_HInv cf _ nm svers w root w1 ccd w2 res (old_keys_ok_empty nm svers) Hm Hr)).
Qed.

(* ================================================================== *)
(** * 5. What it buys                                                   *)
(* ================================================================== *)

(* (a) under the invariant, the comparison result recorded for an output that was
   just rebuilt is the hash of the file as its function left it (and the file
   is untouched by the bookkeeping that follows) *)
Theorem rebuilt_output_hash : forall p f sa skw res subs w3 w' v o,
  HashOk w3 -> bf_finish p HASH f sa skw res subs w3 = (w', (inl v, Some o)) ->
  exists fl, lookup (w_fs w3) p = Some (NFile fl) /\ lookup (w_fs w') p = Some (NFile fl) /\
             o = OBuildFile p HASH f sa skw subs v (hash_of (f_bytes fl)) false false.
Proof.
  intros p f sa skw res subs w3 w' v o Hok H.
  apply bf_finish_success in H. destruct H as (v0 & cmp & w4 & -> & Hsv & Hc & Hne & -> & ->).
  unfold noneable_cmp in Hc. apply catch_inv in Hc. destruct Hc as [(a & Hc & Ha) | (w5 & e & Hc & Hh)].
  - inversion Ha; subst a. cbn [file_comparison_result] in Hc.
    destruct (file_hash_spec p w3 w4 _ Hok Hc) as (_ & F & _ & S).
    destruct (lookup (w_fs w3) p) as [[fl|]|] eqn:El.
    + inversion S; subst cmp. exists fl. split; [reflexivity|]. split; [|reflexivity].
      cbn [w_fs set_new]. rewrite F. exact El.
    + discriminate S.
    + destruct S as [e S]. discriminate S.
  - exfalso. apply Hne.
    destruct (is_os_class XFileNotFound e || is_os_class XIsADirectory e || is_os_class XNotADirectory e);
      inversion Hh; reflexivity.
Qed.

(* ... for every output every program rebuilds *)
Theorem every_rebuilt_output_hash : forall p f sa skw (fn : path -> pyval -> pyval -> prog) w w1 w' v o,
  HInv w -> old_keys_ok (w_old w) ->
  bf_setup p HASH f sa skw w = (w1, inl None) ->
  bf_rebuild p HASH f sa skw (fun p' a k w0 => run (fn p' a k) (Some p') [] w0) w1 = (w', (inl v, Some o)) ->
  exists fl subs, lookup (w_fs w') p = Some (NFile fl) /\
                  o = OBuildFile p HASH f sa skw subs v (hash_of (f_bytes fl)) false false.
Proof.
  intros p f sa skw fn w w1 w' v o Hi Hk Hset H.
  destruct (bf_setup_None _ _ _ _ _ _ _ Hset Hi) as (A & B & C & D).
  pose proof (bf_setup_O _ _ _ _ _ _ _ _ Hset) as O1. unfold osame in O1.
  unfold bf_rebuild in H. cbv beta in H.
  destruct (run (fn p sa skw) (Some p) [] (bf_invoke_world p f sa skw w1)) as [w3 [res subs]] eqn:Er.
  assert (H3 : HInv w3).
  { refine (run_HInv _ (Some p) [] _ w3 _ _ _ _ Er); unfold bf_invoke_world.
    - apply HInv_set_log. exact A.
    - cbn [w_old set_log]. rewrite O1. exact Hk.
    - intros t Et. inversion Et; subst t. split; [exact B | exact D]. }
  destruct (rebuilt_output_hash _ _ _ _ _ _ _ _ _ _ (proj1 H3) H) as (fl & _ & L & ->).
  exists fl, subs. split; [exact L | reflexivity].
Qed.

(* (b) a read with HASH comparison that succeeds: the record carries the hash of
   the file on disk, and the reader is handed exactly those bytes *)
Theorem read_records_hash_of_bytes_seen : forall p w w1 v o,
  HashOk w -> m_query (QRead p HASH) w = (w1, (inl v, o)) ->
  exists fl, lookup (w_fs w) p = Some (NFile fl) /\ lookup (w_fs w1) p = Some (NFile fl) /\
             v = hash_of (f_bytes fl) /\
             o = Some (OSimple (QRead p HASH) (hash_of (f_bytes fl)) None) /\
             user_answer (QRead p HASH) (inl v) w1 = inl (PStr (f_bytes fl)).
Proof.
  intros p w w1 v o Hok H. unfold m_query in H.
  destruct (exec_query (QRead p HASH) None w) as [w2 [v0|e]] eqn:E.
  2:{ destruct e; try discriminate H. }
  inversion H; subst w2 v0 o; clear H.
  pose proof (exec_query_strict (QRead p HASH) w w1 _ E) as (_ & F1 & _).
  cbn [exec_query] in E.
  destruct (m_read_hash_result p None w w1 v Hok E) as (fl & El & ->).
  exists fl. split; [exact El|]. split; [rewrite F1; exact El|].
  split; [reflexivity|]. split; [reflexivity|].
  unfold user_answer, canon_err. rewrite F1, El. reflexivity.
Qed.

(* ... at every such read of every program: the step [run] takes *)
Theorem run_read_step : forall p (k : Prog.outcome -> prog) target subs w w' r,
  HashOk w -> run (Ask false (QRead p HASH) k) target subs w = (w', r) ->
  (exists fl w1,
     lookup (w_fs w) p = Some (NFile fl) /\ w_fs w1 = w_fs w /\
     run (k (inl (PStr (f_bytes fl)))) target
         (subs ++ [OSimple (QRead p HASH) (hash_of (f_bytes fl)) None]) w1 = (w', r)) \/
  (exists e w1 o, w_fs w1 = w_fs w /\ run (k (inr e)) target (app_op subs o) w1 = (w', r)).
Proof.
  intros p k target subs w w' r Hok H. cbn [run] in H.
  destruct (m_query (QRead p HASH) w) as [w1 [r1 o]] eqn:E.
  pose proof (m_query_strict _ w w1 _ E) as (_ & F1 & _).
  destruct r1 as [v|e].
  - left. destruct (read_records_hash_of_bytes_seen p w w1 v o Hok E) as (fl & L & L1 & -> & -> & U).
    rewrite U in H. exists fl. eexists. split; [exact L|]. split; [|exact H].
    unfold log_answer. cbn [w_fs set_log]. exact F1.
  - right. set (r' := user_answer (QRead p HASH) (inr e) w1) in *.
    assert (X : exists e', r' = inr e').
    { unfold r', user_answer, canon_err. destruct e; eauto. cbn [query_path]. destruct (path_ok p); eauto. }
    destruct X as [e' X]. rewrite X in H. exists e'. eexists. exists o. split; [|exact H].
    unfold log_answer. destruct e'; cbn [w_fs set_log]; exact F1.
Qed.
