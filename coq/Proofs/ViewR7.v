(* Proofs/ViewR7.v — C04, arbitrary previous caches, part 7: the NEW cache.  Every record that a
   build stores in its tables is well formed (wfrec), provided the records of the previous
   cache that can be looked up are, and the targets of the program are creatable and shallow:
   an invariant of every run (no other hypothesis: this is independent of RInv).  Hence the
   tables that Cache.write serialises at commit hold well-formed records only.            *)
From Coq Require Import List String Ascii NArith ZArith Bool Arith Lia.
From FB.Base Require Import PyVal Fs.
From FB.Gen Require Import JsonUtilGen.
From FB.Spec Require Import Prog.
From FB.Model Require Import Types Monad CreatedFiles BuildDirs SimpleOps Builder Persist Build Run Frame.
From FB.Proofs Require Import FsLemmas CleanLaws JsonLaws CoreLawsChildren ReplayLaws BuildFileLaws FrameLaws
     ViewDefs ViewLemmas ViewPres ViewXSetup ViewH4 ViewR1 ViewR2 ViewR3.
Import ListNotations.
Open Scope list_scope.
Open Scope m_scope.

Local Notation glw := (gl walk_fuel).

(* ------------------------------------------------------------------ tables that hold well-formed records *)
Definition WfTab (c : cache) : Prop :=
  (forall p o, In (p, Some o) (c_files c) -> wfrec o = true) /\
  (forall k o, In (k, Some o) (c_subs c) -> wfrec o = true).

Lemma subs_get_In : forall l k o, subs_get l k = Some o -> exists q, In (q, o) l.
Proof.
  induction l as [|[q o'] l IH]; intros k o H; cbn [subs_get] in H; [discriminate|].
  destruct (py_eq q k).
  - inversion H; subst. exists q. left. reflexivity.
  - destruct (IH _ _ H) as [q' Hq]. exists q'. right. exact Hq.
Qed.

Theorem WfTab_WfCache : forall c, WfTab c -> WfCache c.
Proof.
  intros c [HF HS]. split.
  - intros p rec H. unfold cache_get_file in H. destruct (files_get (c_files c) p) as [o|] eqn:E; [|discriminate].
    subst o. apply (HF p). apply files_get_In. exact E.
  - intros k rec H. destruct (subs_get_In _ _ _ H) as [q Hq]. apply (HS q). exact Hq.
Qed.

Lemma files_set_In : forall l p v q o, In (q, Some o) (files_set l p v) -> v = Some o \/ In (q, Some o) l.
Proof.
  induction l as [|[q' o'] l IH]; intros p v q o H; cbn [files_set] in H.
  - destruct H as [H|[]]. inversion H; subst. left. reflexivity.
  - destruct (path_eqb q' p).
    + destruct H as [H|H]; [inversion H; subst; left; reflexivity|right; right; exact H].
    + destruct H as [H|H]; [right; left; exact H|]. destruct (IH _ _ _ _ H) as [K|K]; [left; exact K|right; right; exact K].
Qed.

Lemma files_del_In : forall l p x, In x (files_del l p) -> In x l.
Proof.
  induction l as [|[q' o'] l IH]; intros p x H; cbn [files_del] in H; [destruct H|].
  destruct (path_eqb q' p); [right; apply (IH _ _ H)|]. destruct H as [H|H]; [left; exact H|right; apply (IH _ _ H)].
Qed.

Lemma subs_set_In : forall l k v q o, In (q, Some o) (subs_set l k v) -> v = Some o \/ In (q, Some o) l.
Proof.
  induction l as [|[q' o'] l IH]; intros k v q o H; cbn [subs_set] in H.
  - destruct H as [H|[]]. inversion H; subst. left. reflexivity.
  - destruct (py_eq q' k).
    + destruct H as [H|H]; [inversion H; subst; left; reflexivity|right; right; exact H].
    + destruct H as [H|H]; [right; left; exact H|]. destruct (IH _ _ _ _ H) as [K|K]; [left; exact K|right; right; exact K].
Qed.

Lemma WfTab_files_set : forall c p v d b, WfTab c -> (forall o, v = Some o -> wfrec o = true) ->
  WfTab (cache_with c (files_set (c_files c) p v) (c_subs c) d b).
Proof.
  intros c p v d b [HF HS] Hv. split; cbn.
  - intros q o H. destruct (files_set_In _ _ _ _ _ H) as [K|K]; [apply Hv; exact K|apply (HF _ _ K)].
  - exact HS.
Qed.

Lemma WfTab_files_del : forall c p d b, WfTab c -> WfTab (cache_with c (files_del (c_files c) p) (c_subs c) d b).
Proof. intros c p d b [HF HS]. split; cbn; [intros q o H; apply (HF q); apply (files_del_In _ _ _ H)|exact HS]. Qed.

Lemma WfTab_subs_set : forall c k v d b, WfTab c -> (forall o, v = Some o -> wfrec o = true) ->
  WfTab (cache_with c (c_files c) (subs_set (c_subs c) k v) d b).
Proof.
  intros c k v d b [HF HS] Hv. split; cbn.
  - exact HF.
  - intros q o H. destruct (subs_set_In _ _ _ _ _ H) as [K|K]; [apply Hv; exact K|apply (HS _ _ K)].
Qed.

Lemma wfrec_subs : forall o, wfrec o = true -> forallb wfrec (op_subs o) = true.
Proof.
  intros [q r e|p c f a k subs r cr ra sf|f a k subs r ra sf] H; cbn [wfrec op_subs] in *; [reflexivity| |exact H].
  apply andb_true_iff in H. apply H.
Qed.

Theorem register_op_wf : forall o c, wfrec o = true -> WfTab c -> WfTab (register_op c o).
Proof.
  induction o as [q r e|p cm f a k subs r cr ra sf IH|f a k subs r ra sf IH] using op_ind'; intros c Hw HT; cbn [register_op].
  - exact HT.
  - assert (Hsubs: forallb wfrec subs = true) by (apply (wfrec_subs _ Hw)).
    set (c1 := if sf then c else cache_with c (files_set (c_files c) p (Some (OBuildFile p cm f a k subs r cr ra sf))) (c_subs c) (c_dirs c) (c_built c)).
    assert (H1: WfTab c1).
    { unfold c1. destruct sf; [exact HT|]. apply WfTab_files_set; [exact HT|]. intros o Ho. inversion Ho; subst. exact Hw. }
    clearbody c1. clear Hw HT. revert c1 H1 Hsubs. induction IH as [|s rest Hs HF IHl]; intros c1 H1 Hsubs; cbn [fold_left]; [exact H1|].
    cbn [forallb] in Hsubs. apply andb_true_iff in Hsubs. destruct Hsubs as [A B].
    apply IHl; [apply Hs; assumption|exact B].
  - assert (Hsubs: forallb wfrec subs = true) by (apply (wfrec_subs _ Hw)).
    set (c1 := if sf then c else cache_with c (c_files c) (subs_set (c_subs c) (subbuild_key f a k) (Some (OSubbuild f a k subs r ra sf))) (c_dirs c) (c_built c)).
    assert (H1: WfTab c1).
    { unfold c1. destruct sf; [exact HT|]. apply WfTab_subs_set; [exact HT|]. intros o Ho. inversion Ho; subst. exact Hw. }
    clearbody c1. clear Hw HT. revert c1 H1 Hsubs. induction IH as [|s rest Hs HF IHl]; intros c1 H1 Hsubs; cbn [fold_left]; [exact H1|].
    cbn [forallb] in Hsubs. apply andb_true_iff in Hsubs. destruct Hsubs as [A B].
    apply IHl; [apply Hs; assumption|exact B].
Qed.

(* ------------------------------------------------------------------ steps *)
Definition N (w : world) : Prop := WfTab (w_new w).

Lemma N_new_same : forall w w', new_same w w' -> N w -> N w'.
Proof. intros w w' (A & _) H. unfold N. rewrite A. exact H. Qed.

Lemma N_newPO : forall X (m : world -> world * X) w w' r, pres newPO m -> m w = (w', r) -> N w -> N w'.
Proof. intros X m w w' r Hm H. apply N_new_same. apply (Hm _ _ _ H). Qed.

Lemma N_svb : forall X (m : world -> world * X) w w' r, pres svbPO m -> m w = (w', r) -> N w -> N w'.
Proof. intros X m w w' r Hm H. apply N_new_same. apply svb_new. apply (Hm _ _ _ H). Qed.

Lemma new_use_cached_N : forall o w w' r, wfrec o = true -> N w -> new_use_cached_operation o w = (w', r) -> N w'.
Proof.
  intros o w w' r Hw HN H. unfold new_use_cached_operation, bind, get, put in H.
  destruct (assert_no_repeats (w_new w) o); inversion H; subst; [|exact HN].
  unfold N. cbn. apply register_op_wf; assumption.
Qed.

Lemma pnone_false : forall v, match v with PNone => False | _ => True end -> pnone v = false.
Proof. intros [] H; try reflexivity. destruct H. Qed.

Definition rec_ok (r : option (op + exn * op) + exn) : Prop :=
  match r with
  | inl (Some (inl o)) => wfrec o = true
  | inl (Some (inr (e, o))) => wfrec o = true
  | _ => True
  end.

Lemma bf_reuse_N : forall p c f sa skw cached w w' r, tgtP p ->
  (forall co, cached = Some co -> wfrec co = true) -> N w ->
  bf_reuse p c f sa skw cached w = (w', r) ->
  N w' /\ match r with inl x => rec_ok (inl x) | inr _ => True end.
Proof.
  intros p c f sa skw cached w w' r Hp Hwf HN H. destruct cached as [co|]; cbn [bf_reuse] in H.
  2:{ inversion H; subst. split; [exact HN|exact I]. }
  specialize (Hwf co eq_refl). cbv zeta in H.
  apply bind_inv in H. destruct H as [[wc [cmp [Ec H]]]|[e [Ec Er]]].
  2:{ subst r. split; [|exact I]. apply (N_svb _ _ _ _ _ (noneable_cmp_svb _ _) Ec HN). }
  pose proof (N_svb _ _ _ _ _ (noneable_cmp_svb _ _) Ec HN) as HNc.
  assert (Hreuse: pnone cmp = false -> forall x,
            (apply_cached_subs_of co ;;;
             (r0 <- attempt (new_use_cached_operation (OBuildFile p c f sa skw (op_subs co) (op_ret co) cmp false false)) ;;
              match r0 with
              | inl _ => ret (Some (inl (OBuildFile p c f sa skw (op_subs co) (op_ret co) cmp false false)))
              | inr e => ret (Some (inr (e, OBuildFile p c f sa skw (op_subs co) (op_ret co) cmp true true)))
              end)) wc = (w', x) ->
            N w' /\ match x with inl y => rec_ok (inl y) | inr _ => True end).
  { intros Hcmp x Hx.
    assert (Ho: wfrec (OBuildFile p c f sa skw (op_subs co) (op_ret co) cmp false false) = true).
    { cbn [wfrec]. rewrite Hcmp. cbn [negb orb andb]. rewrite Hp. cbn [andb]. apply (wfrec_subs _ Hwf). }
    assert (Ho': wfrec (OBuildFile p c f sa skw (op_subs co) (op_ret co) cmp true true) = true).
    { cbn [wfrec]. cbn [orb andb]. rewrite Hp. cbn [andb]. apply (wfrec_subs _ Hwf). }
    apply bind_inv in Hx. destruct Hx as [[wd [u [Ea Hx]]]|[e [Ea Er]]].
    2:{ subst x. split; [|exact I]. apply (N_newPO _ _ _ _ _ (apply_cached_subs_of_new _) Ea HNc). }
    pose proof (N_newPO _ _ _ _ _ (apply_cached_subs_of_new _) Ea HNc) as HNd.
    apply bind_inv in Hx. unfold attempt in Hx.
    destruct (new_use_cached_operation (OBuildFile p c f sa skw (op_subs co) (op_ret co) cmp false false) wd) as [we re] eqn:Eu.
    pose proof (new_use_cached_N _ _ _ _ Ho HNd Eu) as HNe.
    destruct Hx as [[wf [r0 [E0 Hx]]]|[e [E0 _]]]; [|discriminate]. inversion E0; subst wf r0.
    destruct re; inversion Hx; subst; (split; [exact HNe|]); cbn [rec_ok]; assumption. }
  destruct cmp; try (apply (Hreuse eq_refl _ H)).
  inversion H; subst. split; [exact HNc|exact I].
Qed.

Lemma bf_claim_N : forall p w w' r, N w -> bf_claim p w = (w', r) -> N w'.
Proof.
  intros p w w' r HN H.
  assert (Hst: forall u u' x, N u -> new_start_building_file p u = (u', x) -> N u').
  { intros u u' x Hu Hs. unfold new_start_building_file, new_assert_no_file, bind, get, modify in Hs.
    destruct (cache_has_file (w_new u) p); cbn in Hs; inversion Hs; subst; [exact Hu|].
    unfold N. cbn. apply WfTab_files_set; [exact Hu|]. intros o Ho. discriminate. }
  assert (Hab: forall u u' x, N u -> new_abort_building_file p u = (u', x) -> N u').
  { intros u u' x Hu Hs. unfold new_abort_building_file, modify in Hs. inversion Hs; subst.
    unfold N. cbn. apply WfTab_files_del. exact Hu. }
  unfold bf_claim in H. apply bind_inv in H. destruct H as [[wa [u [E1 H]]]|[e [E1 _]]]; [|apply (Hst _ _ _ HN E1)].
  pose proof (Hst _ _ _ HN E1) as HNa.
  apply bind_inv in H.
  assert (Hc: forall wb x, catch (w0 <- get ;; (if isfile (w_fs w0) p then b <- back_up_and_remove p ;; ret tt else ret tt))
                                 (fun e => new_abort_building_file p ;;; raise e) wa = (wb, x) -> N wb).
  { intros wb x Hc. unfold catch in Hc.
    destruct ((w0 <- get ;; (if isfile (w_fs w0) p then b <- back_up_and_remove p ;; ret tt else ret tt)) wa) as [wc rc] eqn:E3.
    assert (HNc: N wc).
    { refine (N_newPO _ _ _ _ _ _ E3 HNa). apply pres_bind; [apply pres_get|]. intro w0.
      destruct (isfile (w_fs w0) p); [|apply pres_ret]. apply pres_bind; [apply back_up_and_remove_new|intro; apply pres_ret]. }
    destruct rc as [t|e]; [inversion Hc; subst; exact HNc|].
    apply bind_inv in Hc. destruct Hc as [[wd [t [E4 E5]]]|[e3 [E4 _]]].
    - inversion E5; subst. apply (Hab _ _ _ HNc E4).
    - apply (Hab _ _ _ HNc E4). }
  destruct H as [[wb [u' [E2 H]]]|[e [E2 _]]].
  - inversion H; subst. apply (Hc _ _ E2).
  - apply (Hc _ _ E2).
Qed.

Lemma bf_try_N : forall p c f sa skw w w' r, tgtP p -> WfCache (w_old w) -> N w ->
  bf_try p c f sa skw w = (w', r) -> N w' /\ rec_ok r.
Proof.
  intros p c f sa skw w w' r Hp [HW _] HN H. unfold bf_try in H.
  apply bind_inv in H. destruct H as [[wl [cached [El H]]]|[e [El Er]]].
  2:{ subst r. split; [|exact I]. apply (N_svb _ _ _ _ _ (build_file_cache_lookup_svb _ _ _ _) El HN). }
  pose proof (N_svb _ _ _ _ _ (build_file_cache_lookup_svb _ _ _ _) El HN) as HNl.
  assert (Hwf: forall co, cached = Some co -> wfrec co = true).
  { intros co ->. apply (HW p). apply (lookup_rec _ _ _ _ _ _ _ El). }
  apply bind_inv in H. destruct H as [[wr [reused [Er H]]]|[e [Er Ee]]].
  2:{ subst r. split; [|exact I]. apply (bf_reuse_N _ _ _ _ _ _ _ _ _ Hp Hwf HNl Er). }
  destruct (bf_reuse_N _ _ _ _ _ _ _ _ _ Hp Hwf HNl Er) as [HNr Hrec].
  destruct reused as [[o|[e o]]|].
  - inversion H; subst. split; [exact HNr|exact Hrec].
  - apply bind_inv in H. destruct H as [[wd [u [Ed H]]]|[e' [Ed Ee]]].
    + inversion H; subst. split; [apply (N_svb _ _ _ _ _ (m_bd_error_svb _) Ed HNr)|exact Hrec].
    + subst r. split; [apply (N_svb _ _ _ _ _ (m_bd_error_svb _) Ed HNr)|exact I].
  - split; [apply (bf_claim_N _ _ _ _ HNr H)|].
    unfold bf_claim in H. apply bind_inv in H. destruct H as [[wa [u [E1 H]]]|[e [E1 Ee]]]; [|subst r; exact I].
    apply bind_inv in H. destruct H as [[wb [u' [E2 H]]]|[e [E2 Ee]]]; [inversion H; subst; exact I|subst r; exact I].
Qed.

Lemma bf_setup_N : forall p c f sa skw w w' r, tgtP p -> WfCache (w_old w) -> N w ->
  bf_setup p c f sa skw w = (w', r) -> N w' /\ rec_ok r.
Proof.
  intros p c f sa skw w w1 r Hp HW HN H. rewrite bf_setup_eq in H.
  apply bind_inv in H. destruct H as [[wa [u [E H]]]|[e [E Er]]].
  2:{ subst r. split; [|exact I]. apply (N_svb _ _ _ _ _ (new_assert_no_file_svb _) E HN). }
  pose proof (N_svb _ _ _ _ _ (new_assert_no_file_svb _) E HN) as HNa.
  assert (HWa: WfCache (w_old wa)).
  { pose proof (new_assert_no_file_svb _ _ _ _ E) as (_ & _ & _ & O & _). cbn in O. rewrite O. exact HW. }
  apply bind_inv in H. destruct H as [[wb [icf [E1 H]]]|[e [E1 _]]]; [|discriminate].
  unfold is_cache_file in E1. assert (wb = wa) by congruence. subst wb.
  apply bind_inv in H. destruct H as [[wb [u1 [E2 H]]]|[e [E2 Er]]].
  2:{ subst r. destruct icf; inversion E2; subst. split; [exact HNa|exact I]. }
  assert (wb = wa) by (destruct icf; inversion E2; reflexivity). subst wb.
  apply bind_inv in H. destruct H as [[wc [created [E3 H]]]|[e [E3 Er]]].
  2:{ subst r. split; [|exact I]. apply (N_newPO _ _ _ _ _ (prepare_file_creation_new _) E3 HNa). }
  pose proof (N_newPO _ _ _ _ _ (prepare_file_creation_new _) E3 HNa) as HNc.
  pose proof (prepare_file_creation_new _ _ _ _ E3) as (_ & O3 & _).
  apply bind_inv in H. destruct H as [[wd [locked [E4 H]]]|[e [E4 Er]]].
  2:{ subst r. split; [|exact I]. apply (N_svb _ _ _ _ _ (m_bd_started_svb _ _) E4 HNc). }
  pose proof (N_svb _ _ _ _ _ (m_bd_started_svb _ _) E4 HNc) as HNd.
  assert (HWd: WfCache (w_old wd)).
  { pose proof (m_bd_started_svb _ _ _ _ _ E4) as (_ & _ & _ & O4 & _). cbn in O4. rewrite O4, O3. exact HWa. }
  unfold catch in H. fold (bf_try p c f sa skw) in H.
  destruct (bf_try p c f sa skw wd) as [we [x|e]] eqn:Et.
  - inversion H; subst. apply (bf_try_N _ _ _ _ _ _ _ _ Hp HWd HNd Et).
  - destruct (bf_try_N _ _ _ _ _ _ _ _ Hp HWd HNd Et) as [HNe _].
    apply bind_inv in H. destruct H as [[wf [u2 [E5 H]]]|[e' [E5 Er]]].
    + inversion H; subst. split; [apply (N_svb _ _ _ _ _ (m_bd_error_svb _) E5 HNe)|exact I].
    + subst r. split; [apply (N_svb _ _ _ _ _ (m_bd_error_svb _) E5 HNe)|exact I].
Qed.

Lemma new_finish_N : forall p o w w' r, wfrec o = true -> N w -> new_finish_building_file p o w = (w', r) -> N w'.
Proof.
  intros p o w w' r Ho HN H. unfold new_finish_building_file, modify in H. inversion H; subst.
  unfold N. cbn. apply WfTab_files_set; [exact HN|]. intros o' Ho'. inversion Ho'; subst. exact Ho.
Qed.

Lemma bf_fail_N : forall p c f sa skw subs e w w' ro oo, tgtP p -> forallb wfrec subs = true -> N w ->
  bf_fail p c f sa skw subs e w = (w', (ro, oo)) -> N w' /\ (forall o, oo = Some o -> wfrec o = true).
Proof.
  intros p c f sa skw subs e w w' ro oo Hp Hs HN H. unfold bf_fail in H. cbv zeta in H.
  assert (Ho: wfrec (OBuildFile p c f sa skw subs PNone PNone true false) = true).
  { cbn [wfrec]. cbn [orb andb]. rewrite Hp. exact Hs. }
  destruct ((try_to_remove_file p ;;; m_bd_error p ;;; new_finish_building_file p
               (OBuildFile p c f sa skw subs PNone PNone true false)) w) as [w1 r1] eqn:E.
  assert (HN1: N w1).
  { apply bind_inv in E. destruct E as [[wa [u [Ea E]]]|[e' [Ea _]]]; [|apply (N_newPO _ _ _ _ _ (try_to_remove_file_new _) Ea HN)].
    pose proof (N_newPO _ _ _ _ _ (try_to_remove_file_new _) Ea HN) as HNa.
    apply bind_inv in E. destruct E as [[wb [u' [Eb E]]]|[e' [Eb _]]]; [|apply (N_svb _ _ _ _ _ (m_bd_error_svb _) Eb HNa)].
    pose proof (N_svb _ _ _ _ _ (m_bd_error_svb _) Eb HNa) as HNb.
    apply (new_finish_N _ _ _ _ _ Ho HNb E). }
  destruct r1; inversion H; subst; (split; [exact HN1|]); intros o Eo; inversion Eo; subst; exact Ho.
Qed.

Lemma bf_finish_N : forall p c f sa skw res subs w w' ro oo, tgtP p -> forallb wfrec subs = true -> N w ->
  bf_finish p c f sa skw res subs w = (w', (ro, oo)) -> N w' /\ (forall o, oo = Some o -> wfrec o = true).
Proof.
  intros p c f sa skw res subs w w' ro oo Hp Hs HN H. unfold bf_finish in H.
  destruct res as [v|e]; [|apply (bf_fail_N _ _ _ _ _ _ _ _ _ _ _ Hp Hs HN H)].
  destruct (sanitize v) as [sv|]; [|apply (bf_fail_N _ _ _ _ _ _ _ _ _ _ _ Hp Hs HN H)].
  destruct (noneable_cmp p c w) as [w4 r4] eqn:E4.
  pose proof (N_svb _ _ _ _ _ (noneable_cmp_svb _ _) E4 HN) as HN4.
  destruct r4 as [cmp|e]; [|apply (bf_fail_N _ _ _ _ _ _ _ _ _ _ _ Hp Hs HN4 H)].
  assert (Hok: pnone cmp = false -> forall w5 u, new_finish_building_file p (OBuildFile p c f sa skw subs sv cmp false false) w4 = (w5, u) ->
               N w5 /\ wfrec (OBuildFile p c f sa skw subs sv cmp false false) = true).
  { intros Hc w5 u E5.
    assert (Ho: wfrec (OBuildFile p c f sa skw subs sv cmp false false) = true).
    { cbn [wfrec]. rewrite Hc. cbn [negb orb andb]. rewrite Hp. exact Hs. }
    split; [apply (new_finish_N _ _ _ _ _ Ho HN4 E5)|exact Ho]. }
  destruct cmp; try (apply (bf_fail_N _ _ _ _ _ _ _ _ _ _ _ Hp Hs HN4 H));
    (match type of H with (match ?X with _ => _ end) = _ => destruct X as [w5 r5] eqn:E5 end;
     destruct (Hok eq_refl _ _ eq_refl) as [A B]; inversion H; subst; split; [exact A|intros o Eo; inversion Eo; subst; exact B]).
Qed.

(* ------------------------------------------------------------------ build_file, subbuild *)
Definition body_ok (b : body) : Prop :=
  forall w0 w1 r l, WfCache (w_old w0) -> N w0 -> b w0 = (w1, (r, l)) ->
    N w1 /\ forallb wfrec l = true /\ w_old w1 = w_old w0.

Theorem m_build_file_N : forall p c f a kw (fn : path -> pyval -> pyval -> body) w w' ro oo, tgtP p ->
  (forall sa skw, body_ok (fn p sa skw)) ->
  WfCache (w_old w) -> N w -> m_build_file p c f a kw fn w = (w', (ro, oo)) ->
  N w' /\ (forall o, oo = Some o -> wfrec o = true) /\ w_old w' = w_old w.
Proof.
  intros p c f a kw fn w w' ro oo Hp Hfn HW HN H.
  assert (Hlen: List.length p < walk_fuel) by (apply tgtP_len; exact Hp).
  rewrite m_build_file_unfold in H.
  destruct (sanitize a) as [sa|]; [|inversion H; subst; split; [exact HN|split; [discriminate|reflexivity]]].
  destruct (sanitize kw) as [skw|]; [|inversion H; subst; split; [exact HN|split; [discriminate|reflexivity]]].
  destruct (bf_setup p c f sa skw w) as [w1 r1] eqn:Es.
  destruct (bf_setup_N _ _ _ _ _ _ _ _ Hp HW HN Es) as [HN1 Hrec].
  pose proof (bf_setup_gl _ _ _ _ _ _ _ _ HW Hlen Es) as (_ & O1 & _).
  destruct r1 as [[[o|[e o]]|]|e].
  - inversion H; subst. split; [exact HN1|]. split; [|exact O1]. intros o' Eo. inversion Eo; subst. exact Hrec.
  - inversion H; subst. split; [exact HN1|]. split; [|exact O1]. intros o' Eo. inversion Eo; subst. exact Hrec.
  - unfold bf_rebuild in H.
    destruct (fn p sa skw (bf_invoke_world p f sa skw w1)) as [w3 [res3 subs3]] eqn:Ef.
    destruct (Hfn sa skw (bf_invoke_world p f sa skw w1) w3 res3 subs3) as (HN3 & Hs3 & O3); [cbn; rewrite O1; exact HW|exact HN1|exact Ef|].
    destruct (bf_finish_N _ _ _ _ _ _ _ _ _ _ _ Hp Hs3 HN3 H) as [A B].
    pose proof (bf_finish_gl walk_fuel _ _ _ _ _ _ _ _ _ _ H) as (_ & O4 & _).
    split; [exact A|]. split; [exact B|]. cbn in O3. congruence.
  - inversion H; subst. split; [exact HN1|]. split; [|exact O1]. intros o' Eo. inversion Eo; subst.
    cbn [wfrec]. cbn [orb andb forallb]. rewrite Hp. reflexivity.
Qed.

Lemma sb_setup_N : forall f sa skw w w' r, WfCache (w_old w) -> N w -> sb_setup f sa skw w = (w', r) ->
  N w' /\ rec_ok r.
Proof.
  intros f sa skw w w' r [_ HW] HN H. unfold sb_setup in H. cbv zeta in H.
  apply bind_inv in H. destruct H as [[wa [u [E H]]]|[e [E Er]]].
  2:{ subst r. split; [|exact I]. apply (N_svb _ _ _ _ _ (new_assert_no_subbuild_svb _) E HN). }
  pose proof (N_svb _ _ _ _ _ (new_assert_no_subbuild_svb _) E HN) as HNa.
  pose proof (new_assert_no_subbuild_svb _ _ _ _ E) as S0.
  apply bind_inv in H. destruct H as [[wl [cached [El H]]]|[e [El Er]]].
  2:{ subst r. split; [|exact I]. apply (N_svb _ _ _ _ _ (subbuild_cache_lookup_svb _ _) El HNa). }
  pose proof (N_svb _ _ _ _ _ (subbuild_cache_lookup_svb _ _) El HNa) as HNl.
  destruct cached as [co|].
  - assert (Hwf: wfrec co = true).
    { apply (HW (subbuild_key f sa skw)). pose proof (sublookup_rec _ _ _ _ _ El) as K.
      destruct S0 as (_ & _ & _ & O & _). rewrite <- O. exact K. }
    assert (Ho: wfrec (OSubbuild f sa skw (op_subs co) (op_ret co) false false) = true) by (cbn [wfrec]; apply (wfrec_subs _ Hwf)).
    assert (Ho': wfrec (OSubbuild f sa skw (op_subs co) (op_ret co) true true) = true) by (cbn [wfrec]; apply (wfrec_subs _ Hwf)).
    apply bind_inv in H. destruct H as [[wd [u' [Ea H]]]|[e [Ea Er]]].
    2:{ subst r. split; [|exact I]. apply (N_newPO _ _ _ _ _ (apply_cached_subs_of_new _) Ea HNl). }
    pose proof (N_newPO _ _ _ _ _ (apply_cached_subs_of_new _) Ea HNl) as HNd.
    apply bind_inv in H. unfold attempt in H.
    destruct (new_use_cached_operation (OSubbuild f sa skw (op_subs co) (op_ret co) false false) wd) as [we re] eqn:Eu.
    pose proof (new_use_cached_N _ _ _ _ Ho HNd Eu) as HNe.
    destruct H as [[wf [r0 [E0 H]]]|[e [E0 _]]]; [|discriminate]. inversion E0; subst wf r0.
    destruct re; inversion H; subst; (split; [exact HNe|]); cbn [rec_ok]; assumption.
  - assert (Hst: forall wb x, new_start_subbuild (subbuild_key f sa skw) wl = (wb, x) -> N wb).
    { intros wb x Hs. unfold new_start_subbuild, new_assert_no_subbuild, bind, get, modify in Hs.
      destruct (cache_has_subbuild (w_new wl) _); cbn in Hs; inversion Hs; subst; [exact HNl|].
      unfold N. cbn. apply WfTab_subs_set; [exact HNl|]. intros o Ho. discriminate. }
    apply bind_inv in H. destruct H as [[wd [u' [Ea H]]]|[e [Ea Er]]].
    + inversion H; subst. split; [apply (Hst _ _ Ea)|exact I].
    + subst r. split; [apply (Hst _ _ Ea)|exact I].
Qed.

Theorem m_subbuild_N : forall f a kw (fn : pyval -> pyval -> body) w w' ro oo,
  (forall sa skw, body_ok (fn sa skw)) ->
  WfCache (w_old w) -> N w -> m_subbuild f a kw fn w = (w', (ro, oo)) ->
  N w' /\ (forall o, oo = Some o -> wfrec o = true) /\ w_old w' = w_old w.
Proof.
  intros f a kw fn w w' ro oo Hfn HW HN H. rewrite m_subbuild_unfold in H.
  destruct (sanitize a) as [sa|]; [|inversion H; subst; split; [exact HN|split; [discriminate|reflexivity]]].
  destruct (sanitize kw) as [skw|]; [|inversion H; subst; split; [exact HN|split; [discriminate|reflexivity]]].
  destruct (sb_setup f sa skw w) as [w1 r1] eqn:Es.
  destruct (sb_setup_N _ _ _ _ _ _ HW HN Es) as [HN1 Hrec].
  pose proof (sb_setup_gl _ _ _ _ _ _ HW Es) as (_ & O1 & _).
  destruct r1 as [[[o|[e o]]|]|e].
  - inversion H; subst. split; [exact HN1|]. split; [|exact O1]. intros o' Eo. inversion Eo; subst. exact Hrec.
  - inversion H; subst. split; [exact HN1|]. split; [|exact O1]. intros o' Eo. inversion Eo; subst. exact Hrec.
  - unfold sb_rebuild in H.
    destruct (fn sa skw (sb_invoke_world f sa skw w1)) as [w3 [res3 subs3]] eqn:Ef.
    destruct (Hfn sa skw (sb_invoke_world f sa skw w1) w3 res3 subs3) as (HN3 & Hs3 & O3); [cbn; rewrite O1; exact HW|exact HN1|exact Ef|].
    pose proof (sb_finish_gl walk_fuel _ _ _ _ _ _ _ _ H) as (_ & O4 & _).
    unfold sb_finish in H. cbv zeta in H.
    assert (Hfin: forall o w4 u, wfrec o = true -> new_finish_subbuild (subbuild_key f sa skw) o w3 = (w4, u) -> N w4).
    { intros o w4 u Ho E. unfold new_finish_subbuild, modify in E. inversion E; subst. unfold N. cbn.
      apply WfTab_subs_set; [exact HN3|]. intros o' Ho'. inversion Ho'; subst. exact Ho. }
    assert (Hr: forall sv ra, wfrec (OSubbuild f sa skw subs3 sv ra false) = true) by (intros; cbn [wfrec]; exact Hs3).
    split; [|split; [|cbn in O3; congruence]].
    + destruct res3 as [v|e]; [destruct (sanitize v)|];
        match type of H with (match ?X with _ => _ end) = _ => destruct X as [w4 u] eqn:E4 end;
        inversion H; subst; apply (Hfin _ _ _ (Hr _ _) E4).
    + destruct res3 as [v|e]; [destruct (sanitize v)|];
        match type of H with (match ?X with _ => _ end) = _ => destruct X as [w4 u] eqn:E4 end;
        inversion H; subst; intros o Eo; inversion Eo; subst; apply Hr.
  - inversion H; subst. split; [exact HN1|]. split; [|exact O1]. intros o' Eo. inversion Eo; subst. reflexivity.
Qed.

(* ------------------------------------------------------------------ every program *)
Lemma forallb_app_op : forall subs o, forallb wfrec subs = true -> (forall x, o = Some x -> wfrec x = true) ->
  forallb wfrec (app_op subs o) = true.
Proof.
  intros subs [x|] Hs Ho; cbn [app_op]; [|exact Hs]. rewrite forallb_app, Hs. cbn. rewrite (Ho x eq_refl). reflexivity.
Qed.

Theorem run_N : forall pr, AllTargets tgtP pr -> forall tg subs w w' r l,
  WfCache (w_old w) -> N w -> forallb wfrec subs = true ->
  run pr tg subs w = (w', (r, l)) ->
  N w' /\ forallb wfrec l = true /\ w_old w' = w_old w.
Proof.
  intros pr Hat.
  induction Hat as [v | e | s q k Hk IH | c k Hk IH | s p c f a kw fn k Hp Hfn IHfn Hk IHk
                    | s f a kw fn k Hfn IHfn Hk IHk];
    intros tg subs w w' r l HW HN Hs H; cbn [run] in H.
  - inversion H; subst. auto.
  - inversion H; subst. auto.
  - destruct s; [eapply IH; eauto|].
    destruct (m_query q w) as [w1 [r1 o]] eqn:E.
    pose proof (m_query_svb _ _ _ _ E) as S1.
    assert (HN1: N w1) by (apply (N_new_same _ _ (svb_new _ _ S1) HN)).
    assert (O1: w_old w1 = w_old w) by (destruct S1 as (_ & _ & _ & O & _); exact O).
    assert (Ho: forall x, o = Some x -> wfrec x = true).
    { unfold m_query in E. destruct (exec_query q None w) as [w2 [v|[]]]; inversion E; subst; intros x Hx; inversion Hx; reflexivity. }
    destruct (IH (user_answer q r1 w1) tg (app_op subs o) (log_answer q (user_answer q r1 w1) w1) w' r l) as (A & B & C); [| | |exact H|].
    + unfold log_answer. destruct (user_answer q r1 w1) as [?|[]]; cbn; rewrite O1; exact HW.
    + unfold log_answer, N. destruct (user_answer q r1 w1) as [?|[]]; cbn; exact HN1.
    + apply forallb_app_op; assumption.
    + split; [exact A|]. split; [exact B|]. rewrite C. unfold log_answer. destruct (user_answer q r1 w1) as [?|[]]; cbn; exact O1.
  - destruct tg as [p|]; [|eapply IH; eauto].
    destruct (write_file (w_fs w) p c None (N.succ (w_clock w)) (w_nextid w)) as [fs'|e] eqn:Ew.
    + destruct (IH (Some p) subs (set_clock (N.succ (w_clock w)) (N.succ (w_nextid w)) (set_fs fs' w)) w' r l HW HN Hs H) as (A & B & C). auto.
    + inversion H; subst. auto.
  - destruct s; [eapply IHk; eauto|].
    match type of H with (let '(_, _) := ?X in _) = _ => destruct X as [w1 [r1 o]] eqn:E end.
    destruct (m_build_file_N p c f a kw (fun p' sa skw w' => run (fn p' sa skw) (Some p') [] w') w w1 r1 o Hp) as (HN1 & Ho & O1);
      [|exact HW|exact HN|exact E|].
    { intros sa skw w0 w2 r0 l0 HW0 HN0 Hf. apply (IHfn p sa skw (Some p) [] w0 w2 r0 l0 HW0 HN0 eq_refl Hf). }
    destruct (IHk r1 tg (app_op subs o) w1 w' r l) as (A & B & C); [rewrite O1; exact HW|exact HN1|apply forallb_app_op; assumption|exact H|].
    split; [exact A|]. split; [exact B|congruence].
  - destruct s; [eapply IHk; eauto|].
    match type of H with (let '(_, _) := ?X in _) = _ => destruct X as [w1 [r1 o]] eqn:E end.
    destruct (m_subbuild_N f a kw (fun sa skw w' => run (fn sa skw) None [] w') w w1 r1 o) as (HN1 & Ho & O1);
      [|exact HW|exact HN|exact E|].
    { intros sa skw w0 w2 r0 l0 HW0 HN0 Hf. apply (IHfn sa skw None [] w0 w2 r0 l0 HW0 HN0 eq_refl Hf). }
    destruct (IHk r1 tg (app_op subs o) w1 w' r l) as (A & B & C); [rewrite O1; exact HW|exact HN1|apply forallb_app_op; assumption|exact H|].
    split; [exact A|]. split; [exact B|congruence].
Qed.

(* from the start of a build: the new cache is empty *)
Theorem run_from_start_WfCache : forall w0 cachefile old nm vers pr w' r l,
  AllTargets tgtP pr -> WfCache old ->
  run pr None [] (start_world w0 cachefile old nm vers) = (w', (r, l)) ->
  WfCache (w_new w') /\ forallb wfrec l = true.
Proof.
  intros w0 cachefile old nm vers pr w' r l Hat HW H.
  destruct (run_N pr Hat None [] (start_world w0 cachefile old nm vers) w' r l HW) as (A & B & _); [|reflexivity|exact H|].
  - split; intros x o Hx; destruct Hx.
  - split; [apply WfTab_WfCache; exact A|exact B].
Qed.

(* between the end of the root function and Cache.write, only the created directories of the new
   cache are set: the tables written are those of the end of the run *)
Lemma set_created_dirs_N : forall ccd w w' r, N w -> set_created_dirs ccd w = (w', r) -> N w'.
Proof.
  intros ccd w w' r HN H. unfold set_created_dirs in H. unfold bind at 1, get in H. cbv zeta in H.
  apply bind_inv in H. destruct H as [(w1 & u & E1 & H) | (e & E1 & _)]; [|discriminate E1].
  unfold put in E1. inversion E1; subst w1; clear E1. inversion H; subst; clear H.
  unfold N. cbn. exact HN.
Qed.

Print Assumptions register_op_wf.
Print Assumptions run_N.
Print Assumptions run_from_start_WfCache.
