(* Proofs/CoreLaws4.v — the replay lemma: if the replay of a list of records succeeds
   and a body follows these records, the reference run of the body does what the replay
   did to the scratch state. *)
From Coq Require Import List String Ascii NArith ZArith Bool Arith Lia.
From FB.Base Require Import PyVal Fs.
From FB.Gen Require Import JsonUtilGen.
From FB.Spec Require Import JsonSpec Prog Ref Faithful.
From FB.Model Require Import Types SimpleOps Builder Persist Core.
From FB.Proofs Require Import FsLemmas CleanLaws CoreLawsChildren CoreLawsJson CoreLaws1 CoreLaws2 CoreLaws3.
Import ListNotations.
Local Open Scope list_scope.

(* ------------------------------------------------------------------ *)
(* induction on records                                               *)
(* ------------------------------------------------------------------ *)
Section OpInd.
  Variable P : op -> Prop.
  Hypothesis HS : forall q r e, P (OSimple q r e).
  Hypothesis HB : forall p c f a k subs r cr ra sf, Forall P subs -> P (OBuildFile p c f a k subs r cr ra sf).
  Hypothesis HU : forall f a k subs r ra sf, Forall P subs -> P (OSubbuild f a k subs r ra sf).
  Fixpoint op_ind' (o : op) : P o :=
    match o with
    | OSimple q r e => HS q r e
    | OBuildFile p c f a k subs r cr ra sf =>
        HB p c f a k subs r cr ra sf
           ((fix go (l : list op) : Forall P l :=
               match l with [] => Forall_nil _ | x :: xs => Forall_cons _ (op_ind' x) (go xs) end) subs)
    | OSubbuild f a k subs r ra sf =>
        HU f a k subs r ra sf
           ((fix go (l : list op) : Forall P l :=
               match l with [] => Forall_nil _ | x :: xs => Forall_cons _ (op_ind' x) (go xs) end) subs)
    end.
End OpInd.

Lemma kversion_vers : forall s f, kversion_equal s f = vers_equal (k_old s) (k_vers s) f.
Proof. reflexivity. Qed.

(* what the replay accepts is replayable *)
Lemma kreplay_replayable : forall s o rp rp',
  kreplay s o rp = Some rp' -> replayable (k_old s) (k_vers s) o = true.
Proof.
  intros s o. induction o as [q r e|p c f a k subs r cr ra sf IH|f a k subs r ra sf IH] using op_ind'; intros rp rp' H.
  - reflexivity.
  - rewrite kreplay_BF in H. cbn [replayable]. rewrite <- kversion_vers.
    destruct (kversion_equal s f); [|discriminate]. destruct sf; [discriminate|]. cbn [negb andb] in *.
    destruct (on_disk s p c cr ra); [|discriminate].
    destruct (mem_path p (rp_claimedF rp) || path_eqb p (k_cachefile s)); [discriminate|].
    destruct (missing_dirs (rp_fs rp) (k_cachefile s) (dirname p)) as [dirs|]; [|discriminate].
    destruct (mkdir_all (rp_fs rp) dirs) as [fs1|]; [|discriminate].
    destruct (kreplay_list s subs (rp_start rp p fs1 dirs)) as [r2|] eqn:E; [|discriminate].
    clear H. revert E. generalize (rp_start rp p fs1 dirs). clear -IH.
    induction subs as [|x rest IHl]; intros r0 E; [reflexivity|].
    inversion IH; subst. rewrite kreplay_list_cons in E. destruct (kreplay s x r0) as [r1|] eqn:E1; [|discriminate].
    cbn [forallb]. rewrite (H1 _ _ E1). apply (IHl H2 _ E).
  - rewrite kreplay_SB in H. cbn [replayable]. rewrite <- kversion_vers.
    destruct (kversion_equal s f); [|discriminate]. destruct sf; [discriminate|]. cbn [negb andb orb] in *.
    destruct (existsb (py_eq (subbuild_key f a k)) (rp_claimedS rp)); [discriminate|].
    revert H. generalize rp. clear -IH.
    induction subs as [|x rest IHl]; intros r0 E; [reflexivity|].
    inversion IH; subst. rewrite kreplay_list_cons in E. destruct (kreplay s x r0) as [r1|] eqn:E1; [|discriminate].
    cbn [forallb]. rewrite (H1 _ _ E1). apply (IHl H2 _ E).
Qed.

Lemma kreplay_list_replayable : forall s subs rp rp',
  kreplay_list s subs rp = Some rp' -> forallb (replayable (k_old s) (k_vers s)) subs = true.
Proof.
  intros s subs. induction subs as [|x rest IH]; intros rp rp' H; [reflexivity|].
  rewrite kreplay_list_cons in H. destruct (kreplay s x rp) as [r1|] eqn:E; [|discriminate].
  cbn [forallb]. rewrite (kreplay_replayable _ _ _ _ E). eapply IH; eauto.
Qed.

(* ------------------------------------------------------------------ *)
(* claims of a list of records                                        *)
(* ------------------------------------------------------------------ *)
Definition cstep (acc : claims) (x : op) : claims :=
  let c := tree_claims x in (fst acc ++ fst c, snd acc ++ snd c).
Definition cll (subs : list op) : claims := fold_left cstep subs ([], []).

Lemma cstep_fold : forall subs a b,
  fold_left cstep subs (a, b) = (a ++ fst (cll subs), b ++ snd (cll subs)).
Proof.
  unfold cll. induction subs as [|x rest IH]; intros a b; cbn [fold_left].
  - rewrite !app_nil_r. reflexivity.
  - unfold cstep at 2 4 6. cbn [fst snd]. rewrite IH. rewrite (IH ([] ++ _) ([] ++ _)). cbn [app fst snd].
    rewrite !app_assoc. reflexivity.
Qed.

Lemma cll_cons : forall x rest, cll (x :: rest) = (fst (tree_claims x) ++ fst (cll rest), snd (tree_claims x) ++ snd (cll rest)).
Proof. intros. unfold cll at 1. cbn [fold_left]. unfold cstep at 2. cbn [fst snd app]. apply cstep_fold. Qed.

Lemma tree_claims_BF : forall p c f a k subs r cr ra sf,
  tree_claims (OBuildFile p c f a k subs r cr ra sf) = if sf then cll subs else (p :: fst (cll subs), snd (cll subs)).
Proof. reflexivity. Qed.
Lemma tree_claims_SB : forall f a k subs r ra sf,
  tree_claims (OSubbuild f a k subs r ra sf) = if sf then cll subs else (fst (cll subs), subbuild_key f a k :: snd (cll subs)).
Proof. reflexivity. Qed.

(* ------------------------------------------------------------------ *)
(* what [follows] tells without any file system                       *)
(* ------------------------------------------------------------------ *)
Lemma sb_end_out : forall ret_ raised out_n o, sb_end ret_ raised out_n = Some o -> o = sub_out out_n.
Proof.
  intros ret_ raised out_n o H. unfold sb_end in H. unfold sub_out. destruct out_n as [v|e].
  - destruct (sanitize v) as [sv|].
    + destruct (negb raised && pyval_same ret_ sv); inversion H; reflexivity.
    + destruct raised; inversion H; reflexivity.
  - destruct raised; inversion H; reflexivity.
Qed.

(* the claims after following a list of records to its end are those of Cache._use_cached_operation *)
Lemma follows_claims : forall kp pr tgt subs w cl out w' cl',
  follows kp tgt pr subs w cl = Some (out, w', [], cl') ->
  cl' = (fst cl ++ fst (cll subs), snd cl ++ snd (cll subs)).
Proof.
  intro kp.
  induction pr as [v|e|st q k IHk|c k IHk|st p c fname a kw fn IHfn k IHk|st fname a kw fn IHfn k IHk];
    intros tgt subs w cl out w' cl' H; cbn [follows] in H.
  - inversion H; subst. cbn. rewrite !app_nil_r. destruct cl'; reflexivity.
  - inversion H; subst. cbn. rewrite !app_nil_r. destruct cl'; reflexivity.
  - destruct st; [eapply IHk; eauto|].
    destruct subs as [|[q' r ex| |] rest]; try discriminate.
    destruct (negb (query_beq q q')); [discriminate|].
    rewrite cll_cons. cbn [tree_claims fst snd app].
    destruct ex as [c|]; [eapply IHk; eauto|].
    destruct (user_value kp q r); [eapply IHk; eauto|discriminate].
  - destruct tgt as [p|]; [|eapply IHk; eauto].
    destruct (path_ok p); [eapply IHk; eauto|].
    inversion H; subst. cbn. rewrite !app_nil_r. destruct cl'; reflexivity.
  - destruct st; [eapply IHk; eauto|].
    destruct (sanitize a) as [sa|]; [|eapply IHk; eauto]. destruct (sanitize kw) as [skw|]; [|eapply IHk; eauto].
    destruct subs as [|[|p' c' f' a' k' nsubs ret_ cmpres raised sf|] rest]; try discriminate.
    destruct (negb (path_eqb p p')) eqn:Ep; [discriminate|]. apply negb_false_iff, path_eqb_eq in Ep. subst p'.
    destruct sf; [discriminate|].
    destruct (mem_path p (fst cl) || existsb (is_ancestor p) (fst cl)); [discriminate|].
    destruct (follows kp (Some p) (fn p sa skw) nsubs None (fst cl ++ [p], snd cl)) as [[[[out_n bytes_n] rest_n] cl2]|] eqn:En; [|discriminate].
    destruct rest_n; [|discriminate].
    destruct (bf_end kp p c' nsubs ret_ cmpres raised out_n bytes_n cl2) as [o|]; [|discriminate].
    apply IHfn in En. apply IHk in H. subst cl2. cbn [fst snd] in H. subst cl'.
    rewrite cll_cons, tree_claims_BF. cbn [fst snd]. rewrite <- !app_assoc. reflexivity.
  - destruct st; [eapply IHk; eauto|].
    destruct (sanitize a) as [sa|]; [|eapply IHk; eauto]. destruct (sanitize kw) as [skw|]; [|eapply IHk; eauto].
    destruct subs as [|[| |f' a' k' nsubs ret_ raised sf] rest]; try discriminate.
    destruct (String.eqb fname f' && pyval_same a' sa && pyval_same k' skw) eqn:Ek; [|discriminate]. cbn [negb] in H.
    apply andb_true_iff in Ek. destruct Ek as [Ek E3]. apply andb_true_iff in Ek. destruct Ek as [E1 E2].
    apply String.eqb_eq in E1. apply pyval_same_eq in E2, E3. subst f' a' k'.
    destruct sf; [discriminate|].
    destruct (existsb (py_eq (subbuild_key fname sa skw)) (snd cl)); [discriminate|].
    destruct (follows kp None (fn sa skw) nsubs None (fst cl, snd cl ++ [subbuild_key fname sa skw])) as [[[[out_n bytes_n] rest_n] cl2]|] eqn:En; [|discriminate].
    destruct rest_n; [|discriminate].
    destruct (sb_end ret_ raised out_n) as [o|]; [|discriminate].
    apply IHfn in En. apply IHk in H. subst cl2. cbn [fst snd] in H. subst cl'.
    rewrite cll_cons, tree_claims_SB. cbn [fst snd app]. rewrite <- !app_assoc. reflexivity.
Qed.

(* bytes are only written to a target whose name can be created *)
Lemma follows_written : forall kp pr p subs w cl out w' rest cl',
  follows kp (Some p) pr subs w cl = Some (out, w', rest, cl') -> w' = w \/ path_ok p = true.
Proof.
  intro kp.
  induction pr as [v|e|st q k IHk|c k IHk|st p0 c fname a kw fn IHfn k IHk|st fname a kw fn IHfn k IHk];
    intros p subs w cl out w' rest cl' H; cbn [follows] in H.
  - inversion H; auto.
  - inversion H; auto.
  - destruct st; [eapply IHk; eauto|].
    destruct subs as [|[q' r ex| |] rest0]; try discriminate.
    destruct (negb (query_beq q q')); [discriminate|].
    destruct ex as [c|]; [eapply IHk; eauto|].
    destruct (user_value kp q r); [eapply IHk; eauto|discriminate].
  - destruct (path_ok p) eqn:Ep; [right; reflexivity|]. inversion H; auto.
  - destruct st; [eapply IHk; eauto|].
    destruct (sanitize a) as [sa|]; [|eapply IHk; eauto]. destruct (sanitize kw) as [skw|]; [|eapply IHk; eauto].
    destruct subs as [|[|p' c' f' a' k' nsubs ret_ cmpres raised sf|] rest0]; try discriminate.
    destruct (negb (path_eqb p0 p')); [discriminate|]. destruct sf; [discriminate|].
    destruct (mem_path p0 (fst cl) || existsb (is_ancestor p0) (fst cl)); [discriminate|].
    destruct (follows kp (Some p0) (fn p0 sa skw) nsubs None (fst cl ++ [p0], snd cl)) as [[[[out_n bytes_n] rest_n] cl2]|]; [|discriminate].
    destruct rest_n; [|discriminate].
    destruct (bf_end kp p0 c' nsubs ret_ cmpres raised out_n bytes_n cl2) as [o|]; [|discriminate].
    eapply IHk; eauto.
  - destruct st; [eapply IHk; eauto|].
    destruct (sanitize a) as [sa|]; [|eapply IHk; eauto]. destruct (sanitize kw) as [skw|]; [|eapply IHk; eauto].
    destruct subs as [|[| |f' a' k' nsubs ret_ raised sf] rest0]; try discriminate.
    destruct (negb (String.eqb fname f' && pyval_same a' sa && pyval_same k' skw)); [discriminate|].
    destruct sf; [discriminate|].
    destruct (existsb (py_eq (subbuild_key fname sa skw)) (snd cl)); [discriminate|].
    destruct (follows kp None (fn sa skw) nsubs None (fst cl, snd cl ++ [subbuild_key fname sa skw])) as [[[[out_n bytes_n] rest_n] cl2]|]; [|discriminate].
    destruct rest_n; [|discriminate].
    destruct (sb_end ret_ raised out_n) as [o|]; [|discriminate].
    eapply IHk; eauto.
Qed.

(* ------------------------------------------------------------------ *)
(* more tree facts                                                    *)
(* ------------------------------------------------------------------ *)
Lemma setup_fs_file_rev : forall fs cf p fs1 dirs q f, fs_wf fs -> setup_fs fs cf p = inl (fs1, dirs) ->
  lookup fs1 q = Some (NFile f) -> lookup fs q = Some (NFile f).
Proof.
  intros fs cf p fs1 dirs q f W H Hq.
  destruct (setup_fs_ok _ _ _ _ _ W H) as [_ [_ [Hm [Hk _]]]].
  destruct (setup_dirs _ _ _ _ _ W Hm Hk) as [_ [_ [Hfr _]]].
  destruct (Hfr q) as [E|[_ [E _]]]; congruence.
Qed.

Lemma try_remove_isdir : forall fs p q, isdir (try_remove fs p) q = true -> isdir fs q = true.
Proof.
  intros fs p q. unfold isdir. destruct (try_remove_char fs p q) as [E|[_ [E _]]]; rewrite E; [auto|discriminate].
Qed.
Lemma try_remove_file : forall fs p q f, lookup (try_remove fs p) q = Some (NFile f) -> lookup fs q = Some (NFile f).
Proof. intros fs p q f H. destruct (try_remove_char fs p q) as [E|[_ [E _]]]; congruence. Qed.
Lemma try_remove_isfile : forall fs p q, isfile (try_remove fs p) q = true -> isfile fs q = true.
Proof.
  intros fs p q. unfold isfile. destruct (try_remove_char fs p q) as [E|[_ [E _]]]; rewrite E; [auto|discriminate].
Qed.

Lemma te_upd_write : forall a b p bytes j m i b' f, tree_equiv a b -> write_file b p bytes j m i = inl b' ->
  f_bytes f = bytes -> tree_equiv (upd p (Some (NFile f)) a) b'.
Proof.
  intros a b p bytes j m i b' f H Hw Hf q.
  destruct (write_file_ok _ _ _ _ _ _ _ Hw) as [Hne [_ [[g [Hg [Hgb _]]] Hoth]]].
  destruct (path_eqb q p) eqn:E.
  - apply path_eqb_eq in E. subst q. rewrite lookup_upd_eq by exact Hne. rewrite Hg. simpl. congruence.
  - apply path_eqb_neq in E. rewrite lookup_upd_neq by exact E. rewrite Hoth by exact E. apply H.
Qed.

Lemma existsb_anc_app : forall q a b, existsb (is_ancestor q) (a ++ b) = existsb (is_ancestor q) a || existsb (is_ancestor q) b.
Proof. intros. apply existsb_app. Qed.

(* ------------------------------------------------------------------ *)
(* the replay lemma                                                   *)
(* ------------------------------------------------------------------ *)
Section Replay.
  Variable kp : kappa.
  Variable s : kstate.
  Hypothesis Hphys : forall p f, phys (k_fs s) (k_stale s) p = Some f -> agrees kp p f.

  (* the scratch state of the replay against the reference state; [cl]: claimed in the trace so far *)
  Record RM (rp : rstate') (r : rstate) (cl : claims) : Prop := mkRM {
    rm_te : tree_equiv (rp_fs rp) (r_fs r);
    rm_need : rp_need rp = r_need r;
    rm_made : rp_made rp = r_made r;
    rm_cf : r_cachefile r = k_cachefile s;
    rm_clF : forall q, mem_path q (r_claimedF r) = mem_path q (rp_claimedF rp) || mem_path q (fst cl);
    rm_clS : forall k, existsb (py_eq k) (r_claimedS r) = existsb (py_eq k) (rp_claimedS rp) || existsb (py_eq k) (snd cl);
    rm_dirs : forall q, isdir (rp_fs rp) q = true -> isdir (k_fs s) q = true \/ existsb (is_ancestor q) (fst cl) = true;
    rm_files : forall q f, lookup (rp_fs rp) q = Some (NFile f) -> agrees kp q f;
    rm_isfile : forall q, isfile (rp_fs rp) q = true -> isfile (k_fs s) q = true \/ mem_path q (fst cl) = true;
    rm_cF0 : rp_claimedF rp = k_claimedF s;
    rm_cS0 : rp_claimedS rp = k_claimedS s
  }.

  Lemma RM_rlog : forall rp r cl e, RM rp r cl -> RM rp (rlog e r) cl.
  Proof. intros rp r cl e [M1 M2 M3 M4 M5 M6 M7 M8 M9 M10 M11]. constructor; assumption. Qed.
  Lemma RM_rtick : forall rp r cl, RM rp r cl -> RM rp (rtick r) cl.
  Proof. intros rp r cl [M1 M2 M3 M4 M5 M6 M7 M8 M9 M10 M11]. constructor; assumption. Qed.

  Lemma RM_start : forall rp r cl p fname sa skw fs1 dirs,
    RM rp r cl -> fs_wf (r_fs r) -> isdir (rp_fs rp) p = false ->
    missing_dirs (rp_fs rp) (k_cachefile s) (dirname p) = inl dirs -> mkdir_all (rp_fs rp) dirs = inl fs1 ->
    exists fs1r, setup_fs (r_fs r) (r_cachefile r) p = inl (fs1r, dirs) /\
                 RM (rp_start rp p fs1 dirs) (ref_start r p fname sa skw fs1r dirs) (fst cl ++ [p], snd cl).
  Proof.
    intros rp r cl p fname sa skw fs1 dirs [M1 M2 M3 M4 M5 M6 M7 M8 M9 M10 M11] W Hnd Hm Hk.
    assert (Wp : fs_wf (rp_fs rp)) by (eapply te_wf; [apply te_sym; exact M1|exact W]).
    assert (Hs : setup_fs (rp_fs rp) (k_cachefile s) p = inl (fs1, dirs)).
    { unfold setup_fs. rewrite Hnd, Hm, Hk. reflexivity. }
    pose proof (setup_fs_te _ _ (k_cachefile s) p M1) as R. rewrite Hs in R. rewrite M4.
    destruct (setup_fs (r_fs r) (k_cachefile s) p) as [[fs1r dirs']|e]; simpl in R; [|contradiction].
    destruct R as [T ->]. exists fs1r. split; [reflexivity|].
    destruct (setup_fs_ok _ _ _ _ _ Wp Hs) as [Hne [_ [_ [_ [W1 [Hpar [Hkeep [Hnew Hisf]]]]]]]].
    constructor; cbn.
    - apply try_remove_te. exact T.
    - rewrite M2. reflexivity.
    - rewrite M3. reflexivity.
    - exact M4.
    - intro q. rewrite M5, mem_path_app. cbn. rewrite orb_false_r.
      destruct (path_eqb p q), (mem_path q (rp_claimedF rp)), (mem_path q (fst cl)); reflexivity.
    - exact M6.
    - intros q Hq. apply try_remove_isdir in Hq. rewrite existsb_anc_app. cbn. rewrite orb_false_r.
      destruct (Hnew q Hq) as [H|H].
      + destruct (M7 q H) as [H'|H']; [left; exact H'|right; rewrite H'; reflexivity].
      + right. rewrite H. apply orb_true_r.
    - intros q f Hq. apply try_remove_file in Hq. apply (setup_fs_file_rev _ _ _ _ _ _ _ Wp Hs) in Hq. eapply M8; eauto.
    - intros q Hq. apply try_remove_isfile in Hq. rewrite Hisf in Hq. rewrite mem_path_app.
      destruct (M9 q Hq) as [H|H]; [left; exact H|right; rewrite H; reflexivity].
    - exact M10.
    - exact M11.
  Qed.

  Lemma RM_prune : forall rp r cl p, RM rp r cl -> RM (rp_prune rp p) (prune_made r p) cl.
  Proof.
    intros rp r cl p [M1 M2 M3 M4 M5 M6 M7 M8 M9 M10 M11].
    constructor; try assumption.
    - rewrite rp_prune_fs, prune_made_fs, M2, M3. apply prune_fs_te. exact M1.
    - cbn. rewrite M2. reflexivity.
    - cbn. rewrite M2, M3. reflexivity.
    - intros q Hq. rewrite rp_prune_fs in Hq. apply prune_fs_isdir in Hq. auto.
    - intros q f Hq. rewrite rp_prune_fs in Hq. apply prune_fs_file in Hq. eauto.
    - intros q Hq. rewrite rp_prune_fs, prune_fs_isfile in Hq. auto.
  Qed.

  Lemma RM_put : forall rp r cl p f b fs3,
    RM rp r cl -> write_file (r_fs r) p b None (r_clock r) (r_nextid r) = inl fs3 ->
    f_bytes f = b -> agrees kp p f -> mem_path p (fst cl) = true ->
    RM (rp_put rp p f)
       (rs_with r fs3 (r_claimedF r) (r_claimedS r) (r_need r) (r_made r) (r_clock r) (N.succ (r_nextid r)) (r_log r)) cl.
  Proof.
    intros rp r cl p f b fs3 [M1 M2 M3 M4 M5 M6 M7 M8 M9 M10 M11] Hw Hb Ha Hcl.
    destruct (write_file_ok _ _ _ _ _ _ _ Hw) as [Hne _].
    constructor; cbn; try assumption.
    - eapply te_upd_write; eauto.
    - intros q Hq. unfold isdir in Hq. destruct (path_eqb q p) eqn:E.
      + apply path_eqb_eq in E. subst q. rewrite lookup_upd_eq in Hq by exact Hne. discriminate.
      + apply path_eqb_neq in E. rewrite lookup_upd_neq in Hq by exact E. apply M7. exact Hq.
    - intros q g Hq. destruct (path_eqb q p) eqn:E.
      + apply path_eqb_eq in E. subst q. rewrite lookup_upd_eq in Hq by exact Hne. inversion Hq; subst. exact Ha.
      + apply path_eqb_neq in E. rewrite lookup_upd_neq in Hq by exact E. eapply M8; eauto.
    - intros q Hq. destruct (path_eqb q p) eqn:E.
      + apply path_eqb_eq in E. subst q. right. exact Hcl.
      + apply path_eqb_neq in E. unfold isfile in Hq. rewrite lookup_upd_neq in Hq by exact E. apply M9. exact Hq.
  Qed.

  Lemma RM_substart : forall rp r cl fname sa skw,
    RM rp r cl -> RM rp (ref_substart r fname sa skw) (fst cl, snd cl ++ [subbuild_key fname sa skw]).
  Proof.
    intros rp r cl fname sa skw [M1 M2 M3 M4 M5 M6 M7 M8 M9 M10 M11]. constructor; try assumption.
    intro k. cbn [fst snd]. change (r_claimedS (ref_substart r fname sa skw)) with (subbuild_key fname sa skw :: r_claimedS r).
    cbn [existsb]. rewrite M6, existsb_app. cbn [existsb]. rewrite orb_false_r.
    destruct (py_eq k (subbuild_key fname sa skw)), (existsb (py_eq k) (rp_claimedS rp)), (existsb (py_eq k) (snd cl)); reflexivity.
  Qed.

  Lemma on_disk_notdir : forall p c cmpres raised, on_disk s p c cmpres raised = true -> isdir (k_fs s) p = false.
  Proof.
    intros p c cmpres raised H. unfold on_disk in H. unfold isdir. destruct raised.
    - apply negb_true_iff in H. unfold phys_exists in H. apply orb_false_iff in H. destruct H as [H _].
      apply orb_false_iff in H. destruct H as [H _]. unfold lexists in H.
      destruct (lookup (k_fs s) p) as [[f|]|]; try discriminate; reflexivity.
    - unfold phys in H. destruct (lookup (k_fs s) p) as [[f|]|]; try discriminate; reflexivity.
  Qed.

  (* the end of a replayed build_file call *)
  Lemma finish_sound : forall p c' nsubs ret_ cmpres raised out_n bytes_n cl2 o r2' r2 rp1,
    bf_end kp p c' nsubs ret_ cmpres raised out_n bytes_n cl2 = Some o ->
    RM r2' r2 cl2 -> RInv' (Some p) r2 ->
    on_disk s p c' cmpres raised = true ->
    (bytes_n = None \/ path_ok p = true) ->
    mem_path p (fst cl2) = true ->
    (forall q, In q (flat_map tree_outputs nsubs) -> In q (r_need r2)) ->
    (if raised then Some (rp_prune r2' p)
     else match phys (k_fs s) (k_stale s) p with Some f => Some (rp_put r2' p f) | None => None end) = Some rp1 ->
    exists r3, ref_finish r2 p out_n bytes_n = (r3, o) /\ RM rp1 r3 cl2 /\
               (raised = false -> In p (r_need r3)) /\
               (forall q, In q (r_need r2) -> q <> p -> In q (r_need r3)).
  Proof.
    intros p c' nsubs ret_ cmpres raised out_n bytes_n cl2 o r2' r2 rp1 Hend M I Hod Hok Hcl Hout Hrp.
    assert (F : forall e, (if raised then Some (@inr pyval exn e) else None) = Some o ->
              exists r3, (prune_made r2 p, @inr pyval exn e) = (r3, o) /\ RM rp1 r3 cl2 /\
               (raised = false -> In p (r_need r3)) /\
               (forall q, In q (r_need r2) -> q <> p -> In q (r_need r3))).
    { intros e He. destruct raised; [|discriminate]. inversion He; subst o. inversion Hrp; subst rp1.
      exists (prune_made r2 p). split; [reflexivity|]. split; [apply RM_prune; exact M|]. split; [discriminate|].
      intros q Hq Hne. cbn. apply In_del_path. auto. }
    unfold bf_end in Hend. unfold ref_finish.
    destruct out_n as [v|e]; [|apply F; exact Hend].
    destruct (sanitize v) as [sv|]; [|apply F; exact Hend].
    destruct bytes_n as [b|]; [|apply F; exact Hend].
    destruct I as [[W [N T]] C]. pose proof (T p eq_refl) as Hp. destruct (N p Hp) as [Hne Hpar].
    destruct (existsb (is_ancestor p) (flat_map tree_outputs nsubs)) eqn:Eblk.
    - (* a nested output lies below p: p is a directory *)
      apply existsb_exists in Eblk. destruct Eblk as [q [Hq Ha]].
      pose proof (Hout q Hq) as Hqn. destruct (N q Hqn) as [Hqne Hqpar].
      assert (Hd : isdir (r_fs r2) p = true).
      { unfold isdir. destruct q as [|x d]; [congruence|]. simpl in Hqpar.
        apply is_ancestor_parent in Ha. destruct Ha as [->|Ha]; [rewrite Hqpar; reflexivity|].
        rewrite (wf_ancestor _ W _ _ _ Hqpar Ha). reflexivity. }
      rewrite (write_file_isdir _ _ _ _ _ _ Hd). apply F. exact Hend.
    - destruct (existsb (is_ancestor p) (fst cl2)) eqn:Ebel; [discriminate|].
      destruct raised; [discriminate|]. cbn [negb andb] in Hend.
      destruct (pyval_same ret_ sv) eqn:Eret; [|discriminate]. cbn [andb] in Hend.
      destruct (kp p c' cmpres) as [b'|] eqn:Ekp; [|discriminate].
      destruct (String.eqb b b') eqn:Ebb; [|discriminate]. apply String.eqb_eq in Ebb. subst b'.
      inversion Hend; subst o. clear Hend F.
      unfold on_disk in Hod. destruct (phys (k_fs s) (k_stale s) p) as [f|] eqn:Eph; [|discriminate].
      inversion Hrp; subst rp1.
      assert (Hbf : f_bytes f = b).
      { symmetry. eapply (Hphys p f Eph c' cmpres b Ekp). left. exact Hod. }
      assert (Hndir : isdir (r_fs r2) p = false).
      { rewrite <- (te_isdir _ _ p (rm_te _ _ _ M)). destruct (isdir (rp_fs r2') p) eqn:Ed; [|reflexivity].
        destruct (rm_dirs _ _ _ M p Ed) as [H|H]; [|congruence].
        assert (on_disk s p c' cmpres false = true) by (unfold on_disk; rewrite Eph; exact Hod).
        rewrite (on_disk_notdir _ _ _ _ H0) in H. discriminate. }
      destruct Hok as [Hok|Hok]; [discriminate|].
      destruct (write_file_succeeds (r_fs r2) p b None (r_clock r2) (r_nextid r2) Hne Hok Hpar Hndir) as [fs3 Hw].
      rewrite Hw. eexists. split; [reflexivity|]. split; [|split].
      + eapply RM_put; eauto.
      + intros _. exact Hp.
      + intros q Hq _. exact Hq.
  Qed.

  Lemma RInv_wf : forall tgt r, RInv' tgt r -> fs_wf (r_fs r).
  Proof. intros tgt r [[W _] _]. exact W. Qed.

  Theorem replay_sound : forall pr tgt subs w cl out w' cl' rp rp' r,
    follows kp tgt pr subs w cl = Some (out, w', [], cl') ->
    kreplay_list s subs rp = Some rp' ->
    RM rp r cl -> RInv' tgt r ->
    exists r', ref_run pr tgt w r = (r', (out, w')) /\ RM rp' r' cl' /\
      (forall q, In q (flat_map tree_outputs subs) -> In q (r_need r') /\ mem_path q (fst cl) = false).
  Proof.
    induction pr as [v|e|st q k IHk|c k IHk|st p c fname a kw fn IHfn k IHk|st fname a kw fn IHfn k IHk];
      intros tgt subs w cl out w' cl' rp rp' r H HK M I.
    - cbn [follows] in H. inversion H; subst. cbn in HK. inversion HK; subst.
      exists r. split; [reflexivity|]. split; [exact M|]. intros q [].
    - cbn [follows] in H. inversion H; subst. cbn in HK. inversion HK; subst.
      exists r. split; [reflexivity|]. split; [exact M|]. intros q [].
    - (* Ask *)
      cbn [follows] in H. rewrite ref_run_Ask. destruct st; [eapply IHk; eauto|].
      destruct subs as [|[q' ret_ ex| |] rest]; try discriminate.
      destruct (negb (query_beq q q')) eqn:Eq; [discriminate|]. apply negb_false_iff, query_beq_eq in Eq. subst q'.
      rewrite kreplay_list_cons, kreplay_Simple in HK.
      rewrite <- (spec_answer_te _ _ q (rm_te _ _ _ M)).
      destruct (record_answer (rp_fs rp) q) as [v|c0] eqn:Era.
      + destruct ex as [c|]; [discriminate|].
        destruct (is_equal v ret_) eqn:Eie; [|discriminate].
        destruct (user_value kp q ret_) as [u|] eqn:Eu; [|discriminate].
        assert (Hans : spec_answer (rp_fs rp) q = inl u).
        { assert (Hnr : (forall p c, q <> QRead p c) -> spec_answer (rp_fs rp) q = inl u).
          { intro Hq. destruct (answer_val_nonread (rp_fs rp) q v Hq Era) as [Hs Hraw]. rewrite Hs. f_equal. symmetry.
            exact (answer_canon kp (rp_fs rp) q v ret_ u Hq Hraw Eie Eu). }
          destruct q as [p|p|p|p|p td|p|p cm]; try (apply Hnr; intros; discriminate). clear Hnr.
          destruct (answer_val_read _ _ _ _ Era) as [f [Hf [Hv Hs]]]. rewrite Hs. f_equal.
          cbn [user_value] in Eu. destruct (kp p cm ret_) as [x|] eqn:Ekp; [|discriminate]. inversion Eu; subst u.
          f_equal. symmetry. eapply (rm_files _ _ _ M p f Hf cm ret_ x Ekp). right. subst v. exact Eie. }
        rewrite Hans.
        destruct (IHk (inl u) tgt rest w cl out w' cl' rp rp' (rlog (LAnswer q (inl u)) r) H HK (RM_rlog _ _ _ _ M) (RInv_rlog _ _ _ I))
          as [r' [Er [M' O']]].
        exists r'. split; [exact Er|]. split; [exact M'|]. exact O'.
      + destruct ex as [c|]; [|discriminate].
        destruct (is_equal PNone ret_ && errclass_eqb c0 c) eqn:Ec; [|discriminate].
        apply andb_true_iff in Ec. destruct Ec as [_ Ec].
        assert (c0 = c) by (destruct c0, c; try discriminate; reflexivity). subst c0.
        rewrite (answer_err _ _ _ Era).
        destruct (IHk (inr (XOS (user_class q c))) tgt rest w cl out w' cl' rp rp' (rlog (LAnswer q (inr (user_class q c))) r) H HK
                      (RM_rlog _ _ _ _ M) (RInv_rlog _ _ _ I)) as [r' [Er [M' O']]].
        exists r'. split; [exact Er|]. split; [exact M'|]. exact O'.
    - (* Write *)
      cbn [follows] in H. rewrite ref_run_Write. destruct tgt as [p|]; [|eapply IHk; eauto].
      destruct (path_ok p).
      + destruct (IHk (Some p) subs (Some c) cl out w' cl' rp rp' (rtick r) H HK (RM_rtick _ _ _ M) (RInv_rtick _ _ I))
          as [r' [Er [M' O']]].
        exists r'. split; [exact Er|]. split; [exact M'|]. exact O'.
      + inversion H; subst. cbn in HK. inversion HK; subst.
        exists r. split; [reflexivity|]. split; [exact M|]. intros q [].
    - (* BuildFile *)
      cbn [follows] in H. rewrite ref_run_BuildFile. destruct st; [eapply IHk; eauto|].
      destruct (sanitize a) as [sa|]; [|eapply IHk; eauto]. destruct (sanitize kw) as [skw|]; [|eapply IHk; eauto].
      destruct subs as [|[|p' c' f' a' k' nsubs ret_ cmpres raised sf|] rest]; try discriminate.
      destruct (negb (path_eqb p p')) eqn:Ep; [discriminate|]. apply negb_false_iff, path_eqb_eq in Ep. subst p'.
      destruct sf; [discriminate|].
      destruct (mem_path p (fst cl) || existsb (is_ancestor p) (fst cl)) eqn:Ecl; [discriminate|].
      apply orb_false_iff in Ecl. destruct Ecl as [Ecl1 Ecl2].
      destruct (follows kp (Some p) (fn p sa skw) nsubs None (fst cl ++ [p], snd cl)) as [[[[out_n bytes_n] rest_n] cl2]|] eqn:En;
        [|discriminate].
      destruct rest_n; [|discriminate].
      destruct (bf_end kp p c' nsubs ret_ cmpres raised out_n bytes_n cl2) as [o|] eqn:Eo; [|discriminate].
      rewrite kreplay_list_cons in HK.
      destruct (kreplay s (OBuildFile p c' f' a' k' nsubs ret_ cmpres raised false) rp) as [rp1|] eqn:Ek1; [|discriminate].
      rewrite kreplay_BF in Ek1.
      destruct (negb (kversion_equal s f')); [discriminate|].
      destruct (on_disk s p c' cmpres raised) eqn:Eod; [|discriminate].
      destruct (mem_path p (rp_claimedF rp) || path_eqb p (k_cachefile s)) eqn:Ecc; [discriminate|].
      apply orb_false_iff in Ecc. destruct Ecc as [Ecc1 Ecc2].
      destruct (missing_dirs (rp_fs rp) (k_cachefile s) (dirname p)) as [dirs|] eqn:Emd; [|discriminate].
      destruct (mkdir_all (rp_fs rp) dirs) as [fs1|] eqn:Emk; [|discriminate].
      destruct (kreplay_list s nsubs (rp_start rp p fs1 dirs)) as [r2'|] eqn:Ekn; [|discriminate].
      assert (Hpcl : mem_path p (r_claimedF r) = false) by (rewrite (rm_clF _ _ _ M), Ecc1, Ecl1; reflexivity).
      assert (Hcc : claim_check (r_claimedF r) (r_cachefile r) p = None).
      { unfold claim_check. rewrite Hpcl, (rm_cf _ _ _ M), Ecc2. reflexivity. }
      rewrite Hcc.
      assert (Hnd : isdir (rp_fs rp) p = false).
      { destruct (isdir (rp_fs rp) p) eqn:Ed; [|reflexivity].
        destruct (rm_dirs _ _ _ M p Ed) as [Hx|Hx]; [|congruence].
        rewrite (on_disk_notdir _ _ _ _ Eod) in Hx. discriminate. }
      destruct (RM_start rp r cl p fname sa skw fs1 dirs M (RInv_wf _ _ I) Hnd Emd Emk) as [fs1r [Hsetup M1]].
      rewrite Hsetup.
      destruct (RInv_start tgt r p fname sa skw fs1r dirs I Hcc Hsetup) as [I1 X1].
      destruct (IHfn p sa skw (Some p) nsubs None _ out_n bytes_n cl2 _ r2' _ En Ekn M1 I1) as [r2 [Er2 [M2 O2]]].
      rewrite Er2.
      destruct (ref_run_inv _ _ _ _ _ _ _ I1 Er2) as [I2 X2].
      pose proof (follows_claims _ _ _ _ _ _ _ _ _ En) as Hcl2.
      assert (Hpcl2 : mem_path p (fst cl2) = true).
      { rewrite Hcl2. cbn [fst]. rewrite !mem_path_app. cbn. rewrite path_eqb_refl. cbn. rewrite orb_true_r. reflexivity. }
      assert (Hok : bytes_n = None \/ path_ok p = true).
      { destruct (follows_written _ _ _ _ _ _ _ _ _ _ En) as [Hx|Hx]; auto. }
      destruct (finish_sound p c' nsubs ret_ cmpres raised out_n bytes_n cl2 o r2' r2 rp1 Eo M2 I2 Eod Hok Hpcl2
                  (fun q Hq => proj1 (O2 q Hq)) Ek1) as [r3 [Ef [M3 [Hp3 Hn3]]]].
      rewrite Ef.
      destruct (RInv_finish tgt r r2 p out_n bytes_n r3 o I2 (rext_trans _ _ _ X1 X2) I Hpcl Ef) as [I3 X3].
      destruct (IHk o tgt rest w cl2 out w' cl' rp1 rp' r3 H HK M3 I3) as [r' [Er' [M' O']]].
      destruct (ref_run_inv _ _ _ _ _ _ _ I3 Er') as [I4 X4].
      exists r'. split; [exact Er'|]. split; [exact M'|].
      intros q Hq. cbn [flat_map tree_outputs] in Hq. rewrite <- app_assoc in Hq.
      apply in_app_or in Hq. destruct Hq as [Hq|Hq]; [|apply in_app_or in Hq; destruct Hq as [Hq|Hq]].
      + destruct raised; [destruct Hq|]. destruct Hq as [<-|[]]. split; [|exact Ecl1].
        destruct X4 as [X4 _]. apply X4. apply Hp3. reflexivity.
      + destruct (O2 q Hq) as [Hq1 Hq2]. cbn [fst] in Hq2. rewrite mem_path_app in Hq2.
        apply orb_false_iff in Hq2. destruct Hq2 as [Hq2 Hq3]. split; [|exact Hq2].
        destruct X4 as [X4 _]. apply X4. apply Hn3; [exact Hq1|].
        intro; subst q. cbn in Hq3. rewrite path_eqb_refl in Hq3. discriminate.
      + destruct (O' q Hq) as [Hq1 Hq2]. split; [exact Hq1|].
        rewrite Hcl2 in Hq2. cbn [fst] in Hq2. rewrite !mem_path_app in Hq2.
        apply orb_false_iff in Hq2. destruct Hq2 as [Hq2 _]. apply orb_false_iff in Hq2. tauto.
    - (* Subbuild *)
      cbn [follows] in H. rewrite ref_run_Subbuild. destruct st; [eapply IHk; eauto|].
      destruct (sanitize a) as [sa|]; [|eapply IHk; eauto]. destruct (sanitize kw) as [skw|]; [|eapply IHk; eauto].
      destruct subs as [|[| |f' a' k' nsubs ret_ raised sf] rest]; try discriminate.
      destruct (String.eqb fname f' && pyval_same a' sa && pyval_same k' skw) eqn:Ek; [|discriminate]. cbn [negb] in H.
      apply andb_true_iff in Ek. destruct Ek as [Ek E3]. apply andb_true_iff in Ek. destruct Ek as [E1 E2].
      apply String.eqb_eq in E1. apply pyval_same_eq in E2, E3. subst f' a' k'.
      destruct sf; [discriminate|].
      destruct (existsb (py_eq (subbuild_key fname sa skw)) (snd cl)) eqn:Ecl; [discriminate|].
      destruct (follows kp None (fn sa skw) nsubs None (fst cl, snd cl ++ [subbuild_key fname sa skw])) as [[[[out_n bytes_n] rest_n] cl2]|] eqn:En;
        [|discriminate].
      destruct rest_n; [|discriminate].
      destruct (sb_end ret_ raised out_n) as [o|] eqn:Eo; [|discriminate].
      rewrite kreplay_list_cons in HK.
      destruct (kreplay s (OSubbuild fname sa skw nsubs ret_ raised false) rp) as [rp1|] eqn:Ek1; [|discriminate].
      rewrite kreplay_SB in Ek1.
      destruct (negb (kversion_equal s fname) || false); [discriminate|].
      destruct (existsb (py_eq (subbuild_key fname sa skw)) (rp_claimedS rp)) eqn:Ecc; [discriminate|].
      rewrite (rm_clS _ _ _ M), Ecc, Ecl. cbn [orb].
      destruct (RInv_substart tgt r fname sa skw I) as [I1 X1].
      destruct (IHfn sa skw None nsubs None _ out_n bytes_n cl2 rp rp1 _ En Ek1 (RM_substart _ _ _ fname sa skw M) I1)
        as [r2 [Er2 [M2 O2]]].
      rewrite Er2. apply sb_end_out in Eo. subst o.
      destruct (ref_run_inv _ _ _ _ _ _ _ I1 Er2) as [I2 X2].
      assert (I2' : RInv' tgt r2).
      { eapply RInv_target; [exact I2|]. intros q Hq. destruct X2 as [X2 _]. destruct X1 as [X1 _].
        apply X2, X1. destruct I as [[_ [_ T]] _]. apply T. exact Hq. }
      destruct (IHk (sub_out out_n) tgt rest w cl2 out w' cl' rp1 rp' r2 H HK M2 I2') as [r' [Er' [M' O']]].
      destruct (ref_run_inv _ _ _ _ _ _ _ I2' Er') as [I4 X4].
      pose proof (follows_claims _ _ _ _ _ _ _ _ _ En) as Hcl2.
      exists r'. split; [exact Er'|]. split; [exact M'|].
      intros q Hq. cbn [flat_map tree_outputs] in Hq. apply in_app_or in Hq. destruct Hq as [Hq|Hq].
      + destruct (O2 q Hq) as [Hq1 Hq2]. split; [|exact Hq2]. destruct X4 as [X4 _]. apply X4. exact Hq1.
      + destruct (O' q Hq) as [Hq1 Hq2]. split; [exact Hq1|].
        rewrite Hcl2 in Hq2. cbn [fst] in Hq2. rewrite mem_path_app in Hq2. apply orb_false_iff in Hq2. tauto.
  Qed.
End Replay.
