(* Proofs/CleanLaws.v — refused calls have no effect (C15), the model's clean is
   the reference clean (C12), and what the reference clean does and does not do. *)
From Coq Require Import List String Ascii NArith ZArith Bool Arith Lia.
From FB.Base Require Import PyVal Fs.
From FB.Gen Require Import JsonUtilGen.
From FB.Spec Require Import Prog Ref Oracle.
From FB.Model Require Import Types Monad CreatedFiles BuildDirs SimpleOps Builder Persist Build.
From FB.Proofs Require Import FsLemmas.
Import ListNotations.
Local Open Scope list_scope.

(* ====================================================================== *)
(* PART 1 — refused calls have no effect (C15)                             *)
(* ====================================================================== *)

Definition build_refusal (cf : path) (nm : string) (vers : pyval) (fs : fsT) : option exn :=
  match sanitize vers with
  | None => Some XType
  | Some _ =>
      match lookup fs cf with
      | Some (NFile f) =>
          match cache_of_json (f_json f) with
          | ReadOk old => if String.eqb (c_name old) nm then None else Some (XRuntime RBuildName)
          | ReadRuntime => Some (XRuntime RBadCache)
          | ReadMalformed => Some (XCrash "malformed cache")
          end
      | Some NDir => Some (XOS XIsADirectory)
      | None => None
      end
  end.

Ltac destruct_matches :=
  repeat match goal with
         | |- context [match ?x with _ => _ end] => destruct x
         end.

(* an accepted build always runs to [Done]; a refused one returns the world as it was *)
Lemma m_build_cases : forall cf nm vers root w,
  match build_refusal cf nm vers (w_fs w) with
  | Some e => m_build cf nm vers root w = (w, Refused e)
  | None => exists w' r, m_build cf nm vers root w = (w', Done r)
  end.
Proof.
  intros cf nm vers root w. unfold build_refusal, m_build.
  destruct (sanitize vers) as [sv|]; [|reflexivity].
  cbv beta zeta.
  destruct (lookup (w_fs w) cf) as [[f|]|]; try reflexivity.
  - destruct (cache_of_json (f_json f)) as [old| |]; try reflexivity.
    destruct (String.eqb (c_name old) nm); [|reflexivity].
    destruct_matches; eauto.
  - destruct_matches; eauto.
Qed.

Theorem build_refused_no_effect : forall cf nm vers root w w' e,
  m_build cf nm vers root w = (w', Refused e) -> w' = w.
Proof.
  intros cf nm vers root w w' e H.
  pose proof (m_build_cases cf nm vers root w) as C.
  destruct (build_refusal cf nm vers (w_fs w)) as [e0|].
  - rewrite C in H. inversion H. reflexivity.
  - destruct C as [w1 [r C]]. rewrite C in H. discriminate.
Qed.

Theorem build_refused_iff : forall cf nm vers root w e,
  (exists w', m_build cf nm vers root w = (w', Refused e)) <->
  build_refusal cf nm vers (w_fs w) = Some e.
Proof.
  intros cf nm vers root w e.
  pose proof (m_build_cases cf nm vers root w) as C.
  destruct (build_refusal cf nm vers (w_fs w)) as [e0|]; split.
  - intros [w' H]. rewrite C in H. inversion H. reflexivity.
  - intro H. inversion H; subst. exists w. exact C.
  - intros [w' H]. destruct C as [w1 [r C]]. rewrite C in H. discriminate.
  - discriminate.
Qed.

Theorem build_refused_ignores_root : forall cf nm vers root root' w e,
  build_refusal cf nm vers (w_fs w) = Some e ->
  m_build cf nm vers root w = m_build cf nm vers root' w.
Proof.
  intros cf nm vers root root' w e H.
  pose proof (m_build_cases cf nm vers root w) as C.
  pose proof (m_build_cases cf nm vers root' w) as C'.
  rewrite H in C, C'. rewrite C, C'. reflexivity.
Qed.

Theorem clean_refused_no_effect : forall cf nm w w' e,
  m_clean cf nm w = (w', Refused e) -> w' = w.
Proof.
  intros cf nm w w' e H. unfold m_clean in H.
  destruct (lookup (w_fs w) cf) as [[f|]|]; try (inversion H; reflexivity).
  destruct (cache_of_json (f_json f)) as [c| |]; try (inversion H; reflexivity).
  match type of H with (if ?b then _ else _) = _ => destruct b end; [inversion H; reflexivity|].
  match type of H with (match ?x with _ => _ end) = _ => destruct x as [w1 [u|e1]] end; discriminate.
Qed.

Theorem clean_no_cache_noop : forall cf nm w,
  lookup (w_fs w) cf = None -> m_clean cf nm w = (w, Done (inl PNone)).
Proof. intros cf nm w H. unfold m_clean. rewrite H. reflexivity. Qed.

(* ====================================================================== *)
(* PART 3 (first: the pure facts) — the reference clean                    *)
(* ====================================================================== *)

(* ---- sorting keeps the elements ---- *)
Lemma In_insert_by : forall A (leb : A -> A -> bool) x a l,
  In x (insert_by leb a l) <-> a = x \/ In x l.
Proof.
  intros A leb x a l. induction l as [|y ys IH]; simpl.
  - tauto.
  - destruct (leb a y); simpl; tauto.
Qed.

Lemma In_sort_by : forall A (leb : A -> A -> bool) x l, In x (sort_by leb l) <-> In x l.
Proof.
  intros A leb x l. induction l as [|a l IH]; simpl; [tauto|].
  fold (sort_by leb l). rewrite In_insert_by, IH. tauto.
Qed.

Lemma sort_by_nil : forall A (leb : A -> A -> bool) l, sort_by leb l = [] -> l = [].
Proof.
  intros A leb l H. destruct l as [|a l]; [reflexivity|]. exfalso. simpl in H.
  fold (sort_by leb l) in H. destruct (sort_by leb l) as [|y ys]; simpl in H; [discriminate|].
  destruct (leb a y); discriminate.
Qed.

Lemma sort_longest_first_deepest_first : forall l, sort_longest_first l = deepest_first l.
Proof. reflexivity. Qed.

(* ---- an empty listing means no child exists ---- *)
Lemma dedup_nil : forall l, dedup l = [] -> l = [].
Proof.
  induction l as [|x r IH]; simpl; intro H; [reflexivity|]. exfalso.
  destruct (mem_str x r) eqn:E; [|discriminate].
  apply IH in H. subst. discriminate.
Qed.

Lemma raw_lookup_in : forall fs q x, raw_lookup fs q = Some x -> exists e, In e fs /\ fst e = q.
Proof.
  induction fs as [|[k v] r IH]; simpl; intros q x H; [discriminate|].
  destruct (path_eqb k q) eqn:E.
  - apply path_eqb_eq in E. exists (k, v). split; [left; reflexivity|exact E].
  - destruct (IH q x H) as [e [He1 He2]]. exists e. split; [right; assumption|assumption].
Qed.

Lemma children_nil_lookup : forall fs p, children fs p = [] -> forall n, lookup fs (n :: p) = None.
Proof.
  intros fs p H n. destruct (lookup fs (n :: p)) as [x|] eqn:E; [exfalso|reflexivity].
  unfold children, sort_strs in H. apply sort_by_nil in H. apply dedup_nil in H.
  assert (R : raw_lookup fs (n :: p) = Some x) by exact E.
  destruct (raw_lookup_in _ _ _ R) as [e [He1 He2]].
  match type of H with ?t = [] => assert (I : In n t) end.
  { apply in_flat_map. exists e. split; [assumption|]. destruct e as [k v]. simpl in He2. subst k. cbn [fst].
    rewrite path_eqb_refl. unfold lexists. rewrite E. simpl. left. reflexivity. }
  rewrite H in I. destruct I.
Qed.

(* ---- the two steps: each changes at most its own path, never creates ---- *)
Lemma try_remove_char : forall fs q p,
  lookup (try_remove fs q) p = lookup fs p \/
  (p = q /\ lookup (try_remove fs q) p = None /\ exists f, lookup fs p = Some (NFile f)).
Proof.
  intros fs q p. unfold try_remove. destruct (isfile fs q); [|left; reflexivity].
  destruct (remove fs q) as [fs'|e] eqn:E; [|left; reflexivity].
  apply remove_frame in E. destruct E as [[f Hf] [Hn Hfr]].
  destruct (path_eqb p q) eqn:Epq.
  - apply path_eqb_eq in Epq. subst. right. eauto.
  - apply path_eqb_neq in Epq. left. apply Hfr. assumption.
Qed.

Lemma try_rmdir_char : forall fs q p,
  lookup (try_rmdir fs q) p = lookup fs p \/
  (p = q /\ lookup (try_rmdir fs q) p = None /\ lookup fs p = Some NDir /\ children fs p = []).
Proof.
  intros fs q p. unfold try_rmdir.
  destruct (rmdir fs q) as [fs'|e] eqn:E; [|left; reflexivity].
  apply rmdir_frame in E. destruct E as [Hd [Hc [Hne [Hn Hfr]]]].
  destruct (path_eqb p q) eqn:Epq.
  - apply path_eqb_eq in Epq. subst. right. auto.
  - apply path_eqb_neq in Epq. left. apply Hfr. assumption.
Qed.

Lemma try_remove_frame : forall fs q p, p <> q -> lookup (try_remove fs q) p = lookup fs p.
Proof. intros fs q p H. destruct (try_remove_char fs q p) as [E|[E _]]; [exact E|contradiction]. Qed.

Lemma try_rmdir_frame : forall fs q p, p <> q -> lookup (try_rmdir fs q) p = lookup fs p.
Proof. intros fs q p H. destruct (try_rmdir_char fs q p) as [E|[E _]]; [exact E|contradiction]. Qed.

Lemma try_remove_no_new : forall fs q p, lookup fs p = None -> lookup (try_remove fs q) p = None.
Proof. intros fs q p H. destruct (try_remove_char fs q p) as [E|[_ [E _]]]; congruence. Qed.

Lemma try_rmdir_no_new : forall fs q p, lookup fs p = None -> lookup (try_rmdir fs q) p = None.
Proof. intros fs q p H. destruct (try_rmdir_char fs q p) as [E|[_ [E _]]]; congruence. Qed.

Lemma try_remove_keeps_dir : forall fs q p, lookup fs p = Some NDir -> lookup (try_remove fs q) p = Some NDir.
Proof.
  intros fs q p H. destruct (try_remove_char fs q p) as [E|[_ [_ [f E]]]]; congruence.
Qed.

Lemma try_rmdir_keeps_file : forall fs q p f,
  lookup fs p = Some (NFile f) -> lookup (try_rmdir fs q) p = Some (NFile f).
Proof.
  intros fs q p f H. destruct (try_rmdir_char fs q p) as [E|[_ [_ [E _]]]]; congruence.
Qed.

Lemma try_remove_removes : forall fs p, isfile fs p = true -> lookup (try_remove fs p) p = None.
Proof.
  intros fs p H. unfold try_remove. rewrite H.
  apply isfile_lookup in H. destruct H as [f Hf].
  unfold remove. rewrite Hf. destruct p as [|n d]; [discriminate|].
  apply lookup_upd_eq. discriminate.
Qed.

(* ---- folds ---- *)
Lemma fold_inv : forall A (g : fsT -> A -> fsT) (P : fsT -> Prop),
  (forall fs a, P fs -> P (g fs a)) -> forall l fs, P fs -> P (fold_left g l fs).
Proof.
  intros A g P Hstep l. induction l as [|a l IH]; simpl; intros fs H; [exact H|].
  apply IH. apply Hstep. exact H.
Qed.

Lemma fold_frame : forall (g : fsT -> path -> fsT),
  (forall fs a p, p <> a -> lookup (g fs a) p = lookup fs p) ->
  forall l fs p, ~ In p l -> lookup (fold_left g l fs) p = lookup fs p.
Proof.
  intros g Hg l. induction l as [|a l IH]; simpl; intros fs p H; [reflexivity|].
  rewrite IH by tauto. apply Hg. intro E. apply H. left. congruence.
Qed.

Lemma fold_try_remove_no_new : forall l fs p,
  lookup fs p = None -> lookup (fold_left try_remove l fs) p = None.
Proof.
  intros l fs p. apply (fold_inv _ try_remove (fun fs => lookup fs p = None)).
  intros fs0 a. apply try_remove_no_new.
Qed.

Lemma fold_try_rmdir_no_new : forall l fs p,
  lookup fs p = None -> lookup (fold_left try_rmdir l fs) p = None.
Proof.
  intros l fs p. apply (fold_inv _ try_rmdir (fun fs => lookup fs p = None)).
  intros fs0 a. apply try_rmdir_no_new.
Qed.

Lemma fold_try_remove_keeps_dir : forall l fs p,
  lookup fs p = Some NDir -> lookup (fold_left try_remove l fs) p = Some NDir.
Proof.
  intros l fs p. apply (fold_inv _ try_remove (fun fs => lookup fs p = Some NDir)).
  intros fs0 a. apply try_remove_keeps_dir.
Qed.

Lemma fold_try_rmdir_keeps_file : forall l fs p f,
  lookup fs p = Some (NFile f) -> lookup (fold_left try_rmdir l fs) p = Some (NFile f).
Proof.
  intros l fs p f. apply (fold_inv _ try_rmdir (fun fs => lookup fs p = Some (NFile f))).
  intros fs0 a. apply try_rmdir_keeps_file.
Qed.

Lemma fold_try_remove_file : forall l fs p f,
  lookup fs p = Some (NFile f) ->
  lookup (fold_left try_remove l fs) p = Some (NFile f) \/
  (lookup (fold_left try_remove l fs) p = None /\ In p l).
Proof.
  induction l as [|a l IH]; simpl; intros fs p f H; [left; exact H|].
  destruct (try_remove_char fs a p) as [E|[E1 [E2 _]]].
  - rewrite <- E in H. destruct (IH _ _ _ H) as [K|[K1 K2]]; [left; exact K|right; tauto].
  - right. split; [apply fold_try_remove_no_new; exact E2|left; congruence].
Qed.

Lemma fold_try_remove_removes : forall l fs p,
  In p l -> isfile fs p = true -> lookup (fold_left try_remove l fs) p = None.
Proof.
  induction l as [|a l IH]; simpl; intros fs p Hin Hf; [contradiction|].
  destruct (path_eqb p a) eqn:E.
  - apply path_eqb_eq in E. subst a. apply fold_try_remove_no_new. apply try_remove_removes. exact Hf.
  - apply path_eqb_neq in E. destruct Hin as [Hin|Hin]; [congruence|].
    apply IH; [exact Hin|]. unfold isfile. rewrite try_remove_frame by exact E. exact Hf.
Qed.

Lemma fold_try_rmdir_dir : forall l fs p,
  lookup fs p = Some NDir ->
  lookup (fold_left try_rmdir l fs) p = Some NDir \/
  (lookup (fold_left try_rmdir l fs) p = None /\ In p l /\
   forall n, lookup (fold_left try_rmdir l fs) (n :: p) = None).
Proof.
  induction l as [|a l IH]; cbn [fold_left In]; intros fs p H; [left; exact H|].
  destruct (try_rmdir_char fs a p) as [E|[E1 [E2 [_ E3]]]].
  - rewrite <- E in H. destruct (IH _ _ H) as [K|[K1 [K2 K3]]]; [left; exact K|right; tauto].
  - right. split; [apply fold_try_rmdir_no_new; exact E2|]. split; [left; congruence|].
    intro n. apply fold_try_rmdir_no_new. apply try_rmdir_no_new.
    apply children_nil_lookup. exact E3.
Qed.

(* ---- the theorems about ref_clean ---- *)
Theorem ref_clean_frame : forall fs cf pv p,
  ~ In p (pv_outputs pv) -> p <> cf -> ~ In p (pv_dirs pv) ->
  lookup (ref_clean fs cf pv) p = lookup fs p.
Proof.
  intros fs cf pv p H1 H2 H3. unfold ref_clean.
  rewrite (fold_frame try_rmdir try_rmdir_frame).
  - rewrite try_remove_frame by exact H2. apply (fold_frame try_remove try_remove_frame). exact H1.
  - unfold deepest_first. rewrite In_sort_by. exact H3.
Qed.

Theorem ref_clean_no_new : forall fs cf pv p,
  lookup fs p = None -> lookup (ref_clean fs cf pv) p = None.
Proof.
  intros fs cf pv p H. unfold ref_clean.
  apply fold_try_rmdir_no_new. apply try_remove_no_new. apply fold_try_remove_no_new. exact H.
Qed.

Theorem ref_clean_files : forall fs cf pv p f,
  lookup fs p = Some (NFile f) ->
  lookup (ref_clean fs cf pv) p = Some (NFile f) \/
  (lookup (ref_clean fs cf pv) p = None /\ (In p (pv_outputs pv) \/ p = cf)).
Proof.
  intros fs cf pv p f H. unfold ref_clean.
  destruct (fold_try_remove_file (pv_outputs pv) fs p f H) as [K|[K1 K2]].
  - destruct (try_remove_char (fold_left try_remove (pv_outputs pv) fs) cf p) as [E|[E1 [E2 _]]].
    + left. apply fold_try_rmdir_keeps_file. congruence.
    + right. split; [apply fold_try_rmdir_no_new; exact E2|right; exact E1].
  - right. split; [|left; exact K2].
    apply fold_try_rmdir_no_new. apply try_remove_no_new. exact K1.
Qed.

Theorem ref_clean_dirs : forall fs cf pv p,
  lookup fs p = Some NDir ->
  lookup (ref_clean fs cf pv) p = Some NDir \/
  (lookup (ref_clean fs cf pv) p = None /\ In p (pv_dirs pv) /\
   forall n, lookup (ref_clean fs cf pv) (n :: p) = None).
Proof.
  intros fs cf pv p H. unfold ref_clean.
  set (fs2 := try_remove (fold_left try_remove (pv_outputs pv) fs) cf).
  assert (H2 : lookup fs2 p = Some NDir).
  { unfold fs2. apply try_remove_keeps_dir. apply fold_try_remove_keeps_dir. exact H. }
  destruct (fold_try_rmdir_dir (deepest_first (pv_dirs pv)) fs2 p H2) as [K|[K1 [K2 K3]]].
  - left. exact K.
  - right. split; [exact K1|]. split; [|exact K3].
    unfold deepest_first in K2. apply In_sort_by in K2. exact K2.
Qed.

Theorem ref_clean_removes_outputs : forall fs cf pv p,
  In p (pv_outputs pv) -> isfile fs p = true -> lookup (ref_clean fs cf pv) p = None.
Proof.
  intros fs cf pv p Hin Hf. unfold ref_clean.
  apply fold_try_rmdir_no_new. apply try_remove_no_new. apply fold_try_remove_removes; assumption.
Qed.

Theorem ref_clean_removes_cache : forall fs cf pv,
  isfile fs cf = true -> lookup (ref_clean fs cf pv) cf = None.
Proof.
  intros fs cf pv Hf. unfold ref_clean. apply fold_try_rmdir_no_new.
  apply isfile_lookup in Hf. destruct Hf as [f Hf].
  destruct (fold_try_remove_file (pv_outputs pv) fs cf f Hf) as [K|[K _]].
  - apply try_remove_removes. apply isfile_lookup. eauto.
  - apply try_remove_no_new. exact K.
Qed.

(* ====================================================================== *)
(* PART 2 — the model's clean is the reference clean (C12)                 *)
(* ====================================================================== *)

(* a monadic action that, without injected faults, is a pure function of the tree *)
Definition runs_as (m : M unit) (g : fsT -> fsT) : Prop :=
  forall w, w_faults w = [] ->
    exists w', m w = (w', inl tt) /\ w_fs w' = g (w_fs w) /\ w_faults w' = [].

Lemma effect_nofault : forall what p f w, w_faults w = [] ->
  effect what p f w =
  match f (w_fs w) with
  | inl fs' => (set_log (LEffect what p :: w_log w) (set_fs fs' (set_effects (S (w_effects w)) w)), inl tt)
  | inr e => (set_effects (S (w_effects w)) w, inr (XOS (err_of e)))
  end.
Proof. intros what p f w H. unfold effect. rewrite H. reflexivity. Qed.

Lemma try_to_remove_file_runs : forall p, runs_as (try_to_remove_file p) (fun fs => try_remove fs p).
Proof.
  intros p w Hf. unfold try_to_remove_file, bind, get, try_remove.
  destruct (isfile (w_fs w) p).
  - unfold catch. rewrite effect_nofault by exact Hf.
    destruct (remove (w_fs w) p) as [fs'|e].
    + eexists. split; [reflexivity|]. split; [reflexivity|exact Hf].
    + eexists. split; [reflexivity|]. split; [reflexivity|exact Hf].
  - exists w. split; [reflexivity|]. split; [reflexivity|exact Hf].
Qed.

Lemma rmdir_step_runs : forall d,
  runs_as (catch (effect "rmdir" d (fun fs => rmdir fs d))
                 (fun e => if is_os e then ret tt else raise e))
          (fun fs => try_rmdir fs d).
Proof.
  intros d w Hf. unfold catch, try_rmdir. rewrite effect_nofault by exact Hf.
  destruct (rmdir (w_fs w) d) as [fs'|e].
  - eexists. split; [reflexivity|]. split; [reflexivity|exact Hf].
  - eexists. split; [reflexivity|]. split; [reflexivity|exact Hf].
Qed.

Lemma mapM_runs : forall (f : path -> M unit) (g : fsT -> path -> fsT),
  (forall x, runs_as (f x) (fun fs => g fs x)) ->
  forall l, runs_as (mapM_ f l) (fun fs => fold_left g l fs).
Proof.
  intros f g Hf l. induction l as [|x r IH]; intros w Hw.
  - exists w. split; [reflexivity|]. split; [reflexivity|exact Hw].
  - cbn [mapM_ fold_left]. unfold bind.
    destruct (Hf x w Hw) as [w1 [E1 [F1 G1]]]. rewrite E1.
    destruct (IH w1 G1) as [w2 [E2 [F2 G2]]]. rewrite E2.
    exists w2. split; [reflexivity|]. split; [|exact G2]. rewrite F2, F1. reflexivity.
Qed.

Lemma seq_runs : forall m1 m2 g1 g2, runs_as m1 g1 -> runs_as m2 g2 ->
  runs_as (bind m1 (fun _ => m2)) (fun fs => g2 (g1 fs)).
Proof.
  intros m1 m2 g1 g2 H1 H2 w Hw. unfold bind.
  destruct (H1 w Hw) as [w1 [E1 [F1 G1]]]. rewrite E1.
  destruct (H2 w1 G1) as [w2 [E2 [F2 G2]]]. rewrite E2.
  exists w2. split; [reflexivity|]. split; [|exact G2]. rewrite F2, F1. reflexivity.
Qed.

Lemma remove_empty_dirs_runs : forall dirs,
  runs_as (remove_empty_dirs dirs) (fun fs => fold_left try_rmdir (deepest_first dirs) fs).
Proof.
  intros dirs. unfold remove_empty_dirs. rewrite sort_longest_first_deepest_first.
  apply (mapM_runs _ try_rmdir). intro x. apply rmdir_step_runs.
Qed.

Lemma clean_body_runs : forall cf c,
  runs_as (bind (mapM_ try_to_remove_file (cache_created_files c))
                (fun _ => bind (try_to_remove_file cf) (fun _ => remove_empty_dirs (c_dirs c))))
          (fun fs => ref_clean fs cf (prev_of_cache c)).
Proof.
  intros cf c. unfold ref_clean, prev_of_cache. cbn [pv_outputs pv_dirs].
  apply (seq_runs _ _ (fun fs => fold_left try_remove (cache_created_files c) fs)
                      (fun fs1 => fold_left try_rmdir (deepest_first (c_dirs c)) (try_remove fs1 cf))).
  - apply (mapM_runs _ try_remove). intro x. apply try_to_remove_file_runs.
  - apply (seq_runs _ _ (fun fs => try_remove fs cf)
                        (fun fs2 => fold_left try_rmdir (deepest_first (c_dirs c)) fs2)).
    + apply try_to_remove_file_runs.
    + apply remove_empty_dirs_runs.
Qed.

Lemma name_guard_false : forall (nm : option string) c,
  (match nm with Some n => String.eqb (c_name c) n | None => true end) = true ->
  (match nm with Some n => negb (String.eqb (c_name c) n) | None => false end) = false.
Proof. intros [n|] c H; [rewrite H|]; reflexivity. Qed.

Theorem clean_exact : forall cf nm w f c,
  w_faults w = [] ->
  lookup (w_fs w) cf = Some (NFile f) -> cache_of_json (f_json f) = ReadOk c ->
  (match nm with Some n => String.eqb (c_name c) n | None => true end) = true ->
  exists w', m_clean cf nm w = (w', Done (inl PNone)) /\
             w_fs w' = ref_clean (w_fs w) cf (prev_of_cache c).
Proof.
  intros cf nm w f c Hw Hl Hc Hn. unfold m_clean. rewrite Hl, Hc.
  rewrite (name_guard_false nm c Hn).
  destruct (clean_body_runs cf c w Hw) as [w' [E [F _]]].
  exists w'. split; [|exact F].
  unfold Monad.M in *. rewrite E. reflexivity.
Qed.

Theorem clean_idempotent : forall cf nm w f c,
  w_faults w = [] -> lookup (w_fs w) cf = Some (NFile f) -> cache_of_json (f_json f) = ReadOk c ->
  (match nm with Some n => String.eqb (c_name c) n | None => true end) = true ->
  forall w', m_clean cf nm w = (w', Done (inl PNone)) -> m_clean cf nm w' = (w', Done (inl PNone)).
Proof.
  intros cf nm w f c Hw Hl Hc Hn w' H.
  destruct (clean_exact cf nm w f c Hw Hl Hc Hn) as [w2 [E F]].
  rewrite E in H. inversion H; subst w2.
  apply clean_no_cache_noop. rewrite F. apply ref_clean_removes_cache.
  apply isfile_lookup. eauto.
Qed.
