(* Proofs/CommitDirsMain.v — what a build that COMMITS leaves behind (C03 / C10 / C12).

   [commit_leaves] (end of the file): when [run_build] returns a value, then, with
   newc := the cache the build wrote (w_new of the final world) and old := the previous cache,
   FILES
     (a0) no entry of newc is still in progress;
     (a1) the cache file is a regular file holding newc;
     (a2) a target this build claimed (c_built newc), with record o: it is a regular file iff
          the record is not marked raised (failed targets leave no file);
     (a3) a path with a record served from the old cache (not claimed): exactly what the
          pre-state had there, the same node;
     (a4) an output of the previous build that newc does not hold: no regular file;
     (a5) any other path: exactly what the pre-state had there, the same node.
   DIRECTORIES
     (b1) a directory afterwards was one before, or is recorded by newc (c_dirs), or is an
          error-created directory of BuildDirs that is not empty (_commit removes those
          "when empty": C10);
     (b2) every directory recorded by newc exists;
     (b3) a directory of the pre-state is still there unless the previous build recorded it;
     (b4) a recorded directory that existed before was recorded by the previous build.
   CONSEQUENCES
     [failed_parents_removed_when_empty] (C10): an error-created directory that is not
          recorded and is still there after the build is not empty;
     [clean_after_commit_files / _dirs / clean_after_commit] (C12): after FileBuilder.clean
          every regular file left was there, same node, before the build, and every
          directory left was a directory before the build or is / lies above a non-empty
          error-created one; the link to m_clean assumes that the cache file reads back
          with the outputs and created directories that were written.
   NOT PROVED: that the third alternative of (b1) never happens (no empty and no
   unrecorded directory made by the build remains); it needs the exact meaning of the lock
   counts of BuildDirs.  CommitDirsEx checks it on concrete histories.
   Side conditions: no injected fault; fs_wf; A (strong form, as in RollbackLaws); E.
   The analysis of _commit: phase (i) removes exactly the outputs of the previous build
   that newc does not hold (the virtual is_file decides), phase (ii) collects the recorded
   directories that are virtually gone, phase (iii) is _remove_empty_dirs. *)
From Coq Require Import List String Ascii NArith ZArith Bool Arith Lia Sorted.
From FB.Base Require Import PyVal Fs.
From FB.Gen Require Import JsonUtilGen.
From FB.Spec Require Import Prog Ref Oracle.
From FB.Model Require Import Types Monad CreatedFiles BuildDirs SimpleOps Builder Persist Build Run Frame.
From FB.Proofs Require Import FsLemmas ReplayLaws FrameLaws CleanLaws RollbackDirsLaws
  RollbackDirsView RollbackDirsBase RollbackDirsInv RollbackDirsMake RollbackDirsRun
  RollbackDirsMain CommitDirsInv CommitDirsRun.
Import ListNotations.
Local Open Scope list_scope.

(* ================================================================== *)
(* 1. _commit, phase by phase                                          *)
(* ================================================================== *)

Definition rm_old (f : path) : M unit :=
  bind (m_is_file f None) (fun vf =>
  bind (is_cache_file f) (fun icf =>
  if negb vf && negb icf then try_to_remove_file f else ret tt)).

Fixpoint vdirs_absent (ds : list path) : M (list path) :=
  match ds with
  | [] => ret []
  | d :: r => bind (m_is_dir d None) (fun vd => bind (vdirs_absent r) (fun rest => ret (if vd then rest else d :: rest)))
  end.

Lemma commit_unfold : forall err w,
  commit err w =
  bind (mapM_ rm_old (cache_created_files (w_old w))) (fun _ =>
  bind (vdirs_absent (c_dirs (w_old w))) (fun extra =>
  remove_empty_dirs (union_paths err extra))) w.
Proof. intros err w. reflexivity. Qed.

(* the virtual is_file says "no" for an output of the previous build that the new cache
   does not hold *)
Lemma m_is_file_old_output : forall f w w' b, m_is_file f None w = (w', inl b) ->
  cache_has_file (w_new w) f = false -> cache_created_file (w_old w) f = true -> b = false.
Proof.
  intros f w w' b H Hh Hc. unfold m_is_file in H.
  apply bind_inv in H. destruct H as [(w1 & x & E1 & H) | (e & E1 & H)]; [|discriminate H].
  unfold is_file_no_read in E1. cbn [cf_has_file cf_has_dir] in E1.
  destruct (path_eqb f (w_cachefile w)); [inversion E1; subst; inversion H; reflexivity|].
  rewrite Hh, Hc in E1. inversion E1; subst. inversion H; reflexivity.
Qed.

Definition removed_old (w : world) (q : path) : Prop :=
  q <> w_cachefile w /\ cache_has_file (w_new w) q = false /\ cache_created_file (w_old w) q = true.

Lemma rm_old_loop : forall L w w' r, mapM_ rm_old L w = (w', r) -> w_faults w = [] ->
  (forall q, ~ pending (w_new w) q) ->
  r = inl tt /\ w_faults w' = [] /\ w_new w' = w_new w /\ w_old w' = w_old w /\ w_cachefile w' = w_cachefile w /\
  bd_le (w_bd w) (w_bd w') /\
  (forall q, lookup (w_fs w') q = lookup (w_fs w) q \/
             (exists g, lookup (w_fs w) q = Some (NFile g) /\ lookup (w_fs w') q = None /\ removed_old w q)) /\
  (forall f, In f L -> removed_old w f -> forall g, lookup (w_fs w') f <> Some (NFile g)).
Proof.
  induction L as [|f L IH]; intros w w' r H Hf NP; cbn [mapM_] in H.
  - inversion H; subst. split; [reflexivity|]. split; [exact Hf|]. split; [reflexivity|]. split; [reflexivity|].
    split; [reflexivity|]. split; [apply bd_le_refl|]. split; [auto | intros f []].
  - apply bind_inv in H.
    assert (Step : forall w1 r1, rm_old f w = (w1, r1) ->
              r1 = inl tt /\ w_faults w1 = [] /\ w_new w1 = w_new w /\ w_old w1 = w_old w /\ w_cachefile w1 = w_cachefile w /\
              bd_le (w_bd w) (w_bd w1) /\
              (forall q, lookup (w_fs w1) q = lookup (w_fs w) q \/
                 (exists g, lookup (w_fs w) q = Some (NFile g) /\ lookup (w_fs w1) q = None /\ removed_old w q)) /\
              (removed_old w f -> forall g, lookup (w_fs w1) f <> Some (NFile g))).
    { intros w1 r1 E. unfold rm_old in E.
      apply bind_inv in E. destruct E as [(wa & vf & Ea & E) | (e & Ea & _)];
        [|exfalso; exact (m_is_file_no_raise _ _ _ _ Ea)].
      pose proof (m_is_file_view _ _ _ _ _ Ea) as ((F1 & _ & _ & F4 & F5 & _ & _ & F8 & _ & F10 & _) & Hle).
      apply bind_inv in E. destruct E as [(wb & icf & Eb & E) | (e & Eb & _)]; [|inversion Eb].
      unfold is_cache_file in Eb. inversion Eb; subst wb icf; clear Eb.
      destruct (negb vf && negb (path_eqb f (w_cachefile wa))) eqn:Eg.
      - apply andb_true_iff in Eg. destruct Eg as [G1 G2]. apply negb_true_iff in G1, G2. subst vf.
        rewrite F8 in G2. apply path_eqb_neq in G2.
        assert (Hfa : w_faults wa = []) by congruence.
        destruct (try_to_remove_file_full _ _ _ _ E Hfa) as (R0 & N1 & N2 & N3 & K1 & K2).
        assert (Hfw1 : w_faults w1 = []).
        { pose proof E as E0. unfold try_to_remove_file in E. unfold bind at 1, get in E. destruct (isfile (w_fs wa) f).
          - unfold catch in E. rewrite (effect_nofault' _ _ _ _ Hfa) in E.
            destruct (remove (w_fs wa) f); inversion E; subst; cbn; exact Hfa.
          - inversion E; subst. exact Hfa. }
        assert (Hold : w_old w1 = w_old wa /\ w_cachefile w1 = w_cachefile wa).
        { destruct (try_to_remove_file_new f _ _ _ E) as (_ & Y1 & Y2). split; assumption. }
        destruct Hold as [O1 O2].
        split; [exact R0|]. split; [exact Hfw1|]. split; [congruence|]. split; [congruence|]. split; [congruence|].
        split; [rewrite N3; exact Hle|]. split.
        + intro q. destruct (path_eq_dec q f) as [->|Nq]; [|left; rewrite (K2 q Nq), F1; reflexivity].
          destruct (lookup (w_fs w) f) as [[g|]|] eqn:El.
          * right. exists g. split; [reflexivity|]. split.
            -- destruct (lookup (w_fs w1) f) as [[g'|]|] eqn:El1; [exfalso; exact (K1 g' eq_refl) | | reflexivity].
               exfalso. assert (Y : isfile (w_fs wa) f = true) by (apply isfile_lookup; exists g; rewrite F1; exact El).
               unfold try_to_remove_file in E. unfold bind at 1, get in E. rewrite Y in E.
               unfold catch in E. rewrite (effect_nofault' _ _ _ _ Hfa) in E.
               destruct f as [|n d]; [cbn in El; discriminate El|].
               unfold remove in E. rewrite F1, El in E. inversion E; subst. cbn [w_fs set_log set_fs set_effects] in El1.
               rewrite lookup_upd_eq in El1 by discriminate. discriminate El1.
            -- assert (Hif : isfile (w_fs w) f = true) by (apply isfile_lookup; eauto).
               destruct (m_is_file_false_cases2 _ _ _ Ea Hif) as [Z|[Z|[Z1 Z2]]];
                 [contradiction | exfalso; exact (NP f Z) | split; [exact G2 | split; assumption]].
          * left. assert (Y : isfile (w_fs wa) f = false) by (unfold isfile; rewrite F1, El; reflexivity).
            unfold try_to_remove_file in E. unfold bind at 1, get in E. rewrite Y in E. inversion E; subst.
            rewrite F1. exact El.
          * left. assert (Y : isfile (w_fs wa) f = false) by (unfold isfile; rewrite F1, El; reflexivity).
            unfold try_to_remove_file in E. unfold bind at 1, get in E. rewrite Y in E. inversion E; subst.
            rewrite F1. exact El.
        + intros _ g. exact (K1 g).
      - inversion E; subst w1 r1; clear E.
        split; [reflexivity|]. split; [congruence|]. split; [exact F5|]. split; [exact F4|]. split; [exact F8|].
        split; [exact Hle|]. split; [intro q; left; rewrite F1; reflexivity|].
        intros (R1 & R2 & R3) g Hg. exfalso.
        pose proof (m_is_file_old_output _ _ _ _ Ea R2 R3) as Y. subst vf.
        cbn [negb andb] in Eg. apply negb_false_iff in Eg. rewrite F8 in Eg. apply path_eqb_eq in Eg. contradiction. }
    destruct H as [(w1 & u & E1 & H) | (e & E1 & _)].
    2:{ destruct (Step _ _ E1) as (Y & _). discriminate Y. }
    destruct (Step _ _ E1) as (_ & Hf1 & N1 & O1 & C1 & B1 & Fr1 & Rm1).
    assert (NP1 : forall q, ~ pending (w_new w1) q) by (intro q; rewrite N1; apply NP).
    destruct (IH _ _ _ H Hf1 NP1) as (R0 & Hf' & N2 & O2 & C2 & B2 & Fr2 & Rm2).
    assert (Hro : forall q, removed_old w1 q <-> removed_old w q).
    { intro q. unfold removed_old. rewrite N1, O1, C1. tauto. }
    split; [exact R0|]. split; [exact Hf'|]. split; [congruence|]. split; [congruence|]. split; [congruence|].
    split; [eapply bd_le_trans; eauto|]. split.
    + intro q. destruct (Fr2 q) as [Y|(g & Y1 & Y2 & Y3)].
      * destruct (Fr1 q) as [Z|(g & Z1 & Z2 & Z3)]; [left; congruence|].
        right. exists g. split; [exact Z1|]. split; [congruence | exact Z3].
      * destruct (Fr1 q) as [Z|(g' & Z1 & Z2 & Z3)]; [|congruence].
        right. exists g. split; [congruence|]. split; [exact Y2 | apply Hro; exact Y3].
    + intros q [<-|Hq] Hr g Hg.
      * destruct (Fr2 f) as [Y|(g' & _ & Y & _)]; [|congruence]. rewrite Y in Hg. exact (Rm1 Hr g Hg).
      * exact (Rm2 q Hq (proj2 (Hro q) Hr) g Hg).
Qed.

(* phase (ii): a locked directory that is really there is never reported as gone *)
Lemma m_is_dir_locked : forall d w w', m_is_dir d None w = (w', inl false) ->
  in_counts (w_bd w) d = true -> isdir (w_fs w) d = true -> False.
Proof.
  intros d w w' H Hc Hd. unfold m_is_dir in H. cbn [cf_has_dir cf_has_file] in H.
  unfold bind at 1 in H. unfold m_is_removed, is_removed in H. rewrite Hc in H.
  unfold bind at 1, get in H. cbn [w_fs set_bd] in H. rewrite Hd in H.
  unfold bind, m_handle_dir_exists, modify, ret in H. inversion H.
Qed.

Lemma vdirs_absent_spec : forall ds w w' r, vdirs_absent ds w = (w', r) ->
  (forall d, In d ds -> path_ok d = true) ->
  exists extra, r = inl extra /\ viewPO w w' /\
    (forall d, In d extra -> In d ds /\ ~ (in_counts (w_bd w) d = true /\ isdir (w_fs w) d = true)).
Proof.
  induction ds as [|d ds IH]; intros w w' r H Hok; cbn [vdirs_absent] in H.
  - inversion H; subst. exists []. split; [reflexivity|]. split; [apply view_refl | intros d []].
  - apply bind_inv in H. destruct H as [(w1 & vd & E1 & H) | (e & E1 & _)].
    2:{ exfalso. exact (m_is_dir_no_raise d (Hok d (or_introl eq_refl)) _ _ _ E1). }
    pose proof (m_is_dir_view _ _ _ _ _ E1) as V1.
    apply bind_inv in H. destruct H as [(w2 & rest & E2 & H) | (e & E2 & ->)].
    + destruct (IH _ _ _ E2 (fun q Hq => Hok q (or_intror Hq))) as (extra & Y & V2 & A2). inversion Y; subst extra; clear Y.
      inversion H; subst w2 r; clear H. eexists. split; [reflexivity|]. split; [eapply view_trans; eauto|].
      destruct V1 as ((F1 & _) & (C1 & _)).
      assert (Hrest : forall q, In q rest -> In q (d :: ds) /\ ~ (in_counts (w_bd w) q = true /\ isdir (w_fs w) q = true)).
      { intros q Hq. destruct (A2 q Hq) as [Y1 Y2]. split; [right; exact Y1|].
        unfold in_counts in *. rewrite C1, F1 in Y2. exact Y2. }
      destruct vd; [exact Hrest|]. intros q [<-|Hq]; [|exact (Hrest q Hq)].
      split; [left; reflexivity|]. intros [Z1 Z2]. exact (m_is_dir_locked _ _ _ E1 Z1 Z2).
    + destruct (IH _ _ _ E2 (fun q Hq => Hok q (or_intror Hq))) as (extra & Y & _). discriminate Y.
Qed.

(* phase (iii): a directory that _remove_empty_dirs removes has no child afterwards *)
Lemma red_loop_empty : forall l w w' r, mapM_ rmdir_step l w = (w', r) -> w_faults w = [] ->
  (forall p, lookup (w_fs w') p = lookup (w_fs w) p \/ lookup (w_fs w') p = None) /\
  (forall q, lookup (w_fs w) q = Some NDir -> lookup (w_fs w') q = None -> forall n, lookup (w_fs w') (n :: q) = None).
Proof.
  induction l as [|x l IH]; intros w w' r H Hf; cbn [mapM_] in H.
  - inversion H; subst. split; [auto|]. intros q Y1 Y2. congruence.
  - apply bind_inv in H. destruct H as [(w1 & u & E1 & H) | (e & E1 & _)].
    2:{ destruct (caught_step_spec _ _ _ _ _ _ E1 Hf) as (Y & _). discriminate Y. }
    destruct (caught_step_spec _ _ _ _ _ _ E1 Hf) as (_ & Hf1 & _ & _ & _ & _ & _ & S1).
    destruct (IH _ _ _ H Hf1) as [M2 E2].
    assert (M1 : forall p, lookup (w_fs w1) p = lookup (w_fs w) p \/ lookup (w_fs w1) p = None).
    { intro p. destruct S1 as [S1|(S1 & _)]; [|left; congruence].
      apply rmdir_frame in S1. destruct S1 as (_ & _ & _ & G4 & G5).
      destruct (path_eq_dec p x) as [->|N]; [right; exact G4 | left; apply G5; exact N]. }
    split.
    + intro p. destruct (M2 p) as [Y|Y]; [|right; exact Y]. destruct (M1 p) as [Z|Z]; [left | right]; congruence.
    + intros q Hq Hn n. destruct (lookup (w_fs w1) q) as [[g|]|] eqn:El.
      * destruct (M1 q) as [Z|Z]; congruence.
      * apply E2; assumption.
      * (* removed at this step *)
        destruct S1 as [S1|(S1 & _)]; [|congruence].
        apply rmdir_frame in S1. destruct S1 as (_ & G2 & _ & _ & G5).
        destruct (path_eq_dec q x) as [->|N]; [|rewrite (G5 q N) in El; congruence].
        destruct (M2 (n :: x)) as [Y|Y]; [|exact Y]. rewrite Y.
        rewrite (G5 (n :: x) (cons_neq_self n x)). apply children_nil_lookup. exact G2.
Qed.

Lemma remove_empty_dirs_empty : forall L w w' r, remove_empty_dirs L w = (w', r) -> w_faults w = [] ->
  forall q, lookup (w_fs w) q = Some NDir -> lookup (w_fs w') q = None -> forall n, lookup (w_fs w') (n :: q) = None.
Proof.
  intros L w w' r H Hf. rewrite remove_empty_dirs_eq in H. exact (proj2 (red_loop_empty _ _ _ _ H Hf)).
Qed.

(* what exists after _remove_empty_dirs keeps its ancestors *)
Lemma red_keeps_ancestors : forall L w w' r, remove_empty_dirs L w = (w', r) -> w_faults w = [] -> fs_wf (w_fs w) ->
  forall p x, lookup (w_fs w') p = Some x -> forall a, below a p = true -> lookup (w_fs w') a = Some NDir.
Proof.
  intros L w w' r H Hf Hwf.
  destruct (remove_empty_dirs_spec _ _ _ _ H Hf) as (_ & _ & _ & R3 & _ & _).
  pose proof (remove_empty_dirs_empty _ _ _ _ H Hf) as Hemp.
  induction p as [|n d IH]; intros x Hp a Ha; cbn [below] in Ha; [discriminate Ha|].
  assert (Hd : lookup (w_fs w') d = Some NDir).
  { assert (Hp0 : lookup (w_fs w) (n :: d) = Some x) by (destruct (R3 (n :: d)) as [Y|(_ & _ & Y)]; congruence).
    pose proof (Hwf _ _ Hp0) as Hd0. cbn [dirname tl] in Hd0.
    destruct (R3 d) as [Y|(_ & _ & Y)]; [congruence|]. pose proof (Hemp d Hd0 Y n). congruence. }
  apply orb_true_iff in Ha. destruct Ha as [Ha|Ha].
  - apply path_eqb_eq in Ha. subst a. exact Hd.
  - exact (IH NDir Hd a Ha).
Qed.

Lemma In_fold_del : forall extra l d, In d (fold_left (fun acc x => del_path x acc) extra l) <-> In d l /\ ~ In d extra.
Proof.
  induction extra as [|x extra IH]; intros l d; cbn [fold_left].
  - cbn. tauto.
  - rewrite IH. cbn [In]. split.
    + intros [H1 H2]. split; [eapply In_del_path; eauto|]. intros [E|E]; [|exact (H2 E)].
      subst x. exact (notin_del_path _ _ H1).
    + intros [H1 H2]. split; [|tauto]. apply In_del_path_neq; [exact H1|]. intro E. apply H2. left. symmetry. exact E.
Qed.

(* ================================================================== *)
(* 2. Before _commit: _set_created_dirs, the old cache file, Cache.write *)
(* ================================================================== *)

Lemma sequence_no_none : forall A (l : list (option A)) r, sequence l = Some r -> forall x, In x l -> x <> None.
Proof.
  intros A l. induction l as [|o l IH]; intros r H x Hx; [destruct Hx|].
  cbn [sequence fold_right] in H. fold (sequence l) in H.
  destruct o as [a|]; [|discriminate H]. destruct (sequence l) as [r'|] eqn:E; [|discriminate H].
  destruct Hx as [<-|Hx]; [discriminate | exact (IH _ eq_refl x Hx)].
Qed.

(* a cache that can be written has no entry in progress *)
Lemma cache_to_json_no_pending : forall c j, cache_to_json c = Some j -> forall q, ~ pending c q.
Proof.
  intros c j H q Hq. unfold cache_to_json in H. destruct (cache_operations c) as [ops|] eqn:E; [|discriminate H].
  unfold cache_operations in E. unfold pending in Hq. apply files_get_In in Hq.
  apply (sequence_no_none _ _ _ E None); [|reflexivity].
  apply in_or_app. left. apply in_map_iff. exists (q, None). split; [reflexivity | exact Hq].
Qed.

Definition new_cache_of (ccd : list path) (w : world) : cache :=
  let created := bd_created (w_bd w) in
  let extra := filter (fun d => negb (mem_path d created)) ccd in
  let c := w_new w in
  cache_with c (c_files c) (c_subs c) (union_paths (c_dirs c) (created ++ extra)) (c_built c).

Lemma bd_pre_spec : forall cf ccd w w' err, bd_pre cf ccd w = (w', inl err) -> w_faults w = [] ->
  err = fold_left (fun acc d => del_path d acc) (filter (fun d => negb (mem_path d (bd_created (w_bd w)))) ccd)
                  (bd_err_created (w_bd w)) /\
  w_new w' = new_cache_of ccd w /\ w_bd w' = w_bd w /\ w_faults w' = [] /\ w_old w' = w_old w /\
  w_cachefile w' = w_cachefile w /\ (forall q, q <> cf -> lookup (w_fs w') q = lookup (w_fs w) q) /\
  (fs_wf (w_fs w) -> fs_wf (w_fs w')) /\
  (lookup (w_fs w) cf = Some NDir -> lookup (w_fs w') cf = Some NDir).
Proof.
  intros cf ccd w w' err H Hf. unfold bd_pre in H.
  apply bind_inv in H. destruct H as [(w1 & err1 & E1 & H) | (e & _ & Y)]; [|discriminate Y].
  unfold set_created_dirs in E1. unfold bind at 1, get in E1. cbv zeta in E1.
  apply bind_inv in E1. destruct E1 as [(w1' & u0 & E1 & E1') | (e & _ & Y)]; [|discriminate Y].
  unfold put in E1. inversion E1; subst w1'; clear E1. inversion E1'; subst w1 err1; clear E1'.
  unfold bind at 1, get in H. cbn [w_fs set_new] in H.
  destruct (isfile (w_fs w) cf) eqn:Ef.
  - apply bind_inv in H. destruct H as [(w2 & u1 & E2 & H) | (e & _ & Y)]; [|discriminate Y].
    inversion H; subst w2 err; clear H.
    apply bind_inv in E2. destruct E2 as [(w3 & b & E3 & H) | (e & _ & Y)]; [|discriminate Y].
    inversion H; subst w3; clear H.
    match type of E3 with back_up_and_remove cf ?W = _ => set (wm := W) in * end.
    assert (Hd : isdir (w_fs wm) cf = false) by (apply isfile_not_dir; exact Ef).
    pose proof (back_up_dkeep _ _ _ _ E3 Hd) as (Kb & _ & Kw).
    destruct (back_up_spec _ _ _ _ E3 Hf Hd) as (F1 & F2 & F3 & F4 & [(f & _ & G1 & G2 & G3 & G4) | (G1 & G2 & _)]).
    + split; [reflexivity|]. split; [exact F4|]. split; [exact Kb|]. split; [exact F1|]. split; [exact F2|].
      split; [exact F3|]. split; [exact G3|]. split; [exact Kw|]. intro Y. unfold isfile in Ef. rewrite Y in Ef. discriminate Ef.
    + split; [reflexivity|]. split; [exact F4|]. split; [exact Kb|]. split; [exact F1|]. split; [exact F2|].
      split; [exact F3|]. split; [intros q _; rewrite G1; reflexivity|]. split; [exact Kw|]. intro Y. rewrite G1. exact Y.
  - apply bind_inv in H. destruct H as [(w2 & u1 & E2 & H) | (e & E2 & _)]; [|inversion E2].
    inversion E2; subst w2. inversion H; subst w' err.
    split; [reflexivity|]. split; [reflexivity|]. split; [reflexivity|]. split; [exact Hf|]. split; [reflexivity|].
    split; [reflexivity|]. split; [intros; reflexivity|]. split; intro Y; exact Y.
Qed.

Lemma write_cache_spec : forall w w' u, write_cache w = (w', inl u) -> w_faults w = [] ->
  exists j f, cache_to_json (w_new w) = Some j /\
    lookup (w_fs w') (w_cachefile w) = Some (NFile f) /\ f_json f = Some j /\
    (forall q, q <> w_cachefile w -> lookup (w_fs w') q = lookup (w_fs w) q) /\
    w_new w' = w_new w /\ w_bd w' = w_bd w /\ w_faults w' = [] /\ w_old w' = w_old w /\
    w_cachefile w' = w_cachefile w /\ (fs_wf (w_fs w) -> fs_wf (w_fs w')) /\
    lookup (w_fs w) (w_cachefile w) <> Some NDir.
Proof.
  intros w w' u H Hf.
  pose proof (write_cache_dkeep _ _ _ H) as (Kb & _ & Kw).
  pose proof (write_cache_only_cf (w_cachefile w) _ _ _ eq_refl H) as (O1 & O2 & O3 & O4 & _ & O6 & _).
  unfold write_cache in H. unfold bind at 1, get in H.
  destruct (cache_to_json (w_new w)) as [j|] eqn:Ej; [|discriminate H]. cbv zeta in H.
  apply bind_inv in H. destruct H as [(w1 & u1 & E1 & H) | (e & _ & Y)]; [|discriminate Y].
  apply bind_inv in H. destruct H as [(w2 & u2 & E2 & H) | (e & _ & Y)]; [|discriminate Y].
  unfold modify in E2. inversion E2; subst w2; clear E2.
  assert (Hf1 : w_faults w1 = [] /\ lookup (w_fs w) (w_cachefile w) <> Some NDir).
  { rewrite (effect_nofault' _ _ _ _ Hf) in E1.
    destruct (write_file (w_fs w) (w_cachefile w) "" None (w_clock w) (w_nextid w)) as [fs1|e1] eqn:Ew1;
      inversion E1; subst. split; [exact Hf|].
    unfold write_file in Ew1. destruct (w_cachefile w) as [|n d]; [discriminate Ew1|].
    destruct (lookup (w_fs w) (n :: d)) as [[g|]|]; try discriminate; discriminate Ew1. }
  destruct Hf1 as [Hf1 Hnd].
  match type of H with effect _ _ _ ?W = _ => assert (Hf2 : w_faults W = []) by exact Hf1 end.
  rewrite (effect_nofault' _ _ _ _ Hf2) in H. cbn [w_fs set_clock] in H.
  match type of H with match ?Z with _ => _ end = _ => destruct Z as [fs''|e] eqn:Ew end; [|discriminate H].
  inversion H; subst w'; clear H. apply write_file_frame in Ew. destruct Ew as ((f & G1 & _ & _ & G4) & _).
  exists j, f. cbn [w_fs set_log set_fs set_effects] in *.
  split; [reflexivity|]. split; [exact G1|]. split; [exact G4|]. split; [exact O6|]. split; [exact O4|].
  split; [exact Kb|]. split; [rewrite O1; exact Hf|]. split; [exact O2|]. split; [exact O3|]. split; [exact Kw | exact Hnd].
Qed.

Lemma red_keeps_chain : forall L w w' r, remove_empty_dirs L w = (w', r) -> w_faults w = [] ->
  forall p x, lookup (w_fs w') p = Some x ->
  (forall a, below a p = true -> lookup (w_fs w) a = Some NDir) ->
  forall a, below a p = true -> lookup (w_fs w') a = Some NDir.
Proof.
  intros L w w' r H Hf.
  destruct (remove_empty_dirs_spec _ _ _ _ H Hf) as (_ & _ & _ & R3 & _ & _).
  pose proof (remove_empty_dirs_empty _ _ _ _ H Hf) as Hemp.
  induction p as [|n d IH]; intros x Hp Hanc a Ha; cbn [below] in Ha; [discriminate Ha|].
  assert (Hd : lookup (w_fs w') d = Some NDir).
  { pose proof (Hanc d (below_self_cons n d)) as Hd0.
    destruct (R3 d) as [Y|(_ & _ & Y)]; [congruence|]. pose proof (Hemp d Hd0 Y n). congruence. }
  apply orb_true_iff in Ha. destruct Ha as [Ha|Ha].
  - apply path_eqb_eq in Ha. subst a. exact Hd.
  - apply (IH NDir Hd); [|exact Ha]. intros a' Ha'. apply Hanc. apply below_cons. exact Ha'.
Qed.

(* ================================================================== *)
(* 3. The committed build                                              *)
(* ================================================================== *)

Section CommitAccept.

Variable fs0 : fsT.
Variable old : cache.
Variable cf : path.
Variable P : path -> Prop.

Hypothesis HypA : forall a t, Tgt old cf P t -> below a t = true -> ~ P a.
Hypothesis HS : forall a t, Tgt old cf P t -> below a t = true -> notorig fs0 a.
Hypothesis Hwf0 : fs_wf fs0.
Hypothesis HE : forall d, In d (c_dirs old) -> path_ok d = true.

Definition CommitPost (w' : world) : Prop :=
  let newc := w_new w' in
  (forall p, cache_has_file newc p = true -> exists o, cache_get_file newc p = Some o) /\
  (exists f j, lookup (w_fs w') cf = Some (NFile f) /\ f_json f = Some j /\ cache_to_json newc = Some j) /\
  (forall p o, p <> cf -> cache_get_file newc p = Some o -> In p (c_built newc) ->
     isfile (w_fs w') p = negb (op_raised o)) /\
  (forall p, p <> cf -> cache_has_file newc p = true -> ~ In p (c_built newc) ->
     forall g, lookup (w_fs w') p = Some (NFile g) <-> lookup fs0 p = Some (NFile g)) /\
  (forall p, p <> cf -> cache_has_file newc p = false -> cache_created_file old p = true ->
     forall g, lookup (w_fs w') p <> Some (NFile g)) /\
  (forall p, p <> cf -> cache_has_file newc p = false -> cache_created_file old p = false ->
     forall g, lookup (w_fs w') p = Some (NFile g) <-> lookup fs0 p = Some (NFile g)) /\
  (forall d, lookup (w_fs w') d = Some NDir ->
     lookup fs0 d = Some NDir \/ In d (c_dirs newc) \/
     (In d (bd_err_created (w_bd w')) /\ exists n, lookup (w_fs w') (n :: d) <> None)) /\
  (forall d, In d (c_dirs newc) -> lookup (w_fs w') d = Some NDir) /\
  (forall d, lookup fs0 d = Some NDir -> lookup (w_fs w') d = Some NDir \/ In d (c_dirs old)) /\
  (forall d, In d (c_dirs newc) -> lookup fs0 d = Some NDir -> In d (c_dirs old)).

Lemma EInv_start : forall w nm svers, EInv fs0 old cf P (start_world w cf old nm svers).
Proof.
  intros w nm svers. unfold EInv, bdZ, XBc, XSc, X6c, start_world, empty_cache, bd_init, cache_get_file.
  cbn [w_new w_bd w_fs w_backups c_dirs c_files c_built bd_created bd_err_created files_get].
  split; [reflexivity|]. split; [split; intros d []|]. split; [intros p o Y; discriminate Y|].
  split; [intros p o Y; discriminate Y | intros p f []].
Qed.

Lemma m_accept_commit : forall nm svers root w w' v,
  fs0 = w_fs w -> w_faults w = [] -> (forall Y, pres (GPO fs0 old cf P Y None) root) ->
  m_accept cf nm svers root w old = (w', Done (inl v)) -> CommitPost w'.
Proof.
  intros nm svers root w w' v Hfs Hf Hroot H. unfold m_accept in H. cbv zeta in H.
  pose proof (RInv_start fs0 old cf P w nm svers Hfs Hf) as Hr0.
  pose proof (DInv_start fs0 old cf P Hwf0 w nm svers Hfs) as HD0.
  pose proof (EInv_start w nm svers) as He0.
  assert (T0 : forall u, tcond None u) by (intros u q Y; discriminate Y).
  assert (G0 : forall u, gcond None u) by (intros u q Y; discriminate Y).
  assert (Tcf : Tgt old cf P cf) by (right; left; reflexivity).
  destruct (make_dirs (dirname cf) (start_world w cf old nm svers)) as [w1 [ccd|e1]] eqn:E1.
  2:{ destruct (roll_back [] w1) as [wr [u|e']]; discriminate H. }
  destruct (make_dirs_T fs0 old cf P HypA None cf Tcf _ _ _ E1 Hr0 (T0 _)) as [Hr1 _].
  pose proof (make_dirs_D fs0 old cf P HypA [] _ _ _ _ E1 Hr0 HD0
                (fun d Hne Hd => AncT_of_target old cf P cf d Tcf Hne Hd)) as R. cbn beta iota in R.
  destruct R as (made & A1 & A2 & A3 & A4 & A5).
  assert (HD1 : DInv fs0 old cf P ccd w1).
  { apply (DInv_X fs0 old cf P (made ++ []) ccd w1 A1).
    - intros d Hd. left. apply A3. rewrite app_nil_r in Hd. exact Hd.
    - intros d Hd. exact (proj1 (A4 d Hd)). }
  destruct (ekeep_E fs0 old cf P _ _ (make_dirs_ekeep fs0 old cf P HypA HS cf _ _ _ E1 Tcf Hr0) He0) as [He1 _].
  match type of H with (let '(_, _) := ?Z in _) = _ => destruct Z as [w2 [res x]] eqn:E2 end.
  destruct res as [v0|e2]; [|destruct (roll_back ccd w2) as [wr [u|e']]; discriminate H].
  assert (HG2 : FInv fs0 old cf P ccd w2 /\ EInv fs0 old cf P w2).
  { pose proof (GRel_trans fs0 old cf P ccd None _ _ _ (GRel_set_log fs0 old cf P ccd None _ w1) (Hroot ccd _ _ _ E2)) as R.
    destruct (R (conj Hr1 HD1) He1 (T0 _) (G0 _)) as (Y1 & _ & Y2 & _). split; assumption. }
  destruct HG2 as [[Hr2 HD2] He2].
  destruct (bd_pre cf ccd w2) as [w3 [err|e3]] eqn:E3; [|destruct (roll_back ccd w3) as [wr [u|e']]; discriminate H].
  destruct (write_cache w3) as [w4 [u4|e4]] eqn:E4.
  2:{ destruct (try_to_remove_file cf w4) as [w5 r5]. destruct (roll_back ccd w5) as [wr [u|e']]; discriminate H. }
  destruct (commit err w4) as [w5 [u5|e5]] eqn:E5; [|discriminate H].
  inversion H; subst w5 v0; clear H.
  (* the pieces *)
  pose proof Hr2 as (Hf2 & Bo2 & Cc2 & I1 & _ & _ & I4 & I5 & _ & _).
  destruct HD2 as (Wf2 & D2 & D3 & DW & C1).
  destruct He2 as (Z1 & (Z2 & Z4) & XB & XS & X6).
  destruct (bd_pre_spec _ _ _ _ _ E3 Hf2) as (Eerr & N3 & B3 & Hf3 & O3 & C3 & Fr3 & Wf3 & Dcf3).
  destruct (write_cache_spec _ _ _ E4 Hf3) as (j & fj & Ej & Lcf & Jf & Fr4 & N4 & B4 & Hf4 & O4 & C4 & Wf4 & Ncf).
  rewrite C3, Cc2 in Lcf, Fr4, Ncf.
  set (newc := new_cache_of ccd w2) in *.
  assert (NP : forall q, ~ pending (w_new w4) q).
  { intro q. rewrite N4. eapply cache_to_json_no_pending; eauto. }
  assert (Cc4 : w_cachefile w4 = cf) by congruence.
  assert (Bo4 : w_old w4 = old) by congruence.
  rewrite commit_unfold in E5. rewrite Bo4 in E5.
  apply bind_inv in E5. destruct E5 as [(wa & ua & Ea & E5) | (e & Ea & _)].
  2:{ destruct (rm_old_loop _ _ _ _ Ea Hf4 NP) as (Y & _). discriminate Y. }
  destruct (rm_old_loop _ _ _ _ Ea Hf4 NP) as (_ & Hfa & Na & Oa & Ca & Ba & Fra & Rma).
  apply bind_inv in E5. destruct E5 as [(wb & extra2 & Eb & E5) | (e & Eb & _)].
  2:{ destruct (vdirs_absent_spec _ _ _ _ Eb HE) as (x0 & Y & _). discriminate Y. }
  destruct (vdirs_absent_spec _ _ _ _ Eb HE) as (x0 & Y & Vb & Xb). inversion Y; subst x0; clear Y.
  destruct Vb as ((Fb1 & _ & _ & _ & Fb5 & _ & _ & _ & _ & Fb10 & _) & (Cb1 & Cb2 & Cb3 & _)).
  assert (Hfb : w_faults wb = []) by congruence.
  destruct (remove_empty_dirs_spec _ _ _ _ E5 Hfb) as (_ & _ & Bc & Rc3 & Rc4 & _).
  pose proof (remove_empty_dirs_new _ _ _ _ E5) as (Nc & _ & _).
  destruct Ba as (Ba1 & Ba2 & Ba3 & _).
  set (L := union_paths err extra2) in *.
  (* summary of the fields of the final world *)
  assert (Nfin : w_new w' = newc) by congruence.
  assert (Efin : bd_err_created (w_bd w') = bd_err_created (w_bd w2)) by congruence.
  assert (Cnt : forall a, in_counts (w_bd wa) a = in_counts (w_bd w2) a) by (intro a; unfold in_counts; rewrite Ba1, B4, B3; reflexivity).
  assert (Hro : forall q, removed_old w4 q <-> q <> cf /\ cache_has_file newc q = false /\ cache_created_file old q = true).
  { intro q. unfold removed_old. rewrite Cc4, N4, N3, Bo4. tauto. }
  assert (L24 : forall q, q <> cf -> lookup (w_fs w4) q = lookup (w_fs w2) q).
  { intros q Nq. rewrite (Fr4 q Nq). apply Fr3. exact Nq. }
  assert (Cfnd : lookup (w_fs w2) cf <> Some NDir) by (intro Y; apply Ncf; apply Dcf3; exact Y).
  assert (Dir24 : forall d, lookup (w_fs w2) d = Some NDir -> lookup (w_fs w4) d = Some NDir).
  { intros d Hd. rewrite L24; [exact Hd|]. intro E. subst d. contradiction. }
  assert (Dir4b : forall d, lookup (w_fs w4) d = Some NDir -> lookup (w_fs wb) d = Some NDir).
  { intros d Hd. rewrite Fb1. destruct (Fra d) as [Y|(g & Y & _)]; congruence. }
  (* regular files: from the end of the root function to the final world *)
  assert (Fdown : forall q g, q <> cf -> lookup (w_fs w') q = Some (NFile g) -> lookup (w_fs w2) q = Some (NFile g)).
  { intros q g Nq Hq. rewrite <- (L24 q Nq).
    assert (Y : lookup (w_fs wb) q = Some (NFile g)) by (destruct (Rc3 q) as [Y|(_ & _ & Y)]; congruence).
    rewrite Fb1 in Y. destruct (Fra q) as [Z|(g' & _ & Z & _)]; congruence. }
  assert (Fup : forall q g, q <> cf -> lookup (w_fs w2) q = Some (NFile g) ->
            ~ (cache_has_file newc q = false /\ cache_created_file old q = true) -> lookup (w_fs w') q = Some (NFile g)).
  { intros q g Nq Hq Hnr. rewrite <- (L24 q Nq) in Hq.
    assert (Y : lookup (w_fs wa) q = Some (NFile g)).
    { destruct (Fra q) as [Z|(g' & _ & _ & Z)]; [congruence|]. exfalso. apply Hnr. apply Hro in Z. tauto. }
    rewrite <- Fb1 in Y. destruct (Rc3 q) as [Z|(_ & Z & _)]; congruence. }
  assert (Hget : forall p, cache_get_file newc p = cache_get_file (w_new w2) p) by reflexivity.
  assert (Hhas : forall p, cache_has_file newc p = cache_has_file (w_new w2) p) by reflexivity.
  assert (Hblt : c_built newc = c_built (w_new w2)) by reflexivity.
  assert (Hdirs : forall d, In d (c_dirs newc) <-> In d (bd_created (w_bd w2)) \/ In d ccd).
  { intro d. subst newc. unfold new_cache_of. cbn [c_dirs cache_with]. rewrite Z1, In_union_paths, in_app_iff, filter_In.
    cbn [In]. split.
    - intros [[]|[Y|[Y _]]]; auto.
    - intros [Y|Y]; [right; left; exact Y|]. destruct (mem_path d (bd_created (w_bd w2))) eqn:Em.
      + right; left. apply mem_path_In. exact Em.
      + right; right. split; [exact Y | reflexivity]. }
  assert (A0 : forall p, cache_has_file newc p = true -> exists o, cache_get_file newc p = Some o).
  { intros p Hp. unfold cache_has_file, cache_get_file in *.
    destruct (files_get (c_files newc) p) as [[o|]|] eqn:E; [eauto | | discriminate Hp].
    exfalso. apply (NP p). rewrite N4, N3. exact E. }
  unfold CommitPost. rewrite Nfin, Efin.
  split; [exact A0|]. split; [|split; [|split; [|split; [|split; [|split; [|split; [|split]]]]]]].
  - (* the cache file *)
    exists fj, j. split; [|split; [exact Jf | rewrite <- N3; exact Ej]].
    assert (Y : lookup (w_fs wa) cf = Some (NFile fj)).
    { destruct (Fra cf) as [Z|(g' & _ & _ & Z)]; [congruence|]. destruct Z as (Z & _). congruence. }
    rewrite <- Fb1 in Y. destruct (Rc3 cf) as [Z|(_ & Z & _)]; congruence.
  - (* claimed targets *)
    intros p o Np Ho Hb. rewrite Hget in Ho. rewrite Hblt in Hb. pose proof (XB p o Ho Hb) as Y.
    destruct (op_raised o); cbn [negb].
    + destruct (isfile (w_fs w') p) eqn:Ef; [|reflexivity]. apply isfile_lookup in Ef. destruct Ef as [g Hg].
      exfalso. exact (Y g (Fdown p g Np Hg)).
    + apply isfile_lookup in Y. destruct Y as [g Hg]. apply isfile_lookup. exists g. apply Fup; auto.
      intros [Z _]. rewrite Hhas in Z. unfold cache_has_file, cache_get_file in *.
      destruct (files_get (c_files (w_new w2)) p); congruence.
  - (* served records *)
    intros p Np Hh Hb g. destruct (A0 p Hh) as [o Ho]. rewrite Hget in Ho. rewrite Hblt in Hb.
    pose proof (XS p o Ho Hb Np g) as Y. unfold origfile in Y. rewrite <- Y. split.
    + apply Fdown. exact Np.
    + intro Hg. apply Fup; auto. intros [Z _]. congruence.
  - (* outputs of the previous build that were not produced again *)
    intros p Np Hh Hc g Hg.
    assert (Y : forall g', lookup (w_fs wa) p <> Some (NFile g')).
    { apply Rma; [apply cache_created_file_In; exact Hc|]. apply Hro. auto. }
    assert (Z : lookup (w_fs wb) p = Some (NFile g)) by (destruct (Rc3 p) as [Z|(_ & _ & Z)]; congruence).
    rewrite Fb1 in Z. exact (Y g Z).
  - (* everything else *)
    intros p Np Hh Hc g. rewrite Hhas in Hh.
    assert (Hnb : ~ In p (c_built (w_new w2))) by (intro Y; destruct (I5 p Y) as (Z & _); congruence).
    assert (Y : lookup (w_fs w2) p = Some (NFile g) <-> lookup fs0 p = Some (NFile g)).
    { split.
      - intro Hg. destruct (I4 p g Hg) as [Z|Z]; [exact Z | contradiction].
      - intro Ho. destruct (I1 p g Ho) as [Z|Z]; [exact Z|]. exfalso.
        destruct (X6 p g Z) as [K|[K|(K & _)]]; [contradiction | contradiction | congruence]. }
    rewrite <- Y. split; [apply Fdown; exact Np|]. intro Hg. apply Fup; auto. intros [_ Z]. congruence.
  - (* directories afterwards *)
    intros d Hd.
    assert (Hdb : lookup (w_fs wb) d = Some NDir) by (destruct (Rc3 d) as [Y|(_ & _ & Y)]; congruence).
    assert (Hd4 : lookup (w_fs w4) d = Some NDir).
    { rewrite Fb1 in Hdb. destruct (Fra d) as [Y|(g & _ & Y & _)]; congruence. }
    assert (Nd : d <> cf) by (intro E; subst d; congruence).
    rewrite (L24 d Nd) in Hd4.
    destruct (D2 d Hd4) as [Y|[[Y|Y]|Y]]; [left; exact Y | right; left; apply Hdirs; left; exact Y | | right; left; apply Hdirs; right; exact Y].
    destruct (in_dec path_eq_dec d ccd) as [Hc|Hc]; [right; left; apply Hdirs; right; exact Hc|].
    destruct d as [|n dd]; [left; reflexivity|].
    right; right. split; [exact Y|]. apply Rc4; [|discriminate | exact Hd].
    subst L. apply In_union_paths. left. rewrite Eerr. apply In_fold_del. split; [exact Y|].
    intro K. apply filter_In in K. destruct K as [K _]. contradiction.
  - (* recorded directories exist *)
    intros d Hd. apply Hdirs in Hd. destruct Hd as [Hd|Hd].
    + destruct (C1 d (Z2 d Hd)) as [Y _]. pose proof (Dir4b d (Dir24 d Y)) as Yb.
      destruct (Rc3 d) as [K|(K & _)]; [congruence|]. exfalso.
      subst L. apply In_union_paths in K. destruct K as [K|K].
      * rewrite Eerr in K. apply In_fold_del in K. destruct K as [K _]. exact (Z4 d Hd K).
      * destruct (Xb d K) as [_ K2]. apply K2. split.
        -- rewrite Cnt. exact (Z2 d Hd).
        -- apply isdir_lookup. rewrite <- Fb1. exact Yb.
    + destruct (A4 d Hd) as (_ & Hne & Hbel).
      assert (Hbcf : below d cf = true).
      { destruct cf as [|n0 d0]; cbn [dirname tl] in Hbel.
        - destruct Hbel as [Hbel|Hbel]; [contradiction | discriminate Hbel].
        - destruct Hbel as [->|Hbel]; [apply below_self_cons | apply below_cons; exact Hbel]. }
      assert (Wf4' : fs_wf (w_fs w4)) by (apply Wf4, Wf3, Wf2).
      assert (Lcfb : lookup (w_fs w') cf = Some (NFile fj)).
      { assert (Y : lookup (w_fs wa) cf = Some (NFile fj)).
        { destruct (Fra cf) as [Z|(g' & _ & _ & Z)]; [congruence|]. destruct Z as (Z & _). congruence. }
        rewrite <- Fb1 in Y. destruct (Rc3 cf) as [Z|(_ & Z & _)]; congruence. }
      apply (red_keeps_chain _ _ _ _ E5 Hfb cf (NFile fj) Lcfb); [|exact Hbcf].
      intros a Ha. apply Dir4b. exact (wf_ancestor_dir _ Wf4' cf (NFile fj) a Lcf Ha).
  - (* directories of the pre-state *)
    intros d Hd. destruct (D3 d Hd) as [Y|Y]; [|right; exact Y].
    pose proof (Dir4b d (Dir24 d Y)) as Yb.
    destruct (Rc3 d) as [K|(K & _)]; [left; congruence|]. right.
    subst L. apply In_union_paths in K. destruct K as [K|K].
    + rewrite Eerr in K. apply In_fold_del in K. destruct K as [K _].
      destruct (DW d (or_introl (or_intror K))) as [W|W]; [exact W | contradiction].
    + exact (proj1 (Xb d K)).
  - (* a recorded directory of the pre-state was recorded before *)
    intros d Hd Hd0. apply Hdirs in Hd.
    assert (W : Wp fs0 old d).
    { apply DW. destruct Hd as [Hd|Hd]; [left; left; exact Hd | right; right; right; exact Hd]. }
    destruct W as [W|W]; [exact W | contradiction].
Qed.

End CommitAccept.

(* ================================================================== *)
(* 4. The theorems                                                     *)
(* ================================================================== *)

Theorem commit_leaves : forall cf nm vers svers root w w' v (P : path -> Prop),
  w_faults w = [] ->
  sanitize vers = Some svers ->
  AllTargets P root ->
  (* C: the pre-state is well formed *)
  fs_wf (w_fs w) ->
  (* A: neither a regular file of the pre-state nor a target is a proper ancestor of a
     target, of the cache file or of a target recorded in the old cache *)
  (forall a t, (P t \/ t = cf \/ In t (cache_targets (old_cache_of (w_fs w) cf nm svers))) ->
     below a t = true -> (forall f, lookup (w_fs w) a <> Some (NFile f)) /\ ~ P a) ->
  (* E: the directories recorded by the old cache have creatable names *)
  (forall d, In d (c_dirs (old_cache_of (w_fs w) cf nm svers)) -> path_ok d = true) ->
  run_build cf nm vers root w = (w', Done (inl v)) ->
  CommitPost (w_fs w) (old_cache_of (w_fs w) cf nm svers) cf w'.
Proof.
  intros cf nm vers svers root w w' v P Hf Hsv Hat Hwf HA HE H.
  set (old := old_cache_of (w_fs w) cf nm svers) in *.
  unfold run_build in H.
  destruct (m_build cf nm vers (fun w0 => run root None [] w0) w) as [w1 r1] eqn:E.
  inversion H; subst w' r1; clear H.
  assert (HA2 : forall a t, Tgt old cf P t -> below a t = true -> ~ P a) by (intros a t Ht Hb; exact (proj2 (HA a t Ht Hb))).
  assert (HS : forall a t, Tgt old cf P t -> below a t = true -> notorig (w_fs w) a) by (intros a t Ht Hb; exact (proj1 (HA a t Ht Hb))).
  assert (Hroot : forall Y, pres (GPO (w_fs w) old cf P Y None) (fun w0 => run root None [] w0)).
  { intro Y. exact (run_G (w_fs w) old cf P Y HA2 HS root Hat None []). }
  assert (G : forall old0, old0 = old -> m_accept cf nm svers (fun w0 => run root None [] w0) w old0 = (w1, Done (inl v)) ->
              CommitPost (w_fs w) old cf (end_build w1)).
  { intros old0 -> Y.
    exact (m_accept_commit (w_fs w) old cf P HA2 HS Hwf HE nm svers _ w w1 v eq_refl Hf Hroot Y). }
  rewrite m_build_unfold, Hsv in E. subst old. unfold old_cache_of in G |- *.
  destruct (lookup (w_fs w) cf) as [[g|]|].
  - destruct (cache_of_json (f_json g)) as [old0| |]; try discriminate E.
    destruct (String.eqb (c_name old0) nm); [|discriminate E]. exact (G old0 eq_refl E).
  - discriminate E.
  - exact (G _ eq_refl E).
Qed.

(* C10: the parent directories that a failed build_file call created (error_created_dirs of
   BuildDirs, not registered again by a later call) are removed when empty by the end of the
   build *)
Corollary failed_parents_removed_when_empty : forall fs0 old cf w',
  CommitPost fs0 old cf w' ->
  forall d, In d (bd_err_created (w_bd w')) -> ~ In d (c_dirs (w_new w')) ->
    lookup (w_fs w') d = Some NDir ->
    lookup fs0 d = Some NDir \/ exists n, lookup (w_fs w') (n :: d) <> None.
Proof.
  intros fs0 old cf w' (_ & _ & _ & _ & _ & _ & B1 & _) d Hd Hn Hdir.
  destruct (B1 d Hdir) as [Y|[Y|(_ & Y)]]; [left; exact Y | contradiction | right; exact Y].
Qed.

(* ---- clean after the committed build ---- *)

Definition clear_faults (w : world) : world :=
  {| w_fs := w_fs w; w_clock := w_clock w; w_nextid := w_nextid w; w_old := w_old w; w_new := w_new w;
     w_bd := w_bd w; w_backups := w_backups w; w_lost := w_lost w; w_hash := w_hash w;
     w_cachefile := w_cachefile w; w_log := w_log w; w_faults := []; w_effects := w_effects w |}.

Section CleanAfter.

Variable fs0 : fsT.
Variable old : cache.
Variable cf : path.
Variable w' : world.
Hypothesis Hwf0 : fs_wf fs0.
Hypothesis HC : CommitPost fs0 old cf w'.

Let newc := w_new w'.
Let fc := ref_clean (w_fs w') cf (prev_of_cache newc).

Lemma clean_lookup_from : forall p x, lookup fc p = Some x -> lookup (w_fs w') p = Some x.
Proof.
  intros p x H. subst fc. destruct (lookup (w_fs w') p) as [[g|]|] eqn:E.
  - destruct (ref_clean_files (w_fs w') cf (prev_of_cache newc) p g E) as [Y|(Y & _)]; congruence.
  - destruct (ref_clean_dirs (w_fs w') cf (prev_of_cache newc) p E) as [Y|(Y & _)]; congruence.
  - rewrite (ref_clean_no_new (w_fs w') cf (prev_of_cache newc) p E) in H. discriminate H.
Qed.

(* every regular file that survives clean was there, as the same node, before the build *)
Theorem clean_after_commit_files : forall p g, lookup fc p = Some (NFile g) -> lookup fs0 p = Some (NFile g).
Proof.
  intros p g H. pose proof (clean_lookup_from _ _ H) as Hw.
  destruct HC as (A0 & _ & A2 & A3 & A4 & A5 & _). fold newc in A0, A2, A3, A4, A5.
  assert (Np : p <> cf).
  { intro E. subst p. subst fc. rewrite ref_clean_removes_cache in H; [discriminate H|]. apply isfile_lookup. eauto. }
  assert (Nout : ~ In p (cache_created_files newc)).
  { intro Y. subst fc. rewrite (ref_clean_removes_outputs (w_fs w') cf (prev_of_cache newc) p) in H;
      [discriminate H | exact Y | apply isfile_lookup; eauto]. }
  destruct (cache_has_file newc p) eqn:Eh.
  - destruct (A0 p Eh) as [o Ho].
    destruct (in_dec path_eq_dec p (c_built newc)) as [Hb|Hb].
    + exfalso. pose proof (A2 p o Np Ho Hb) as Y.
      assert (Z : isfile (w_fs w') p = true) by (apply isfile_lookup; eauto). rewrite Z in Y.
      apply Nout. apply cache_created_file_In. unfold cache_created_file. rewrite Ho. symmetry. exact Y.
    + apply (A3 p Np Eh Hb g). exact Hw.
  - destruct (cache_created_file old p) eqn:Ec.
    + exfalso. exact (A4 p Np Eh Ec g Hw).
    + apply (A5 p Np Eh Ec g). exact Hw.
Qed.

(* a recorded directory that survives clean is not empty *)
Lemma clean_recorded_nonempty : forall d, In d (c_dirs newc) -> d <> [] -> lookup fc d = Some NDir ->
  exists n, lookup fc (n :: d) <> None.
Proof.
  intros d Hd Hne Hdir. subst fc. unfold ref_clean in *. cbn [pv_outputs pv_dirs prev_of_cache] in *.
  set (fs2 := try_remove (fold_left try_remove (cache_created_files newc) (w_fs w')) cf) in *.
  set (wx := set_fs fs2 (clear_faults w')).
  destruct (remove_empty_dirs_runs (c_dirs newc) wx) as (wy & E & F & _); [reflexivity|].
  subst wx. cbn [w_fs set_fs] in F. rewrite <- F in Hdir |- *.
  destruct (remove_empty_dirs_spec _ _ _ _ E eq_refl) as (_ & _ & _ & _ & R4 & _).
  exact (R4 d Hd Hne Hdir).
Qed.

(* a directory that survives clean was a directory before the build -- unless it is, or lies
   above, an error-created directory that _commit could not remove because it was not empty *)
Theorem clean_after_commit_dirs : forall d, lookup fc d = Some NDir ->
  lookup fs0 d = Some NDir \/
  exists e, (e = d \/ below d e = true) /\ In e (bd_err_created (w_bd w')) /\ ~ In e (c_dirs newc) /\
            lookup (w_fs w') e = Some NDir.
Proof.
  pose proof HC as (_ & _ & _ & _ & _ & _ & B1 & _). fold newc in B1.
  assert (G : forall k d, list_max (map (@List.length name) (c_dirs newc)) < List.length d + k ->
              lookup fc d = Some NDir ->
              lookup fs0 d = Some NDir \/
              exists e, (e = d \/ below d e = true) /\ In e (bd_err_created (w_bd w')) /\ ~ In e (c_dirs newc) /\
                        lookup (w_fs w') e = Some NDir).
  { induction k as [|k IH]; intros d Hk Hd; pose proof (clean_lookup_from _ _ Hd) as Hw.
    - destruct (in_dec path_eq_dec d (c_dirs newc)) as [Hc|Hc].
      + pose proof (length_le_max _ _ Hc). lia.
      + destruct (B1 d Hw) as [Y|[Y|(Y & _)]]; [left; exact Y | contradiction|].
        right. exists d. split; [left; reflexivity|]. split; [exact Y|]. split; assumption.
    - destruct (in_dec path_eq_dec d (c_dirs newc)) as [Hc|Hc].
      + destruct d as [|n0 d0]; [left; reflexivity|].
        destruct (clean_recorded_nonempty _ Hc ltac:(discriminate) Hd) as [n Hn].
        destruct (lookup fc (n :: n0 :: d0)) as [[g|]|] eqn:Ec; [| |contradiction].
        * left. pose proof (clean_after_commit_files _ _ Ec) as Y. exact (Hwf0 _ _ Y).
        * destruct (IH (n :: n0 :: d0)) as [Y|(e & Y1 & Y2)]; [cbn [List.length] in *; lia | exact Ec | |].
          -- left. exact (Hwf0 _ _ Y).
          -- right. exists e. split; [|exact Y2]. right.
             destruct Y1 as [->|Y1]; [apply below_self_cons|]. eapply below_trans; [apply below_self_cons | exact Y1].
      + destruct (B1 d Hw) as [Y|[Y|(Y & _)]]; [left; exact Y | contradiction|].
        right. exists d. split; [left; reflexivity|]. split; [exact Y|]. split; assumption. }
  intros d Hd. apply (G (S (list_max (map (@List.length name) (c_dirs newc)))) d); [lia | exact Hd].
Qed.

End CleanAfter.

Lemma ref_clean_ext : forall fs cf pv pv', pv_outputs pv = pv_outputs pv' -> pv_dirs pv = pv_dirs pv' ->
  ref_clean fs cf pv = ref_clean fs cf pv'.
Proof. intros fs cf pv pv' E1 E2. unfold ref_clean. rewrite E1, E2. reflexivity. Qed.

(* C12 after a committed build: FileBuilder.clean removes every file the build created and
   every directory it created (up to non-empty error-created directories), provided the cache
   file reads back with the outputs and created directories that were written *)
Theorem clean_after_commit : forall fs0 old cf w' nm' f c',
  fs_wf fs0 -> CommitPost fs0 old cf w' -> w_faults w' = [] ->
  lookup (w_fs w') cf = Some (NFile f) -> cache_of_json (f_json f) = ReadOk c' ->
  cache_created_files c' = cache_created_files (w_new w') -> c_dirs c' = c_dirs (w_new w') ->
  (match nm' with Some n => String.eqb (c_name c') n | None => true end) = true ->
  exists w'', m_clean cf nm' w' = (w'', Done (inl PNone)) /\
    (forall p g, lookup (w_fs w'') p = Some (NFile g) -> lookup fs0 p = Some (NFile g)) /\
    (forall d, lookup (w_fs w'') d = Some NDir ->
       lookup fs0 d = Some NDir \/
       exists e, (e = d \/ below d e = true) /\ In e (bd_err_created (w_bd w')) /\ ~ In e (c_dirs (w_new w')) /\
                 lookup (w_fs w') e = Some NDir).
Proof.
  intros fs0 old cf w' nm' f c' Hwf HC Hf Hl Hc E1 E2 Hn.
  destruct (clean_exact cf nm' w' f c' Hf Hl Hc Hn) as (w'' & Ec & Fc). exists w''. split; [exact Ec|].
  rewrite Fc, (ref_clean_ext _ _ (prev_of_cache c') (prev_of_cache (w_new w')) E1 E2). split.
  - exact (clean_after_commit_files fs0 old cf w' HC).
  - exact (clean_after_commit_dirs fs0 old cf w' Hwf HC).
Qed.
