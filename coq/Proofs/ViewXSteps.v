(* Proofs/ViewXSteps.v — C04, reachability: XInv is preserved by the steps that touch one
   live target: claiming / finishing / aborting it (w_new), writing, removing or renaming
   away its file; and XInv only looks at five fields of the world. *)
From Coq Require Import List String Ascii NArith ZArith Bool Arith Lia.
From FB.Base Require Import PyVal Fs.
From FB.Model Require Import Types Monad CreatedFiles BuildDirs SimpleOps Builder.
From FB.Proofs Require Import FsLemmas CleanLaws JsonLaws CoreLawsChildren
     ViewDefs ViewLemmas ViewScan ViewQueries ViewFrame ViewXDefs.
Import ListNotations.
Open Scope list_scope.

Lemma invis_unfold : forall w a,
  invis w a = match lookup (w_fs w) a with Some (NFile _) => hid w a | Some NDir => dead w a | None => true end.
Proof. reflexivity. Qed.

(* ------------------------------------------------------------------ same tree and record, other hidden set *)
Section HidChange.
  Variables (T : list path) (w w' : world) (p : path).
  Hypothesis HX : XInv T w.
  Hypothesis Efs : w_fs w' = w_fs w.
  Hypothesis Ebd : w_bd w' = w_bd w.
  (* on regular files the hidden set changes at most at p, and then p is a live target *)
  Hypothesis Hh : forall a, isfile (w_fs w) a = true -> hid w' a = hid w a \/ (a = p /\ In p T).

  Let HB : BInv w := x_binv _ _ HX.

  Lemma hc_counted : In p T -> in_counts (w_bd w) (dirname p) = true.
  Proof. intro H. eapply X_target_parent; eassumption. Qed.

  Lemma hc_hid : forall a, isfile (w_fs w) a = true -> in_counts (w_bd w) (dirname a) = false -> hid w' a = hid w a.
  Proof.
    intros a H1 H2. destruct (Hh a H1) as [H|[-> H]]; [exact H|]. rewrite (hc_counted H) in H2. discriminate.
  Qed.

  Lemma hc_dead : forall x, dead w' x = dead w x.
  Proof.
    apply (depth_ind (w_fs w)). intros x IH. rewrite (dead_unfold w' x), (dead_unfold w x), Efs, Ebd.
    destruct (trk (w_bd w) x) eqn:Et; [cbn [andb]|reflexivity].
    destruct (lookup (w_fs w) x) as [[f|]|]; try reflexivity.
    apply forallb_ext_in. intros m Hm. rewrite !invis_unfold, Efs.
    destruct (lookup (w_fs w) (m :: x)) as [[g|]|] eqn:El; [|apply IH; exact Hm|reflexivity].
    apply hc_hid; [unfold isfile; rewrite El; reflexivity|]. cbn [dirname tl].
    apply trk_true_cases in Et. tauto.
  Qed.

  Lemma hc_invis : forall a, a <> p \/ isfile (w_fs w) a = false -> invis w' a = invis w a.
  Proof.
    intros a Ha. rewrite !invis_unfold, Efs, hc_dead.
    destruct (lookup (w_fs w) a) as [[g|]|] eqn:El; try reflexivity.
    assert (Hf: isfile (w_fs w) a = true) by (unfold isfile; rewrite El; reflexivity).
    destruct (Hh a Hf) as [H|[H _]]; [exact H|]. destruct Ha as [Ha|Ha]; congruence.
  Qed.

  Theorem hid_change_XInv : XInv T w'.
  Proof.
    constructor; rewrite ?Efs, ?Ebd.
    - constructor; rewrite ?Efs, ?Ebd.
      + apply (bi_wf _ HB).
      + apply (bi_root _ HB).
      + apply (bi_counts_up _ HB).
      + intros x H1 H2. rewrite hc_dead. apply (bi_removed _ HB x H1 H2).
      + intros a H1 H2 H3. rewrite (hc_hid a H2 H3). apply (bi_rf_hid _ HB a H1 H2 H3).
      + intros a H1 H2 H3. rewrite (hc_hid a H1 H3) in H2. apply (bi_hid_rf _ HB a H1 H2 H3).
      + apply (bi_rf_trk _ HB).
      + intros q x H1 H2. rewrite hc_dead. apply (bi_exists _ HB q x H1 H2).
    - apply (x_sinv _ _ HX).
    - apply (x_keys _ _ HX).
    - apply (x_pos _ _ HX).
    - apply (x_count _ _ HX).
    - apply (x_cdir _ _ HX).
    - apply (x_ncdir _ _ HX).
    - intros t Ht. rewrite hc_dead. apply (x_tgt _ _ HX t Ht).
    - intros x m H1 H2. destruct (x_kids _ _ HX x m H1 H2) as [H|[H|H]]; [left; exact H|right; left; exact H|].
      destruct (path_eqb (m :: x) p) eqn:E.
      + apply path_eqb_eq in E.
        destruct (isfile (w_fs w) (m :: x)) eqn:Ef.
        * destruct (Hh _ Ef) as [H'|[_ H']].
          -- right. right. rewrite invis_unfold, Efs in *. unfold isfile in Ef.
             destruct (lookup (w_fs w) (m :: x)) as [[g|]|]; try discriminate. congruence.
          -- right. left. rewrite E. exact H'.
        * right. right. rewrite hc_invis; [exact H|right; exact Ef].
      + right. right. rewrite hc_invis; [exact H|left; apply path_eqb_neq; exact E].
    - apply (x_cc _ _ HX).
    - intros a H1 H2 H3. destruct (Hh a H1) as [H|[-> H]]; [|contradiction]. rewrite H in H2.
      apply (x_hid_rf _ _ HX a H1 H2 H3).
    - intros a H1 H2. pose proof (x_rf_hid _ _ HX a H1 H2) as H.
      destruct (Hh a H2) as [H'|[-> H']]; [congruence|].
      destruct (x_tgt _ _ HX p H') as (_ & X & _). congruence.
  Qed.
End HidChange.

(* XInv only looks at the tree, the BuildDirs record and the three fields behind [hid] *)
Theorem XInv_fields : forall T w w', XInv T w ->
  w_fs w' = w_fs w -> w_bd w' = w_bd w -> w_old w' = w_old w -> w_new w' = w_new w -> w_cachefile w' = w_cachefile w ->
  XInv T w'.
Proof.
  intros T w w' HX E1 E2 E3 E4 E5. apply (hid_change_XInv T w w' [] HX E1 E2).
  intros a _. left. unfold hid. rewrite E3, E4, E5. reflexivity.
Qed.

(* ------------------------------------------------------------------ claims *)
Theorem claim_change_XInv : forall T w p c',
  XInv T w -> In p T \/ isfile (w_fs w) p = false ->
  (forall a, a <> p -> files_get (c_files c') a = files_get (c_files (w_new w)) a) ->
  XInv T (set_new c' w).
Proof.
  intros T w p c' HX Hp Hf. apply (hid_change_XInv T w (set_new c' w) p HX); try reflexivity.
  intros a Ha. destruct (path_eqb a p) eqn:E.
  - apply path_eqb_eq in E. subst a. destruct Hp as [Hp|Hp]; [right; auto|congruence].
  - left. apply path_eqb_neq in E. unfold hid, cache_has_file, cache_get_file. cbn [w_new w_old w_cachefile set_new].
    rewrite (Hf a E). reflexivity.
Qed.

Corollary new_start_building_file_XInv : forall T w p w1 r,
  XInv T w -> In p T \/ isfile (w_fs w) p = false -> new_start_building_file p w = (w1, r) -> XInv T w1.
Proof.
  intros T w p w1 r HX Hp H. unfold new_start_building_file, new_assert_no_file, bind, get, modify in H.
  destruct (cache_has_file (w_new w) p); cbn in H; inversion H; subst; [exact HX|].
  apply (claim_change_XInv T w p); [exact HX|exact Hp|]. intros a Ha. cbn. apply files_get_set_other. exact Ha.
Qed.

Corollary new_finish_building_file_XInv : forall T w p o w1 r,
  XInv T w -> In p T \/ isfile (w_fs w) p = false -> new_finish_building_file p o w = (w1, r) -> XInv T w1.
Proof.
  intros T w p o w1 r HX Hp H. unfold new_finish_building_file, modify in H. inversion H; subst.
  apply (claim_change_XInv T w p); [exact HX|exact Hp|]. intros a Ha. cbn. apply files_get_set_other. exact Ha.
Qed.

Corollary new_abort_building_file_XInv : forall T w p w1 r,
  XInv T w -> In p T \/ isfile (w_fs w) p = false -> new_abort_building_file p w = (w1, r) -> XInv T w1.
Proof.
  intros T w p w1 r HX Hp H. unfold new_abort_building_file, modify in H. inversion H; subst.
  apply (claim_change_XInv T w p); [exact HX|exact Hp|]. intros a Ha. cbn. apply files_get_del_other. exact Ha.
Qed.

(* ------------------------------------------------------------------ the file of a live target changes *)
Theorem target_change_XInv : forall T w p fs',
  XInv T w -> In p T -> fs_wf fs' ->
  (forall q, q <> p -> lookup fs' q = lookup (w_fs w) q) ->
  isdir (w_fs w) p = false -> isdir fs' p = false ->
  XInv T (set_fs fs' w).
Proof.
  intros T w p fs' HX Hin Hwf Hoth Hd1 Hd2. pose proof (x_binv _ _ HX) as HB.
  pose proof (X_target_parent _ _ _ HX Hin) as Hc.
  destruct (target_change_BInv w p fs' HB Hc Hwf Hoth Hd1 Hd2) as [HB' Hdead].
  assert (Hinv: forall a, a <> p -> invis (set_fs fs' w) a = invis w a).
  { intros a Ha. rewrite !invis_unfold. cbn [w_fs set_fs]. rewrite (Hoth a Ha), Hdead. reflexivity. }
  constructor; cbn [w_fs w_bd set_fs].
  - exact HB'.
  - apply (x_sinv _ _ HX).
  - apply (x_keys _ _ HX).
  - apply (x_pos _ _ HX).
  - apply (x_count _ _ HX).
  - intros x H. destruct (path_eqb x p) eqn:E; [apply path_eqb_eq in E; subst; right; left; exact Hin|].
    apply path_eqb_neq in E. unfold isdir, lexists. rewrite (Hoth x E). apply (x_cdir _ _ HX x H).
  - intros x H1 H2. pose proof (x_ncdir _ _ HX x H1 H2) as H.
    assert (E: x <> p) by (intro; subst; congruence). unfold isdir. rewrite (Hoth x E). exact H.
  - intros t Ht. destruct (x_tgt _ _ HX t Ht) as (A & B & C). split; [exact A|]. split; [exact B|].
    rewrite Hdead. destruct (path_eqb t p) eqn:E; [apply path_eqb_eq in E; subst; congruence|].
    apply path_eqb_neq in E. unfold isdir. rewrite (Hoth t E). exact C.
  - intros x m H1 H2. destruct (path_eqb (m :: x) p) eqn:E; [apply path_eqb_eq in E; rewrite E; right; left; exact Hin|].
    apply path_eqb_neq in E. unfold lexists in H2. rewrite (Hoth _ E) in H2. rewrite (Hinv _ E).
    apply (x_kids _ _ HX x m H1 H2).
  - apply (x_cc _ _ HX).
  - intros a H1 H2 H3. assert (E: a <> p) by (intro; subst; contradiction).
    unfold isfile in H1. rewrite (Hoth a E) in H1. apply (x_hid_rf _ _ HX a H1 H2 H3).
  - intros a H1 H2. assert (E: a <> p).
    { intro; subst. destruct (x_tgt _ _ HX p Hin) as (_ & X & _). congruence. }
    unfold isfile in H2. rewrite (Hoth a E) in H2. apply (x_rf_hid _ _ HX a H1 H2).
Qed.

Corollary write_target_XInv : forall T w p bytes j m i fs',
  XInv T w -> In p T -> write_file (w_fs w) p bytes j m i = inl fs' -> XInv T (set_fs fs' w).
Proof.
  intros T w p bytes j m i fs' HX Hin H. pose proof (x_binv _ _ HX) as HB.
  destruct (write_file_frame _ _ _ _ _ _ _ H) as [[f [Hf _]] Hoth].
  assert (Hnd: isdir (w_fs w) p = false).
  { unfold write_file in H. destruct p as [|n d]; [discriminate|]. unfold isdir.
    destruct (lookup (w_fs w) (n :: d)) as [[g|]|]; try reflexivity. discriminate. }
  apply (target_change_XInv T w p fs'); auto.
  - apply (wf_change_one (w_fs w) fs' p (bi_wf _ HB)); auto.
    + intro; subst; discriminate.
    + intros _. unfold write_file in H. destruct p as [|n d]; [discriminate|]. cbn [dirname tl].
      destruct (lookup (w_fs w) (n :: d)) as [[g|]|] eqn:E; try discriminate.
      * apply (bi_wf _ HB _ _ E).
      * destruct (lookup (w_fs w) d) as [[g|]|]; try discriminate. reflexivity.
    + intros n Hn. exfalso. destruct (lookup (w_fs w) (n :: p)) as [x|] eqn:E; [|congruence].
      pose proof (bi_wf _ HB _ _ E) as Hp. cbn [dirname tl] in Hp. unfold isdir in Hnd. rewrite Hp in Hnd. discriminate.
  - unfold isdir. rewrite Hf. reflexivity.
Qed.

Corollary remove_target_XInv : forall T w p fs',
  XInv T w -> In p T -> isfile (w_fs w) p = true ->
  lookup fs' p = None -> (forall q, q <> p -> lookup fs' q = lookup (w_fs w) q) ->
  XInv T (set_fs fs' w).
Proof.
  intros T w p fs' HX Hin Hf Hp Hoth. pose proof (x_binv _ _ HX) as HB.
  assert (Hnd: isdir (w_fs w) p = false).
  { unfold isfile, isdir in *. destruct (lookup (w_fs w) p) as [[g|]|]; try discriminate; reflexivity. }
  apply (target_change_XInv T w p fs'); auto.
  - apply (wf_change_one (w_fs w) fs' p (bi_wf _ HB)); auto.
    + intro; subst; discriminate.
    + intro H. congruence.
    + intros n Hn. exfalso. destruct (lookup (w_fs w) (n :: p)) as [x|] eqn:E; [|congruence].
      pose proof (bi_wf _ HB _ _ E) as Hp'. cbn [dirname tl] in Hp'. unfold isdir in Hnd. rewrite Hp' in Hnd. discriminate.
  - unfold isdir. rewrite Hp. reflexivity.
Qed.

Print Assumptions claim_change_XInv.
Print Assumptions write_target_XInv.
Print Assumptions remove_target_XInv.
