(* Proofs/SimJ1.v — HASH records in the PREVIOUS cache, part 1: the replay correspondence
   (SimB7.replay_corr / replay_list_corr) with the flag-aware memo invariant HashMemoInv.HInv
   carried along the validation instead of the flag-free ViewDefs.hash_ok of the start world.
   The worlds of the replay are related by ViewDefs.good (which does not carry HashOk); HInv is
   threaded separately: every step of the validation is pres (HXPO false) (HashMemoInv
   is_op_cached_hxf, is_build_file_cached_hxf, dirs_to_make_hs) and hx_HInv moves HInv along.
   The leaf lemmas with HashOk are those of SimG7.                                        *)
From Coq Require Import List String Ascii NArith ZArith Bool Arith Lia.
From FB.Base Require Import PyVal Fs.
From FB.Gen Require Import JsonUtilGen.
From FB.Spec Require Import Prog Ref Oracle Faithful.
From FB.Model Require Import Types Monad CreatedFiles BuildDirs SimpleOps Builder Persist Core.
From FB.Proofs Require Import FsLemmas CleanLaws JsonLaws CoreLawsChildren ReplayLaws BuildFileLaws CmpLaws HashMemoInv CoreLaws1 CoreLaws3 CoreLaws4
     ViewDefs ViewLemmas ViewScan ViewQueries ViewAnswers ViewPres ViewFrame ViewXDefs ViewXCount ViewXErr1 ViewXError
     ViewOverlay ViewOverlay2 ViewH1 ViewH2 ViewH4 ViewH5 ViewH6 ViewR2 ViewR5 ViewK3 ViewK4 ViewK5 ViewK6
     SimB2 SimB3 SimB4 SimB5 SimB6 SimB7 SimG4 SimG7.
Import ListNotations.
Open Scope list_scope.
Open Scope m_scope.

Section ReplayH.
  Variables (hk : bool) (W : list path) (w0 : world) (s : kstate) (p0 : option path).
  Hypothesis HS : Sim3 W w0 s.
  Hypothesis HB : BInv w0.
  Hypothesis HWcl : forall p, mem_path p W = true -> cache_has_file (w_new w0) p = true.
  Hypothesis Hml : maxlen (w_fs w0) < walk_fuel.
  Hypothesis HK : KInv s p0.
  Hypothesis HSD1 : forall p, isdir (w_fs w0) p = true -> visible w0 p = false -> mem_path p (k_staledirs s) = true.
  Hypothesis HSD2 : forall p, mem_path p (k_staledirs s) = true -> lexists (w_fs w0) p = true.

  Notation RRel := (RRel W w0 s).

  Notation fresh := (SimB7.fresh W w0 s).
  Notation sem_ok := (SimB7.sem_ok W w0 s).
  Notation sem_okl := (SimB7.sem_okl W w0 s).
  Notation newt := (SimB7.newt p0).
  Notation post1 := (SimB7.post1 W w0 s).

  (* ---------------------------------------------------------------- lists *)
  Lemma go_corr_H : forall subs,
    Forall (fun o => forall St Tl cf r M w w' res,
              rec_ok hk St o = true -> sem_ok o -> NoDup (regp o) -> newt Tl (regp o) ->
              good w0 w -> (hk = true -> HInv w) -> RRel St Tl cf r M -> is_op_cached o cf w = (w', res) ->
              post1 St Tl cf r (regp o) (adp o) (kreplay s o r) w' res) subs ->
    forall St Tl cf r M w w' res,
      forallb (rec_ok hk St) subs = true -> sem_okl subs -> NoDup (flat_map regp subs) -> newt Tl (flat_map regp subs) ->
      good w0 w -> (hk = true -> HInv w) -> RRel St Tl cf r M -> GO subs cf w = (w', res) ->
      post1 St Tl cf r (flat_map regp subs) (flat_map adp subs) (kreplay_list s subs r) w' res.
  Proof.
    intros subs H. induction H as [|x rest Hx Hrest IH]; intros St Tl cf r M w w' res Hok Hsem Hnd Hnew G HH HR Hgo.
    - cbn [GO] in Hgo. inversion Hgo; subst. split; [exact G|]. exists true, cf. split; [reflexivity|].
      exists r, Tl, M. cbn [kreplay_list flat_map]. split; [reflexivity|]. split; [exact HR|].
      split; [intros y Hy; left; exact Hy|]. split; [intros t Ht; left; exact Ht|]. split; [intros t Ht; exact Ht|intros t []].
    - cbn [GO] in Hgo. cbn [forallb] in Hok. apply andb_true_iff in Hok. destruct Hok as [Hok1 Hok2].
      cbn [flat_map] in Hnd, Hnew |- *.
      destruct (NoDup_app_parts _ _ Hnd) as (Hnd1 & Hnd2 & Hdisj).
      assert (Hsem1: sem_ok x) by (intros y Hy; apply Hsem; cbn [flat_map]; apply in_or_app; left; exact Hy).
      assert (Hsem2: sem_okl rest) by (intros y Hy; apply Hsem; cbn [flat_map]; apply in_or_app; right; exact Hy).
      assert (Hnew1: newt Tl (regp x)) by (intros t Ht; apply Hnew; apply in_or_app; left; exact Ht).
      unfold bind in Hgo. destruct (is_op_cached x cf w) as [w1 r1] eqn:E1.
      assert (HH1: hk = true -> HInv w1) by (intro E; apply (hx_HInv false w w1 (is_op_cached_hxf x cf w w1 r1 E1) (HH E))).
      destruct (Hx St Tl cf r M w w1 r1 Hok1 Hsem1 Hnd1 Hnew1 G HH HR E1) as (G1 & b1 & cf1 & -> & P1).
      cbn [fst snd] in Hgo. cbn [kreplay_list]. destruct b1.
      + destruct P1 as (r1' & Tl1 & M1 & K1 & R1 & F1 & T1 & T1' & A1).
        rewrite K1.
        assert (Hnew2: newt Tl1 (flat_map regp rest)).
        { intros t Ht. split; [|apply Hnew; apply in_or_app; right; exact Ht].
          intro Hin. destruct (T1 t Hin) as [K|K]; [|apply (Hdisj t K Ht)].
          destruct (Hnew t (in_or_app _ _ _ (or_intror Ht))) as [Kn _]. exact (Kn K). }
        destruct (IH St Tl1 cf1 r1' M1 w1 w' res Hok2 Hsem2 Hnd2 Hnew2 G1 HH1 R1 Hgo) as (G2 & b2 & cf2 & -> & P2).
        split; [exact G2|]. exists b2, cf2. split; [reflexivity|]. destruct b2; [|exact P2].
        destruct P2 as (r2' & Tl2 & M2 & K2 & R2 & F2 & T2 & T2' & A2).
        exists r2', Tl2, M2. split; [exact K2|]. split; [exact R2|]. split; [|split; [|split]].
        * intros y Hy. destruct (F2 y Hy) as [K|K]; [|right; apply in_or_app; right; exact K].
          destruct (F1 y K) as [K'|K']; [left; exact K'|right; apply in_or_app; left; exact K'].
        * intros t Ht. destruct (T2 t Ht) as [K|K]; [|right; apply in_or_app; right; exact K].
          destruct (T1 t K) as [K'|K']; [left; exact K'|right; apply in_or_app; left; exact K'].
        * intros t Ht. apply T2'. apply T1'. exact Ht.
        * intros t Ht. cbn [flat_map] in Ht. apply in_app_iff in Ht. destruct Ht as [Ht|Ht]; [apply T2'; apply A1; exact Ht|apply A2; exact Ht].
      + inversion Hgo; subst. split; [exact G1|]. exists false, cf1. split; [reflexivity|]. rewrite P1. reflexivity.
  Qed.

  (* ---------------------------------------------------------------- one record *)
  Lemma fresh_read_of : forall St Tl cf r M q rt, RRel St Tl cf r M -> fresh q rt ->
    fresh_read W (overlay_fs w0 cf) (rp_fs r) q rt.
  Proof.
    intros St Tl cf r M q rt HR HF p f g Eq Hw Hf Hg.
    pose proof (rr_cc _ _ _ _ _ _ _ _ HR) as HC.
    split; [apply (HF p f Eq Hw); left|apply (HF p g Eq Hw); right; apply (rr_w _ _ _ _ _ _ _ _ HR p g Hw Hg)].
    rewrite (lookup_overlay_ov _ _ _ p HC) in Hf. unfold ov in Hf.
    destruct (existsb (is_ancestor p) Tl); [discriminate|].
    destruct (mem_path p (cf_files cf)) eqn:Ef; [exact Hf|].
    destruct p as [|n d]; [cbn in Hf; discriminate|]. rewrite lookup_view in Hf by discriminate.
    destruct (visible w0 (n :: d)); [exact Hf|discriminate].
  Qed.

  Theorem replay_corr_H : forall o St Tl cf r M w w' res,
    rec_ok hk St o = true -> sem_ok o -> NoDup (regp o) -> newt Tl (regp o) ->
    good w0 w -> (hk = true -> HInv w) -> RRel St Tl cf r M -> is_op_cached o cf w = (w', res) ->
    post1 St Tl cf r (regp o) (adp o) (kreplay s o r) w' res.
  Proof.
    induction o as [q rt ex|p c f a k subs rt cr ra sf IH|f a k subs rt ra sf IH] using op_ind';
      intros St Tl cf r M w w' res Hok Hsem Hnd Hnew G HH HR H; cbn [is_op_cached] in H; cbn [rec_ok] in Hok.
    - (* a recorded query *)
      destruct (good_fields _ _ G) as (Ff & Fn & Fo & Fc).
      pose proof (good_BInv _ _ G) as Bw.
      pose proof (rr_cc _ _ _ _ _ _ _ _ HR) as HC.
      assert (Y: yields (is_simple_operation_cached q rt ex cf) w (inl (simple_verdict (rp_fs r) q rt ex))).
      { apply (simple_corr_H hk W w cf (rp_fs r) q rt ex Bw (CInv_good _ _ _ G (cc_cinv _ _ _ HC)) (rr_ovok _ _ _ _ _ _ _ _ HR)).
        - rewrite Ff. exact Hml.
        - intro E. apply (proj1 (HH E)).
        - exact Hok.
        - rewrite (overlay_fs_good _ _ _ G). apply (rr_tree _ _ _ _ _ _ _ _ HR).
        - rewrite (overlay_fs_good _ _ _ G). apply (fresh_read_of _ _ _ _ _ _ _ HR). apply (Hsem (OSimple q rt ex)). left. reflexivity. }
      destruct (bind_yields_inv _ _ _ _ _ _ _ _ Y H) as (w1 & G1 & H1). inversion H1; subst.
      split; [eapply good_trans; eassumption|]. eexists _, cf. split; [reflexivity|].
      rewrite kreplay_simple_verdict. destruct (simple_verdict (rp_fs r) q rt ex); [|reflexivity].
      exists r, Tl, M. split; [reflexivity|]. split; [exact HR|].
      split; [intros y Hy; left; exact Hy|]. split; [intros t Ht; left; exact Ht|]. split; [intros t Ht; exact Ht|intros t []].
    - (* a nested build_file record *)
      pose proof (go_corr_H subs IH) as Hgo. fold GO in H.
      repeat (apply andb_true_iff in Hok; destruct Hok as [Hok ?]).
      rename H0 into Hsubs, H1 into Hcross, H2 into Hcmp, H3 into Hroot, H4 into Htgt, Hok into Hnr.
      unfold tgt_ok in Htgt. apply andb_true_iff in Htgt. destruct Htgt as [Hpok Hplen]. apply Nat.ltb_lt in Hplen.
      destruct p as [|n d]; [discriminate|]. set (p := n :: d) in *.
      destruct (good_fields _ _ G) as (Ff & Fn & Fo & Fc).
      pose proof (rr_cc _ _ _ _ _ _ _ _ HR) as HC. pose proof (cc_cinv _ _ _ HC) as HCI.
      rewrite kreplay_BF.
      apply bind_inv in H. unfold get in H. destruct H as [[w1 [wx [E H]]]|[e [E _]]]; [|discriminate].
      inversion E; subst w1 wx. clear E. rewrite Fn, Fc in H.
      assert (Ecl: mem_path p (rp_claimedF r) || path_eqb p (k_cachefile s) =
                   cache_has_file (w_new w0) p || path_eqb p (w_cachefile w0)).
      { rewrite (rr_clF _ _ _ _ _ _ _ _ HR), (s3_claimsF _ _ _ HS), (s3_cf _ _ _ HS). reflexivity. }
      rewrite Ecl.
      destruct (cache_has_file (w_new w0) p || path_eqb p (w_cachefile w0)) eqn:Ecl0.
      { inversion H; subst. split; [exact G|]. exists false, cf. split; [reflexivity|].
        destruct (negb (kversion_equal s f)); [reflexivity|]. destruct sf; [reflexivity|]. destruct (on_disk s p c cr ra); reflexivity. }
      apply orb_false_iff in Ecl0. destruct Ecl0 as [Hunc Hncf].
      (* version *)
      apply bind_inv in H. rewrite version_equal_run in H. destruct H as [[w1 [ve [Ev H]]]|[e [Ev _]]]; [|discriminate].
      inversion Ev; subst w1 ve. clear Ev. rewrite Fo, Fn in H. rewrite (kversion_sim W w0 s f HS).
      destruct (is_equal (func_version (w_old w0) f) (func_version (w_new w0) f)); cbn [negb] in H |- *.
      2:{ inversion H; subst. split; [exact G|]. exists false, cf. split; reflexivity. }
      (* the output on disk *)
      pose proof (phys_unclaimed W w0 s HS HWcl p ltac:(discriminate) Hunc Hncf) as Ephys.
      pose proof (phys_exists_unclaimed W w0 s HS HWcl HSD1 HSD2 p ltac:(discriminate) Hunc Hncf) as Eex.
      assert (Hokv: exists w2, good w0 w2 /\ (hk = true -> HInv w2) /\
                (if ra then ret true else is_build_file_cached p c cr) w = (w2, inl (if ra then true else is_equal cr (disk_cmp w0 p c)))).
      { destruct ra; [exists w; split; [exact G|split; [exact HH|reflexivity]]|]. cbn [orb] in Hcmp.
        assert (Y: yields (is_build_file_cached p c cr) w (inl (is_equal cr (disk_cmp w p c)))).
        { destruct c.
          - apply is_build_file_cached_spec; [apply (good_BInv _ _ G)|exact Hpok|left; reflexivity].
          - apply is_build_file_cached_spec_H; [apply (good_BInv _ _ G)|exact Hpok|]. apply (proj1 (HH Hcmp)). }
        destruct Y as [w2 [E2 G2]]. exists w2. split; [eapply good_trans; eassumption|].
        split; [intro E; apply (hx_HInv false w w2 (is_build_file_cached_hxf p c cr w w2 _ E2) (HH E))|].
        rewrite E2. unfold disk_cmp. rewrite Ff. reflexivity. }
      destruct Hokv as (w2 & G2 & HH2 & Eok). unfold bind at 1 in H. rewrite Eok in H.
      destruct (good_fields _ _ G2) as (Ff2 & Fn2 & Fo2 & Fc2).
      assert (Eon: on_disk s p c cr ra = (if ra then true else is_equal cr (disk_cmp w0 p c)) && negb (ra && lexists (w_fs w0) p)).
      { unfold on_disk. rewrite Ephys, Eex. destruct ra; cbn [andb negb]; [reflexivity|]. rewrite andb_true_r.
        cbn [orb] in Hnr. apply negb_true_iff in Hnr. unfold disk_cmp.
        destruct (lookup (w_fs w0) p) as [[g|]|]; [reflexivity| |]; symmetry; apply is_equal_pnone_false; exact Hnr. }
      rewrite Eon.
      destruct (if ra then true else is_equal cr (disk_cmp w0 p c)) eqn:Eokv; cbn [negb andb] in H |- *.
      2:{ inversion H; subst. split; [exact G2|]. exists false, cf. split; [reflexivity|]. destruct sf; reflexivity. }
      apply bind_inv in H. unfold get in H. destruct H as [[w3 [wx [E H]]]|[e [E _]]]; [|discriminate].
      inversion E; subst w3 wx. clear E. rewrite Ff2 in H.
      destruct (ra && lexists (w_fs w0) p) eqn:Elex; cbn [negb] in H |- *.
      { inversion H; subst. split; [exact G2|]. exists false, cf. split; [reflexivity|]. destruct sf; reflexivity. }
      destruct sf.
      { inversion H; subst. split; [exact G2|]. exists false, cf. split; reflexivity. }
      cbn [regp app] in Hnd, Hnew |- *.
      (* the directories *)
      pose proof (RRel_te W w0 s _ _ _ _ _ HR) as TE.
      assert (Hpd: path_ok d = true) by (cbn [path_ok forallb] in Hpok; apply andb_true_iff in Hpok; apply Hpok).
      assert (Yd: yields (dirs_to_make (dirname p) (Some cf)) w2 (dtm_res w0 cf d)).
      { rewrite <- (dtm_res_good _ _ cf d G2). apply dirs_to_make_overlay; [apply (good_BInv _ _ G2)|apply (CInv_good _ _ _ G2 HCI)|exact Hpd]. }
      destruct Yd as [w3 [Ed G3]]. pose proof (good_trans _ _ _ G2 G3) as G03.
      assert (HH3: hk = true -> HInv w3) by (intro E; apply (hx_HInv false w2 w3 (hsame_hx false w2 w3 (dirs_to_make_hs _ _ w2 w3 _ Ed)) (HH2 E))).
      apply bind_inv in H. unfold attempt in H. rewrite Ed in H.
      destruct H as [[w4 [dres [E H]]]|[e [E _]]]; [|discriminate]. inversion E; subst w4 dres. clear E.
      change (dirname p) with d. unfold dtm_res in H. rewrite (missing_dirs_te _ _ (w_cachefile w0) d TE), <- (s3_cf _ _ _ HS) in H.
      destruct (missing_dirs (rp_fs r) (k_cachefile s) d) as [dirs|e] eqn:Emiss.
      2:{ cbn [is_os] in H. inversion H; subst. split; [exact G03|]. exists false, cf. split; reflexivity. }
      destruct (missing_made _ _ _ _ Hpd Emiss) as (fs1 & Emk & _). rewrite Emk.
      (* facts about the target *)
      assert (Hfile: ra = false -> exists g, lookup (w_fs w0) p = Some (NFile g)).
      { intros ->. cbn [orb] in Hnr. apply negb_true_iff in Hnr. unfold disk_cmp in Eokv.
        destruct (lookup (w_fs w0) p) as [[g|]|]; [eauto| |]; rewrite (is_equal_pnone_false _ Hnr) in Eokv; discriminate. }
      assert (Hnone: ra = true -> lexists (w_fs w0) p = false) by (intros ->; exact Elex).
      assert (Hnb: existsb (is_ancestor p) Tl = false).
      { destruct (existsb (is_ancestor p) Tl) eqn:E; [|reflexivity]. exfalso.
        apply existsb_exists in E. destruct E as [t [Ht Ha]].
        destruct (rr_st _ _ _ _ _ _ _ _ HR t Ht) as [K|K].
        - rewrite forallb_forall in Hcross. specialize (Hcross t K). apply andb_true_iff in Hcross.
          destruct Hcross as [_ B]. apply negb_true_iff in B. congruence.
        - pose proof (ci_file _ _ HCI _ K) as Hft. apply isfile_lookup in Hft. destruct Hft as [g Hg].
          pose proof (wf_ancestor _ (bi_wf _ HB) t _ p Hg Ha) as Hd.
          destruct ra; [pose proof (Hnone eq_refl) as K2; unfold lexists in K2; rewrite Hd in K2; discriminate|].
          destruct (Hfile eq_refl) as [g' Hg']. congruence. }
      assert (Hnin: ~ In p Tl) by (apply (Hnew p); left; reflexivity).
      assert (Hvf: isfile (view_fs w0) p = false).
      { rewrite isfile_view. unfold vfile. destruct ra.
        - pose proof (Hnone eq_refl) as K. unfold lexists in K. unfold isfile. destruct (lookup (w_fs w0) p); [discriminate|reflexivity].
        - rewrite (hid_unclaimed w0 p Hunc Hncf).
          assert (Hc: cache_created_file (w_old w0) p = true).
          { apply (Hsem (OBuildFile p c f a k subs rt cr false false)); [left; reflexivity|reflexivity]. }
          rewrite Hc. apply andb_false_r. }
      pose proof (start_rel W w0 s HB HWcl St Tl cf r M n d dirs fs1 HR Hpok Hplen Hnin Hnb Hunc Hvf Emiss Emk) as HR1.
      fold p in HR1.
      (* the suboperations *)
      inversion Hnd as [|? ? Hpn Hnd']; subst.
      assert (Hsem': sem_okl subs) by (intros y Hy; apply Hsem; cbn [nodes]; right; exact Hy).
      assert (Hnew': newt (p :: Tl) (flat_map regp subs)).
      { intros t Ht. split; [|apply Hnew; right; exact Ht]. intros [<-|K]; [exact (Hpn Ht)|].
        destruct (Hnew t (or_intror Ht)) as [Kn _]. exact (Kn K). }
      apply bind_inv in H. destruct H as [[w4 [rr [Es H]]]|[e [Es Er]]].
      2:{ exfalso. destruct (Hgo (p :: St) (p :: Tl) _ _ _ w3 w' (inr e) Hsubs Hsem' Hnd' Hnew' G03 HH3 HR1 Es) as (_ & b & cfx & K & _). discriminate. }
      destruct (Hgo (p :: St) (p :: Tl) _ _ _ w3 w4 (inl rr) Hsubs Hsem' Hnd' Hnew' G03 HH3 HR1 Es) as (G4 & b1 & cf1 & Err & P1).
      inversion Err; subst rr. clear Err. cbn [fst snd] in H.
      destruct b1; cbn [negb] in H.
      2:{ inversion H; subst. split; [exact G4|]. exists false, cf1. split; [reflexivity|]. rewrite P1. reflexivity. }
      destruct P1 as (r2 & Tl2 & M2 & K2 & R2 & F2 & T2 & T2' & A2). rewrite K2.
      assert (Hin2: In p Tl2) by (apply T2'; left; reflexivity).
      assert (Hnb2: existsb (is_ancestor p) Tl2 = false).
      { destruct (existsb (is_ancestor p) Tl2) eqn:E; [|reflexivity]. exfalso.
        apply existsb_exists in E. destruct E as [t [Ht Ha]]. destruct (T2 t Ht) as [[<-|K]|K].
        - rewrite is_ancestor_irrefl in Ha. discriminate.
        - assert (existsb (is_ancestor p) Tl = true) by (apply existsb_exists; eauto). congruence.
        - apply in_flat_map in K. destruct K as [sub [Hs Kt]]. rewrite forallb_forall in Hsubs.
          destruct (rec_ok_cross hk sub (p :: St) (Hsubs sub Hs) t Kt p (or_introl eq_refl)) as [A _]. congruence. }
      assert (Hnf2: mem_path p (cf_files cf1) = false).
      { destruct (mem_path p (cf_files cf1)) eqn:E; [|reflexivity]. exfalso. destruct (F2 p E) as [K|K].
        - rewrite cf_started_files in K. apply Hnin. apply (rr_files _ _ _ _ _ _ _ _ HR). exact K.
        - exact (Hpn K). }
      destruct ra.
      + (* the record raised: error_building_file / prune *)
        assert (Hnneed: ~ In p (k_need s)).
        { intro Kn. destruct (ki_claim _ _ HK p Kn) as [Kc|Kc].
          - rewrite (s3_claimsF _ _ _ HS) in Kc. congruence.
          - destruct (Hnew p (or_introl eq_refl)) as [_ Kp]. exact (Kp Kc). }
        destruct (error_rel W w0 s HS HB p0 St Tl2 cf1 r2 M2 n d HK R2 Hin2 Hnf2 Hnb2 Hnneed) as (cf' & M' & Ecf & EF & R3).
        fold p in Ecf, R3. rewrite Ecf in H. inversion H; subst.
        split; [exact G4|]. exists true, cf'. split; [reflexivity|].
        exists (rp_prune r2 p), (rm1 p Tl2), M'. split; [reflexivity|]. split; [exact R3|]. split; [|split; [|split]].
        * intros x Hx. rewrite EF in Hx. destruct (F2 x Hx) as [K|K]; [left; rewrite cf_started_files in K; exact K|right; right; exact K].
        * intros t Ht. pose proof (rm1_in _ _ _ Ht) as Ht2.
          destruct (T2 t Ht2) as [[<-|K]|K]; [|left; exact K|right; right; exact K].
          exfalso. exact (notin_rm1 p Tl2 (rr_nodup _ _ _ _ _ _ _ _ R2) Ht).
        * intros t Ht. apply rm1_other; [apply T2'; right; exact Ht|]. intro; subst t. exact (Hnin Ht).
        * intros t Ht. cbn [adp orb app] in Ht. apply rm1_other; [apply A2; exact Ht|]. intro; subst t. apply Hpn.
          apply in_flat_map in Ht. destruct Ht as [sub [Hs Ht]]. apply in_flat_map. exists sub. split; [exact Hs|apply adp_regp; exact Ht].
      + (* the record succeeded: finished_building_file / the file is put back *)
        destruct (Hfile eq_refl) as [g Hg]. rewrite Ephys, Hg.
        inversion H; subst.
        pose proof (finish_rel W w0 s HWcl St Tl2 cf1 r2 M2 p g R2 Hin2 Hnb2 ltac:(discriminate) Hpok Hplen Hg) as R3.
        split; [exact G4|]. exists true, (cf_finished cf1 p). split; [reflexivity|].
        exists (rp_put r2 p g), Tl2, M2. split; [reflexivity|]. split; [exact R3|]. split; [|split; [|split]].
        * intros x Hx. rewrite cf_finished_files in Hx. apply orb_true_iff in Hx. destruct Hx as [Hx|Hx].
          -- apply path_eqb_eq in Hx. subst x. right. left. reflexivity.
          -- destruct (F2 x Hx) as [K|K]; [left; rewrite cf_started_files in K; exact K|right; right; exact K].
        * intros t Ht. destruct (T2 t Ht) as [[<-|K]|K]; [right; left; reflexivity|left; exact K|right; right; exact K].
        * intros t Ht. apply T2'. right. exact Ht.
        * intros t Ht. cbn [adp orb app] in Ht. destruct Ht as [<-|Ht]; [exact Hin2|apply A2; exact Ht].
    - (* a nested subbuild record *)
      pose proof (go_corr_H subs IH) as Hgo. fold GO in H.
      destruct (good_fields _ _ G) as (Ff & Fn & Fo & Fc).
      rewrite kreplay_SB.
      apply bind_inv in H. rewrite version_equal_run in H. destruct H as [[w1 [ve [Ev H]]]|[e [Ev _]]]; [|discriminate].
      inversion Ev; subst w1 ve. clear Ev. rewrite Fo, Fn in H. rewrite (kversion_sim W w0 s f HS).
      destruct (negb (is_equal (func_version (w_old w0) f) (func_version (w_new w0) f)) || sf) eqn:Et.
      { inversion H; subst. split; [exact G|]. exists false, cf. split; reflexivity. }
      apply bind_inv in H. unfold get in H. destruct H as [[w1 [wx [E H]]]|[e [E _]]]; [|discriminate].
      inversion E; subst w1 wx. clear E. rewrite Fn in H.
      rewrite (rr_clS _ _ _ _ _ _ _ _ HR), (s3_claimsS _ _ _ HS).
      destruct (cache_has_subbuild (w_new w0) (subbuild_key f a k)).
      { inversion H; subst. split; [exact G|]. exists false, cf. split; reflexivity. }
      cbn [regp adp] in Hnd, Hnew |- *.
      assert (Hsem': sem_okl subs) by (intros y Hy; apply Hsem; cbn [nodes]; right; exact Hy).
      apply (Hgo St Tl cf r M w w' res Hok Hsem' Hnd Hnew G HH HR H).
  Qed.

  Corollary replay_list_corr_H : forall subs St Tl cf r M w w' res,
    forallb (rec_ok hk St) subs = true -> sem_okl subs -> NoDup (flat_map regp subs) -> newt Tl (flat_map regp subs) ->
    good w0 w -> (hk = true -> HInv w) -> RRel St Tl cf r M -> are_subs_cached subs cf w = (w', res) ->
    post1 St Tl cf r (flat_map regp subs) (flat_map adp subs) (kreplay_list s subs r) w' res.
  Proof.
    intros subs St Tl cf r M w w' res H1 H2 H3 H4 G HH HR H. rewrite are_subs_cached_GO in H.
    apply (go_corr_H subs) with (M := M) (w := w); try assumption.
    apply Forall_forall. intros o _. intros. eapply replay_corr_H; eassumption.
  Qed.
End ReplayH.

Print Assumptions replay_corr_H.
Print Assumptions replay_list_corr_H.
